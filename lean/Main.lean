import Paho.Driver.Pure
import Paho.Driver.Session
import Paho.Driver.Props
import Paho.Driver.Codec
import Paho.Driver.Decode
import Paho.Driver.Reader
import Paho.Driver.LF
import Paho.Driver.Dispatch
import Paho.Driver.Helpers
import Paho.Driver.Threads
import Paho.Driver.Ws
import Paho.Driver.WsReader
open Paho.Driver

def drivers : List (String × Drv) :=
  [("trie", trieDrv), ("mid", midDrv), ("validate", validateDrv), ("session", sessionDrv), ("session-inv", sessionInvDrv), ("props", propsDrv), ("codec", codecDrv), ("decode", decodeDrv), ("reader", readerDrv), ("loopforever", lfDrv), ("dispatch", dispatchDrv), ("helpers", helpersDrv), ("threads", threadsDrv), ("ws", wsDrv), ("wsbad", wsDrv), ("wsreader", wsReaderDrv)]

def main (args : List String) : IO UInt32 := do
  match args with
  | [name] =>
    match drivers.lookup name with
    | some d =>
      let stdin ← IO.getStdin
      let stdout ← IO.getStdout
      runLoop d stdin stdout d.init
      return 0
    | none => IO.eprintln s!"unknown stream {name}"; return 2
  | _ => IO.eprintln "usage: pahomodel <stream>"; return 2
