import Paho.Driver.WsWriter
open Paho.Driver

def main (args : List String) : IO UInt32 :=
  mainFor [("wswriter", wswDrv), ("tcpwriter", tcpwDrv)] args
