import Paho.Driver.Helpers
open Paho.Driver

def main (args : List String) : IO UInt32 :=
  mainFor [("helpers", helpersDrv)] args
