import Paho.Driver.Decode
open Paho.Driver

def main (args : List String) : IO UInt32 :=
  mainFor [("decode", decodeDrv)] args
