import Paho.Driver.Trie
open Paho.Driver

def main (args : List String) : IO UInt32 :=
  mainFor [("trie", trieDrv)] args
