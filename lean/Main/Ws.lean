import Paho.Driver.Ws
open Paho.Driver

def main (args : List String) : IO UInt32 :=
  mainFor [("ws", wsDrv), ("wsbad", wsDrv)] args
