import Paho.Driver.Dispatch
open Paho.Driver

def main (args : List String) : IO UInt32 :=
  mainFor [("dispatch", dispatchDrv)] args
