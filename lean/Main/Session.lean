import Paho.Driver.Session
open Paho.Driver

def main (args : List String) : IO UInt32 :=
  mainFor [("session", sessionDrv), ("session-inv", sessionInvDrv)] args
