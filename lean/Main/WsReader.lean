import Paho.Driver.WsReader
open Paho.Driver

def main (args : List String) : IO UInt32 :=
  mainFor [("wsreader", wsReaderDrv)] args
