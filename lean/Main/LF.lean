import Paho.Driver.LF
open Paho.Driver

def main (args : List String) : IO UInt32 :=
  mainFor [("loopforever", lfDrv)] args
