import Paho.Driver.Validate
open Paho.Driver

def main (args : List String) : IO UInt32 :=
  mainFor [("validate", validateDrv)] args
