import Paho.Driver.Props
open Paho.Driver

def main (args : List String) : IO UInt32 :=
  mainFor [("props", propsDrv)] args
