import Paho.Driver.Codec
open Paho.Driver

def main (args : List String) : IO UInt32 :=
  mainFor [("codec", codecDrv)] args
