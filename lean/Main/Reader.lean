import Paho.Driver.Reader
open Paho.Driver

def main (args : List String) : IO UInt32 :=
  mainFor [("reader", readerDrv)] args
