import Paho.Driver.Mid
open Paho.Driver

def main (args : List String) : IO UInt32 :=
  mainFor [("mid", midDrv)] args
