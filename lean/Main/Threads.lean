import Paho.Driver.Threads
open Paho.Driver

def main (args : List String) : IO UInt32 :=
  mainFor [("threads", threadsDrv)] args
