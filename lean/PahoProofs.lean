import PahoProofs.Properties.C11
import PahoProofs.Properties.C14
import PahoProofs.Properties.C17
import PahoProofs.Properties.C19
