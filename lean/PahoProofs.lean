import PahoProofs.Properties.C14
