/-
Helper lemmas for C17: variable byte integers, fixed-width integers.
-/
import Paho.Model.Props
import Paho.Spec.Props

namespace Paho.PropsLemmas
open Paho Paho.Spec

/-! ### bit facts on small numbers -/

theorem lor128 : ∀ x < 128, x ||| 128 = x + 128 := by decide
theorem and127_lo : ∀ k < 128, k &&& 127 = k := by decide
theorem and128_lo : ∀ k < 128, k &&& 128 = 0 := by decide
theorem and127_hi : ∀ k < 128, (k + 128) &&& 127 = k := by decide
theorem and128_hi : ∀ k < 128, (k + 128) &&& 128 = 128 := by decide

theorem b8_toNat (k : Nat) (h : k < 256) : (b8 k).toNat = k := by
  simp only [b8, UInt8.toNat_ofNat']
  omega

theorem ofNat_toNat (k : Nat) (h : k < 256) : (UInt8.ofNat k).toNat = k := b8_toNat k h

/-! ### `remLenEnc` unfolding -/

theorem remLenEnc_lt (n : Nat) (h : n < 128) : remLenEnc n = [b8 n] := by
  rw [remLenEnc]
  have h0 : n / 128 = 0 := Nat.div_eq_of_lt h
  have h1 : n % 128 = n := Nat.mod_eq_of_lt h
  simp [Gen.rlBase, h0, h1]

theorem remLenEnc_ge (n : Nat) (h : 128 ≤ n) :
    remLenEnc n = b8 (n % 128 + 128) :: remLenEnc (n / 128) := by
  rw [remLenEnc]
  have h0 : n / 128 > 0 := Nat.div_pos h (by decide)
  have h1 : n % 128 ||| 128 = n % 128 + 128 := lor128 _ (Nat.mod_lt _ (by decide))
  simp [Gen.rlBase, Gen.rlFlag, h0, h1]

theorem remLenEnc_eq_vbi (n : Nat) (h : n ≤ 268435455) : remLenEnc n = Spec.vbi n := by
  unfold Spec.vbi
  by_cases h1 : n < 128
  · simp only [h1, if_true]; exact remLenEnc_lt n h1
  · rw [if_neg h1, remLenEnc_ge n (by omega)]
    by_cases h2 : n < 16384
    · rw [if_pos h2, remLenEnc_lt (n / 128) (by omega)]; rfl
    · rw [if_neg h2, remLenEnc_ge (n / 128) (by omega)]
      have e1 : n / 128 / 128 = n / 16384 := by omega
      by_cases h3 : n < 2097152
      · rw [if_pos h3, remLenEnc_lt (n / 128 / 128) (by omega), e1]; rfl
      · rw [if_neg h3, remLenEnc_ge (n / 128 / 128) (by omega),
          remLenEnc_lt (n / 128 / 128 / 128) (by omega)]
        have e2 : n / 128 / 128 / 128 = n / 2097152 := by omega
        rw [e2, e1]; rfl

theorem vbiEnc_nat (n : Nat) (h : n ≤ 268435455) : vbiEnc (n : Int) = .ok (Spec.vbi n) := by
  unfold vbiEnc
  have : Gen.vbiLo ≤ (n : Int) ∧ (n : Int) ≤ Gen.vbiHi := by
    simp only [Gen.vbiLo, Gen.vbiHi]; omega
  rw [if_pos this, Int.toNat_natCast, remLenEnc_eq_vbi n h]

theorem vbiEnc_isOk (n : Int) : (vbiEnc n).isOk = decide (0 ≤ n ∧ n ≤ 268435455) := by
  unfold vbiEnc
  by_cases h : 0 ≤ n ∧ n ≤ 268435455
  · have h' : Gen.vbiLo ≤ n ∧ n ≤ Gen.vbiHi := h
    rw [if_pos h']; simp [h, Except.isOk, Except.toBool]
  · have h' : ¬ (Gen.vbiLo ≤ n ∧ n ≤ Gen.vbiHi) := h
    rw [if_neg h']; simp [h, Except.isOk, Except.toBool]

theorem vbiEnc_int (n : Int) (h : 0 ≤ n ∧ n ≤ 268435455) : vbiEnc n = .ok (Spec.vbi n.toNat) := by
  have := vbiEnc_nat n.toNat (by omega)
  rwa [Int.toNat_of_nonneg h.1] at this

theorem vbiEnc_err (n : Int) (h : ¬ (0 ≤ n ∧ n ≤ 268435455)) : vbiEnc n = .error .valueError := by
  unfold vbiEnc
  have h' : ¬ (Gen.vbiLo ≤ n ∧ n ≤ Gen.vbiHi) := h
  rw [if_neg h']

/-! ### decoding -/

theorem dec_last (k : Nat) (hk : k < 128) (tl : Bytes) (m v u : Nat) :
    vbiDecAux (UInt8.ofNat k :: tl) m v u = .ok (v + k * m, u + 1) := by
  simp only [vbiDecAux, ofNat_toNat k (by omega), and127_lo k hk, and128_lo k hk, if_true]

theorem dec_cont (k : Nat) (hk : k < 128) (tl : Bytes) (m v u : Nat) :
    vbiDecAux (UInt8.ofNat (k + 128) :: tl) m v u = vbiDecAux tl (m * 128) (v + k * m) (u + 1) := by
  simp only [vbiDecAux, ofNat_toNat (k + 128) (by omega), and127_hi k hk, and128_hi k hk]
  simp

theorem vbi_length (n : Nat) :
    (Spec.vbi n).length = (if n < 128 then 1 else if n < 16384 then 2 else if n < 2097152 then 3 else 4) := by
  unfold Spec.vbi
  split
  · rfl
  · split
    · rfl
    · split <;> rfl

theorem vbiDec_vbi (n : Nat) (h : n ≤ 268435455) (tl : Bytes) :
    vbiDec (Spec.vbi n ++ tl) = .ok (n, (Spec.vbi n).length) := by
  rw [vbi_length]
  unfold Spec.vbi vbiDec
  by_cases h1 : n < 128
  · simp only [if_pos h1, List.cons_append, List.nil_append]
    rw [dec_last n h1]; simp
  · rw [if_neg h1, if_neg h1]
    by_cases h2 : n < 16384
    · rw [if_pos h2, if_pos h2]
      simp only [List.cons_append, List.nil_append]
      rw [dec_cont _ (by omega), dec_last _ (by omega)]
      congr 2; omega
    · rw [if_neg h2, if_neg h2]
      by_cases h3 : n < 2097152
      · rw [if_pos h3, if_pos h3]
        simp only [List.cons_append, List.nil_append]
        rw [dec_cont _ (by omega), dec_cont _ (by omega), dec_last _ (by omega)]
        congr 2; omega
      · rw [if_neg h3, if_neg h3]
        simp only [List.cons_append, List.nil_append]
        rw [dec_cont _ (by omega), dec_cont _ (by omega), dec_cont _ (by omega), dec_last _ (by omega)]
        congr 2; omega

end Paho.PropsLemmas
