/-
Helper lemmas for C11: a flat (non-mutual) view of `toListN`, `WFN`, `PrunedN`, and the
dictionary laws of `lookup`/`setChild`/`eraseChild`.
-/
import PahoProofs.Lemmas.TrieDefs

namespace Paho
namespace Node
variable {V : Type}

/-- structural induction over the nested inductive, in `∀ child ∈ children` form -/
theorem ind {P : Node V → Prop} (h : ∀ c ch, (∀ kn ∈ ch, P kn.2) → P (mk c ch)) : ∀ n, P n := by
  intro n
  refine Node.rec (motive_1 := P) (motive_2 := fun ch => ∀ kn ∈ ch, P kn.2)
    (motive_3 := fun kn => P kn.2) ?_ ?_ ?_ ?_ n
  · intro c ch ih; exact h c ch ih
  · intro kn hkn; cases hkn
  · intro hd tl h1 h2 kn hkn
    rcases List.mem_cons.1 hkn with rfl | hkn
    · exact h1
    · exact h2 kn hkn
  · intro k n h1; exact h1

theorem flatMap_congr' {α β : Type _} {l : List α} {f g : α → List β} (h : ∀ a ∈ l, f a = g a) :
    l.flatMap f = l.flatMap g := by
  induction l with
  | nil => rfl
  | cons a l ih =>
    simp only [List.flatMap_cons]
    rw [h a (by simp), ih (fun b hb => h b (by simp [hb]))]

/-- the content part of `toListN` -/
def contentList (pfx : List Level) : Option V → List (List Level × V)
  | some v => [(pfx, v)]
  | none => []

theorem toListL_eq_flatMap (pfx : List Level) (ch : List (Level × Node V)) :
    toListL pfx ch = ch.flatMap (fun kn => toListN (pfx ++ [kn.1]) kn.2) := by
  induction ch with
  | nil => simp [toListL]
  | cons hd tl ih =>
    obtain ⟨k, n⟩ := hd
    simp [toListL, ih]

theorem toListN_mk (pfx : List Level) (c : Option V) (ch : List (Level × Node V)) :
    toListN pfx (mk c ch) = contentList pfx c ++ ch.flatMap (fun kn => toListN (pfx ++ [kn.1]) kn.2) := by
  rw [← toListL_eq_flatMap]
  cases c <;> simp [toListN, contentList]

theorem toListN_pfx (n : Node V) : ∀ pfx : List Level,
    toListN pfx n = (toListN [] n).map (fun kv => (pfx ++ kv.1, kv.2)) := by
  induction n using Node.ind with
  | h c ch ih =>
    intro pfx
    rw [toListN_mk, toListN_mk]
    simp only [List.map_append, List.map_flatMap, List.nil_append]
    congr 1
    · cases c <;> simp [contentList]
    · apply flatMap_congr'
      intro kn hkn
      rw [ih kn hkn (pfx ++ [kn.1]), ih kn hkn [kn.1]]
      simp

/-- flat one-level unfolding of `toListN []` -/
theorem toListN_nil_mk (c : Option V) (ch : List (Level × Node V)) :
    toListN [] (mk c ch) = contentList [] c ++
      ch.flatMap (fun kn => (toListN [] kn.2).map (fun kv => (kn.1 :: kv.1, kv.2))) := by
  rw [toListN_mk]
  congr 1
  apply flatMap_congr'
  intro kn hkn
  rw [toListN_pfx]
  simp

theorem WFL_iff (ch : List (Level × Node V)) : WFL ch ↔ ∀ kn ∈ ch, WFN kn.2 := by
  induction ch with
  | nil => simp [WFL]
  | cons hd tl ih => obtain ⟨k, n⟩ := hd; simp [WFL, ih]

theorem WFN_mk (c : Option V) (ch : List (Level × Node V)) :
    WFN (mk c ch) ↔ (ch.map (·.1)).Nodup ∧ ∀ kn ∈ ch, WFN kn.2 := by
  rw [WFN, WFL_iff]

theorem PrunedL_iff (ch : List (Level × Node V)) :
    PrunedL ch ↔ ∀ kn ∈ ch, isDead kn.2 = false ∧ PrunedN kn.2 := by
  induction ch with
  | nil => simp [PrunedL]
  | cons hd tl ih => obtain ⟨k, n⟩ := hd; simp [PrunedL, ih, and_assoc]

theorem PrunedN_mk (c : Option V) (ch : List (Level × Node V)) :
    PrunedN (mk c ch) ↔ ∀ kn ∈ ch, isDead kn.2 = false ∧ PrunedN kn.2 := by
  rw [PrunedN, PrunedL_iff]

/-! ### dictionary laws of the child association lists -/

theorem lookup_setChild (k k' : Level) (n : Node V) (ch : List (Level × Node V)) :
    lookup k' (setChild k n ch) = if k' = k then some n else lookup k' ch := by
  induction ch with
  | nil => simp only [setChild, lookup]; split <;> simp_all [eq_comm]
  | cons hd tl ih =>
    obtain ⟨k₀, n₀⟩ := hd
    simp only [setChild]
    split
    · subst_vars; simp only [lookup]; split <;> simp_all [eq_comm]
    · simp only [lookup, ih]; split <;> simp_all [eq_comm]

theorem lookup_some_mem {k : Level} {n : Node V} {ch : List (Level × Node V)}
    (h : lookup k ch = some n) : (k, n) ∈ ch := by
  induction ch with
  | nil => simp [lookup] at h
  | cons hd tl ih =>
    obtain ⟨k₀, n₀⟩ := hd
    simp only [lookup] at h
    split at h
    · simp_all
    · simp [ih h]

theorem lookup_none_iff {k : Level} {ch : List (Level × Node V)} :
    lookup k ch = none ↔ k ∉ ch.map (·.1) := by
  induction ch with
  | nil => simp [lookup]
  | cons hd tl ih =>
    obtain ⟨k₀, n₀⟩ := hd
    simp only [lookup]
    split
    · simp_all
    · simp_all [eq_comm]

theorem mem_lookup {k : Level} {n : Node V} {ch : List (Level × Node V)}
    (hnd : (ch.map (·.1)).Nodup) (h : (k, n) ∈ ch) : lookup k ch = some n := by
  induction ch with
  | nil => cases h
  | cons hd tl ih =>
    obtain ⟨k₀, n₀⟩ := hd
    simp only [List.map_cons, List.nodup_cons] at hnd
    simp only [lookup]
    rcases List.mem_cons.1 h with h | h
    · cases h; simp
    · have : k₀ ≠ k := by
        rintro rfl
        exact hnd.1 (List.mem_map.2 ⟨_, h, rfl⟩)
      simp [this, ih hnd.2 h]

theorem lookup_eraseChild (k k' : Level) (ch : List (Level × Node V)) (hnd : (ch.map (·.1)).Nodup) :
    lookup k' (eraseChild k ch) = if k' = k then none else lookup k' ch := by
  induction ch with
  | nil => simp [eraseChild, lookup]
  | cons hd tl ih =>
    obtain ⟨k₀, n₀⟩ := hd
    simp only [List.map_cons, List.nodup_cons] at hnd
    simp only [eraseChild]
    split
    · subst_vars
      simp only [lookup]
      split
      · subst_vars; exact lookup_none_iff.2 hnd.1
      · simp_all [eq_comm]
    · simp only [lookup, ih hnd.2]; split <;> simp_all [eq_comm]

theorem mem_setChild {k : Level} {n : Node V} {ch : List (Level × Node V)} {kn : Level × Node V}
    (h : kn ∈ setChild k n ch) : kn = (k, n) ∨ kn ∈ ch := by
  induction ch with
  | nil => simp_all [setChild]
  | cons hd tl ih =>
    obtain ⟨k₀, n₀⟩ := hd
    simp only [setChild] at h
    split at h
    · simp only [List.mem_cons] at h ⊢
      rcases h with h | h
      · exact .inl h
      · exact .inr (.inr h)
    · simp only [List.mem_cons] at h ⊢
      rcases h with h | h
      · exact .inr (.inl h)
      · rcases ih h with h | h
        · exact .inl h
        · exact .inr (.inr h)

theorem keys_setChild (k : Level) (n : Node V) (ch : List (Level × Node V)) :
    (setChild k n ch).map (·.1) = if k ∈ ch.map (·.1) then ch.map (·.1) else ch.map (·.1) ++ [k] := by
  induction ch with
  | nil => simp [setChild]
  | cons hd tl ih =>
    obtain ⟨k₀, n₀⟩ := hd
    simp only [setChild]
    split
    · subst_vars; simp
    · rename_i hne
      simp only [List.map_cons, ih, List.mem_cons]
      have : ¬ k = k₀ := fun h => hne h.symm
      simp only [this, false_or]
      split <;> simp

theorem nodup_setChild (k : Level) (n : Node V) (ch : List (Level × Node V))
    (hnd : (ch.map (·.1)).Nodup) : ((setChild k n ch).map (·.1)).Nodup := by
  rw [keys_setChild]
  split
  · exact hnd
  · rename_i h
    rw [List.nodup_append]
    refine ⟨hnd, by simp, ?_⟩
    intro a ha b hb
    simp only [List.mem_singleton] at hb
    subst hb
    rintro rfl
    exact h ha

theorem eraseChild_sublist (k : Level) (ch : List (Level × Node V)) :
    (eraseChild k ch).Sublist ch := by
  induction ch with
  | nil => simp [eraseChild]
  | cons hd tl ih =>
    obtain ⟨k₀, n₀⟩ := hd
    simp only [eraseChild]
    split
    · exact List.sublist_cons_self _ _
    · exact ih.cons_cons _

theorem setChild_self {k : Level} {n : Node V} {ch : List (Level × Node V)}
    (h : lookup k ch = some n) : setChild k n ch = ch := by
  induction ch with
  | nil => simp [lookup] at h
  | cons hd tl ih =>
    obtain ⟨k₀, n₀⟩ := hd
    simp only [lookup] at h
    simp only [setChild]
    split at h
    · simp_all
    · rename_i hne; simp [hne, ih h]

theorem setChild_ne_nil (k : Level) (n : Node V) (ch : List (Level × Node V)) :
    setChild k n ch ≠ [] := by
  cases ch with
  | nil => simp [setChild]
  | cons hd tl => obtain ⟨k₀, n₀⟩ := hd; simp only [setChild]; split <;> simp

/-! ### get / insert / delete -/

theorem get_nil (c : Option V) (ch : List (Level × Node V)) : get [] (mk c ch) = c := by
  rw [get]

theorem get_cons (k : Level) (ks : List Level) (c : Option V) (ch : List (Level × Node V)) :
    get (k :: ks) (mk c ch) = match lookup k ch with
      | some child => get ks child
      | none => none := by
  rw [get]; cases lookup k ch <;> rfl

theorem insert_nil (v : V) (c : Option V) (ch : List (Level × Node V)) :
    insert [] v (mk c ch) = mk (some v) ch := by
  rw [insert]

theorem insert_cons (k : Level) (ks : List Level) (v : V) (c : Option V) (ch : List (Level × Node V)) :
    insert (k :: ks) v (mk c ch) =
      mk c (setChild k (insert ks v ((lookup k ch).getD empty)) ch) := by
  rw [insert]; cases lookup k ch <;> rfl

theorem delete_nil (c : Option V) (ch : List (Level × Node V)) :
    delete [] (mk c ch) = some (mk none ch) := by
  rw [delete]

theorem delete_cons (k : Level) (ks : List Level) (c : Option V) (ch : List (Level × Node V)) :
    delete (k :: ks) (mk c ch) =
      match lookup k ch with
      | none => none
      | some child =>
        match delete ks child with
        | none => none
        | some child' =>
          if isDead child' then some (mk c (eraseChild k ch))
          else some (mk c (setChild k child' ch)) := by
  rw [delete]
  cases lookup k ch with
  | none => rfl
  | some child => dsimp only; cases delete ks child <;> rfl

theorem get_empty (k : List Level) : get k (empty : Node V) = none := by
  cases k <;> simp [empty, get_nil, get_cons, lookup]

theorem WFN_empty : WFN (empty : Node V) := by
  simp [empty, WFN_mk]

theorem PrunedN_empty : PrunedN (empty : Node V) := by
  simp [empty, PrunedN_mk]

theorem WFN_getD_lookup {k : Level} {ch : List (Level × Node V)} (h : ∀ kn ∈ ch, WFN kn.2) :
    WFN ((lookup k ch).getD empty) := by
  cases hl : lookup k ch with
  | none => exact WFN_empty
  | some n => exact h _ (lookup_some_mem hl)

theorem get_insert (v : V) (k : List Level) : ∀ (k' : List Level) (t : Node V),
    get k' (insert k v t) = if k' = k then some v else get k' t := by
  induction k with
  | nil =>
    intro k' t
    obtain ⟨c, ch⟩ := t
    rw [insert_nil]
    cases k' <;> simp [get_nil, get_cons]
  | cons a ks ih =>
    intro k' t
    obtain ⟨c, ch⟩ := t
    rw [insert_cons]
    cases k' with
    | nil => simp [get_nil]
    | cons b ks' =>
      rw [get_cons, get_cons, lookup_setChild]
      by_cases hba : b = a
      · subst hba
        simp only [if_true, ih, List.cons.injEq, true_and]
        cases lookup b ch <;> simp [get_empty]
      · simp [hba]

theorem insert_wf (v : V) (k : List Level) : ∀ (t : Node V), WFN t → WFN (insert k v t) := by
  induction k with
  | nil =>
    intro t ht
    obtain ⟨c, ch⟩ := t
    rw [insert_nil]
    rw [WFN_mk] at ht ⊢
    exact ht
  | cons a ks ih =>
    intro t ht
    obtain ⟨c, ch⟩ := t
    rw [insert_cons]
    rw [WFN_mk] at ht ⊢
    refine ⟨nodup_setChild _ _ _ ht.1, ?_⟩
    intro kn hkn
    rcases mem_setChild hkn with rfl | hkn
    · exact ih _ (WFN_getD_lookup ht.2)
    · exact ht.2 _ hkn

theorem isDead_insert (v : V) (k : List Level) (t : Node V) : isDead (insert k v t) = false := by
  obtain ⟨c, ch⟩ := t
  cases k with
  | nil => simp [insert_nil, isDead]
  | cons a ks =>
    rw [insert_cons]
    simp [isDead, setChild_ne_nil]

theorem insert_pruned (v : V) (k : List Level) : ∀ (t : Node V), PrunedN t → PrunedN (insert k v t) := by
  induction k with
  | nil =>
    intro t ht
    obtain ⟨c, ch⟩ := t
    rw [insert_nil]
    rw [PrunedN_mk] at ht ⊢
    exact ht
  | cons a ks ih =>
    intro t ht
    obtain ⟨c, ch⟩ := t
    rw [insert_cons]
    rw [PrunedN_mk] at ht ⊢
    intro kn hkn
    rcases mem_setChild hkn with rfl | hkn
    · refine ⟨isDead_insert _ _ _, ih _ ?_⟩
      cases hl : lookup a ch with
      | none => exact PrunedN_empty
      | some n => exact (ht _ (lookup_some_mem hl)).2
    · exact ht _ hkn

theorem get_of_isDead {t : Node V} (h : isDead t = true) (k : List Level) : get k t = none := by
  obtain ⟨c, ch⟩ := t
  simp only [isDead, Bool.and_eq_true, Option.isNone_iff_eq_none, List.isEmpty_iff] at h
  obtain ⟨rfl, rfl⟩ := h
  exact get_empty k

theorem get_delete (k : List Level) : ∀ (k' : List Level) (t t' : Node V), WFN t →
    delete k t = some t' → get k' t' = if k' = k then none else get k' t := by
  induction k with
  | nil =>
    intro k' t t' _ hd
    obtain ⟨c, ch⟩ := t
    rw [delete_nil] at hd
    cases hd
    cases k' <;> simp [get_nil, get_cons]
  | cons a ks ih =>
    intro k' t t' ht hd
    obtain ⟨c, ch⟩ := t
    rw [WFN_mk] at ht
    rw [delete_cons] at hd
    cases hl : lookup a ch with
    | none => simp [hl] at hd
    | some child =>
      simp only [hl] at hd
      cases hdc : delete ks child with
      | none => simp [hdc] at hd
      | some child' =>
        simp only [hdc] at hd
        have hwc : WFN child := ht.2 _ (lookup_some_mem hl)
        have ihc := fun k'' => ih k'' child child' hwc hdc
        cases k' with
        | nil =>
          split at hd <;> cases hd <;> simp [get_nil]
        | cons b ks' =>
          rw [get_cons _ _ c]
          split at hd
          · rename_i hdead
            cases hd
            rw [get_cons, lookup_eraseChild _ _ _ ht.1]
            by_cases hba : b = a
            · subst hba
              simp only [if_true, hl, List.cons.injEq, true_and]
              have h1 := ihc ks'
              rw [get_of_isDead hdead] at h1
              exact h1
            · simp [hba]
          · cases hd
            rw [get_cons, lookup_setChild]
            by_cases hba : b = a
            · subst hba
              simp only [if_true, hl, List.cons.injEq, true_and]
              exact ihc ks'
            · simp [hba]

theorem delete_wf (k : List Level) : ∀ (t t' : Node V), WFN t → delete k t = some t' → WFN t' := by
  induction k with
  | nil =>
    intro t t' ht hd
    obtain ⟨c, ch⟩ := t
    rw [delete_nil] at hd
    cases hd
    rw [WFN_mk] at ht ⊢
    exact ht
  | cons a ks ih =>
    intro t t' ht hd
    obtain ⟨c, ch⟩ := t
    rw [WFN_mk] at ht
    rw [delete_cons] at hd
    cases hl : lookup a ch with
    | none => simp [hl] at hd
    | some child =>
      simp only [hl] at hd
      cases hdc : delete ks child with
      | none => simp [hdc] at hd
      | some child' =>
        simp only [hdc] at hd
        have hwc : WFN child' := ih _ _ (ht.2 _ (lookup_some_mem hl)) hdc
        split at hd
        · cases hd
          rw [WFN_mk]
          have hs := eraseChild_sublist a ch
          exact ⟨(hs.map _).nodup ht.1, fun kn hkn => ht.2 _ (hs.subset hkn)⟩
        · cases hd
          rw [WFN_mk]
          refine ⟨nodup_setChild _ _ _ ht.1, ?_⟩
          intro kn hkn
          rcases mem_setChild hkn with rfl | hkn
          · exact hwc
          · exact ht.2 _ hkn

theorem delete_pruned (k : List Level) : ∀ (t t' : Node V), PrunedN t → delete k t = some t' →
    PrunedN t' := by
  induction k with
  | nil =>
    intro t t' ht hd
    obtain ⟨c, ch⟩ := t
    rw [delete_nil] at hd
    cases hd
    rw [PrunedN_mk] at ht ⊢
    exact ht
  | cons a ks ih =>
    intro t t' ht hd
    obtain ⟨c, ch⟩ := t
    rw [PrunedN_mk] at ht
    rw [delete_cons] at hd
    cases hl : lookup a ch with
    | none => simp [hl] at hd
    | some child =>
      simp only [hl] at hd
      cases hdc : delete ks child with
      | none => simp [hdc] at hd
      | some child' =>
        simp only [hdc] at hd
        have hwc : PrunedN child' := ih _ _ (ht _ (lookup_some_mem hl)).2 hdc
        split at hd
        · cases hd
          rw [PrunedN_mk]
          exact fun kn hkn => ht _ ((eraseChild_sublist a ch).subset hkn)
        · rename_i hdead
          cases hd
          rw [PrunedN_mk]
          intro kn hkn
          rcases mem_setChild hkn with rfl | hkn
          · exact ⟨by simpa using hdead, hwc⟩
          · exact ht _ hkn

theorem delete_stored (k : List Level) : ∀ (t : Node V) (v : V), get k t = some v →
    ∃ t', delete k t = some t' := by
  induction k with
  | nil =>
    intro t v _
    obtain ⟨c, ch⟩ := t
    exact ⟨_, delete_nil c ch⟩
  | cons a ks ih =>
    intro t v h
    obtain ⟨c, ch⟩ := t
    rw [get_cons] at h
    rw [delete_cons]
    cases hl : lookup a ch with
    | none => simp [hl] at h
    | some child =>
      simp only [hl] at h ⊢
      obtain ⟨child', hc⟩ := ih child v h
      simp only [hc]
      split <;> exact ⟨_, rfl⟩

theorem delete_absent (k : List Level) : ∀ (t : Node V), PrunedN t → get k t = none →
    delete k t = none ∨ delete k t = some t := by
  induction k with
  | nil =>
    intro t _ h
    obtain ⟨c, ch⟩ := t
    rw [get_nil] at h
    subst h
    exact .inr (delete_nil _ _)
  | cons a ks ih =>
    intro t ht h
    obtain ⟨c, ch⟩ := t
    rw [PrunedN_mk] at ht
    rw [get_cons] at h
    rw [delete_cons]
    cases hl : lookup a ch with
    | none => simp
    | some child =>
      simp only [hl] at h ⊢
      have hp := ht _ (lookup_some_mem hl)
      rcases ih child hp.2 h with hc | hc
      · simp [hc]
      · right
        simp only [hc, hp.1, Bool.false_eq_true, if_false, setChild_self hl]

/-! ### `toList` as a dictionary view -/

theorem mem_contentList {pfx k : List Level} {v : V} {c : Option V} :
    (k, v) ∈ contentList pfx c ↔ k = pfx ∧ c = some v := by
  cases c <;> simp [contentList, eq_comm]

theorem mem_childLists {ch : List (Level × Node V)} {k : List Level} {v : V} :
    (k, v) ∈ ch.flatMap (fun kn => (toListN [] kn.2).map (fun kv => (kn.1 :: kv.1, kv.2))) ↔
      ∃ a ks n, k = a :: ks ∧ (a, n) ∈ ch ∧ (ks, v) ∈ toListN [] n := by
  simp only [List.mem_flatMap, List.mem_map, Prod.mk.injEq, Prod.exists]
  constructor
  · rintro ⟨a, n, hmem, ks, v', hkv, rfl, rfl⟩
    exact ⟨a, ks, n, rfl, hmem, hkv⟩
  · rintro ⟨a, ks, n, rfl, hmem, hkv⟩
    exact ⟨a, n, hmem, ks, v, hkv, rfl, rfl⟩

theorem mem_toListN_iff (k : List Level) : ∀ (t : Node V) (v : V), WFN t →
    ((k, v) ∈ toListN [] t ↔ get k t = some v) := by
  induction k with
  | nil =>
    intro t v _
    obtain ⟨c, ch⟩ := t
    rw [toListN_nil_mk, List.mem_append, mem_contentList, mem_childLists, get_nil]
    simp
  | cons a ks ih =>
    intro t v ht
    obtain ⟨c, ch⟩ := t
    rw [WFN_mk] at ht
    rw [toListN_nil_mk, List.mem_append, mem_contentList, mem_childLists, get_cons]
    simp only [reduceCtorEq, false_and, false_or, List.cons.injEq]
    constructor
    · rintro ⟨a', ks', n, ⟨rfl, rfl⟩, hmem, hkv⟩
      rw [mem_lookup ht.1 hmem]
      exact (ih n v (ht.2 _ hmem)).1 hkv
    · intro h
      cases hl : lookup a ch with
      | none => simp [hl] at h
      | some n =>
        simp only [hl] at h
        have hmem := lookup_some_mem hl
        exact ⟨a, ks, n, ⟨rfl, rfl⟩, hmem, (ih n v (ht.2 _ hmem)).2 h⟩

theorem keys_nodup : ∀ (t : Node V), WFN t → ((toListN [] t).map (·.1)).Nodup := by
  intro t
  induction t using Node.ind with
  | h c ch ih =>
    intro ht
    rw [WFN_mk] at ht
    rw [toListN_nil_mk, List.map_append, List.nodup_append]
    refine ⟨by cases c <;> simp [contentList], ?_, ?_⟩
    · obtain ⟨hnd, hwf⟩ := ht
      induction ch with
      | nil => simp
      | cons hd tl ihl =>
        obtain ⟨a, n⟩ := hd
        simp only [List.map_cons, List.nodup_cons] at hnd
        simp only [List.flatMap_cons, List.map_append, List.nodup_append]
        refine ⟨?_, ihl (fun kn hkn => ih kn (by simp [hkn])) hnd.2 (fun kn hkn => hwf kn (by simp [hkn])), ?_⟩
        · have := ih (a, n) (by simp) (hwf _ (by simp))
          simp only [List.map_map]
          have hcomp : ((fun x : List Level × V => x.1) ∘ fun kv : List Level × V => (a :: kv.1, kv.2))
              = (fun l => a :: l) ∘ (fun x : List Level × V => x.1) := rfl
          rw [hcomp, ← List.map_map]
          exact List.Pairwise.map (fun l => a :: l) (fun x y h => by simpa using h) this
        · intro x hx y hy
          simp only [List.mem_map, Prod.exists, exists_and_right, exists_eq_right] at hx hy
          obtain ⟨v, hx⟩ := hx
          obtain ⟨v', hy⟩ := hy
          simp only [Prod.mk.injEq] at hx
          obtain ⟨ks, _, _, rfl, _⟩ := hx
          obtain ⟨a', ks', n', rfl, hmem, _⟩ := mem_childLists.1 hy
          intro h
          cases h
          exact hnd.1 (List.mem_map.2 ⟨_, hmem, rfl⟩)
    · intro x hx y hy
      simp only [List.mem_map, Prod.exists, exists_and_right, exists_eq_right] at hx hy
      obtain ⟨v, hx⟩ := hx
      obtain ⟨v', hy⟩ := hy
      obtain ⟨rfl, _⟩ := mem_contentList.1 hx
      obtain ⟨a', ks', n', rfl, _, _⟩ := mem_childLists.1 hy
      simp

theorem toListN_insert_empty (v : V) (k : List Level) : ∀ pfx : List Level,
    toListN pfx (insert k v (empty : Node V)) = [(pfx ++ k, v)] := by
  induction k with
  | nil => intro pfx; simp [empty, insert_nil, toListN_mk, contentList]
  | cons a ks ih =>
    intro pfx
    simp [empty, insert_cons, lookup, setChild, toListN_mk, contentList]
    simpa [empty] using ih (pfx ++ [a])

end Node
end Paho
