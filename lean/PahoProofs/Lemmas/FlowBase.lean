/-
Frame lemmas for the low-level handlers of the session model: they touch neither the message
store nor the in-flight counter, and emit neither `qPublish` nor `ret` events.
-/
import Paho.Model.Session
import Paho.Model.SessionInv
import PahoProofs.Lemmas.SessionDefs

namespace Paho.FlowLemmas
open Paho Paho.S

def isQPublish : Ev → Bool
  | .qPublish .. => true
  | _ => false

def isQR : Ev → Bool
  | .qPublish .. => true
  | .ret .. => true
  | _ => false

/-- the events appended between two states (meaningful when the log of `s` is a prefix of that of `s'`) -/
def evsOf (s s' : S) : List Ev := s'.log.drop s.log.length

theorem filter_q_of_qr {l : List Ev} (h : l.filter isQR = []) : l.filter isQPublish = [] := by
  simp only [List.filter_eq_nil_iff] at *
  intro e he
  have := h e he
  cases e <;> simp_all [isQR, isQPublish]

/-- frame: the relevant components are unchanged, the log is extended by uninteresting events -/
@[reducible] def Fr (s s' : S) : Prop :=
  s'.lastMid = s.lastMid ∧
  s'.cfg = s.cfg ∧ s'.proto = s.proto ∧ s'.out = s.out ∧ s'.inflight = s.inflight ∧
  s'.firstConnect = s.firstConnect ∧ s'.infos.length = s.infos.length ∧
  s'.log = s.log ++ evsOf s s' ∧ (evsOf s s').filter isQR = [] ∧ (evsOf s s').filter isQPublish = []

@[reducible] def Fr0 (s s' : S) : Prop :=
  s'.lastMid = s.lastMid ∧
  s'.cfg = s.cfg ∧ s'.proto = s.proto ∧ s'.out = s.out ∧ s'.inflight = s.inflight ∧
  s'.firstConnect = s.firstConnect ∧ s'.infos.length = s.infos.length ∧
  s'.log = s.log ++ evsOf s s' ∧ (evsOf s s').filter isQR = []

theorem Fr.of0 {s s' : S} (h : Fr0 s s') : Fr s s' :=
  ⟨h.1, h.2.1, h.2.2.1, h.2.2.2.1, h.2.2.2.2.1, h.2.2.2.2.2.1, h.2.2.2.2.2.2.1, h.2.2.2.2.2.2.2.1, h.2.2.2.2.2.2.2.2,
    filter_q_of_qr h.2.2.2.2.2.2.2.2⟩

section ite
variable (c : Prop) [Decidable c] (a b : S)
@[simp] theorem ite_cfg : (if c then a else b).cfg = if c then a.cfg else b.cfg := by split <;> rfl
@[simp] theorem ite_lastMid : (if c then a else b).lastMid = if c then a.lastMid else b.lastMid := by split <;> rfl
@[simp] theorem ite_proto : (if c then a else b).proto = if c then a.proto else b.proto := by split <;> rfl
@[simp] theorem ite_out : (if c then a else b).out = if c then a.out else b.out := by split <;> rfl
@[simp] theorem ite_inflight : (if c then a else b).inflight = if c then a.inflight else b.inflight := by split <;> rfl
@[simp] theorem ite_fc : (if c then a else b).firstConnect = if c then a.firstConnect else b.firstConnect := by split <;> rfl
@[simp] theorem ite_infos : (if c then a else b).infos = if c then a.infos else b.infos := by split <;> rfl
@[simp] theorem ite_log : (if c then a else b).log = if c then a.log else b.log := by split <;> rfl
end ite

@[simp] theorem emit_cfg (s : S) (e : Ev) : (s.emit e).cfg = s.cfg := rfl
@[simp] theorem emit_lastMid (s : S) (e : Ev) : (s.emit e).lastMid = s.lastMid := rfl
@[simp] theorem emit_proto (s : S) (e : Ev) : (s.emit e).proto = s.proto := rfl
@[simp] theorem emit_out (s : S) (e : Ev) : (s.emit e).out = s.out := rfl
@[simp] theorem emit_inflight (s : S) (e : Ev) : (s.emit e).inflight = s.inflight := rfl
@[simp] theorem emit_fc (s : S) (e : Ev) : (s.emit e).firstConnect = s.firstConnect := rfl
@[simp] theorem emit_infos (s : S) (e : Ev) : (s.emit e).infos = s.infos := rfl
@[simp] theorem emit_log (s : S) (e : Ev) : (s.emit e).log = s.log ++ [e] := rfl
@[simp] theorem emit_sock (s : S) (e : Ev) : (s.emit e).sock = s.sock := rfl

syntax "fr_tac" : tactic
macro_rules
  | `(tactic| fr_tac) =>
    `(tactic| (apply Fr.of0; simp only [Fr0, evsOf]; (repeat' split)) <;> simp [isQR])

@[simp] theorem csuw_fr (s : S) (k) : Fr s (s.callSocketUnregisterWrite k) := by
  unfold callSocketUnregisterWrite; fr_tac

@[simp] theorem csrw_fr (s : S) : Fr s s.callSocketRegisterWrite := by
  unfold callSocketRegisterWrite; fr_tac

@[simp] theorem setInfo_fr (s : S) (i f) : Fr s (s.setInfo i f) := by
  unfold setInfo; fr_tac

@[simp] theorem sockClose_fr (s : S) (r) : Fr s (s.sockClose r) := by
  unfold sockClose; fr_tac

@[simp] theorem doOnDisconnect_fr (s : S) (rc b) : Fr s (s.doOnDisconnect rc b) := by
  unfold doOnDisconnect; fr_tac

@[simp] theorem loopRcHandle_fr (s : S) (r) : Fr s (s.loopRcHandle r).1 := by
  unfold loopRcHandle; fr_tac

@[simp] theorem nextSend_fr (s : S) (n) : Fr s (s.nextSend n).1 := by
  unfold nextSend; fr_tac


syntax "fr_tac" "[" Lean.Parser.Tactic.simpLemma,* "]" : tactic
macro_rules
  | `(tactic| fr_tac [$ls,*]) =>
    `(tactic| (apply Fr.of0; simp only [Fr0, evsOf]; (repeat' split)) <;> simp [isQR, $ls,*])

@[simp] theorem packetWrite_fr (fuel : Nat) (s : S) : Fr s (s.packetWrite fuel).1 := by
  induction fuel generalizing s with
  | zero => unfold packetWrite; fr_tac
  | succ n ih => unfold packetWrite; fr_tac [ih]

/-- return codes of the write path -/
def rcW (r : RC) : Prop := r = rcSuccess ∨ r = rcAgain ∨ r = rcConnLost

theorem packetWrite_rc (fuel : Nat) (s : S) : rcW (s.packetWrite fuel).2 := by
  induction fuel generalizing s with
  | zero => unfold packetWrite; simp [rcW]
  | succ n ih =>
    unfold packetWrite
    simp only []
    repeat' split
    all_goals first | exact ih _ | simp [rcW]

theorem loopRcHandle_rc (s : S) (r : RC) : (s.loopRcHandle r).2 = r ∨ (s.loopRcHandle r).2 = rcSuccess := by
  unfold loopRcHandle; simp only []; repeat' split
  all_goals simp

@[simp] theorem loopWrite_fr (s : S) : Fr s s.loopWrite.1 := by
  unfold loopWrite; fr_tac

theorem loopWrite_rc (s : S) : s.loopWrite.2 = rcSuccess ∨ s.loopWrite.2 = rcNoConn ∨ s.loopWrite.2 = rcConnLost := by
  unfold loopWrite
  split
  · simp
  · have h := packetWrite_rc s.writeFuel s
    simp only []
    have h2 := loopRcHandle_rc (packetWrite s.writeFuel s).1 (packetWrite s.writeFuel s).2
    rcases h with h | h | h <;> simp [h, rcSuccess, rcAgain, rcConnLost] at h2 ⊢
    rcases h2 with h2 | h2 <;> simp [h2]

@[simp] theorem packetQueue_fr (s : S) (pkt d) : Fr s (s.packetQueue pkt d).1 := by
  unfold packetQueue; fr_tac

theorem packetQueue_rc (s : S) (pkt d) :
    (s.packetQueue pkt d).2 = rcSuccess ∨ (s.packetQueue pkt d).2 = rcNoConn ∨ (s.packetQueue pkt d).2 = rcConnLost := by
  unfold packetQueue; simp only []
  repeat' split
  all_goals first | exact loopWrite_rc _ | simp

@[simp] theorem sendCmdMid_fr (s : S) (c m d) : Fr s (s.sendCmdMid c m d).1 := by
  unfold sendCmdMid; fr_tac

@[simp] theorem sendPubrel_fr (s : S) (m d) : Fr s (s.sendPubrel m d).1 := by
  unfold sendPubrel; fr_tac

@[simp] theorem sendPuback_fr (s : S) (m) : Fr s (s.sendPuback m).1 := by
  exact sendCmdMid_fr ..
@[simp] theorem sendPubrec_fr (s : S) (m) : Fr s (s.sendPubrec m).1 := by
  exact sendCmdMid_fr ..
@[simp] theorem sendPubcomp_fr (s : S) (m) : Fr s (s.sendPubcomp m).1 := by
  exact sendCmdMid_fr ..

@[simp] theorem sendSimple_fr (s : S) (c) : Fr s (s.sendSimple c).1 := by
  exact packetQueue_fr ..

@[simp] theorem sendConnect_fr (s : S) : Fr s s.sendConnect.1 := by
  unfold sendConnect; fr_tac

@[simp] theorem failQueuedQos0_fr (s : S) (l) : Fr s (s.failQueuedQos0 l) := by
  induction l generalizing s with
  | nil => unfold failQueuedQos0; fr_tac
  | cons p rest ih => unfold failQueuedQos0; fr_tac [ih]

@[simp] theorem handleOnMessage_fr (s : S) (m) : Fr s (s.handleOnMessage m).1 := by
  unfold handleOnMessage; fr_tac

@[simp] theorem handlePublish_fr (s : S) (m) : Fr s (s.handlePublish m).1 := by
  unfold handlePublish; fr_tac

@[simp] theorem handlePubrel_fr (s : S) (m) : Fr s (s.handlePubrel m).1 := by
  unfold handlePubrel; fr_tac

@[simp] theorem handleDisconnect_fr (s : S) (r) : Fr s (s.handleDisconnect r).1 := by
  unfold handleDisconnect; fr_tac

@[simp] theorem checkKeepalive_fr (s : S) : Fr s s.checkKeepalive := by
  unfold checkKeepalive; fr_tac

@[simp] theorem loopMisc_fr (s : S) : Fr s s.loopMisc.1 := by
  unfold loopMisc; fr_tac

@[simp] theorem connectAsync_fr (s : S) : Fr s s.connectAsync := by
  unfold connectAsync; fr_tac

@[simp] theorem messagesReconnectResetIn_fr (s : S) : Fr s s.messagesReconnectResetIn := by
  unfold messagesReconnectResetIn; fr_tac


@[reducible] def Same (s s' : S) : Prop :=
  s'.lastMid = s.lastMid ∧
  s'.cfg = s.cfg ∧ s'.proto = s.proto ∧ s'.out = s.out ∧ s'.inflight = s.inflight ∧
  s'.firstConnect = s.firstConnect ∧ s'.infos.length = s.infos.length ∧
  s'.log = s.log ++ evsOf s s'

@[simp] theorem sendPublish_same (s : S) (mid t p q r d i dir u) :
    Same s (s.sendPublish mid t p q r d i dir u).1 := by
  unfold sendPublish
  simp only [Same, evsOf]; repeat' split
  all_goals simp

theorem sendPublish_qr (s : S) (mid t p q r d i dir u) :
    (evsOf s (s.sendPublish mid t p q r d i dir u).1).filter isQR = [] ∨
    ∃ c u', u = some u' ∧ s.sock = some c ∧
      (evsOf s (s.sendPublish mid t p q r d i dir u).1).filter isQR = [.qPublish c u' mid q d] := by
  unfold sendPublish
  simp only [evsOf]; repeat' split
  all_goals simp [isQR, List.filter_cons]
  all_goals simp_all

/-- with an open socket and an encodable packet the PUBLISH is handed to the connection -/
theorem sendPublish_qr_some (s : S) (c : Nat) (hs : s.sock = some c) (mid t p q r d i dir u) (b : Bytes)
    (he : encPublish s.proto mid t p q r d none = .ok b) :
    (evsOf s (s.sendPublish mid t p q r d i dir (some u)).1).filter isQR = [.qPublish c u mid q d] := by
  unfold sendPublish
  simp only [hs, he, evsOf]
  have h := (packetQueue_fr (s.emit (.qPublish c u mid q d)) (mkPkt 0x30 mid q b i) dir)
  obtain ⟨_, _, _, _, _, _, _, h7, _, _⟩ := h
  rw [h7]
  simp [isQR, List.filter_cons]

theorem sendPublish_noconn (s : S) (hs : s.sock = none) (mid t p q r d i dir u) :
    s.sendPublish mid t p q r d i dir u = (s, rcNoConn) := by
  unfold sendPublish; simp [hs]

theorem sendPublish_rc (s : S) (mid t p q r d i dir u) :
    (s.sendPublish mid t p q r d i dir u).2 = rcSuccess ∨ (s.sendPublish mid t p q r d i dir u).2 = rcNoConn ∨
    (s.sendPublish mid t p q r d i dir u).2 = rcConnLost := by
  unfold sendPublish
  simp only []; repeat' split
  all_goals first | exact packetQueue_rc .. | simp

end Paho.FlowLemmas
