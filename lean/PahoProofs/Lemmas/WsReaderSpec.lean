/-
The WebSocket transport (`wsRecv` over wrapper + raw socket) satisfies the transport specification `TSpec` of the
generic packet reader, for every list of well-formed frames whose encoding the raw queue delivers completely:
what it will deliver (`bs`) is the not yet delivered part of the data-frame payloads.
-/
import PahoProofs.Lemmas.WsReaderGen
import PahoProofs.Lemmas.WsReaderAux
import PahoProofs.Lemmas.WsRecvRun
namespace Paho.Ws
open Paho Paho.ReaderLemmas Paho.ReaderGen

/-- payload bytes of the data frames `fs` not yet handed to the caller (`ph` = `_payload_head`) -/
def undelivered (fs : List Frame) (ph : Nat) : Bytes := (dataOf fs).drop (partialData fs ph).length

theorem undelivered_step {fs cons fs' : List Frame} {ph ph' : Nat} {d : Bytes} (hsplit : fs = cons ++ fs')
    (hdata : partialData fs ph ++ d = dataOf cons ++ partialData fs' ph') :
    undelivered fs ph = d ++ undelivered fs' ph' := by
  subst hsplit
  obtain ⟨u', hu'⟩ := partialData_prefix fs' ph'
  have h1 : undelivered fs' ph' = u' := by
    unfold undelivered; rw [← hu']; exact List.drop_left
  have h2 : dataOf (cons ++ fs') = partialData (cons ++ fs') ph ++ (d ++ u') := by
    rw [dataOf_append, ← hu', ← List.append_assoc, ← hdata, List.append_assoc]
  rw [h1]
  unfold undelivered
  rw [h2]
  exact List.drop_left

theorem encs_eq_nil {fs : List Frame} (h : encs fs = []) : fs = [] := by
  cases fs with
  | nil => rfl
  | cons f rest => simp [encs, Frame.enc] at h

/-- `WsRel frames t bs tm sz`: `t` is a state of wrapper + raw socket reached while receiving `frames`; the raw queue
(no empty chunks) delivers exactly the frames not yet consumed; `bs` = undelivered data payload, `tm` = the raw queue
ends with EOF / error; the replies written so far are those owed for the consumed frames -/
def WsRel (frames : List Frame) (t : WsT) (bs : Bytes) (tm : Bool) (sz : Nat) : Prop :=
  ∃ done fs, frames = done ++ fs ∧ Inv fs t.st t.q ∧ t.st.readbuffer ++ flat t.q = encs fs ∧ qOk t.q = true ∧
    bs = undelivered fs t.st.payloadHead ∧ tm = qTerm t.q ∧ sz = mu fs t.st t.q ∧
    ((∀ f ∈ frames, f.ctlUnmasked) → t.sent = owedAll done)

/-- every frame consumed, the wrapper back in its initial state, every owed reply written -/
def WsDone (frames : List Frame) (t : WsT) : Prop :=
  t.st.readbuffer = [] ∧ flat t.q = [] ∧ t.st.payloadHead = 0 ∧
  ((∀ f ∈ frames, f.ctlUnmasked) → t.sent = owedAll frames)

theorem wsRel_done_of_nil {frames : List Frame} {t : WsT} {done : List Frame} (hsplit : frames = done ++ [])
    (hI : Inv [] t.st t.q) (hc : t.st.readbuffer ++ flat t.q = encs [])
    (hsent : (∀ f ∈ frames, f.ctlUnmasked) → t.sent = owedAll done) : WsDone frames t := by
  have hb : t.st.readbuffer ++ flat t.q = [] := hc
  have hd : done = frames := by simpa using hsplit.symm
  subst hd
  exact ⟨(List.append_eq_nil_iff.mp hb).1, (List.append_eq_nil_iff.mp hb).2, hI.2.2, hsent⟩

theorem ws_idle_nil (frames : List Frame) {t : WsT} {bs : Bytes} {tm : Bool} {sz : Nat}
    (h : WsRel frames t bs tm sz) (hi : wsIdle t = true) : bs = [] ∧ tm = false ∧ WsDone frames t := by
  obtain ⟨done, fs, hsplit, hI, hc, hq, hbs, htm, hsz, hsent⟩ := h
  simp only [wsIdle, Bool.and_eq_true, List.isEmpty_iff] at hi
  have hfs : fs = [] := by
    apply encs_eq_nil
    rw [← hc, hi.1, hi.2]; rfl
  subst hfs
  refine ⟨by rw [hbs]; rfl, by rw [htm, hi.1]; rfl, wsRel_done_of_nil hsplit hI hc hsent⟩

theorem ws_step (frames : List Frame) (n : Nat) (t : WsT) (bs : Bytes) (tm : Bool) (sz : Nat) (hn : 0 < n)
    (h : WsRel frames t bs tm sz) :
    StepOK (WsRel frames) (WsDone frames) wsIdle n bs tm sz (wsRecv n t) := by
  obtain ⟨done, fs, hsplit, hI, hc, hq, hbs, htm, hsz, hsent⟩ := h
  obtain ⟨cons, fs', hstep⟩ := recv_step fs t.st t.q n hI
  have haux := recvImpl_aux t.st t.q n
  have hclosed := recv_closed_nil fs t.st t.q n hI hc hq
  have hempty := recv_empty t.st t.q n
  unfold wsRecv
  rcases hr : recvImpl t.st t.q n with ⟨st', q', res, s⟩
  rw [hr] at hstep haux hclosed hempty
  simp only at haux hclosed hempty
  obtain ⟨hsp, hinv, hdata, hsnt, hbound, hnonempty, hmule, hcomplete, hconn⟩ := hstep
  simp only at hinv hdata hsnt hbound hnonempty hmule hcomplete
  obtain ⟨hc', hprog⟩ := hcomplete hc
  have hU := undelivered_step hsp hdata
  -- the relation after the call
  have hrel' : ∀ bs', bs' = undelivered fs' st'.payloadHead →
      WsRel frames { st := st', q := q', sent := t.sent ++ s } bs' tm (mu fs' st' q') := by
    intro bs' hbs'
    refine ⟨done ++ cons, fs', by rw [hsplit, hsp, List.append_assoc], hinv, hc', haux.1.2 hq, hbs', by rw [htm, haux.1.1], rfl, ?_⟩
    intro hctl
    show t.sent ++ s = owedAll (done ++ cons)
    rw [hsent hctl, owedAll_append, hsnt (fun f hf => hctl f (by rw [hsplit, hsp]; simp [hf]))]
  cases res with
  | wouldBlock =>
    simp only [StepOK]
    have hbs2 : bs = undelivered fs' st'.payloadHead := by rw [hbs, hU]; rfl
    refine ⟨mu fs' st' q', hrel' bs hbs2, ?_, by rw [hsz]; exact hmule⟩
    by_cases hfs : fs = []
    · subst hfs
      have hb : t.st.readbuffer ++ flat t.q = [] := hc
      have hfs' : fs' = [] := (List.append_eq_nil_iff.mp hsp.symm).2
      subst hfs'
      rcases hempty (List.append_eq_nil_iff.mp hb).1 (List.append_eq_nil_iff.mp hb).2 hq rfl with ⟨h1, h2⟩ | ⟨h1, h2⟩
      · left; simp [wsIdle, h1, h2]
      · right; rw [hsz]; simp only [mu, weight]; omega
    · right; rw [hsz]; exact hprog hn hfs
  | closed =>
    simp only [StepOK]
    have hfs : fs = [] := hclosed rfl
    subst hfs
    have hfs' : fs' = [] := (List.append_eq_nil_iff.mp hsp.symm).2
    have hcons : cons = [] := (List.append_eq_nil_iff.mp hsp.symm).1
    subst hfs' hcons
    have hbs0 : bs = [] := by rw [hbs]; rfl
    have hrel := hrel' bs (by rw [hbs0]; rfl)
    refine ⟨hbs0, by rw [htm, ← haux.1.1]; exact (haux.2 rfl hq).2, ?_, _, hrel⟩
    refine wsRel_done_of_nil (done := done) (by simpa using hsplit) hinv hc' ?_
    intro hctl
    show t.sent ++ s = owedAll done
    rw [hsent hctl, hsnt (fun f hf => by simp at hf)]
    simp [owedAll]
  | data d =>
    simp only [StepOK]
    have hd : bytesOf (RecvRes.data d) = d := rfl
    rw [hd] at hU hbound
    have hfs : fs ≠ [] := by
      intro h0
      subst h0
      have hfs' : fs' = [] := (List.append_eq_nil_iff.mp hsp.symm).2
      have hcons : cons = [] := (List.append_eq_nil_iff.mp hsp.symm).1
      subst hfs' hcons
      have : d = [] := by simpa [partialData, dataOf, bytesOf] using hdata
      exact hnonempty d rfl hn this
    exact ⟨hnonempty d rfl hn, hbound, undelivered fs' st'.payloadHead, mu fs' st' q', by rw [hbs, hU],
      hrel' _ rfl, by rw [hsz]; exact hprog hn hfs⟩

/-- the transport specification of the packet reader holds for the WebSocket wrapper -/
def wsSpec (frames : List Frame) : TSpec wsRecv wsIdle where
  Rel := WsRel frames
  Done := WsDone frames
  idle_nil := fun h hi => ws_idle_nil frames h hi
  step := ws_step frames

/-- the initial state: fresh wrapper, raw queue `q` delivering the encoding of `frames` -/
theorem wsRel_init (frames : List Frame) (hwf : ∀ f ∈ frames, f.wf) (q : List RecvItem) (hq : qOk q = true)
    (hflat : flat q = encs frames) :
    WsRel frames { st := {}, q := q, sent := [] } (dataOf frames) (qTerm q) (mu frames {} q) := by
  refine ⟨[], frames, rfl, inv_init frames hwf q (by rw [hflat]; exact List.prefix_refl _), by simpa using hflat, hq, ?_,
    rfl, rfl, fun _ => rfl⟩
  show dataOf frames = (dataOf frames).drop (partialData frames 0).length
  rw [partialData_zero]; rfl

end Paho.Ws
