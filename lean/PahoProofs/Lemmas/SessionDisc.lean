/-
Per-step accounting of `on_disconnect` callbacks (C10) on the abstract action machine of `SessionAct.lean`.

Per action: quiet / reconn / disc actions append neither an `on_disconnect` nor a non-replacement close to the
log; loud actions (which need an open socket) append exactly one of each and close the socket. Along a normal
path at most one loud action can therefore contribute. The preservation of `InvS` by the actions is proved in
another file and is taken as an explicit argument `pres` here.
-/
import PahoProofs.Lemmas.SessionAct

namespace Paho
namespace SessAct

namespace Disc

/-- `on_disconnect` callback -/
def isD (e : Ev) : Bool := match e with | .onDisconnect _ _ => true | _ => false
/-- non-replacement close -/
def isC (e : Ev) : Bool := match e with | .sclose _ false => true | _ => false

def nd (evs : List Ev) : Nat := (evs.filter isD).length
def nc (evs : List Ev) : Nat := (evs.filter isC).length

theorem stepDiscOk_eq (evs : List Ev) : stepDiscOk evs = (nd evs == nc evs && decide (nc evs ≤ 1)) := rfl

@[simp] theorem nd_nil : nd [] = 0 := rfl
@[simp] theorem nc_nil : nc [] = 0 := rfl
@[simp] theorem nd_append (a b : List Ev) : nd (a ++ b) = nd a + nd b := by simp [nd]
@[simp] theorem nc_append (a b : List Ev) : nc (a ++ b) = nc a + nc b := by simp [nc]
theorem nd_cons (e : Ev) (l : List Ev) : nd (e :: l) = (if isD e then 1 else 0) + nd l := by
  simp only [nd, List.filter_cons]; split <;> simp; omega
theorem nc_cons (e : Ev) (l : List Ev) : nc (e :: l) = (if isC e then 1 else 0) + nc l := by
  simp only [nc, List.filter_cons]; split <;> simp; omega

/-- no `on_disconnect`, no non-replacement close -/
def Silent (evs : List Ev) : Prop := ∀ e ∈ evs, isD e = false ∧ isC e = false

theorem Silent.nd {evs : List Ev} (h : Silent evs) : nd evs = 0 := by
  simp only [Disc.nd, List.length_eq_zero_iff, List.filter_eq_nil_iff]
  intro e he; simp [(h e he).1]
theorem Silent.nc {evs : List Ev} (h : Silent evs) : nc evs = 0 := by
  simp only [Disc.nc, List.length_eq_zero_iff, List.filter_eq_nil_iff]
  intro e he; simp [(h e he).2]
theorem Silent.notMem {evs : List Ev} (h : Silent evs) (rc : Nat) (b : Bool) : Ev.onDisconnect rc b ∉ evs := by
  intro he; have := (h _ he).1; simp [isD] at this
theorem Silent.nil : Silent [] := by simp [Silent]
theorem Silent.append {a b : List Ev} (ha : Silent a) (hb : Silent b) : Silent (a ++ b) := by
  intro e he; rcases List.mem_append.1 he with h | h
  · exact ha e h
  · exact hb e h
theorem nd_zero_notMem {evs : List Ev} (h : nd evs = 0) (rc : Nat) (b : Bool) : Ev.onDisconnect rc b ∉ evs := by
  simp only [nd, List.length_eq_zero_iff, List.filter_eq_nil_iff] at h
  intro he; have := h _ he; simp [isD] at this

theorem silent_of_neutral {evs : List Ev} (h : ∀ e ∈ evs, neutral e = true) : Silent evs := by
  intro e he
  have := h e he
  cases e <;> simp_all [neutral, isD, isC]

theorem silent_closeEvs_true (v : View) (c : Nat) : Silent (closeEvs v c true) := by
  intro e he
  simp only [closeEvs, List.mem_append] at he
  rcases he with (he | he) | he
  · split at he <;> simp_all [isD, isC]
  · split at he
    · simp only [List.mem_singleton] at he; subst he; split <;> simp [isD, isC]
    · simp at he
  · simp_all [isD, isC]

theorem quiet_facts {v v' : View} (h : Act .quiet v v') :
    v'.sock = v.sock ∧ v'.discCalled = v.discCalled ∧ ∃ evs, v'.log = v.log ++ evs ∧ Silent evs := by
  cases h with
  | emit _ evs hn => exact ⟨rfl, rfl, evs, rfl, silent_of_neutral hn⟩
  | regW _ =>
    unfold vRegW; split
    · exact ⟨rfl, rfl, [], by simp, Silent.nil⟩
    · split
      · exact ⟨rfl, rfl, [], by simp, Silent.nil⟩
      · refine ⟨rfl, rfl, _, rfl, ?_⟩
        intro e he; split at he <;> simp_all [isD, isC]
  | unregW _ =>
    unfold vUnregW; split
    · exact ⟨rfl, rfl, [], by simp, Silent.nil⟩
    · split
      · refine ⟨rfl, rfl, _, rfl, ?_⟩
        intro e he; split at he <;> simp_all [isD, isC]
      · exact ⟨rfl, rfl, [], by simp, Silent.nil⟩
  | enq _ pkt _ _ =>
    refine ⟨rfl, rfl, _, rfl, ?_⟩
    intro e he; split at he <;> simp_all [isD, isC]
  | write _ pkt rest k _ _ _ =>
    refine ⟨rfl, rfl, _, rfl, ?_⟩
    intro e he; split at he <;> simp_all [isD, isC]
  | setNoSock _ x _ _ => exact ⟨rfl, rfl, [], by simp, Silent.nil⟩
  | connack _ _ => exact ⟨rfl, rfl, [], by simp, Silent.nil⟩

theorem reconn_facts {v v' : View} (h : Act .reconn v v') :
    ∃ evs, v'.log = v.log ++ evs ∧ Silent evs := by
  cases h with
  | closeReplace _ x _ =>
    unfold vCloseReplace vSockClose; dsimp only; split
    · exact ⟨[], by simp, Silent.nil⟩
    · exact ⟨_, rfl, silent_closeEvs_true _ _⟩
  | clearQ _ _ => exact ⟨[], by simp, Silent.nil⟩
  | openConnect _ pkt _ _ _ _ =>
    refine ⟨_, by simp only [vOpen, List.append_assoc]; rfl, ?_⟩
    intro e he
    simp only [List.mem_append, List.mem_cons, List.not_mem_nil, or_false] at he
    rcases he with he | he | he
    · simp [he, isD, isC]
    · split at he
      · simp only [List.mem_singleton] at he; subst he; split <;> simp [isD, isC]
      · simp at he
    · simp [he, isD, isC]
  | openNoConnect _ _ _ _ _ =>
    refine ⟨_, by simp only [vOpen, List.append_assoc]; rfl, ?_⟩
    intro e he
    simp only [List.mem_append, List.mem_cons, List.not_mem_nil, or_false] at he
    rcases he with he | he | he
    · simp [he, isD, isC]
    · split at he
      · simp only [List.mem_singleton] at he; subst he; split <;> simp [isD, isC]
      · simp at he
    · simp [he, isD, isC]

theorem disc_facts {v v' : View} (h : Act .disc v v') :
    v'.log = v.log ∧ v'.discCalled = true ∧ v'.sock = v.sock := by
  cases h; exact ⟨rfl, rfl, rfl⟩

theorem dOD_iff {v : View} (hi : InvS v) (hs : v.sock.isSome = true) : dOD v = true ↔ v.discCalled = true := by
  have := hi.disc hs
  simp only [dOD, Bool.or_eq_true, decide_eq_true_eq]
  rw [← this.1]
  constructor
  · rintro (h | h)
    · exact h
    · exact absurd h this.2
  · exact Or.inl

theorem nd_closeEvs (v : View) (c : Nat) (b : Bool) : nd (closeEvs v c b) = 0 := by
  simp only [closeEvs, nd_append]
  have h1 : ∀ (p : Prop) [Decidable p], nd (if p then [Ev.skUnregW c] else []) = 0 := by
    intro p _
    split <;> simp [nd_cons, isD]
  have h2 : nd (if v.ext = true then [if v.inCb = true then Ev.deadlock "_in_callback_mutex" else Ev.skClose c] else []) = 0 := by
    split
    · split <;> simp [nd_cons, isD]
    · simp
  simp [h1, h2, nd_cons, isD]

theorem nc_closeEvs_false (v : View) (c : Nat) : nc (closeEvs v c false) = 1 := by
  simp only [closeEvs, nc_append]
  have h1 : ∀ (p : Prop) [Decidable p], nc (if p then [Ev.skUnregW c] else []) = 0 := by
    intro p _
    split <;> simp [nc_cons, isC]
  have h2 : nc (if v.ext = true then [if v.inCb = true then Ev.deadlock "_in_callback_mutex" else Ev.skClose c] else []) = 0 := by
    split
    · split <;> simp [nc_cons, isC]
    · simp
  simp [h1, h2, nc_cons, isC]

theorem notMem_closeEvs (v : View) (c : Nat) (b : Bool) (rc : Nat) (b' : Bool) :
    Ev.onDisconnect rc b' ∉ closeEvs v c b := nd_zero_notMem (nd_closeEvs v c b) rc b'

theorem loud_facts {v v' : View} (h : Act .loud v v') (hi : InvS v) :
    v.sock.isSome = true ∧ v'.sock = none ∧ ∃ evs, v'.log = v.log ++ evs ∧ nd evs = 1 ∧ nc evs = 1 ∧
      ∀ rc, Ev.onDisconnect rc false ∈ evs → (rc = 0 ↔ v.discCalled = true) := by
  cases h with
  | writeDisc _ pkt rest k hs hq hk hpos hd =>
    obtain ⟨c, hc⟩ := Option.isSome_iff_exists.1 hs
    have hdc : v.discCalled = true := hi.discq hs pkt (by simp [hq]) hd
    refine ⟨hs, by simp [vWriteDisc, vSockClose, vWrite, hc], ?_⟩
    refine ⟨[Ev.tx c ((pkt.bytes.drop pkt.pos).take k)] ++ closeEvs (vWrite v pkt rest k) c false ++ [Ev.onDisconnect 0 false],
      by simp [vWriteDisc, vSockClose, vWrite, hc], ?_, ?_, ?_⟩
    · simp [nd_closeEvs, nd_cons, isD]
    · simp [nc_closeEvs_false, nc_cons, isC]
    · intro rc he
      simp only [List.mem_append, List.mem_singleton, reduceCtorEq, false_or] at he
      rcases he with he | he
      · exact absurd he (notMem_closeEvs _ _ _ _ _)
      · simp only [Ev.onDisconnect.injEq, and_true] at he
        simp [he, hdc]
  | closeLost _ n hs hn =>
    obtain ⟨c, hc⟩ := Option.isSome_iff_exists.1 hs
    refine ⟨hs, by simp [vCloseLost, vSockClose, hc], ?_⟩
    refine ⟨closeEvs v c false ++ [Ev.onDisconnect (if dOD v then 0 else n) false],
      by simp [vCloseLost, vSockClose, hc], ?_, ?_, ?_⟩
    · simp [nd_closeEvs, nd_cons, isD]
    · simp [nc_closeEvs_false, nc_cons, isC]
    · intro rc he
      simp only [List.mem_append, List.mem_singleton] at he
      rcases he with he | he
      · exact absurd he (notMem_closeEvs _ _ _ _ _)
      · simp only [Ev.onDisconnect.injEq, and_true] at he
        rw [← dOD_iff hi hs, he]
        split <;> simp_all
  | closeBroker _ n hs =>
    obtain ⟨c, hc⟩ := Option.isSome_iff_exists.1 hs
    refine ⟨hs, by simp [vCloseBroker, vSockClose, hc], ?_⟩
    refine ⟨closeEvs v c false ++ [Ev.onDisconnect n true],
      by simp [vCloseBroker, vSockClose, hc], ?_, ?_, ?_⟩
    · simp [nd_closeEvs, nd_cons, isD]
    · simp [nc_closeEvs_false, nc_cons, isC]
    · intro rc he
      simp only [List.mem_append, List.mem_singleton] at he
      rcases he with he | he
      · exact absurd he (notMem_closeEvs _ _ _ _ _)
      · simp at he

/-- strengthened accounting along a normal path -/
theorem trN_aux {v v' : View} (pres : ∀ {k : Kind} {v v' : View}, Act k v v' → InvS v → InvS v')
    (h : TrN v v') (hi : InvS v) :
    ∃ evs, v'.log = v.log ++ evs ∧ nd evs = nc evs ∧ nc evs ≤ 1 ∧
      (v.sock = none → nd evs = 0 ∧ v'.sock = none) ∧
      (∀ rc, Ev.onDisconnect rc false ∈ evs → (rc = 0 ↔ v.discCalled = true)) := by
  induction h with
  | refl v => exact ⟨[], by simp, rfl, by simp, fun h => ⟨rfl, h⟩, by simp⟩
  | @cons k v v1 v2 ha hk _ ih =>
    obtain ⟨evs2, hl2, he2, hc2, hn2, hr2⟩ := ih (pres ha hi)
    cases k with
    | quiet =>
      obtain ⟨hs, hd, evs1, hl1, hsil⟩ := quiet_facts ha
      refine ⟨evs1 ++ evs2, by rw [hl2, hl1, List.append_assoc], ?_, ?_, ?_, ?_⟩
      · simp [hsil.nd, hsil.nc, he2]
      · simp [hsil.nc, hc2]
      · intro h0
        have := hn2 (hs.trans h0)
        simp [hsil.nd, this]
      · intro rc he
        rcases List.mem_append.1 he with he | he
        · exact absurd he (hsil.notMem _ _)
        · rw [← hd]; exact hr2 rc he
    | loud =>
      obtain ⟨hs, hs1, evs1, hl1, hd1, hc1, hr1⟩ := loud_facts ha hi
      have h0 := (hn2 hs1).1
      have h0' : nc evs2 = 0 := he2 ▸ h0
      refine ⟨evs1 ++ evs2, by rw [hl2, hl1, List.append_assoc], ?_, ?_, ?_, ?_⟩
      · simp [hd1, hc1, h0, h0']
      · simp [hc1, h0']
      · intro hn; simp [hn] at hs
      · intro rc he
        rcases List.mem_append.1 he with he | he
        · exact hr1 rc he
        · exact absurd he (nd_zero_notMem h0 _ _)
    | reconn => simp [Kind.isNormal] at hk
    | disc => simp [Kind.isNormal] at hk

end Disc

open Disc

/-- normal paths: at most one connection ends, with exactly one on_disconnect, whose client-generated code is 0 iff
disconnect() had been called on the connection when the path started -/
theorem TrN.disc {v v' : View} (pres : ∀ {k : Kind} {v v' : View}, Act k v v' → InvS v → InvS v')
    (h : TrN v v') (hi : InvS v) :
    ∃ evs, v'.log = v.log ++ evs ∧ stepDiscOk evs = true ∧
      (∀ rc, Ev.onDisconnect rc false ∈ evs → (rc = 0 ↔ v.discCalled = true)) ∧
      (v.sock = none → ∀ rc b, Ev.onDisconnect rc b ∉ evs) := by
  obtain ⟨evs, hl, he, hc, hn, hr⟩ := trN_aux pres h hi
  refine ⟨evs, hl, ?_, hr, fun h0 rc b => nd_zero_notMem (hn h0).1 rc b⟩
  simp [stepDiscOk_eq, he, hc]

/-- reconnect paths: no on_disconnect at all, no non-replacement close -/
theorem Disc.trQ_silent {v v' : View} (h : TrQ v v') : ∃ evs, v'.log = v.log ++ evs ∧ Silent evs := by
  induction h with
  | refl v => exact ⟨[], by simp, Silent.nil⟩
  | @cons k v v1 v2 ha hk _ ih =>
    obtain ⟨evs2, hl2, hs2⟩ := ih
    cases k with
    | quiet =>
      obtain ⟨_, _, evs1, hl1, hs1⟩ := quiet_facts ha
      exact ⟨evs1 ++ evs2, by rw [hl2, hl1, List.append_assoc], hs1.append hs2⟩
    | reconn =>
      obtain ⟨evs1, hl1, hs1⟩ := reconn_facts ha
      exact ⟨evs1 ++ evs2, by rw [hl2, hl1, List.append_assoc], hs1.append hs2⟩
    | loud => simp [Kind.isReconn] at hk
    | disc => simp [Kind.isReconn] at hk

/-- reconnect paths: no on_disconnect at all, no non-replacement close -/
theorem TrQ.disc {v v' : View} (h : TrQ v v') :
    ∃ evs, v'.log = v.log ++ evs ∧ stepDiscOk evs = true ∧ (∀ rc b, Ev.onDisconnect rc b ∉ evs) := by
  obtain ⟨evs, hl, hs⟩ := trQ_silent h
  exact ⟨evs, hl, by simp [stepDiscOk_eq, hs.nd, hs.nc], hs.notMem⟩

/-- the whole step -/
theorem StepPath.discOk {v v' : View} (pres : ∀ {k : Kind} {v v' : View}, Act k v v' → InvS v → InvS v')
    (h : StepPath v v') (hi : InvS v) : ∃ evs, v'.log = v.log ++ evs ∧ stepDiscOk evs = true := by
  cases h with
  | normal h => obtain ⟨evs, hl, hs, _⟩ := TrN.disc pres h hi; exact ⟨evs, hl, hs⟩
  | reconn h => obtain ⟨evs, hl, hs, _⟩ := TrQ.disc h; exact ⟨evs, hl, hs⟩
  | disc v1 ha h =>
    obtain ⟨evs, hl, hs, _⟩ := TrN.disc pres h (pres ha hi)
    exact ⟨evs, by rw [hl, (disc_facts ha).1], hs⟩

/-- step starting with the `.disc` action (disconnect() with an open socket): every client-generated code is 0 -/
theorem disc_step_rc {v v1 v' : View} (pres : ∀ {k : Kind} {v v' : View}, Act k v v' → InvS v → InvS v')
    (ha : Act .disc v v1) (h : TrN v1 v') (hi : InvS v) :
    ∃ evs, v'.log = v.log ++ evs ∧ ∀ rc, Ev.onDisconnect rc false ∈ evs → rc = 0 := by
  obtain ⟨evs, hl, _, hr, _⟩ := TrN.disc pres h (pres ha hi)
  exact ⟨evs, by rw [hl, (disc_facts ha).1], fun rc he => (hr rc he).2 (disc_facts ha).2.1⟩

end SessAct
end Paho
