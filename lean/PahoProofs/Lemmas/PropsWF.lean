/-
Helper lemmas for C17: well-formedness of objects built by assignment, forbidden values.
(`WFd` is definitionally the `Props.WF` of C17.lean.)
-/
import PahoProofs.Lemmas.PropsTable

namespace Paho.PropsLemmas
open Paho Paho.Spec

def WFd (p : Props) : Prop :=
  (p.attrs.map (·.1)).Nodup ∧
  ∀ i vs, (i, vs) ∈ p.attrs →
    vs ≠ [] ∧ (∃ ty pk, (i, ty, pk) ∈ Spec.propTable ∧ p.ptype ∈ pk) ∧ (i ∉ Spec.repeatable → vs.length = 1)

theorem putAttr_wf (p : Props) (i : Nat) (vs : List PVal) (hwf : WFd p) (hne : vs ≠ [])
    (ht : ∃ ty pk, (i, ty, pk) ∈ Spec.propTable ∧ p.ptype ∈ pk)
    (hl : i ∉ Spec.repeatable → vs.length = 1) : WFd (p.putAttr i vs) := by
  obtain ⟨hnd, hall⟩ := hwf
  constructor
  · simp only [Props.putAttr, List.map_append, List.map_cons, List.map_nil]
    rw [List.nodup_append]
    refine ⟨?_, by simp, ?_⟩
    · exact hnd.sublist (List.Sublist.map _ List.filter_sublist)
    · intro a ha b hb
      simp only [List.mem_singleton] at hb
      subst hb
      simp only [List.mem_map, List.mem_filter] at ha
      obtain ⟨x, ⟨_, hx⟩, rfl⟩ := ha
      simpa using hx
  · intro j ws hm
    simp only [Props.putAttr, List.mem_append, List.mem_filter, List.mem_singleton] at hm
    rcases hm with ⟨hm, _⟩ | hm
    · exact hall j ws hm
    · cases hm
      exact ⟨hne, ht, hl⟩

theorem allowsMultiple_iff (i : Nat) : Props.allowsMultiple i = true ↔ i ∈ Spec.repeatable := by
  simp [Props.allowsMultiple, Gen.propMultiIds, Spec.repeatable]

theorem contains_mem {pk : List Nat} {x : Nat} (h : pk.contains x = true) : x ∈ pk := by
  simpa using h

theorem setAttr_wf (p p' : Props) (name : String) (v : PVal) (hwf : WFd p) (h : p.setAttr name v = .ok p') :
    WFd p' := by
  obtain ⟨i, t, pk, _, hr, hc, _, rfl⟩ := setAttr_ok h
  obtain ⟨ty, hty, _⟩ := rows_in_spec i t pk hr
  apply putAttr_wf p i _ hwf
  · unfold newVals; split <;> simp
  · exact ⟨ty, pk, hty, contains_mem hc⟩
  · intro hnr
    have : ¬ Props.allowsMultiple i = true := fun hm => hnr ((allowsMultiple_iff i).mp hm)
    simp [newVals, this]

theorem setAttrList_wf (p p' : Props) (name : String) (vs : List PVal) (hne : vs ≠ []) (hwf : WFd p)
    (h : p.setAttrList name vs = .ok p') : WFd p' := by
  obtain ⟨i, t, pk, _, hr, hc, _, hm, rfl⟩ := setAttrList_ok h
  obtain ⟨ty, hty, _⟩ := rows_in_spec i t pk hr
  apply putAttr_wf p i _ hwf
  · simp [hne]
  · exact ⟨ty, pk, hty, contains_mem hc⟩
  · intro hnr
    exact absurd ((allowsMultiple_iff i).mp hm) hnr

theorem forbidden_true (name : String) (n : Int)
    (h : (name ∈ ["ReceiveMaximum", "TopicAlias"] ∧ (n < 1 ∨ n > 65535)) ∨
         (name = "TopicAliasMaximum" ∧ (n < 0 ∨ n > 65535)) ∨
         (name = "SubscriptionIdentifier" ∧ (n < 1 ∨ n > 268435455)) ∨
         (name = "MaximumPacketSize" ∧ (n < 1 ∨ n > 4294967295)) ∨
         (name ∈ ["RequestResponseInformation", "RequestProblemInformation", "PayloadFormatIndicator"] ∧ n ≠ 0 ∧ n ≠ 1)) :
    Props.valueForbidden name (.int n) = true := by
  simp only [List.mem_cons, List.not_mem_nil, or_false] at h
  rcases h with ⟨hn, hr⟩ | ⟨hn, hr⟩ | ⟨hn, hr⟩ | ⟨hn, hr⟩ | ⟨hn, hr⟩
  · rcases hn with rfl | rfl <;>
      simp [Props.valueForbidden, Gen.propRangeRules, Gen.propEnumRules] <;> omega
  · subst hn
    simp [Props.valueForbidden, Gen.propRangeRules, Gen.propEnumRules]; omega
  · subst hn
    simp [Props.valueForbidden, Gen.propRangeRules, Gen.propEnumRules]; omega
  · subst hn
    simp [Props.valueForbidden, Gen.propRangeRules, Gen.propEnumRules]; omega
  · rcases hn with rfl | rfl | rfl <;>
      simp [Props.valueForbidden, Gen.propRangeRules, Gen.propEnumRules] <;> omega

end Paho.PropsLemmas
