/-
C16 (write wake-up): at every op boundary, an open socket with a non-empty output queue
has its write registration set. `W` is the Prop form of `S.invWakeup`; it is an op-boundary
invariant needing no auxiliary invariant: `loopWrite`/`callSocketRegisterWrite`/`packetQueue`
establish it unconditionally, `sockClose` makes it trivial, every other handler preserves it.
-/
import Paho.Model.Session
import Paho.Model.SessionInv
import PahoProofs.Lemmas.SessionDefs
namespace Paho
namespace SessWake
open S

/-- op-boundary wake-up invariant, as a proposition on the projections -/
def W (s : S) : Prop := s.sock.isSome = true → s.outq ≠ [] → s.regWrite = true

theorem W_of_none {s : S} (h : s.sock = none) : W s := by
  intro h1; simp [h] at h1

theorem W_of_nil {s : S} (h : s.outq = []) : W s := by
  intro _ h2; exact absurd h h2

theorem W_of_eq {s s' : S} (h1 : s'.sock = s.sock) (h2 : s'.outq = s.outq)
    (h3 : s'.regWrite = s.regWrite) (hw : W s) : W s' := by
  unfold W at *; rw [h1, h2, h3]; exact hw

@[simp] theorem W_emit (s : S) (e : Ev) : W (s.emit e) ↔ W s := Iff.rfl
@[simp] theorem W_setInfo (s : S) (i : Nat) (f : Info → Info) : W (s.setInfo i f) ↔ W s := Iff.rfl
@[simp] theorem emit_sock (s : S) (e : Ev) : (s.emit e).sock = s.sock := rfl
@[simp] theorem emit_outq (s : S) (e : Ev) : (s.emit e).outq = s.outq := rfl
@[simp] theorem emit_regWrite (s : S) (e : Ev) : (s.emit e).regWrite = s.regWrite := rfl
@[simp] theorem setInfo_sock (s : S) (i : Nat) (f : Info → Info) : (s.setInfo i f).sock = s.sock := rfl
@[simp] theorem setInfo_outq (s : S) (i : Nat) (f : Info → Info) : (s.setInfo i f).outq = s.outq := rfl
@[simp] theorem setInfo_regWrite (s : S) (i : Nat) (f : Info → Info) : (s.setInfo i f).regWrite = s.regWrite := rfl

@[simp] theorem crw_sock (s : S) : s.callSocketRegisterWrite.sock = s.sock := by
  simp only [callSocketRegisterWrite]; repeat' split
  all_goals rfl

@[simp] theorem crw_outq (s : S) : s.callSocketRegisterWrite.outq = s.outq := by
  simp only [callSocketRegisterWrite]; repeat' split
  all_goals rfl

@[simp] theorem cuw_sock (s : S) (o : Option Nat) : (s.callSocketUnregisterWrite o).sock = s.sock := by
  simp only [callSocketUnregisterWrite]; repeat' split
  all_goals rfl

@[simp] theorem cuw_outq (s : S) (o : Option Nat) : (s.callSocketUnregisterWrite o).outq = s.outq := by
  simp only [callSocketUnregisterWrite]; repeat' split
  all_goals rfl

theorem W_crw (s : S) : W s.callSocketRegisterWrite := by
  intro h1 _
  simp only [callSocketRegisterWrite] at *
  split at h1
  · simp_all
  · split
    · simp_all
    · split <;> rfl

theorem W_final (s : S) :
    W (if s.wantWrite then s.callSocketRegisterWrite else s.callSocketUnregisterWrite none) := by
  split
  · exact W_crw s
  · rename_i h
    apply W_of_nil
    simpa [wantWrite] using h

@[simp] theorem sockClose_sock (s : S) (r : Bool) : (s.sockClose r).sock = none := by
  simp only [sockClose]
  split
  · assumption
  · simp only [emit_sock]
    repeat' split
    all_goals simp

theorem W_sockClose (s : S) (r : Bool) : W (s.sockClose r) := W_of_none (sockClose_sock s r)

theorem loopRcHandle_cases (s : S) (rc : RC) :
    (s.loopRcHandle rc).1 = s ∨ (s.loopRcHandle rc).1.sock = none := by
  simp only [loopRcHandle]
  repeat' split
  all_goals simp [doOnDisconnect]

theorem W_loopRcHandle (s : S) (rc : RC) (h : W s) : W (s.loopRcHandle rc).1 := by
  rcases loopRcHandle_cases s rc with h1 | h1
  · rw [h1]; exact h
  · exact W_of_none h1

theorem W_loopWrite (s : S) : W s.loopWrite.1 := by
  unfold loopWrite
  split
  · rename_i h; exact W_of_none h
  · generalize s.packetWrite s.writeFuel = p
    obtain ⟨s1, rc1⟩ := p
    dsimp only
    generalize (if rc1 = rcAgain then (s1, rcSuccess) else if rc1 > 0 then s1.loopRcHandle rc1 else (s1, rcSuccess)) = q
    obtain ⟨s2, rc2⟩ := q
    exact W_final s2

theorem W_packetQueue (s : S) (pkt : OutPkt) (d : Bool) : W (s.packetQueue pkt d).1 := by
  unfold packetQueue
  extract_lets s1 s2
  split
  · exact W_loopWrite _
  · exact W_crw _

theorem W_sendPublish (s : S) (mid : Nat) (topic payload : Bytes) (qos : Nat) (retain dup : Bool)
    (info : Option Nat) (direct : Bool) (uid : Option Nat) (h : W s) :
    W (s.sendPublish mid topic payload qos retain dup info direct uid).1 := by
  simp only [sendPublish]
  split
  · exact h
  · split
    · exact h
    · exact W_packetQueue _ _ _

theorem W_sendCmdMid (s : S) (command mid : Nat) (direct : Bool) (h : W s) :
    W (s.sendCmdMid command mid direct).1 := by
  simp only [sendCmdMid]
  split
  · exact h
  · exact W_packetQueue _ _ _

theorem W_sendPuback (s : S) (mid : Nat) (h : W s) : W (s.sendPuback mid).1 :=
  W_sendCmdMid _ _ _ _ h
theorem W_sendPubrec (s : S) (mid : Nat) (h : W s) : W (s.sendPubrec mid).1 :=
  W_sendCmdMid _ _ _ _ h
theorem W_sendPubcomp (s : S) (mid : Nat) (h : W s) : W (s.sendPubcomp mid).1 :=
  W_sendCmdMid _ _ _ _ h

theorem W_sendPubrel (s : S) (mid : Nat) (direct : Bool) (h : W s) :
    W (s.sendPubrel mid direct).1 := by
  simp only [sendPubrel]
  apply W_sendCmdMid
  split
  · exact h
  · exact h

theorem W_sendSimple (s : S) (command : Nat) : W (s.sendSimple command).1 :=
  W_packetQueue _ _ _

theorem W_sendConnect (s : S) (h : W s) : W s.sendConnect.1 := by
  simp only [sendConnect]
  split
  · exact h
  · exact W_packetQueue _ _ _

theorem failQueuedQos0_frame (s : S) (l : List OutPkt) :
    (s.failQueuedQos0 l).sock = s.sock ∧ (s.failQueuedQos0 l).outq = s.outq
      ∧ (s.failQueuedQos0 l).regWrite = s.regWrite := by
  induction l generalizing s with
  | nil => exact ⟨rfl, rfl, rfl⟩
  | cons p rest ih =>
    simp only [failQueuedQos0]
    refine ⟨(ih _).1.trans ?_, (ih _).2.1.trans ?_, (ih _).2.2.trans ?_⟩
    all_goals repeat' split
    all_goals rfl

theorem resetIn_outq (s : S) : s.messagesReconnectResetIn.outq = s.outq := by
  simp only [messagesReconnectResetIn]; split <;> rfl
theorem resetIn_sock (s : S) : s.messagesReconnectResetIn.sock = s.sock := by
  simp only [messagesReconnectResetIn]; split <;> rfl
theorem resetIn_regWrite (s : S) : s.messagesReconnectResetIn.regWrite = s.regWrite := by
  simp only [messagesReconnectResetIn]; split <;> rfl

theorem W_reconnect (s : S) (ok : Bool) (h : W s) : W (s.reconnect ok).1 := by
  unfold reconnect
  split
  · exact h
  · extract_lets s1 s2 s3 s4 s5 s6
    have h6 : s6.outq = [] := by
      show s4.messagesReconnectResetOut.messagesReconnectResetIn.outq = []
      rw [resetIn_outq]; rfl
    split
    · exact W_of_nil h6
    · rename_i c s7 s8 s9 hok
      have h9 : W s9 := by
        apply W_of_nil
        simp only [s9]
        repeat' split
        all_goals exact h6
      generalize hq : s9.sendConnect = q
      obtain ⟨sa, rc⟩ := q
      have := W_sendConnect s9 h9
      rw [hq] at this
      exact this

theorem W_connectAsync (s : S) : W s.connectAsync := by
  simp only [connectAsync]
  exact W_of_none (sockClose_sock _ _)

theorem W_connect (s : S) (ok : Bool) : W (s.connect ok).1 := by
  simp only [connect]
  exact W_reconnect _ _ (W_connectAsync _)

theorem W_of_fst {α : Type} {p : S × α} {s' : S} {r : α} (heq : p = (s', r)) (h : W p.1) : W s' := by
  subst heq; exact h

theorem W_updateInflight (fuel : Nat) :
    ∀ (s : S) (idx : Nat), W s → W (s.updateInflight fuel idx).1 := by
  induction fuel with
  | zero => intro s idx h; unfold updateInflight; exact h
  | succ n ih =>
    intro s idx h
    unfold updateInflight
    split
    · exact h
    · split
      · exact h
      split
      · split
        · extract_lets m' s1
          have h1 : W s1 := h
          split
          rename_i s2 rc heq
          have h2 : W s2 := W_of_fst heq (W_sendPublish _ _ _ _ _ _ _ _ _ _ h1)
          split
          · exact h2
          · exact ih _ _ h2
        · exact ih _ _ h
      · exact h

theorem W_doOnPublish (s : S) (mid : Nat) (h : W s) : W (s.doOnPublish mid).1 := by
  unfold doOnPublish
  extract_lets s1
  split
  · exact h
  · extract_lets s2 s3 s4
    have h4 : W s4 := h
    split
    · rename_i s5 hq
      split
      · split
        rename_i s6 rc heq
        have h6 : W s6 := W_of_fst heq (W_updateInflight _ _ _ h4)
        split <;> exact h6
      · exact h4
    · exact h4

theorem W_handlePubackcomp (s : S) (mid : Nat) (h : W s) : W (s.handlePubackcomp mid).1 := by
  unfold handlePubackcomp
  split
  · exact W_doOnPublish _ _ h
  · exact h

theorem W_handlePubrec (s : S) (mid : Nat) (h : W s) : W (s.handlePubrec mid).1 := by
  unfold handlePubrec
  split
  · exact W_sendPubrel _ _ _ h
  · exact h

theorem W_handleOnMessage (s : S) (m : InMsg) (h : W s) : W (s.handleOnMessage m).1 := by
  unfold handleOnMessage
  extract_lets s1
  split
  · exact h
  · exact h

theorem W_handlePublish (s : S) (m : InMsg) (h : W s) : W (s.handlePublish m).1 := by
  unfold handlePublish
  extract_lets m1
  split
  · exact h
  · split
    · split
      rename_i s1 raised heq
      have h1 : W s1 := W_of_fst heq (W_handleOnMessage _ _ h)
      split <;> exact h1
    · split
      · split
        rename_i s1 raised heq
        have h1 : W s1 := W_of_fst heq (W_handleOnMessage _ _ h)
        split
        · exact h1
        · split
          · exact h1
          · split
            rename_i s2 rc heq2
            exact W_of_fst heq2 (W_sendPuback _ _ h1)
      · split
        · split
          rename_i s1 rc heq
          have h1 : W s1 := W_of_fst heq (W_sendPubrec _ _ h)
          exact h1
        · exact h

theorem W_handlePubrel (s : S) (mid : Nat) (h : W s) : W (s.handlePubrel mid).1 := by
  unfold handlePubrel
  split
  rename_i s1 raised heq
  have h1 : W s1 := by
    split at heq
    · exact W_of_fst heq (W_handleOnMessage _ _ h)
    · exact W_of_fst heq h
  split
  · exact h1
  · split
    · exact h1
    · split
      rename_i s2 rc heq2
      exact W_of_fst heq2 (W_sendPubcomp _ _ h1)

theorem W_connackResend (fuel : Nat) :
    ∀ (s : S) (idx : Nat) (rc : RC), W s → W (s.connackResend fuel idx rc).1 := by
  induction fuel with
  | zero => intro s idx rc h; unfold connackResend; exact h
  | succ n ih =>
    intro s idx rc h
    unfold connackResend
    split
    · exact h
    · split
      · exact h
      split
      · split
        rename_i s1 rc1 heq
        exact W_of_fst heq (W_loopWrite _)
      · split
        rename_i s1 rc1 stop heq
        have h1 : W s1 := by
          split at heq
          · extract_lets sa at heq
            split at heq
            rename_i sb r heqb
            have hb : W sb := W_of_fst heqb (W_sendPublish _ _ _ _ _ _ _ _ _ _ h)
            cases heq
            exact hb
          · split at heq
            · extract_lets sa at heq
              split at heq
              rename_i sb r heqb
              have hb : W sb := W_of_fst heqb (W_sendPublish _ _ _ _ _ _ _ _ _ _ h)
              cases heq
              exact hb
            · split at heq
              · extract_lets sa at heq
                split at heq
                rename_i sb r heqb
                have hb : W sb := W_of_fst heqb (W_sendPubrel _ _ _ h)
                cases heq
                exact hb
              · cases heq
                exact h
        split
        · exact h1
        · split
          rename_i s2 rc2 heq2
          exact ih _ _ _ (W_of_fst heq2 (W_loopWrite _))

theorem W_handleConnack (s : S) (sp : Bool) (result : Nat) (ok : Bool) (h : W s) :
    W (s.handleConnack sp result ok).1 := by
  unfold handleConnack
  extract_lets pre sr s1 shown s3
  clear_value pre
  have h1 : W s1 := by
    simp only [s1]; split <;> exact h
  have h3 : W s3 := h1
  cases pre <;> dsimp only
  · split
    · split
      · exact h
      · have hr := W_reconnect sr ok h
        split
        · rename_i s' heq
          rw [heq] at hr
          exact hr
        · exact hr
    · split
      · exact W_connackResend _ _ _ _ h3
      · split <;> exact h3
  · exact h

theorem W_handleDisconnect (s : S) (reason : Option Nat) (h : W s) :
    W (s.handleDisconnect reason).1 := by
  unfold handleDisconnect
  extract_lets bad s1 s2 s3
  clear_value bad
  cases bad <;> dsimp only
  · apply W_of_none
    show s2.sock = none
    simp only [s2]
    split <;> exact sockClose_sock _ _
  · exact h

theorem W_packetHandle (s : S) (p : RxPkt) (ok : Bool) (h : W s) :
    W (s.packetHandle p ok).1 := by
  unfold packetHandle
  split
  · split
    rename_i s1 rc heq
    exact W_of_fst heq (W_sendSimple _ _)
  · exact h
  · split
    rename_i s1 rc heq
    exact W_of_fst heq (W_handlePubackcomp _ _ h)
  · split
    rename_i s1 rc heq
    exact W_of_fst heq (W_handlePubackcomp _ _ h)
  · exact W_handlePublish _ _ h
  · split
    rename_i s1 rc heq
    exact W_of_fst heq (W_handlePubrec _ _ h)
  · exact W_handlePubrel _ _ h
  · exact W_handleConnack _ _ _ _ h
  · exact h
  · exact h
  · split
    · exact W_handleDisconnect _ _ h
    · exact h
  · exact h
  · exact h

theorem W_loopRead (s : S) (item : RxItem) (ok : Bool) (h : W s) : W (s.loopRead item ok).1 := by
  unfold loopRead
  split
  · exact h
  · split
    · exact h
    · split
      rename_i s1 rc heq
      exact W_of_fst heq (W_loopRcHandle _ _ h)
    · split
      rename_i s1 rc heq
      exact W_of_fst heq (W_loopRcHandle _ _ h)
    · split
      · rename_i s1 n heq
        exact W_of_fst heq (W_packetHandle _ _ _ h)
      · rename_i s1 rc heq
        have h1 : W s1 := W_of_fst heq (W_packetHandle _ _ _ h)
        extract_lets s2
        have h2 : W s2 := h1
        split
        · split
          rename_i s3 rc3 heq3
          exact W_of_fst heq3 (W_loopRcHandle _ _ h2)
        · split
          · exact h2
          · split <;> exact h2

theorem W_checkKeepalive (s : S) (h : W s) : W s.checkKeepalive := by
  unfold checkKeepalive
  extract_lets k sc
  split
  · exact h
  · split
    · exact h
    · split
      · split
        · split
          rename_i s1 rc heq
          have h1 : W s1 := W_of_fst heq (W_sendSimple _ _)
          extract_lets s2
          have h2 : W s2 := by
            simp only [s2]; split <;> exact h1
          exact h2
        · apply W_of_none
          split <;> exact sockClose_sock _ _
      · exact h

theorem W_loopMisc (s : S) (h : W s) : W s.loopMisc.1 := by
  unfold loopMisc
  split
  · exact h
  · extract_lets s1 s2
    have h1 : W s1 := W_checkKeepalive _ h
    split
    · exact h1
    · split
      · split
        rename_i s3 rc heq
        apply W_of_none
        split at heq
        · cases heq; exact sockClose_sock _ _
        · cases heq; exact sockClose_sock _ _
      · exact h1

theorem W_publish (s : S) (qos : Nat) (topic payload : Bytes) (retain : Bool) (h : W s) :
    W (s.publish qos topic payload retain) := by
  unfold publish
  split
  · exact h
  · exact h
  · extract_lets mid s1 infoIdx s2 m m1 s3 s4
    have h2 : W s2 := h
    have h3 : W s3 := h
    have h4 : W s4 := h
    split
    · split
      rename_i s5 rc heq
      exact (W_of_fst heq (W_sendPublish _ _ _ _ _ _ _ _ _ _ h2) : W s5)
    · split
      · exact h2
      · split
        · exact h2
        · split
          · split
            rename_i s5 rc heq
            have h5 : W s5 := W_of_fst heq (W_sendPublish _ _ _ _ _ _ _ _ _ _ h3)
            extract_lets s6
            have h6 : W s6 := by
              simp only [s6]; split <;> exact h5
            exact h6
          · exact h4

theorem W_subscribe (s : S) (topic : Bytes) (qos : Nat) (h : W s) : W (s.subscribe topic qos) := by
  unfold subscribe
  split
  · exact h
  · split
    · exact h
    · split
      · exact h
      · split
        · exact h
        · extract_lets mid s1
          split
          · exact h
          · split
            rename_i s2 rc heq
            exact (W_of_fst heq (W_packetQueue _ _ _) : W s2)

theorem W_unsubscribe (s : S) (topic : Bytes) (h : W s) : W (s.unsubscribe topic) := by
  unfold unsubscribe
  split
  · exact h
  · split
    · exact h
    · extract_lets mid s1
      split
      · exact h
      · split
        rename_i s2 rc heq
        exact (W_of_fst heq (W_packetQueue _ _ _) : W s2)

theorem W_disconnect (s : S) (h : W s) : W s.disconnect := by
  unfold disconnect
  split
  · exact h
  · extract_lets s1
    split
    · exact h
    · split
      rename_i s2 rc heq
      exact (W_of_fst heq (W_packetQueue _ _ _) : W s2)

theorem W_ack (s : S) (mid qos : Nat) (h : W s) : W (s.ack mid qos) := by
  unfold ack
  split
  · split
    · split
      rename_i s2 rc heq
      exact (W_of_fst heq (W_sendPuback _ _ h) : W s2)
    · split
      · split
        rename_i s2 rc heq
        exact (W_of_fst heq (W_sendPubcomp _ _ h) : W s2)
      · exact h
  · exact h

theorem W_step (s : S) (op : Op) (h : W s) : W (s.step op) := by
  unfold S.step
  split
  · split
    rename_i s2 r heq
    exact (W_of_fst heq (W_connect _ _) : W s2)
  · split
    rename_i s2 r heq
    exact (W_of_fst heq (W_reconnect _ _ h) : W s2)
  · exact W_connectAsync _
  · split
    rename_i s2 r heq
    exact (W_of_fst heq (W_loopRead _ _ _ h) : W s2)
  · exact W_publish _ _ _ _ _ h
  · exact W_subscribe _ _ _ h
  · exact W_unsubscribe _ _ h
  · exact W_disconnect _ h
  · split
    rename_i s2 r heq
    exact (W_of_fst heq (W_loopWrite _) : W s2)
  · split
    rename_i s2 r heq
    exact (W_of_fst heq (W_loopMisc _ h) : W s2)
  · exact h
  · exact h
  · exact W_ack _ _ _ h
  · exact h

theorem W_run (ops : List Op) : ∀ s : S, W s → W (s.run ops) := by
  induction ops with
  | nil => intro s h; exact h
  | cons op rest ih =>
    intro s h
    exact ih _ (W_step s op h)

theorem invWakeup_of_W {s : S} (h : W s) : s.invWakeup = true := by
  unfold W at h
  unfold S.invWakeup S.wantWrite
  cases hs : s.sock.isSome <;> cases hq : s.outq <;> simp_all

theorem wakeup_run (cfg : Cfg) (proto : Nat) (ops : List Op) :
    (runFrom cfg proto ops).invWakeup = true := by
  apply invWakeup_of_W
  unfold runFrom
  apply W_run
  exact W_of_none rfl

end SessWake
end Paho

