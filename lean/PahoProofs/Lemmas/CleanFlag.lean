/-
Frame lemmas for the session model: which operations can change the three components the CONNECT
clean flag depends on (`cfg`, `proto`, `firstConnect`). Used by PahoProofs/Properties/C04.lean.
-/
import Paho.Model.Session
import PahoProofs.Lemmas.SessionDefs

namespace Paho.CleanFlag
open Paho Paho.S

/-- the part of the state `connectCleanFlag` reads -/
structure Key where
  cfg : Cfg
  proto : Nat
  fc : Bool

def key (s : S) : Key := ⟨s.cfg, s.proto, s.firstConnect⟩

@[simp] theorem key_mk (cfg proto hostSet cstate sock nconn lastMid out inm inflight outq regWrite firstConnect inCb
    pingT lastIn lastOut now reconnectDelay sendScript infos raiseOnMessage ackd discCalled log) :
    key ⟨cfg, proto, hostSet, cstate, sock, nconn, lastMid, out, inm, inflight, outq, regWrite, firstConnect, inCb,
      pingT, lastIn, lastOut, now, reconnectDelay, sendScript, infos, raiseOnMessage, ackd, discCalled, log⟩
      = ⟨cfg, proto, firstConnect⟩ := rfl

@[simp] theorem key_eta (s : S) : (⟨s.cfg, s.proto, s.firstConnect⟩ : Key) = key s := rfl

/-- case analysis to the leaves, simplifying with the frame lemmas proved so far -/
syntax "frame_tac" ("[" Lean.Parser.Tactic.simpLemma,* "]")? : tactic
macro_rules
  | `(tactic| frame_tac) =>
    `(tactic| repeat' (first | rfl | simp | (split <;> (try simp only [Prod.ext_iff] at *) <;> (try subst_vars))))
  | `(tactic| frame_tac [$ts,*]) =>
    `(tactic| repeat' (first | rfl | simp [$ts,*] | (split <;> (try simp only [Prod.ext_iff] at *) <;> (try subst_vars))))

theorem flag_of_key {s s' : S} (h : key s = key s') : s.connectCleanFlag = s'.connectCleanFlag := by
  simp only [key, Key.mk.injEq] at h
  simp [connectCleanFlag, h.1, h.2.1, h.2.2]

@[simp] theorem key_emit (s : S) (e : Ev) : key (s.emit e) = key s := rfl
@[simp] theorem key_setInfo (s : S) (i : Nat) (f : Info → Info) : key (s.setInfo i f) = key s := rfl

@[simp] theorem key_callSocketRegisterWrite (s : S) : key s.callSocketRegisterWrite = key s := by
  unfold callSocketRegisterWrite
  frame_tac

@[simp] theorem key_callSocketUnregisterWrite (s : S) (o : Option Nat) : key (s.callSocketUnregisterWrite o) = key s := by
  unfold callSocketUnregisterWrite
  frame_tac

@[simp] theorem key_sockClose (s : S) (r : Bool) : key (s.sockClose r) = key s := by
  unfold sockClose
  frame_tac

@[simp] theorem key_doOnDisconnect (s : S) (rc : RC) (b : Bool) : key (s.doOnDisconnect rc b) = key s := rfl

@[simp] theorem key_loopRcHandle (s : S) (rc : RC) : key (s.loopRcHandle rc).1 = key s := by
  unfold loopRcHandle
  frame_tac

@[simp] theorem key_nextSend (s : S) (n : Nat) : key (s.nextSend n).1 = key s := by
  unfold nextSend
  frame_tac

@[simp] theorem key_packetWrite (fuel : Nat) (s : S) : key (packetWrite fuel s).1 = key s := by
  induction fuel generalizing s with
  | zero => simp [packetWrite]
  | succ n ih =>
    unfold packetWrite
    frame_tac [ih]

@[simp] theorem key_loopWrite (s : S) : key s.loopWrite.1 = key s := by
  unfold loopWrite
  frame_tac

@[simp] theorem key_packetQueue (s : S) (p : OutPkt) (d : Bool) : key (s.packetQueue p d).1 = key s := by
  unfold packetQueue
  frame_tac

@[simp] theorem key_sendPublish (s : S) (mid : Nat) (t p : Bytes) (q : Nat) (r d : Bool) (i : Option Nat) (dir : Bool)
    (u : Option Nat) : key (s.sendPublish mid t p q r d i dir u).1 = key s := by
  unfold sendPublish
  frame_tac

@[simp] theorem key_sendCmdMid (s : S) (c mid : Nat) (d : Bool) : key (s.sendCmdMid c mid d).1 = key s := by
  unfold sendCmdMid
  frame_tac

@[simp] theorem key_sendPuback (s : S) (mid : Nat) : key (s.sendPuback mid).1 = key s := by simp [sendPuback]
@[simp] theorem key_sendPubrec (s : S) (mid : Nat) : key (s.sendPubrec mid).1 = key s := by simp [sendPubrec]
@[simp] theorem key_sendPubcomp (s : S) (mid : Nat) : key (s.sendPubcomp mid).1 = key s := by simp [sendPubcomp]
@[simp] theorem key_sendPubrel (s : S) (mid : Nat) (d : Bool) : key (s.sendPubrel mid d).1 = key s := by
  unfold sendPubrel
  frame_tac

@[simp] theorem key_sendSimple (s : S) (c : Nat) : key (s.sendSimple c).1 = key s := by simp [sendSimple]

@[simp] theorem key_sendConnect (s : S) : key s.sendConnect.1 = key s := by
  unfold sendConnect
  frame_tac

@[simp] theorem key_messagesReconnectResetOut (s : S) : key s.messagesReconnectResetOut = key s := rfl
@[simp] theorem key_messagesReconnectResetIn (s : S) : key s.messagesReconnectResetIn = key s := by
  unfold messagesReconnectResetIn
  frame_tac

@[simp] theorem key_failQueuedQos0 (l : List OutPkt) (s : S) : key (s.failQueuedQos0 l) = key s := by
  induction l generalizing s with
  | nil => rfl
  | cons p rest ih =>
    unfold failQueuedQos0
    frame_tac [ih]

@[simp] theorem key_reconnect (s : S) (ok : Bool) : key (s.reconnect ok).1 = key s := by
  unfold reconnect
  frame_tac

@[simp] theorem key_connectAsync (s : S) : key s.connectAsync = key s := by
  unfold connectAsync
  frame_tac

@[simp] theorem key_updateInflight (fuel : Nat) (s : S) (idx : Nat) : key (s.updateInflight fuel idx).1 = key s := by
  induction fuel generalizing s idx with
  | zero => simp [updateInflight]
  | succ n ih =>
    unfold updateInflight
    frame_tac [ih]

@[simp] theorem key_doOnPublish (s : S) (mid : Nat) : key (s.doOnPublish mid).1 = key s := by
  unfold doOnPublish
  frame_tac

@[simp] theorem key_handlePubackcomp (s : S) (mid : Nat) : key (s.handlePubackcomp mid).1 = key s := by
  unfold handlePubackcomp
  frame_tac

@[simp] theorem key_handlePubrec (s : S) (mid : Nat) : key (s.handlePubrec mid).1 = key s := by
  unfold handlePubrec
  frame_tac

@[simp] theorem key_handleOnMessage (s : S) (m : InMsg) : key (s.handleOnMessage m).1 = key s := by
  unfold handleOnMessage
  frame_tac

@[simp] theorem key_handlePublish (s : S) (m : InMsg) : key (s.handlePublish m).1 = key s := by
  unfold handlePublish
  frame_tac

@[simp] theorem key_handlePubrel (s : S) (mid : Nat) : key (s.handlePubrel mid).1 = key s := by
  unfold handlePubrel
  frame_tac

@[simp] theorem key_connackResend (fuel : Nat) (s : S) (idx : Nat) (rc : RC) :
    key (s.connackResend fuel idx rc).1 = key s := by
  induction fuel generalizing s idx rc with
  | zero => rfl
  | succ n ih =>
    unfold connackResend
    frame_tac [ih]

@[simp] theorem key_handleDisconnect (s : S) (r : Option Nat) : key (s.handleDisconnect r).1 = key s := by
  unfold handleDisconnect
  frame_tac

@[simp] theorem key_checkKeepalive (s : S) : key s.checkKeepalive = key s := by
  unfold checkKeepalive
  frame_tac

@[simp] theorem key_loopMisc (s : S) : key s.loopMisc.1 = key s := by
  unfold loopMisc
  frame_tac

@[simp] theorem key_publish (s : S) (q : Nat) (t p : Bytes) (r : Bool) : key (s.publish q t p r) = key s := by
  unfold publish
  frame_tac

@[simp] theorem key_subscribe (s : S) (t : Bytes) (q : Nat) : key (s.subscribe t q) = key s := by
  unfold subscribe
  frame_tac

@[simp] theorem key_unsubscribe (s : S) (t : Bytes) : key (s.unsubscribe t) = key s := by
  unfold unsubscribe
  frame_tac

@[simp] theorem key_disconnect (s : S) : key s.disconnect = key s := by
  unfold disconnect
  frame_tac

@[simp] theorem key_ack (s : S) (m q : Nat) : key (s.ack m q) = key s := by
  unfold ack
  frame_tac

/-- `connect()` re-arms the flag on MQTT 5 and changes nothing else the flag depends on -/
theorem key_connect (s : S) (ok : Bool) :
    key (s.connect ok).1 = ⟨s.cfg, s.proto, if s.proto = 5 then true else s.firstConnect⟩ := by
  unfold connect
  split
  · rename_i h; simp [h]
  · rename_i h; simp

/-- the CONNACK handler on MQTT 5: either the reason code constructor raises (state untouched), or the flag
is disarmed exactly when the result is 0 (a refused CONNACK leaves it as it was) -/
theorem handleConnack_five (s : S) (sp : Bool) (rc : Nat) (ok : Bool) (h5 : s.proto = 5) :
    (∃ n, s.handleConnack sp rc ok = (s, .raised n)) ∨
      key (s.handleConnack sp rc ok).1 = ⟨s.cfg, 5, if rc = 0 then false else s.firstConnect⟩ := by
  unfold handleConnack
  have h4 : ¬ (s.proto = 4 ∧ rc = 1) := by omega
  simp only [h4, if_false]
  split
  · rename_i r hr
    left
    revert hr
    split
    · split
      · intro hr; exact ⟨_, by cases hr; rfl⟩
      · intro hr; exact ⟨_, by cases hr; rfl⟩
      · intro hr; cases hr
    · intro hr; cases hr
  · right
    by_cases h0 : rc = 0
    · subst h0; frame_tac [h5]
    · simp only [h0, if_false]
      split <;> simp only [key_emit] <;> simp only [key, h5]

/-- a CONNACK with a non-zero result never changes what the clean flag depends on -/
theorem handleConnack_five_refused (s : S) (sp : Bool) (rc : Nat) (ok : Bool) (h5 : s.proto = 5) (h0 : rc ≠ 0) :
    key (s.handleConnack sp rc ok).1 = key s := by
  rcases handleConnack_five s sp rc ok h5 with ⟨n, hn⟩ | h
  · rw [hn]
  · rw [h]; simp only [h0, if_false, key, h5]

theorem packetHandle_five (s : S) (p : RxPkt) (ok : Bool) (h5 : s.proto = 5) :
    key (s.packetHandle p ok).1 = key s ∨ key (s.packetHandle p ok).1 = ⟨s.cfg, 5, false⟩ := by
  cases p
  case connack sp rc =>
    by_cases h0 : rc = 0
    · rcases handleConnack_five s sp rc ok h5 with ⟨n, hn⟩ | h
      · left; simp [packetHandle, hn]
      · right; simpa [packetHandle, h0] using h
    · left; simpa [packetHandle] using handleConnack_five_refused s sp rc ok h5 h0
  all_goals (left; unfold packetHandle; frame_tac)

/-- everything `loop_read()` does after the packet handler returned keeps the three components -/
theorem loopRead_five (s : S) (item : RxItem) (ok : Bool) (h5 : s.proto = 5) :
    key (s.loopRead item ok).1 = key s ∨ key (s.loopRead item ok).1 = ⟨s.cfg, 5, false⟩ := by
  unfold loopRead
  split
  · left; rfl
  · cases item
    case pkt p =>
      rcases hph : s.packetHandle p ok with ⟨s1, r⟩
      have h := packetHandle_five s p ok h5
      rw [hph] at h
      simp only [hph]
      cases r
      case raised n => simpa using h
      case rc rc =>
        rcases h with h | h
        · left; rw [← h]; frame_tac
        · right; rw [← h]; frame_tac
    all_goals (left; frame_tac)

/-- whatever `loop_read()` does after the packet handler returned keeps the three components -/
theorem key_loopRead_pkt (s : S) (p : RxPkt) (ok : Bool) :
    key (s.loopRead (.pkt p) ok).1 = key s ∨ key (s.loopRead (.pkt p) ok).1 = key (s.packetHandle p ok).1 := by
  unfold loopRead
  split
  · left; rfl
  · right
    rcases hph : s.packetHandle p ok with ⟨s1, r⟩
    simp only [hph]
    cases r
    case raised n => rfl
    case rc rc => frame_tac

/-- a CONNACK with result 0 read on a live socket: the handler raises or the flag is disarmed -/
theorem loopRead_connack_five (s : S) (sp : Bool) (rc : Nat) (ok : Bool) (h5 : s.proto = 5) (hs : s.sock.isSome)
    (h0 : rc = 0) :
    (∃ n, (s.loopRead (.pkt (.connack sp rc)) ok).2 = .raised n) ∨
      key (s.loopRead (.pkt (.connack sp rc)) ok).1 = ⟨s.cfg, 5, false⟩ := by
  unfold loopRead
  split
  · rename_i h; simp [h] at hs
  · rcases handleConnack_five s sp rc ok h5 with ⟨n, hn⟩ | h
    · left; exact ⟨n, by simp [packetHandle, hn]⟩
    · rcases hph : s.handleConnack sp rc ok with ⟨s1, r⟩
      rw [hph] at h
      simp only [h0, if_true] at h
      cases r
      case raised n => left; exact ⟨n, by simp [packetHandle, hph]⟩
      case rc rc =>
        right
        simp only [packetHandle, hph]
        rw [← h]; frame_tac

/-- a CONNACK with a non-zero result (raising or not) leaves the three components as they were -/
theorem loopRead_connack_five_refused (s : S) (sp : Bool) (rc : Nat) (ok : Bool) (h5 : s.proto = 5) (h0 : rc ≠ 0) :
    key (s.loopRead (.pkt (.connack sp rc)) ok).1 = key s := by
  rcases key_loopRead_pkt s (.connack sp rc) ok with h | h
  · exact h
  · rw [h]; simpa [packetHandle] using handleConnack_five_refused s sp rc ok h5 h0

/-- one step on MQTT 5: only `connect()` can arm the flag -/
theorem step_five (s : S) (op : Op) (h5 : s.proto = 5) (hop : ∀ b, op ≠ .connect b) :
    key (s.step op) = key s ∨ key (s.step op) = ⟨s.cfg, 5, false⟩ := by
  cases op
  case connect b => exact absurd rfl (hop b)
  case rx item ok =>
    simpa [S.step] using loopRead_five s item ok h5
  all_goals (left; simp only [S.step]; frame_tac)

theorem step_connect (s : S) (b : Bool) :
    key (s.step (.connect b)) = ⟨s.cfg, s.proto, if s.proto = 5 then true else s.firstConnect⟩ := by
  simp [S.step, key_connect]

/-- `cfg` and protocol version 5 are invariant under every operation -/
theorem step_cfg_proto (s : S) (op : Op) (h5 : s.proto = 5) : (s.step op).cfg = s.cfg ∧ (s.step op).proto = 5 := by
  by_cases hop : ∀ b, op ≠ .connect b
  · rcases step_five s op h5 hop with h | h <;> simp only [key, Key.mk.injEq] at h
    · exact ⟨h.1, h.2.1.trans h5⟩
    · exact ⟨h.1, h.2.1⟩
  · have : ∃ b, op = .connect b := by
      refine Classical.byContradiction fun hn => hop fun b hb => hn ⟨b, hb⟩
    obtain ⟨b, rfl⟩ := this
    have h := step_connect s b
    simp only [key, Key.mk.injEq] at h
    exact ⟨h.1, h.2.1.trans h5⟩

theorem run_cfg_proto (ops : List Op) (s : S) (h5 : s.proto = 5) : (s.run ops).cfg = s.cfg ∧ (s.run ops).proto = 5 := by
  induction ops generalizing s with
  | nil => exact ⟨rfl, h5⟩
  | cons op rest ih =>
    have h1 := step_cfg_proto s op h5
    have h2 := ih (s.step op) h1.2
    exact ⟨h2.1.trans h1.1, h2.2⟩

/-- once disarmed, the flag stays disarmed until the next `connect()` -/
theorem run_fc_false (ops : List Op) (s : S) (h5 : s.proto = 5) (hf : s.firstConnect = false)
    (hops : ∀ op ∈ ops, ∀ b, op ≠ .connect b) : (s.run ops).firstConnect = false := by
  induction ops generalizing s with
  | nil => exact hf
  | cons op rest ih =>
    have h1 := step_cfg_proto s op h5
    refine ih (s.step op) h1.2 ?_ (fun o ho => hops o (List.mem_cons_of_mem _ ho))
    rcases step_five s op h5 (hops op List.mem_cons_self) with h | h <;> simp only [key, Key.mk.injEq] at h
    · exact h.2.2.trans hf
    · exact h.2.2

theorem run_append (s : S) (a b : List Op) : s.run (a ++ b) = (s.run a).run b := by
  simp [S.run, List.foldl_append]

end Paho.CleanFlag
