/-
Send side of the WebSocket framing layer: the RFC 6455 reference parser `parseFrame`, the shape of
`createFrame`, the run of a sequence of `_send_impl` calls and the byte-counting reference it is compared with.
-/
import Paho.Model.Ws
import PahoProofs.Lemmas.WsBytes
namespace Paho.Ws
open Paho

/-! ### reference parser (RFC 6455 section 5.2), written with `/` and `%` on the header bytes -/

structure PFrame where
  fin : Bool
  rsv : Nat
  opcode : Nat
  masked : Bool
  key : Bytes          -- masking key ([] when not masked)
  payload : Bytes      -- application data, unmasked
  deriving DecidableEq, Repr

/-- split off the extended payload length -/
def parseLen (len7 : Nat) (rest : Bytes) : Option (Nat × Bytes) :=
  if len7 = 126 then (if 2 ≤ rest.length then some (beNat (rest.take 2), rest.drop 2) else none)
  else if len7 = 127 then (if 8 ≤ rest.length then some (beNat (rest.take 8), rest.drop 8) else none)
  else some (len7, rest)

/-- split off the masking key -/
def parseKey (masked : Bool) (rest : Bytes) : Option (Bytes × Bytes) :=
  if masked then (if 4 ≤ rest.length then some (rest.take 4, rest.drop 4) else none) else some ([], rest)

/-- one complete frame from the front of a byte string, and what follows it -/
def parseFrame : Bytes → Option (PFrame × Bytes)
  | b0 :: b1 :: rest =>
    let masked := decide (128 ≤ b1.toNat)
    match parseLen (b1.toNat % 128) rest with
    | none => none
    | some (n, rest) =>
      match parseKey masked rest with
      | none => none
      | some (key, rest) =>
        if rest.length < n then none
        else
          let raw := rest.take n
          some ({ fin := decide (128 ≤ b0.toNat), rsv := b0.toNat / 16 % 8, opcode := b0.toNat % 16, masked := masked,
                  key := key, payload := if masked then xorRange key 0 n raw else raw }, rest.drop n)
  | _ => none

theorem parseLen_small {n : Nat} (h : n < 126) (X : Bytes) : parseLen n X = some (n, X) := by
  simp only [parseLen]; rw [if_neg (by omega), if_neg (by omega)]

theorem parseLen_126 {n : Nat} (h : n < 65536) (X : Bytes) : parseLen 126 (beBytes 2 n ++ X) = some (n, X) := by
  have hl : 2 ≤ (beBytes 2 n ++ X).length := by simp [beBytes_length]
  simp only [parseLen, if_true]
  rw [if_pos hl, List.take_left' (beBytes_length _ _), List.drop_left' (beBytes_length _ _), beNat_beBytes_of_lt (by omega)]

theorem parseLen_127 {n : Nat} (h : n < 2 ^ 64) (X : Bytes) : parseLen 127 (beBytes 8 n ++ X) = some (n, X) := by
  have hl : 8 ≤ (beBytes 8 n ++ X).length := by simp [beBytes_length]
  have h1 : ¬ (127 : Nat) = 126 := by decide
  simp only [parseLen, h1, if_false, if_true]
  rw [if_pos hl, List.take_left' (beBytes_length _ _), List.drop_left' (beBytes_length _ _), beNat_beBytes_of_lt (by omega)]

/-! ### shape of `createFrame 2 · · 1` -/

/-- the header `_create_frame` builds for a masked binary frame -/
def hdrBytes (opcode doMasking length : Nat) : Bytes :=
  let h0 := b8 (128 ||| opcode)
  if length < 126 then [h0, b8 ((doMasking <<< 7) ||| length)]
  else if length < 65536 then [h0, b8 ((doMasking <<< 7) ||| 126)] ++ beBytes 2 length
  else [h0, b8 ((doMasking <<< 7) ||| 127)] ++ beBytes 8 length

theorem createFrame_masked (opcode : Nat) (data key : Bytes) :
    createFrame opcode data key 1 = hdrBytes opcode 1 data.length ++ (key ++ xorRange key 0 data.length data) := by
  simp [createFrame, hdrBytes]

theorem createFrame_unmasked (opcode : Nat) (data key : Bytes) :
    createFrame opcode data key 0 = hdrBytes opcode 0 data.length ++ data := by
  simp [createFrame, hdrBytes]

theorem hdrBytes_length (opcode m n : Nat) :
    (hdrBytes opcode m n).length = if n < 126 then 2 else if n < 65536 then 4 else 10 := by
  simp only [hdrBytes]
  by_cases h1 : n < 126
  · simp [h1]
  · by_cases h2 : n < 65536 <;> simp [h1, h2, beBytes_length]

theorem createFrame_masked_length_ge (opcode : Nat) (data key : Bytes) : 2 ≤ (createFrame opcode data key 1).length := by
  rw [createFrame_masked, List.length_append, hdrBytes_length]
  by_cases h1 : data.length < 126
  · simp [h1]
  · by_cases h2 : data.length < 65536 <;> simp [h1, h2] <;> omega

theorem createFrame_masked_length (opcode : Nat) (data key : Bytes) (hk : key.length = 4) :
    (createFrame opcode data key 1).length =
      (if data.length < 126 then 2 else if data.length < 65536 then 4 else 10) + 4 + data.length := by
  rw [createFrame_masked]; simp [hdrBytes_length, hk]; omega

/-! ### running `_send_impl` -/

/-- one `_send_impl(data)` call with what `os.urandom(4)` and the raw `socket.send` do in it -/
structure Call where
  data : Bytes
  key : Bytes
  out : SockSend
  deriving DecidableEq, Repr

structure SendRun where
  st : SendSt
  wire : Bytes            -- everything the raw socket accepted, in order
  rets : List SendRes     -- how each call ended
  deriving DecidableEq, Repr

def runSend : SendSt → List Call → SendRun
  | st, [] => { st := st, wire := [], rets := [] }
  | st, c :: cs =>
    let r := sendImpl st c.data c.key c.out
    let rest := runSend r.1 cs
    { st := rest.st, wire := r.2.1 ++ rest.wire, rets := r.2.2 :: rest.rets }

/-- the caller has to come again with the same data: the call returned 0 or raised -/
def SendRes.needsRetry : SendRes → Bool
  | .ret 0 => true
  | .ret _ => false
  | .raised _ => true

/-- the retry discipline of `_packet_write` (`appendleft` + return on 0 and on an exception): after a call that
returned 0 or raised, the next call passes the same data -/
def Disciplined : SendSt → List Call → Prop
  | _, [] => True
  | _, [_] => True
  | st, c :: c' :: cs =>
    let r := sendImpl st c.data c.key c.out
    (r.2.2.needsRetry = true → c'.data = c.data) ∧ Disciplined r.1 (c' :: cs)

instance decDisciplined : ∀ (st : SendSt) (cs : List Call), Decidable (Disciplined st cs)
  | _, [] => isTrue trivial
  | _, [_] => isTrue trivial
  | st, c :: c' :: cs =>
    have : Decidable (Disciplined (sendImpl st c.data c.key c.out).1 (c' :: cs)) := decDisciplined _ _
    by unfold Disciplined; exact inferInstance

/-- bytes the raw socket takes out of `len` buffered ones: none when it raises -/
def taken (out : SockSend) (len : Nat) : Nat :=
  match out with
  | .accept k => min k len
  | .wouldBlock => 0
  | .error => 0

/-- how the call ends when `remAfter` bytes of the frame are still unsent and the frame carries `size` data bytes -/
def outcome (out : SockSend) (remAfter size : Nat) : SendRes :=
  match out with
  | .accept _ => .ret (if remAfter = 0 then size else 0)
  | .wouldBlock => .raised true
  | .error => .raised false

theorem taken_le (out : SockSend) (len : Nat) : taken out len ≤ len := by
  cases out <;> simp [taken]; exact Nat.min_le_right _ _

/-- `sendImpl` in uniform shape: `B`, `R` = buffer and remembered size after the frame was (possibly) created -/
theorem sendImpl_eq (st : SendSt) (data key : Bytes) (out : SockSend) :
    sendImpl st data key out =
      let B := if st.sendbuffer.length = 0 then st.sendbuffer ++ createFrame 2 data key 1 else st.sendbuffer
      let R := if st.sendbuffer.length = 0 then data.length else st.requestedSize
      ({ sendbuffer := B.drop (taken out B.length), requestedSize := R }, B.take (taken out B.length),
        outcome out (B.drop (taken out B.length)).length R) := by
  by_cases he : st.sendbuffer.length = 0
  · have hnil : st.sendbuffer = [] := List.eq_nil_of_length_eq_zero he
    cases out <;> simp [sendImpl, taken, outcome, hnil]
  · cases out <;> simp [sendImpl, taken, outcome, he]

/-- the byte-counting reference. `rem` = bytes of the current frame the socket has not taken yet. A call starts the
frame `createFrame 2 data key 1` iff `rem = 0` — also when the raw send then raises. -/
structure RefRun where
  frames : List Bytes   -- the frames of the sends started, in order
  total : Nat           -- bytes accepted by the socket
  rets : List SendRes
  rem : Nat             -- bytes of the last frame still to go
  deriving DecidableEq, Repr

def refRun : Nat → List Call → RefRun
  | rem, [] => { frames := [], total := 0, rets := [], rem := rem }
  | rem, c :: cs =>
    let fr := createFrame 2 c.data c.key 1
    let rem1 := if rem = 0 then fr.length else rem
    let k := taken c.out rem1
    let rest := refRun (rem1 - k) cs
    { frames := (if rem = 0 then [fr] else []) ++ rest.frames,
      total := k + rest.total,
      rets := outcome c.out (rem1 - k) c.data.length :: rest.rets,
      rem := rest.rem }

/-- generalised invariant: pending buffer `B` -/
theorem runSend_ref (cs : List Call) : ∀ (st : SendSt),
    (st.sendbuffer ≠ [] → ∀ c ∈ cs.head?, c.data.length = st.requestedSize) →
    Disciplined st cs →
    let r := runSend st cs
    let s := refRun st.sendbuffer.length cs
    r.wire = (st.sendbuffer ++ s.frames.flatten).take s.total ∧
    r.st.sendbuffer = (st.sendbuffer ++ s.frames.flatten).drop s.total ∧
    r.rets = s.rets ∧ r.st.sendbuffer.length = s.rem := by
  induction cs with
  | nil => intro st _ _; simp [runSend, refRun]
  | cons c cs ih =>
    intro st hJ hD
    -- the state after the frame was (possibly) created
    have key : ∀ (B : Bytes) (R : Nat), R = c.data.length →
        sendImpl st c.data c.key c.out =
          ({ sendbuffer := B.drop (taken c.out B.length), requestedSize := R }, B.take (taken c.out B.length),
            outcome c.out (B.drop (taken c.out B.length)).length R) →
        B = st.sendbuffer ++ (if st.sendbuffer.length = 0 then [createFrame 2 c.data c.key 1] else []).flatten →
        let r := runSend st (c :: cs)
        let s := refRun st.sendbuffer.length (c :: cs)
        r.wire = (st.sendbuffer ++ s.frames.flatten).take s.total ∧
        r.st.sendbuffer = (st.sendbuffer ++ s.frames.flatten).drop s.total ∧
        r.rets = s.rets ∧ r.st.sendbuffer.length = s.rem := by
      intro B R hR hS hB
      have h1 : (sendImpl st c.data c.key c.out).1 =
          { sendbuffer := B.drop (taken c.out B.length), requestedSize := R } := by rw [hS]
      have h2 : (sendImpl st c.data c.key c.out).2.1 = B.take (taken c.out B.length) := by rw [hS]
      have h3 : (sendImpl st c.data c.key c.out).2.2 = outcome c.out (B.drop (taken c.out B.length)).length R := by rw [hS]
      have hrem1 : (if st.sendbuffer.length = 0 then (createFrame 2 c.data c.key 1).length else st.sendbuffer.length) = B.length := by
        rw [hB]; split <;> simp_all
      -- discipline for the rest
      have hJ' : ((sendImpl st c.data c.key c.out).1.sendbuffer ≠ [] →
          ∀ c' ∈ cs.head?, c'.data.length = (sendImpl st c.data c.key c.out).1.requestedSize) := by
        intro hne c' hc'
        cases cs with
        | nil => simp at hc'
        | cons c2 cs2 =>
          simp at hc'; subst hc'
          have hd := hD.1
          rw [h3] at hd
          rw [h1] at hne ⊢
          simp only at hne ⊢
          have hne0 : (B.drop (taken c.out B.length)).length ≠ 0 := by
            intro h0; exact hne (List.eq_nil_of_length_eq_zero h0)
          have hgen : ∀ m, m ≠ 0 → (outcome c.out m R).needsRetry = true := by
            intro m hm
            cases c.out
            · simp only [outcome, if_neg hm]; rfl
            · rfl
            · rfl
          have hretry := hgen _ hne0
          rw [hd hretry, hR]
      have hD' : Disciplined (sendImpl st c.data c.key c.out).1 cs := by
        cases cs with
        | nil => trivial
        | cons c2 cs2 => exact hD.2
      have ih' := ih _ hJ' hD'
      simp only [runSend, refRun]
      rw [h1] at ih'
      simp only at ih'
      rw [h1, h2, h3, hrem1]
      have hmin : taken c.out B.length ≤ B.length := taken_le _ _
      have hlen : (B.drop (taken c.out B.length)).length = B.length - taken c.out B.length := by simp
      rw [hlen] at ih'
      obtain ⟨i1, i2, i3, i4⟩ := ih'
      have hBB : st.sendbuffer ++ ((if st.sendbuffer.length = 0 then [createFrame 2 c.data c.key 1] else []) ++
          (refRun (B.length - taken c.out B.length) cs).frames).flatten =
          B ++ (refRun (B.length - taken c.out B.length) cs).frames.flatten := by
        rw [hB]; simp
      refine ⟨?_, ?_, ?_, ?_⟩
      · rw [hBB, i1, List.take_add, List.take_append_of_le_length hmin, List.drop_append_of_le_length hmin]
      · rw [hBB, i2, ← List.drop_drop, List.drop_append_of_le_length hmin]
      · rw [i3, hlen, hR]
      · simpa using i4
    have hS := sendImpl_eq st c.data c.key c.out
    by_cases he : st.sendbuffer.length = 0
    · have hnil : st.sendbuffer = [] := List.eq_nil_of_length_eq_zero he
      refine key (createFrame 2 c.data c.key 1) c.data.length rfl ?_ ?_
      · rw [hS]; simp [hnil]
      · simp [hnil]
    · have hne : st.sendbuffer ≠ [] := fun h => he (by simp [h])
      have hR := hJ hne c (by simp)
      simp only [he, if_false] at hS
      refine key st.sendbuffer st.requestedSize hR.symm ?_ ?_
      · rw [hS]
      · simp [he]

/-- facts about the reference alone: the socket never takes more than was framed, and at most the last frame is incomplete -/
theorem refRun_total (cs : List Call) : ∀ rem,
    (refRun rem cs).total + (refRun rem cs).rem = rem + (refRun rem cs).frames.flatten.length := by
  induction cs with
  | nil => intro rem; simp [refRun]
  | cons c cs ih =>
    intro rem
    simp only [refRun]
    have := ih ((if rem = 0 then (createFrame 2 c.data c.key 1).length else rem) - taken c.out (if rem = 0 then (createFrame 2 c.data c.key 1).length else rem))
    by_cases h : rem = 0
    · simp only [h, if_true] at this ⊢
      simp only [List.flatten_append, List.length_append, List.flatten_cons, List.flatten_nil, List.append_nil]
      have := taken_le c.out (createFrame 2 c.data c.key 1).length
      omega
    · simp only [h, if_false] at this ⊢
      simp only [List.nil_append]
      have := taken_le c.out rem
      omega

theorem refRun_rem_le (cs : List Call) : ∀ rem,
    (refRun rem cs).rem ≤ (match (refRun rem cs).frames.getLast? with | some f => f.length | none => rem) := by
  induction cs with
  | nil => intro rem; simp [refRun]
  | cons c cs ih =>
    intro rem
    simp only [refRun]
    by_cases h : rem = 0
    · simp only [h, if_true]
      have := ih ((createFrame 2 c.data c.key 1).length - taken c.out (createFrame 2 c.data c.key 1).length)
      have hle := Nat.sub_le (createFrame 2 c.data c.key 1).length (taken c.out (createFrame 2 c.data c.key 1).length)
      generalize (createFrame 2 c.data c.key 1).length - taken c.out (createFrame 2 c.data c.key 1).length = x at this hle
      generalize refRun x cs = R at this
      cases hf : R.frames with
      | nil => rw [hf] at this; simp at this ⊢; omega
      | cons f fs =>
        rw [hf] at this
        cases hg : (f :: fs).getLast? with
        | none => simp at hg
        | some g =>
          rw [hg] at this
          have hl : ([createFrame 2 c.data c.key 1] ++ f :: fs).getLast? = some g := by
            rw [List.getLast?_append, hg]; rfl
          rw [hl]; exact this
    · simp only [h, if_false, List.nil_append]
      have := ih (rem - taken c.out rem)
      have hle := Nat.sub_le rem (taken c.out rem)
      generalize rem - taken c.out rem = x at this hle
      generalize refRun x cs = R at this
      cases hg : R.frames.getLast? with
      | none => rw [hg] at this; simp only at this ⊢; omega
      | some g => rw [hg] at this; simp only at this ⊢; omega

end Paho.Ws
