/-
The packet reader over an abstract transport (`packetReadOn`, `drainOn` of Paho.Model.ReaderWs):
* it is the reader of Paho.Model.Reader when the transport is `recvN` (`packetReadOn_recvN`, …);
* `TSpec`: what a transport has to guarantee (the abstract content of `ReaderLemmas.recvN_spec`), and under it the
  soundness of one call (`packetReadOn_sound`) and of the pump (`drainOn_ref`) against the byte-at-a-time reference
  automaton `ReaderLemmas.feed` — the generic form of `packetRead_sound` / `drain_ref`.
-/
import Paho.Model.ReaderWs
import PahoProofs.Lemmas.ReaderFeed
namespace Paho.ReaderGen
open Paho Paho.ReaderLemmas

/-! ### `recvN` instance of the generic definitions -/

theorem readBodyOn_recvN : ∀ (count : Nat) (r : RState) (q : List RecvItem),
    readBodyOn recvN count r q = readBody count r q := by
  intro count
  induction count with
  | zero => intro r q; rfl
  | succ count ih =>
    intro r q
    unfold readBodyOn readBody
    by_cases h0 : r.toProcess = 0
    · simp [h0]
    · simp only [h0, if_false]
      rcases recvN r.toProcess q with ⟨res, q'⟩
      cases res with
      | block => rfl
      | closed => rfl
      | error => rfl
      | bytes d =>
        simp only
        by_cases hd : d.isEmpty
        · simp [hd]
        · simp only [hd]
          by_cases hc : count = 0
          · simp [hc]
          · simp only [hc, if_false, ih]

theorem readRemLenOn_recvN : ∀ (fuel : Nat) (r : RState) (q : List RecvItem),
    readRemLenOn recvN fuel r q = readRemLen fuel r q := by
  intro fuel
  induction fuel with
  | zero => intro r q; rfl
  | succ fuel ih =>
    intro r q
    unfold readRemLenOn readRemLen
    rcases recvN 1 q with ⟨res, q'⟩
    cases res with
    | block => rfl
    | closed => rfl
    | error => rfl
    | bytes d =>
      cases d with
      | nil => rfl
      | cons b bs => simp only [ih]

/-- phases 2 and 3 over an abstract transport (cf. `ReaderLemmas.phase23`) -/
def phase23On {τ : Type} (recv : Nat → τ → RecvRes × τ) (r : RState) (t : τ) : RState × τ × ReadOut :=
  match (if !r.haveRemaining then readRemLenOn recv 6 r t else (r, t, none) : RState × τ × Option ReadOut) with
  | (r, t, some out) => (r, t, out)
  | (r, t, none) => readBodyOn recv Gen.readLoopMax r t

theorem phase23On_recvN (r : RState) (q : List RecvItem) : phase23On recvN r q = phase23 r q := by
  unfold phase23On phase23
  simp only [readRemLenOn_recvN, readBodyOn_recvN]
  cases r.haveRemaining with
  | true => rfl
  | false =>
    simp only [Bool.not_false, if_true]
    rcases readRemLen 6 r q with ⟨r2, q2, o⟩
    cases o <;> rfl

/-- phase 1 after `recv(1)`: what the command byte (or its absence) leads to; `k` = phases 2 and 3 -/
def afterCmd {τ : Type} (r : RState) (k : RState → τ → RState × τ × ReadOut) : RecvRes × τ → RState × τ × ReadOut
  | (.block, t) => (r, t, .again)
  | (.closed, t) => (r, t, .connLost)
  | (.error, t) => (r, t, .connLost)
  | (.bytes [], t) => (r, t, .connLost)
  | (.bytes (c :: _), t) => if c.toNat = 0 then (r, t, .protocol) else k { r with command := c.toNat } t

/-- `packetReadOn` = phase 1, then `phase23On` -/
theorem packetReadOn_eq {τ : Type} (recv : Nat → τ → RecvRes × τ) (r : RState) (t : τ) :
    packetReadOn recv r t =
      if r.command = 0 then
        afterCmd r (phase23On recv) (recv 1 t)
      else phase23On recv r t := by
  unfold packetReadOn phase23On afterCmd
  by_cases hc : r.command = 0
  · simp only [hc, if_true]
    rcases recv 1 t with ⟨res, t'⟩
    cases res with
    | block => rfl
    | closed => rfl
    | error => rfl
    | bytes d =>
      cases d with
      | nil => rfl
      | cons c cs =>
        by_cases hz : c.toNat = 0
        · simp [hz]
        · simp only [hz, if_false]
          cases r.haveRemaining with
          | true => rfl
          | false =>
            simp only [Bool.not_false, if_true]
            generalize readRemLenOn recv 6 _ t' = x
            rcases x with ⟨r2, t2, o⟩
            cases o <;> rfl
  · simp only [hc, if_false]
    cases r.haveRemaining with
    | true => rfl
    | false =>
      simp only [Bool.not_false, if_true]
      generalize readRemLenOn recv 6 _ t = x
      rcases x with ⟨r2, t2, o⟩
      cases o <;> rfl

theorem packetRead_eq (r : RState) (q : List RecvItem) :
    packetRead r q =
      if r.command = 0 then
        afterCmd r phase23 (recvN 1 q)
      else phase23 r q := by
  unfold packetRead phase23 afterCmd
  by_cases hc : r.command = 0
  · simp only [hc, if_true]
    rcases recvN 1 q with ⟨res, t'⟩
    cases res with
    | block => rfl
    | closed => rfl
    | error => rfl
    | bytes d =>
      cases d with
      | nil => rfl
      | cons c cs =>
        by_cases hz : c.toNat = 0
        · simp [hz]
        · simp only [hz, if_false]
          cases r.haveRemaining with
          | true => rfl
          | false =>
            simp only [Bool.not_false, if_true]
            generalize readRemLen 6 _ t' = x
            rcases x with ⟨r2, t2, o⟩
            cases o <;> rfl
  · simp only [hc, if_false]
    cases r.haveRemaining with
    | true => rfl
    | false =>
      simp only [Bool.not_false, if_true]
      generalize readRemLen 6 _ q = x
      rcases x with ⟨r2, t2, o⟩
      cases o <;> rfl

/-- **the reader of Paho.Model.Reader is the generic reader over `recvN`** -/
theorem packetReadOn_recvN (r : RState) (q : List RecvItem) : packetReadOn recvN r q = packetRead r q := by
  rw [packetReadOn_eq, packetRead_eq]
  have : phase23On recvN = phase23 := by funext r q; exact phase23On_recvN r q
  rw [this]

/-! ### what a transport has to guarantee -/

/-- how the stream ends, from the verdict of the reference automaton and the transport's terminal event -/
def endOfP (t : Bool) : StreamEnd → PumpEnd
  | .ok => if t then .connLost else .idle
  | .protocol => .protocol

/-- what one `recv(n)` has to guarantee, by outcome (the abstract content of `recvN_spec`) -/
def StepOK {τ : Type} (Rel : τ → Bytes → Bool → Nat → Prop) (Done : τ → Prop) (idle : τ → Bool)
    (n : Nat) (bs : Bytes) (tm : Bool) (sz : Nat) : RecvRes × τ → Prop
  | (.block, t') => ∃ sz', Rel t' bs tm sz' ∧ (idle t' = true ∨ sz' < sz) ∧ sz' ≤ sz
  | (.closed, t') => bs = [] ∧ tm = true ∧ Done t' ∧ ∃ sz', Rel t' bs tm sz'
  | (.error, t') => bs = [] ∧ tm = true ∧ Done t' ∧ ∃ sz', Rel t' bs tm sz'
  | (.bytes d, t') => d ≠ [] ∧ d.length ≤ n ∧ ∃ bs' sz', bs = d ++ bs' ∧ Rel t' bs' tm sz' ∧ sz' < sz

/-- `Rel t bs tm sz`: from state `t` the transport will deliver exactly the bytes `bs`, then end the connection
(`tm = true`) or stay silent; `sz` bounds the work left. `Done`: the transport has nothing left at all. -/
structure TSpec {τ : Type} (recv : Nat → τ → RecvRes × τ) (idle : τ → Bool) where
  Rel : τ → Bytes → Bool → Nat → Prop
  Done : τ → Prop
  idle_nil : ∀ {t bs tm sz}, Rel t bs tm sz → idle t = true → bs = [] ∧ tm = false ∧ Done t
  step : ∀ (n : Nat) (t : τ) (bs : Bytes) (tm : Bool) (sz : Nat), 0 < n → Rel t bs tm sz →
    StepOK Rel Done idle n bs tm sz (recv n t)

section sound
variable {τ : Type} {recv : Nat → τ → RecvRes × τ} {idle : τ → Bool} (S : TSpec recv idle)

/-- what one call (or the rest of one call) that ends with `out` in `(r', t')` means for the automaton -/
def SoundG (tm : Bool) (acc : List (Nat × Bytes)) (r : RState) (bs : Bytes) (sz : Nat) :
    RState × τ × ReadOut → Prop
  | (r', t', .again) => ∃ bs' sz', S.Rel t' bs' tm sz' ∧ Good r' ∧ Ref r bs acc = Ref r' bs' acc ∧ ¬ full r' ∧
      (idle t' = true ∨ sz' < sz) ∧ sz' ≤ sz
  | (r', t', .againBusy) => ∃ bs' sz', S.Rel t' bs' tm sz' ∧ Good r' ∧ Ref r bs acc = Ref r' bs' acc ∧ sz' < sz
  | (_, t', .connLost) => Ref r bs acc = (acc, .ok) ∧ tm = true ∧ S.Done t' ∧ ∃ bs' sz', S.Rel t' bs' tm sz'
  | (_, _, .protocol) => Ref r bs acc = (acc, .protocol)
  | (_, t', .complete c b) => ∃ bs' sz', S.Rel t' bs' tm sz' ∧ Ref r bs acc = Ref {} bs' (acc ++ [(c, b)]) ∧
      sz' ≤ sz ∧ (sz' < sz ∨ full r)

theorem SoundG.of_step {tm acc r bs sz r1 bs1 sz1 res} (href : Ref r bs acc = Ref r1 bs1 acc) (hsz : sz1 < sz)
    (h : SoundG S tm acc r1 bs1 sz1 res) : SoundG S tm acc r bs sz res := by
  obtain ⟨r', t', out⟩ := res
  cases out with
  | again =>
    obtain ⟨bs', sz', a, b, c, d, e, f⟩ := h
    exact ⟨bs', sz', a, b, href.trans c, d, e.imp id (fun x => by omega), by omega⟩
  | againBusy =>
    obtain ⟨bs', sz', a, b, c, d⟩ := h
    exact ⟨bs', sz', a, b, href.trans c, by omega⟩
  | connLost => exact ⟨href.trans h.1, h.2⟩
  | protocol => exact href.trans h
  | complete c b =>
    obtain ⟨bs', sz', a, b, c, d⟩ := h
    exact ⟨bs', sz', a, href.trans b, by omega, Or.inl (by omega)⟩

theorem readBodyOn_sound (tm : Bool) (acc : List (Nat × Bytes)) (count : Nat) :
    ∀ (r : RState) (t : τ) (bs : Bytes) (sz : Nat),
    0 < count → r.command ≠ 0 → r.haveRemaining = true → S.Rel t bs tm sz →
    SoundG S tm acc r bs sz (readBodyOn recv count r t) := by
  induction count with
  | zero => intro r t bs sz h; omega
  | succ count ih =>
    intro r t bs sz _ hc hh hrel
    unfold readBodyOn
    by_cases h0 : r.toProcess = 0
    · rw [if_pos h0]
      have hf : full r := ⟨hh, h0⟩
      exact ⟨bs, sz, hrel, by rw [Ref_full hf, Ref_init], Nat.le_refl _, Or.inr hf⟩
    · rw [if_neg h0]
      have hnf : ¬ full r := fun h => h0 h.2
      have hgood : Good r := fun h => absurd h hc
      have hs := S.step r.toProcess t bs tm sz (by omega) hrel
      rcases hrec : recv r.toProcess t with ⟨res, t'⟩
      rw [hrec] at hs
      cases res with
      | block =>
        obtain ⟨sz', a, b, c⟩ := hs
        exact ⟨bs, sz', a, hgood, rfl, hnf, b, c⟩
      | closed =>
        obtain ⟨a, b, c, sz', d⟩ := hs
        exact ⟨by rw [a, Ref_not_full hnf]; rfl, b, c, bs, sz', d⟩
      | error =>
        obtain ⟨a, b, c, sz', d⟩ := hs
        exact ⟨by rw [a, Ref_not_full hnf]; rfl, b, c, bs, sz', d⟩
      | bytes d =>
        obtain ⟨a, b, bs', sz', c, e, g⟩ := hs
        have hde : d.isEmpty = false := by simpa using a
        simp only [hde]
        have href : Ref r bs acc =
            Ref { r with toProcess := r.toProcess - d.length, packet := r.packet ++ d } bs' acc := by
          rw [c, Ref_not_full hnf, feed_body_chunk d r _ acc hc hh (by omega) b]
        by_cases hcount : count = 0
        · simp only [hcount, if_true]
          exact ⟨bs', sz', e, fun h => absurd h hc, href, g⟩
        · simp only [hcount, if_false]
          exact SoundG.of_step S href g (ih _ t' bs' sz' (by omega) hc hh e)

/-- outcome of the remaining-length phase -/
def LenResG (tm : Bool) (acc : List (Nat × Bytes)) (r : RState) (bs : Bytes) (sz : Nat) :
    RState × τ × Option ReadOut → Prop
  | (r', t', none) => ∃ bs' sz', S.Rel t' bs' tm sz' ∧ Ref r bs acc = Ref r' bs' acc ∧ sz' < sz ∧
      r'.command = r.command ∧ r'.haveRemaining = true
  | (r', t', some out) => SoundG S tm acc r bs sz (r', t', out)

theorem LenResG.of_step {tm acc r bs sz r1 bs1 sz1 res} (href : Ref r bs acc = Ref r1 bs1 acc) (hsz : sz1 < sz)
    (hc : r1.command = r.command) (h : LenResG S tm acc r1 bs1 sz1 res) : LenResG S tm acc r bs sz res := by
  obtain ⟨r', t', o⟩ := res
  cases o with
  | none =>
    obtain ⟨bs', sz', a, b, c, d, e⟩ := h
    exact ⟨bs', sz', a, href.trans b, by omega, d.trans hc, e⟩
  | some out => exact SoundG.of_step S href hsz h

theorem readRemLenOn_sound (tm : Bool) (acc : List (Nat × Bytes)) (fuel : Nat) :
    ∀ (r : RState) (t : τ) (bs : Bytes) (sz : Nat),
    1 ≤ fuel → 5 ≤ fuel + r.remCount → r.command ≠ 0 → r.haveRemaining = false → S.Rel t bs tm sz →
    LenResG S tm acc r bs sz (readRemLenOn recv fuel r t) := by
  induction fuel with
  | zero => intro r t bs sz h; omega
  | succ fuel ih =>
    intro r t bs sz _ hfuel hc hh hrel
    have hnf : ¬ full r := fun h => by simp [full, hh] at h
    have hgood : Good r := fun h => absurd h hc
    have hs := S.step 1 t bs tm sz (by omega) hrel
    unfold readRemLenOn
    rcases hrec : recv 1 t with ⟨res, t'⟩
    rw [hrec] at hs
    cases res with
    | block =>
      obtain ⟨sz', a, b, c⟩ := hs
      exact ⟨bs, sz', a, hgood, rfl, hnf, b, c⟩
    | closed =>
      obtain ⟨a, b, c, sz', d⟩ := hs
      exact ⟨by rw [a, Ref_not_full hnf]; rfl, b, c, bs, sz', d⟩
    | error =>
      obtain ⟨a, b, c, sz', d⟩ := hs
      exact ⟨by rw [a, Ref_not_full hnf]; rfl, b, c, bs, sz', d⟩
    | bytes d =>
      obtain ⟨a, b, bs', sz', c, e, g⟩ := hs
      obtain ⟨byte, rfl⟩ := single_of_le_one a b
      have href : Ref r bs acc = feed r (byte :: bs') acc := by rw [c, Ref_not_full hnf]; rfl
      rw [feed_cons, feedByte_len r byte hc hh] at href
      simp only [rlMax_eval, decide_eq_true_eq]
      by_cases h4 : r.remCount + 1 > 4
      · rw [if_pos h4] at href ⊢
        exact href
      · rw [if_neg h4] at href ⊢
        by_cases hb : byte.toNat &&& 128 = 0
        · rw [if_pos hb] at href ⊢
          refine ⟨bs', sz', e, ?_, g, rfl, rfl⟩
          rw [href]
          by_cases hz : r.remLen + (byte.toNat &&& 127) * r.remMult = 0
          · rw [if_pos hz, Ref_full ⟨rfl, hz⟩]
          · rw [if_neg hz, Ref_not_full (fun h => hz h.2)]
            rfl
        · rw [if_neg hb] at href ⊢
          have href' : Ref r bs acc = Ref (lenStep r byte) bs' acc := by
            rw [href, Ref_not_full (fun h => by simp [full, lenStep, hh] at h)]
          exact LenResG.of_step S href' g rfl
            (ih (lenStep r byte) t' bs' sz' (by simp only [lenStep] at *; omega) (by simp only [lenStep]; omega) hc hh e)

theorem phase23On_sound (tm : Bool) (acc : List (Nat × Bytes)) (r : RState) (t : τ) (bs : Bytes) (sz : Nat)
    (hc : r.command ≠ 0) (hrel : S.Rel t bs tm sz) : SoundG S tm acc r bs sz (phase23On recv r t) := by
  unfold phase23On
  cases hh : r.haveRemaining with
  | true =>
    simp only [Bool.not_true, Bool.false_eq_true, if_false]
    exact readBodyOn_sound S tm acc _ r t bs sz (by decide) hc hh hrel
  | false =>
    simp only [Bool.not_false, if_true]
    have h := readRemLenOn_sound S tm acc 6 r t bs sz (by omega) (by omega) hc hh hrel
    rcases hres : readRemLenOn recv 6 r t with ⟨r', t', o⟩
    rw [hres] at h
    cases o with
    | some out => exact h
    | none =>
      obtain ⟨bs', sz', a, b, c, d, e⟩ := h
      exact SoundG.of_step S b c (readBodyOn_sound S tm acc _ r' t' bs' sz' (by decide) (by rw [d]; exact hc) e a)

/-- one `_packet_read()` over a transport satisfying `S` moves along the reference automaton -/
theorem packetReadOn_sound (tm : Bool) (acc : List (Nat × Bytes)) (r : RState) (t : τ) (bs : Bytes) (sz : Nat)
    (hg : Good r) (hrel : S.Rel t bs tm sz) : SoundG S tm acc r bs sz (packetReadOn recv r t) := by
  rw [packetReadOn_eq]
  by_cases hc : r.command = 0
  · rw [if_pos hc]
    have hh := hg hc
    have hnf : ¬ full r := fun h => by simp [full, hh] at h
    have hs := S.step 1 t bs tm sz (by omega) hrel
    rcases hrec : recv 1 t with ⟨res, t'⟩
    rw [hrec] at hs
    cases res with
    | block =>
      obtain ⟨sz', a, b, c⟩ := hs
      exact ⟨bs, sz', a, hg, rfl, hnf, b, c⟩
    | closed =>
      obtain ⟨a, b, c, sz', d⟩ := hs
      exact ⟨by rw [a, Ref_not_full hnf]; rfl, b, c, bs, sz', d⟩
    | error =>
      obtain ⟨a, b, c, sz', d⟩ := hs
      exact ⟨by rw [a, Ref_not_full hnf]; rfl, b, c, bs, sz', d⟩
    | bytes d =>
      obtain ⟨a, b, bs', sz', c, e, g⟩ := hs
      obtain ⟨byte, rfl⟩ := single_of_le_one a b
      have href : Ref r bs acc = feed r (byte :: bs') acc := by rw [c, Ref_not_full hnf]; rfl
      rw [feed_cons, feedByte_cmd r byte hc] at href
      simp only [afterCmd]
      by_cases hb : byte.toNat = 0
      · rw [if_pos hb] at href
        rw [if_pos hb]
        exact href
      · rw [if_neg hb] at href
        rw [if_neg hb]
        have href' : Ref r bs acc = Ref { r with command := byte.toNat } bs' acc := by
          rw [href, Ref_not_full (fun h => by simp [full, hh] at h)]
        exact SoundG.of_step S href' g (phase23On_sound S tm acc _ t' bs' sz' hb e)
  · rw [if_neg hc]
    exact phase23On_sound S tm acc r t bs sz hc hrel

/-- the pump over a transport satisfying `S` computes what the reference automaton computes from the reader state
and the bytes the transport will deliver — provided the fuel suffices; and it leaves the transport in a state
described by `S.Rel`, `Done` unless it stopped with a protocol error -/
theorem drainOn_ref : ∀ (fuel : Nat) (r : RState) (t : τ) (acc : List (Nat × Bytes)) (bs : Bytes) (tm : Bool) (sz : Nat),
    S.Rel t bs tm sz → Good r →
    2 * sz + (if full r then 1 else 0) + 1 ≤ fuel →
    (drainOn recv idle fuel r t acc).1 = (Ref r bs acc).1 ∧
    (drainOn recv idle fuel r t acc).2.2.2 = endOfP tm (Ref r bs acc).2 ∧
    ((drainOn recv idle fuel r t acc).2.2.2 ≠ .protocol →
      S.Done (drainOn recv idle fuel r t acc).2.2.1 ∧ ∃ bs' sz', S.Rel (drainOn recv idle fuel r t acc).2.2.1 bs' tm sz') := by
  intro fuel
  induction fuel with
  | zero => intro r t acc bs tm sz _ _ h; omega
  | succ fuel ih =>
    intro r t acc bs tm sz hrel hg hfuel
    rw [drainOn]
    by_cases h : idle t = true ∧ ¬ (r.haveRemaining ∧ r.toProcess = 0)
    · rw [if_pos h]
      obtain ⟨hn1, hn2, hn3⟩ := S.idle_nil hrel h.1
      have hnf : ¬ full r := h.2
      subst hn1 hn2
      rw [Ref_not_full hnf]
      exact ⟨rfl, rfl, fun _ => ⟨hn3, [], sz, hrel⟩⟩
    · rw [if_neg h]
      have hs := packetReadOn_sound S tm acc r t bs sz hg hrel
      rcases hres : packetReadOn recv r t with ⟨r', t', out⟩
      rw [hres] at hs
      cases out with
      | again =>
        obtain ⟨bs', sz', a, b, c, d, e, f⟩ := hs
        simp only []
        by_cases hi : idle t' = true
        · rw [if_pos hi]
          obtain ⟨hn1, hn2, hn3⟩ := S.idle_nil a hi
          subst hn1 hn2
          rw [c, Ref_not_full d]
          exact ⟨rfl, rfl, fun _ => ⟨hn3, [], sz', a⟩⟩
        · rw [if_neg hi]
          have hlt : sz' < sz := by
            rcases e with e | e
            · exact absurd e hi
            · exact e
          rw [c]
          exact ih r' t' acc bs' tm sz' a b (by rw [if_neg d]; omega)
      | againBusy =>
        obtain ⟨bs', sz', a, b, c, d⟩ := hs
        simp only []
        rw [c]
        exact ih r' t' acc bs' tm sz' a b (by split <;> omega)
      | connLost =>
        obtain ⟨a, b, c, bs', sz', d⟩ := hs
        simp only []
        rw [a, b]
        exact ⟨rfl, rfl, fun _ => ⟨c, bs', sz', by rw [← b]; exact d⟩⟩
      | protocol =>
        simp only []
        rw [show Ref r bs acc = (acc, .protocol) from hs]
        exact ⟨rfl, rfl, fun h => absurd rfl h⟩
      | complete c b =>
        obtain ⟨bs', sz', a, b', c', d⟩ := hs
        simp only []
        rw [b']
        refine ih {} t' _ bs' tm sz' a good_init ?_
        rw [if_neg not_full_init]
        rcases d with d | d
        · omega
        · rw [if_pos d] at hfuel; omega

end sound

end Paho.ReaderGen
