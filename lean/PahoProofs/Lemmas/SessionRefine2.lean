/-
Refinement (continued): the packet handlers, `loop_misc()` and the application calls other than the
connect()/reconnect() family are finite paths of the atomic actions of `SessionAct.lean`.
-/
import PahoProofs.Lemmas.SessionRefine
set_option linter.unusedSimpArgs false
set_option linter.unusedVariables false
namespace Paho
namespace SessAct
open S

theorem updateInflight_tr (s : S) (fuel idx : Nat) : TrN (view s) (view (s.updateInflight fuel idx).1) := by
  induction fuel generalizing s idx with
  | zero => unfold updateInflight; exact Path.refl _
  | succ fuel ih =>
    unfold updateInflight
    split
    · exact Path.refl _
    · rename_i m hm
      split
      · exact Path.refl _
      split
      · split
        · simp only
          have h1 := sendPublish_tr { s with inflight := s.inflight + 1, out := s.out.set idx { m with state := if m.qos = 1 then .waitPuback else if m.qos = 2 then .waitPubrec else m.state } } m.mid m.topic m.payload m.qos m.retain m.dup none true (some m.info)
          rcases hsp : sendPublish { s with inflight := s.inflight + 1, out := s.out.set idx { m with state := if m.qos = 1 then .waitPuback else if m.qos = 2 then .waitPubrec else m.state } } m.mid m.topic m.payload m.qos m.retain m.dup none true (some m.info) with ⟨s1, rc⟩
          rw [hsp] at h1
          simp only at h1 ⊢
          split
          · exact h1
          · exact Path.trans h1 (ih _ _)
        · exact ih _ _
      · exact Path.refl _

theorem updateInflight_tr' {t : S} {f i : Nat} {p : S × RC} (hu : t.updateInflight f i = p) :
    TrN (view t) (view p.1) := hu ▸ updateInflight_tr t f i

theorem doOnPublish_tr (s : S) (mid : Nat) : TrN (view s) (view (s.doOnPublish mid).1) := by
  unfold doOnPublish
  simp only
  split
  · refine Path.neutral rfl ?_ ?_ ?_
    rotate_left
    · simp only [view, vEmit, emit, setInfo, List.append_assoc]; rfl
    · simp [neutral]
  · rename_i m hm
    split
    · split
      · generalize hu : updateInflight _ _ _ = p
        have h1 := updateInflight_tr' hu
        rcases p with ⟨s1, rc⟩
        simp only at h1 ⊢
        have h2 : TrN (view s) (view s1) := by
          refine Path.trans ?_ h1
          refine Path.neutral rfl ?_ ?_ ?_
          rotate_left
          · simp only [view, vEmit, emit, setInfo, List.append_assoc]; rfl
          · simp [neutral]
        split <;> exact h2
      · refine Path.neutral rfl ?_ ?_ ?_
        rotate_left
        · simp only [view, vEmit, emit, setInfo, List.append_assoc]; rfl
        · simp [neutral]
    · refine Path.neutral rfl ?_ ?_ ?_
      rotate_left
      · simp only [view, vEmit, emit, setInfo, List.append_assoc]; rfl
      · simp [neutral]

macro "neutral_tr" : tactic => `(tactic| (
  refine Path.neutral rfl ?_ ?_ ?_
  rotate_left
  focus (simp only [view, vEmit, emit, setInfo, List.append_assoc]; rfl)
  focus (simp [neutral])))

theorem handlePubackcomp_tr (s : S) (mid : Nat) : TrN (view s) (view (s.handlePubackcomp mid).1) := by
  unfold handlePubackcomp
  split
  · exact doOnPublish_tr s mid
  · exact Path.refl _

theorem handlePubrec_tr (s : S) (mid : Nat) : TrN (view s) (view (s.handlePubrec mid).1) := by
  unfold handlePubrec
  split
  · exact sendPubrel_tr { s with out := s.out.map (fun (m : OutMsg) => if m.mid = mid then { m with state := .waitPubcomp } else m) } mid true
  · exact Path.refl _

theorem handleOnMessage_tr (s : S) (m : InMsg) : TrN (view s) (view (s.handleOnMessage m).1) := by
  unfold handleOnMessage
  simp only
  split
  · exact emit_tr rfl s (.onMessage m) rfl
  · exact emit_tr rfl s (.onMessage m) rfl

theorem handleOnMessage_tr' {t : S} {m : InMsg} {p : S × Bool} (hu : t.handleOnMessage m = p) :
    TrN (view t) (view p.1) := hu ▸ handleOnMessage_tr t m

theorem sendPuback_tr' {t : S} {m : Nat} {p : S × RC} (hu : t.sendPuback m = p) :
    TrN (view t) (view p.1) := hu ▸ sendPuback_tr t m

theorem sendPubrec_tr' {t : S} {m : Nat} {p : S × RC} (hu : t.sendPubrec m = p) :
    TrN (view t) (view p.1) := hu ▸ sendPubrec_tr t m

theorem sendPubcomp_tr' {t : S} {m : Nat} {p : S × RC} (hu : t.sendPubcomp m = p) :
    TrN (view t) (view p.1) := hu ▸ sendPubcomp_tr t m

theorem handlePublish_tr (s : S) (m : InMsg) : TrN (view s) (view (s.handlePublish m).1) := by
  unfold handlePublish
  extract_lets m'
  split
  · exact Path.refl _
  · split
    · generalize hu : handleOnMessage _ _ = p
      have h1 := handleOnMessage_tr' hu
      rcases p with ⟨s1, r⟩
      simp only at h1 ⊢
      split <;> exact h1
    · split
      · generalize hu : handleOnMessage _ _ = p
        have h1 := handleOnMessage_tr' hu
        rcases p with ⟨s1, r⟩
        simp only at h1 ⊢
        split
        · exact h1
        · split
          · exact h1
          · generalize hu2 : sendPuback _ _ = p2
            have h2 := sendPuback_tr' hu2
            rcases p2 with ⟨s2, r2⟩
            exact h1.trans h2
      · split
        · generalize hu : sendPubrec _ _ = p
          have h1 := sendPubrec_tr' hu
          rcases p with ⟨s1, r⟩
          exact h1
        · exact Path.refl _

theorem handlePubrel_tr (s : S) (mid : Nat) : TrN (view s) (view (s.handlePubrel mid).1) := by
  unfold handlePubrel
  have h3 : ∀ (s1 : S) (r : Bool), TrN (view s) (view s1) → TrN (view s) (view (
      if r = true then (s1, HRes.raised "RuntimeError")
      else if s1.cfg.manualAck = true then (s1, HRes.rc rcSuccess)
      else match s1.sendPubcomp mid with | (s, rc) => (s, HRes.rc rc)).1) := by
    intro s1 r h0
    split
    · exact h0
    · split
      · exact h0
      · generalize hu2 : sendPubcomp _ _ = p2
        have h2 := sendPubcomp_tr' hu2
        rcases p2 with ⟨s2, r2⟩
        exact h0.trans h2
  cases hf : List.find? (fun x => decide (x.mid = mid)) s.inm with
  | none => exact h3 s false (Path.refl _)
  | some m =>
    simp only
    generalize hu : handleOnMessage _ _ = p
    have h1 := handleOnMessage_tr' hu
    rcases p with ⟨s1, r⟩
    exact h3 s1 r h1

theorem loopWrite_tr' {t : S} {p : S × RC} (hu : t.loopWrite = p) :
    TrN (view t) (view p.1) := hu ▸ loopWrite_tr t

theorem sendPublish_tr' {t : S} {mid : Nat} {topic payload : Bytes} {qos : Nat} {retain dup : Bool}
    {info : Option Nat} {direct : Bool} {uid : Option Nat} {p : S × RC}
    (hu : t.sendPublish mid topic payload qos retain dup info direct uid = p) :
    TrN (view t) (view p.1) := hu ▸ sendPublish_tr t mid topic payload qos retain dup info direct uid

theorem sendPubrel_tr' {t : S} {mid : Nat} {direct : Bool} {p : S × RC}
    (hu : t.sendPubrel mid direct = p) :
    TrN (view t) (view p.1) := hu ▸ sendPubrel_tr t mid direct

theorem connackResend_tr (s : S) (fuel idx : Nat) (rc : RC) : TrN (view s) (view (s.connackResend fuel idx rc).1) := by
  induction fuel generalizing s idx rc with
  | zero => unfold connackResend; exact Path.refl _
  | succ fuel ih =>
    unfold connackResend
    split
    · exact Path.refl _
    · rename_i m hm
      split
      · exact Path.refl _
      split
      · generalize hu : loopWrite _ = p
        have h1 := loopWrite_tr' hu
        rcases p with ⟨s1, r⟩
        exact h1
      · have h3 : ∀ (s1 : S) (rc1 : RC) (stop : Bool), TrN (view s) (view s1) → TrN (view s) (view (
            if stop = true then (s1, rc1)
            else match s1.loopWrite with | (s, _) => connackResend s fuel (idx + 1) rc1).1) := by
          intro s1 rc1 stop h0
          split
          · exact h0
          · generalize hu : loopWrite _ = p
            have h1 := loopWrite_tr' hu
            rcases p with ⟨s2, r⟩
            exact (h0.trans h1).trans (ih _ _ _)
        by_cases c1 : m.qos = 1 ∧ m.state = MS.publish
        · rw [if_pos c1]; simp only []
          generalize hu : sendPublish _ _ _ _ _ _ _ _ _ _ = p
          have h1 := sendPublish_tr' hu
          rcases p with ⟨s1, r⟩
          exact h3 _ _ _ h1
        · rw [if_neg c1]
          by_cases c2 : m.qos = 2 ∧ m.state = MS.publish
          · rw [if_pos c2]; simp only []
            generalize hu : sendPublish _ _ _ _ _ _ _ _ _ _ = p
            have h1 := sendPublish_tr' hu
            rcases p with ⟨s1, r⟩
            exact h3 _ _ _ h1
          · rw [if_neg c2]
            by_cases c3 : m.qos = 2 ∧ m.state = MS.resendPubrel
            · rw [if_pos c3]; simp only []
              generalize hu : sendPubrel _ _ _ = p
              have h1 := sendPubrel_tr' hu
              rcases p with ⟨s1, r⟩
              exact h3 _ _ _ h1
            · rw [if_neg c3]
              exact h3 _ _ _ (Path.refl _)

theorem sendSimple_tr' {t : S} {c : Nat} {p : S × RC} (hu : t.sendSimple c = p) (hc : b8 c ≠ 0x10) (hd : ¬ isDiscCmd c) :
    TrN (view t) (view p.1) := hu ▸ sendSimple_tr t c hc hd

theorem checkKeepalive_tr (s : S) : TrN (view s) (view s.checkKeepalive) := by
  unfold checkKeepalive
  simp only []
  split
  · exact Path.refl _
  · cases hc : s.sock with
    | none => exact Path.refl _
    | some c =>
      simp only
      split
      · split
        · generalize hu : sendSimple _ _ = p
          have h1 := sendSimple_tr' hu (by decide) (by decide)
          rcases p with ⟨s1, rc⟩
          simp only at h1 ⊢
          split <;> exact h1
        · have hs : (view s).sock.isSome = true := by simp [view, hc]
          apply Path.of_eq_act (k := .loud) (Act.closeLost (view s) 16 hs (by decide)) rfl
          cases hreg : s.regWrite <;> cases hext : s.cfg.ext <;> cases hcb : s.inCb <;>
            by_cases hcs : s.cstate = .disconnecting <;> by_cases hcs2 : s.cstate = .disconnected <;>
            simp [view, vCloseLost, vSockClose, closeEvs, sockClose, callSocketUnregisterWrite, doOnDisconnect,
              disconnectingOrDone, dOD, emit, hc, hreg, hext, hcb, hcs, hcs2, rcSuccess, rcKeepalive]
      · exact Path.refl _

theorem loopMisc_tr (s : S) : TrN (view s) (view s.loopMisc.1) := by
  unfold loopMisc
  cases hc : s.sock with
  | none => exact Path.refl _
  | some c =>
    simp only
    have h1 := checkKeepalive_tr s
    generalize s.checkKeepalive = t at h1 ⊢
    cases hc2 : t.sock with
    | none => exact h1
    | some c2 =>
      simp only
      split
      · refine h1.trans ?_
        have hs : (view t).sock.isSome = true := by simp [view, hc2]
        apply Path.of_eq_act (k := .loud) (Act.closeLost (view t) 16 hs (by decide)) rfl
        cases hreg : t.regWrite <;> cases hext : t.cfg.ext <;> cases hcb : t.inCb <;>
          by_cases hcs : t.cstate = .disconnecting <;> by_cases hcs2 : t.cstate = .disconnected <;>
          simp [view, vCloseLost, vSockClose, closeEvs, sockClose, callSocketUnregisterWrite, doOnDisconnect,
            disconnectingOrDone, dOD, emit, hc2, hreg, hext, hcb, hcs, hcs2, rcSuccess, rcKeepalive]
      · exact h1

theorem publish_tr (s : S) (qos : Nat) (topic payload : Bytes) (retain : Bool) :
    TrN (view s) (view (s.publish qos topic payload retain)) := by
  unfold publish
  split
  · exact emit_tr rfl _ _ rfl
  · exact emit_tr rfl _ _ rfl
  · simp only []
    split
    · generalize hu : sendPublish _ _ _ _ _ _ _ _ _ _ = p
      have h1 := sendPublish_tr' hu
      rcases p with ⟨s1, rc⟩
      simp only at h1 ⊢
      refine Path.trans h1 ?_
      neutral_tr
    · split
      · neutral_tr
      · split
        · neutral_tr
        · split
          · generalize hu : sendPublish _ _ _ _ _ _ _ _ _ _ = p
            have h1 := sendPublish_tr' hu
            rcases p with ⟨s1, rc⟩
            simp only at h1 ⊢
            refine Path.trans h1 ?_
            split
            · neutral_tr
            · neutral_tr
          · neutral_tr

theorem packetQueue_tr' {t : S} {pkt : OutPkt} {direct : Bool} {p : S × RC} (hu : t.packetQueue pkt direct = p)
    (hf : Fresh pkt) (hd : isDiscCmd pkt.command → t.discCalled = true) :
    TrN (view t) (view p.1) := hu ▸ packetQueue_tr t pkt direct hf hd

theorem subscribe_tr (s : S) (topic : Bytes) (qos : Nat) : TrN (view s) (view (s.subscribe topic qos)) := by
  unfold subscribe
  split
  · exact emit_tr rfl _ _ rfl
  · split
    · exact emit_tr rfl _ _ rfl
    · split
      · exact emit_tr rfl _ _ rfl
      · split
        · exact emit_tr rfl _ _ rfl
        · simp only []
          split
          · exact emit_tr rfl _ _ rfl
          · rename_i bytes henc
            generalize hu : packetQueue _ _ _ = p
            have h1 := packetQueue_tr' hu (fresh_mk (encSubscribe_fresh henc))
              (fun h => absurd (show isDiscCmd 0x82 from h) (by decide))
            rcases p with ⟨s1, rc⟩
            simp only at h1 ⊢
            exact Path.trans h1 (emit_tr rfl _ _ rfl)

theorem unsubscribe_tr (s : S) (topic : Bytes) : TrN (view s) (view (s.unsubscribe topic)) := by
  unfold unsubscribe
  split
  · exact emit_tr rfl _ _ rfl
  · split
    · exact emit_tr rfl _ _ rfl
    · simp only []
      split
      · exact emit_tr rfl _ _ rfl
      · rename_i bytes henc
        generalize hu : packetQueue _ _ _ = p
        have h1 := packetQueue_tr' hu (fresh_mk (encUnsubscribe_fresh henc))
          (fun h => absurd (show isDiscCmd 0xA2 from h) (by decide))
        rcases p with ⟨s1, rc⟩
        simp only at h1 ⊢
        exact Path.trans h1 (emit_tr rfl _ _ rfl)

theorem ack_tr (s : S) (mid qos : Nat) : TrN (view s) (view (s.ack mid qos)) := by
  unfold ack
  split
  · split
    · generalize hu : sendPuback _ _ = p
      have h1 := sendPuback_tr' hu
      rcases p with ⟨s1, rc⟩
      simp only at h1 ⊢
      exact Path.trans h1 (emit_tr rfl _ _ rfl)
    · split
      · generalize hu : sendPubcomp _ _ = p
        have h1 := sendPubcomp_tr' hu
        rcases p with ⟨s1, rc⟩
        simp only at h1 ⊢
        exact Path.trans h1 (emit_tr rfl _ _ rfl)
      · exact emit_tr rfl _ _ rfl
  · exact emit_tr rfl _ _ rfl

/-- disconnect(): without socket a normal path; with a socket the `.disc` action (`Act.setDisc`) followed by a normal path -/
theorem disconnect_tr (s : S) :
    (s.sock = none ∧ TrN (view s) (view s.disconnect)) ∨
    (∃ v1, Act .disc (view s) v1 ∧ TrN v1 (view s.disconnect)) := by
  unfold disconnect
  split
  · rename_i hc
    left
    refine ⟨hc, ?_⟩
    have hnone : (view s).sock = none := hc
    refine Path.trans (Path.single (Act.setNoSock (view s) .disconnected hnone (by decide)) rfl) ?_
    exact emit_tr rfl { s with cstate := .disconnected } (.ret rcNoConn none) rfl
  · rename_i c hc
    right
    have hsome : (view s).sock.isSome = true := by simp [view, hc]
    refine ⟨_, Act.setDisc (view s) hsome, ?_⟩
    simp only []
    split
    · exact emit_tr rfl { s with cstate := .disconnecting, discCalled := true } _ rfl
    · rename_i bytes henc
      generalize hu : packetQueue _ _ _ = p
      have h1 := packetQueue_tr' hu (fresh_mk (encDisconnect_fresh henc)) (fun _ => rfl)
      rcases p with ⟨s1, rc⟩
      simp only at h1 ⊢
      exact Path.trans h1 (emit_tr rfl _ _ rfl)

end SessAct
end Paho
