/-
Frame lemmas for the timer fields (continued): the application calls and `S.step`.
-/
import PahoProofs.Lemmas.Timer2
set_option linter.unusedSimpArgs false
set_option linter.unusedVariables false
namespace Paho
namespace TimerLemmas
open S SessAct

theorem publish_fr {g : Bool} (t : S) (qos : Nat) (topic payload : Bytes) (retain : Bool) :
    Fr g t (t.publish qos topic payload retain) := by
  unfold publish
  split
  · fr_chain
  · fr_chain
  · simp only []
    split
    · generalize hu : sendPublish _ _ _ _ _ _ _ _ _ _ = p
      have h1 := sendPublish_fr' (g := g) hu
      rcases p with ⟨s1, rc⟩
      simp only
      refine Fr.emit_r (Fr.setInfo_r _ _ (Fr.trans ?_ h1.1)) (fun _ => rfl)
      fr_chain
    · split
      · fr_chain
      · split
        · fr_chain
        · split
          · generalize hu : sendPublish _ _ _ _ _ _ _ _ _ _ = p
            have h1 := sendPublish_fr' (g := g) hu
            rcases p with ⟨s1, rc⟩
            simp only
            have h2 : Fr g t s1 := Fr.trans (by fr_chain) h1.1
            refine Fr.emit_r (Fr.setInfo_r _ _ ?_) (fun _ => rfl)
            split
            · fr_upd; exact h2
            · exact h2
          · fr_chain

theorem subscribe_fr {g : Bool} (t : S) (topic : Bytes) (qos : Nat) : Fr g t (t.subscribe topic qos) := by
  unfold subscribe
  split
  · fr_chain
  · split
    · fr_chain
    · split
      · fr_chain
      · split
        · fr_chain
        · simp only []
          split
          · fr_chain
          · rename_i bytes henc
            generalize hu : packetQueue _ _ _ = p
            have h1 := packetQueue_fr' (g := g) hu (fun _ => encSubscribe_np henc)
            rcases p with ⟨s1, rc⟩
            simp only
            exact Fr.emit_r (Fr.trans (by fr_chain) h1.1) (fun _ => rfl)

theorem unsubscribe_fr {g : Bool} (t : S) (topic : Bytes) : Fr g t (t.unsubscribe topic) := by
  unfold unsubscribe
  split
  · fr_chain
  · split
    · fr_chain
    · simp only []
      split
      · fr_chain
      · rename_i bytes henc
        generalize hu : packetQueue _ _ _ = p
        have h1 := packetQueue_fr' (g := g) hu (fun _ => encUnsubscribe_np henc)
        rcases p with ⟨s1, rc⟩
        simp only
        exact Fr.emit_r (Fr.trans (by fr_chain) h1.1) (fun _ => rfl)

theorem ack_fr {g : Bool} (t : S) (mid qos : Nat) : Fr g t (t.ack mid qos) := by
  unfold ack
  split
  · split
    · generalize hu : sendPuback _ _ = p
      have h1 := sendPuback_fr' (g := g) hu
      rcases p with ⟨s1, rc⟩
      exact Fr.emit_r h1.1 (fun _ => rfl)
    · split
      · generalize hu : sendPubcomp _ _ = p
        have h1 := sendPubcomp_fr' (g := g) hu
        rcases p with ⟨s1, rc⟩
        exact Fr.emit_r h1.1 (fun _ => rfl)
      · fr_chain
  · fr_chain

theorem disconnect_fr {g : Bool} (t : S) : Fr g t t.disconnect := by
  unfold disconnect
  split
  · fr_chain
  · simp only []
    split
    · fr_chain
    · rename_i bytes henc
      generalize hu : packetQueue _ _ _ = p
      have h1 := packetQueue_fr' (g := g) hu (fun _ => encDisconnect_np henc)
      rcases p with ⟨s1, rc⟩
      simp only
      exact Fr.emit_r (Fr.trans (by fr_chain) h1.1) (fun _ => rfl)

theorem goodEv_hresEv (r : HRes) : goodEv (hresEv r) = true := by cases r <;> rfl

/-- every operation except `loopMisc` and `tick` is in `Fr` -/
theorem step_fr {g : Bool} (t : S) (op : Op) (h1 : op ≠ .loopMisc) (h2 : ∀ ms, op ≠ .tick ms) :
    Fr g t (t.step op) := by
  cases op with
  | connect ok => exact Fr.emit_r (connect_fr t ok).1 (fun _ => goodEv_hresEv _)
  | reconnect ok => exact Fr.emit_r (reconnect_fr t ok).1 (fun _ => goodEv_hresEv _)
  | connectAsync => exact connectAsync_fr t
  | rx item ok => exact Fr.emit_r (loopRead_fr t item ok).1 (fun _ => goodEv_hresEv _)
  | publish q tp p r => exact publish_fr t q tp p r
  | subscribe tp q => exact subscribe_fr t tp q
  | unsubscribe tp => exact unsubscribe_fr t tp
  | disconnect => exact disconnect_fr t
  | loopWrite => exact Fr.emit_r (loopWrite_fr t).1 (fun _ => rfl)
  | loopMisc => exact absurd rfl h1
  | tick ms => exact absurd rfl (h2 ms)
  | send sc => unfold S.step; fr_chain
  | ack m q => exact ack_fr t m q
  | raiseOnMessage n => unfold S.step; fr_chain

end TimerLemmas
end Paho
