/-
Helper lemmas for C05 (`c05_whole_packet`): `packetRead` on one chunk holding exactly one packet.
-/
import PahoProofs.Lemmas.ReaderFeed
import PahoProofs.Lemmas.PropsVbi
import Paho.Spec.Props

namespace Paho.ReaderLemmas
open Paho Paho.PropsLemmas

/-- put back what is left of a chunk -/
def pushData : Bytes → List RecvItem → List RecvItem
  | [], rest => rest
  | b :: bs, rest => .data (b :: bs) :: rest

theorem recvN_one (b : UInt8) (bs : Bytes) (rest : List RecvItem) :
    recvN 1 (.data (b :: bs) :: rest) = (.bytes [b], pushData bs rest) := by
  cases bs with
  | nil => simp [recvN, pushData]
  | cons b2 bs => simp [recvN, pushData]

theorem readRemLen_last (fuel : Nat) (r : RState) (b : UInt8) (bs : Bytes) (rest : List RecvItem)
    (h4 : r.remCount + 1 ≤ 4) (hb : b.toNat &&& 128 = 0) :
    readRemLen (fuel + 1) r (.data (b :: bs) :: rest) =
      ({ lenStep r b with haveRemaining := true, toProcess := (lenStep r b).remLen }, pushData bs rest, none) := by
  have h4' : ¬ (r.remCount + 1 > 4) := by omega
  rw [readRemLen, recvN_one]
  simp only [rlMax_eval, decide_eq_true_eq, if_neg h4', hb, if_true]
  rfl

theorem readRemLen_cont (fuel : Nat) (r : RState) (b b2 : UInt8) (bs : Bytes) (rest : List RecvItem)
    (h4 : r.remCount + 1 ≤ 4) (hb : b.toNat &&& 128 ≠ 0) :
    readRemLen (fuel + 1) r (.data (b :: b2 :: bs) :: rest) =
      readRemLen fuel (lenStep r b) (.data (b2 :: bs) :: rest) := by
  have h4' : ¬ (r.remCount + 1 > 4) := by omega
  rw [readRemLen, recvN_one]
  simp only [rlMax_eval, decide_eq_true_eq, if_neg h4', hb, if_false]
  rfl

theorem hi_byte (k : Nat) (hk : k < 128) :
    (UInt8.ofNat (k + 128)).toNat &&& 128 ≠ 0 ∧ (UInt8.ofNat (k + 128)).toNat &&& 127 = k := by
  rw [ofNat_toNat (k + 128) (by omega), and127_hi k hk, and128_hi k hk]
  exact ⟨by decide, rfl⟩

theorem lo_byte (k : Nat) (hk : k < 128) :
    (UInt8.ofNat k).toNat &&& 128 = 0 ∧ (UInt8.ofNat k).toNat &&& 127 = k := by
  rw [ofNat_toNat k (by omega), and127_lo k hk, and128_lo k hk]
  exact ⟨rfl, rfl⟩

/-- the remaining-length phase on a whole variable byte integer -/
theorem readRemLen_vbi (n : Nat) (hn : n ≤ 268435455) (c : Nat) (body : Bytes) (rest : List RecvItem) :
    ∃ r' : RState, readRemLen 6 { command := c } (.data (Spec.vbi n ++ body) :: rest) = (r', pushData body rest, none) ∧
      r'.command = c ∧ r'.packet = [] ∧ r'.haveRemaining = true ∧ r'.toProcess = n := by
  unfold Spec.vbi
  by_cases h1 : n < 128
  · rw [if_pos h1]
    obtain ⟨a1, a2⟩ := lo_byte n h1
    refine ⟨_, readRemLen_last 5 _ _ body rest (by simp) a1, rfl, rfl, rfl, ?_⟩
    simp only [lenStep, a2]; omega
  · rw [if_neg h1]
    obtain ⟨b1, b2⟩ := hi_byte (n % 128) (by omega)
    by_cases h2 : n < 16384
    · rw [if_pos h2]
      obtain ⟨a1, a2⟩ := lo_byte (n / 128) (by omega)
      simp only [List.cons_append, List.nil_append]
      rw [readRemLen_cont 5 _ _ _ _ rest (by simp) b1]
      refine ⟨_, readRemLen_last 4 _ _ body rest (by simp [lenStep]) a1, rfl, rfl, rfl, ?_⟩
      simp only [lenStep, a2, b2]; omega
    · rw [if_neg h2]
      obtain ⟨c1, c2⟩ := hi_byte (n / 128 % 128) (by omega)
      by_cases h3 : n < 2097152
      · rw [if_pos h3]
        obtain ⟨a1, a2⟩ := lo_byte (n / 16384) (by omega)
        simp only [List.cons_append, List.nil_append]
        rw [readRemLen_cont 5 _ _ _ _ rest (by simp) b1, readRemLen_cont 4 _ _ _ _ rest (by simp [lenStep]) c1]
        refine ⟨_, readRemLen_last 3 _ _ body rest (by simp [lenStep]) a1, rfl, rfl, rfl, ?_⟩
        simp only [lenStep, a2, b2, c2]; omega
      · rw [if_neg h3]
        obtain ⟨d1, d2⟩ := hi_byte (n / 16384 % 128) (by omega)
        obtain ⟨a1, a2⟩ := lo_byte (n / 2097152) (by omega)
        simp only [List.cons_append, List.nil_append]
        rw [readRemLen_cont 5 _ _ _ _ rest (by simp) b1, readRemLen_cont 4 _ _ _ _ rest (by simp [lenStep]) c1,
          readRemLen_cont 3 _ _ _ _ rest (by simp [lenStep]) d1]
        refine ⟨_, readRemLen_last 2 _ _ body rest (by simp [lenStep]) a1, rfl, rfl, rfl, ?_⟩
        simp only [lenStep, a2, b2, c2, d2]; omega

/-- the body phase when the whole body is the next chunk -/
theorem readBody_whole (count : Nat) (r : RState) (body : Bytes) (rest : List RecvItem)
    (hp : r.packet = []) (ht : r.toProcess = body.length) :
    ∃ r', readBody (count + 2) r (pushData body rest) = (r', rest, .complete r.command body) := by
  cases body with
  | nil =>
    have ht0 : r.toProcess = 0 := ht
    refine ⟨r, ?_⟩
    rw [readBody, if_pos ht0, hp]; rfl
  | cons b bs =>
    have h0 : r.toProcess ≠ 0 := by rw [ht]; simp
    have hrec : recvN r.toProcess (pushData (b :: bs) rest) = (.bytes (b :: bs), rest) := by
      simp [pushData, recvN, ht]
    refine ⟨{ r with toProcess := r.toProcess - (b :: bs).length, packet := r.packet ++ (b :: bs) }, ?_⟩
    rw [readBody, if_neg h0, hrec]
    simp only [List.isEmpty_cons, Bool.false_eq_true, if_false, Nat.add_eq_zero_iff, Nat.succ_ne_self, and_false]
    rw [readBody, if_pos (by simp [ht]), hp]
    rfl

theorem pushData_ne (bs : Bytes) (h : bs ≠ []) (rest : List RecvItem) : pushData bs rest = .data bs :: rest := by
  cases bs with
  | nil => exact absurd rfl h
  | cons b bs => rfl

theorem vbi_ne (n : Nat) (body : Bytes) : Spec.vbi n ++ body ≠ [] := by
  intro h
  have := congrArg List.length h
  rw [List.length_append, vbi_length] at this
  simp only [List.length_nil] at this
  split at this
  · omega
  · split at this
    · omega
    · split at this <;> omega

/-- one chunk holding exactly one packet: the first call hands it over -/
theorem packetRead_whole (cmd : UInt8) (body : Bytes) (rest : List RecvItem) (hcmd : cmd ≠ 0)
    (hl : body.length ≤ 268435455) :
    ∃ r, packetRead {} (.data (cmd :: (Spec.vbi body.length ++ body)) :: rest) =
      (r, rest, .complete cmd.toNat body) := by
  obtain ⟨r1, h1, hc, hp, _, ht⟩ := readRemLen_vbi body.length hl cmd.toNat body rest
  have hc' : r1.command = cmd.toNat := hc
  obtain ⟨r2, h2⟩ := readBody_whole 98 r1 body rest hp ht
  have hc0 : cmd.toNat ≠ 0 := fun h0 => hcmd (UInt8.toNat_inj.mp (by simpa using h0))
  refine ⟨r2, ?_⟩
  unfold packetRead
  simp only [if_true, if_neg hc0, recvN_one, pushData_ne _ (vbi_ne _ _), Bool.not_false, h1, Gen.readLoopMax]
  rw [h2, hc']

end Paho.ReaderLemmas
