/-
C07, section B (queue / wake-up pipe / writer): one-step invariants of `WakeSys` and their lifts to `run`.
-/
import Paho.Model.Threads
namespace Paho.Thr
open Paho

@[simp] private theorem upd_same {α : Type} (f : Tid → α) (t : Tid) (v : α) : upd f t v t = v := by simp [upd]
private theorem upd_other {α : Type} (f : Tid → α) (t : Tid) (v : α) {x : Tid} (h : x ≠ t) : upd f t v x = f x := by simp [upd, h]

/-! ### lifting one-step invariants to schedules -/
theorem WakeSys.run_inv (P : WakeSys → Prop) (hstep : ∀ s t a s', P s → s.step t a = some s' → P s')
    (s : WakeSys) (sched : List (Tid × WAct)) (h : P s) : P (s.run sched) := by
  induction sched generalizing s with
  | nil => exact h
  | cons x rest ih =>
    obtain ⟨t, a⟩ := x
    simp only [WakeSys.run]
    apply ih
    cases hs : s.step t a with
    | none => simpa using h
    | some s' => simpa using hstep s t a s' h hs

/-! ### packets as bytes -/
theorem Pkt.rest_advance (p : Pkt) (n : Nat) : ({ p with pos := p.pos + n } : Pkt).rest = p.rest.drop n := by
  simp only [Pkt.rest, ← List.map_drop, List.drop_range']
  congr 2 <;> omega

theorem Pkt.rest_length (p : Pkt) : p.rest.length = p.len - p.pos := by simp [Pkt.rest]

theorem Pkt.rest_done (p : Pkt) (h : p.len ≤ p.pos) : p.rest = [] := by
  have : p.len - p.pos = 0 := by omega
  simp [Pkt.rest, this]

/-! ### FIFO -/
def Fifo (s : WakeSys) : Prop := s.wire ++ s.handBytes ++ s.queueBytes = s.allBytes

theorem fifo_step (s : WakeSys) (t : Tid) (a : WAct) (s' : WakeSys) (hi : Fifo s) (h : s.step t a = some s') : Fifo s' := by
  unfold Fifo at *
  cases a <;> simp only [WakeSys.step] at h
  case append id len =>
    have key : ∀ s1 : WakeSys, s1.wire = s.wire → s1.hand = s.hand → s1.queue = s.queue ++ [{ id := id, len := len }] →
        s1.all = s.all ++ [{ id := id, len := len }] → s1.wire ++ s1.handBytes ++ s1.queueBytes = s1.allBytes := by
      intro s1 h1 h2 h3 h4
      simp [WakeSys.handBytes, WakeSys.queueBytes, WakeSys.allBytes, h1, h2, h3, h4] at hi ⊢
      rw [← hi]; simp
    split at h
    · split at h <;> simp at h
      subst h
      exact key _ rfl (by simp) (by simp) rfl
    · split at h <;> simp [Gen.wakeAfterAppend] at h
      subst h
      exact key _ rfl (by simp) (by simp) rfl
  case wake =>
    split at h
    · simp at h
    split at h <;> simp [Gen.wakeAfterAppend] at h
    subst h
    simpa [WakeSys.handBytes, WakeSys.queueBytes, WakeSys.allBytes] using hi
  case send n =>
    split at h
    · simp at h
    split at h
    · rename_i p hp
      split at h
      · rename_i hn
        simp at h
        subst h
        by_cases hdone : p.pos + n = p.len
        · simp [WakeSys.handBytes, WakeSys.queueBytes, WakeSys.allBytes, hp, hdone] at hi ⊢
          rw [← hi]
          have : List.take n p.rest = p.rest := List.take_of_length_le (by rw [Pkt.rest_length]; omega)
          rw [this]
        · simp [WakeSys.handBytes, WakeSys.queueBytes, WakeSys.allBytes, hp, hdone] at hi ⊢
          rw [← hi, Pkt.rest_advance]
          rw [← List.append_assoc (List.take n _), List.take_append_drop]
      · simp at h
    · simp at h
  case pop =>
    split at h
    · simp at h
    split at h
    · rename_i hg _ p rest hq
      simp at h; subst h
      simp at hg
      simp [WakeSys.handBytes, WakeSys.queueBytes, WakeSys.allBytes, hg.2.1, hq] at hi ⊢
      exact hi
    · simp at h; subst h
      simpa [WakeSys.handBytes, WakeSys.queueBytes, WakeSys.allBytes] using hi
  case pushback =>
    split at h
    · simp at h
    split at h
    · rename_i p hp
      simp [Gen.pushbackFront] at h; subst h
      simp [WakeSys.handBytes, WakeSys.queueBytes, WakeSys.allBytes, hp] at hi ⊢
      exact hi
    · simp at h
  case clear =>
    split at h
    · simp at h
    · rename_i hh
      simp at h; subst h
      simp at hh
      simp [WakeSys.handBytes, WakeSys.queueBytes, WakeSys.allBytes, hh]
  all_goals
    repeat' split at h
    all_goals first
      | (simp at h; done)
      | (simp at h
         subst h
         simpa [WakeSys.handBytes, WakeSys.queueBytes, WakeSys.allBytes] using hi)

theorem fifo_run (w : Tid) (sched : List (Tid × WAct)) : Fifo ((({ loopTid := w } : WakeSys)).run sched) :=
  WakeSys.run_inv Fifo fifo_step _ sched (by simp [Fifo, WakeSys.handBytes, WakeSys.queueBytes, WakeSys.allBytes])

/-! ### the ghost counter of half-way threads -/
def Cnt (s : WakeSys) : Prop := ∃ hs : List Tid, hs.Nodup ∧ hs.length = s.nhalf ∧ ∀ t, s.ppc t = .half ↔ t ∈ hs

theorem cnt_step (s : WakeSys) (t : Tid) (a : WAct) (s' : WakeSys) (hi : Cnt s) (h : s.step t a = some s') : Cnt s' := by
  unfold Cnt at *
  obtain ⟨hs, hnd, hlen, hmem⟩ := hi
  cases a <;> simp only [WakeSys.step] at h
  case append id len =>
    split at h
    · split at h <;> simp at h
      subst h
      exact ⟨hs, hnd, hlen, hmem⟩
    split at h <;> simp [Gen.wakeAfterAppend] at h
    rename_i hidle
    subst h
    refine ⟨t :: hs, ?_, by simp [hlen], ?_⟩
    · have : t ∉ hs := by rw [← hmem, hidle]; simp
      simp [this, hnd]
    · intro x
      by_cases hx : x = t
      · subst hx; simp
      · simp [upd_other _ _ _ hx, hmem, hx]
  case wake =>
    split at h
    · simp at h
    split at h <;> simp [Gen.wakeAfterAppend] at h
    rename_i hhalf
    subst h
    have hin : t ∈ hs := (hmem t).1 hhalf
    refine ⟨hs.erase t, hnd.erase t, by simp [List.length_erase_of_mem hin, hlen], ?_⟩
    intro x
    by_cases hx : x = t
    · subst hx; simp [hnd.mem_erase_iff]
    · simp [upd_other _ _ _ hx, hmem, hx, hnd.mem_erase_iff]
  all_goals
    repeat' split at h
    all_goals first
      | (simp at h; done)
      | (simp at h
         subst h
         exact ⟨hs, hnd, hlen, hmem⟩)

theorem cnt_run (w : Tid) (sched : List (Tid × WAct)) : Cnt ((({ loopTid := w } : WakeSys)).run sched) :=
  WakeSys.run_inv Cnt cnt_step _ sched ⟨[], by simp, rfl, by simp⟩

theorem Cnt.zero {s : WakeSys} (h : Cnt s) (h0 : s.nhalf = 0) (t : Tid) : s.ppc t = .idle := by
  obtain ⟨hs, _, hlen, hmem⟩ := h
  have : hs = [] := List.eq_nil_of_length_eq_zero (by omega)
  subst this
  have := hmem t
  cases hp : s.ppc t <;> simp_all

theorem Cnt.pos {s : WakeSys} (h : Cnt s) (h0 : s.nhalf > 0) : ∃ t, s.ppc t = .half := by
  obtain ⟨hs, _, hlen, hmem⟩ := h
  match hs, hlen with
  | [], hlen => simp at hlen; omega
  | t :: _, _ => exact ⟨t, (hmem t).2 (by simp)⟩

/-! ### no lost wake-up, no stall -/
/-- the writer is in `armed` only with a wake-up pipe and nothing in hand (`wantw` requires both) -/
def ArmedOk (s : WakeSys) : Prop := ∀ w, s.lpc = .armed w → s.hasPipe = true ∧ s.hand = none

theorem armedok_step (s : WakeSys) (t : Tid) (a : WAct) (s' : WakeSys) (hi : ArmedOk s) (h : s.step t a = some s') : ArmedOk s' := by
  unfold ArmedOk at *
  cases a <;> simp only [WakeSys.step] at h
  case append id len =>
    split at h
    · split at h <;> simp at h
      subst h; exact hi
    · split at h <;> simp [Gen.wakeAfterAppend] at h
      subst h; exact hi
  case wake =>
    split at h
    · simp at h
    split at h <;> simp [Gen.wakeAfterAppend] at h
    subst h; exact hi
  case wantw =>
    split at h
    · rename_i hg
      simp at h; subst h
      intro w _
      simp at hg
      exact ⟨hg.2.2.2, hg.2.2.1⟩
    · simp at h
  case pop =>
    split at h
    · simp at h
    rename_i hg
    simp at hg
    split at h
    · simp at h; subst h
      intro w hw
      simp at hw
      simp [hw, LPc.mayWrite] at hg
    · simp at h; subst h
      intro w hw
      simp at hw
      split at hw
      · simp at hw
      · simp [hw, LPc.mayWrite] at hg
  case send n =>
    split at h
    · simp at h
    split at h
    · rename_i p hp
      split at h
      · simp at h; subst h
        intro w hw
        have := (hi w hw).2
        simp [hp] at this
      · simp at h
    · simp at h
  case pushback =>
    split at h
    · simp at h
    split at h
    · rename_i p hp
      simp at h; subst h
      intro w hw
      exact ⟨(hi w hw).1, rfl⟩
    · simp at h
  all_goals
    repeat' split at h
    all_goals first
      | (simp at h; done)
      | (simp at h
         subst h
         first | exact hi | (intro w hw; simp_all; done))

def NoLost0 (s : WakeSys) : Prop := s.queue ≠ [] → s.lpc = .armed false → s.pipe > 0 ∨ s.nhalf > 0

theorem nolost0_step (s : WakeSys) (t : Tid) (a : WAct) (s' : WakeSys) (hA : ArmedOk s) (hi : NoLost0 s)
    (h : s.step t a = some s') : NoLost0 s' := by
  unfold NoLost0 at *
  unfold ArmedOk at hA
  cases a <;> simp only [WakeSys.step] at h
  case append id len =>
    split at h
    · rename_i hnp
      split at h <;> simp at h
      subst h
      intro _ hl
      have := (hA _ hl).1
      simp [this] at hnp
    · split at h <;> simp [Gen.wakeAfterAppend] at h
      subst h
      intro _ _; right; simp
  case wake =>
    split at h
    · simp at h
    split at h <;> simp [Gen.wakeAfterAppend] at h
    subst h
    intro _ _; left; simp
  case wantw =>
    split at h
    · simp at h; subst h
      intro hq hl
      simp at hq hl
      exact absurd hl hq
    · simp at h
  case pop =>
    split at h
    · simp at h
    rename_i hg
    simp at hg
    split at h
    · simp at h; subst h
      intro _ hl
      simp at hl
      simp [hl, LPc.mayWrite] at hg
    · simp at h; subst h
      intro hq
      simp_all
  case send n =>
    split at h
    · simp at h
    split at h
    · split at h
      · simp at h; subst h
        exact hi
      · simp at h
    · simp at h
  case pushback =>
    split at h
    · simp at h
    split at h
    · rename_i p hp
      simp at h; subst h
      intro _ hl
      have := (hA _ hl).2
      simp [hp] at this
    · simp at h
  all_goals
    repeat' split at h
    all_goals first
      | (simp at h; done)
      | (simp at h
         subst h
         first | exact hi | (intro h1 h2; simp_all; done))

def NoLost (s : WakeSys) : Prop := ArmedOk s ∧ NoLost0 s

theorem nolost_step (s : WakeSys) (t : Tid) (a : WAct) (s' : WakeSys) (hi : NoLost s) (h : s.step t a = some s') : NoLost s' :=
  ⟨armedok_step s t a s' hi.1 h, nolost0_step s t a s' hi.1 hi.2 h⟩

theorem nolost_run (w : Tid) (sched : List (Tid × WAct)) : NoLost ((({ loopTid := w } : WakeSys)).run sched) :=
  WakeSys.run_inv NoLost nolost_step _ sched (by simp [NoLost, NoLost0, ArmedOk])

/-- the stall counter stays at zero (needs the no-lost-wake-up invariant at `select`) -/
def NoStall (s : WakeSys) : Prop := NoLost s ∧ s.stalls = 0

theorem nostall_step (s : WakeSys) (t : Tid) (a : WAct) (s' : WakeSys) (hi : NoStall s) (h : s.step t a = some s') : NoStall s' := by
  refine ⟨nolost_step s t a s' hi.1 h, ?_⟩
  obtain ⟨⟨_, hl⟩, h0⟩ := hi
  cases a <;> simp only [WakeSys.step] at h
  case append id len =>
    split at h
    · split at h <;> simp at h
      subst h; exact h0
    · split at h <;> simp [Gen.wakeAfterAppend] at h
      subst h; exact h0
  case select sockR writable =>
    split at h
    · simp at h
    split at h
    · rename_i w hw
      simp at h
      subst h
      simp only [h0]
      split
      · rename_i hc
        exfalso
        obtain ⟨hto, hwr, hq, hn⟩ := hc
        have hq' : s.queue ≠ [] := by simpa using hq
        cases w
        · have := hl hq' hw
          simp at hto
          omega
        · simp [hwr] at hto
      · rfl
    · simp at h
  all_goals
    repeat' split at h
    all_goals first
      | (simp at h; done)
      | (simp at h
         subst h
         exact h0)

theorem nostall_run (w : Tid) (sched : List (Tid × WAct)) : NoStall ((({ loopTid := w } : WakeSys)).run sched) :=
  WakeSys.run_inv NoStall nostall_step _ sched (by simp [NoStall, NoLost, NoLost0, ArmedOk])

/-! ### CONNECT first -/
def ConnFirst (s : WakeSys) : Prop :=
  s.raced = 0 → if s.fresh then s.all = [] else (s.all.head?.map (·.id)) = some 0

theorem connfirst_step (s : WakeSys) (t : Tid) (a : WAct) (s' : WakeSys) (hi : ConnFirst s) (h : s.step t a = some s') : ConnFirst s' := by
  unfold ConnFirst at *
  cases a <;> simp only [WakeSys.step] at h
  case append id len =>
    have key : ∀ s1 : WakeSys, s1.all = s.all ++ [{ id := id, len := len }] → s1.fresh = (s.fresh && decide (id ≠ 0)) →
        s1.raced = (if s.fresh ∧ id ≠ 0 then s.raced + 1 else s.raced) →
        (s1.raced = 0 → if s1.fresh then s1.all = [] else (s1.all.head?.map (·.id)) = some 0) := by
      intro s1 e1 e2 e3
      rw [e1, e2, e3]
      by_cases hf : s.fresh = true
      · by_cases hid : id = 0
        · simp [hf, hid] at hi ⊢
          intro h0; simp [hi h0]
        · simp [hf, hid]
      · simp [hf] at hi ⊢
        intro h0
        have := hi h0
        cases hall : s.all with
        | nil => simp [hall] at this
        | cons x xs => simpa [hall] using this
    split at h
    · split at h <;> simp at h
      subst h
      exact key _ rfl (by simp) (by simp)
    split at h <;> simp [Gen.wakeAfterAppend] at h
    subst h
    exact key _ rfl (by simp) (by simp)
  all_goals
    repeat' split at h
    all_goals first
      | (simp at h; done)
      | (simp at h
         subst h
         first | exact hi | simp)

theorem connfirst_run (w : Tid) (sched : List (Tid × WAct)) : ConnFirst ((({ loopTid := w } : WakeSys)).run sched) :=
  WakeSys.run_inv ConnFirst connfirst_step _ sched (by simp [ConnFirst])

/-! ### bytes of distinct packets are distinct -/
theorem Pkt.rest_nodup (p : Pkt) : p.rest.Nodup := by
  unfold Pkt.rest
  have := List.nodup_range' (s := p.pos) (n := p.len - p.pos) 1
  unfold List.Nodup at *
  rw [List.pairwise_map]
  exact this.imp (by intro a b hab h; apply hab; simpa using h)

theorem Pkt.mem_rest {p : Pkt} {x : Nat × Nat} (h : x ∈ p.rest) : x.1 = p.id := by
  simp [Pkt.rest] at h
  obtain ⟨_, _, rfl⟩ := h
  rfl

theorem bytes_nodup (l : List Pkt) (h : (l.map (·.id)).Nodup) :
    (l.flatMap fun p => ({ p with pos := 0 } : Pkt).rest).Nodup := by
  induction l with
  | nil => simp
  | cons p ps ih =>
    simp only [List.map_cons, List.nodup_cons] at h
    simp only [List.flatMap_cons, List.nodup_append]
    refine ⟨Pkt.rest_nodup _, ih h.2, ?_⟩
    intro a ha b hb hab
    subst hab
    have h1 := Pkt.mem_rest ha
    obtain ⟨q, hq, hbq⟩ := List.mem_flatMap.1 hb
    have h2 := Pkt.mem_rest hbq
    simp at h1 h2
    apply h.1
    rw [← h1, h2]
    exact List.mem_map.2 ⟨q, hq, rfl⟩

end Paho.Thr
