/-
C07, section B (queue / wake-up pipe / writer): one-step invariants of `WakeSys` and their lifts to `run`.
-/
import Paho.Model.Threads
namespace Paho.Thr
open Paho

@[simp] private theorem upd_same {α : Type} (f : Tid → α) (t : Tid) (v : α) : upd f t v t = v := by simp [upd]
private theorem upd_other {α : Type} (f : Tid → α) (t : Tid) (v : α) {x : Tid} (h : x ≠ t) : upd f t v x = f x := by simp [upd, h]

/-! ### lifting one-step invariants to schedules -/
theorem WakeSys.run_inv (P : WakeSys → Prop) (hstep : ∀ s t a s', P s → s.step t a = some s' → P s')
    (s : WakeSys) (sched : List (Tid × WAct)) (h : P s) : P (s.run sched) := by
  induction sched generalizing s with
  | nil => exact h
  | cons x rest ih =>
    obtain ⟨t, a⟩ := x
    simp only [WakeSys.run]
    apply ih
    cases hs : s.step t a with
    | none => simpa using h
    | some s' => simpa using hstep s t a s' h hs

/-! ### packets as bytes -/
theorem Pkt.rest_advance (p : Pkt) (n : Nat) : ({ p with pos := p.pos + n } : Pkt).rest = p.rest.drop n := by
  simp only [Pkt.rest, ← List.map_drop, List.drop_range']
  congr 2 <;> omega

theorem Pkt.rest_length (p : Pkt) : p.rest.length = p.len - p.pos := by simp [Pkt.rest]

theorem Pkt.rest_done (p : Pkt) (h : p.len ≤ p.pos) : p.rest = [] := by
  have : p.len - p.pos = 0 := by omega
  simp [Pkt.rest, this]

/-! ### FIFO -/
def Fifo (s : WakeSys) : Prop := s.wire ++ s.handBytes ++ s.queueBytes = s.allBytes

theorem fifo_step (s : WakeSys) (t : Tid) (a : WAct) (s' : WakeSys) (hi : Fifo s) (h : s.step t a = some s') : Fifo s' := by
  unfold Fifo at *
  cases a <;> simp only [WakeSys.step] at h
  case append id len =>
    split at h <;> simp [Gen.wakeAfterAppend] at h
    subst h
    simp [WakeSys.handBytes, WakeSys.queueBytes, WakeSys.allBytes] at hi ⊢
    rw [← hi]; simp
  case wake =>
    split at h <;> simp [Gen.wakeAfterAppend] at h
    subst h
    simpa [WakeSys.handBytes, WakeSys.queueBytes, WakeSys.allBytes] using hi
  case send n =>
    split at h
    · simp at h
    split at h
    · rename_i p hp
      split at h
      · rename_i hn
        split at h <;> simp at h <;> subst h
        · rename_i hdone
          simp [WakeSys.handBytes, WakeSys.queueBytes, WakeSys.allBytes, hp] at hi ⊢
          rw [← hi]
          have : List.take n p.rest = p.rest := List.take_of_length_le (by rw [Pkt.rest_length]; omega)
          rw [this]
        · simp [WakeSys.handBytes, WakeSys.queueBytes, WakeSys.allBytes, hp] at hi ⊢
          rw [← hi, Pkt.rest_advance]
          rw [← List.append_assoc (List.take n _), List.take_append_drop]
      · simp at h
    · simp at h
  all_goals
    repeat' split at h
    all_goals first
      | (simp at h; done)
      | (simp at h
         subst h
         simp_all [WakeSys.handBytes, WakeSys.queueBytes, WakeSys.allBytes, Gen.pushbackFront])

theorem fifo_run (w : Tid) (sched : List (Tid × WAct)) : Fifo ((({ loopTid := w } : WakeSys)).run sched) :=
  WakeSys.run_inv Fifo fifo_step _ sched (by simp [Fifo, WakeSys.handBytes, WakeSys.queueBytes, WakeSys.allBytes])

/-! ### the ghost counter of half-way threads -/
def Cnt (s : WakeSys) : Prop := ∃ hs : List Tid, hs.Nodup ∧ hs.length = s.nhalf ∧ ∀ t, s.ppc t = .half ↔ t ∈ hs

theorem cnt_step (s : WakeSys) (t : Tid) (a : WAct) (s' : WakeSys) (hi : Cnt s) (h : s.step t a = some s') : Cnt s' := by
  unfold Cnt at *
  obtain ⟨hs, hnd, hlen, hmem⟩ := hi
  cases a <;> simp only [WakeSys.step] at h
  case append id len =>
    split at h <;> simp [Gen.wakeAfterAppend] at h
    rename_i hidle
    subst h
    refine ⟨t :: hs, ?_, by simp [hlen], ?_⟩
    · have : t ∉ hs := by rw [← hmem, hidle]; simp
      simp [this, hnd]
    · intro x
      by_cases hx : x = t
      · subst hx; simp
      · simp [upd_other _ _ _ hx, hmem, hx]
  case wake =>
    split at h <;> simp [Gen.wakeAfterAppend] at h
    rename_i hhalf
    subst h
    have hin : t ∈ hs := (hmem t).1 hhalf
    refine ⟨hs.erase t, hnd.erase t, by simp [List.length_erase_of_mem hin, hlen], ?_⟩
    intro x
    by_cases hx : x = t
    · subst hx; simp [hnd.mem_erase_iff]
    · simp [upd_other _ _ _ hx, hmem, hx, hnd.mem_erase_iff]
  all_goals
    repeat' split at h
    all_goals first
      | (simp at h; done)
      | (simp at h
         subst h
         exact ⟨hs, hnd, hlen, hmem⟩)

theorem cnt_run (w : Tid) (sched : List (Tid × WAct)) : Cnt ((({ loopTid := w } : WakeSys)).run sched) :=
  WakeSys.run_inv Cnt cnt_step _ sched ⟨[], by simp, rfl, by simp⟩

theorem Cnt.zero {s : WakeSys} (h : Cnt s) (h0 : s.nhalf = 0) (t : Tid) : s.ppc t = .idle := by
  obtain ⟨hs, _, hlen, hmem⟩ := h
  have : hs = [] := List.eq_nil_of_length_eq_zero (by omega)
  subst this
  have := hmem t
  cases hp : s.ppc t <;> simp_all

theorem Cnt.pos {s : WakeSys} (h : Cnt s) (h0 : s.nhalf > 0) : ∃ t, s.ppc t = .half := by
  obtain ⟨hs, _, hlen, hmem⟩ := h
  match hs, hlen with
  | [], hlen => simp at hlen; omega
  | t :: _, _ => exact ⟨t, (hmem t).2 (by simp)⟩

/-! ### no lost wake-up, no stall -/
def NoLost (s : WakeSys) : Prop := s.queue ≠ [] → s.lpc = .armed false → s.pipe > 0 ∨ s.nhalf > 0

set_option linter.unusedVariables false in
theorem nolost_step (s : WakeSys) (t : Tid) (a : WAct) (s' : WakeSys) (hi : NoLost s) (h : s.step t a = some s') : NoLost s' := by
  unfold NoLost at *
  cases a <;> simp only [WakeSys.step] at h
  case append id len =>
    split at h <;> simp [Gen.wakeAfterAppend] at h
    subst h
    intro _ _; right; simp
  case wake =>
    split at h <;> simp [Gen.wakeAfterAppend] at h
    subst h
    intro _ _; left; simp
  all_goals
    repeat' split at h
    all_goals first
      | (simp at h; done)
      | (simp at h
         subst h
         simp_all
         done)
      | (simp at h
         subst h
         intro h1 h2
         simp_all)

theorem nolost_run (w : Tid) (sched : List (Tid × WAct)) : NoLost ((({ loopTid := w } : WakeSys)).run sched) :=
  WakeSys.run_inv NoLost nolost_step _ sched (by simp [NoLost])


/-- the stall counter stays at zero (needs the no-lost-wake-up invariant at `select`) -/
def NoStall (s : WakeSys) : Prop := NoLost s ∧ s.stalls = 0

theorem nostall_step (s : WakeSys) (t : Tid) (a : WAct) (s' : WakeSys) (hi : NoStall s) (h : s.step t a = some s') : NoStall s' := by
  refine ⟨nolost_step s t a s' hi.1 h, ?_⟩
  obtain ⟨hl, h0⟩ := hi
  cases a <;> simp only [WakeSys.step] at h
  case select sockR writable =>
    split at h
    · simp at h
    split at h
    · rename_i w hw
      simp at h
      subst h
      simp only [h0]
      split
      · rename_i hc
        exfalso
        obtain ⟨hto, hwr, hq, hn⟩ := hc
        have hq' : s.queue ≠ [] := by simpa using hq
        cases w
        · have := hl hq' hw
          simp at hto
          omega
        · simp [hwr] at hto
      · rfl
    · simp at h
  all_goals
    repeat' split at h
    all_goals first
      | (simp at h; done)
      | (simp at h
         subst h
         exact h0)

theorem nostall_run (w : Tid) (sched : List (Tid × WAct)) : NoStall ((({ loopTid := w } : WakeSys)).run sched) :=
  WakeSys.run_inv NoStall nostall_step _ sched (by simp [NoStall, NoLost])

/-! ### CONNECT first -/
def ConnFirst (s : WakeSys) : Prop :=
  s.raced = 0 → if s.fresh then s.all = [] else (s.all.head?.map (·.id)) = some 0

theorem connfirst_step (s : WakeSys) (t : Tid) (a : WAct) (s' : WakeSys) (hi : ConnFirst s) (h : s.step t a = some s') : ConnFirst s' := by
  unfold ConnFirst at *
  cases a <;> simp only [WakeSys.step] at h
  case append id len =>
    split at h <;> simp [Gen.wakeAfterAppend] at h
    subst h
    by_cases hf : s.fresh = true
    · by_cases hid : id = 0
      · simp [hf, hid] at hi ⊢
        intro h0; simp [hi h0]
      · simp [hf, hid]
    · simp [hf] at hi ⊢
      intro h0
      have := hi h0
      cases hall : s.all with
      | nil => simp [hall] at this
      | cons x xs => simpa [hall] using this
  all_goals
    repeat' split at h
    all_goals first
      | (simp at h; done)
      | (simp at h
         subst h
         first | exact hi | simp)

theorem connfirst_run (w : Tid) (sched : List (Tid × WAct)) : ConnFirst ((({ loopTid := w } : WakeSys)).run sched) :=
  WakeSys.run_inv ConnFirst connfirst_step _ sched (by simp [ConnFirst])

/-! ### bytes of distinct packets are distinct -/
theorem Pkt.rest_nodup (p : Pkt) : p.rest.Nodup := by
  unfold Pkt.rest
  have := List.nodup_range' (s := p.pos) (n := p.len - p.pos) 1
  unfold List.Nodup at *
  rw [List.pairwise_map]
  exact this.imp (by intro a b hab h; apply hab; simpa using h)

theorem Pkt.mem_rest {p : Pkt} {x : Nat × Nat} (h : x ∈ p.rest) : x.1 = p.id := by
  simp [Pkt.rest] at h
  obtain ⟨_, _, rfl⟩ := h
  rfl

theorem bytes_nodup (l : List Pkt) (h : (l.map (·.id)).Nodup) :
    (l.flatMap fun p => ({ p with pos := 0 } : Pkt).rest).Nodup := by
  induction l with
  | nil => simp
  | cons p ps ih =>
    simp only [List.map_cons, List.nodup_cons] at h
    simp only [List.flatMap_cons, List.nodup_append]
    refine ⟨Pkt.rest_nodup _, ih h.2, ?_⟩
    intro a ha b hb hab
    subst hab
    have h1 := Pkt.mem_rest ha
    obtain ⟨q, hq, hbq⟩ := List.mem_flatMap.1 hb
    have h2 := Pkt.mem_rest hbq
    simp at h1 h2
    apply h.1
    rw [← h1, h2]
    exact List.mem_map.2 ⟨q, hq, rfl⟩

end Paho.Thr
