/-
Helper lemmas for C07 (section A, packet ids): the invariant of `MidSys` (the id generator under
`_mid_generate_mutex`) over all schedules.
-/
import Paho.Model.Threads
import PahoProofs.Properties.C14
namespace Paho.Thr.ThrMid
open Paho Paho.Thr

theorem upd_same {α : Type} (f : Tid → α) (t : Tid) (v : α) : upd f t v t = v := by simp [upd]
theorem upd_other {α : Type} (f : Tid → α) (t : Tid) (v : α) {x : Tid} (h : x ≠ t) : upd f t v x = f x := by
  simp [upd, h]

/-- value of `_last_mid` after `n` sequential allocations -/
def midIter : Nat → Nat → Nat
  | l, 0 => l
  | l, n + 1 => midIter (midNext l) n

theorem midIter_succ (l n : Nat) : midIter l (n + 1) = midNext (midIter l n) := by
  induction n generalizing l with
  | zero => rfl
  | succ n ih =>
    show midIter (midNext l) (n + 1) = midNext (midIter (midNext l) n)
    exact ih (midNext l)

theorem midSeq_succ (l n : Nat) : midSeq l (n + 1) = midSeq l n ++ [midIter l (n + 1)] := by
  induction n generalizing l with
  | zero => simp [midSeq, midIter]
  | succ n ih =>
    have h1 : midSeq l (n + 1 + 1) = midNext l :: midSeq (midNext l) (n + 1) := rfl
    rw [h1, ih (midNext l)]
    simp [midSeq, midIter]

theorem midSeq_nodup (l0 n : Nat) (h : l0 ≤ 65535) (hn : n ≤ 65535) : (midSeq l0 n).Nodup := by
  rw [List.Nodup, List.pairwise_iff_getElem]
  intro i j hi hj hij heq
  rw [midSeq_length] at hi hj
  have := c14_distinct_window n l0 i j h hij hj (by omega)
  apply this
  rw [List.getElem?_eq_getElem (by rw [midSeq_length]; exact hi),
    List.getElem?_eq_getElem (by rw [midSeq_length]; exact hj), heq]

/-- invariant of the generator (relies on `Gen.midGenUnderLock = true`) -/
structure MInv (l0 : Nat) (s : MidSys) : Prop where
  own : ∀ t, s.pc t ≠ .idle → s.owner = some t
  seq : s.rets.reverse.map (·.2) = midSeq l0 s.rets.length
  stored : ∀ t, s.pc t = .stored → s.last = midIter l0 (s.rets.length + 1)
  nostored : (∀ t, s.pc t ≠ .stored) → s.last = midIter l0 s.rets.length
  loaded : ∀ t v, s.pc t = .loaded v → v = s.last

theorem MInv.init (l0 : Nat) : MInv l0 { last := l0 } where
  own := by intro t h; exact absurd rfl h
  seq := rfl
  stored := by intro t h; cases h
  nostored := by intro _; rfl
  loaded := by intro t v h; cases h

theorem MInv.unique {l0 : Nat} {s : MidSys} (h : MInv l0 s) {t x : Tid} (ht : s.pc t ≠ .idle)
    (hx : s.pc x ≠ .idle) : x = t := by
  have h1 := h.own t ht
  have h2 := h.own x hx
  rw [h1] at h2
  exact (Option.some.inj h2).symm

theorem MInv.step {l0 : Nat} {s s' : MidSys} {t : Tid} {a : MAct} (h : MInv l0 s)
    (hs : s.step t a = some s') : MInv l0 s' := by
  cases a with
  | enter =>
    simp only [MidSys.step] at hs
    split at hs
    · rename_i hpc
      simp only [Gen.midGenUnderLock, if_true] at hs
      split at hs
      · rename_i hown
        have hnone : s.owner = none := by simpa using hown
        have hidle : ∀ x, s.pc x = .idle := by
          intro x
          apply Classical.byContradiction
          intro hx
          have := h.own x hx
          rw [hnone] at this
          cases this
        cases hs
        refine ⟨?_, h.seq, ?_, ?_, ?_⟩
        · intro x hx
          by_cases hxt : x = t
          · subst hxt; rfl
          · simp only [upd_other _ _ _ hxt] at hx
            exact absurd (hidle x) hx
        · intro x hx
          by_cases hxt : x = t
          · subst hxt; simp only [upd_same] at hx; cases hx
          · simp only [upd_other _ _ _ hxt] at hx
            rw [hidle x] at hx; cases hx
        · intro _
          apply h.nostored
          intro x hx
          rw [hidle x] at hx; cases hx
        · intro x v hx
          by_cases hxt : x = t
          · subst hxt; simp only [upd_same] at hx; cases hx
          · simp only [upd_other _ _ _ hxt] at hx
            rw [hidle x] at hx; cases hx
      · cases hs
    · cases hs
  | load =>
    simp only [MidSys.step] at hs
    split at hs
    · rename_i hpc
      have hne : s.pc t ≠ .idle := by rw [hpc]; intro h; cases h
      cases hs
      refine ⟨?_, h.seq, ?_, ?_, ?_⟩
      · intro x hx
        by_cases hxt : x = t
        · subst hxt; exact h.own x hne
        · simp only [upd_other _ _ _ hxt] at hx
          exact h.own x hx
      · intro x hx
        by_cases hxt : x = t
        · subst hxt; simp only [upd_same] at hx; cases hx
        · simp only [upd_other _ _ _ hxt] at hx
          exact h.stored x hx
      · intro hall
        apply h.nostored
        intro x hx
        by_cases hxt : x = t
        · subst hxt; rw [hpc] at hx; cases hx
        · apply hall x
          simp only [upd_other _ _ _ hxt]
          exact hx
      · intro x v hx
        by_cases hxt : x = t
        · subst hxt; simp only [upd_same] at hx; cases hx; rfl
        · simp only [upd_other _ _ _ hxt] at hx
          exact h.loaded x v hx
    · cases hs
  | store =>
    simp only [MidSys.step] at hs
    split at hs
    · rename_i v hpc
      have hne : s.pc t ≠ .idle := by rw [hpc]; intro h; cases h
      have hv : v = s.last := h.loaded t v hpc
      have hlast : s.last = midIter l0 s.rets.length := by
        apply h.nostored
        intro x hx
        have hxne : s.pc x ≠ .idle := by rw [hx]; intro h; cases h
        have := h.unique hne hxne
        subst this
        rw [hpc] at hx; cases hx
      cases hs
      refine ⟨?_, h.seq, ?_, ?_, ?_⟩
      · intro x hx
        by_cases hxt : x = t
        · subst hxt; exact h.own x hne
        · simp only [upd_other _ _ _ hxt] at hx
          exact h.own x hx
      · intro x _
        show midNext v = midIter l0 (s.rets.length + 1)
        rw [midIter_succ, hv, hlast]
      · intro hall
        exact absurd (upd_same s.pc t .stored) (hall t)
      · intro x w hx
        by_cases hxt : x = t
        · subst hxt; simp only [upd_same] at hx; cases hx
        · simp only [upd_other _ _ _ hxt] at hx
          have hxne : s.pc x ≠ .idle := by rw [hx]; intro h; cases h
          exact absurd (h.unique hne hxne) hxt
    · cases hs
  | leave =>
    simp only [MidSys.step] at hs
    split at hs
    · rename_i hpc
      have hne : s.pc t ≠ .idle := by rw [hpc]; intro h; cases h
      have hlast := h.stored t hpc
      have hothers : ∀ x, x ≠ t → s.pc x = .idle := by
        intro x hxt
        apply Classical.byContradiction
        intro hx
        exact hxt (h.unique hne hx)
      cases hs
      refine ⟨?_, ?_, ?_, ?_, ?_⟩
      · intro x hx
        by_cases hxt : x = t
        · subst hxt; simp only [upd_same] at hx; exact absurd rfl hx
        · simp only [upd_other _ _ _ hxt] at hx
          exact absurd (hothers x hxt) hx
      · show ((t, s.last) :: s.rets).reverse.map (·.2) = midSeq l0 (s.rets.length + 1)
        rw [midSeq_succ, List.reverse_cons, List.map_append, h.seq, hlast]
        rfl
      · intro x hx
        by_cases hxt : x = t
        · subst hxt; simp only [upd_same] at hx; cases hx
        · simp only [upd_other _ _ _ hxt] at hx
          rw [hothers x hxt] at hx; cases hx
      · intro _
        exact hlast
      · intro x w hx
        by_cases hxt : x = t
        · subst hxt; simp only [upd_same] at hx; cases hx
        · simp only [upd_other _ _ _ hxt] at hx
          rw [hothers x hxt] at hx; cases hx
    · cases hs

theorem MInv.run {l0 : Nat} (sched : List (Tid × MAct)) {s : MidSys} (h : MInv l0 s) :
    MInv l0 (s.run sched) := by
  induction sched generalizing s with
  | nil => exact h
  | cons x rest ih =>
    obtain ⟨t, a⟩ := x
    show MInv l0 (((s.step t a).getD s).run rest)
    apply ih
    cases hs : s.step t a with
    | none => exact h
    | some s' => exact h.step hs

end Paho.Thr.ThrMid
