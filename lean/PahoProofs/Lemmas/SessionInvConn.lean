/-
Log invariants preserved by every atomic action of `SessionAct.lean`:
`InvC` (C10 connect-first) and `InvT` (C16 socket-callback automaton in sync with the state).
-/
import PahoProofs.Lemmas.SessionAct

namespace Paho
namespace SessAct

/-! ## fields never changed by an action -/

theorem Act.ext_eq {k : Kind} {v v' : View} (h : Act k v v') : v'.ext = v.ext := by
  cases h <;>
    simp only [vEmit, vRegW, vUnregW, vEnq, vWrite, vWriteDisc, vCloseLost, vCloseBroker, vCloseReplace,
      vSockClose, vOpen] <;> (repeat' split) <;> rfl

theorem Act.cfgOk_eq {k : Kind} {v v' : View} (h : Act k v v') : v'.cfgOk = v.cfgOk := by
  cases h <;>
    simp only [vEmit, vRegW, vUnregW, vEnq, vWrite, vWriteDisc, vCloseLost, vCloseBroker, vCloseReplace,
      vSockClose, vOpen] <;> (repeat' split) <;> rfl

theorem Path.ext_eq {P : Kind → Bool} {v v' : View} (h : Path P v v') : v'.ext = v.ext := by
  induction h with
  | refl _ => rfl
  | cons ha _ _ ih => exact ih.trans ha.ext_eq

theorem Path.cfgOk_eq {P : Kind → Bool} {v v' : View} (h : Path P v v') : v'.cfgOk = v.cfgOk := by
  induction h with
  | refl _ => rfl
  | cons ha _ _ ih => exact ih.trans ha.cfgOk_eq

/-! ## C10: connect first -/

/-- packets handed to connection `c` (bytes of the `.queued c _` events) -/
def qsOf (c : Nat) (log : List Ev) : List Bytes :=
  log.filterMap (fun e => match e with | .queued c' b => if c' = c then some b else none | _ => none)

def ConnFirst (qs : List Bytes) : Prop :=
  (∀ b, qs.head? = some b → b.head? = some 0x10) ∧ (qs.tail.all fun b => b.head? != some 0x10) = true

theorem qsOf_append (c : Nat) (l1 l2 : List Ev) : qsOf c (l1 ++ l2) = qsOf c l1 ++ qsOf c l2 := by
  simp [qsOf, List.filterMap_append]

/-- not a `.queued` event -/
def notQ : Ev → Bool
  | .queued _ _ => false
  | _ => true

theorem qsOf_notQ (c : Nat) (l : List Ev) (h : ∀ e ∈ l, notQ e = true) : qsOf c l = [] := by
  induction l with
  | nil => rfl
  | cons e l ih =>
    have h1 := h e (by simp)
    have h2 := ih (fun e he => h e (by simp [he]))
    cases e <;> simp_all [qsOf, notQ]

theorem qsOf_other (c : Nat) (l : List Ev) (h : ∀ e ∈ l, evConn e ≠ c) : qsOf c l = [] := by
  induction l with
  | nil => rfl
  | cons e l ih =>
    have h1 := h e (by simp)
    have h2 := ih (fun e he => h e (by simp [he]))
    cases e <;> simp_all [qsOf, evConn]

theorem neutral_notQ {e : Ev} (h : neutral e = true) : notQ e = true := by
  cases e <;> simp_all [neutral, notQ]

theorem neutral_evConn {e : Ev} (h : neutral e = true) : evConn e = 0 := by
  cases e <;> simp_all [neutral, evConn]

theorem ConnFirst_nil : ConnFirst [] := by simp [ConnFirst]

theorem ConnFirst_single {b : Bytes} (h : b.head? = some 0x10) : ConnFirst [b] := by
  simp [ConnFirst, h]

theorem ConnFirst_snoc {qs : List Bytes} {b : Bytes} (h : ConnFirst qs) (hne : qs ≠ [])
    (hb : b.head? ≠ some 0x10) : ConnFirst (qs ++ [b]) := by
  cases qs with
  | nil => exact absurd rfl hne
  | cons q qs =>
    obtain ⟨h1, h2⟩ := h
    refine ⟨?_, ?_⟩
    · intro b' hb'
      exact h1 b' (by simpa using hb')
    · simp only [List.cons_append, List.tail_cons, List.all_append, Bool.and_eq_true] at h2 ⊢
      refine ⟨by simpa using h2, ?_⟩
      simp [hb]

/-- C10 connect-first (needs the CONNECT packet to be encodable: `cfgOk`) -/
structure InvC (v : View) : Prop where
  evle : ∀ e ∈ v.log, evConn e ≤ v.nconn
  first : v.cfgOk = true → ∀ c, ConnFirst (qsOf c v.log)
  started : v.cfgOk = true → ∀ c, v.sock = some c → qsOf c v.log ≠ []

/-- appending events that are not `.queued` and do not open a socket -/
theorem invC_step {v v' : View} {evs : List Ev} (hi : InvC v) (hlog : v'.log = v.log ++ evs)
    (hcfg : v'.cfgOk = v.cfgOk) (hn : v'.nconn = v.nconn)
    (hev : ∀ e ∈ evs, evConn e ≤ v.nconn ∧ notQ e = true)
    (hsock : ∀ c, v'.sock = some c → v.sock = some c) : InvC v' := by
  have hq : ∀ c, qsOf c v'.log = qsOf c v.log := by
    intro c
    rw [hlog, qsOf_append, qsOf_notQ c evs (fun e he => (hev e he).2), List.append_nil]
  refine ⟨?_, ?_, ?_⟩
  · intro e he
    rw [hlog, List.mem_append] at he
    rw [hn]
    rcases he with he | he
    · exact hi.evle e he
    · exact (hev e he).1
  · intro hc c
    rw [hq]
    exact hi.first (hcfg ▸ hc) c
  · intro hc c hs
    rw [hq]
    exact hi.started (hcfg ▸ hc) c (hsock c hs)

theorem invC_vSockClose {v : View} (r : Bool) (hb : ∀ c, v.sock = some c → c ≤ v.nconn) (hi : InvC v) :
    InvC (vSockClose v r) := by
  cases hs : v.sock with
  | none => simpa [vSockClose, hs] using hi
  | some c =>
    have hc := hb c hs
    refine invC_step hi (evs := closeEvs v c r) (by simp [vSockClose, hs]) (by simp [vSockClose, hs])
      (by simp [vSockClose, hs]) ?_ (by simp [vSockClose, hs])
    intro e he
    simp only [closeEvs, List.mem_append] at he
    rcases he with (he | he) | he
    · split at he <;> simp_all [evConn, notQ]
    · split at he
      · split at he <;> simp_all [evConn, notQ]
      · simp at he
    · simp_all [evConn, notQ]

theorem invC_emit {v : View} (evs : List Ev) (hn : ∀ e ∈ evs, neutral e = true) (hi : InvC v) :
    InvC (vEmit v evs) :=
  invC_step hi (evs := evs) rfl rfl rfl
    (fun e he => ⟨by simp [neutral_evConn (hn e he)], neutral_notQ (hn e he)⟩) (fun _ h => h)

theorem invC_vWrite {v : View} (pkt : OutPkt) (rest : List OutPkt) (k : Nat)
    (hb : ∀ c, v.sock = some c → c ≤ v.nconn) (hi : InvC v) : InvC (vWrite v pkt rest k) := by
  cases hs : v.sock with
  | none => exact invC_step hi (evs := []) (by simp [vWrite, hs]) rfl rfl (by simp) (fun _ h => h)
  | some c =>
    have hc := hb c hs
    exact invC_step hi (evs := [Ev.tx c ((pkt.bytes.drop pkt.pos).take k)]) (by simp [vWrite, hs]) rfl rfl
      (by simp [evConn, notQ, hc]) (fun _ h => h)

theorem qsOf_single_queued (c c' : Nat) (b : Bytes) :
    qsOf c [Ev.queued c' b] = if c' = c then [b] else [] := by
  by_cases h : c' = c <;> simp [qsOf, h]

theorem invC_vOpen {v : View} (pkt : Option OutPkt)
    (hp : ∀ p, pkt = some p → p.bytes.head? = some 0x10) (hnone : pkt = none → v.cfgOk = false)
    (hi : InvC v) : InvC (vOpen v pkt) := by
  have hold : qsOf (v.nconn + 1) v.log = [] := by
    apply qsOf_other
    intro e he
    have := hi.evle e he
    omega
  have hmid : ∀ c, qsOf c ([Ev.sopen (v.nconn + 1)] ++
      (if v.ext then [if v.inCb then Ev.deadlock "_in_callback_mutex" else Ev.skOpen (v.nconn + 1)] else [])) = [] := by
    intro c
    apply qsOf_notQ
    intro e he
    rw [List.mem_append] at he
    rcases he with he | he
    · simp_all [notQ]
    · split at he
      · split at he <;> simp_all [notQ]
      · simp at he
  refine ⟨?_, ?_, ?_⟩
  · intro e he
    simp only [vOpen, List.mem_append] at he ⊢
    rcases he with ((he | he) | he) | he
    · have := hi.evle e he
      omega
    · simp_all [evConn]
    · split at he
      · split at he <;> simp_all [evConn]
      · simp at he
    · split at he <;> simp_all [evConn]
  · intro hc c
    cases pkt with
    | none => simp [vOpen, hnone rfl] at hc
    | some p =>
      have hq : qsOf c (vOpen v (some p)).log
          = qsOf c v.log ++ (if v.nconn + 1 = c then [p.bytes] else []) := by
        simp only [vOpen, List.append_assoc]
        rw [qsOf_append, ← List.append_assoc, qsOf_append, hmid, qsOf_single_queued]
        simp
      rw [hq]
      by_cases hcc : v.nconn + 1 = c
      · subst hcc
        rw [hold]
        simpa using ConnFirst_single (hp p rfl)
      · simpa [hcc] using hi.first hc c
  · intro hc c hs
    cases pkt with
    | none => simp [vOpen, hnone rfl] at hc
    | some p =>
      have hcc : v.nconn + 1 = c := by simpa [vOpen] using hs
      subst hcc
      simp only [vOpen, List.append_assoc]
      rw [qsOf_append, ← List.append_assoc, qsOf_append, hmid, qsOf_single_queued]
      simp

theorem invC_vEnq {v : View} (pkt : OutPkt) (hf : pkt.bytes.head? ≠ some 0x10)
    (hb : ∀ c, v.sock = some c → c ≤ v.nconn) (hi : InvC v) : InvC (vEnq v pkt) := by
  cases hs : v.sock with
  | none => exact invC_step hi (evs := []) (by simp [vEnq, hs]) rfl rfl (by simp) (fun _ h => h)
  | some c =>
    have hc := hb c hs
    have hq : ∀ c', qsOf c' (vEnq v pkt).log = qsOf c' v.log ++ (if c = c' then [pkt.bytes] else []) := by
      intro c'
      simp only [vEnq, hs]
      rw [qsOf_append, qsOf_single_queued]
    refine ⟨?_, ?_, ?_⟩
    · intro e he
      simp only [vEnq, hs, List.mem_append] at he ⊢
      rcases he with he | he
      · exact hi.evle e he
      · simp_all [evConn]
    · intro hcfg c'
      rw [hq]
      by_cases hcc : c = c'
      · subst hcc
        simpa using ConnFirst_snoc (hi.first hcfg c) (hi.started hcfg c hs) hf
      · simpa [hcc] using hi.first hcfg c'
    · intro hcfg c' hs'
      rw [hq]
      have := hi.started hcfg c' hs'
      simp [this]

theorem Act.invC {k : Kind} {v v' : View} (h : Act k v v') (hs : InvS v) (hi : InvC v) : InvC v' := by
  cases h with
  | emit _ evs hn => exact invC_emit evs hn hi
  | regW _ =>
    unfold vRegW
    split
    · exact hi
    · rename_i c hc
      split
      · exact hi
      · refine invC_step hi (evs := if v.ext then [Ev.skRegW c] else []) rfl rfl rfl ?_ (fun _ h => h)
        have := hs.nconn c hc
        intro e he
        split at he <;> simp_all [evConn, notQ]
  | unregW _ =>
    unfold vUnregW
    split
    · exact hi
    · rename_i c hc
      split
      · refine invC_step hi (evs := if v.ext then [Ev.skUnregW c] else []) rfl rfl rfl ?_ (fun _ h => h)
        have := hs.nconn c hc
        intro e he
        split at he <;> simp_all [evConn, notQ]
      · exact hi
  | enq _ pkt hf hd => exact invC_vEnq pkt hf.2.2 hs.nconn hi
  | write _ pkt rest k _ _ _ => exact invC_vWrite pkt rest k hs.nconn hi
  | setNoSock _ x _ _ => exact invC_step hi (evs := []) (by simp) rfl rfl (by simp) (fun _ h => h)
  | connack _ _ => exact invC_step hi (evs := []) (by simp) rfl rfl (by simp) (fun _ h => h)
  | writeDisc _ pkt rest k _ _ _ _ _ =>
    have h1 : InvC (vWrite v pkt rest k) := invC_vWrite pkt rest k hs.nconn hi
    have h2 : InvC (vSockClose (vWrite v pkt rest k) false) := invC_vSockClose false hs.nconn h1
    exact invC_step h2 (evs := [Ev.onDisconnect 0 false]) rfl rfl rfl (by simp [evConn, notQ]) (fun _ h => h)
  | closeLost _ n _ _ =>
    have h2 : InvC (vSockClose v false) := invC_vSockClose false hs.nconn hi
    exact invC_step h2 (evs := [Ev.onDisconnect (if dOD v then 0 else n) false]) rfl rfl rfl
      (by simp [evConn, notQ]) (fun _ h => h)
  | closeBroker _ n _ =>
    have h2 : InvC (vSockClose v false) := invC_vSockClose false hs.nconn hi
    exact invC_step h2 (evs := [Ev.onDisconnect n true]) rfl rfl rfl
      (by simp [evConn, notQ]) (fun _ h => h)
  | closeReplace _ x _ =>
    have h1 : InvC { v with cstate := x } :=
      invC_step hi (evs := []) (by simp) rfl rfl (by simp) (fun _ h => h)
    exact invC_vSockClose true hs.nconn h1
  | clearQ _ _ => exact invC_step hi (evs := []) (by simp) rfl rfl (by simp) (fun _ h => h)
  | openConnect _ pkt h1 _ _ hp => exact invC_vOpen (some pkt) (by rintro p ⟨⟩; exact hp.2.2) (by simp) hi
  | openNoConnect _ h1 _ _ hc => exact invC_vOpen none (by simp) (fun _ => hc) hi
  | setDisc _ _ => exact invC_step hi (evs := []) (by simp) rfl rfl (by simp) (fun _ h => h)

theorem invC_init (cfg : Cfg) (proto : Nat) (t : Nat) : InvC (view (S.init cfg proto t)) := by
  refine ⟨?_, ?_, ?_⟩
  · simp [S.init]
  · intro _ c
    simpa [S.init, qsOf] using ConnFirst_nil
  · intro _ c hs
    simp [S.init] at hs

/-! ## C16: socket callbacks -/

/-- C16: the socket-callback automaton is in sync with the state (meaningful when `ext = true`) -/
structure InvT (v : View) : Prop where
  ok : (v.log.foldl SockTrace.step {}).ok = true
  openSock : (v.log.foldl SockTrace.step {}).openSock = v.sock
  reg : (v.log.foldl SockTrace.step {}).reg = v.regWrite
  seen : ∀ c ∈ (v.log.foldl SockTrace.step {}).seen, c ≤ v.nconn

/-- not a socket-callback event -/
def notSk : Ev → Bool
  | .skOpen _ | .skClose _ | .skRegW _ | .skUnregW _ => false
  | _ => true

theorem step_notSk (t : SockTrace) {e : Ev} (h : notSk e = true) : t.step e = t := by
  cases e <;> simp_all [notSk, SockTrace.step]

theorem foldl_notSk (t : SockTrace) (evs : List Ev) (h : ∀ e ∈ evs, notSk e = true) :
    evs.foldl SockTrace.step t = t := by
  induction evs generalizing t with
  | nil => rfl
  | cons e evs ih =>
    rw [List.foldl_cons, step_notSk t (h e (by simp))]
    exact ih t (fun e he => h e (by simp [he]))

theorem neutral_notSk {e : Ev} (h : neutral e = true) : notSk e = true := by
  cases e <;> simp_all [neutral, notSk]

/-- appending events the automaton ignores -/
theorem invT_step {v v' : View} {evs : List Ev} (hi : InvT v) (hlog : v'.log = v.log ++ evs)
    (hev : ∀ e ∈ evs, notSk e = true) (hsock : v'.sock = v.sock) (hreg : v'.regWrite = v.regWrite)
    (hn : v'.nconn = v.nconn) : InvT v' := by
  have hq : v'.log.foldl SockTrace.step {} = v.log.foldl SockTrace.step {} := by
    rw [hlog, List.foldl_append, foldl_notSk _ evs hev]
  refine ⟨?_, ?_, ?_, ?_⟩
  · rw [hq]; exact hi.ok
  · rw [hq, hsock]; exact hi.openSock
  · rw [hq, hreg]; exact hi.reg
  · rw [hq, hn]; exact hi.seen

theorem invT_vSockClose {v : View} (r : Bool) (hext : v.ext = true) (hcb : v.inCb = false) (hi : InvT v) :
    InvT (vSockClose v r) := by
  cases hs : v.sock with
  | none => simpa [vSockClose, hs] using hi
  | some c =>
    obtain ⟨h1, h2, h3, h4⟩ := hi
    rw [hs] at h2
    have hlog : (vSockClose v r).log = v.log ++ closeEvs v c r := by simp [vSockClose, hs]
    refine ⟨?_, ?_, ?_, ?_⟩ <;> rw [hlog, List.foldl_append]
    all_goals generalize v.log.foldl SockTrace.step {} = t at h1 h2 h3 h4 ⊢
    all_goals cases hr : v.regWrite <;>
      simp_all [vSockClose, closeEvs, SockTrace.step]

theorem invT_vWrite {v : View} (pkt : OutPkt) (rest : List OutPkt) (k : Nat) (hi : InvT v) :
    InvT (vWrite v pkt rest k) := by
  cases hs : v.sock with
  | none => exact invT_step hi (evs := []) (by simp [vWrite, hs]) (by simp) rfl rfl rfl
  | some c =>
    exact invT_step hi (evs := [Ev.tx c ((pkt.bytes.drop pkt.pos).take k)]) (by simp [vWrite, hs])
      (by simp [notSk]) rfl rfl rfl

theorem invT_vEnq {v : View} (pkt : OutPkt) (hi : InvT v) : InvT (vEnq v pkt) := by
  cases hs : v.sock with
  | none => exact invT_step hi (evs := []) (by simp [vEnq, hs]) (by simp) rfl rfl rfl
  | some c =>
    exact invT_step hi (evs := [Ev.queued c pkt.bytes]) (by simp [vEnq, hs]) (by simp [notSk]) rfl rfl rfl

theorem invT_vRegW {v : View} (hext : v.ext = true) (hi : InvT v) : InvT (vRegW v) := by
  cases hs : v.sock with
  | none => simpa [vRegW, hs] using hi
  | some c =>
    cases hr : v.regWrite with
    | true => simpa [vRegW, hs, hr] using hi
    | false =>
      obtain ⟨h1, h2, h3, h4⟩ := hi
      rw [hs] at h2
      have hlog : (vRegW v).log = v.log ++ [Ev.skRegW c] := by simp [vRegW, hs, hr, hext]
      refine ⟨?_, ?_, ?_, ?_⟩ <;> rw [hlog, List.foldl_append]
      all_goals generalize v.log.foldl SockTrace.step {} = t at h1 h2 h3 h4 ⊢
      all_goals simp_all [vRegW, SockTrace.step]

theorem invT_vUnregW {v : View} (hext : v.ext = true) (hi : InvT v) : InvT (vUnregW v) := by
  cases hs : v.sock with
  | none => simpa [vUnregW, hs] using hi
  | some c =>
    cases hr : v.regWrite with
    | false => simpa [vUnregW, hs, hr] using hi
    | true =>
      obtain ⟨h1, h2, h3, h4⟩ := hi
      rw [hs] at h2
      have hlog : (vUnregW v).log = v.log ++ [Ev.skUnregW c] := by simp [vUnregW, hs, hr, hext]
      refine ⟨?_, ?_, ?_, ?_⟩ <;> rw [hlog, List.foldl_append]
      all_goals generalize v.log.foldl SockTrace.step {} = t at h1 h2 h3 h4 ⊢
      all_goals simp_all [vUnregW, SockTrace.step]

theorem invT_open_aux {v v' : View} (last : List Ev) (hl : ∀ e ∈ last, notSk e = true)
    (hlog : v'.log = v.log ++ [Ev.sopen (v.nconn + 1), Ev.skOpen (v.nconn + 1)] ++ last)
    (hs' : v'.sock = some (v.nconn + 1)) (hr' : v'.regWrite = false) (hn' : v'.nconn = v.nconn + 1)
    (hsock : v.sock = none) (hi : InvT v) : InvT v' := by
  obtain ⟨h1, h2, h3, h4⟩ := hi
  rw [hsock] at h2
  have hnot : ¬ (v.nconn + 1) ∈ (v.log.foldl SockTrace.step {}).seen := by
    intro hm
    have := h4 _ hm
    omega
  refine ⟨?_, ?_, ?_, ?_⟩ <;> rw [hlog, List.foldl_append, foldl_notSk _ last hl, List.foldl_append]
  all_goals generalize v.log.foldl SockTrace.step {} = t at h1 h2 h3 h4 hnot ⊢
  · simp_all [SockTrace.step]
  · simp_all [SockTrace.step]
  · simp_all [SockTrace.step]
  · intro c hc
    simp only [List.foldl_cons, List.foldl_nil, SockTrace.step, List.mem_cons] at hc
    rw [hn']
    rcases hc with hc | hc
    · omega
    · have := h4 c hc
      omega

theorem invT_vOpen {v : View} (pkt : Option OutPkt) (hext : v.ext = true) (hcb : v.inCb = false)
    (hsock : v.sock = none) (hi : InvT v) : InvT (vOpen v pkt) := by
  cases pkt with
  | none =>
    exact invT_open_aux [Ev.exc "encode"] (by simp [notSk]) (by simp [vOpen, hext, hcb]) rfl rfl rfl hsock hi
  | some p =>
    exact invT_open_aux [Ev.queued (v.nconn + 1) p.bytes] (by simp [notSk]) (by simp [vOpen, hext, hcb])
      rfl rfl rfl hsock hi

theorem Act.invT {k : Kind} {v v' : View} (h : Act k v v') (hext : v.ext = true) (hs : InvS v)
    (hi : InvT v) : InvT v' := by
  have hcb := hs.inCb
  cases h with
  | emit _ evs hn => exact invT_step hi (evs := evs) rfl (fun e he => neutral_notSk (hn e he)) rfl rfl rfl
  | regW _ => exact invT_vRegW hext hi
  | unregW _ => exact invT_vUnregW hext hi
  | enq _ pkt hf hd => exact invT_vEnq pkt hi
  | write _ pkt rest k _ _ _ => exact invT_vWrite pkt rest k hi
  | setNoSock _ x _ _ => exact invT_step hi (evs := []) (by simp) (by simp) rfl rfl rfl
  | connack _ _ => exact invT_step hi (evs := []) (by simp) (by simp) rfl rfl rfl
  | writeDisc _ pkt rest k _ _ _ _ _ =>
    have h1 : InvT (vWrite v pkt rest k) := invT_vWrite pkt rest k hi
    have h2 : InvT (vSockClose (vWrite v pkt rest k) false) := invT_vSockClose false hext hcb h1
    exact invT_step h2 (evs := [Ev.onDisconnect 0 false]) rfl (by simp [notSk]) rfl rfl rfl
  | closeLost _ n _ _ =>
    have h2 : InvT (vSockClose v false) := invT_vSockClose false hext hcb hi
    exact invT_step h2 (evs := [Ev.onDisconnect (if dOD v then 0 else n) false]) rfl (by simp [notSk]) rfl rfl rfl
  | closeBroker _ n _ =>
    have h2 : InvT (vSockClose v false) := invT_vSockClose false hext hcb hi
    exact invT_step h2 (evs := [Ev.onDisconnect n true]) rfl (by simp [notSk]) rfl rfl rfl
  | closeReplace _ x _ =>
    have h1 : InvT { v with cstate := x } := invT_step hi (evs := []) (by simp) (by simp) rfl rfl rfl
    exact invT_vSockClose true hext hcb h1
  | clearQ _ _ => exact invT_step hi (evs := []) (by simp) (by simp) rfl rfl rfl
  | openConnect _ pkt h1 _ _ hp => exact invT_vOpen (some pkt) hext hcb h1 hi
  | openNoConnect _ h1 _ _ hc => exact invT_vOpen none hext hcb h1 hi
  | setDisc _ _ => exact invT_step hi (evs := []) (by simp) (by simp) rfl rfl rfl

theorem invT_init (cfg : Cfg) (proto : Nat) (t : Nat) : InvT (view (S.init cfg proto t)) := by
  refine ⟨?_, ?_, ?_, ?_⟩ <;> simp [S.init]

theorem invT_ok {v : View} (h : InvT v) : sockTraceOk v.log = true := h.ok

/-- `ConnFirst (qsOf c log)` is literally the statement of `c10_connect_first` -/
theorem ConnFirst.c10 {c : Nat} {log : List Ev} (h : ConnFirst (qsOf c log)) :
    let qs := log.filterMap (fun e => match e with | .queued c' b => if c' = c then some b else none | _ => none)
    (∀ b, qs.head? = some b → b.head? = some 0x10) ∧ (qs.tail.all fun b => b.head? != some 0x10) = true := h

end SessAct
end Paho
