/-
Abstract transition relations for the handlers that touch the message store / in-flight counter,
on the "view" (cfg, out, inflight, #infos) plus the list of `qPublish` events emitted.
-/
import PahoProofs.Lemmas.FlowBase

namespace Paho.FlowLemmas
open Paho Paho.S

structure V where
  cfg : Cfg
  out : List OutMsg
  inflight : Int
  ninfos : Nat
  /-- the protocol is MQTT 5 (no handler ever changes this) -/
  p5 : Prop
  /-- `_last_mid` is a 16 bit value (no handler ever changes this) -/
  mok : Prop

theorem midNext_le (l : Nat) : (midNext l ≤ 65535) = (l ≤ 65535) := by
  unfold midNext
  simp only [Gen.midIncr, Gen.midWrapCmp, Gen.midWrap, Gen.midReset, Cmp.evalNat]
  apply propext
  by_cases h : l + 1 = 65536 <;> simp [h] <;> omega

def view (s : S) : V := ⟨s.cfg, s.out, s.inflight, s.infos.length, s.proto = 5, s.lastMid ≤ 65535⟩

/-- the log of `s` is a prefix of the log of `s'` -/
def Pre (s s' : S) : Prop := s'.log = s.log ++ evsOf s s'

def qpubs (s s' : S) : List Ev := (evsOf s s').filter isQPublish

theorem Pre.refl (s : S) : Pre s s := by simp [Pre, evsOf]

theorem evsOf_self (s : S) : evsOf s s = [] := by simp [evsOf]

@[simp] theorem qpubs_self (s : S) : qpubs s s = [] := by simp [qpubs, evsOf_self]

theorem evsOf_trans {s s1 s2 : S} (h1 : Pre s s1) (h2 : Pre s1 s2) :
    evsOf s s2 = evsOf s s1 ++ evsOf s1 s2 := by
  unfold Pre at h1 h2
  have : s2.log = s.log ++ (evsOf s s1 ++ evsOf s1 s2) := by rw [h2, h1, List.append_assoc]
  conv => lhs; unfold evsOf; rw [this]
  simp

theorem Pre.trans {s s1 s2 : S} (h1 : Pre s s1) (h2 : Pre s1 s2) : Pre s s2 := by
  unfold Pre; rw [evsOf_trans h1 h2, ← List.append_assoc, ← h1, ← h2]

theorem qpubs_trans {s s1 s2 : S} (h1 : Pre s s1) (h2 : Pre s1 s2) :
    qpubs s s2 = qpubs s s1 ++ qpubs s1 s2 := by
  simp [qpubs, evsOf_trans h1 h2]

theorem evsOf_congr_left {s X : S} (h : X.log = s.log) (s' : S) : evsOf X s' = evsOf s s' := by
  simp [evsOf, h]

theorem Pre.congr_left {s X s' : S} (h : X.log = s.log) (hp : Pre X s') : Pre s s' := by
  unfold Pre at *; rw [← evsOf_congr_left h, ← h]; exact hp

theorem qpubs_congr_left {s X : S} (h : X.log = s.log) (s' : S) : qpubs X s' = qpubs s s' := by
  simp [qpubs, evsOf_congr_left h]

/-- frame in the abstract vocabulary -/
def FrQ (s s' : S) : Prop := Pre s s' ∧ view s' = view s ∧ qpubs s s' = []

theorem Fr.frq {s s' : S} (h : Fr s s') : FrQ s s' := by
  obtain ⟨h0, h1, h2, h3, h4, _, h6, h7, _, h9⟩ := h
  exact ⟨h7, by simp [view, h0, h1, h2, h3, h4, h6], h9⟩

theorem FrQ.refl (s : S) : FrQ s s := ⟨Pre.refl s, rfl, qpubs_self s⟩

theorem FrQ.trans {s s1 s2 : S} (h1 : FrQ s s1) (h2 : FrQ s1 s2) : FrQ s s2 :=
  ⟨h1.1.trans h2.1, h2.2.1.trans h1.2.1, by rw [qpubs_trans h1.1 h2.1, h1.2.2, h2.2.2]; rfl⟩

/-- a handler realises the abstract relation `R` -/
def Tr (R : V → V → List Ev → Prop) (s s' : S) : Prop := Pre s s' ∧ R (view s) (view s') (qpubs s s')

theorem Tr.frame_right {R} {s s1 s2 : S} (h : Tr R s s1) (f : FrQ s1 s2) : Tr R s s2 :=
  ⟨h.1.trans f.1, by rw [qpubs_trans h.1 f.1, f.2.2, f.2.1, List.append_nil]; exact h.2⟩

theorem Tr.frame_left {R} {s s1 s2 : S} (f : FrQ s s1) (h : Tr R s1 s2) : Tr R s s2 :=
  ⟨f.1.trans h.1, by rw [qpubs_trans f.1 h.1, f.2.2, ← f.2.1, List.nil_append]; exact h.2⟩

theorem Tr.mono {R R' : V → V → List Ev → Prop} (hR : ∀ v v' L, R v v' L → R' v v' L) {s s' : S}
    (h : Tr R s s') : Tr R' s s' := ⟨h.1, hR _ _ _ h.2⟩

/-- identity relation -/
def RId (v v' : V) (L : List Ev) : Prop := v' = v ∧ L = []

theorem FrQ.tr {s s' : S} (h : FrQ s s') : Tr RId s s' := ⟨h.1, h.2.1, h.2.2⟩

theorem Tr.frq {s s' : S} (h : Tr RId s s') : FrQ s s' := ⟨h.1, h.2.1, h.2.2⟩

/-- reflexive–transitive closure, concatenating the emitted events -/
inductive Star (R : V → V → List Ev → Prop) : V → V → List Ev → Prop
  | refl (v : V) : Star R v v []
  | step {v v1 v2 : V} {L1 L2 : List Ev} : R v v1 L1 → Star R v1 v2 L2 → Star R v v2 (L1 ++ L2)

theorem Tr.star_refl {R} {s s' : S} (h : FrQ s s') : Tr (Star R) s s' :=
  ⟨h.1, by rw [h.2.1, h.2.2]; exact Star.refl _⟩

theorem Tr.star_step {R} {s s1 s2 : S} (h1 : Tr R s s1) (h2 : Tr (Star R) s1 s2) : Tr (Star R) s s2 :=
  ⟨h1.1.trans h2.1, by rw [qpubs_trans h1.1 h2.1]; exact Star.step h1.2 h2.2⟩

theorem filter_q_filter_qr (l : List Ev) : l.filter isQPublish = (l.filter isQR).filter isQPublish := by
  rw [List.filter_filter]
  congr 1
  funext e
  cases e <;> simp [isQPublish, isQR]

theorem sendPublish_q (s : S) (mid t p q r d i dir u) :
    qpubs s (s.sendPublish mid t p q r d i dir u).1 = [] ∨
    ∃ c u', u = some u' ∧ s.sock = some c ∧
      qpubs s (s.sendPublish mid t p q r d i dir u).1 = [.qPublish c u' mid q d] := by
  unfold qpubs
  rw [filter_q_filter_qr]
  rcases sendPublish_qr s mid t p q r d i dir u with h | ⟨c, u', h1, h2, h⟩
  · left; rw [h]; rfl
  · right; exact ⟨c, u', h1, h2, by rw [h]; rfl⟩

theorem sendPublish_pre (s : S) (mid t p q r d i dir u) : Pre s (s.sendPublish mid t p q r d i dir u).1 :=
  (sendPublish_same s mid t p q r d i dir u).2.2.2.2.2.2.2

theorem sendPublish_view (s : S) (mid t p q r d i dir u) : view (s.sendPublish mid t p q r d i dir u).1 = view s := by
  simp [view]

/-- the PUBLISH packet of a stored message can be encoded (for every protocol version on the same side of
the MQTT 5 divide as recorded in the view, and whatever the DUP flag) -/
def Enc (p5 : Prop) (m : OutMsg) : Prop :=
  ∀ proto dup, (proto = 5 ↔ p5) →
    ∃ b, encPublish proto m.mid m.topic m.payload m.qos m.retain dup none = .ok b

theorem sendPublish_q_some (s : S) (c : Nat) (hs : s.sock = some c) (mid t p q r d i dir u) (b : Bytes)
    (he : encPublish s.proto mid t p q r d none = .ok b) :
    qpubs s (s.sendPublish mid t p q r d i dir (some u)).1 = [.qPublish c u mid q d] := by
  unfold qpubs
  rw [filter_q_filter_qr, sendPublish_qr_some s c hs mid t p q r d i dir u b he]
  rfl

theorem sendPublish_q_err (s : S) (mid t p q r d i dir u) (e : Exc)
    (he : encPublish s.proto mid t p q r d none = .error e) :
    qpubs s (s.sendPublish mid t p q r d i dir u).1 = [] := by
  unfold sendPublish
  cases hs : s.sock <;> simp [he, qpubs, evsOf, isQPublish]

/-- a stored message sent on an open socket is handed to the connection, unless it cannot be encoded -/
theorem sendPublish_handed (s X : S) (hlog : X.log = s.log) (hproto : X.proto = s.proto) (hsock : X.sock = s.sock)
    (hs : s.sock.isNone = false) (m : OutMsg) (dir : Bool) :
    (qpubs s (X.sendPublish m.mid m.topic m.payload m.qos m.retain m.dup none dir (some m.info)).1 = [] ∧
        ¬ Enc (view s).p5 m) ∨
    ∃ c, qpubs s (X.sendPublish m.mid m.topic m.payload m.qos m.retain m.dup none dir (some m.info)).1 =
      [.qPublish c m.info m.mid m.qos m.dup] := by
  rw [← qpubs_congr_left hlog]
  cases hc : s.sock with
  | none => simp [hc] at hs
  | some c =>
    cases he : encPublish X.proto m.mid m.topic m.payload m.qos m.retain m.dup none with
    | ok b => exact Or.inr ⟨c, sendPublish_q_some X c (hsock.trans hc) _ _ _ _ _ _ _ _ _ b he⟩
    | error e =>
      refine Or.inl ⟨sendPublish_q_err X _ _ _ _ _ _ _ _ _ e he, fun henc => ?_⟩
      obtain ⟨b, hb⟩ := henc X.proto m.dup (by simp [view, hproto])
      rw [he] at hb; cases hb

/-! ### `_update_inflight` -/

def relState (m : OutMsg) : MS :=
  if m.qos = 1 then .waitPuback else if m.qos = 2 then .waitPubrec else m.state

/-- one queued message is released into the window -/
def Release (v v' : V) (L : List Ev) : Prop :=
  ∃ idx m, v.out[idx]? = some m ∧ m.state = .queued ∧ m.qos > 0 ∧ v.inflight < v.cfg.maxInflight ∧
    ((L = [] ∧ ¬ Enc v.p5 m) ∨ ∃ c, L = [.qPublish c m.info m.mid m.qos m.dup]) ∧
    v' = { v with out := v.out.set idx { m with state := relState m }, inflight := v.inflight + 1 }

theorem release_tr (s : S) (idx : Nat) (m : OutMsg) (h : s.out[idx]? = some m) (hq : m.qos > 0)
    (hst : m.state = .queued) (hlt : s.inflight < s.cfg.maxInflight) (hs : s.sock.isNone = false) (dir : Bool) :
    Tr Release s ({ s with inflight := s.inflight + 1, out := s.out.set idx { m with state := if m.qos = 1 then .waitPuback else if m.qos = 2 then .waitPubrec else m.state } }.sendPublish
      m.mid m.topic m.payload m.qos m.retain m.dup none dir (some m.info)).1 := by
  refine ⟨Pre.congr_left (s := s) rfl (sendPublish_pre ..), idx, m, h, hst, hq, hlt, ?_, ?_⟩
  · exact sendPublish_handed s { s with inflight := s.inflight + 1, out := s.out.set idx { m with state := if m.qos = 1 then .waitPuback else if m.qos = 2 then .waitPubrec else m.state } }
      rfl rfl rfl hs m dir
  · rw [sendPublish_view]; rfl

theorem updateInflight_tr (s : S) (fuel idx : Nat) : Tr (Star Release) s (s.updateInflight fuel idx).1 := by
  induction fuel generalizing s idx with
  | zero => unfold updateInflight; exact Tr.star_refl (FrQ.refl s)
  | succ n ih =>
    unfold updateInflight
    split
    · exact Tr.star_refl (FrQ.refl s)
    · rename_i m hm
      by_cases hs : s.sock.isNone = true
      · rw [if_pos hs]; exact Tr.star_refl (FrQ.refl s)
      rw [if_neg hs]
      have hs' : s.sock.isNone = false := Bool.eq_false_iff.2 hs
      by_cases hlt : s.inflight < s.cfg.maxInflight
      · rw [if_pos hlt]
        by_cases hc : m.qos > 0 ∧ m.state = .queued
        · rw [if_pos hc]
          have hrel := release_tr s idx m hm hc.1 hc.2 hlt hs' true
          simp only []
          generalize S.sendPublish _ _ _ _ _ _ _ _ _ _ = sp at hrel ⊢
          split
          · exact Tr.star_step hrel (Tr.star_refl (FrQ.refl _))
          · exact Tr.star_step hrel (ih _ _)
        · rw [if_neg hc]; exact ih _ _
      · rw [if_neg hlt]; exact Tr.star_refl (FrQ.refl s)


theorem noQueued_of_pre (l : List OutMsg) (idx : Nat) (hl : l.length ≤ idx)
    (hp : ∀ j x, j < idx → l[j]? = some x → x.state ≠ .queued) : ∀ x ∈ l, x.state ≠ .queued := by
  intro x hx
  obtain ⟨j, hj⟩ := List.mem_iff_getElem?.1 hx
  have : j < l.length := by
    rcases Nat.lt_or_ge j l.length with h | h
    · exact h
    · rw [List.getElem?_eq_none h] at hj; cases hj
  exact hp j x (by omega) hj

theorem updateInflight_cfg (s : S) (fuel idx : Nat) : (s.updateInflight fuel idx).1.cfg = s.cfg := by
  induction fuel generalizing s idx with
  | zero => unfold updateInflight; rfl
  | succ n ih =>
    unfold updateInflight
    simp only []
    repeat' split
    all_goals simp [ih]

theorem updateInflight_mono (s : S) (fuel idx : Nat) : s.inflight ≤ (s.updateInflight fuel idx).1.inflight := by
  induction fuel generalizing s idx with
  | zero => unfold updateInflight; exact Int.le_refl _
  | succ n ih =>
    unfold updateInflight
    split
    · exact Int.le_refl _
    · rename_i m hm
      by_cases hs : s.sock.isNone = true
      · rw [if_pos hs]; exact Int.le_refl _
      rw [if_neg hs]
      by_cases hlt : s.inflight < s.cfg.maxInflight
      · rw [if_pos hlt]
        by_cases hc : m.qos > 0 ∧ m.state = .queued
        · rw [if_pos hc]
          simp only []
          generalize hsp : S.sendPublish _ _ _ _ _ _ _ _ _ _ = sp
          have hinf : sp.1.inflight = s.inflight + 1 := by rw [← hsp]; simp
          split
          · show s.inflight ≤ sp.1.inflight
            omega
          · have := ih sp.1 (idx + 1)
            omega
        · rw [if_neg hc]; exact ih _ _
      · rw [if_neg hlt]; exact Int.le_refl _

theorem updateInflight_complete (s : S) (fuel idx : Nat)
    (hs : s.sock.isNone = false)
    (hq : ∀ x ∈ s.out, x.qos = 1 ∨ x.qos = 2)
    (hpre : ∀ j x, j < idx → s.out[j]? = some x → x.state ≠ .queued)
    (hfuel : s.out.length < fuel + idx) :
    (∀ x ∈ (s.updateInflight fuel idx).1.out, x.state ≠ .queued) ∨
    (s.updateInflight fuel idx).1.inflight ≥ s.cfg.maxInflight ∨
    (s.updateInflight fuel idx).1.inflight ≥ s.inflight + 1 := by
  induction fuel generalizing idx with
  | zero => unfold updateInflight; exact Or.inl (noQueued_of_pre s.out idx (by omega) hpre)
  | succ n ih =>
    unfold updateInflight
    split
    · rename_i hnone
      exact Or.inl (noQueued_of_pre s.out idx (by simpa using hnone) hpre)
    · rename_i m hm
      have hmmem : m ∈ s.out := List.mem_of_getElem? hm
      rw [if_neg (by rw [hs]; exact Bool.false_ne_true)]
      by_cases hlt : s.inflight < s.cfg.maxInflight
      · rw [if_pos hlt]
        by_cases hc : m.qos > 0 ∧ m.state = .queued
        · rw [if_pos hc]
          simp only []
          generalize hsp : S.sendPublish _ _ _ _ _ _ _ _ _ _ = sp
          have hinf : sp.1.inflight = s.inflight + 1 := by rw [← hsp]; simp
          right; right
          split
          · show sp.1.inflight ≥ s.inflight + 1
            omega
          · have := updateInflight_mono sp.1 n (idx + 1)
            omega
        · rw [if_neg hc]
          have hmq : m.state ≠ .queued := by
            intro h; apply hc; refine ⟨?_, h⟩; rcases hq m hmmem with h | h <;> omega
          refine ih (idx + 1) ?_ (by omega)
          intro j x hj hx
          rcases Nat.lt_or_ge j idx with h | h
          · exact hpre j x h hx
          · have : j = idx := by omega
            subst this; rw [hm] at hx; cases hx; exact hmq
      · rw [if_neg hlt]; right; left; simp at hlt ⊢; exact hlt


/-! ### retransmission after CONNACK -/

/-- one stored message is re-sent (no window test: F4) -/
def Resend (v v' : V) (L : List Ev) : Prop :=
  ∃ idx m st, v.out[idx]? = some m ∧
    ((m.state = .publish ∧ ((m.qos = 1 ∧ st = .waitPuback) ∨ (m.qos = 2 ∧ st = .waitPubrec)) ∧
        ((L = [] ∧ ¬ Enc v.p5 m) ∨ ∃ c, L = [.qPublish c m.info m.mid m.qos m.dup])) ∨
     (m.qos = 2 ∧ m.state = .resendPubrel ∧ st = .waitPubcomp ∧ L = [])) ∧
    v' = { v with out := v.out.set idx { m with state := st }, inflight := v.inflight + 1 }

theorem resend_pub_tr (s : S) (idx : Nat) (m : OutMsg) (st : MS) (h : s.out[idx]? = some m)
    (hst : m.state = .publish) (hq : (m.qos = 1 ∧ st = .waitPuback) ∨ (m.qos = 2 ∧ st = .waitPubrec))
    (hs : s.sock.isNone = false) (dir : Bool) :
    Tr Resend s ({ s with inflight := s.inflight + 1, out := s.out.set idx { m with state := st } }.sendPublish
      m.mid m.topic m.payload m.qos m.retain m.dup none dir (some m.info)).1 := by
  refine ⟨Pre.congr_left (s := s) rfl (sendPublish_pre ..), idx, m, st, h, Or.inl ⟨hst, hq, ?_⟩, ?_⟩
  · exact sendPublish_handed s { s with inflight := s.inflight + 1, out := s.out.set idx { m with state := st } }
      rfl rfl rfl hs m dir
  · rw [sendPublish_view]; rfl

theorem resend_rel_tr (s : S) (idx : Nat) (m : OutMsg) (h : s.out[idx]? = some m)
    (hq : m.qos = 2) (hst : m.state = .resendPubrel) (dir : Bool) :
    Tr Resend s ({ s with inflight := s.inflight + 1, out := s.out.set idx { m with state := .waitPubcomp } }.sendPubrel m.mid dir).1 := by
  have f := (sendPubrel_fr { s with inflight := s.inflight + 1, out := s.out.set idx { m with state := .waitPubcomp } } m.mid dir).frq
  refine ⟨Pre.congr_left (s := s) rfl f.1, idx, m, .waitPubcomp, h, Or.inr ⟨hq, hst, rfl, ?_⟩, ?_⟩
  · rw [← qpubs_congr_left (s := s) (X := { s with inflight := s.inflight + 1, out := s.out.set idx { m with state := .waitPubcomp } }) rfl]
    exact f.2.2
  · rw [f.2.1]; rfl

theorem connackResend_tr (s : S) (fuel idx : Nat) (rc : RC) : Tr (Star Resend) s (s.connackResend fuel idx rc).1 := by
  induction fuel generalizing s idx rc with
  | zero => unfold connackResend; exact Tr.star_refl (FrQ.refl s)
  | succ n ih =>
    unfold connackResend
    split
    · exact Tr.star_refl (FrQ.refl s)
    · rename_i m hm
      by_cases hs : s.sock.isNone = true
      · rw [if_pos hs]; exact Tr.star_refl (FrQ.refl s)
      rw [if_neg hs]
      have hs' : s.sock.isNone = false := Bool.eq_false_iff.2 hs
      by_cases hqd : m.state = .queued
      · rw [if_pos hqd]; exact Tr.star_refl (loopWrite_fr s).frq
      · rw [if_neg hqd]
        by_cases h1 : m.qos = 1 ∧ m.state = .publish
        · rw [if_pos h1]
          have hrel := resend_pub_tr s idx m .waitPuback hm h1.2 (Or.inl ⟨h1.1, rfl⟩) hs' false
          simp only []
          generalize S.sendPublish _ _ _ _ _ _ _ _ _ _ = sp at hrel ⊢
          split
          · exact Tr.star_step hrel (Tr.star_refl (FrQ.refl _))
          · exact Tr.star_step hrel (Tr.frame_left (loopWrite_fr _).frq (ih _ _ _))
        · rw [if_neg h1]
          by_cases h2 : m.qos = 2 ∧ m.state = .publish
          · rw [if_pos h2]
            have hrel := resend_pub_tr s idx m .waitPubrec hm h2.2 (Or.inr ⟨h2.1, rfl⟩) hs' false
            simp only []
            generalize S.sendPublish _ _ _ _ _ _ _ _ _ _ = sp at hrel ⊢
            split
            · exact Tr.star_step hrel (Tr.star_refl (FrQ.refl _))
            · exact Tr.star_step hrel (Tr.frame_left (loopWrite_fr _).frq (ih _ _ _))
          · rw [if_neg h2]
            by_cases h3 : m.qos = 2 ∧ m.state = .resendPubrel
            · rw [if_pos h3]
              have hrel := resend_rel_tr s idx m hm h3.1 h3.2 false
              simp only []
              generalize S.sendPubrel _ _ _ = sp at hrel ⊢
              split
              · exact Tr.star_step hrel (Tr.star_refl (FrQ.refl _))
              · exact Tr.star_step hrel (Tr.frame_left (loopWrite_fr _).frq (ih _ _ _))
            · rw [if_neg h3]
              simp only [Bool.false_eq_true, if_false]
              exact Tr.frame_left (loopWrite_fr _).frq (ih _ _ _)


/-! ### PUBACK / PUBCOMP -/

def Complete (v1 v' : V) : Prop :=
  (∀ x ∈ v'.out, x.state ≠ .queued) ∨ v'.inflight ≥ v1.cfg.maxInflight ∨ v'.inflight ≥ v1.inflight + 1

/-- the final acknowledgement of `mid`: removal, decrement, release of queued messages -/
def RAck (conf : Bool) (mid : Nat) (v v' : V) (L : List Ev) : Prop :=
  ∃ m v1, v.out.find? (fun x => decide (x.mid = mid)) = some m ∧
    v1 = { v with out := v.out.filter (fun x => decide (x.mid ≠ mid)),
                  inflight := if m.qos > 0 then v.inflight - 1 else v.inflight } ∧
    (conf = true → ∀ x ∈ v.out, x.mid = mid → x.state.counted = true) ∧
    Star Release v1 v' L ∧
    (v.cfg.maxInflight > 0 → m.qos > 0 → (∀ x ∈ v.out, x.qos = 1 ∨ x.qos = 2) → Complete v1 v')

theorem Tr.comp_left {R} {s s1 s2 : S} (hp : Pre s s1) (hq : qpubs s s1 = []) (h : Tr R s1 s2) :
    Pre s s2 ∧ R (view s1) (view s2) (qpubs s s2) :=
  ⟨hp.trans h.1, by rw [qpubs_trans hp h.1, hq, List.nil_append]; exact h.2⟩

theorem ack_finish (conf : Bool) (s : S) (mid : Nat) (m : OutMsg) (s4 s' : S)
    (hm : s.out.find? (fun x => decide (x.mid = mid)) = some m)
    (hconf : conf = true → ∀ x ∈ s.out, x.mid = mid → x.state.counted = true)
    (hp : Pre s s4) (hq0 : qpubs s s4 = []) (hs4 : s4.sock.isNone = false)
    (hv : view s4 = { view s with out := s.out.filter (fun x => decide (x.mid ≠ mid)),
                                  inflight := if m.qos > 0 then s.inflight - 1 else s.inflight })
    (h : (m.qos > 0 ∧ s.cfg.maxInflight > 0 ∧ s' = (s4.updateInflight (s4.out.length + 1) 0).1) ∨
         (¬ (m.qos > 0 ∧ s.cfg.maxInflight > 0) ∧ s' = s4)) :
    Tr (RAck conf mid) s s' := by
  rcases h with ⟨hq, hN, rfl⟩ | ⟨hn, rfl⟩
  · have hu := updateInflight_tr s4 (s4.out.length + 1) 0
    obtain ⟨hp2, hst⟩ := Tr.comp_left hp hq0 hu
    refine ⟨hp2, m, _, hm, hv, hconf, hst, ?_⟩
    intro _ _ hqos
    have hout : s4.out = s.out.filter (fun x => decide (x.mid ≠ mid)) := congrArg V.out hv
    have hc := updateInflight_complete s4 (s4.out.length + 1) 0 hs4 ?_ ?_ ?_
    · exact hc
    · intro x hx
      rw [hout] at hx
      exact hqos x (List.mem_filter.1 hx).1
    · intro j x hj; omega
    · omega
  · refine ⟨hp, m, _, hm, hv, hconf, ?_, ?_⟩
    · rw [hq0]; exact Star.refl _
    · intro hN hq; exact absurd ⟨hq, hN⟩ hn

theorem doOnPublish_tr (conf : Bool) (s : S) (mid : Nat) (hs : s.sock.isNone = false)
    (hconf : conf = true → ∀ x ∈ s.out, x.mid = mid → x.state.counted = true) :
    Tr (RAck conf mid) s (s.doOnPublish mid).1 ∨ FrQ s (s.doOnPublish mid).1 := by
  fun_cases doOnPublish s mid
  case case1 s0 hnone =>
    right
    refine Fr.frq ?_
    apply Fr.of0; simp only [Fr0, evsOf]; simp [isQR, s0]
  case case2 s0 m hm s1 s2 s3 hq s4 hN s' rc hx hrc =>
    left
    refine ack_finish conf s mid m s4 s' hm hconf ?_ ?_ ?_ ?_ (Or.inl ⟨hq, hN, by rw [hx]⟩)
    · simp [Pre, evsOf, s4, s3, s2, s1, s0, setInfo]
    · simp [qpubs, evsOf, s4, s3, s2, s1, s0, setInfo, isQPublish]
    · simpa [s4, s3, s2, s1, s0, setInfo] using hs
    · simp [view, s4, s3, s2, s1, s0, setInfo, hq]
  case case3 s0 m hm s1 s2 s3 hq s4 hN s' rc hx hrc =>
    left
    refine ack_finish conf s mid m s4 s' hm hconf ?_ ?_ ?_ ?_ (Or.inl ⟨hq, hN, by rw [hx]⟩)
    · simp [Pre, evsOf, s4, s3, s2, s1, s0, setInfo]
    · simp [qpubs, evsOf, s4, s3, s2, s1, s0, setInfo, isQPublish]
    · simpa [s4, s3, s2, s1, s0, setInfo] using hs
    · simp [view, s4, s3, s2, s1, s0, setInfo, hq]
  case case4 s0 m hm s1 s2 s3 hq s4 hN =>
    left
    refine ack_finish conf s mid m s4 s4 hm hconf ?_ ?_ ?_ ?_ (Or.inr ⟨fun h => hN h.2, rfl⟩)
    · simp [Pre, evsOf, s4, s3, s2, s1, s0, setInfo]
    · simp [qpubs, evsOf, s4, s3, s2, s1, s0, setInfo, isQPublish]
    · simpa [s4, s3, s2, s1, s0, setInfo] using hs
    · simp [view, s4, s3, s2, s1, s0, setInfo, hq]
  case case5 s0 m hm s1 s2 s3 hq =>
    left
    refine ack_finish conf s mid m s3 s3 hm hconf ?_ ?_ ?_ ?_ (Or.inr ⟨fun h => hq h.1, rfl⟩)
    · simp [Pre, evsOf, s3, s2, s1, s0, setInfo]
    · simp [qpubs, evsOf, s3, s2, s1, s0, setInfo, isQPublish]
    · simpa [s3, s2, s1, s0, setInfo] using hs
    · simp [view, s3, s2, s1, s0, setInfo, hq]


theorem handlePubackcomp_tr (conf : Bool) (s : S) (mid : Nat) (hs : s.sock.isNone = false)
    (hconf : conf = true → ∀ x ∈ s.out, x.mid = mid → x.state.counted = true) :
    Tr (RAck conf mid) s (s.handlePubackcomp mid).1 ∨ FrQ s (s.handlePubackcomp mid).1 := by
  unfold handlePubackcomp
  split
  · exact doOnPublish_tr conf s mid hs hconf
  · exact Or.inr (FrQ.refl s)

/-! ### PUBREC -/

def RPubrec (conf : Bool) (mid : Nat) (v v' : V) (L : List Ev) : Prop :=
  v' = { v with out := v.out.map (fun (m : OutMsg) => if m.mid = mid then { m with state := .waitPubcomp } else m) } ∧
  L = [] ∧
  (conf = true → ∀ x ∈ v.out, x.mid = mid → x.qos = 2 ∧ (x.state = .waitPubrec ∨ x.state = .waitPubcomp))

theorem FrQ.from_upd {s X s' : S} (hl : X.log = s.log) (f : FrQ X s') :
    Pre s s' ∧ view s' = view X ∧ qpubs s s' = [] :=
  ⟨Pre.congr_left hl f.1, f.2.1, by rw [← qpubs_congr_left hl]; exact f.2.2⟩

theorem handlePubrec_tr (conf : Bool) (s : S) (mid : Nat)
    (hconf : conf = true → ∀ x ∈ s.out, x.mid = mid → x.qos = 2 ∧ (x.state = .waitPubrec ∨ x.state = .waitPubcomp)) :
    Tr (RPubrec conf mid) s (s.handlePubrec mid).1 ∨ FrQ s (s.handlePubrec mid).1 := by
  fun_cases handlePubrec s mid
  case case1 h s1 =>
    left
    obtain ⟨hp, hv, hq⟩ := FrQ.from_upd (s := s) (X := s1) rfl (sendPubrel_fr s1 mid true).frq
    exact ⟨hp, by rw [hv]; rfl, hq, hconf⟩
  case case2 h => exact Or.inr (FrQ.refl s)

/-! ### reconnect -/

theorem Fr.refl (s : S) : Fr s s := by
  apply Fr.of0; simp [Fr0, evsOf]

theorem Fr.trans {s s1 s2 : S} (h1 : Fr s s1) (h2 : Fr s1 s2) : Fr s s2 := by
  obtain ⟨a0, a1, a2, a3, a4, a5, a6, a7, a8, a9⟩ := h1
  obtain ⟨b0, b1, b2, b3, b4, b5, b6, b7, b8, b9⟩ := h2
  have hp : Pre s s2 := Pre.trans (s1 := s1) a7 b7
  refine ⟨b0.trans a0, b1.trans a1, b2.trans a2, b3.trans a3, b4.trans a4, b5.trans a5, b6.trans a6, hp, ?_, ?_⟩
  · rw [evsOf_trans (s1 := s1) a7 b7, List.filter_append, a8, b8]; rfl
  · rw [evsOf_trans (s1 := s1) a7 b7, List.filter_append, a9, b9]; rfl

theorem Fr.ccs {s s' : S} (h : Fr s s') : s'.checkCleanSession = s.checkCleanSession := by
  obtain ⟨a0, a1, a2, a3, a4, a5, a6, a7, a8, a9⟩ := h
  simp [checkCleanSession, a1, a2, a5]

def RReset (cl : Bool) (v v' : V) (L : List Ev) : Prop :=
  v' = { v with out := v.out.map (resetOutMsg cl), inflight := 0 } ∧ L = []

theorem reset_tr (s : S) :
    Tr (RReset s.checkCleanSession) s (s.messagesReconnectResetOut.messagesReconnectResetIn.emit .onPreConnect) := by
  refine ⟨?_, ?_, ?_⟩
  · simp only [Pre, evsOf]; simp [messagesReconnectResetOut]
  · simp [view, messagesReconnectResetOut]
  · simp only [qpubs, evsOf]; simp [messagesReconnectResetOut, isQPublish]

theorem reconnect_tr (s : S) (ok : Bool) :
    Tr (RReset s.checkCleanSession) s (s.reconnect ok).1 ∨ FrQ s (s.reconnect ok).1 := by
  fun_cases reconnect s ok
  case case1 h => exact Or.inr (FrQ.refl s)
  case case2 h a1 a2 a3 a4 a5 a6 hok =>
    left
    have f1 : Fr s a1 := by apply Fr.of0; simp [Fr0, evsOf, a1]
    have f4 : Fr a3 a4 := by apply Fr.of0; simp [Fr0, evsOf, a4]
    have f : Fr s a4 := ((f1.trans (sockClose_fr a1 true)).trans (failQueuedQos0_fr a2 a2.outq)).trans f4
    rw [← f.ccs]
    exact Tr.frame_left f.frq (reset_tr a4)
  case case3 h a1 a2 a3 a4 a5 a6 hok c a7 a8 a9 s' rc hx =>
    left
    have f1 : Fr s a1 := by apply Fr.of0; simp [Fr0, evsOf, a1]
    have f4 : Fr a3 a4 := by apply Fr.of0; simp [Fr0, evsOf, a4]
    have f : Fr s a4 := ((f1.trans (sockClose_fr a1 true)).trans (failQueuedQos0_fr a2 a2.outq)).trans f4
    have f9 : Fr a6 a9 := by apply Fr.of0; simp only [Fr0, evsOf, a9, a8, a7]; split <;> (try split) <;> simp [isQR]
    have hs' : s' = a9.sendConnect.1 := by rw [hx]
    have g : Fr a6 s' := by rw [hs']; exact f9.trans (sendConnect_fr a9)
    rw [← f.ccs]
    exact Tr.frame_right (Tr.frame_left f.frq (reset_tr a4)) g.frq


theorem pcf_qos (proto : Nat) (topic : List UInt8) (qos : Nat) (pt : PayloadTag) (pl k : Nat)
    (h : publishCheckFull proto topic qos pt pl k = none) : qos ≤ 2 := by
  unfold publishCheckFull at h
  split at h
  · cases h
  · rename_i h2
    apply Decidable.byContradiction
    intro hgt
    have hgt' : (2 : Int) < (qos : Int) := by omega
    unfold publishCheck at h2
    simp only [Gen.pubQosLoCmp, Gen.pubQosHiCmp, Gen.pubQosLo, Gen.pubQosHi, Cmp.evalInt, gt_iff_lt, hgt', decide_true,
      Bool.or_true, if_true] at h2
    split at h2
    · cases h2
    · split at h2 <;> cases h2

/-! ### publish -/

def RAdd (v v' : V) (L : List Ev) : Prop :=
  v'.cfg = v.cfg ∧ v'.ninfos = v.ninfos + 1 ∧
  ( (v'.out = v.out ∧ v'.inflight = v.inflight ∧ (L = [] ∨ ∃ c mid, L = [.qPublish c v.ninfos mid 0 false])) ∨
    ∃ m : OutMsg, m.info = v.ninfos ∧ m.dup = false ∧ (m.qos = 1 ∨ m.qos = 2) ∧ (∀ x ∈ v.out, x.mid ≠ m.mid) ∧
      v'.out = v.out ++ [m] ∧
      (L = [] ∨ ∃ c, L = [.qPublish c m.info m.mid m.qos false]) ∧
      ( (m.state = (if m.qos = 1 then .waitPuback else .waitPubrec) ∧
            (v.cfg.maxInflight = 0 ∨ v.inflight < v.cfg.maxInflight) ∧ v'.inflight = v.inflight + 1) ∨
        (m.state = .publish ∧ v'.inflight = v.inflight) ∨
        (m.state = .queued ∧ v.cfg.maxInflight > 0 ∧ v.inflight ≥ v.cfg.maxInflight ∧ v'.inflight = v.inflight ∧ L = []) ) )

theorem enc_of_check (proto mid : Nat) (topic payload : Bytes) (qos : Nat) (retain : Bool)
    (hv : publishCheckFull proto topic qos .bytes payload.length (if proto = 5 then 1 else 0) = none)
    (hmid : mid ≤ 65535) (proto' : Nat) (dup : Bool) (hp' : proto' = 5 ↔ proto = 5) :
    ∃ b, encPublish proto' mid topic payload qos retain dup none = .ok b := by
  generalize hk : (if proto = 5 then 1 else 0) = k at hv
  unfold publishCheckFull at hv
  split at hv
  · cases hv
  · rename_i h2
    split at hv
    · cases hv
    · rename_i h3
      unfold publishCheck at h2
      split at h2
      · cases h2
      · split at h2
        · cases h2
        · rename_i h4
          have htl : topic.length ≤ 65535 := by
            simp only [topicInvalid, Gen.topicLenCmp, Gen.topicLenMax, Cmp.evalNat, Bool.or_eq_true, not_or] at h4
            simpa using h4.2
          simp only [Gen.pubRemLenCmp, Gen.pubRemLenMax, Cmp.evalNat, publishRemLen] at h3
          simp only [encPublish, packProps, remLenEncChecked, str16, packU16, Gen.rlGuardCmp, Gen.rlGuardMax, Cmp.evalNat,
            bind, Except.bind, pure, Except.pure]
          have e2 : ((topic.length : Nat) : Int) ≤ 65535 := by omega
          have e3 : ((mid : Nat) : Int) ≤ 65535 := by omega
          by_cases h5 : proto = 5
          · have h5' := hp'.2 h5
            have hk' : k = 1 := by rw [← hk]; simp [h5]
            subst hk'
            simp [h5'] at h3 ⊢
            rw [if_neg (by omega)]
            simp only [if_pos e2, if_pos e3]
            split <;> exact ⟨_, rfl⟩
          · have h5' : ¬ proto' = 5 := fun h => h5 (hp'.1 h)
            have hk' : k = 0 := by rw [← hk]; simp [h5]
            subst hk'
            simp [h5'] at h3 ⊢
            rw [if_neg (by omega)]
            simp only [if_pos e2, if_pos e3]
            split <;> exact ⟨_, rfl⟩

/-- what `publish()` guarantees in addition to `RAdd`: the stored message can be encoded, and if it is stored
in a waiting state its PUBLISH was handed to a connection -/
def RAddX (v v' : V) (L : List Ev) : Prop :=
  v'.p5 = v.p5 ∧ v'.mok = v.mok ∧
  (v.mok → ∀ m, v'.out = v.out ++ [m] →
    Enc v.p5 m ∧ ((m.state = .waitPuback ∨ m.state = .waitPubrec) → ∃ c, L = [.qPublish c m.info m.mid m.qos false]))

@[reducible] def RAdd2 (v v' : V) (L : List Ev) : Prop := RAdd v v' L ∧ RAddX v v' L

theorem pub_tail (s X Y : S) (hX : X.log = s.log) (mid t p q r i u) (hY : Y.log = (X.sendPublish mid t p q r false i true u).1.log)
    (j f rc m) :
    Pre s ((Y.setInfo j f).emit (.ret rc m)) ∧
    qpubs s ((Y.setInfo j f).emit (.ret rc m)) = qpubs X (X.sendPublish mid t p q r false i true u).1 ∧
    view ((Y.setInfo j f).emit (.ret rc m)) = view Y := by
  refine ⟨?_, ?_, ?_⟩
  · simp only [Pre, evsOf]; simp [setInfo, hY, hX]
  · simp only [qpubs, evsOf]; rw [← hX]; simp [setInfo, hY, isQPublish]
  · simp [view, setInfo]

theorem pub_tail0 (s Y : S) (hY : Y.log = s.log) (j f rc m) :
    Pre s ((Y.setInfo j f).emit (.ret rc m)) ∧
    qpubs s ((Y.setInfo j f).emit (.ret rc m)) = [] ∧
    view ((Y.setInfo j f).emit (.ret rc m)) = view Y := by
  refine ⟨?_, ?_, ?_⟩
  · simp only [Pre, evsOf]; simp [setInfo, hY]
  · simp only [qpubs, evsOf]; simp [setInfo, hY, isQPublish]
  · simp [view, setInfo]

theorem publish_tr (s : S) (qos : Nat) (topic payload : Bytes) (retain : Bool) :
    Tr RAdd2 s (s.publish qos topic payload retain) ∨ FrQ s (s.publish qos topic payload retain) := by
  fun_cases publish s qos topic payload retain
  case case1 => right; refine Fr.frq ?_; apply Fr.of0; simp only [Fr0, evsOf]; simp [isQR]
  case case2 => right; refine Fr.frq ?_; apply Fr.of0; simp only [Fr0, evsOf]; simp [isQR]
  case case3 hv mid s0 idx s1 hq s' rc hx =>
    left
    have hs' : s' = (s1.sendPublish mid topic payload 0 retain false (some idx) true (some idx)).1 := by rw [hx]
    obtain ⟨hp, hq', hv'⟩ := pub_tail s s1 s' rfl mid topic payload 0 retain (some idx) (some idx) (by rw [hs']) idx
      (fun x => { x with rc := rc }) rc (some mid)
    refine ⟨hp, ?_⟩
    rw [hq', hv']
    refine ⟨⟨by simp [view, hs', s1, s0], by simp [view, hs', s1, s0], Or.inl ⟨by simp [view, hs', s1, s0], by simp [view, hs', s1, s0], ?_⟩⟩,
      by simp [view, hs', s1, s0], by simp [view, hs', s1, s0, mid, midNext_le], fun _ m' hout => ?_⟩
    · rcases sendPublish_q s1 mid topic payload 0 retain false (some idx) true (some idx) with h | ⟨c, u, hu, _, h⟩
      · exact Or.inl h
      · right; cases hu; exact ⟨c, mid, by rw [h]; simp [view, idx, s0]⟩
    · simp [view, hs', s1, s0] at hout
  case case4 hv mid s0 idx s1 hq href =>
    left
    obtain ⟨hp, hq', hv'⟩ := pub_tail0 s s1 rfl idx (fun x => { x with rc := rcQueueSize }) rcQueueSize (some mid)
    refine ⟨hp, ?_⟩
    rw [hq', hv']
    refine ⟨⟨by simp [view, s1, s0], by simp [view, s1, s0], Or.inl ⟨by simp [view, s1, s0], by simp [view, s1, s0], Or.inl rfl⟩⟩,
      by simp [view, s1, s0], by simp [view, s1, s0, mid, midNext_le], fun _ m' hout => ?_⟩
    simp [view, s1, s0] at hout
  case case5 hv mid s0 idx s1 hq hnref href =>
    left
    obtain ⟨hp, hq', hv'⟩ := pub_tail0 s s1 rfl idx (fun x => { x with rc := rcQueueSize }) rcQueueSize (some mid)
    refine ⟨hp, ?_⟩
    rw [hq', hv']
    refine ⟨⟨by simp [view, s1, s0], by simp [view, s1, s0], Or.inl ⟨by simp [view, s1, s0], by simp [view, s1, s0], Or.inl rfl⟩⟩,
      by simp [view, s1, s0], by simp [view, s1, s0, mid, midNext_le], fun _ m' hout => ?_⟩
    simp [view, s1, s0] at hout
  case case6 hv mid s0 idx s1 hq hnref hfresh m0 hwin m s2 s3 rc hx s4 =>
    left
    have hq12 : qos = 1 ∨ qos = 2 := by have := pcf_qos _ _ _ _ _ _ hv; omega
    have hs3 : s3 = (s2.sendPublish mid topic payload qos retain false (some idx) true (some idx)).1 := by rw [hx]
    have hfr : ∀ x ∈ s.out, x.mid ≠ mid := by
      intro x hx' hmid; apply hfresh
      simp only [List.any_eq_true, decide_eq_true_eq]; exact ⟨x, hx', hmid⟩
    have hlog4 : s4.log = s3.log := by simp only [s4]; split <;> rfl
    obtain ⟨hp, hq', hv'⟩ := pub_tail s s2 s4 rfl mid topic payload qos retain (some idx) (some idx) (by rw [hlog4, hs3]) idx
      (fun x => { x with rc := rc }) rc (some mid)
    refine ⟨hp, ?_⟩
    rw [hq', hv']
    have hL : qpubs s2 (s2.sendPublish mid topic payload qos retain false (some idx) true (some idx)).1 = [] ∨
        ∃ c, qpubs s2 (s2.sendPublish mid topic payload qos retain false (some idx) true (some idx)).1 = [.qPublish c idx mid qos false] := by
      rcases sendPublish_q s2 mid topic payload qos retain false (some idx) true (some idx) with h | ⟨c, u, hu, _, h⟩
      · exact Or.inl h
      · right; cases hu; exact ⟨c, h⟩
    have hmid : (view s).mok → mid ≤ 65535 := fun h => by
      show midNext s.lastMid ≤ 65535
      rw [midNext_le]; exact h
    have henc : (view s).mok → ∀ st, Enc (view s).p5 { m with state := st } := fun h st proto' dup hp =>
      enc_of_check s.proto mid topic payload qos retain hv (hmid h) proto' dup hp
    by_cases hrc : rc = rcNoConn
    · have h4 : s4.cfg = s.cfg ∧ s4.infos.length = s.infos.length + 1 ∧ s4.inflight = s.inflight ∧
          s4.out = s.out ++ [{ m with state := .publish }] := by
        simp only [s4, if_pos hrc]
        refine ⟨by simp [hs3, s2, s1, s0], by simp [hs3, s2, s1, s0], by simp [hs3, s2, s1, s0], ?_⟩
        simp only [hs3, sendPublish_same, s2, List.map_append, List.map_cons, List.map_nil, m, m0, if_true]
        congr 1
        simp only [s1, s0]
        conv => rhs; rw [← List.map_id s.out]
        apply List.map_congr_left
        intro x hx'
        simp [hfr x hx']
      have h4p : s4.proto = s.proto ∧ s4.lastMid = mid := by
        simp only [s4, if_pos hrc]
        exact ⟨by simp [hs3, s2, s1, s0], by simp [hs3, s2, s1, s0]⟩
      refine ⟨⟨by simp [view, h4], by simp [view, h4], Or.inr ⟨{ m with state := .publish }, rfl, rfl, hq12, hfr, by simp [view, h4], hL, Or.inr (Or.inl ⟨rfl, by simp [view, h4]⟩)⟩⟩,
        by simp [view, h4p], by simp [view, h4p, mid, midNext_le], fun hmok m' hout => ?_⟩
      have hm' : { m with state := MS.publish } = m' := by
        have : s4.out = s.out ++ [m'] := hout
        rw [h4.2.2.2] at this
        simpa using this
      subst hm'
      exact ⟨henc hmok _, fun h => by simp at h⟩
    · have h4 : s4.cfg = s.cfg ∧ s4.infos.length = s.infos.length + 1 ∧ s4.inflight = s.inflight + 1 ∧
          s4.out = s.out ++ [m] := by
        simp only [s4, if_neg hrc]
        exact ⟨by simp [hs3, s2, s1, s0], by simp [hs3, s2, s1, s0], by simp [hs3, s2, s1, s0], by simp [hs3, s2, s1, s0]⟩
      have hwin' : s.cfg.maxInflight = 0 ∨ s.inflight < s.cfg.maxInflight := hwin
      have h4p : s4.proto = s.proto ∧ s4.lastMid = mid := by
        simp only [s4, if_neg hrc]
        exact ⟨by simp [hs3, s2, s1, s0], by simp [hs3, s2, s1, s0]⟩
      refine ⟨⟨by simp [view, h4], by simp [view, h4], Or.inr ⟨m, rfl, rfl, hq12, hfr, by simp [view, h4], hL, Or.inl ⟨?_, hwin', by simp [view, h4]⟩⟩⟩,
        by simp [view, h4p], by simp [view, h4p, mid, midNext_le], fun hmok m' hout => ?_⟩
      · simp only [m, m0]
      · have hm' : m = m' := by
          have : s4.out = s.out ++ [m'] := hout
          rw [h4.2.2.2] at this
          simpa using this
        subst hm'
        refine ⟨henc hmok m.state, fun _ => ?_⟩
        cases hsock : s2.sock with
        | none =>
          exfalso; apply hrc
          have := sendPublish_noconn s2 hsock mid topic payload qos retain false (some idx) true (some idx)
          rw [this] at hx
          exact (congrArg Prod.snd hx).symm
        | some c =>
          obtain ⟨b, hb⟩ := enc_of_check s.proto mid topic payload qos retain hv (hmid hmok) s2.proto false (by simp [s2, s1, s0])
          exact ⟨c, sendPublish_q_some s2 c hsock mid topic payload qos retain false (some idx) true idx b hb⟩
  case case7 hv mid s0 idx s1 hq hnref hfresh m0 hwin s2 =>
    left
    have hq12 : qos = 1 ∨ qos = 2 := by have := pcf_qos _ _ _ _ _ _ hv; omega
    have hfr : ∀ x ∈ s.out, x.mid ≠ mid := by
      intro x hx' hmid; apply hfresh
      simp only [List.any_eq_true, decide_eq_true_eq]; exact ⟨x, hx', hmid⟩
    obtain ⟨hp, hq', hv'⟩ := pub_tail0 s s2 rfl idx (fun x => { x with rc := rcSuccess }) rcSuccess (some mid)
    refine ⟨hp, ?_⟩
    rw [hq', hv']
    have hwin' : ¬ (s.cfg.maxInflight = 0 ∨ s.inflight < s.cfg.maxInflight) := hwin
    refine ⟨⟨by simp [view, s2, s1, s0], by simp [view, s2, s1, s0], Or.inr ⟨{ m0 with state := .queued }, rfl, rfl, hq12, hfr,
      by simp [view, s2, s1, s0], Or.inl rfl, Or.inr (Or.inr ⟨rfl, ?_, ?_, by simp [view, s2, s1, s0], rfl⟩)⟩⟩,
      by simp [view, s2, s1, s0], by simp [view, s2, s1, s0, mid, midNext_le], fun hmok m' hout => ?_⟩
    · simp only [view]; omega
    · simp only [view]; omega
    · have hm' : { m0 with state := MS.queued } = m' := by
        have : s2.out = s.out ++ [m'] := hout
        simpa [s2, s1, s0] using this
      subst hm'
      refine ⟨fun proto' dup hp => ?_, fun h => by simp at h⟩
      have hmid : mid ≤ 65535 := by
        show midNext s.lastMid ≤ 65535
        rw [midNext_le]; exact hmok
      exact enc_of_check s.proto mid topic payload qos retain hv hmid proto' dup hp


/-! ### whole steps -/

inductive StepR (conf cl rs : Bool) : V → V → List Ev → Prop
  | frame {v v' L} : RId v v' L → StepR conf cl rs v v' L
  | ack {v v' L} (mid : Nat) : RAck conf mid v v' L → StepR conf cl rs v v' L
  | pubrec {v v' L} (mid : Nat) : RPubrec conf mid v v' L → StepR conf cl rs v v' L
  | reset {v v' L} : RReset cl v v' L → StepR conf cl rs v v' L
  | resend {v v' L} : rs = true → Star Resend v v' L → StepR conf cl rs v v' L
  | add {v v' L} : RAdd v v' L → RAddX v v' L → StepR conf cl rs v v' L

theorem connect_tr (s : S) (ok : Bool) :
    Tr (RReset (if s.proto = 5 then { s with firstConnect := true } else s).checkCleanSession) s (s.connect ok).1 ∨
    FrQ s (s.connect ok).1 := by
  unfold connect
  simp only []
  generalize hX : (if s.proto = 5 then { s with firstConnect := true } else s) = X
  have f0 : FrQ s X := by
    rw [← hX]; split
    · exact ⟨by simp [Pre, evsOf], rfl, by simp [qpubs, evsOf]⟩
    · exact FrQ.refl s
  have f1 : FrQ s X.connectAsync := f0.trans (connectAsync_fr X).frq
  rw [← (connectAsync_fr X).ccs]
  rcases reconnect_tr X.connectAsync ok with h | h
  · exact Or.inl (Tr.frame_left f1 h)
  · exact Or.inr (f1.trans h)

def isConnack0 : RxPkt → Bool
  | .connack _ 0 => true
  | _ => false

theorem handleConnack_tr (s : S) (sp : Bool) (result : Nat) (ok : Bool) :
    (result = 0 → Tr (Star Resend) s (s.handleConnack sp result ok).1) ∧
    (result ≠ 0 → Tr (RReset s.checkCleanSession) s (s.handleConnack sp result ok).1 ∨ FrQ s (s.handleConnack sp result ok).1) := by
  fun_cases handleConnack s sp result ok
  case case1 => exact ⟨fun _ => Tr.star_refl (FrQ.refl s), fun _ => Or.inr (FrQ.refl s)⟩
  case case2 => exact ⟨fun _ => Tr.star_refl (FrQ.refl s), fun _ => Or.inr (FrQ.refl s)⟩
  case case3 pre hpre h41 hrof s1 s2 hx =>
    refine ⟨fun h => by omega, fun _ => ?_⟩
    have f : FrQ s s1 := ⟨by simp [Pre, evsOf, s1], by simp [view, s1, h41.1], by simp [qpubs, evsOf, s1]⟩
    have hc : s1.checkCleanSession = s.checkCleanSession := by
      simp [checkCleanSession, s1, h41.1]
    rw [← hc]
    have hs2 : s2 = (s1.reconnect ok).1 := by rw [hx]
    have g : FrQ s2 (s2.emit .onConnectFail) :=
      ⟨by simp [Pre, evsOf], rfl, by simp [qpubs, evsOf, isQPublish]⟩
    rw [hs2] at g ⊢
    rcases reconnect_tr s1 ok with h | h
    · exact Or.inl (Tr.frame_right (Tr.frame_left f h) g)
    · exact Or.inr ((f.trans h).trans g)
  case case4 pre hpre h41 hrof s1 hne =>
    refine ⟨fun h => by omega, fun _ => ?_⟩
    have f : FrQ s s1 := ⟨by simp [Pre, evsOf, s1], by simp [view, s1, h41.1], by simp [qpubs, evsOf, s1]⟩
    have hc : s1.checkCleanSession = s.checkCleanSession := by
      simp [checkCleanSession, s1, h41.1]
    rw [← hc]
    rcases reconnect_tr s1 ok with h | h
    · exact Or.inl (Tr.frame_left f h)
    · exact Or.inr (f.trans h)
  case case5 pre hpre h41 s1 shown s3 hres s' rc hx =>
    have f : FrQ s s3 := by
      refine ⟨?_, ?_, ?_⟩ <;> simp only [Pre, qpubs, evsOf, view, s3, s1] <;> split <;> simp [isQPublish]
    refine ⟨fun _ => ?_, fun h => absurd hres h⟩
    have hs' : s' = (s3.connackResend (s3.out.length + 1) 0 rcSuccess).1 := by rw [hx]
    rw [hs']
    exact Tr.frame_left f (connackResend_tr _ _ _ _)
  case case6 pre hpre h41 s1 shown s3 hres hr =>
    have f : FrQ s s3 := by
      refine ⟨?_, ?_, ?_⟩ <;> simp only [Pre, qpubs, evsOf, view, s3, s1] <;> split <;> simp [isQPublish]
    exact ⟨fun h => absurd h hres, fun _ => Or.inr f⟩
  case case7 pre hpre h41 s1 shown s3 hres hr =>
    have f : FrQ s s3 := by
      refine ⟨?_, ?_, ?_⟩ <;> simp only [Pre, qpubs, evsOf, view, s3, s1] <;> split <;> simp [isQPublish]
    exact ⟨fun h => absurd h hres, fun _ => Or.inr f⟩

theorem conf_puback (s : S) (mid : Nat) (h : s.conformingRx (.puback mid) = true) :
    ∀ x ∈ s.out, x.mid = mid → x.state.counted = true := by
  intro x hx hm
  simp only [conformingRx, List.all_eq_true] at h
  have := h x hx
  simp [hm] at this
  simp [this.2, MS.counted]

theorem conf_pubcomp (s : S) (mid : Nat) (h : s.conformingRx (.pubcomp mid) = true) :
    ∀ x ∈ s.out, x.mid = mid → x.state.counted = true := by
  intro x hx hm
  simp only [conformingRx, List.all_eq_true] at h
  have := h x hx
  simp [hm] at this
  simp [this.2, MS.counted]

theorem conf_pubrec (s : S) (mid : Nat) (h : s.conformingRx (.pubrec mid) = true) :
    ∀ x ∈ s.out, x.mid = mid → x.qos = 2 ∧ (x.state = .waitPubrec ∨ x.state = .waitPubcomp) := by
  intro x hx hm
  simp only [conformingRx, List.all_eq_true] at h
  have := h x hx
  simp [hm] at this
  exact this

theorem Fr.step {conf cl rs} {s s' : S} (h : Fr s s') : Tr (StepR conf cl rs) s s' :=
  Tr.mono (fun _ _ _ h => StepR.frame h) h.frq.tr

theorem FrQ.step {conf cl rs} {s s' : S} (h : FrQ s s') : Tr (StepR conf cl rs) s s' :=
  Tr.mono (fun _ _ _ h => StepR.frame h) h.tr

theorem packetHandle_tr (s : S) (p : RxPkt) (ok : Bool) (hs : s.sock.isNone = false) :
    Tr (StepR (s.conformingRx p) s.checkCleanSession (isConnack0 p)) s (s.packetHandle p ok).1 := by
  cases p with
  | connack sp rc =>
    simp only [packetHandle]
    obtain ⟨h0, h1⟩ := handleConnack_tr s sp rc ok
    by_cases hrc : rc = 0
    · subst hrc
      exact Tr.mono (fun _ _ _ h => StepR.resend rfl h) (h0 rfl)
    · rcases h1 hrc with h | h
      · exact Tr.mono (fun _ _ _ h => StepR.reset h) h
      · exact h.step
  | publish m => simp only [packetHandle]; exact (handlePublish_fr s m).step
  | puback mid =>
    simp only [packetHandle]
    rcases handlePubackcomp_tr (s.conformingRx (.puback mid)) s mid hs (conf_puback s mid) with h | h
    · exact Tr.mono (fun _ _ _ h => StepR.ack mid h) h
    · exact h.step
  | pubcomp mid =>
    simp only [packetHandle]
    rcases handlePubackcomp_tr (s.conformingRx (.pubcomp mid)) s mid hs (conf_pubcomp s mid) with h | h
    · exact Tr.mono (fun _ _ _ h => StepR.ack mid h) h
    · exact h.step
  | pubrec mid =>
    simp only [packetHandle]
    rcases handlePubrec_tr (s.conformingRx (.pubrec mid)) s mid (conf_pubrec s mid) with h | h
    · exact Tr.mono (fun _ _ _ h => StepR.pubrec mid h) h
    · exact h.step
  | pubrel mid => simp only [packetHandle]; exact (handlePubrel_fr s mid).step
  | suback mid code => simp only [packetHandle]; exact Fr.step (by apply Fr.of0; simp [Fr0, evsOf, isQR])
  | unsuback mid => simp only [packetHandle]; exact Fr.step (by apply Fr.of0; simp [Fr0, evsOf, isQR])
  | pingreq => simp only [packetHandle]; exact (sendSimple_fr s _).step
  | pingresp => simp only [packetHandle]; exact Fr.step (by apply Fr.of0; simp [Fr0, evsOf])
  | disconnect r =>
    simp only [packetHandle]
    split
    · exact (handleDisconnect_fr s r).step
    · exact (Fr.refl s).step
  | badcmd => simp only [packetHandle]; exact (Fr.refl s).step
  | malformed => simp only [packetHandle]; exact (Fr.refl s).step


def itemConf (s : S) : RxItem → Bool
  | .pkt p => s.conformingRx p
  | _ => true

def itemRs : RxItem → Bool
  | .pkt p => isConnack0 p
  | _ => false

theorem loopRead_tr (s : S) (item : RxItem) (ok : Bool) :
    Tr (StepR (itemConf s item) s.checkCleanSession (itemRs item)) s (s.loopRead item ok).1 := by
  fun_cases loopRead s item ok
  case case1 => exact (Fr.refl s).step
  case case2 => exact (Fr.refl s).step
  case case3 c hc s' rc hx =>
    have : s' = (s.loopRcHandle rcConnLost).1 := by rw [hx]
    rw [this]; exact (loopRcHandle_fr s _).step
  case case4 c hc s' rc hx =>
    have : s' = (s.loopRcHandle rcConnLost).1 := by rw [hx]
    rw [this]; exact (loopRcHandle_fr s _).step
  case case5 c hc p s' n hx =>
    have : s' = (s.packetHandle p ok).1 := by rw [hx]
    rw [this]; exact packetHandle_tr s p ok (by simp [hc])
  case case6 c hc p s1 rc1 hx s2 hrc s' rc hx2 =>
    have h1 : s1 = (s.packetHandle p ok).1 := by rw [hx]
    have h2 : s' = (s2.loopRcHandle rc1).1 := by rw [hx2]
    have f : Fr s1 s2 := by apply Fr.of0; simp [Fr0, evsOf, s2]
    have g : Fr s1 s' := by rw [h2]; exact f.trans (loopRcHandle_fr s2 rc1)
    exact Tr.frame_right (h1 ▸ packetHandle_tr s p ok (by simp [hc])) g.frq
  case case7 c hc p s1 s2 hx hrc =>
    have h1 : s1 = (s.packetHandle p ok).1 := by rw [hx]
    have f : Fr s1 s2 := by apply Fr.of0; simp [Fr0, evsOf, s2]
    exact Tr.frame_right (h1 ▸ packetHandle_tr s p ok (by simp [hc])) f.frq
  case case8 c hc p s1 rc1 hx s2 h1 h2 h3 =>
    have h1 : s1 = (s.packetHandle p ok).1 := by rw [hx]
    have f : Fr s1 s2 := by apply Fr.of0; simp [Fr0, evsOf, s2]
    exact Tr.frame_right (h1 ▸ packetHandle_tr s p ok (by simp [hc])) f.frq
  case case9 c hc p s1 rc1 hx s2 h1 h2 c' h3 =>
    have h1 : s1 = (s.packetHandle p ok).1 := by rw [hx]
    have f : Fr s1 s2 := by apply Fr.of0; simp [Fr0, evsOf, s2]
    exact Tr.frame_right (h1 ▸ packetHandle_tr s p ok (by simp [hc])) f.frq


syntax "frq_tac" : tactic
macro_rules
  | `(tactic| frq_tac) =>
    `(tactic| (refine ⟨?_, ?_, ?_⟩ <;> simp only [Pre, qpubs, evsOf, view] <;> (repeat' split) <;> simp [isQPublish, midNext_le]))

theorem subscribe_frq (s : S) (t q) : FrQ s (s.subscribe t q) := by
  unfold subscribe; frq_tac

theorem unsubscribe_frq (s : S) (t) : FrQ s (s.unsubscribe t) := by
  unfold unsubscribe; frq_tac

theorem disconnect_frq (s : S) : FrQ s s.disconnect := by
  unfold disconnect; frq_tac

theorem ack_frq (s : S) (m q) : FrQ s (s.ack m q) := by
  unfold ack sendPuback sendPubcomp; frq_tac

theorem emit_hres_frq (s : S) (r : HRes) : FrQ s (s.emit (hresEv r)) := by
  cases r <;> (refine ⟨?_, ?_, ?_⟩ <;> simp [Pre, qpubs, evsOf, view, hresEv, isQPublish])

theorem emit_ret_frq (s : S) (rc m) : FrQ s (s.emit (.ret rc m)) := by
  refine ⟨?_, ?_, ?_⟩ <;> simp [Pre, qpubs, evsOf, view, isQPublish]

/-- the value `_check_clean_session()` has when `op` resets the session -/
def cleanAt (s : S) : Op → Bool
  | .connect _ => (if s.proto = 5 then { s with firstConnect := true } else s).checkCleanSession
  | _ => s.checkCleanSession

def opRs : Op → Bool
  | .rx item _ => itemRs item
  | _ => false

theorem opConforming_rx (s : S) (item : RxItem) (ok : Bool) : opConforming s (.rx item ok) = itemConf s item := by
  cases item <;> rfl

theorem step_tr (s : S) (op : Op) :
    Tr (StepR (opConforming s op) (cleanAt s op) (opRs op)) s (s.step op) := by
  cases op with
  | connect ok =>
    simp only [S.step, cleanAt]
    refine Tr.frame_right ?_ (emit_hres_frq _ _)
    rcases connect_tr s ok with h | h
    · exact Tr.mono (fun _ _ _ h => StepR.reset h) h
    · exact h.step
  | reconnect ok =>
    simp only [S.step, cleanAt]
    refine Tr.frame_right ?_ (emit_hres_frq _ _)
    rcases reconnect_tr s ok with h | h
    · exact Tr.mono (fun _ _ _ h => StepR.reset h) h
    · exact h.step
  | connectAsync => simp only [S.step]; exact (connectAsync_fr s).step
  | rx item ok =>
    simp only [S.step, cleanAt, opConforming_rx, opRs]
    exact Tr.frame_right (loopRead_tr s item ok) (emit_hres_frq _ _)
  | publish q t p r =>
    simp only [S.step]
    rcases publish_tr s q t p r with h | h
    · exact Tr.mono (fun _ _ _ h => StepR.add h.1 h.2) h
    · exact h.step
  | subscribe t q => simp only [S.step]; exact (subscribe_frq s t q).step
  | unsubscribe t => simp only [S.step]; exact (unsubscribe_frq s t).step
  | disconnect => simp only [S.step]; exact (disconnect_frq s).step
  | loopWrite => simp only [S.step]; exact ((loopWrite_fr s).frq.trans (emit_ret_frq _ _ _)).step
  | loopMisc => simp only [S.step]; exact ((loopMisc_fr s).frq.trans (emit_ret_frq _ _ _)).step
  | tick ms => simp only [S.step]; exact FrQ.step ⟨by simp [Pre, evsOf], rfl, by simp [qpubs, evsOf]⟩
  | send sc => simp only [S.step]; exact FrQ.step ⟨by simp [Pre, evsOf], rfl, by simp [qpubs, evsOf]⟩
  | ack m q => simp only [S.step]; exact (ack_frq s m q).step
  | raiseOnMessage n => simp only [S.step]; exact FrQ.step ⟨by simp [Pre, evsOf], rfl, by simp [qpubs, evsOf]⟩

end Paho.FlowLemmas
