/-
Refinement: every handler of the session model is a finite path of the atomic actions of
`SessionAct.lean`.
-/
import PahoProofs.Lemmas.SessionAct
set_option linter.unusedSimpArgs false
set_option linter.unusedVariables false
namespace Paho
namespace SessAct
open S

/-! ### encoders -/

theorem b8_ne16 (n : Nat) (h : n.testBit 5 = true) : b8 n ≠ 0x10 := by
  intro he
  have h1 : (b8 n).toNat = 16 := by rw [he]; rfl
  simp only [b8, UInt8.toNat_ofNat'] at h1
  have h2 : (n % 2 ^ 8).testBit 5 = true := by
    rw [Nat.testBit_mod_two_pow]; simp [h]
  have : n % 2 ^ 8 = 16 := h1
  rw [this] at h2
  exact absurd h2 (by decide)

theorem encPublish_fresh {proto mid : Nat} {topic payload : Bytes} {qos : Nat} {retain dup : Bool} {bytes : Bytes}
    (h : encPublish proto mid topic payload qos retain dup none = .ok bytes) :
    bytes ≠ [] ∧ bytes.head? ≠ some 0x10 := by
  simp only [encPublish, bind, Except.bind, pure, Except.pure] at h
  repeat (split at h <;> try contradiction)
  all_goals
    injection h with h; subst h
    refine ⟨by simp, ?_⟩
    simp only [List.cons_append, List.head?_cons, ne_eq, Option.some.injEq]
    apply b8_ne16
    have h48 : Nat.testBit 48 5 = true := by decide
    simp [Nat.testBit_or, h48]

theorem encCmdMid_fresh {command : Nat} {mid : Int} {bytes : Bytes} (hc : b8 command ≠ 0x10)
    (h : encCmdMid command mid false = .ok bytes) : bytes ≠ [] ∧ bytes.head? ≠ some 0x10 := by
  simp only [encCmdMid, bind, Except.bind, pure, Except.pure] at h
  repeat (split at h <;> try contradiction)
  all_goals
    injection h with h; subst h
    simp [hc]

theorem encSimple_fresh {command : Nat} (hc : b8 command ≠ 0x10) :
    encSimple command ≠ [] ∧ (encSimple command).head? ≠ some 0x10 := by
  simp [encSimple, hc]

theorem encSubscribe_fresh {proto mid : Nat} {topics : List (Bytes × Nat)} {bytes : Bytes}
    (h : encSubscribe proto mid topics none = .ok bytes) : bytes ≠ [] ∧ bytes.head? ≠ some 0x10 := by
  simp only [encSubscribe, bind, Except.bind, pure, Except.pure] at h
  repeat (split at h <;> try contradiction)
  all_goals
    injection h with h; subst h
    refine ⟨by simp, ?_⟩
    simp only [List.cons_append, List.head?_cons, ne_eq, Option.some.injEq]
    decide

theorem encUnsubscribe_fresh {proto mid : Nat} {topics : List Bytes} {bytes : Bytes}
    (h : encUnsubscribe proto mid topics none = .ok bytes) : bytes ≠ [] ∧ bytes.head? ≠ some 0x10 := by
  simp only [encUnsubscribe, bind, Except.bind, pure, Except.pure] at h
  repeat (split at h <;> try contradiction)
  all_goals
    injection h with h; subst h
    refine ⟨by simp, ?_⟩
    simp only [List.cons_append, List.head?_cons, ne_eq, Option.some.injEq]
    decide

theorem encDisconnect_fresh {proto : Nat} {bytes : Bytes}
    (h : encDisconnect proto none none = .ok bytes) : bytes ≠ [] ∧ bytes.head? ≠ some 0x10 := by
  simp only [encDisconnect, bind, Except.bind, pure, Except.pure] at h
  repeat (split at h <;> try contradiction)
  all_goals
    injection h with h; subst h
    refine ⟨by simp, ?_⟩
    simp only [List.cons_append, List.head?_cons, ne_eq, Option.some.injEq]
    decide


def connArgs (s : S) : ConnectArgs :=
    { proto := s.proto
      bridge := false
      cleanFlag := s.connectCleanFlag
      keepalive := (s.cfg.keepalive : Int)
      clientId := s.cfg.clientId
      will := none
      username := none
      password := none
      props := none }

theorem encConnect_ok_head {s : S} {bytes : Bytes} (h : encConnect (connArgs s) = .ok bytes) :
    bytes.head? = some 0x10 := by
  simp only [encConnect, connArgs, bind, Except.bind, pure, Except.pure] at h
  repeat (split at h <;> try contradiction)
  all_goals
    injection h with h; subst h
    simp [b8]

theorem encConnect_err {s : S} {e : Exc} (h : encConnect (connArgs s) = .error e) : cfgOk s.cfg = false := by
  cases hok : cfgOk s.cfg with
  | false => rfl
  | true =>
    exfalso
    simp only [cfgOk, Bool.and_eq_true, decide_eq_true_eq] at hok
    obtain ⟨hk, hl⟩ := hok
    have hpp : ∃ pp, packProps s.proto none = .ok pp ∧ pp.length ≤ 1 := by
      unfold packProps; split <;> simp
    obtain ⟨pp, hpp, hppl⟩ := hpp
    have hka : ∃ ka, packU16 (s.cfg.keepalive : Int) = .ok ka := by
      unfold packU16; rw [if_pos ⟨by omega, by omega⟩]; exact ⟨_, rfl⟩
    obtain ⟨ka, hka⟩ := hka
    have hcid : ∃ cid, str16 s.cfg.clientId = .ok cid := by
      unfold str16 packU16; simp only [bind, Except.bind]; rw [if_pos ⟨by omega, by omega⟩]; exact ⟨_, rfl⟩
    obtain ⟨cid, hcid⟩ := hcid
    have hrl : ∀ n e, remLenEncChecked n = .error e → n > 100000 := by
      intro n e hn
      unfold remLenEncChecked at hn
      split at hn
      · rename_i hg
        simp [Gen.rlGuardCmp, Gen.rlGuardMax, Cmp.evalNat] at hg; omega
      · contradiction
    simp only [encConnect, connArgs, bind, Except.bind, pure, Except.pure, hpp, hka, hcid] at h
    split at h
    · rename_i h1
      have h2 := hrl _ _ h1
      by_cases hp : 4 ≤ s.proto <;> simp [hp] at h2 <;> omega
    · contradiction


/-! ### primitives -/

theorem view_emit (s : S) (e : Ev) : view (s.emit e) = vEmit (view s) [e] := rfl

theorem view_regW (s : S) : view s.callSocketRegisterWrite = vRegW (view s) := by
  unfold callSocketRegisterWrite vRegW
  cases h : s.sock <;> simp [h]
  split <;> simp [*]
  split <;> simp [emit]

theorem view_unregW (s : S) : view (s.callSocketUnregisterWrite none) = vUnregW (view s) := by
  unfold callSocketUnregisterWrite vUnregW
  cases h : s.sock <;> simp [h]
  split <;> simp [*]
  split <;> simp [emit]

theorem view_sockClose (s : S) (r : Bool) : view (s.sockClose r) = vSockClose (view s) r := by
  unfold sockClose vSockClose
  cases h : s.sock <;> simp [h]
  unfold callSocketUnregisterWrite closeEvs
  cases h1 : s.regWrite <;> cases h2 : s.cfg.ext <;> cases h3 : s.inCb <;> simp [emit, h1, h2, h3]


theorem nextSend_fst (s : S) (n : Nat) : ∃ sc, (s.nextSend n).1 = { s with sendScript := sc } := by
  unfold nextSend
  cases h : s.sendScript with
  | nil => exact ⟨[], by simp [← h]⟩
  | cons d r => exact ⟨r, by simp⟩

theorem packetWrite_tr : ∀ (fuel : Nat) (s : S), s.sock.isSome = true →
    TrN (view s) (view (packetWrite fuel s).1) := by
  intro fuel
  induction fuel with
  | zero =>
    intro s _
    simp only [packetWrite]
    exact Path.single (Act.emit _ [.fuelOut] (by simp [neutral])) rfl
  | succ fuel ih =>
    intro s hs
    obtain ⟨c, hc⟩ := Option.isSome_iff_exists.mp hs
    unfold packetWrite
    cases hq : s.outq with
    | nil => exact Path.refl _
    | cons pkt rest =>
      simp only
      obtain ⟨sc, hsc⟩ := nextSend_fst { s with outq := rest } ((List.drop pkt.pos pkt.bytes).length)
      rcases hns : nextSend { s with outq := rest } ((List.drop pkt.pos pkt.bytes).length) with ⟨s1, d⟩
      rw [hns] at hsc
      simp only at hsc
      subst hsc
      simp only
      cases d with
      | block =>
        simp only
        apply Path.of_eq_act (k := .quiet) (Act.regW (view s)) rfl
        cases hreg : s.regWrite <;> cases hext : s.cfg.ext <;>
          simp [callSocketRegisterWrite, vRegW, view, emit, hq, hc, hreg, hext]
      | error =>
        exact Path.of_eq (by simp [view, hq])
      | accept k =>
        clear hns
        have hle : min k (List.drop pkt.pos pkt.bytes).length ≤ pkt.bytes.length - pkt.pos := by
          rw [List.length_drop]; exact Nat.min_le_right _ _
        simp only [hc]
        generalize min k (List.drop pkt.pos pkt.bytes).length = k' at *
        split
        · rename_i hk
          split
          · rename_i hfull
            split
            · rename_i hdisc
              have hn30 : ¬ (pkt.command &&& 0xF0 = 0x30 ∧ pkt.qos = 0) := by
                intro h; rw [h.1] at hdisc; exact absurd hdisc (by decide)
              apply Path.of_eq_act (k := .loud) (Act.writeDisc (view s) pkt rest k' hs hq hk hfull hdisc) rfl
              simp only [hn30, if_false]
              cases hreg : s.regWrite <;> cases hext : s.cfg.ext <;> cases hcb : s.inCb <;>
                by_cases hcs : s.cstate = .disconnecting <;>
                simp [view, vWriteDisc, vWrite, vSockClose, closeEvs, sockClose, callSocketUnregisterWrite, doOnDisconnect, emit, hc, hreg, hext, hcb, hcs, hfull, rcSuccess]
            · rename_i hdisc
              refine Path.trans ?_ (ih _ ?_)
              · refine Path.trans (b := vWrite (view s) pkt rest k') (Path.single (Act.write (view s) pkt rest k' hq hk (by omega)) rfl) ?_
                split
                · split
                  · refine Path.neutral rfl ?_ ?_ ?_
                    rotate_left
                    · simp only [view, vWrite, vEmit, emit, setInfo, hc, hfull, if_true, List.append_assoc]
                      rfl
                    · simp [neutral]
                  · refine Path.neutral rfl ?_ ?_ ?_
                    rotate_left
                    · simp only [view, vWrite, vEmit, emit, setInfo, hc, hfull, if_true, List.append_assoc]
                      rfl
                    · simp [neutral]
                · exact Path.of_eq (by simp [view, vWrite, emit, hc, hfull])
              · split
                · split <;> simp [emit, setInfo, hc]
                · simp [emit, hc]
          · rename_i hfull
            refine Path.trans ?_ (ih _ ?_)
            · refine Path.of_eq_act (k := .quiet) (Act.write (view s) pkt rest k' hq hk (by omega)) rfl ?_
              simp [view, vWrite, emit, hc, hfull]
            · simp [emit, hc]
        · exact Path.of_eq (by simp [view, hq, hc])



theorem loopRcHandle_tr (s : S) (rc : RC) (hrc : rc > 0) : TrN (view s) (view (s.loopRcHandle rc).1) := by
  unfold loopRcHandle
  have hrc' : (rc : Int) > 0 := hrc
  have hne : rc ≠ 0 := by intro h; rw [h] at hrc'; exact absurd hrc' (by decide)
  simp only [hne, ne_eq, not_false_eq_true, if_true]
  cases hc : s.sock with
  | none => exact Path.refl _
  | some c =>
    have hs : (view s).sock.isSome = true := by simp [view, hc]
    have hn : rc.toNat ≠ 0 := by
      intro h; exact absurd hrc' (Int.not_lt.mpr (Int.toNat_eq_zero.mp h))
    simp only [Option.isNone_some, Bool.false_eq_true, if_false]
    apply Path.of_eq_act (k := .loud) (Act.closeLost (view s) rc.toNat hs hn) rfl
    cases hreg : s.regWrite <;> cases hext : s.cfg.ext <;> cases hcb : s.inCb <;>
      by_cases hcs : s.cstate = .disconnecting <;> by_cases hcs2 : s.cstate = .disconnected <;>
      simp [view, vCloseLost, vSockClose, closeEvs, sockClose, callSocketUnregisterWrite, doOnDisconnect,
        disconnectingOrDone, dOD, emit, hc, hreg, hext, hcb, hcs, hcs2, rcSuccess]

theorem loopWrite_tr (s : S) : TrN (view s) (view s.loopWrite.1) := by
  unfold loopWrite
  cases hc : s.sock with
  | none => exact Path.refl _
  | some c =>
    simp only
    have h1 := packetWrite_tr s.writeFuel s (by simp [hc])
    rcases hpw : s.packetWrite s.writeFuel with ⟨s1, rc⟩
    rw [hpw] at h1
    simp only at h1 ⊢
    have h2 : ∀ (s2 : S), TrN (view s2) (view (if s2.wantWrite = true then s2.callSocketRegisterWrite else s2.callSocketUnregisterWrite none)) := by
      intro s2
      split
      · rw [view_regW]; exact Path.single (Act.regW _) rfl
      · rw [view_unregW]; exact Path.single (Act.unregW _) rfl
    split
    · exact h1.trans (h2 _)
    · split
      · rename_i hpos
        have h3 := loopRcHandle_tr s1 rc hpos
        rcases hl : s1.loopRcHandle rc with ⟨s3, rc3⟩
        rw [hl] at h3
        exact (h1.trans h3).trans (h2 _)
      · exact h1.trans (h2 _)

/-- the first half of `_packet_queue` -/
def enqS (s : S) (pkt : OutPkt) : S :=
  match ({ s with outq := s.outq ++ [pkt] } : S).sock with
  | some c => ({ s with outq := s.outq ++ [pkt] } : S).emit (.queued c pkt.bytes)
  | none => { s with outq := s.outq ++ [pkt] }

theorem packetQueue_eq (s : S) (pkt : OutPkt) (direct : Bool) :
    s.packetQueue pkt direct =
      if !(enqS s pkt).cfg.ext ∧ direct ∧ !(enqS s pkt).inCb then (enqS s pkt).loopWrite
      else ((enqS s pkt).callSocketRegisterWrite, rcSuccess) := rfl

theorem view_enqS (s : S) (pkt : OutPkt) : view (enqS s pkt) = vEnq (view s) pkt := by
  unfold enqS
  cases hc : s.sock <;> simp [view, vEnq, emit, hc]

theorem packetQueue_tr (s : S) (pkt : OutPkt) (direct : Bool) (hf : Fresh pkt)
    (hd : isDiscCmd pkt.command → s.discCalled = true) : TrN (view s) (view (s.packetQueue pkt direct).1) := by
  have h1 : TrN (view s) (view (enqS s pkt)) :=
    Path.of_eq_act (k := .quiet) (Act.enq (view s) pkt hf hd) rfl (view_enqS s pkt)
  rw [packetQueue_eq]
  split
  · exact h1.trans (loopWrite_tr _)
  · simp only [view_regW]
    exact h1.trans (Path.single (Act.regW _) rfl)


theorem emit_tr {P : Kind → Bool} (hP : P .quiet = true) (s : S) (e : Ev) (hn : neutral e = true) :
    Path P (view s) (view (s.emit e)) :=
  Path.neutral hP [e] rfl (by simpa using hn)

theorem not_disc_of_ne {c : Nat} (h : c &&& 0xF0 ≠ 0xE0) : ¬ isDiscCmd c := h

theorem fresh_mk {command mid qos : Nat} {bytes : Bytes} {info : Option Nat}
    (h : bytes ≠ [] ∧ bytes.head? ≠ some 0x10) : Fresh (mkPkt command mid qos bytes info) :=
  ⟨rfl, h.1, h.2⟩

theorem sendPublish_tr (s : S) (mid : Nat) (topic payload : Bytes) (qos : Nat) (retain dup : Bool)
    (info : Option Nat) (direct : Bool) (uid : Option Nat) :
    TrN (view s) (view (s.sendPublish mid topic payload qos retain dup info direct uid).1) := by
  unfold sendPublish
  cases hc : s.sock with
  | none => exact Path.refl _
  | some c =>
    simp only
    split
    · exact emit_tr rfl _ _ rfl
    · rename_i bytes henc
      refine Path.trans (b := view (match uid with | some u => s.emit (.qPublish c u mid qos dup) | none => s)) ?_ ?_
      · cases uid with
        | none => exact Path.refl _
        | some u => exact emit_tr rfl _ _ rfl
      · apply packetQueue_tr _ _ _ (fresh_mk (encPublish_fresh henc))
        intro h; exact absurd (show isDiscCmd 0x30 from h) (by decide)

theorem sendCmdMid_tr (s : S) (command mid : Nat) (direct : Bool) (hc : b8 command ≠ 0x10)
    (hd : ¬ isDiscCmd command) : TrN (view s) (view (s.sendCmdMid command mid direct).1) := by
  unfold sendCmdMid
  split
  · exact emit_tr rfl _ _ rfl
  · rename_i bytes henc
    exact packetQueue_tr _ _ _ (fresh_mk (encCmdMid_fresh hc henc)) (fun h => absurd h hd)

theorem sendPuback_tr (s : S) (mid : Nat) : TrN (view s) (view (s.sendPuback mid).1) :=
  sendCmdMid_tr s 0x40 mid true (by decide) (by decide)
theorem sendPubrec_tr (s : S) (mid : Nat) : TrN (view s) (view (s.sendPubrec mid).1) :=
  sendCmdMid_tr s 0x50 mid true (by decide) (by decide)
theorem sendPubcomp_tr (s : S) (mid : Nat) : TrN (view s) (view (s.sendPubcomp mid).1) :=
  sendCmdMid_tr s 0x70 mid true (by decide) (by decide)

theorem sendPubrel_tr (s : S) (mid : Nat) (direct : Bool) : TrN (view s) (view (s.sendPubrel mid direct).1) := by
  unfold sendPubrel
  refine Path.trans (b := view (match s.sock, s.out.find? (·.mid = mid) with
    | some c, some m => s.emit (.qPubrel c m.info mid)
    | _, _ => s)) ?_ (sendCmdMid_tr _ 0x62 mid direct (by decide) (by decide))
  split
  · exact emit_tr rfl _ _ rfl
  · exact Path.refl _

theorem sendSimple_tr (s : S) (command : Nat) (hc : b8 command ≠ 0x10) (hd : ¬ isDiscCmd command) :
    TrN (view s) (view (s.sendSimple command).1) := by
  unfold sendSimple
  exact packetQueue_tr _ _ _ (fresh_mk (encSimple_fresh hc)) (fun h => absurd h hd)

end SessAct
end Paho
