/-
Repeated `_recv_impl` calls: `runRecv` and the run invariant obtained from `recv_step` by induction on the calls.
-/
import PahoProofs.Lemmas.WsRecvStep
namespace Paho.Ws
open Paho

structure RecvRun where
  st : RecvSt
  q : List RecvItem
  results : List RecvRes    -- outcome of each call
  sent : List Bytes         -- frames written to the raw socket, in order
  deriving DecidableEq, Repr

/-- call `_recv_impl(n)` for each `n` of the list, on the same wrapper and socket -/
def runRecv : RecvSt → List RecvItem → List Nat → RecvRun
  | st, q, [] => { st := st, q := q, results := [], sent := [] }
  | st, q, n :: ns =>
    let o := recvImpl st q n
    let r := runRecv o.1 o.2.1 ns
    { st := r.st, q := r.q, results := o.2.2.1 :: r.results, sent := o.2.2.2 ++ r.sent }

/-- all bytes returned to the caller, in order -/
def delivered : List RecvRes → Bytes
  | [] => []
  | r :: rs => bytesOf r ++ delivered rs

/-- per call: never more than requested, and never b'' for a request of at least one byte -/
def CallOk (n : Nat) (res : RecvRes) : Prop :=
  (bytesOf res).length ≤ n ∧ ∀ b, res = .data b → 1 ≤ n → b ≠ []

def CallsOk : List Nat → List RecvRes → Prop
  | [], [] => True
  | n :: ns, r :: rs => CallOk n r ∧ CallsOk ns rs
  | _, _ => False

theorem mu_pos {f : Frame} {rest : List Frame} {st : RecvSt} {q : List RecvItem} (h : Inv (f :: rest) st q) :
    0 < mu (f :: rest) st q := by
  have := h.2.2.2
  simp only [mu, weight]; omega

theorem run_inv (lens : List Nat) : ∀ (fs : List Frame) (st : RecvSt) (q : List RecvItem), Inv fs st q →
    ∃ done fs', fs = done ++ fs' ∧ Inv fs' (runRecv st q lens).st (runRecv st q lens).q ∧
      partialData fs st.payloadHead ++ delivered (runRecv st q lens).results =
        dataOf done ++ partialData fs' (runRecv st q lens).st.payloadHead ∧
      ((∀ f ∈ done, f.ctlUnmasked) → (runRecv st q lens).sent = owedAll done) ∧
      CallsOk lens (runRecv st q lens).results ∧
      (st.readbuffer ++ flat q = encs fs →
        (runRecv st q lens).st.readbuffer ++ flat (runRecv st q lens).q = encs fs' ∧
        ((∀ n ∈ lens, 1 ≤ n) →
          fs' = [] ∨ mu fs' (runRecv st q lens).st (runRecv st q lens).q + lens.length ≤ mu fs st q)) := by
  induction lens with
  | nil =>
    intro fs st q hI
    refine ⟨[], fs, rfl, hI, by simp [runRecv, delivered, dataOf], fun _ => rfl, trivial, ?_⟩
    intro hc
    exact ⟨hc, fun _ => Or.inr (by simp [runRecv])⟩
  | cons n ns ih =>
    intro fs st q hI
    obtain ⟨cons, fs1, hstep⟩ := recv_step fs st q n hI
    obtain ⟨done2, fs2, hsplit2, hI2, hdata2, hsent2, hall2, hcomp2⟩ := ih fs1 _ _ hstep.inv
    refine ⟨cons ++ done2, fs2, by rw [hstep.split, hsplit2, List.append_assoc], hI2, ?_, ?_, ?_, ?_⟩
    · show partialData fs st.payloadHead ++ (bytesOf (recvImpl st q n).2.2.1 ++ delivered _) = _
      rw [← List.append_assoc, hstep.data, List.append_assoc, hdata2, dataOf_append, List.append_assoc]
      rfl
    · intro hc
      show (recvImpl st q n).2.2.2 ++ _ = _
      rw [hstep.sent (fun f hf => hc f (by simp [hf])), hsent2 (fun f hf => hc f (by simp [hf])), owedAll_append]
    · exact ⟨⟨hstep.bound, hstep.nonempty⟩, hall2⟩
    · intro hc
      obtain ⟨hc1, hprog⟩ := hstep.complete hc
      obtain ⟨hc2, hprog2⟩ := hcomp2 hc1
      refine ⟨hc2, ?_⟩
      intro hpos
      rcases hprog2 (fun m hm => hpos m (by simp [hm])) with h | h
      · exact Or.inl h
      · by_cases hfs : fs = []
        · -- nothing was expected: nothing can be left
          subst hfs
          have h1 : fs1 = [] := (List.append_eq_nil_iff.mp hstep.split.symm).2
          rw [h1] at hsplit2
          exact Or.inl (List.append_eq_nil_iff.mp hsplit2.symm).2
        · have := hprog (hpos n (by simp)) hfs
          refine Or.inr ?_
          show mu fs2 _ _ + (ns.length + 1) ≤ _
          have h' : mu fs2 (runRecv (recvImpl st q n).1 (recvImpl st q n).2.1 ns).st
              (runRecv (recvImpl st q n).1 (recvImpl st q n).2.1 ns).q + ns.length ≤
              mu fs1 (recvImpl st q n).1 (recvImpl st q n).2.1 := h
          show mu fs2 (runRecv (recvImpl st q n).1 (recvImpl st q n).2.1 ns).st
              (runRecv (recvImpl st q n).1 (recvImpl st q n).2.1 ns).q + (ns.length + 1) ≤ mu fs st q
          omega

theorem partialData_prefix (fs : List Frame) (ph : Nat) : partialData fs ph <+: dataOf fs := by
  cases fs with
  | nil => exact List.prefix_refl _
  | cons f rest =>
    simp only [partialData, dataOf]
    split
    · exact List.IsPrefix.trans (List.take_prefix _ _) (List.prefix_append _ _)
    · exact List.nil_prefix

theorem inv_init (frames : List Frame) (hwf : ∀ f ∈ frames, f.wf) (q : List RecvItem)
    (hq : flat q <+: encs frames) : Inv frames {} q := by
  refine ⟨hwf, by simpa using hq, ?_⟩
  cases frames with
  | nil => rfl
  | cons f rest => exact ⟨by simp, Or.inr rfl⟩

end Paho.Ws
