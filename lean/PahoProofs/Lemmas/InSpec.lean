/-
Exact descriptions of the inbound handlers (`_handle_on_message`, `_send_command_with_mid`,
`_handle_pubrel`, `_handle_publish`) and of the `rx` step, used by the C03 proofs.
-/
import PahoProofs.Lemmas.InHandlers
import PahoProofs.Lemmas.SessionDefs
namespace Paho.InLemmas
open Paho Paho.S

variable {B : Bytes → Prop} {Q : Nat → Prop} {k : Prop} {s0 s : S}

/-- events that are neither `queued` nor `on_message` -/
abbrev P0 : Ev → Prop := PB (fun _ => False) False

theorem PB_of_P0 {e : Ev} (h : P0 e) : PB B k e := by
  cases e <;> first | trivial | exact h.elim

theorem newEvents_eq {op : Op} {evs : List Ev} (h : (s.step op).log = s.log ++ evs) : newEvents s op = evs := by
  unfold newEvents
  rw [h, List.drop_left]

theorem handleOnMessage_log (m : InMsg) : (s.handleOnMessage m).1.log = s.log ++ [.onMessage m] := by
  unfold handleOnMessage
  extract_lets s1 s2
  split <;> rfl

theorem handleOnMessage_inm (m : InMsg) : (s.handleOnMessage m).1.inm = s.inm := by
  unfold handleOnMessage
  extract_lets s1 s2
  split <;> rfl

theorem handleOnMessage_sock (m : InMsg) : (s.handleOnMessage m).1.sock = s.sock := by
  unfold handleOnMessage
  extract_lets s1 s2
  split <;> rfl

theorem handleOnMessage_proto (m : InMsg) : (s.handleOnMessage m).1.proto = s.proto := by
  unfold handleOnMessage
  extract_lets s1 s2
  split <;> rfl

theorem handleOnMessage_raised (m : InMsg) :
    (s.handleOnMessage m).2 = (decide (s.raiseOnMessage > 0) && !s.cfg.suppress) := by
  unfold handleOnMessage
  extract_lets s1 s2
  split
  · rename_i h
    have h' : s.raiseOnMessage > 0 := h
    simp only [h', decide_true, Bool.true_and]
    rfl
  · rename_i h
    have h' : ¬ s.raiseOnMessage > 0 := h
    simp [h']

theorem sendCmdMid_inm (cmd mid : Nat) (d : Bool) : (s.sendCmdMid cmd mid d).1.inm = s.inm :=
  (sendCmdMid_fr (B := fun _ => True) (k := True) cmd mid d (fun _ _ => trivial) Fr.refl).inm

/-- with an open socket and a packet id in range, the acknowledgement is handed to the connection first -/
theorem sendCmdMid_first (cmd mid : Nat) (d : Bool) {c : Nat} (hs : s.sock = some c) (hmid : mid ≤ 65535) :
    ∃ evs, (s.sendCmdMid cmd mid d).1.log
        = s.log ++ Ev.queued c [b8 cmd, 2, b8 (mid / 256), b8 (mid % 256)] :: evs ∧ ∀ e ∈ evs, P0 e := by
  unfold sendCmdMid
  rw [encCmdMid_ok cmd mid hmid]
  exact packetQueue_first _ d hs

/-- the part of the `rx` step after the packet handler only closes the socket at most -/
theorem step_rx_fr (p : RxPkt) (ok : Bool) {c : Nat} (hs : s.sock = some c) :
    Fr (PB B k) (s.packetHandle p ok).1 (s.step (.rx (.pkt p) ok)) := by
  have h := loopRead_tail (B := B) (k := k) p ok hs
  simp only [S.step]
  generalize s.loopRead (.pkt p) ok = r at h ⊢
  obtain ⟨s1, r⟩ := r
  exact Fr.emit h (PB_hresEv r)

theorem step_rx_none (item : RxItem) (ok : Bool) (hs : s.sock = none) :
    s.step (.rx item ok) = s.emit (.ret rcNoConn none) := by
  simp only [S.step, loopRead, hs]
  rfl

theorem handleOnMessage_cfg' (m : InMsg) : (s.handleOnMessage m).1.cfg = s.cfg := handleOnMessage_cfg m

/-- first half of `_handle_pubrel`: look the message up, remove it, deliver it -/
theorem pubrelHead_spec {mid : Nat} {s1 : S} {raised : Bool}
    (hp : (match s.inm.find? (fun x => decide (x.mid = mid)) with
      | some m => ({ s with inm := s.inm.filter (fun x => decide (x.mid ≠ mid)) }).handleOnMessage m
      | none => (s, false)) = (s1, raised)) :
    s1.log = s.log ++ (s.inm.find? (fun x => decide (x.mid = mid))).toList.map Ev.onMessage
    ∧ s1.inm = s.inm.filter (fun x => decide (x.mid ≠ mid))
    ∧ s1.cfg = s.cfg ∧ s1.sock = s.sock
    ∧ (raised = true → s.raiseOnMessage > 0 ∧ s.cfg.suppress = false) := by
  split at hp
  · rename_i m hm
    have h1 := handleOnMessage_log (s := { s with inm := s.inm.filter (fun x => decide (x.mid ≠ mid)) }) m
    have h2 := handleOnMessage_inm (s := { s with inm := s.inm.filter (fun x => decide (x.mid ≠ mid)) }) m
    have h3 := handleOnMessage_cfg (s := { s with inm := s.inm.filter (fun x => decide (x.mid ≠ mid)) }) m
    have h4 := handleOnMessage_sock (s := { s with inm := s.inm.filter (fun x => decide (x.mid ≠ mid)) }) m
    have h5 := handleOnMessage_raised (s := { s with inm := s.inm.filter (fun x => decide (x.mid ≠ mid)) }) m
    rw [hp] at h1 h2 h3 h4 h5
    refine ⟨by rw [h1, hm]; rfl, h2, h3, h4, ?_⟩
    intro hr
    simp only at h5
    rw [hr] at h5
    have h5' := h5.symm
    simp only [Bool.and_eq_true, decide_eq_true_eq, Bool.not_eq_true'] at h5'
    exact h5'
  · rename_i hm
    cases hp
    refine ⟨by rw [hm]; simp, ?_, rfl, rfl, by intro h; cases h⟩
    refine (List.filter_eq_self.mpr ?_).symm
    intro x hx
    have := List.find?_eq_none.mp hm x hx
    simpa using this

/-- `_handle_pubrel`: the stored message (if any) is delivered, first and once, and removed -/
theorem handlePubrel_spec (mid : Nat) :
    ∃ evs, (s.handlePubrel mid).1.log
        = s.log ++ (s.inm.find? (fun x => decide (x.mid = mid))).toList.map Ev.onMessage ++ evs
      ∧ (∀ e ∈ evs, PB (fun _ => True) False e)
      ∧ (s.handlePubrel mid).1.inm = s.inm.filter (fun x => decide (x.mid ≠ mid))
      ∧ (∀ c, s.sock = some c → mid ≤ 65535 → s.cfg.manualAck = false →
          (s.raiseOnMessage = 0 ∨ s.cfg.suppress = true) →
          Ev.queued c [b8 0x70, 2, b8 (mid / 256), b8 (mid % 256)] ∈ evs) := by
  unfold handlePubrel
  split
  rename_i s1 raised hp
  obtain ⟨hlog, hinm, hcfg, hsock, hr⟩ := pubrelHead_spec hp
  clear hp
  split
  · rename_i hraised
    refine ⟨[], by simpa using hlog, by simp, hinm, ?_⟩
    intro c _ _ _ hra
    have := hr hraised
    rcases hra with h | h
    · omega
    · rw [h] at this; cases this.2
  · split
    · rename_i hman
      refine ⟨[], by simpa using hlog, by simp, hinm, ?_⟩
      intro c _ _ hm _
      rw [hcfg, hm] at hman; cases hman
    · have hfr := sendCmdMid_fr (B := fun _ => True) (k := False) 0x70 mid true (fun _ _ => trivial) (Fr.refl (a := s1))
      obtain ⟨evs, he, hP⟩ := hfr.lg
      refine ⟨evs, ?_, hP, hfr.inm.trans hinm, ?_⟩
      · show (s1.sendCmdMid 0x70 mid true).1.log = _
        rw [he, hlog]
      · intro c hc hmid _ _
        obtain ⟨evs', he', _⟩ := sendCmdMid_first (s := s1) 0x70 mid true (hsock.trans hc) hmid
        have : evs = Ev.queued c [b8 0x70, 2, b8 (mid / 256), b8 (mid % 256)] :: evs' :=
          List.append_cancel_left (he.symm.trans he')
        rw [this]
        exact List.mem_cons_self

theorem topic_ok {m : InMsg} (ht : s.proto = 5 ∨ m.topic ≠ []) : ¬ (s.proto ≠ 5 ∧ m.topic.isEmpty = true) := by
  rintro ⟨h1, h2⟩
  rcases ht with h | h
  · exact h1 h
  · exact h (List.isEmpty_iff.mp h2)

/-- inbound QoS 2 PUBLISH: PUBREC, then store / replace -/
theorem handlePublish_qos2 (m : InMsg) (hq : m.qos = 2) (ht : s.proto = 5 ∨ m.topic ≠ []) :
    (s.handlePublish m).1.log = (s.sendCmdMid 0x50 m.mid).1.log
    ∧ (s.handlePublish m).1.inm =
        (if s.inm.any (fun x => decide (x.mid = m.mid)) then s.inm.map (fun x => if x.mid = m.mid then m else x)
         else s.inm ++ [m]) := by
  have ht' := topic_ok ht
  unfold handlePublish
  extract_lets m'
  have hm' : m' = m := if_neg (by omega)
  clear_value m'
  subst hm'
  rw [if_neg ht', if_neg (by omega), if_neg (by omega), if_pos hq]
  have hi := sendCmdMid_inm (s := s) 0x50 m'.mid true
  unfold sendPubrec
  generalize s.sendCmdMid 0x50 m'.mid true = r at hi ⊢
  obtain ⟨s1, rc⟩ := r
  simp only at hi ⊢
  rw [hi]
  exact ⟨trivial, rfl⟩

/-- inbound QoS 1 PUBLISH: deliver, then PUBACK unless the exception propagates or manual_ack is on -/
theorem handlePublish_qos1 (m : InMsg) (hq : m.qos = 1) (ht : s.proto = 5 ∨ m.topic ≠ []) :
    (s.handlePublish m).1 =
      if (decide (s.raiseOnMessage > 0) && !s.cfg.suppress) = true then (s.handleOnMessage m).1
      else if s.cfg.manualAck = true then (s.handleOnMessage m).1
      else ((s.handleOnMessage m).1.sendCmdMid 0x40 m.mid).1 := by
  have ht' := topic_ok ht
  unfold handlePublish
  extract_lets m'
  have hm' : m' = m := if_neg (by omega)
  clear_value m'
  subst hm'
  rw [if_neg ht', if_neg (by omega), if_pos hq]
  have hr := handleOnMessage_raised (s := s) m'
  have hc := handleOnMessage_cfg (s := s) m'
  unfold sendPuback
  generalize s.handleOnMessage m' = r at hr hc ⊢
  obtain ⟨s1, raised⟩ := r
  simp only at hr hc ⊢
  rw [← hr, ← hc]
  split
  · rfl
  · split <;> rfl

theorem handlePublish_badtopic (m : InMsg) (ht : s.proto ≠ 5 ∧ m.topic.isEmpty = true) :
    (s.handlePublish m).1 = s := by
  unfold handlePublish
  extract_lets m'
  have hm' : m'.topic = m.topic := by
    show (if m.qos = 0 then { m with mid := 0 } else m).topic = _
    split <;> rfl
  clear_value m'
  rw [if_pos (by rw [hm']; exact ht)]

/-- what `_handle_publish` does to the inbound store -/
theorem handlePublish_inm (m : InMsg) :
    (s.handlePublish m).1.inm = s.inm ∨
      (m.qos = 2 ∧ (s.handlePublish m).1.inm =
        (if s.inm.any (fun x => decide (x.mid = m.mid)) then s.inm.map (fun x => if x.mid = m.mid then m else x)
         else s.inm ++ [m])) := by
  by_cases ht : s.proto ≠ 5 ∧ m.topic.isEmpty = true
  · left; rw [handlePublish_badtopic m ht]
  · have ht2 : s.proto = 5 ∨ m.topic ≠ [] := by
      by_cases h5 : s.proto = 5
      · exact Or.inl h5
      · right; intro he; exact ht ⟨h5, by rw [he]; rfl⟩
    by_cases h2 : m.qos = 2
    · exact Or.inr ⟨h2, (handlePublish_qos2 m h2 ht2).2⟩
    · left
      by_cases h1 : m.qos = 1
      · rw [handlePublish_qos1 m h1 ht2]
        split
        · exact handleOnMessage_inm m
        · split
          · exact handleOnMessage_inm m
          · exact (sendCmdMid_inm _ _ _).trans (handleOnMessage_inm m)
      · unfold handlePublish
        extract_lets m'
        have hm' : m'.topic = m.topic ∧ m'.qos = m.qos := by
          show (if m.qos = 0 then { m with mid := 0 } else m).topic = _ ∧ (if m.qos = 0 then { m with mid := 0 } else m).qos = _
          split <;> exact ⟨rfl, rfl⟩
        clear_value m'
        rw [if_neg (by rw [hm'.1]; exact ht)]
        split
        · have hi := handleOnMessage_inm (s := s) m'
          generalize s.handleOnMessage m' = r at hi ⊢
          obtain ⟨s1, raised⟩ := r
          simp only at hi ⊢
          split <;> exact hi
        · rw [if_neg (by rw [hm'.2]; exact h1), if_neg (by rw [hm'.2]; exact h2)]

/-- with manual acknowledgement, `_handle_publish` queues no PUBACK -/
theorem handlePublish_lg_manual (m : InMsg) (hman : s.cfg.manualAck = true) :
    Lg (PB NotAck True) s (s.handlePublish m).1 := by
  have h50 : ∀ (mid : Nat) (s1 : S), Fr (PB NotAck True) s1 (s1.sendCmdMid 0x50 mid true).1 := by
    intro mid s1
    exact sendCmdMid_fr _ _ _ (fun b hb => good_notAck.prec _ _ hb) Fr.refl
  unfold handlePublish
  extract_lets m'
  clear_value m'
  split
  · exact Lg.refl
  · split
    · have := handleOnMessage_fr (B := NotAck) (k := True) m' trivial (Fr.refl (a := s))
      generalize s.handleOnMessage m' = r at this ⊢
      obtain ⟨s1, raised⟩ := r
      simp only at this ⊢
      split <;> exact this.lg
    · split
      · have := handleOnMessage_fr (B := NotAck) (k := True) m' trivial (Fr.refl (a := s))
        have hc := handleOnMessage_cfg (s := s) m'
        generalize s.handleOnMessage m' = r at this hc ⊢
        obtain ⟨s1, raised⟩ := r
        simp only at hc ⊢
        split
        · exact this.lg
        · rw [if_pos (by rw [hc]; exact hman)]
          exact this.lg
      · split
        · unfold sendPubrec
          have := h50 m'.mid s
          generalize s.sendCmdMid 0x50 m'.mid true = r at this ⊢
          obtain ⟨s1, rc⟩ := r
          exact this.lg.upd rfl
        · exact Lg.refl

theorem handleOnMessage_out (m : InMsg) : (s.handleOnMessage m).1.out = s.out := by
  unfold handleOnMessage
  extract_lets s1 s2
  split <;> rfl

theorem sendCmdMid_out (cmd mid : Nat) (d : Bool) : (s.sendCmdMid cmd mid d).1.out = s.out :=
  (sendCmdMid_fr (B := fun _ => True) (k := True) cmd mid d (fun _ _ => trivial) Fr.refl).out

/-- `_handle_publish` does not touch the outgoing messages -/
theorem handlePublish_out (m : InMsg) : (s.handlePublish m).1.out = s.out := by
  unfold handlePublish sendPuback sendPubrec
  extract_lets m'
  clear_value m'
  have ho := handleOnMessage_out (s := s) m'
  split
  · rfl
  · split
    · generalize s.handleOnMessage m' = r at ho ⊢
      obtain ⟨s1, raised⟩ := r
      simp only at ho ⊢
      split <;> exact ho
    · split
      · have h40 := fun s1 : S => sendCmdMid_out (s := s1) 0x40 m'.mid true
        generalize s.handleOnMessage m' = r at ho ⊢
        obtain ⟨s1, raised⟩ := r
        simp only at ho ⊢
        split
        · exact ho
        · split
          · exact ho
          · exact (h40 s1).trans ho
      · split
        · have h50 := sendCmdMid_out (s := s) 0x50 m'.mid true
          generalize s.sendCmdMid 0x50 m'.mid true = r at h50 ⊢
          obtain ⟨s1, rc⟩ := r
          exact h50
        · rfl

/-- the QoS of the stored outgoing messages stays in range -/
theorem step_qosOk (op : Op) (h : QosOk s.out) : QosOk (s.step op).out := by
  by_cases hp : ∃ m ok, op = .rx (.pkt (.publish m)) ok
  · obtain ⟨m, ok, rfl⟩ := hp
    rcases hs : s.sock with _ | c
    · rw [step_rx_none _ ok hs]; exact h
    · rw [(step_rx_fr (B := fun _ => True) (k := True) (.publish m) ok hs).out]
      show QosOk (s.handlePublish m).1.out
      rw [handlePublish_out]; exact h
  · exact (step_fw (s := s) (B := fun _ => True) (Q := fun _ => True) (k := True) good_true
      (fun _ _ => trivial) op (fun m ok e => hp ⟨m, ok, e⟩) (fun _ _ _ => ⟨trivial, fun _ _ _ => trivial⟩)
      (fun _ _ _ _ _ _ _ _ => trivial)).oq h

theorem run_qosOk (ops : List Op) : ∀ (s : S), QosOk s.out → QosOk (s.run ops).out := by
  induction ops with
  | nil => intro s h; exact h
  | cons op ops ih => intro s h; exact ih (s.step op) (step_qosOk op h)

theorem runFrom_qosOk (cfg : Cfg) (proto : Nat) (ops : List Op) : QosOk (runFrom cfg proto ops).out :=
  run_qosOk ops _ (fun _ h => nomatch h)

end Paho.InLemmas
