/-
Helper lemmas for C11: `iterMatchAux` against the specification's `matchLevels`.
-/
import PahoProofs.Lemmas.Trie

namespace Paho
namespace Node
variable {V : Type}

theorem lvlPlus_eq : lvlPlus = [Spec.plus] := rfl
theorem lvlHash_eq : lvlHash = [Spec.hash] := rfl

/-! ### permutations of `flatMap` -/

theorem flatMap_perm_congr {α β : Type _} {l : List α} {f g : α → List β}
    (h : ∀ a ∈ l, (f a).Perm (g a)) : (l.flatMap f).Perm (l.flatMap g) := by
  induction l with
  | nil => exact .refl _
  | cons a l ih =>
    simp only [List.flatMap_cons]
    exact (h a (by simp)).append (ih (fun b hb => h b (by simp [hb])))

theorem flatMap_append_perm' {α β : Type _} (l : List α) (f g : α → List β) :
    (l.flatMap (fun a => f a ++ g a)).Perm (l.flatMap f ++ l.flatMap g) := by
  induction l with
  | nil => exact .refl _
  | cons a l ih =>
    simp only [List.flatMap_cons, List.append_assoc]
    refine List.Perm.append_left _ ?_
    exact (List.Perm.append_left _ ih).trans (List.perm_append_comm_assoc _ _ _)

theorem filter_const_true {α : Type _} (l : List α) : l.filter (fun _ => true) = l := by
  simp

/-- `match o with | some n => g n | none => []` with a fixed matcher -/
def optL {β : Type} (o : Option (Node V)) (g : Node V → List β) : List β :=
  match o with
  | some n => g n
  | none => []

theorem flatMap_key {β : Type} (a : Level) (g : Node V → List β) (ch : List (Level × Node V))
    (hnd : (ch.map (·.1)).Nodup) :
    ch.flatMap (fun kn => if kn.1 = a then g kn.2 else []) = optL (lookup a ch) g := by
  induction ch with
  | nil => simp [lookup, optL]
  | cons hd tl ih =>
    obtain ⟨k, n⟩ := hd
    simp only [List.map_cons, List.nodup_cons] at hnd
    simp only [List.flatMap_cons, lookup]
    split
    · subst_vars
      have : tl.flatMap (fun kn => if kn.1 = k then g kn.2 else []) = [] := by
        rw [List.flatMap_eq_nil_iff]
        intro kn hkn
        have : kn.1 ≠ k := by
          rintro rfl
          exact hnd.1 (List.mem_map.2 ⟨_, hkn, rfl⟩)
        simp [this]
      simp [this, optL]
    · rw [ih hnd.2]; simp

/-! ### the model's matcher, one level at a time -/

theorem iterMatchAux_nil (normal first : Bool) (c : Option V) (ch : List (Level × Node V)) :
    iterMatchAux normal first [] (mk c ch) =
      c.toList ++ (if (normal || !first) = true then optL (lookup lvlHash ch) (fun n => n.content.toList) else []) := by
  rw [iterMatchAux]
  simp only [Gen.hashGuarded, if_true]
  cases lookup lvlHash ch <;> rfl

theorem iterMatchAux_cons (normal first : Bool) (part : Level) (more : List Level) (c : Option V)
    (ch : List (Level × Node V)) :
    iterMatchAux normal first (part :: more) (mk c ch) =
      (optL (lookup part ch) (iterMatchAux normal false more) ++
        (if (normal || !first) = true then optL (lookup lvlPlus ch) (iterMatchAux normal false more) else [])) ++
      (if (normal || !first) = true then optL (lookup lvlHash ch) (fun n => n.content.toList) else []) := by
  rw [iterMatchAux]
  simp only [Gen.hashGuarded, Gen.plusGuarded, if_true]
  cases lookup part ch <;> cases lookup lvlPlus ch <;> cases lookup lvlHash ch <;> rfl

/-! ### the specification, one level at a time -/

/-- `matchesL` with the `$`-rule expressed through "wildcards allowed at this level" -/
def matchW (w : Bool) (fl tl : List Level) : Bool :=
  (w || match fl with
    | f :: _ => !(decide (f = [Spec.plus]) || decide (f = [Spec.hash]))
    | [] => true) && Spec.matchLevels fl tl

/-- `#` occurs only as the last level -/
def hashOK : List Level → Prop
  | [] => True
  | l :: ls => (l = [Spec.hash] → ls = []) ∧ hashOK ls

theorem hashOK_of_valid : ∀ ks : List Level, Spec.validLevels ks = true → hashOK ks
  | [] => fun _ => trivial
  | [l] => fun _ => ⟨fun _ => rfl, trivial⟩
  | l :: l' :: ls => fun h => by
    simp only [Spec.validLevels, Bool.and_eq_true] at h
    refine ⟨?_, hashOK_of_valid (l' :: ls) h.2⟩
    rintro rfl
    exact absurd h.1 (by decide)

theorem hashOK_append : ∀ (p ks : List Level), hashOK (p ++ ks) → hashOK ks
  | [], _ => fun h => h
  | _ :: p, ks => fun h => hashOK_append p ks h.2

theorem matchW_true (fl tl : List Level) : matchW true fl tl = Spec.matchLevels fl tl := by
  simp [matchW]

theorem matchW_nil_nil (w : Bool) : matchW w [] [] = true := by
  simp [matchW, Spec.matchLevels]

theorem matchW_nil_cons (w : Bool) (t : Level) (ts : List Level) : matchW w [] (t :: ts) = false := by
  simp [matchW, Spec.matchLevels]

theorem matchW_cons_nil (w : Bool) (k : Level) (ks : List Level) :
    matchW w (k :: ks) [] = (decide (k = [Spec.hash]) && w) := by
  by_cases h : k = [Spec.hash]
  · subst h; cases w <;> simp [matchW, Spec.matchLevels]
  · simp [matchW, Spec.matchLevels, h]

theorem matchW_cons_cons (w : Bool) (k part : Level) (ks more : List Level) :
    matchW w (k :: ks) (part :: more) =
      if k = [Spec.hash] then w
      else if k = [Spec.plus] then (w && Spec.matchLevels ks more)
      else if k = part then Spec.matchLevels ks more
      else false := by
  by_cases h : k = [Spec.hash]
  · subst h; cases w <;> simp [matchW, Spec.matchLevels]
  · by_cases h2 : k = [Spec.plus]
    · subst h2; cases w <;> simp [matchW, Spec.matchLevels, h]
    · by_cases h3 : k = part
      · subst h3; simp [matchW, Spec.matchLevels, h, h2]
      · simp [matchW, Spec.matchLevels, h, h2, h3]

/-- below a `#` child only its own content is stored -/
theorem hash_child (n : Node V) (hok : ∀ kv ∈ toListN [] n, hashOK ([Spec.hash] :: kv.1)) :
    (toListN [] n).map (·.2) = n.content.toList := by
  obtain ⟨c, ch⟩ := n
  have hnil : ch.flatMap (fun kn => (toListN [] kn.2).map (fun kv => (kn.1 :: kv.1, kv.2))) = [] := by
    rw [List.eq_nil_iff_forall_not_mem]
    rintro ⟨k, v⟩ hkv
    have hmem : (k, v) ∈ toListN [] (mk c ch) := by
      rw [toListN_nil_mk]; exact List.mem_append_right _ hkv
    obtain ⟨a, ks, n, rfl, _, _⟩ := mem_childLists.1 hkv
    have := (hok _ hmem).1 rfl
    simp at this
  rw [toListN_nil_mk, hnil]
  cases c <;> simp [contentList, content]

theorem child_nil (w : Bool) (kn : Level × Node V)
    (hok : ∀ kv ∈ toListN [] kn.2, hashOK (kn.1 :: kv.1)) :
    ((((toListN [] kn.2).map (fun kv => (kn.1 :: kv.1, kv.2))).filter
        (fun kv => matchW w kv.1 [])).map (·.2)) =
      (if kn.1 = lvlHash then (if w = true then kn.2.content.toList else []) else []) := by
  obtain ⟨k, n⟩ := kn
  rw [List.filter_map, List.map_map]
  simp only [Function.comp_def, matchW_cons_nil, lvlHash_eq]
  by_cases h : k = [Spec.hash]
  · subst h
    cases w
    · simp
    · simp only [decide_true, Bool.and_self, if_true]
      rw [filter_const_true]
      exact hash_child n hok
  · simp [h]

theorem child_cons (w : Bool) (part : Level) (more : List Level) (kn : Level × Node V)
    (hp1 : part ≠ lvlPlus) (hp2 : part ≠ lvlHash)
    (hok : ∀ kv ∈ toListN [] kn.2, hashOK (kn.1 :: kv.1)) (R : List V)
    (hR : R.Perm (((toListN [] kn.2).filter (fun kv => Spec.matchLevels kv.1 more)).map (·.2))) :
    ((((toListN [] kn.2).map (fun kv => (kn.1 :: kv.1, kv.2))).filter
        (fun kv => matchW w kv.1 (part :: more))).map (·.2)).Perm
      ((if kn.1 = part then R else []) ++
        ((if kn.1 = lvlPlus then (if w = true then R else []) else []) ++
         (if kn.1 = lvlHash then (if w = true then kn.2.content.toList else []) else []))) := by
  obtain ⟨k, n⟩ := kn
  rw [List.filter_map, List.map_map]
  simp only [Function.comp_def, matchW_cons_cons]
  rw [lvlPlus_eq] at hp1 ⊢
  rw [lvlHash_eq] at hp2 ⊢
  by_cases h : k = [Spec.hash]
  · subst h
    have h1 : ¬ ([Spec.hash] : Level) = part := fun h => hp2 h.symm
    have h2 : ¬ ([Spec.hash] : Level) = [Spec.plus] := by decide
    simp only [if_true, h1, h2, if_false, List.nil_append]
    cases w
    · simp
    · simp only [if_true]
      rw [filter_const_true, hash_child n hok]
  · by_cases h2 : k = [Spec.plus]
    · subst h2
      have h1 : ¬ ([Spec.plus] : Level) = part := fun h => hp1 h.symm
      simp only [h, h1, if_false, if_true, List.nil_append, List.append_nil]
      cases w
      · simp
      · simpa using hR.symm
    · by_cases h3 : k = part
      · subst h3
        simp only [h, h2, if_false, if_true, List.append_nil]
        exact hR.symm
      · simp [h, h2, h3]

/-- the heart of C11 -/
theorem iterMatchAux_perm (normal : Bool) (rest : List Level) :
    ∀ (first : Bool) (t : Node V), WFN t → (∀ kv ∈ toListN [] t, hashOK kv.1) →
      (∀ l ∈ rest, l ≠ lvlPlus ∧ l ≠ lvlHash) →
      (iterMatchAux normal first rest t).Perm
        (((toListN [] t).filter (fun kv => matchW (normal || !first) kv.1 rest)).map (·.2)) := by
  induction rest with
  | nil =>
    intro first t hwf hok _
    obtain ⟨c, ch⟩ := t
    rw [WFN_mk] at hwf
    rw [iterMatchAux_nil, toListN_nil_mk, List.filter_append, List.map_append,
      List.filter_flatMap, List.map_flatMap]
    refine List.Perm.append ?_ ?_
    · cases c <;> simp [contentList, matchW_nil_nil]
    · have hch : ∀ kn ∈ ch, ∀ kv ∈ toListN [] kn.2, hashOK (kn.1 :: kv.1) := by
        intro kn hkn kv hkv
        apply hok (kn.1 :: kv.1, kv.2)
        rw [toListN_nil_mk]
        exact List.mem_append_right _ (List.mem_flatMap.2 ⟨kn, hkn, List.mem_map.2 ⟨kv, hkv, rfl⟩⟩)
      rw [flatMap_congr' (fun kn hkn => child_nil (normal || !first) kn (hch kn hkn))]
      rw [flatMap_key lvlHash (fun n => if (normal || !first) = true then n.content.toList else []) ch hwf.1]
      cases (normal || !first) <;> cases lookup lvlHash ch <;> simp [optL]
  | cons part more ih =>
    intro first t hwf hok hrest
    obtain ⟨c, ch⟩ := t
    rw [WFN_mk] at hwf
    have hp := hrest part (by simp)
    have hmore : ∀ l ∈ more, l ≠ lvlPlus ∧ l ≠ lvlHash := fun l hl => hrest l (by simp [hl])
    have hch : ∀ kn ∈ ch, ∀ kv ∈ toListN [] kn.2, hashOK (kn.1 :: kv.1) := by
      intro kn hkn kv hkv
      apply hok (kn.1 :: kv.1, kv.2)
      rw [toListN_nil_mk]
      exact List.mem_append_right _ (List.mem_flatMap.2 ⟨kn, hkn, List.mem_map.2 ⟨kv, hkv, rfl⟩⟩)
    have hrec : ∀ kn ∈ ch, (iterMatchAux normal false more kn.2).Perm
        (((toListN [] kn.2).filter (fun kv => Spec.matchLevels kv.1 more)).map (·.2)) := by
      intro kn hkn
      have := ih false kn.2 (hwf.2 kn hkn) (fun kv hkv => (hch kn hkn kv hkv).2) hmore
      simpa [matchW_true] using this
    rw [iterMatchAux_cons, toListN_nil_mk, List.filter_append, List.map_append,
      List.filter_flatMap, List.map_flatMap]
    have hc : ((contentList [] c).filter (fun kv => matchW (normal || !first) kv.1 (part :: more))).map (·.2) = [] := by
      cases c <;> simp [contentList, matchW_nil_cons]
    rw [hc, List.nil_append]
    refine List.Perm.symm ?_
    refine (flatMap_perm_congr (fun kn hkn =>
      child_cons (normal || !first) part more kn hp.1 hp.2 (hch kn hkn) _ (hrec kn hkn))).trans ?_
    refine (flatMap_append_perm' _ _ _).trans ?_
    rw [List.append_assoc]
    refine List.Perm.append ?_ ((flatMap_append_perm' _ _ _).trans (List.Perm.append ?_ ?_))
    · rw [flatMap_key part _ ch hwf.1]
    · rw [flatMap_key lvlPlus (fun n => if (normal || !first) = true then iterMatchAux normal false more n else []) ch hwf.1]
      cases (normal || !first) <;> cases lookup lvlPlus ch <;> simp [optL]
    · rw [flatMap_key lvlHash (fun n => if (normal || !first) = true then n.content.toList else []) ch hwf.1]
      cases (normal || !first) <;> cases lookup lvlHash ch <;> simp [optL]

end Node
end Paho
