/-
Helper lemmas for C07 (section A, critical sections): the invariant of `SecSys` (sections over a lock-protected
variable) over all schedules.
-/
import Paho.Model.Threads
namespace Paho.Thr.ThrSec
open Paho Paho.Thr

theorem upd_same {α : Type} (f : Tid → α) (t : Tid) (v : α) : upd f t v t = v := by simp [upd]
theorem upd_other {α : Type} (f : Tid → α) (t : Tid) (v : α) {x : Tid} (h : x ≠ t) : upd f t v x = f x := by
  simp [upd, h]

theorem applyAll_nil {σ : Type} (x : σ) : applyAll [] x = x := rfl

theorem applyAll_append {σ : Type} (fs gs : List (σ → σ)) (x : σ) :
    applyAll (fs ++ gs) x = applyAll gs (applyAll fs x) := by
  simp [applyAll, List.foldl_append]

theorem applyAll_snoc {σ : Type} (fs : List (σ → σ)) (f : σ → σ) (x : σ) :
    applyAll (fs ++ [f]) x = f (applyAll fs x) := by
  simp [applyAll, List.foldl_append]

/-- the sections of thread `t` completed so far, in release order -/
def completed {σ : Type} (s : SecSys σ) (t : Tid) : List (List (σ → σ)) :=
  (s.log.filter (·.1 = t)).map (·.2)

structure SInv {σ : Type} (x0 : σ) (progs : Tid → List (List (σ → σ))) (s : SecSys σ) : Prop where
  comm : s.committed = applyAll (s.log.map (·.2)).flatten x0
  free : s.owner = none → s.shared = s.committed
  own : ∀ t, s.owner = some t → (s.thr t).inside = true ∧
    ∃ done rem rest, s.cur = done ++ rem ∧ (s.thr t).todo = rem :: rest ∧
      s.shared = applyAll done s.committed ∧ progs t = completed s t ++ s.cur :: rest
  other : ∀ t, s.owner ≠ some t → (s.thr t).inside = false ∧ progs t = completed s t ++ (s.thr t).todo

theorem SInv.init {σ : Type} (x0 : σ) (progs : Tid → List (List (σ → σ))) :
    SInv x0 progs { shared := x0, committed := x0, thr := fun t => { todo := progs t } } where
  comm := rfl
  free := fun _ => rfl
  own := by intro t h; cases h
  other := by intro t _; exact ⟨rfl, rfl⟩

theorem SInv.step {σ : Type} {x0 : σ} {progs : Tid → List (List (σ → σ))} {s s' : SecSys σ} {t : Tid} {a : SAct}
    (h : SInv x0 progs s) (hs : s.step t a = some s') : SInv x0 progs s' := by
  cases a with
  | acquire =>
    simp only [SecSys.step] at hs
    split at hs
    · rename_i sec rest0 htodo
      split at hs
      · rename_i hc
        have hnone : s.owner = none := by simpa using hc.1
        have hin : (s.thr t).inside = false := by simpa using hc.2
        cases hs
        refine ⟨h.comm, ?_, ?_, ?_⟩
        · intro hc; cases hc
        · intro u hu
          have hut : u = t := (Option.some.inj hu).symm
          subst hut
          have ho := h.other u (by rw [hnone]; intro hc; cases hc)
          refine ⟨by simp [upd_same], [], sec, rest0, rfl, by simp [upd_same, htodo], ?_, ?_⟩
          · show s.shared = applyAll [] s.committed
            rw [applyAll_nil]; exact h.free hnone
          · show progs u = completed s u ++ sec :: rest0
            rw [ho.2, htodo]
        · intro u hu
          have hut : u ≠ t := by intro hc; subst hc; exact hu rfl
          have ho := h.other u (by rw [hnone]; intro hc; cases hc)
          simp only [upd_other _ _ _ hut]
          exact ho
      · cases hs
    · cases hs
  | update =>
    simp only [SecSys.step] at hs
    split at hs
    · rename_i f fs rest0 htodo
      split at hs
      · rename_i hc
        have hown : s.owner = some t := hc.1
        cases hs
        obtain ⟨hin, done, rem, rest, hcur, htd, hsh, hpr⟩ := h.own t hown
        rw [htodo] at htd
        have hrem : rem = f :: fs := by cases htd; rfl
        have hrest : rest = rest0 := by cases htd; rfl
        subst hrem hrest
        refine ⟨h.comm, ?_, ?_, ?_⟩
        · intro hc; rw [hown] at hc; cases hc
        · intro u hu
          have hut : u = t := (Option.some.inj (hown.symm.trans hu)).symm
          subst hut
          refine ⟨by simpa [upd_same] using hin, done ++ [f], fs, rest, ?_, by simp [upd_same], ?_, ?_⟩
          · show s.cur = (done ++ [f]) ++ fs
            rw [hcur]; simp
          · show f s.shared = applyAll (done ++ [f]) s.committed
            rw [applyAll_snoc, hsh]
          · exact hpr
        · intro u hu
          have hu' : s.owner ≠ some u := hu
          have hut : u ≠ t := by intro hc; subst hc; exact hu' hown
          simp only [upd_other _ _ _ hut]
          exact h.other u hu'
      · cases hs
    · cases hs
  | release =>
    simp only [SecSys.step] at hs
    split at hs
    · rename_i rest0 htodo
      split at hs
      · rename_i hc
        have hown : s.owner = some t := hc.1
        cases hs
        obtain ⟨hin, done, rem, rest, hcur, htd, hsh, hpr⟩ := h.own t hown
        rw [htodo] at htd
        have hrem : rem = [] := by cases htd; rfl
        have hrest : rest = rest0 := by cases htd; rfl
        subst hrem hrest
        have hcur' : s.cur = done := by rw [hcur]; simp
        refine ⟨?_, ?_, ?_, ?_⟩
        · show s.shared = applyAll ((s.log ++ [(t, s.cur)]).map (·.2)).flatten x0
          rw [List.map_append, List.flatten_append, applyAll_append, ← h.comm, hsh, hcur']
          simp
        · intro _; rfl
        · intro u hu; cases hu
        · intro u _
          by_cases hut : u = t
          · subst hut
            refine ⟨by simp [upd_same], ?_⟩
            show progs u = ((s.log ++ [(u, s.cur)]).filter (·.1 = u)).map (·.2) ++ (upd s.thr u _ u).todo
            rw [upd_same, hpr]
            simp [completed, List.filter_append]
          · have hne : s.owner ≠ some u := by
              rw [hown]; intro hc; exact hut (Option.some.inj hc).symm
            have ho := h.other u hne
            simp only [upd_other _ _ _ hut]
            refine ⟨ho.1, ?_⟩
            show progs u = ((s.log ++ [(t, s.cur)]).filter (·.1 = u)).map (·.2) ++ (s.thr u).todo
            rw [ho.2]
            have : t ≠ u := fun hc => hut hc.symm
            simp [completed, List.filter_append, this]
      · cases hs
    · cases hs

theorem SInv.run {σ : Type} {x0 : σ} {progs : Tid → List (List (σ → σ))} (sched : List (Tid × SAct))
    {s : SecSys σ} (h : SInv x0 progs s) : SInv x0 progs (s.run sched) := by
  induction sched generalizing s with
  | nil => exact h
  | cons x rest ih =>
    obtain ⟨t, a⟩ := x
    show SInv x0 progs (((s.step t a).getD s).run rest)
    apply ih
    cases hs : s.step t a with
    | none => exact h
    | some s' => exact h.step hs

end Paho.Thr.ThrSec
