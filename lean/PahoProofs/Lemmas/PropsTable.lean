/-
Helper lemmas for C17: facts about the literal tables, `setAttr` characterisation, `putAttr`/`getAttr`.
-/
import PahoProofs.Lemmas.PropsVbi

namespace Paho.PropsLemmas
open Paho Paho.Spec

theorem mem_of_lookup {α β : Type} [BEq α] [LawfulBEq α] (l : List (α × β)) (a : α) (b : β)
    (h : l.lookup a = some b) : (a, b) ∈ l := by
  induction l with
  | nil => simp at h
  | cons x xs ih =>
    obtain ⟨k, w⟩ := x
    rw [List.lookup_cons] at h
    by_cases hk : a == k
    · simp only [hk] at h
      have : a = k := by simpa using hk
      subst this
      cases h
      exact List.mem_cons_self
    · have hk' : (a == k) = false := by simpa using hk
      simp only [hk'] at h
      exact List.mem_cons_of_mem _ (ih h)

/-! ### table facts (all by evaluation of the literal tables) -/

/-- every row of the code's property table is a row of the specification's table -/
theorem rows_in_spec_bool : (Gen.propRows.all fun row =>
    Spec.propTable.any fun r => r.1 == row.1 && r.2.2 == row.2.2 &&
      (Gen.propTypes[row.2.1]? == some r.2.1.codeName)) = true := by decide +kernel

theorem rows_in_spec (i t : Nat) (pk : List Nat) (h : Gen.propRows.lookup i = some (t, pk)) :
    ∃ ty, (i, ty, pk) ∈ Spec.propTable ∧ Gen.propTypes[t]? = some ty.codeName := by
  have hm := mem_of_lookup _ _ _ h
  have := List.all_eq_true.mp rows_in_spec_bool _ hm
  obtain ⟨r, hr, hc⟩ := List.any_eq_true.mp this
  obtain ⟨ri, rty, rpk⟩ := r
  simp only [Bool.and_eq_true, beq_iff_eq] at hc
  obtain ⟨⟨h1, h2⟩, h3⟩ := hc
  subst h1; subst h2
  exact ⟨rty, hr, h3⟩

/-- every row of the specification's table is found by the code's `row` with the same packets and type -/
theorem spec_in_rows_bool : (Spec.propTable.all fun r =>
    match Props.row r.1 with
    | some (t, pk) => pk == r.2.2 && (Gen.propTypes[t]? == some r.2.1.codeName) && decide (r.1 < 128)
    | none => false) = true := by decide +kernel

theorem spec_in_rows (i : Nat) (ty : PType) (pk : List Nat) (h : (i, ty, pk) ∈ Spec.propTable) :
    ∃ t, Props.row i = some (t, pk) ∧ Gen.propTypes[t]? = some ty.codeName ∧ i < 128 := by
  have := List.all_eq_true.mp spec_in_rows_bool _ h
  simp only at this
  split at this
  · rename_i t pk' heq
    simp only [Bool.and_eq_true, beq_iff_eq, decide_eq_true_eq] at this
    obtain ⟨⟨h1, h2⟩, h3⟩ := this
    subst h1
    exact ⟨t, heq, h2, h3⟩
  · cases this

/-- names are unique and ids are unique in the name table -/
theorem names_bool : (Gen.propNames.all fun nm =>
    Gen.propNames.lookup nm.1 == some nm.2 && Props.nameOfId nm.2 == some nm.1) = true := by decide +kernel

theorem names_lookup (name : String) (i : Nat) (h : (name, i) ∈ Gen.propNames) :
    Gen.propNames.lookup name = some i ∧ Props.nameOfId i = some name := by
  have := List.all_eq_true.mp names_bool _ h
  simpa using this

theorem names_ids_nodup : (Gen.propNames.map (·.2)).Nodup := by decide +kernel

theorem codeName_inj (a b : PType) (h : a.codeName = b.codeName) : a = b := by
  cases a <;> cases b <;> first | rfl | (exact absurd h (by decide))

/-! ### `getAttr` / `putAttr` -/

theorem lookup_filter_ne (xs : List (Nat × List PVal)) (i j : Nat) :
    (xs.filter (fun x => decide (x.1 ≠ i))).lookup j = if j = i then none else xs.lookup j := by
  induction xs with
  | nil => simp
  | cons x xs ih =>
    obtain ⟨k, w⟩ := x
    simp only [List.filter_cons, List.lookup_cons]
    grind

theorem getAttr_putAttr (p : Props) (i j : Nat) (vs : List PVal) :
    (p.putAttr i vs).getAttr j = if j = i then some vs else p.getAttr j := by
  simp only [Props.putAttr, Props.getAttr, List.lookup_append, lookup_filter_ne]
  by_cases h : j = i
  · subst h; simp [List.lookup]
  · have : (j == i) = false := by simpa using h
    simp [h, List.lookup, this]

@[simp] theorem ptype_putAttr (p : Props) (i : Nat) (vs : List PVal) : (p.putAttr i vs).ptype = p.ptype := rfl

/-! ### `setAttr` characterisation -/

/-- the value stored by a successful scalar assignment -/
def newVals (p : Props) (i : Nat) (v : PVal) : List PVal :=
  if Props.allowsMultiple i then (p.getAttr i).getD [] ++ [v] else [v]

theorem setAttr_ok {p p' : Props} {name : String} {v : PVal} (h : p.setAttr name v = .ok p') :
    ∃ i t pk, Gen.propNames.lookup name = some i ∧ Gen.propRows.lookup i = some (t, pk) ∧
      pk.contains p.ptype = true ∧ Props.valueForbidden name v = false ∧
      p' = p.putAttr i (newVals p i v) := by
  unfold Props.setAttr at h
  split at h
  · cases h
  · rename_i i hi
    split at h
    · cases h
    · rename_i t pk hr
      by_cases hc : pk.contains p.ptype = true
      · simp only [hc, Bool.not_true, Bool.false_eq_true, if_false] at h
        by_cases hf : Props.valueForbidden name v = true
        · simp only [hf, if_true] at h; cases h
        · have hf' : Props.valueForbidden name v = false := by simpa using hf
          simp only [hf', Bool.false_eq_true, if_false] at h
          refine ⟨i, t, pk, hi, hr, hc, hf', ?_⟩
          unfold newVals
          split at h <;> rename_i hm
          · cases h; simp [hm]
          · cases h; simp [hm]
      · have hc' : pk.contains p.ptype = false := by simpa using hc
        simp only [hc', Bool.not_false, if_true, Props.notAllowedExc] at h
        split at h <;> cases h

theorem setAttr_eq {p : Props} {name : String} {v : PVal} {i t : Nat} {pk : List Nat}
    (hi : Gen.propNames.lookup name = some i) (hr : Props.row i = some (t, pk))
    (hc : pk.contains p.ptype = true) (hf : Props.valueForbidden name v = false) :
    p.setAttr name v = .ok (p.putAttr i (newVals p i v)) := by
  unfold Props.setAttr Props.idOfName
  simp only [hi, hr, hc, hf, newVals]
  by_cases hm : Props.allowsMultiple i = true
  · simp [hm]
  · simp [hm]

theorem setAttrList_ok {p p' : Props} {name : String} {vs : List PVal} (h : p.setAttrList name vs = .ok p') :
    ∃ i t pk, Gen.propNames.lookup name = some i ∧ Gen.propRows.lookup i = some (t, pk) ∧
      pk.contains p.ptype = true ∧ vs.any (Props.valueForbidden name) = false ∧
      Props.allowsMultiple i = true ∧
      p' = p.putAttr i ((p.getAttr i).getD [] ++ vs) := by
  unfold Props.setAttrList at h
  split at h
  · cases h
  · rename_i i hi
    split at h
    · cases h
    · rename_i t pk hr
      by_cases hc : pk.contains p.ptype = true
      · simp only [hc, Bool.not_true, Bool.false_eq_true, if_false, Gen.propRulesOnLists, Bool.true_and] at h
        by_cases hf : vs.any (Props.valueForbidden name) = true
        · simp only [hf, if_true] at h; cases h
        · have hf' : vs.any (Props.valueForbidden name) = false := by simpa using hf
          simp only [hf', Bool.false_eq_true, if_false] at h
          split at h <;> rename_i hm
          · cases h; exact ⟨i, t, pk, hi, hr, hc, hf', hm, rfl⟩
          · cases h
      · have hc' : pk.contains p.ptype = false := by simpa using hc
        simp only [hc', Bool.not_false, if_true, Props.notAllowedExc] at h
        split at h <;> cases h

end Paho.PropsLemmas
