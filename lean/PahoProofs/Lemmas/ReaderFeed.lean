/-
Helper definitions and lemmas for C05 part 1 (fragmentation independence of `_packet_read`).

`feedByte` / `feed` : a byte-at-a-time reference automaton over the reader state `RState`: it is
fed the plain byte stream (no chunks, no would-block) and emits every packet as soon as its last byte
arrived.  The main result of this file, `packetRead_sound`, says that one call of `packetRead` on a
queue `q` moves along this automaton: what the automaton computes from the state and the bytes still in
the queue is unchanged by the call (up to the packet the call hands over).
-/
import Paho.Model.Reader

namespace Paho.ReaderLemmas
open Paho

/-! ### the queue, abstractly (same definitions as `dataOf`/`terminalOf`/`noEmptyChunks` of C05) -/

def qData : List RecvItem → Bytes
  | [] => []
  | .data b :: rest => b ++ qData rest
  | .eagain :: rest => qData rest
  | .eof :: _ => []
  | .err :: _ => []

def qTerm : List RecvItem → Bool
  | [] => false
  | .data _ :: rest => qTerm rest
  | .eagain :: rest => qTerm rest
  | .eof :: _ => true
  | .err :: _ => true

def qOk : List RecvItem → Bool
  | [] => true
  | .data b :: rest => !b.isEmpty && qOk rest
  | _ :: rest => qOk rest

/-- size measure: every byte and every item counts -/
def qSize : List RecvItem → Nat
  | [] => 0
  | .data b :: rest => b.length + 1 + qSize rest
  | _ :: rest => 1 + qSize rest

/-! ### the reference automaton -/

inductive FeedRes where
  | cont (r : RState)
  | emit (cmd : Nat) (body : Bytes)
  | protocol

inductive StreamEnd where
  | ok | protocol
  deriving DecidableEq, Repr

/-- consume one byte in state `r` (never called on a state holding a complete packet); a zero command byte
(reserved packet type 0) is a protocol error at once -/
def feedByte (r : RState) (b : UInt8) : FeedRes :=
  if r.command = 0 then
    if b.toNat = 0 then .protocol else .cont { r with command := b.toNat }
  else if r.haveRemaining = false then
    if r.remCount + 1 > 4 then .protocol
    else
      let r' := { r with remCount := r.remCount + 1, remLen := r.remLen + (b.toNat &&& 127) * r.remMult,
                         remMult := r.remMult * 128 }
      if b.toNat &&& 128 = 0 then
        if r'.remLen = 0 then .emit r.command r.packet
        else .cont { r' with haveRemaining := true, toProcess := r'.remLen }
      else .cont r'
  else
    if r.toProcess - 1 = 0 then .emit r.command (r.packet ++ [b])
    else .cont { r with toProcess := r.toProcess - 1, packet := r.packet ++ [b] }

def feed : RState → Bytes → List (Nat × Bytes) → List (Nat × Bytes) × StreamEnd
  | _, [], acc => (acc, .ok)
  | r, b :: bs, acc =>
    match feedByte r b with
    | .cont r' => feed r' bs acc
    | .emit c body => feed {} bs (acc ++ [(c, body)])
    | .protocol => (acc, .protocol)

/-- the reader holds a complete packet (possible between two calls only after the 100-read guard fired) -/
def full (r : RState) : Prop := r.haveRemaining = true ∧ r.toProcess = 0

instance (r : RState) : Decidable (full r) := by unfold full; infer_instance

/-- what the automaton computes from a reader state as left by a `packetRead` call -/
def Ref (r : RState) (bs : Bytes) (acc : List (Nat × Bytes)) : List (Nat × Bytes) × StreamEnd :=
  if full r then feed {} bs (acc ++ [(r.command, r.packet)]) else feed r bs acc

/-- reachable states: no command byte yet ⇒ nothing else yet -/
def Good (r : RState) : Prop := r.command = 0 → r.haveRemaining = false

theorem good_init : Good {} := fun _ => rfl
theorem not_full_init : ¬ full {} := by simp [full]

theorem Ref_not_full {r : RState} (h : ¬ full r) (bs acc) : Ref r bs acc = feed r bs acc := by
  simp [Ref, h]

theorem Ref_init (bs acc) : Ref {} bs acc = feed {} bs acc := Ref_not_full not_full_init bs acc

theorem Ref_full {r : RState} (h : full r) (bs acc) :
    Ref r bs acc = feed {} bs (acc ++ [(r.command, r.packet)]) := by
  simp [Ref, h]

/-! ### `recvN` -/

theorem recvN_spec (n : Nat) (hn : 0 < n) (q : List RecvItem) (hq : qOk q = true) :
    match recvN n q with
    | (.block, q') => qData q = qData q' ∧ qTerm q = qTerm q' ∧ qOk q' = true ∧ (q' = [] ∨ qSize q' < qSize q) ∧
        qSize q' ≤ qSize q
    | (.closed, q') => q' = q ∧ qData q = [] ∧ qTerm q = true
    | (.error, q') => q' = q ∧ qData q = [] ∧ qTerm q = true
    | (.bytes d, q') => d ≠ [] ∧ d.length ≤ n ∧ qData q = d ++ qData q' ∧ qTerm q = qTerm q' ∧ qOk q' = true ∧
        qSize q' < qSize q := by
  cases q with
  | nil => simp [recvN, qSize, qOk]
  | cons i rest =>
    cases i with
    | eagain => simp [recvN, qData, qTerm, qSize] ; simpa [qOk] using hq
    | eof => simp [recvN, qData, qTerm]
    | err => simp [recvN, qData, qTerm]
    | data b =>
      simp only [qOk, Bool.and_eq_true, Bool.not_eq_true', List.isEmpty_eq_false_iff] at hq
      by_cases h : b.length ≤ n
      · have e : recvN n (.data b :: rest) = (.bytes b, rest) := by simp [recvN, h]
        rw [e]
        exact ⟨hq.1, h, rfl, rfl, hq.2, by simp only [qSize]; omega⟩
      · have e : recvN n (.data b :: rest) = (.bytes (b.take n), .data (b.drop n) :: rest) := by simp [recvN, h]
        rw [e]
        refine ⟨?_, by simp only [List.length_take]; omega, by simp only [qData, ← List.append_assoc, List.take_append_drop], rfl, ?_,
          by simp only [qSize, List.length_drop]; omega⟩
        · intro h0
          have := congrArg List.length h0
          simp only [List.length_take, List.length_nil] at this
          omega
        · simp only [qOk, hq.2, Bool.and_true, Bool.not_eq_true', List.isEmpty_eq_false_iff]
          intro h0
          have := congrArg List.length h0
          simp only [List.length_drop, List.length_nil] at this
          omega

/-! ### the automaton, phase by phase -/

theorem feedByte_cmd (r : RState) (b : UInt8) (h0 : r.command = 0) :
    feedByte r b = if b.toNat = 0 then .protocol else .cont { r with command := b.toNat } := by
  simp [feedByte, h0]

/-- the state after one more remaining-length byte -/
def lenStep (r : RState) (b : UInt8) : RState :=
  { r with remCount := r.remCount + 1, remLen := r.remLen + (b.toNat &&& 127) * r.remMult, remMult := r.remMult * 128 }

theorem feedByte_len (r : RState) (b : UInt8) (hc : r.command ≠ 0) (hh : r.haveRemaining = false) :
    feedByte r b =
      if r.remCount + 1 > 4 then .protocol
      else if b.toNat &&& 128 = 0 then
        if r.remLen + (b.toNat &&& 127) * r.remMult = 0 then .emit r.command r.packet
        else .cont { lenStep r b with haveRemaining := true, toProcess := (lenStep r b).remLen }
      else .cont (lenStep r b) := by
  simp [feedByte, hc, hh, lenStep]

theorem feedByte_body (r : RState) (b : UInt8) (hc : r.command ≠ 0) (hh : r.haveRemaining = true) :
    feedByte r b =
      if r.toProcess - 1 = 0 then .emit r.command (r.packet ++ [b])
      else .cont { r with toProcess := r.toProcess - 1, packet := r.packet ++ [b] } := by
  simp [feedByte, hc, hh]

theorem feed_cons (r : RState) (b : UInt8) (bs : Bytes) (acc : List (Nat × Bytes)) :
    feed r (b :: bs) acc =
      match feedByte r b with
      | .cont r' => feed r' bs acc
      | .emit c body => feed {} bs (acc ++ [(c, body)])
      | .protocol => (acc, .protocol) := by
  rw [feed]

theorem feed_body_chunk (d : Bytes) : ∀ (r : RState) (bs : Bytes) (acc : List (Nat × Bytes)),
    r.command ≠ 0 → r.haveRemaining = true → 0 < r.toProcess → d.length ≤ r.toProcess →
    feed r (d ++ bs) acc = Ref { r with toProcess := r.toProcess - d.length, packet := r.packet ++ d } bs acc := by
  induction d with
  | nil =>
    intro r bs acc _ _ hp _
    have : ¬ full r := by simp [full]; omega
    simp [Ref_not_full this]
  | cons b d ih =>
    intro r bs acc hc hh hp hl
    simp only [List.length_cons] at hl
    rw [List.cons_append, feed_cons, feedByte_body r b hc hh]
    by_cases h1 : r.toProcess - 1 = 0
    · have hd : d = [] := by
        apply List.eq_nil_of_length_eq_zero; omega
      subst hd
      have hf : full { r with toProcess := r.toProcess - [b].length, packet := r.packet ++ [b] } := by
        simp [full, hh]; omega
      rw [Ref_full hf, if_pos h1]
      rfl
    · rw [if_neg h1]
      show feed _ (d ++ bs) acc = _
      rw [ih { r with toProcess := r.toProcess - 1, packet := r.packet ++ [b] } bs acc hc hh (by show 0 < r.toProcess - 1; omega) (by show _ ≤ r.toProcess - 1; omega)]
      simp only [List.length_cons, List.append_assoc, List.singleton_append]
      congr 2
      omega

/-! ### one call of `packetRead` against the automaton -/

/-- a phase consumed something and the call goes on with `(r', q')` -/
structure Step (acc : List (Nat × Bytes)) (r : RState) (q : List RecvItem) (r' : RState) (q' : List RecvItem) : Prop where
  ref : Ref r (qData q) acc = Ref r' (qData q') acc
  term : qTerm q = qTerm q'
  size : qSize q' < qSize q
  ok : qOk q' = true

/-- what one call (or the rest of one call) that ends with `out` in `(r', q')` means for the automaton -/
def Sound (acc : List (Nat × Bytes)) (r : RState) (q : List RecvItem) :
    RState × List RecvItem × ReadOut → Prop
  | (r', q', .again) => qOk q' = true ∧ Good r' ∧ Ref r (qData q) acc = Ref r' (qData q') acc ∧ qTerm q = qTerm q' ∧
      ¬ full r' ∧ (q' = [] ∨ qSize q' < qSize q) ∧ qSize q' ≤ qSize q
  | (r', q', .againBusy) => qOk q' = true ∧ Good r' ∧ Ref r (qData q) acc = Ref r' (qData q') acc ∧
      qTerm q = qTerm q' ∧ qSize q' < qSize q
  | (_, _, .connLost) => Ref r (qData q) acc = (acc, .ok) ∧ qTerm q = true
  | (_, _, .protocol) => Ref r (qData q) acc = (acc, .protocol)
  | (_, q', .complete c b) => qOk q' = true ∧ Ref r (qData q) acc = Ref {} (qData q') (acc ++ [(c, b)]) ∧
      qTerm q = qTerm q' ∧ qSize q' ≤ qSize q ∧ (qSize q' < qSize q ∨ full r)

theorem Sound.of_step {acc r q r1 q1 res} (s : Step acc r q r1 q1) (h : Sound acc r1 q1 res) : Sound acc r q res := by
  obtain ⟨r', q', out⟩ := res
  obtain ⟨h1, h2, h3, h4⟩ := s
  cases out with
  | again =>
    obtain ⟨a, b, c, d, e, f, g⟩ := h
    exact ⟨a, b, h1.trans c, h2.trans d, e, f.imp id (fun x => by omega), by omega⟩
  | againBusy =>
    obtain ⟨a, b, c, d, e⟩ := h
    exact ⟨a, b, h1.trans c, h2.trans d, by omega⟩
  | connLost => exact ⟨h1.trans h.1, h2.trans h.2⟩
  | protocol => exact h1.trans h
  | complete c b =>
    obtain ⟨a, b, c, d, e⟩ := h
    exact ⟨a, h1.trans b, h2.trans c, by omega, Or.inl (by omega)⟩

theorem readBody_sound (acc : List (Nat × Bytes)) (count : Nat) : ∀ (r : RState) (q : List RecvItem),
    0 < count → r.command ≠ 0 → r.haveRemaining = true → qOk q = true → Sound acc r q (readBody count r q) := by
  induction count with
  | zero => intro r q h; omega
  | succ count ih =>
    intro r q _ hc hh hq
    unfold readBody
    by_cases h0 : r.toProcess = 0
    · rw [if_pos h0]
      have hf : full r := ⟨hh, h0⟩
      exact ⟨hq, by rw [Ref_full hf, Ref_init], rfl, Nat.le_refl _, Or.inr hf⟩
    · rw [if_neg h0]
      have hnf : ¬ full r := fun h => h0 h.2
      have hgood : Good r := fun h => absurd h hc
      have hs := recvN_spec r.toProcess (by omega) q hq
      rcases hrec : recvN r.toProcess q with ⟨res, q'⟩
      rw [hrec] at hs
      cases res with
      | block =>
        obtain ⟨a, b, c, d, e⟩ := hs
        exact ⟨c, hgood, by rw [a], b, hnf, d, e⟩
      | closed =>
        obtain ⟨_, b, c⟩ := hs
        exact ⟨by rw [b, Ref_not_full hnf]; rfl, c⟩
      | error =>
        obtain ⟨_, b, c⟩ := hs
        exact ⟨by rw [b, Ref_not_full hnf]; rfl, c⟩
      | bytes d =>
        obtain ⟨a, b, c, e, f, g⟩ := hs
        have hde : d.isEmpty = false := by simpa using a
        simp only [hde]
        have hstep : Step acc r q { r with toProcess := r.toProcess - d.length, packet := r.packet ++ d } q' :=
          ⟨by rw [c, Ref_not_full hnf, feed_body_chunk d r _ acc hc hh (by omega) b], e, g, f⟩
        by_cases hcount : count = 0
        · simp only [hcount, if_true]
          exact ⟨f, fun h => absurd h hc, hstep.ref, e, g⟩
        · simp only [hcount, if_false]
          exact Sound.of_step hstep (ih _ q' (by omega) hc hh f)

theorem Step.trans {acc r q r1 q1 r2 q2} (s : Step acc r q r1 q1) (t : Step acc r1 q1 r2 q2) : Step acc r q r2 q2 :=
  ⟨s.ref.trans t.ref, s.term.trans t.term, Nat.lt_trans t.size s.size, t.ok⟩

/-- outcome of the remaining-length phase -/
def LenRes (acc : List (Nat × Bytes)) (r : RState) (q : List RecvItem) :
    RState × List RecvItem × Option ReadOut → Prop
  | (r', q', none) => Step acc r q r' q' ∧ r'.command = r.command ∧ r'.haveRemaining = true
  | (r', q', some out) => Sound acc r q (r', q', out)

theorem LenRes.of_step {acc r q r1 q1 res} (s : Step acc r q r1 q1) (hc : r1.command = r.command)
    (h : LenRes acc r1 q1 res) : LenRes acc r q res := by
  obtain ⟨r', q', o⟩ := res
  cases o with
  | none => exact ⟨s.trans h.1, h.2.1.trans hc, h.2.2⟩
  | some out => exact Sound.of_step s h

theorem rlMax_eval (a : Nat) : Gen.rlMaxBytesCmp.evalNat a Gen.rlMaxBytes = decide (a > 4) := by
  simp [Gen.rlMaxBytesCmp, Gen.rlMaxBytes, Cmp.evalNat]

theorem single_of_le_one {d : Bytes} (h0 : d ≠ []) (h1 : d.length ≤ 1) : ∃ b, d = [b] := by
  match d, h0, h1 with
  | [b], _, _ => exact ⟨b, rfl⟩
  | _ :: _ :: _, _, h => simp at h

theorem readRemLen_sound (acc : List (Nat × Bytes)) (fuel : Nat) : ∀ (r : RState) (q : List RecvItem),
    1 ≤ fuel → 5 ≤ fuel + r.remCount → r.command ≠ 0 → r.haveRemaining = false → qOk q = true →
    LenRes acc r q (readRemLen fuel r q) := by
  induction fuel with
  | zero => intro r q h; omega
  | succ fuel ih =>
    intro r q _ hfuel hc hh hq
    have hnf : ¬ full r := fun h => by simp [full, hh] at h
    have hgood : Good r := fun h => absurd h hc
    have hs := recvN_spec 1 (by omega) q hq
    unfold readRemLen
    rcases hrec : recvN 1 q with ⟨res, q'⟩
    rw [hrec] at hs
    cases res with
    | block =>
      obtain ⟨a, b, c, d, e⟩ := hs
      exact ⟨c, hgood, by rw [a], b, hnf, d, e⟩
    | closed =>
      obtain ⟨_, b, c⟩ := hs
      exact ⟨by rw [b, Ref_not_full hnf]; rfl, c⟩
    | error =>
      obtain ⟨_, b, c⟩ := hs
      exact ⟨by rw [b, Ref_not_full hnf]; rfl, c⟩
    | bytes d =>
      obtain ⟨a, b, c, e, f, g⟩ := hs
      obtain ⟨byte, rfl⟩ := single_of_le_one a b
      have href : Ref r (qData q) acc = feed r (byte :: qData q') acc := by rw [c, Ref_not_full hnf]; rfl
      rw [feed_cons, feedByte_len r byte hc hh] at href
      simp only [rlMax_eval, decide_eq_true_eq]
      by_cases h4 : r.remCount + 1 > 4
      · rw [if_pos h4] at href ⊢
        exact href
      · rw [if_neg h4] at href ⊢
        by_cases hb : byte.toNat &&& 128 = 0
        · rw [if_pos hb] at href ⊢
          refine ⟨⟨?_, e, g, f⟩, rfl, rfl⟩
          rw [href]
          by_cases hz : r.remLen + (byte.toNat &&& 127) * r.remMult = 0
          · rw [if_pos hz, Ref_full ⟨rfl, hz⟩]
          · rw [if_neg hz, Ref_not_full (fun h => hz h.2)]
            rfl
        · rw [if_neg hb] at href ⊢
          have hs : Step acc r q (lenStep r byte) q' :=
            ⟨by rw [href, Ref_not_full (fun h => by simp [full, lenStep, hh] at h)], e, g, f⟩
          exact LenRes.of_step hs rfl
            (ih (lenStep r byte) q' (by simp only [lenStep] at *; omega) (by simp only [lenStep]; omega) hc hh f)

/-- phases 2 and 3 of `packetRead` -/
def phase23 (r : RState) (q : List RecvItem) : RState × List RecvItem × ReadOut :=
  match (if !r.haveRemaining then readRemLen 6 r q else (r, q, none) : RState × List RecvItem × Option ReadOut) with
  | (r, q, some out) => (r, q, out)
  | (r, q, none) => readBody Gen.readLoopMax r q

theorem phase23_sound (acc : List (Nat × Bytes)) (r : RState) (q : List RecvItem)
    (hc : r.command ≠ 0) (hq : qOk q = true) : Sound acc r q (phase23 r q) := by
  unfold phase23
  cases hh : r.haveRemaining with
  | true =>
    simp only [Bool.not_true, Bool.false_eq_true, if_false]
    exact readBody_sound acc _ r q (by decide) hc hh hq
  | false =>
    simp only [Bool.not_false, if_true]
    have h := readRemLen_sound acc 6 r q (by omega) (by omega) hc hh hq
    rcases hres : readRemLen 6 r q with ⟨r', q', o⟩
    rw [hres] at h
    cases o with
    | some out => exact h
    | none =>
      obtain ⟨hs, h1, h2⟩ := h
      exact Sound.of_step hs (readBody_sound acc _ r' q' (by decide) (by rw [h1]; exact hc) h2 hs.ok)

theorem packetRead_sound (acc : List (Nat × Bytes)) (r : RState) (q : List RecvItem)
    (hg : Good r) (hq : qOk q = true) :
    Sound acc r q (packetRead r q) := by
  by_cases hc : r.command = 0
  · have hh := hg hc
    have hnf : ¬ full r := fun h => by simp [full, hh] at h
    have hs := recvN_spec 1 (by omega) q hq
    have e : packetRead r q =
        match (match recvN 1 q with
          | (.block, q) => (r, q, some .again)
          | (.closed, q) | (.error, q) => (r, q, some .connLost)
          | (.bytes d, q) =>
            match d with
            | [] => (r, q, some .connLost)
            | c :: _ => if c.toNat = 0 then (r, q, some .protocol) else ({ r with command := c.toNat }, q, none) : RState × List RecvItem × Option ReadOut) with
        | (r, q, some out) => (r, q, out)
        | (r, q, none) => phase23 r q := by
      simp only [packetRead, hc, if_true]; rfl
    rw [e]
    rcases hrec : recvN 1 q with ⟨res, q'⟩
    rw [hrec] at hs
    cases res with
    | block =>
      obtain ⟨a, b, c, d, e⟩ := hs
      exact ⟨c, hg, by rw [a], b, hnf, d, e⟩
    | closed =>
      obtain ⟨_, b, c⟩ := hs
      exact ⟨by rw [b, Ref_not_full hnf]; rfl, c⟩
    | error =>
      obtain ⟨_, b, c⟩ := hs
      exact ⟨by rw [b, Ref_not_full hnf]; rfl, c⟩
    | bytes d =>
      obtain ⟨a, b, c, e, f, g⟩ := hs
      obtain ⟨byte, rfl⟩ := single_of_le_one a b
      have href : Ref r (qData q) acc = feed r (byte :: qData q') acc := by rw [c, Ref_not_full hnf]; rfl
      rw [feed_cons, feedByte_cmd r byte hc] at href
      by_cases hb : byte.toNat = 0
      · rw [if_pos hb] at href
        simp only [if_pos hb]
        exact href
      · rw [if_neg hb] at href
        simp only [if_neg hb]
        have hs : Step acc r q { r with command := byte.toNat } q' :=
          ⟨by rw [href, Ref_not_full (fun h => by simp [full, hh] at h)], e, g, f⟩
        exact Sound.of_step hs (phase23_sound acc _ q' hb f)
  · have e : packetRead r q = phase23 r q := by
      simp only [packetRead, hc, if_false]; rfl
    rw [e]
    exact phase23_sound acc r q hc hq

end Paho.ReaderLemmas
