/-
Byte-level lemmas relating the encoders of Paho/Model/{Bytes,Codec}.lean to the strict decoder
of Paho/Spec/Wire.lean (used by PahoProofs/Properties/C04.lean).
-/
import Paho.Model.Codec
import Paho.Spec.Props
import Paho.Spec.Wire

namespace Paho.WireLemmas
open Paho
open Paho.Spec.Wire (vbiDecode u16 lp propsBlock optProps decode decodeBody subFilters unsubFilters)

/-! ### Except plumbing -/

theorem bind_ok {ε α β : Type} {x : Except ε α} {f : α → Except ε β} {b : β} :
    (x >>= f) = .ok b ↔ ∃ a, x = .ok a ∧ f a = .ok b := by
  cases x <;> simp [bind, Except.bind]

theorem pure_ok {ε α : Type} {a b : α} : (pure a : Except ε α) = .ok b ↔ a = b := by
  simp [pure, Except.pure]

/-! ### remaining length -/

theorem remLenEnc_lt (n : Nat) (h : n < 128) : remLenEnc n = [b8 n] := by
  rw [remLenEnc]
  have h1 : n / 128 = 0 := by omega
  have h2 : n % 128 = n := by omega
  simp [Gen.rlBase, h1, h2]

theorem remLenEnc_ge (n : Nat) (h : 128 ≤ n) :
    remLenEnc n = b8 (n % 128 ||| 128) :: remLenEnc (n / 128) := by
  rw [remLenEnc]
  have h1 : 0 < n / 128 := by omega
  simp [Gen.rlBase, Gen.rlFlag, h1]

theorem or_128 (x : Nat) (h : x < 128) : x ||| 128 = x + 128 := by
  have : ∀ y : Fin 128, y.val ||| 128 = y.val + 128 := by decide
  exact this ⟨x, h⟩

theorem remLenEnc_eq_vbi (n : Nat) (h : n ≤ 268435455) : remLenEnc n = Spec.vbi n := by
  unfold Spec.vbi
  by_cases h1 : n < 128
  · simp [h1, remLenEnc_lt, b8]
  by_cases h2 : n < 16384
  · rw [remLenEnc_ge n (by omega), remLenEnc_lt (n / 128) (by omega), or_128 _ (by omega)]
    simp [h1, h2, b8]
  by_cases h3 : n < 2097152
  · rw [remLenEnc_ge n (by omega), remLenEnc_ge (n / 128) (by omega),
      remLenEnc_lt (n / 128 / 128) (by omega), or_128 _ (by omega), or_128 _ (by omega)]
    have : n / 128 / 128 = n / 16384 := by omega
    simp [h1, h2, h3, b8, this]
  · rw [remLenEnc_ge n (by omega), remLenEnc_ge (n / 128) (by omega),
      remLenEnc_ge (n / 128 / 128) (by omega),
      remLenEnc_lt (n / 128 / 128 / 128) (by omega), or_128 _ (by omega), or_128 _ (by omega),
      or_128 _ (by omega)]
    have e1 : n / 128 / 128 = n / 16384 := by omega
    have e2 : n / 16384 / 128 = n / 2097152 := by omega
    simp [h1, h2, h3, b8, e1, e2]

theorem remLenEncChecked_ok (n : Nat) (h : n ≤ 268435455) : remLenEncChecked n = .ok (Spec.vbi n) := by
  have : ¬ (n > 268435455) := by omega
  simp [remLenEncChecked, Gen.rlGuardCmp, Gen.rlGuardMax, Cmp.evalNat, this, remLenEnc_eq_vbi n h]

theorem remLenEncChecked_err (n : Nat) (h : n > 268435455) : remLenEncChecked n = .error .valueError := by
  simp [remLenEncChecked, Gen.rlGuardCmp, Gen.rlGuardMax, Cmp.evalNat, h]

theorem remLenEncChecked_inv {n : Nat} {x : Bytes} (h : remLenEncChecked n = .ok x) :
    n ≤ 268435455 ∧ x = Spec.vbi n := by
  by_cases hn : n ≤ 268435455
  · rw [remLenEncChecked_ok n hn] at h
    exact ⟨hn, by cases h; rfl⟩
  · rw [remLenEncChecked_err n (by omega)] at h
    cases h

/-! ### byte values -/

theorem b8_toNat (k : Nat) (h : k < 256) : (b8 k).toNat = k := by
  simp [b8, Nat.mod_eq_of_lt h]

theorem ofNat_toNat (k : Nat) (h : k < 256) : (UInt8.ofNat k).toNat = k := b8_toNat k h

theorem vbiDecode_vbi (n : Nat) (h : n ≤ 268435455) (tl : Bytes) :
    vbiDecode (Spec.vbi n ++ tl) = some (n, tl) := by
  unfold Spec.vbi
  by_cases h1 : n < 128
  · simp [h1, vbiDecode, ofNat_toNat n (by omega)]
  by_cases h2 : n < 16384
  · simp only [h1, h2, if_false, if_true, List.cons_append, List.nil_append, vbiDecode,
      ofNat_toNat (n % 128 + 128) (by omega), ofNat_toNat (n / 128) (by omega)]
    have a1 : ¬ (n % 128 + 128 < 128) := by omega
    have a2 : n / 128 < 128 := by omega
    have a3 : ¬ (n / 128 = 0) := by omega
    simp only [a1, a2, a3, if_false, if_true]
    congr 2; omega
  by_cases h3 : n < 2097152
  · simp only [h1, h2, h3, if_false, if_true, List.cons_append, List.nil_append, vbiDecode,
      ofNat_toNat (n % 128 + 128) (by omega), ofNat_toNat (n / 128 % 128 + 128) (by omega),
      ofNat_toNat (n / 16384) (by omega)]
    have a1 : ¬ (n % 128 + 128 < 128) := by omega
    have a1' : ¬ (n / 128 % 128 + 128 < 128) := by omega
    have a2 : n / 16384 < 128 := by omega
    have a3 : ¬ (n / 16384 = 0) := by omega
    simp only [a1, a1', a2, a3, if_false, if_true]
    congr 2; omega
  · simp only [h1, h2, h3, if_false, List.cons_append, List.nil_append, vbiDecode,
      ofNat_toNat (n % 128 + 128) (by omega), ofNat_toNat (n / 128 % 128 + 128) (by omega),
      ofNat_toNat (n / 16384 % 128 + 128) (by omega), ofNat_toNat (n / 2097152) (by omega)]
    have a1 : ¬ (n % 128 + 128 < 128) := by omega
    have a1' : ¬ (n / 128 % 128 + 128 < 128) := by omega
    have a1'' : ¬ (n / 16384 % 128 + 128 < 128) := by omega
    have a2 : n / 2097152 < 128 := by omega
    have a3 : ¬ (n / 2097152 = 0) := by omega
    simp only [a1, a1', a1'', a2, a3, if_false, if_true]
    congr 2; omega

/-! ### two-byte integers and length-prefixed fields -/

/-- the two bytes `struct.pack("!H", k)` produces -/
def u16b (k : Nat) : Bytes := [b8 (k / 256), b8 (k % 256)]

theorem u16b_length (k : Nat) : (u16b k).length = 2 := rfl

theorem u16_u16b (k : Nat) (h : k ≤ 65535) (tl : Bytes) : u16 (u16b k ++ tl) = some (k, tl) := by
  simp only [u16b, List.cons_append, List.nil_append, u16, b8_toNat (k / 256) (by omega),
    b8_toNat (k % 256) (by omega)]
  congr 2; omega

theorem packU16_inv {n : Int} {x : Bytes} (h : packU16 n = .ok x) :
    0 ≤ n ∧ n ≤ 65535 ∧ x = u16b n.toNat := by
  unfold packU16 at h
  split at h
  · rename_i hc
    cases h
    exact ⟨hc.1, hc.2, rfl⟩
  · cases h

theorem packU16_nat_inv {n : Nat} {x : Bytes} (h : packU16 (n : Int) = .ok x) :
    n ≤ 65535 ∧ x = u16b n := by
  obtain ⟨_, h2, h3⟩ := packU16_inv h
  refine ⟨by omega, ?_⟩
  simpa using h3

theorem packU16_err (n : Int) (h : n < 0 ∨ n > 65535) : packU16 n = .error .structError := by
  unfold packU16
  have : ¬ (0 ≤ n ∧ n ≤ 65535) := by omega
  simp [this]

theorem str16_inv {b x : Bytes} (h : str16 b = .ok x) : b.length ≤ 65535 ∧ x = u16b b.length ++ b := by
  simp only [str16, bind_ok, pure_ok] at h
  obtain ⟨l, hl, rfl⟩ := h
  obtain ⟨h1, h2⟩ := packU16_nat_inv hl
  exact ⟨h1, by rw [h2]⟩

theorem str16_err (b : Bytes) (h : b.length > 65535) : str16 b = .error .structError := by
  simp only [str16]
  rw [packU16_err _ (by omega)]
  rfl

theorem take_append_left (a b : List UInt8) : (a ++ b).take a.length = a := by simp
theorem drop_append_left (a b : List UInt8) : (a ++ b).drop a.length = b := by simp

theorem lp_field (b tl : Bytes) (h : b.length ≤ 65535) : lp (u16b b.length ++ (b ++ tl)) = some (b, tl) := by
  unfold lp
  rw [u16_u16b _ h]
  simp

theorem propsBlock_block (body tl : Bytes) (h : body.length ≤ 268435455) :
    propsBlock (Spec.vbi body.length ++ (body ++ tl)) = some (body, tl) := by
  unfold propsBlock
  rw [vbiDecode_vbi _ h]
  simp

theorem optProps_five (body tl : Bytes) (h : body.length ≤ 268435455) :
    optProps 5 (Spec.vbi body.length ++ (body ++ tl)) = some (some body, tl) := by
  simp [optProps, propsBlock_block body tl h]

theorem optProps_not_five (proto : Nat) (h : proto ≠ 5) (b : Bytes) : optProps proto b = some (none, b) := by
  simp [optProps, h]

/-- fixed header + remaining length: the strict decoder hands exactly `body` to `decodeBody` -/
theorem decode_frame (proto : Nat) (hd : UInt8) (body tl : Bytes) (h : body.length ≤ 268435455) :
    decode proto (hd :: (Spec.vbi body.length ++ (body ++ tl))) =
      (decodeBody proto (hd.toNat / 16) (hd.toNat % 16) body).map fun p => (p, tl) := by
  simp only [decode]
  rw [vbiDecode_vbi _ h]
  simp

/-! ### PUBLISH -/

/-- first byte of PUBLISH as computed by `_send_publish` -/
def pubHdr (dup : Bool) (qos : Nat) (retain : Bool) : Nat :=
  0x30 ||| ((boolBit dup &&& 0x1) <<< 3) ||| (qos <<< 1) ||| boolBit retain

def pubBody (topic : Bytes) (mid qos : Nat) (pp payload : Bytes) : Bytes :=
  u16b topic.length ++ (topic ++ ((if qos > 0 then u16b mid else []) ++ (pp ++ payload)))

theorem pubHdr_toNat (dup : Bool) (qos : Nat) (retain : Bool) (hq : qos ≤ 2) :
    (b8 (pubHdr dup qos retain)).toNat = 48 + 8 * boolBit dup + 2 * qos + boolBit retain := by
  have : qos = 0 ∨ qos = 1 ∨ qos = 2 := by omega
  rcases this with rfl | rfl | rfl <;> cases dup <;> cases retain <;> decide

theorem encPublish_inv {proto mid : Nat} {topic payload : Bytes} {qos : Nat} {retain dup : Bool}
    {props : Option Props} {bs : Bytes}
    (h : encPublish proto mid topic payload qos retain dup props = .ok bs) :
    ∃ pp, packProps proto props = .ok pp ∧ topic.length ≤ 65535 ∧ (qos > 0 → mid ≤ 65535) ∧
      (pubBody topic mid qos pp payload).length ≤ 268435455 ∧
      bs = b8 (pubHdr dup qos retain) ::
        (Spec.vbi (pubBody topic mid qos pp payload).length ++ pubBody topic mid qos pp payload) := by
  unfold encPublish at h
  simp only [bind_ok] at h
  obtain ⟨pp, hpp, rlb, hrl, t, ht, hm⟩ := h
  obtain ⟨hrl1, rfl⟩ := remLenEncChecked_inv hrl
  obtain ⟨ht1, rfl⟩ := str16_inv ht
  refine ⟨pp, hpp, ht1, ?_⟩
  have hlen : (pubBody topic mid qos pp payload).length
      = 2 + topic.length + payload.length + (if qos > 0 then 2 else 0) + pp.length := by
    unfold pubBody
    split <;> simp [u16b_length] <;> omega
  rw [hlen]
  by_cases hq : qos > 0
  · simp only [hq, if_true, bind_ok, pure_ok] at hm hrl1 ⊢
    obtain ⟨m, hm, rfl⟩ := hm
    obtain ⟨hm1, rfl⟩ := packU16_nat_inv hm
    refine ⟨fun _ => hm1, hrl1, ?_⟩
    simp [pubBody, pubHdr, hq]
  · simp only [hq, if_false, bind_ok, pure_ok] at hm hrl1 ⊢
    obtain ⟨m, rfl, rfl⟩ := hm
    refine ⟨fun h => h.elim, hrl1, ?_⟩
    simp [pubBody, pubHdr, hq]

theorem packProps_not_five {proto : Nat} {props : Option Props} {pp : Bytes}
    (h : packProps proto props = .ok pp) (h5 : proto ≠ 5) : pp = [] := by
  simp [packProps, h5] at h
  exact h

theorem boolBit_le (b : Bool) : boolBit b ≤ 1 := by cases b <;> simp [boolBit]
theorem boolBit_eq_one (b : Bool) : (boolBit b = 1) = (b = true) := by cases b <;> simp [boolBit]

/-! ### SUBSCRIBE / UNSUBSCRIBE -/

def subBody : List (Bytes × Nat) → Bytes
  | [] => []
  | (t, o) :: rest => u16b t.length ++ (t ++ (b8 o :: subBody rest))

def unsubBody : List Bytes → Bytes
  | [] => []
  | t :: rest => u16b t.length ++ (t ++ unsubBody rest)

theorem subBody_length (l : List (Bytes × Nat)) :
    (subBody l).length = (l.map (fun t => 2 + t.1.length + 1)).sum := by
  induction l with
  | nil => rfl
  | cons a rest ih =>
    obtain ⟨t, o⟩ := a
    simp [subBody, u16b_length, ih]; omega

theorem unsubBody_length (l : List Bytes) :
    (unsubBody l).length = (l.map (fun t => 2 + t.length)).sum := by
  induction l with
  | nil => rfl
  | cons t rest ih =>
    simp [unsubBody, u16b_length, ih]; omega

theorem encSubEntries_inv {l : List (Bytes × Nat)} {x : Bytes} (h : encSubEntries l = .ok x) :
    x = subBody l ∧ ∀ p ∈ l, p.1.length ≤ 65535 ∧ p.2 ≤ 255 := by
  induction l generalizing x with
  | nil =>
    simp only [encSubEntries, pure_ok] at h
    exact ⟨h.symm, by simp⟩
  | cons a rest ih =>
    obtain ⟨t, o⟩ := a
    simp only [encSubEntries, bind_ok] at h
    obtain ⟨tb, htb, r, hr, h⟩ := h
    obtain ⟨ht, rfl⟩ := str16_inv htb
    obtain ⟨rfl, hrest⟩ := ih hr
    by_cases ho : o > 255
    · simp [ho] at h
    · simp only [ho, if_false, pure_ok] at h
      subst h
      refine ⟨by simp [subBody], ?_⟩
      intro p hp
      rcases List.mem_cons.mp hp with rfl | hp
      · exact ⟨ht, by omega⟩
      · exact hrest p hp

theorem encUnsubEntries_inv {l : List Bytes} {x : Bytes} (h : encUnsubEntries l = .ok x) :
    x = unsubBody l ∧ ∀ p ∈ l, p.length ≤ 65535 := by
  induction l generalizing x with
  | nil =>
    simp only [encUnsubEntries, pure_ok] at h
    exact ⟨h.symm, by simp⟩
  | cons t rest ih =>
    simp only [encUnsubEntries, bind_ok, pure_ok] at h
    obtain ⟨tb, htb, r, hr, rfl⟩ := h
    obtain ⟨ht, rfl⟩ := str16_inv htb
    obtain ⟨rfl, hrest⟩ := ih hr
    refine ⟨by simp [unsubBody], ?_⟩
    intro p hp
    rcases List.mem_cons.mp hp with rfl | hp
    · exact ht
    · exact hrest p hp

theorem subFilters_succ (f : Nat) (b : Bytes) (hb : b ≠ []) :
    subFilters (f + 1) b =
      match lp b with
      | some (t, o :: rest) => (subFilters f rest).map ((t, o.toNat) :: ·)
      | _ => none := by
  cases b with
  | nil => exact absurd rfl hb
  | cons x xs => rfl

theorem unsubFilters_succ (f : Nat) (b : Bytes) (hb : b ≠ []) :
    unsubFilters (f + 1) b =
      match lp b with
      | some (t, rest) => (unsubFilters f rest).map (t :: ·)
      | none => none := by
  cases b with
  | nil => exact absurd rfl hb
  | cons x xs => rfl

theorem subFilters_nil (f : Nat) : subFilters f [] = some [] := by cases f <;> rfl
theorem unsubFilters_nil (f : Nat) : unsubFilters f [] = some [] := by cases f <;> rfl

theorem subFilters_subBody (l : List (Bytes × Nat)) (hl : ∀ p ∈ l, p.1.length ≤ 65535 ∧ p.2 ≤ 255)
    (fuel : Nat) (hf : (subBody l).length ≤ fuel) : subFilters fuel (subBody l) = some l := by
  induction l generalizing fuel with
  | nil => exact subFilters_nil fuel
  | cons a rest ih =>
    obtain ⟨t, o⟩ := a
    have ha := hl (t, o) List.mem_cons_self
    have hlen : (subBody ((t, o) :: rest)).length = 2 + t.length + 1 + (subBody rest).length := by
      simp [subBody, u16b_length]; omega
    obtain ⟨f, rfl⟩ : ∃ f, fuel = f + 1 := ⟨fuel - 1, by omega⟩
    have hne : subBody ((t, o) :: rest) ≠ [] := by
      intro h; rw [h] at hlen; simp at hlen; omega
    rw [subFilters_succ f _ hne]
    simp only [subBody, lp_field t _ ha.1]
    rw [ih (fun p hp => hl p (List.mem_cons_of_mem _ hp)) f (by omega), b8_toNat o (by omega)]
    rfl

theorem unsubFilters_unsubBody (l : List Bytes) (hl : ∀ p ∈ l, p.length ≤ 65535)
    (fuel : Nat) (hf : (unsubBody l).length ≤ fuel) : unsubFilters fuel (unsubBody l) = some l := by
  induction l generalizing fuel with
  | nil => exact unsubFilters_nil fuel
  | cons t rest ih =>
    have ha := hl t List.mem_cons_self
    have hlen : (unsubBody (t :: rest)).length = 2 + t.length + (unsubBody rest).length := by
      simp [unsubBody, u16b_length]; omega
    obtain ⟨f, rfl⟩ : ∃ f, fuel = f + 1 := ⟨fuel - 1, by omega⟩
    have hne : unsubBody (t :: rest) ≠ [] := by
      intro h; rw [h] at hlen; simp at hlen; omega
    rw [unsubFilters_succ f _ hne]
    simp only [unsubBody, lp_field t _ ha]
    rw [ih (fun p hp => hl p (List.mem_cons_of_mem _ hp)) f (by omega)]
    rfl

theorem encSubscribe_inv {proto mid : Nat} {topics : List (Bytes × Nat)} {props : Option Props} {bs : Bytes}
    (h : encSubscribe proto mid topics props = .ok bs) :
    ∃ pp, packProps proto props = .ok pp ∧ mid ≤ 65535 ∧ (∀ p ∈ topics, p.1.length ≤ 65535 ∧ p.2 ≤ 255) ∧
      (u16b mid ++ (pp ++ subBody topics)).length ≤ 268435455 ∧
      bs = b8 130 :: (Spec.vbi (u16b mid ++ (pp ++ subBody topics)).length ++ (u16b mid ++ (pp ++ subBody topics))) := by
  simp only [encSubscribe, bind_ok, pure_ok] at h
  obtain ⟨pp, hpp, rlb, hrl, m, hm, body, hbody, rfl⟩ := h
  obtain ⟨hrl1, rfl⟩ := remLenEncChecked_inv hrl
  obtain ⟨hm1, rfl⟩ := packU16_nat_inv hm
  obtain ⟨rfl, hgood⟩ := encSubEntries_inv hbody
  have hlen : (u16b mid ++ (pp ++ subBody topics)).length
      = 2 + pp.length + (topics.map (fun t => 2 + t.1.length + 1)).sum := by
    simp [u16b_length, subBody_length]; omega
  refine ⟨pp, hpp, hm1, hgood, by omega, ?_⟩
  rw [hlen]
  simp

theorem encUnsubscribe_inv {proto mid : Nat} {topics : List Bytes} {props : Option Props} {bs : Bytes}
    (h : encUnsubscribe proto mid topics props = .ok bs) :
    ∃ pp, packProps proto props = .ok pp ∧ mid ≤ 65535 ∧ (∀ p ∈ topics, p.length ≤ 65535) ∧
      (u16b mid ++ (pp ++ unsubBody topics)).length ≤ 268435455 ∧
      bs = b8 162 :: (Spec.vbi (u16b mid ++ (pp ++ unsubBody topics)).length ++ (u16b mid ++ (pp ++ unsubBody topics))) := by
  simp only [encUnsubscribe, bind_ok, pure_ok] at h
  obtain ⟨pp, hpp, rlb, hrl, m, hm, body, hbody, rfl⟩ := h
  obtain ⟨hrl1, rfl⟩ := remLenEncChecked_inv hrl
  obtain ⟨hm1, rfl⟩ := packU16_nat_inv hm
  obtain ⟨rfl, hgood⟩ := encUnsubEntries_inv hbody
  have hlen : (u16b mid ++ (pp ++ unsubBody topics)).length
      = 2 + pp.length + (topics.map (fun t => 2 + t.length)).sum := by
    simp [u16b_length, unsubBody_length]; omega
  refine ⟨pp, hpp, hm1, hgood, by omega, ?_⟩
  rw [hlen]
  simp

/-! ### DISCONNECT -/

theorem vbi_ne_nil (n : Nat) : Spec.vbi n ≠ [] := by
  unfold Spec.vbi; repeat' split
  all_goals simp

theorem decodeBody_disconnect_props (rcb : UInt8) (body : Bytes) (h : body.length ≤ 268435455) :
    decodeBody 5 14 0 (rcb :: (Spec.vbi body.length ++ body)) =
      some (.disconnect (some rcb.toNat) (some body)) := by
  have hpb := propsBlock_block body [] h
  simp only [List.append_nil] at hpb
  obtain ⟨x, xs, hx⟩ : ∃ x xs, Spec.vbi body.length ++ body = x :: xs := by
    cases hv : Spec.vbi body.length with
    | nil => exact absurd hv (vbi_ne_nil _)
    | cons x xs => exact ⟨x, xs ++ body, rfl⟩
  rw [hx] at hpb ⊢
  simp [decodeBody, hpb]

/-! ### CONNECT -/

def connName (proto : Nat) : Bytes := if proto ≥ 4 then [77, 81, 84, 84] else [77, 81, 73, 115, 100, 112]

/-- connect flags byte as computed by `_send_connect` -/
def connFlags (a : ConnectArgs) : Nat :=
  let flags0 : Nat := if a.cleanFlag then 0x02 else 0
  let flags1 : Nat := match a.will with
    | some w => flags0 ||| (0x04 ||| ((w.qos &&& 0x03) <<< 3) ||| ((boolBit w.retain &&& 0x01) <<< 5))
    | none => flags0
  match a.username with
    | some _ => (flags1 ||| 0x80) ||| (match a.password with | some _ => 0x40 | none => 0)
    | none => flags1

def connVer (a : ConnectArgs) : Nat := if a.bridge then a.proto ||| 0x80 else a.proto

def connRl (a : ConnectArgs) (cprops wprops : Bytes) : Nat :=
  2 + (connName a.proto).length + 1 + 1 + 2 + 2 + a.clientId.length
    + (match a.will with | some w => 2 + w.topic.length + 2 + w.payload.length | none => 0)
    + (match a.username with
        | some u => 2 + u.length + (match a.password with | some p => 2 + p.length | none => 0)
        | none => 0)
    + cprops.length + wprops.length

def willEnc (will : Option Will) (wprops : Bytes) : Except Exc Bytes :=
  match will with
  | some w => do
    let t ← str16 w.topic
    let p ← str16 w.payload
    pure (wprops ++ t ++ p)
  | none => pure []

def userEnc (user pass : Option Bytes) : Except Exc Bytes :=
  match user with
  | some u => do
    let ub ← str16 u
    let pb ← match pass with
      | some p => str16 p
      | none => pure []
    pure (ub ++ pb)
  | none => pure []

def wpropsEnc (proto : Nat) (will : Option Will) : Except Exc Bytes :=
  match will with
  | some w => packProps proto w.props
  | none => pure []

theorem encConnect_eq (a : ConnectArgs) : encConnect a = (do
    let cprops ← packProps a.proto a.props
    let wprops ← wpropsEnc a.proto a.will
    let rlb ← remLenEncChecked (connRl a cprops wprops)
    let ka ← packU16 a.keepalive
    let cid ← str16 a.clientId
    let willPart ← willEnc a.will wprops
    let userPart ← userEnc a.username a.password
    pure ([b8 0x10] ++ rlb
      ++ [b8 ((connName a.proto).length / 256), b8 ((connName a.proto).length % 256)] ++ connName a.proto
      ++ [b8 (connVer a), b8 (connFlags a)] ++ ka ++ cprops ++ cid ++ willPart ++ userPart)) := by
  obtain ⟨proto, bridge, clean, ka, cid, will, user, pass, props⟩ := a
  cases will <;> cases user <;> cases pass <;>
    simp only [encConnect, willEnc, userEnc, wpropsEnc, connRl, connName, connVer, connFlags, bind_assoc, pure_bind]

def willBytes (will : Option Will) (wprops : Bytes) : Bytes :=
  match will with
  | some w => wprops ++ (u16b w.topic.length ++ (w.topic ++ (u16b w.payload.length ++ w.payload)))
  | none => []

def userBytes (user pass : Option Bytes) : Bytes :=
  match user with
  | some u => u16b u.length ++ (u ++ (match pass with | some p => u16b p.length ++ p | none => []))
  | none => []

def connBody (a : ConnectArgs) (cprops wprops : Bytes) : Bytes :=
  u16b (connName a.proto).length ++ (connName a.proto ++ (b8 (connVer a) :: b8 (connFlags a) ::
    (u16b a.keepalive.toNat ++ (cprops ++ (u16b a.clientId.length ++ (a.clientId ++
      (willBytes a.will wprops ++ userBytes a.username a.password)))))))

theorem willEnc_inv {will : Option Will} {wprops x : Bytes} (h : willEnc will wprops = .ok x) :
    x = willBytes will wprops ∧ ∀ w, will = some w → w.topic.length ≤ 65535 ∧ w.payload.length ≤ 65535 := by
  cases will with
  | none =>
    simp only [willEnc, pure_ok] at h
    exact ⟨h.symm, by simp⟩
  | some w =>
    simp only [willEnc, bind_ok, pure_ok] at h
    obtain ⟨t, ht, p, hp, rfl⟩ := h
    obtain ⟨ht1, rfl⟩ := str16_inv ht
    obtain ⟨hp1, rfl⟩ := str16_inv hp
    refine ⟨by simp [willBytes], ?_⟩
    intro w' hw'
    cases hw'
    exact ⟨ht1, hp1⟩

theorem userEnc_inv {user pass : Option Bytes} {x : Bytes} (h : userEnc user pass = .ok x) :
    x = userBytes user pass ∧ ∀ u, user = some u → u.length ≤ 65535 ∧ ∀ p, pass = some p → p.length ≤ 65535 := by
  cases user with
  | none =>
    simp only [userEnc, pure_ok] at h
    exact ⟨h.symm, by simp⟩
  | some u =>
    cases pass with
    | none =>
      simp only [userEnc, bind_ok, pure_ok] at h
      obtain ⟨t, ht, p, rfl, rfl⟩ := h
      obtain ⟨ht1, rfl⟩ := str16_inv ht
      refine ⟨by simp [userBytes], ?_⟩
      intro u' hu'
      cases hu'
      exact ⟨ht1, by simp⟩
    | some pw =>
      simp only [userEnc, bind_ok, pure_ok] at h
      obtain ⟨t, ht, p, hp, rfl⟩ := h
      obtain ⟨ht1, rfl⟩ := str16_inv ht
      obtain ⟨hp1, rfl⟩ := str16_inv hp
      refine ⟨by simp [userBytes], ?_⟩
      intro u' hu'
      cases hu'
      refine ⟨ht1, ?_⟩
      intro p' hp'
      cases hp'
      exact hp1

theorem connBody_length (a : ConnectArgs) (cprops wprops : Bytes) (hw : a.will = none → wprops = []) :
    (connBody a cprops wprops).length = connRl a cprops wprops := by
  obtain ⟨proto, bridge, clean, ka, cid, will, user, pass, props⟩ := a
  cases will with
  | none =>
    have := hw rfl
    subst this
    cases user <;> cases pass <;> simp [connBody, connRl, willBytes, userBytes, u16b_length] <;> omega
  | some w =>
    cases user <;> cases pass <;> simp [connBody, connRl, willBytes, userBytes, u16b_length] <;> omega

theorem encConnect_inv {a : ConnectArgs} {bs : Bytes} (h : encConnect a = .ok bs) :
    ∃ cprops wprops, packProps a.proto a.props = .ok cprops ∧ wpropsEnc a.proto a.will = .ok wprops ∧
      0 ≤ a.keepalive ∧ a.keepalive ≤ 65535 ∧ a.clientId.length ≤ 65535 ∧
      (∀ w, a.will = some w → w.topic.length ≤ 65535 ∧ w.payload.length ≤ 65535) ∧
      (∀ u, a.username = some u → u.length ≤ 65535 ∧ ∀ p, a.password = some p → p.length ≤ 65535) ∧
      (connBody a cprops wprops).length ≤ 268435455 ∧
      bs = b8 16 :: (Spec.vbi (connBody a cprops wprops).length ++ connBody a cprops wprops) := by
  rw [encConnect_eq] at h
  simp only [bind_ok, pure_ok] at h
  obtain ⟨cprops, hc, wprops, hw, rlb, hrl, ka, hka, cid, hcid, wp, hwp, up, hup, rfl⟩ := h
  obtain ⟨hrl1, rfl⟩ := remLenEncChecked_inv hrl
  obtain ⟨hk1, hk2, rfl⟩ := packU16_inv hka
  obtain ⟨hcid1, rfl⟩ := str16_inv hcid
  obtain ⟨rfl, hwill⟩ := willEnc_inv hwp
  obtain ⟨rfl, huser⟩ := userEnc_inv hup
  have hwn : a.will = none → wprops = [] := by
    intro hn
    rw [hn] at hw
    simp only [wpropsEnc, pure_ok] at hw
    exact hw.symm
  have hlen := connBody_length a cprops wprops hwn
  refine ⟨cprops, wprops, hc, hw, hk1, hk2, hcid1, hwill, huser, by omega, ?_⟩
  rw [hlen]
  simp [connBody, u16b]


/-- closed form of the connect flags byte -/
def connFlagsVal (a : ConnectArgs) : Nat :=
  2 * boolBit a.cleanFlag
    + (match a.will with | some w => 4 + 8 * w.qos + 32 * boolBit w.retain | none => 0)
    + (match a.username with
        | some _ => 128 + (match a.password with | some _ => 64 | none => 0)
        | none => 0)

theorem connFlags_eq (a : ConnectArgs) (hwq : ∀ w, a.will = some w → w.qos ≤ 2) :
    connFlags a = connFlagsVal a := by
  obtain ⟨proto, bridge, clean, ka, cid, will, user, pass, props⟩ := a
  cases will with
  | none => cases clean <;> cases user <;> cases pass <;> simp [connFlags, connFlagsVal, boolBit]
  | some w =>
    obtain ⟨wt, wp, wq, wr, wpr⟩ := w
    have hq : wq ≤ 2 := hwq _ rfl
    have : wq = 0 ∨ wq = 1 ∨ wq = 2 := by omega
    rcases this with rfl | rfl | rfl <;> cases clean <;> cases wr <;> cases user <;> cases pass <;>
      simp [connFlags, connFlagsVal, boolBit]

theorem connFlagsVal_lt (a : ConnectArgs) (hwq : ∀ w, a.will = some w → w.qos ≤ 2) : connFlagsVal a < 256 := by
  obtain ⟨proto, bridge, clean, ka, cid, will, user, pass, props⟩ := a
  have hc := boolBit_le clean
  cases will with
  | none => cases user <;> cases pass <;> simp [connFlagsVal] <;> omega
  | some w =>
    have hq : w.qos ≤ 2 := hwq _ rfl
    have hr := boolBit_le w.retain
    cases user <;> cases pass <;> simp [connFlagsVal] <;> omega

theorem connVer_toNat (a : ConnectArgs) (hproto : a.proto = 3 ∨ a.proto = 4 ∨ a.proto = 5) :
    (b8 (connVer a)).toNat = a.proto + 128 * boolBit a.bridge := by
  obtain ⟨proto, bridge, clean, ka, cid, will, user, pass, props⟩ := a
  simp only at hproto
  rcases hproto with rfl | rfl | rfl <;> cases bridge <;> simp [connVer, boolBit, b8]


theorem connFlagsVal_bits (a : ConnectArgs) (hwq : ∀ w, a.will = some w → w.qos ≤ 2) :
    connFlagsVal a % 2 = 0 ∧ connFlagsVal a / 2 % 2 = boolBit a.cleanFlag ∧
    connFlagsVal a / 4 % 2 = (match a.will with | some _ => 1 | none => 0) ∧
    connFlagsVal a / 8 % 4 = (match a.will with | some w => w.qos | none => 0) ∧
    connFlagsVal a / 32 % 2 = (match a.will with | some w => boolBit w.retain | none => 0) ∧
    connFlagsVal a / 128 % 2 = (match a.username with | some _ => 1 | none => 0) ∧
    connFlagsVal a / 64 % 2 =
      (match a.username with | some _ => (match a.password with | some _ => 1 | none => 0) | none => 0) := by
  obtain ⟨proto, bridge, clean, ka, cid, will, user, pass, props⟩ := a
  have hc := boolBit_le clean
  cases will with
  | none => cases user <;> cases pass <;> simp [connFlagsVal] <;> omega
  | some w =>
    have hq : w.qos ≤ 2 := hwq _ rfl
    have hr := boolBit_le w.retain
    cases user <;> cases pass <;> simp [connFlagsVal] <;> omega

theorem connName_ok (proto : Nat) (hproto : proto = 3 ∨ proto = 4 ∨ proto = 5) :
    (connName proto).length ≤ 65535 ∧
    ((connName proto = [77, 81, 73, 115, 100, 112] ∧ proto = 3) ∨ (connName proto = [77, 81, 84, 84] ∧ (proto = 4 ∨ proto = 5))) := by
  rcases hproto with rfl | rfl | rfl <;> simp [connName]

theorem lp_field_end (b : Bytes) (h : b.length ≤ 65535) : lp (u16b b.length ++ b) = some (b, []) := by
  simpa using lp_field b [] h

end Paho.WireLemmas
