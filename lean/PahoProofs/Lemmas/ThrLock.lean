/-
C07, section C (lock order): invariants of `LockSys` under every schedule.
-/
import Paho.Model.Threads
namespace Paho.Thr
open Paho

@[simp] theorem upd_same {α : Type} (f : Tid → α) (t : Tid) (v : α) : upd f t v t = v := by simp [upd]
theorem upd_ne {α : Type} (f : Tid → α) (t : Tid) (v : α) {x : Tid} (h : x ≠ t) : upd f t v x = f x := by simp [upd, h]

theorem LockSys.free_iff (s : LockSys) (l : LockId) (t : Tid) :
    s.free l t = true ↔ ∀ u, u < s.n → u = t ∨ s.holders l u = false := by
  simp [LockSys.free]

/-- the invariant of every reachable lock state -/
structure LInv (s : LockSys) : Prop where
  mutex : ∀ l t u, t < s.n → u < s.n → s.holders l t = true → s.holders l u = true → t = u
  disc : ∀ t l, (s.thr t).want = some l → disciplined (s.thr t).held l = true
  fin : ∀ t, (s.thr t).done = true → (s.thr t).held = [] ∧ (s.thr t).want = none

theorem LInv.init (n : Nat) : LInv { n := n } := by
  refine ⟨?_, ?_, ?_⟩ <;> simp [LockSys.holders]

/-- adding a lock that is free for `t` to `t`'s held list keeps mutual exclusion -/
theorem mutex_acquire {s : LockSys} (h : LInv s) {t : Tid} {l : LockId} (th' : LThread)
    (hheld : th'.held = l :: (s.thr t).held) (hfree : s.free l t = true) :
    ∀ l' a b, a < s.n → b < s.n →
      ({ s with thr := upd s.thr t th' } : LockSys).holders l' a = true →
      ({ s with thr := upd s.thr t th' } : LockSys).holders l' b = true → a = b := by
  rw [LockSys.free_iff] at hfree
  have key : ∀ l' a b, a < s.n → b < s.n → a = t → b ≠ t →
      ({ s with thr := upd s.thr t th' } : LockSys).holders l' a = true →
      ({ s with thr := upd s.thr t th' } : LockSys).holders l' b = true → False := by
    intro l' a b ha hb hat hbt h1 h2
    subst hat
    simp only [LockSys.holders, upd_same, upd_ne _ _ _ hbt, hheld, List.contains_cons, Bool.or_eq_true, beq_iff_eq] at h1 h2
    rcases h1 with h1 | h1
    · subst h1
      rcases hfree b hb with h3 | h3
      · exact hbt h3
      · simp only [LockSys.holders] at h3
        rw [h2] at h3; cases h3
    · exact hbt (h.mutex l' a b ha hb h1 h2).symm
  intro l' a b ha hb h1 h2
  by_cases hat : a = t
  · by_cases hbt : b = t
    · rw [hat, hbt]
    · exact (key l' a b ha hb hat hbt h1 h2).elim
  · by_cases hbt : b = t
    · exact (key l' b a hb ha hbt hat h2 h1).elim
    · simp only [LockSys.holders, upd_ne _ _ _ hat, upd_ne _ _ _ hbt] at h1 h2
      exact h.mutex l' a b ha hb h1 h2

theorem LockSys.step_n {s s' : LockSys} {t : Tid} {a : LAct} (hs : s.step t a = some s') : s'.n = s.n := by
  cases a <;> simp only [LockSys.step] at hs
  · split at hs
    · cases hs; rfl
    · cases hs
  · split at hs
    · cases hs; rfl
    · cases hs
  · split at hs
    · split at hs
      · cases hs; rfl
      · cases hs
    · cases hs
  · split at hs
    · split at hs
      · cases hs; rfl
      · cases hs
    · cases hs
  · split at hs
    · cases hs; rfl
    · cases hs

theorem LInv.step {s s' : LockSys} {t : Tid} {a : LAct} (h : LInv s) (hs : s.step t a = some s') : LInv s' := by
  cases a with
  | request l =>
    simp only [LockSys.step] at hs
    split at hs
    · rename_i hc
      cases hs
      obtain ⟨_, hnd, _, hd⟩ := hc
      refine ⟨?_, ?_, ?_⟩
      · intro l' a b ha hb h1 h2
        have e : ∀ x, ({ s with thr := upd s.thr t { s.thr t with want := some l } } : LockSys).holders l' x = s.holders l' x := by
          intro x
          by_cases hx : x = t
          · subst hx; simp [LockSys.holders]
          · simp [LockSys.holders, upd_ne _ _ _ hx]
        rw [e] at h1 h2
        exact h.mutex l' a b ha hb h1 h2
      · intro x l' hw
        by_cases hx : x = t
        · subst hx
          simp only [upd_same] at hw ⊢
          cases hw
          exact hd
        · simp only [upd_ne _ _ _ hx] at hw ⊢
          exact h.disc x l' hw
      · intro x hdone
        by_cases hx : x = t
        · subst hx
          simp only [upd_same] at hdone
          simp [hdone] at hnd
        · simp only [upd_ne _ _ _ hx] at hdone ⊢
          exact h.fin x hdone
    · cases hs
  | tryGrant l =>
    simp only [LockSys.step] at hs
    split at hs
    · rename_i hc
      cases hs
      obtain ⟨_, hnd, hwn, hfree, _⟩ := hc
      refine ⟨?_, ?_, ?_⟩
      · exact mutex_acquire h _ rfl hfree
      · intro x l' hw
        by_cases hx : x = t
        · subst hx
          simp only [upd_same] at hw
          simp [hw] at hwn
        · simp only [upd_ne _ _ _ hx] at hw ⊢
          exact h.disc x l' hw
      · intro x hdone
        by_cases hx : x = t
        · subst hx
          simp only [upd_same] at hdone
          simp [hdone] at hnd
        · simp only [upd_ne _ _ _ hx] at hdone ⊢
          exact h.fin x hdone
    · cases hs
  | grant =>
    simp only [LockSys.step] at hs
    split at hs
    · rename_i l hw0
      split at hs
      · rename_i hc
        cases hs
        obtain ⟨_, hfree, _⟩ := hc
        refine ⟨?_, ?_, ?_⟩
        · exact mutex_acquire h _ rfl hfree
        · intro x l' hw
          by_cases hx : x = t
          · subst hx
            simp only [upd_same] at hw
            cases hw
          · simp only [upd_ne _ _ _ hx] at hw ⊢
            exact h.disc x l' hw
        · intro x hdone
          by_cases hx : x = t
          · subst hx
            simp only [upd_same] at hdone
            have := (h.fin x hdone).2
            rw [hw0] at this
            cases this
          · simp only [upd_ne _ _ _ hx] at hdone ⊢
            exact h.fin x hdone
      · cases hs
    · cases hs
  | release =>
    simp only [LockSys.step] at hs
    split at hs
    · rename_i l0 rest hheld hw0
      split at hs
      · cases hs
        refine ⟨?_, ?_, ?_⟩
        · intro l' a b ha hb h1 h2
          have e : ∀ x, ({ s with thr := upd s.thr t { s.thr t with held := rest } } : LockSys).holders l' x = true → s.holders l' x = true := by
            intro x
            by_cases hx : x = t
            · subst hx
              simp only [LockSys.holders, upd_same, hheld, List.contains_cons, Bool.or_eq_true]
              exact Or.inr
            · simp [LockSys.holders, upd_ne _ _ _ hx]
          exact h.mutex l' a b ha hb (e _ h1) (e _ h2)
        · intro x l' hw
          by_cases hx : x = t
          · subst hx
            simp only [upd_same] at hw
            rw [hw0] at hw
            cases hw
          · simp only [upd_ne _ _ _ hx] at hw ⊢
            exact h.disc x l' hw
        · intro x hdone
          by_cases hx : x = t
          · subst hx
            simp only [upd_same] at hdone
            have := (h.fin x hdone).1
            rw [hheld] at this
            cases this
          · simp only [upd_ne _ _ _ hx] at hdone ⊢
            exact h.fin x hdone
      · cases hs
    · cases hs
  | finish =>
    simp only [LockSys.step] at hs
    split at hs
    · rename_i hc
      cases hs
      obtain ⟨_, _, hwn, hemp⟩ := hc
      refine ⟨?_, ?_, ?_⟩
      · intro l' a b ha hb h1 h2
        have e : ∀ x, ({ s with thr := upd s.thr t { s.thr t with done := true } } : LockSys).holders l' x = s.holders l' x := by
          intro x
          by_cases hx : x = t
          · subst hx; simp [LockSys.holders]
          · simp [LockSys.holders, upd_ne _ _ _ hx]
        rw [e] at h1 h2
        exact h.mutex l' a b ha hb h1 h2
      · intro x l' hw
        by_cases hx : x = t
        · subst hx
          simp only [upd_same] at hw
          simp [hw] at hwn
        · simp only [upd_ne _ _ _ hx] at hw ⊢
          exact h.disc x l' hw
      · intro x hdone
        by_cases hx : x = t
        · subst hx
          simp only [upd_same]
          exact ⟨by simpa using hemp, by simpa using hwn⟩
        · simp only [upd_ne _ _ _ hx] at hdone ⊢
          exact h.fin x hdone
    · cases hs

theorem LInv.run {s : LockSys} (h : LInv s) (sched : List (Tid × LAct)) : LInv (s.run sched) ∧ (s.run sched).n = s.n := by
  induction sched generalizing s with
  | nil => exact ⟨h, rfl⟩
  | cons x rest ih =>
    obtain ⟨t, a⟩ := x
    simp only [LockSys.run]
    cases hs : s.step t a with
    | none => simpa using ih h
    | some s' =>
      have := ih (h.step hs)
      rw [LockSys.step_n hs] at this
      simpa using this

/-! ### deadlock freedom -/

theorem lookup_le_sum (xs : List (LockId × Nat)) (l : LockId) : (xs.lookup l).getD 0 ≤ (xs.map (·.2)).sum := by
  induction xs with
  | nil => simp
  | cons x xs ih =>
    obtain ⟨k, v⟩ := x
    simp only [List.lookup, List.map_cons, List.sum_cons]
    split
    · simp
    · omega

theorem rankOf_le (l : LockId) : rankOf l ≤ (Gen.lockRank.map (·.2)).sum := lookup_le_sum _ _

theorem disciplined_mem {held : List LockId} {l h : LockId} (hd : disciplined held l = true) (hm : h ∈ held) :
    rankOf h < rankOf l ∨ (h = l ∧ reentrant l = true) := by
  simp only [disciplined, List.all_eq_true] at hd
  have := hd h hm
  simpa using this

/-- a waiting thread that cannot move is blocked by another unfinished waiting thread wanting a strictly higher lock,
unless some thread can move -/
theorem blocked_chain {s : LockSys} (h : LInv s) (hno : ∀ t, s.canMove t = false) :
    ∀ k t l, t < s.n → (s.thr t).done = false → (s.thr t).want = some l →
      (Gen.lockRank.map (·.2)).sum < rankOf l + k → False := by
  intro k
  induction k with
  | zero =>
    intro t l _ _ _ hk
    have := rankOf_le l
    omega
  | succ k ih =>
    intro t l ht hnd hw hk
    have hcm := hno t
    simp only [LockSys.canMove, hw, hnd, decide_eq_true ht, Bool.not_false, Bool.and_self, Bool.true_and] at hcm
    have hdt := h.disc t l hw
    -- case (a): t holds l itself and l is not reentrant: impossible
    have hself : (reentrant l || !(s.thr t).held.contains l) = true := by
      cases hr : reentrant l
      · cases hc : (s.thr t).held.contains l
        · rfl
        · have hm : l ∈ (s.thr t).held := by simpa using hc
          rcases disciplined_mem hdt hm with h1 | ⟨_, h1⟩
          · omega
          · rw [hr] at h1; cases h1
      · rfl
    rw [hself, Bool.and_true] at hcm
    -- case (b): some other thread u holds l
    have : ¬ (∀ u, u < s.n → u = t ∨ s.holders l u = false) := by
      rw [← LockSys.free_iff]; simp [hcm]
    have : ∃ u, u < s.n ∧ u ≠ t ∧ s.holders l u = true := by
      apply Classical.byContradiction
      intro hne
      apply this
      intro u hu
      by_cases hut : u = t
      · exact Or.inl hut
      · right
        cases hh : s.holders l u
        · rfl
        · exact (hne ⟨u, hu, hut, hh⟩).elim
    obtain ⟨u, hu, hut, hhold⟩ := this
    have hm : l ∈ (s.thr u).held := by simpa [LockSys.holders] using hhold
    have hund : (s.thr u).done = false := by
      cases hd : (s.thr u).done
      · rfl
      · have := (h.fin u hd).1
        rw [this] at hm
        cases hm
    have hcu := hno u
    cases hwu : (s.thr u).want with
    | none =>
      simp [LockSys.canMove, hwu, hund, hu] at hcu
    | some l' =>
      rcases disciplined_mem (h.disc u l' hwu) hm with h1 | ⟨h1, h2⟩
      · exact ih u l' hu hund hwu (by omega)
      · subst h1
        have hfree : s.free l u = true := by
          rw [LockSys.free_iff]
          intro v hv
          by_cases hvu : v = u
          · exact Or.inl hvu
          · right
            cases hh : s.holders l v
            · rfl
            · exact (hvu (h.mutex l v u hv hu hh hhold)).elim
        simp [LockSys.canMove, hwu, hund, hu, hfree, h2] at hcu

theorem LInv.no_deadlock {s : LockSys} (h : LInv s) (hex : ∃ t, t < s.n ∧ (s.thr t).done = false) :
    ∃ t, s.canMove t = true := by
  apply Classical.byContradiction
  intro hne
  have hno : ∀ t, s.canMove t = false := by
    intro t
    cases hc : s.canMove t
    · rfl
    · exact (hne ⟨t, hc⟩).elim
  obtain ⟨t, ht, hnd⟩ := hex
  cases hw : (s.thr t).want with
  | none =>
    have := hno t
    simp [LockSys.canMove, hw, hnd, ht] at this
  | some l =>
    exact blocked_chain h hno ((Gen.lockRank.map (·.2)).sum + 1) t l ht hnd hw (by omega)

theorem LockSys.canMove_enabled (s : LockSys) (t : Tid) (hc : s.canMove t = true) : ∃ a, (s.step t a).isSome = true := by
  simp only [LockSys.canMove, Bool.and_eq_true, decide_eq_true_eq, Bool.not_eq_true'] at hc
  obtain ⟨⟨ht, hnd⟩, hc⟩ := hc
  cases hw : (s.thr t).want with
  | none =>
    cases hh : (s.thr t).held with
    | nil =>
      refine ⟨.finish, ?_⟩
      simp [LockSys.step, ht, hnd, hw, hh]
    | cons l0 rest =>
      refine ⟨.release, ?_⟩
      simp [LockSys.step, ht, hw, hh]
  | some l =>
    refine ⟨.grant, ?_⟩
    rw [hw] at hc
    simp only [Bool.and_eq_true, Bool.or_eq_true] at hc
    simp only [LockSys.step, hw]
    rw [if_pos ⟨ht, hc.1, hc.2⟩]
    rfl

end Paho.Thr
