/-
Frame lemmas for the timer fields (`now`, `lastIn`, `lastOut`, `pingT`) and `cfg` of the session model:
every handler except `loop_misc()` and `tick` is in the relation `Fr` below.
-/
import PahoProofs.Lemmas.SessionRefine3
set_option linter.unusedSimpArgs false
set_option linter.unusedVariables false
namespace Paho
namespace TimerLemmas
open S SessAct

/-- events that are neither a queued PINGREQ nor a keep-alive `on_disconnect` -/
def goodEv : Ev → Bool
  | .queued _ b => !(b == [0xC0, 0])
  | .onDisconnect n _ => !(n == 16)
  | _ => true

/-- what a handler (other than `loop_misc`/`tick`) may do to the timers; `g`: the new events are `goodEv` -/
structure Fr (g : Bool) (s s' : S) : Prop where
  now : s'.now = s.now
  cfg : s'.cfg = s.cfg
  lastIn : s'.lastIn = s.lastIn ∨ s'.lastIn = s.now
  lastOut : s'.lastOut = s.lastOut ∨ s'.lastOut = s.now
  pingT : s'.pingT = s.pingT ∨ s'.pingT = 0
  newSock : s.sock = none → s'.sock.isSome = true → s'.lastOut = s.now ∧ s'.lastIn = s.now ∧ s'.pingT = 0
  log : ∃ evs, s'.log = s.log ++ evs ∧ (g = true → ∀ e ∈ evs, goodEv e = true)

theorem Fr.refl (g : Bool) (s : S) : Fr g s s :=
  ⟨rfl, rfl, Or.inl rfl, Or.inl rfl, Or.inl rfl, fun h h' => by simp [h] at h', ⟨[], by simp, by simp⟩⟩

theorem Fr.trans {g : Bool} {s t u : S} (h1 : Fr g s t) (h2 : Fr g t u) : Fr g s u := by
  have a1 := h1.now; have a2 := h2.now
  have b1 := h1.lastIn; have b2 := h2.lastIn
  have c1 := h1.lastOut; have c2 := h2.lastOut
  have d1 := h1.pingT; have d2 := h2.pingT
  refine ⟨by omega, h2.cfg.trans h1.cfg, by omega, by omega, by omega, ?_, ?_⟩
  · intro hs hu
    cases ht : t.sock with
    | none => have := h2.newSock ht hu; omega
    | some c => have := h1.newSock hs (by simp [ht]); omega
  · obtain ⟨e1, hl1, hg1⟩ := h1.log
    obtain ⟨e2, hl2, hg2⟩ := h2.log
    refine ⟨e1 ++ e2, by rw [hl2, hl1, List.append_assoc], ?_⟩
    intro hg e he
    rcases List.mem_append.mp he with h | h
    · exact hg1 hg e h
    · exact hg2 hg e h

theorem Fr.weaken {g : Bool} {s t : S} (h : Fr g s t) : Fr false s t :=
  ⟨h.now, h.cfg, h.lastIn, h.lastOut, h.pingT, h.newSock, by
    obtain ⟨e, hl, _⟩ := h.log; exact ⟨e, hl, by simp⟩⟩

/-- a record update of `t` (any constructor application whose timer fields agree with `t`) -/
theorem Fr.mk_r {g : Bool} {s t : S} {cfg' : Cfg} {proto' : Nat} {hostSet' : Bool} {cstate' : ConnState}
    {sock' : Option Nat} {nconn' lastMid' : Nat} {out' : List OutMsg} {inm' : List InMsg} {inflight' : Int}
    {outq' : List OutPkt} {regWrite' firstConnect' inCb' : Bool} {pingT' lastIn' lastOut' now' : Nat}
    {reconnectDelay' : Option Nat} {sendScript' : List SendDir} {infos' : List Info} {raiseOnMessage' : Nat}
    {ackd' discCalled' : Bool} {log' : List Ev}
    (h : Fr g s t) (hcfg : cfg' = t.cfg) (hnow : now' = t.now)
    (hin : lastIn' = t.lastIn ∨ lastIn' = t.now) (hout : lastOut' = t.lastOut ∨ lastOut' = t.now)
    (hp : pingT' = t.pingT ∨ pingT' = 0) (hsock : sock' = t.sock ∨ sock' = none) (hlog : log' = t.log) :
    Fr g s ⟨cfg', proto', hostSet', cstate', sock', nconn', lastMid', out', inm', inflight', outq', regWrite',
      firstConnect', inCb', pingT', lastIn', lastOut', now', reconnectDelay', sendScript', infos',
      raiseOnMessage', ackd', discCalled', log'⟩ := by
  refine h.trans ⟨hnow, hcfg, hin, hout, hp, ?_, ⟨[], by simp [hlog], by simp⟩⟩
  intro hs hs'
  rcases hsock with h1 | h1 <;> simp_all

/-- `Fr g s {t with …}` from `Fr g s t` -/
macro "fr_upd" : tactic =>
  `(tactic| refine Fr.mk_r ?_ rfl (by simp) (by simp) (by simp) (by simp) (by simp) (by simp))

theorem Fr.emit_r {g : Bool} {s t : S} {e : Ev} (h : Fr g s t) (he : g = true → goodEv e = true) :
    Fr g s (t.emit e) := by
  refine h.trans ⟨rfl, rfl, Or.inl rfl, Or.inl rfl, Or.inl rfl, ?_, ⟨[e], rfl, ?_⟩⟩
  · intro h1 h2; simp [emit, h1] at h2
  · intro hg e' he'; simp at he'; subst he'; exact he hg

theorem Fr.regW_r {g : Bool} {s t : S} (h : Fr g s t) : Fr g s t.callSocketRegisterWrite := by
  unfold callSocketRegisterWrite
  split
  · exact h
  · by_cases hreg : t.regWrite = true
    · simp only [hreg, if_true]; exact h
    · by_cases hext : t.cfg.ext = true
      · simp only [hreg, hext, if_true, if_false]
        refine Fr.emit_r ?_ (fun _ => rfl); fr_upd; exact h
      · simp only [hreg, hext, if_true, if_false]
        fr_upd; exact h

theorem Fr.unregW_r {g : Bool} {s t : S} (x : Option Nat) (h : Fr g s t) : Fr g s (t.callSocketUnregisterWrite x) := by
  unfold callSocketUnregisterWrite
  split
  · exact h
  · by_cases hreg : t.regWrite = true
    · by_cases hext : t.cfg.ext = true
      · simp only [hreg, hext, if_true, if_false, Bool.not_true, Bool.false_eq_true]
        refine Fr.emit_r ?_ (fun _ => rfl); fr_upd; exact h
      · simp only [hreg, hext, if_true, if_false, Bool.not_true, Bool.false_eq_true]
        fr_upd; exact h
    · simp only [Bool.not_eq_true] at hreg
      simp only [hreg, Bool.not_false, if_true]; exact h

theorem unregW_sock (t : S) (x : Option Nat) : (t.callSocketUnregisterWrite x).sock = t.sock := by
  unfold callSocketUnregisterWrite
  split
  · rfl
  · simp only; split
    · rfl
    · split <;> simp [emit]

theorem regW_sock (t : S) : t.callSocketRegisterWrite.sock = t.sock := by
  unfold callSocketRegisterWrite
  split
  · rfl
  · simp only; split
    · rfl
    · split <;> simp [emit]

theorem sockClose_sock (t : S) (r : Bool) : (t.sockClose r).sock = none := by
  unfold sockClose
  cases h : t.sock with
  | none => simpa using h
  | some c =>
    simp only [emit]
    split
    · split <;> simp [unregW_sock]
    · simp [unregW_sock]

theorem Fr.sockClose_r {g : Bool} {s t : S} (r : Bool) (h : Fr g s t) : Fr g s (t.sockClose r) := by
  unfold sockClose
  split
  · exact h
  · refine Fr.emit_r ?_ (fun _ => rfl)
    split
    · split
      · refine Fr.emit_r ?_ (fun _ => rfl); refine Fr.unregW_r _ ?_; fr_upd; exact h
      · refine Fr.emit_r ?_ (fun _ => rfl); refine Fr.unregW_r _ ?_; fr_upd; exact h
    · refine Fr.unregW_r _ ?_; fr_upd; exact h

theorem Fr.dod_r {g : Bool} {s t : S} {rc : RC} {b : Bool} (h : Fr g s t) (hrc : g = true → rc ≠ 16) :
    Fr g s (t.doOnDisconnect rc b) := by
  unfold doOnDisconnect
  refine Fr.emit_r h ?_
  intro hg
  have := hrc hg
  simp only [goodEv, Bool.not_eq_true', beq_eq_false_iff_ne, ne_eq]
  intro h16; apply this
  have hh : ∀ x : Int, x.toNat = 16 → x = 16 := by intro x hx; omega
  exact hh rc h16

theorem Fr.setInfo_r {g : Bool} {s t : S} (i : Nat) (f : Info → Info) (h : Fr g s t) : Fr g s (t.setInfo i f) := by
  unfold setInfo; fr_upd; exact h

theorem Fr.nextSend_r {g : Bool} {s t : S} (n : Nat) (h : Fr g s t) : Fr g s (t.nextSend n).1 := by
  unfold nextSend
  split
  · exact h
  · simp only; fr_upd; exact h

/-- backward chaining through the primitives -/
macro "fr_chain" : tactic => `(tactic| iterate 16 (try first
  | assumption
  | exact Fr.refl _ _
  | refine Fr.emit_r ?_ (fun _ => rfl)
  | refine Fr.setInfo_r _ _ ?_
  | refine Fr.regW_r ?_
  | refine Fr.unregW_r _ ?_
  | refine Fr.sockClose_r _ ?_
  | refine Fr.nextSend_r _ ?_
  | fr_upd))

def pwTx (s : S) (data : Bytes) (k : Nat) : S :=
  match s.sock with
  | some c => s.emit (.tx c (data.take k))
  | none => s

def pwPub (s : S) (pkt : OutPkt) : S :=
  if pkt.command &&& 0xF0 = 0x30 ∧ pkt.qos = 0 then
    let s := s.emit (.onPublish pkt.mid)
    match pkt.info with
    | some i => (s.setInfo i (fun x => { x with published := true })).emit (.infoDone i ((s.infos[i]?.map (·.rc)).getD 0))
    | none => s.emit (.exc "AttributeError")
  else s

def pwDisc (s : S) : S :=
  let s : S := { s with lastOut := s.now }
  let s : S := s.sockClose
  let s := if s.cstate = .disconnecting then { s with cstate := .disconnected } else s
  s.doOnDisconnect rcSuccess false

theorem packetWrite_succ (fuel : Nat) (s : S) : packetWrite (fuel + 1) s =
    match s.outq with
    | [] => (s, rcSuccess)
    | pkt :: rest =>
      match ({ s with outq := rest } : S).nextSend (pkt.bytes.drop pkt.pos).length with
      | (s1, .block) => ({ s1.callSocketRegisterWrite with outq := pkt :: s1.callSocketRegisterWrite.outq }, rcAgain)
      | (s1, .error) => ({ s1 with outq := pkt :: s1.outq }, rcConnLost)
      | (s1, .accept k) =>
        if min k (pkt.bytes.drop pkt.pos).length > 0 then
          if pkt.pos + min k (pkt.bytes.drop pkt.pos).length = pkt.bytes.length then
            if pkt.command &&& 0xF0 = 0xE0 then
              (pwDisc (pwPub (pwTx s1 (pkt.bytes.drop pkt.pos) (min k (pkt.bytes.drop pkt.pos).length)) pkt), rcSuccess)
            else packetWrite fuel (pwPub (pwTx s1 (pkt.bytes.drop pkt.pos) (min k (pkt.bytes.drop pkt.pos).length)) pkt)
          else
            packetWrite fuel { pwTx s1 (pkt.bytes.drop pkt.pos) (min k (pkt.bytes.drop pkt.pos).length) with
              outq := { pkt with pos := pkt.pos + min k (pkt.bytes.drop pkt.pos).length } ::
                (pwTx s1 (pkt.bytes.drop pkt.pos) (min k (pkt.bytes.drop pkt.pos).length)).outq }
        else ({ s1 with outq := pkt :: s1.outq, lastOut := s1.now }, rcSuccess) := by
  rw [packetWrite]
  cases s.outq with
  | nil => rfl
  | cons pkt rest =>
    simp only
    rcases ({ s with outq := rest } : S).nextSend (pkt.bytes.drop pkt.pos).length with ⟨s1, d⟩
    cases d <;> rfl

theorem Fr.pwTx_r {g : Bool} {s t : S} (data : Bytes) (k : Nat) (h : Fr g s t) : Fr g s (pwTx t data k) := by
  unfold pwTx; split <;> fr_chain

theorem Fr.pwPub_r {g : Bool} {s t : S} (pkt : OutPkt) (h : Fr g s t) : Fr g s (pwPub t pkt) := by
  unfold pwPub
  split
  · simp only; split <;> fr_chain
  · exact h

theorem Fr.pwDisc_r {g : Bool} {s t : S} (h : Fr g s t) : Fr g s (pwDisc t) := by
  unfold pwDisc
  refine Fr.dod_r ?_ (fun _ => by decide)
  split <;> fr_chain

theorem packetWrite_fr {g : Bool} : ∀ (fuel : Nat) (t : S),
    Fr g t (packetWrite fuel t).1 ∧ (packetWrite fuel t).2 ≠ 16 := by
  intro fuel
  induction fuel with
  | zero => intro t; simp only [packetWrite]; exact ⟨Fr.emit_r (Fr.refl _ _) (fun _ => rfl), by simp [rcSuccess, rcAgain, rcConnLost, rcNoConn]⟩
  | succ fuel ih =>
    intro t
    rw [packetWrite_succ]
    cases hq : t.outq with
    | nil => exact ⟨Fr.refl _ _, by simp [rcSuccess, rcAgain, rcConnLost, rcNoConn]⟩
    | cons pkt rest =>
      simp only
      have hns : Fr g t (nextSend { t with outq := rest } (List.drop pkt.pos pkt.bytes).length).1 := by fr_chain
      rcases hn : nextSend { t with outq := rest } (List.drop pkt.pos pkt.bytes).length with ⟨s1, d⟩
      rw [hn] at hns
      simp only at hns
      cases d with
      | block => exact ⟨by fr_chain, by simp [rcSuccess, rcAgain, rcConnLost, rcNoConn]⟩
      | error => exact ⟨by fr_chain, by simp [rcSuccess, rcAgain, rcConnLost, rcNoConn]⟩
      | accept k =>
        simp only
        generalize min k (List.drop pkt.pos pkt.bytes).length = k'
        split
        · split
          · split
            · exact ⟨Fr.pwDisc_r (Fr.pwPub_r _ (Fr.pwTx_r _ _ hns)), by simp [rcSuccess, rcAgain, rcConnLost, rcNoConn]⟩
            · exact (fun (hih : _ ∧ _) => ⟨Fr.trans (Fr.pwPub_r _ (Fr.pwTx_r _ _ hns)) hih.1, hih.2⟩) (ih _)
          · refine (fun (hih : _ ∧ _) => ⟨Fr.trans ?_ hih.1, hih.2⟩) (ih _)
            fr_upd; exact Fr.pwTx_r _ _ hns
        · exact ⟨by fr_chain, by simp [rcSuccess, rcAgain, rcConnLost, rcNoConn]⟩

theorem loopRcHandle_fr {g : Bool} (t : S) (rc : RC) (hrc : g = true → rc ≠ 16) :
    Fr g t (t.loopRcHandle rc).1 ∧ ((t.loopRcHandle rc).2 = rc ∨ (t.loopRcHandle rc).2 = 0) := by
  unfold loopRcHandle
  split
  · split
    · exact ⟨Fr.refl _ _, Or.inl rfl⟩
    · simp only
      split
      · refine ⟨Fr.dod_r ?_ (fun _ => by simp [rcSuccess, rcAgain, rcConnLost, rcNoConn]), Or.inr rfl⟩; fr_chain
      · refine ⟨Fr.dod_r ?_ hrc, Or.inl rfl⟩; fr_chain
  · exact ⟨Fr.refl _ _, Or.inl rfl⟩

theorem loopRcHandle_ne16 {g : Bool} (t : S) (rc : RC) (hrc : rc ≠ 16) : (t.loopRcHandle rc).2 ≠ 16 := by
  rcases (loopRcHandle_fr (g := false) t rc (by simp)).2 with h | h <;> rw [h]
  · exact hrc
  · decide

theorem loopWrite_fr {g : Bool} (t : S) : Fr g t t.loopWrite.1 ∧ t.loopWrite.2 ≠ 16 := by
  unfold loopWrite
  split
  · exact ⟨Fr.refl _ _, by simp [rcSuccess, rcAgain, rcConnLost, rcNoConn]⟩
  · simp only
    have h1 := packetWrite_fr (g := g) t.writeFuel t
    rcases hpw : t.packetWrite t.writeFuel with ⟨s1, rc⟩
    rw [hpw] at h1
    simp only at h1 ⊢
    obtain ⟨h1, hrc⟩ := h1
    have h2 : ∀ (s2 : S), Fr g t s2 → Fr g t (if s2.wantWrite = true then s2.callSocketRegisterWrite else s2.callSocketUnregisterWrite none) := by
      intro s2 h; split <;> fr_chain
    split
    · exact ⟨h2 _ h1, by simp [rcSuccess, rcAgain, rcConnLost, rcNoConn]⟩
    · split
      · have h3 := loopRcHandle_fr (g := g) s1 rc (fun _ => hrc)
        have h4 := loopRcHandle_ne16 (g := g) s1 rc hrc
        rcases hl : s1.loopRcHandle rc with ⟨s3, rc3⟩
        rw [hl] at h3 h4
        exact ⟨h2 _ (h1.trans h3.1), h4⟩
      · exact ⟨h2 _ h1, by simp [rcSuccess, rcAgain, rcConnLost, rcNoConn]⟩

theorem enqS_fr {g : Bool} (t : S) (pkt : OutPkt) (hb : g = true → pkt.bytes ≠ [0xC0, 0]) : Fr g t (enqS t pkt) := by
  unfold enqS
  split
  · refine Fr.emit_r ?_ ?_
    · fr_chain
    · intro hg; simpa [goodEv] using hb hg
  · fr_chain

theorem packetQueue_fr {g : Bool} (t : S) (pkt : OutPkt) (direct : Bool) (hb : g = true → pkt.bytes ≠ [0xC0, 0]) :
    Fr g t (t.packetQueue pkt direct).1 ∧ (t.packetQueue pkt direct).2 ≠ 16 := by
  rw [packetQueue_eq]
  have h1 := enqS_fr t pkt hb
  split
  · exact ⟨h1.trans (loopWrite_fr _).1, (loopWrite_fr (g := g) _).2⟩
  · exact ⟨Fr.regW_r h1, by simp [rcSuccess, rcAgain, rcConnLost, rcNoConn]⟩

/-! ### encoders never produce the PINGREQ bytes -/

theorem b8_ne192 (n : Nat) (h : n.testBit 5 = true) : b8 n ≠ 0xC0 := by
  intro he
  have h1 : (b8 n).toNat = 192 := by rw [he]; rfl
  simp only [b8, UInt8.toNat_ofNat'] at h1
  have h2 : (n % 2 ^ 8).testBit 5 = true := by
    rw [Nat.testBit_mod_two_pow]; simp [h]
  have : n % 2 ^ 8 = 192 := h1
  rw [this] at h2
  exact absurd h2 (by decide)

theorem ne_ping_of_head {bytes : Bytes} (h : bytes.head? ≠ some 0xC0) : bytes ≠ [0xC0, 0] := by
  intro he; subst he; exact h rfl

theorem encPublish_np {proto mid : Nat} {topic payload : Bytes} {qos : Nat} {retain dup : Bool} {bytes : Bytes}
    (h : encPublish proto mid topic payload qos retain dup none = .ok bytes) : bytes ≠ [0xC0, 0] := by
  apply ne_ping_of_head
  simp only [encPublish, bind, Except.bind, pure, Except.pure] at h
  repeat (split at h <;> try contradiction)
  all_goals
    injection h with h; subst h
    simp only [List.cons_append, List.head?_cons, ne_eq, Option.some.injEq]
    apply b8_ne192
    have h48 : Nat.testBit 48 5 = true := by decide
    simp [Nat.testBit_or, h48]

theorem encCmdMid_np {command : Nat} {mid : Int} {bytes : Bytes} (hc : b8 command ≠ 0xC0)
    (h : encCmdMid command mid false = .ok bytes) : bytes ≠ [0xC0, 0] := by
  apply ne_ping_of_head
  simp only [encCmdMid, bind, Except.bind, pure, Except.pure] at h
  repeat (split at h <;> try contradiction)
  all_goals
    injection h with h; subst h
    simp [hc]

theorem encSimple_np {command : Nat} (hc : b8 command ≠ 0xC0) : encSimple command ≠ [0xC0, 0] := by
  apply ne_ping_of_head; simp [encSimple, hc]

theorem encSubscribe_np {proto mid : Nat} {topics : List (Bytes × Nat)} {bytes : Bytes}
    (h : encSubscribe proto mid topics none = .ok bytes) : bytes ≠ [0xC0, 0] := by
  apply ne_ping_of_head
  simp only [encSubscribe, bind, Except.bind, pure, Except.pure] at h
  repeat (split at h <;> try contradiction)
  all_goals
    injection h with h; subst h
    simp only [List.cons_append, List.head?_cons, ne_eq, Option.some.injEq]
    decide

theorem encUnsubscribe_np {proto mid : Nat} {topics : List Bytes} {bytes : Bytes}
    (h : encUnsubscribe proto mid topics none = .ok bytes) : bytes ≠ [0xC0, 0] := by
  apply ne_ping_of_head
  simp only [encUnsubscribe, bind, Except.bind, pure, Except.pure] at h
  repeat (split at h <;> try contradiction)
  all_goals
    injection h with h; subst h
    simp only [List.cons_append, List.head?_cons, ne_eq, Option.some.injEq]
    decide

theorem encDisconnect_np {proto : Nat} {bytes : Bytes}
    (h : encDisconnect proto none none = .ok bytes) : bytes ≠ [0xC0, 0] := by
  apply ne_ping_of_head
  simp only [encDisconnect, bind, Except.bind, pure, Except.pure] at h
  repeat (split at h <;> try contradiction)
  all_goals
    injection h with h; subst h
    simp only [List.cons_append, List.head?_cons, ne_eq, Option.some.injEq]
    decide

theorem encConnect_np {s : S} {bytes : Bytes} (h : encConnect (connArgs s) = .ok bytes) : bytes ≠ [0xC0, 0] := by
  apply ne_ping_of_head
  rw [encConnect_ok_head h]; decide

/-! ### handlers -/

macro "rc_ne" : tactic =>
  `(tactic| simp [rcSuccess, rcAgain, rcConnLost, rcNoConn, rcProtocol, rcConnRefused, rcQueueSize])

/-- result of a handler returning a return code -/
def FrRc (g : Bool) (t : S) (p : S × RC) : Prop := Fr g t p.1 ∧ p.2 ≠ 16

/-- result of a packet handler -/
def FrH (g : Bool) (t : S) (p : S × HRes) : Prop := Fr g t p.1 ∧ ∀ r, p.2 = .rc r → r ≠ 16

theorem FrRc.of_eq {g : Bool} {t : S} {q p : S × RC} (h : FrRc g t q) (e : q = p) : FrRc g t p := e ▸ h
theorem FrH.of_eq {g : Bool} {t : S} {q p : S × HRes} (h : FrH g t q) (e : q = p) : FrH g t p := e ▸ h

theorem packetQueue_frc {g : Bool} (t : S) (pkt : OutPkt) (direct : Bool) (hb : g = true → pkt.bytes ≠ [0xC0, 0]) :
    FrRc g t (t.packetQueue pkt direct) := packetQueue_fr t pkt direct hb

theorem sendPublish_fr {g : Bool} (t : S) (mid : Nat) (topic payload : Bytes) (qos : Nat) (retain dup : Bool)
    (info : Option Nat) (direct : Bool) (uid : Option Nat) :
    FrRc g t (t.sendPublish mid topic payload qos retain dup info direct uid) := by
  unfold sendPublish
  split
  · exact ⟨Fr.refl _ _, by rc_ne⟩
  · rename_i c hc
    split
    · exact ⟨by fr_chain, by rc_ne⟩
    · rename_i bytes henc
      cases uid with
      | none => exact packetQueue_frc _ _ _ (fun _ => encPublish_np henc)
      | some u =>
        have h1 := packetQueue_frc (g := g) (t.emit (.qPublish c u mid qos dup))
          (mkPkt 0x30 mid qos bytes info) direct (fun _ => encPublish_np henc)
        exact ⟨Fr.trans (by fr_chain) h1.1, h1.2⟩

theorem sendCmdMid_fr {g : Bool} (t : S) (command mid : Nat) (direct : Bool) (hc : b8 command ≠ 0xC0) :
    FrRc g t (t.sendCmdMid command mid direct) := by
  unfold sendCmdMid
  split
  · exact ⟨by fr_chain, by rc_ne⟩
  · rename_i bytes henc
    exact packetQueue_frc _ _ _ (fun _ => encCmdMid_np hc henc)

theorem sendPuback_fr {g : Bool} (t : S) (mid : Nat) : FrRc g t (t.sendPuback mid) :=
  sendCmdMid_fr t 0x40 mid true (by decide)
theorem sendPubrec_fr {g : Bool} (t : S) (mid : Nat) : FrRc g t (t.sendPubrec mid) :=
  sendCmdMid_fr t 0x50 mid true (by decide)
theorem sendPubcomp_fr {g : Bool} (t : S) (mid : Nat) : FrRc g t (t.sendPubcomp mid) :=
  sendCmdMid_fr t 0x70 mid true (by decide)

theorem sendPubrel_fr {g : Bool} (t : S) (mid : Nat) (direct : Bool) : FrRc g t (t.sendPubrel mid direct) := by
  unfold sendPubrel
  have h0 : Fr g t (match t.sock, t.out.find? (·.mid = mid) with
    | some c, some m => t.emit (.qPubrel c m.info mid)
    | _, _ => t) := by split <;> fr_chain
  have h1 := sendCmdMid_fr (g := g) (match t.sock, t.out.find? (·.mid = mid) with
    | some c, some m => t.emit (.qPubrel c m.info mid)
    | _, _ => t) 0x62 mid direct (by decide)
  exact ⟨h0.trans h1.1, h1.2⟩

theorem sendSimple_fr {g : Bool} (t : S) (command : Nat) (hc : g = true → b8 command ≠ 0xC0) :
    FrRc g t (t.sendSimple command) := by
  unfold sendSimple
  exact packetQueue_frc _ _ _ (fun hg => encSimple_np (hc hg))

end TimerLemmas
end Paho
