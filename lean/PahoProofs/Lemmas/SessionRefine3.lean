/-
Refinement (continued): the connect()/reconnect() family, CONNACK, loop_read and the application-level step.
-/
import PahoProofs.Lemmas.SessionRefine
import PahoProofs.Lemmas.SessionRefine2
set_option linter.unusedSimpArgs false
set_option linter.unusedVariables false
namespace Paho
namespace SessAct
open S

/-- `failQueuedQos0` only emits neutral events -/
theorem failQueuedQos0_view (l : List OutPkt) : ∀ (s : S), ∃ evs, (∀ e ∈ evs, neutral e = true) ∧
    view (s.failQueuedQos0 l) = vEmit (view s) evs := by
  induction l with
  | nil => intro s; exact ⟨[], by simp, by simp [failQueuedQos0, vEmit]⟩
  | cons p rest ih =>
    intro s
    unfold failQueuedQos0
    simp only
    split
    · split
      · rename_i i hi
        obtain ⟨evs, hn, hv⟩ := ih ((s.setInfo i (fun _ => { rc := rcConnLost, published := true })).emit (.infoDone i rcConnLost))
        refine ⟨.infoDone i rcConnLost :: evs, ?_, ?_⟩
        · intro e he
          rcases List.mem_cons.mp he with h | h
          · subst h; rfl
          · exact hn e h
        · rw [hv]; simp [view, vEmit, emit, setInfo]
      · exact ih s
    · exact ih s

theorem packetWrite_quiet : ∀ (fuel : Nat) (s : S), s.sock.isSome = true → s.sendScript = [] →
    (∀ p ∈ s.outq, ¬ isDiscCmd p.command) →
    Tr0 (view s) (view (packetWrite fuel s).1) ∧ (packetWrite fuel s).2 = rcSuccess := by
  intro fuel
  induction fuel with
  | zero =>
    intro s _ _ _
    simp only [packetWrite]
    exact ⟨Path.single (Act.emit _ [.fuelOut] (by simp [neutral])) rfl, trivial⟩
  | succ fuel ih =>
    intro s hs hsc hnd
    obtain ⟨c, hc⟩ := Option.isSome_iff_exists.mp hs
    unfold packetWrite
    cases hq : s.outq with
    | nil => exact ⟨Path.refl _, rfl⟩
    | cons pkt rest =>
      have hnd1 : ¬ isDiscCmd pkt.command := hnd pkt (by simp [hq])
      have hnd2 : ∀ p ∈ rest, ¬ isDiscCmd p.command := fun p hp => hnd p (by simp [hq, hp])
      simp only [nextSend, hsc]
      have hle : min (List.drop pkt.pos pkt.bytes).length (List.drop pkt.pos pkt.bytes).length ≤ pkt.bytes.length - pkt.pos := by
        rw [List.length_drop]; exact Nat.min_le_right _ _
      simp only [hc]
      generalize min (List.drop pkt.pos pkt.bytes).length (List.drop pkt.pos pkt.bytes).length = k' at *
      split
      · rename_i hk
        split
        · rename_i hfull
          have hdisc : ¬ (pkt.command &&& 0xF0 = 0xE0) := hnd1
          simp only [hdisc, if_false]
          refine (fun (hih : _ ∧ _) => ⟨Path.trans ?hpath hih.1, hih.2⟩) (ih _ ?hsock ?hscript ?hnd)
          case hsock =>
            split
            · split <;> simp [emit, setInfo, hc]
            · simp [emit, hc]
          case hscript =>
            split
            · split <;> simp [emit, setInfo, hsc]
            · simp [emit, hsc]
          case hnd =>
            split
            · split <;> (simp only [emit, setInfo]; exact hnd2)
            · simp only [emit]; exact hnd2
          refine Path.trans (b := vWrite (view s) pkt rest k') (Path.single (Act.write (view s) pkt rest k' hq hk (by omega)) rfl) ?_
          split
          · split
            · refine Path.neutral rfl ?_ ?_ ?_
              rotate_left
              · simp only [view, vWrite, vEmit, emit, setInfo, hc, hfull, if_true, List.append_assoc]
                rfl
              · simp [neutral]
            · refine Path.neutral rfl ?_ ?_ ?_
              rotate_left
              · simp only [view, vWrite, vEmit, emit, setInfo, hc, hfull, if_true, List.append_assoc]
                rfl
              · simp [neutral]
          · exact Path.of_eq (by simp [view, vWrite, emit, hc, hfull])
        · rename_i hfull
          refine (fun (hih : _ ∧ _) => ⟨Path.trans ?hpath2 hih.1, hih.2⟩) (ih _ ?hsock2 ?hscript2 ?hnd2)
          case hsock2 => simp [emit, hc]
          case hscript2 => simp [emit, hsc]
          case hnd2 =>
            intro p hp
            simp [emit] at hp
            rcases hp with h | h
            · subst h; exact hnd1
            · exact hnd2 p h
          refine Path.of_eq_act (k := .quiet) (Act.write (view s) pkt rest k' hq hk (by omega)) rfl ?_
          simp [view, vWrite, emit, hc, hfull]
      · exact ⟨Path.of_eq (by simp [view, hq, hc]), rfl⟩


theorem loopWrite_quiet (s : S) (hs : s.sock.isSome = true) (hsc : s.sendScript = []) (hnd : ∀ p ∈ s.outq, ¬ isDiscCmd p.command) :
    Tr0 (view s) (view s.loopWrite.1) ∧ s.loopWrite.2 = rcSuccess := by
  unfold loopWrite
  cases hc : s.sock with
  | none => simp [hc] at hs
  | some c =>
    simp only
    have h1 := packetWrite_quiet s.writeFuel s (by simp [hc]) hsc hnd
    rcases hpw : s.packetWrite s.writeFuel with ⟨s1, rc⟩
    rw [hpw] at h1
    simp only at h1 ⊢
    obtain ⟨h1, hrc⟩ := h1
    subst hrc
    simp only [show ¬ (rcSuccess = rcAgain) by decide, show ¬ (rcSuccess > 0) by decide, if_false]
    refine ⟨h1.trans ?_, trivial⟩
    split
    · rw [view_regW]; exact Path.single (Act.regW _) rfl
    · rw [view_unregW]; exact Path.single (Act.unregW _) rfl


/-! ### reconnect -/

def rcA (s : S) : S := ({ s with pingT := 0, cstate := .connecting } : S).sockClose true

def rcB (s : S) : S :=
  let s1 := rcA s
  let s2 := s1.failQueuedQos0 s1.outq
  let s3 : S := { s2 with outq := [], lastIn := s2.now, lastOut := s2.now }
  (s3.messagesReconnectResetOut.messagesReconnectResetIn).emit .onPreConnect

def rcC (s : S) : S :=
  let c := s.nconn + 1
  let s : S := { s with sock := some c, nconn := c, regWrite := false, sendScript := [] }
  let s := s.emit (.sopen c)
  if s.cfg.ext then (if s.inCb then s.emit (.deadlock "_in_callback_mutex") else s.emit (.skOpen c)) else s

theorem reconnect_eq (s : S) (ok : Bool) : s.reconnect ok =
    if !s.hostSet then (s, .raised "ValueError")
    else if !ok then (rcB s, .raised "ConnectionRefusedError")
    else ((rcC (rcB s)).sendConnect.1, .rc (rcC (rcB s)).sendConnect.2) := rfl

theorem view_resetIn (s : S) : view s.messagesReconnectResetIn = view s := by
  unfold messagesReconnectResetIn; split <;> rfl

theorem view_rcA (s : S) : view (rcA s) = vCloseReplace (view s) .connecting := by
  unfold rcA; rw [view_sockClose]; rfl

theorem vSockClose_sock (v : View) (r : Bool) : (vSockClose v r).sock = none := by
  unfold vSockClose; cases h : v.sock <;> simp [h]

theorem vSockClose_cstate (v : View) (r : Bool) : (vSockClose v r).cstate = v.cstate := by
  unfold vSockClose; cases h : v.sock <;> simp

theorem rcB_spec (s : S) : TrQ (view s) (view (rcB s)) ∧ (rcB s).sock = none ∧ (rcB s).outq = [] ∧
    (rcB s).cstate = .connecting := by
  obtain ⟨evs, hn, hv⟩ := failQueuedQos0_view (rcA s).outq (rcA s)
  have hB : view (rcB s) = vEmit { vEmit (vCloseReplace (view s) .connecting) evs with outq := [] } [.onPreConnect] := by
    unfold rcB
    simp only [view_emit, messagesReconnectResetOut, view_resetIn]
    rw [← view_rcA, ← hv]
  have hsock : (view (rcB s)).sock = none := by
    rw [hB]; simp [vEmit, vCloseReplace, vSockClose_sock]
  have hcs : (view (rcB s)).cstate = .connecting := by
    rw [hB]; simp [vEmit, vCloseReplace, vSockClose_cstate]
  have hq : (view (rcB s)).outq = [] := by rw [hB]; rfl
  refine ⟨?_, hsock, hq, hcs⟩
  rw [hB]
  refine Path.trans (Path.single (Act.closeReplace (view s) .connecting (Or.inl rfl)) rfl) ?_
  refine Path.trans (Path.single (Act.emit _ evs hn) rfl) ?_
  refine Path.trans (Path.single (Act.clearQ _ ?_) rfl) ?_
  · simp [vEmit, vCloseReplace, vSockClose_sock]
  · exact Path.single (Act.emit _ [.onPreConnect] (by simp [neutral])) rfl

theorem rcC_facts (s : S) : (rcC s).cfg = s.cfg ∧ (rcC s).sock = some (s.nconn + 1) ∧ (rcC s).sendScript = [] ∧
    (rcC s).outq = s.outq ∧ (rcC s).inCb = s.inCb := by
  cases hext : s.cfg.ext <;> cases hcb : s.inCb <;> simp [rcC, emit, hext, hcb]

theorem sendConnect_rcC (s : S) (hsock : s.sock = none) (hq : s.outq = []) (hcs : s.cstate = .connecting) :
    TrQ (view s) (view (rcC s).sendConnect.1) ∧ (rcC s).sendConnect.2 = rcSuccess := by
  obtain ⟨hcfg, hsk, hss, hoq, hicb⟩ := rcC_facts s
  unfold sendConnect
  simp only
  split
  · rename_i e henc
    have hok : cfgOk s.cfg = false := by
      rw [← hcfg]; exact encConnect_err (s := rcC s) henc
    refine ⟨?_, rfl⟩
    apply Path.of_eq_act (k := .reconn) (Act.openNoConnect (view s) hsock hq hcs hok) rfl
    cases hext : s.cfg.ext <;> cases hcb : s.inCb <;> simp [view, vOpen, rcC, emit, hext, hcb, hq]
  · rename_i bytes henc
    have hhead : bytes.head? = some 0x10 := encConnect_ok_head (s := rcC s) henc
    have hpk : IsConnectPkt (mkPkt 0x10 0 0 bytes) := ⟨rfl, rfl, hhead⟩
    have h1 : TrQ (view s) (view (enqS (rcC s) (mkPkt 0x10 0 0 bytes))) := by
      apply Path.of_eq_act (k := .reconn) (Act.openConnect (view s) _ hsock hq hcs hpk) rfl
      cases hext : s.cfg.ext <;> cases hcb : s.inCb <;> simp [view, vOpen, enqS, rcC, emit, hext, hcb, hq]
    have hE : (enqS (rcC s) (mkPkt 0x10 0 0 bytes)).sock = some (s.nconn + 1) ∧
        (enqS (rcC s) (mkPkt 0x10 0 0 bytes)).sendScript = [] ∧
        (enqS (rcC s) (mkPkt 0x10 0 0 bytes)).outq = [mkPkt 0x10 0 0 bytes] := by
      simp [enqS, hsk, hss, hoq, hq, emit]
    rw [packetQueue_eq]
    split
    · have h2 := loopWrite_quiet (enqS (rcC s) (mkPkt 0x10 0 0 bytes)) (by simp [hE.1]) hE.2.1
        (by rw [hE.2.2]; intro p hp; simp at hp; subst hp; exact (by decide : ¬ isDiscCmd 0x10))
      exact ⟨h1.trans h2.1.toQ, h2.2⟩
    · refine ⟨h1.trans ?_, rfl⟩
      simp only [view_regW]
      exact Path.single (Act.regW _) rfl

theorem reconnect_tr (s : S) (ok : Bool) : TrQ (view s) (view (s.reconnect ok).1) ∧
    ∀ rc, (s.reconnect ok).2 = .rc rc → rc = rcSuccess := by
  rw [reconnect_eq]
  obtain ⟨hp, hsock, hq, hcs⟩ := rcB_spec s
  split
  · exact ⟨Path.refl _, by intro rc h; cases h⟩
  · split
    · exact ⟨hp, by intro rc h; cases h⟩
    · have h2 := sendConnect_rcC (rcB s) hsock hq hcs
      refine ⟨hp.trans h2.1, ?_⟩
      intro rc h
      injection h with h
      rw [← h]; exact h2.2

theorem connectAsync_tr (s : S) : TrQ (view s) (view s.connectAsync) := by
  unfold connectAsync
  apply Path.of_eq_act (k := .reconn) (Act.closeReplace (view s) .connectAsync (Or.inr rfl)) rfl
  show view ({ s.sockClose true with cstate := .connectAsync, hostSet := true }) = vCloseReplace (view s) .connectAsync
  have := view_sockClose s true
  cases hc : s.sock <;> cases hreg : s.regWrite <;> cases hext : s.cfg.ext <;> cases hcb : s.inCb <;>
    simp [view, vCloseReplace, vSockClose, closeEvs, sockClose, callSocketUnregisterWrite, emit, hc, hreg, hext, hcb]

theorem connect_tr (s : S) (ok : Bool) : TrQ (view s) (view (s.connect ok).1) ∧
    ∀ rc, (s.connect ok).2 = .rc rc → rc = rcSuccess := by
  unfold connect
  have h1 : TrQ (view s) (view (if s.proto = 5 then { s with firstConnect := true } else s).connectAsync) := by
    split
    · exact connectAsync_tr { s with firstConnect := true }
    · exact connectAsync_tr s
  have h2 := reconnect_tr (if s.proto = 5 then { s with firstConnect := true } else s).connectAsync ok
  exact ⟨h1.trans h2.1, h2.2⟩


/-! ### CONNACK, loop_read, step -/

theorem handleDisconnect_tr (s : S) (reason : Option Nat) (hs : s.sock.isSome = true) :
    TrN (view s) (view (s.handleDisconnect reason).1) := by
  unfold handleDisconnect
  simp only
  split
  · exact Path.refl _
  · obtain ⟨c, hc⟩ := Option.isSome_iff_exists.mp hs
    apply Path.of_eq_act (k := .loud) (Act.closeBroker (view s) (reason.getD 0) hs) rfl
    cases hreg : s.regWrite <;> cases hext : s.cfg.ext <;> cases hcb : s.inCb <;>
      by_cases hcs : s.cstate = .disconnecting <;> by_cases hcs2 : s.cstate = .disconnected <;>
      simp [view, vCloseBroker, vSockClose, closeEvs, sockClose, callSocketUnregisterWrite,
        disconnectingOrDone, dOD, emit, hc, hreg, hext, hcb, hcs, hcs2]

/-- the result cannot make `loop_read` close the connection: either the code is not an error, or the
socket is already gone (F25: the in-handler reconnect failed and was reported as `rcConnLost`) -/
def QuietRes (p : S × HRes) : Prop := ∀ rc, p.2 = .rc rc → rc > 0 → p.1.sock = none

theorem reconnect_refused_sock {s s' : S} {ok : Bool}
    (h : s.reconnect ok = (s', .raised "ConnectionRefusedError")) : s'.sock = none := by
  rw [reconnect_eq] at h
  split at h
  · simp at h
  · split at h
    · have h1 : rcB s = s' := congrArg Prod.fst h
      rw [← h1]; exact (rcB_spec s).2.1
    · simp at h

theorem handleConnack_tr (s : S) (sp : Bool) (result : Nat) (ok : Bool) (hs : s.sock.isSome = true) :
    TrN (view s) (view (s.handleConnack sp result ok).1) ∨
    (TrQ (view s) (view (s.handleConnack sp result ok).1) ∧ QuietRes (s.handleConnack sp result ok)) := by
  unfold handleConnack
  simp only
  split
  · exact Or.inl (Path.refl _)
  · split
    · split
      · exact Or.inl (Path.refl _)
      · right
        have h := reconnect_tr { s with proto := 3 } ok
        split
        · rename_i s' heq
          rw [heq] at h
          refine ⟨h.1.trans (emit_tr rfl _ _ rfl), ?_⟩
          intro rc _ _
          exact reconnect_refused_sock (s' := s') heq
        · refine ⟨h.1, ?_⟩
          intro rc hrc hpos
          rw [h.2 rc hrc] at hpos
          exact absurd hpos (by decide)
    · left
      by_cases h0 : result = 0
      · subst h0
        simp only [if_true]
        refine Path.trans ?_ (connackResend_tr _ _ _ _)
        refine Path.trans ?_ (emit_tr rfl _ _ rfl)
        exact Path.single (Act.connack (view s) hs) rfl
      · simp only [h0, if_false]
        split
        · exact emit_tr rfl _ _ rfl
        · exact emit_tr rfl _ _ rfl

theorem packetHandle_tr (s : S) (p : RxPkt) (ok : Bool) (hs : s.sock.isSome = true) :
    TrN (view s) (view (s.packetHandle p ok).1) ∨
    (TrQ (view s) (view (s.packetHandle p ok).1) ∧ QuietRes (s.packetHandle p ok)) := by
  cases p with
  | connack sp rc => exact handleConnack_tr s sp rc ok hs
  | publish m => exact Or.inl (handlePublish_tr s m)
  | puback mid => exact Or.inl (handlePubackcomp_tr s mid)
  | pubcomp mid => exact Or.inl (handlePubackcomp_tr s mid)
  | pubrec mid => exact Or.inl (handlePubrec_tr s mid)
  | pubrel mid => exact Or.inl (handlePubrel_tr s mid)
  | suback mid code => exact Or.inl (emit_tr rfl _ _ rfl)
  | unsuback mid => exact Or.inl (emit_tr rfl _ _ rfl)
  | pingreq => exact Or.inl (sendSimple_tr s 0xD0 (by decide) (by decide))
  | pingresp => exact Or.inl (Path.refl _)
  | disconnect r =>
    left
    unfold packetHandle
    simp only
    split
    · exact handleDisconnect_tr s r hs
    · exact Path.refl _
  | badcmd => exact Or.inl (Path.refl _)
  | malformed => exact Or.inl (Path.refl _)

theorem loopRead_tr (s : S) (item : RxItem) (ok : Bool) :
    TrN (view s) (view (s.loopRead item ok).1) ∨ TrQ (view s) (view (s.loopRead item ok).1) := by
  unfold loopRead
  cases hc : s.sock with
  | none => exact Or.inl (Path.refl _)
  | some c =>
    have hs : s.sock.isSome = true := by simp [hc]
    simp only
    cases item with
    | none => exact Or.inl (Path.refl _)
    | eof => exact Or.inl (loopRcHandle_tr s rcConnLost (by decide))
    | err => exact Or.inl (loopRcHandle_tr s rcConnLost (by decide))
    | pkt p =>
      simp only
      have h := packetHandle_tr s p ok hs
      rcases hph : s.packetHandle p ok with ⟨s1, r⟩
      rw [hph] at h
      simp only at h
      cases r with
      | raised n =>
        rcases h with h | h
        · exact Or.inl h
        · exact Or.inr h.1
      | rc rc =>
        simp only
        by_cases hpos : rc > 0
        · simp only [hpos, if_true]
          rcases h with h | h
          · exact Or.inl (h.trans (loopRcHandle_tr { s1 with lastIn := s1.now } rc hpos))
          · right
            have hn : s1.sock = none := h.2 rc rfl hpos
            have hne : rc ≠ 0 := by intro h0; rw [h0] at hpos; exact absurd hpos (by decide)
            simp only [loopRcHandle, hne, ne_eq, not_false_eq_true, if_true, hn, Option.isNone_none]
            exact h.1.trans (Path.of_eq (by simp [view, hn]))
        · simp only [hpos, if_false]
          have h' : TrN (view s) (view ({ s1 with lastIn := s1.now } : S)) ∨ TrQ (view s) (view ({ s1 with lastIn := s1.now } : S)) := by
            rcases h with h | h
            · exact Or.inl h
            · exact Or.inr h.1
          split
          · exact h'
          · split <;> exact h'

theorem neutral_hresEv (r : HRes) : neutral (hresEv r) = true := by cases r <;> rfl

theorem step_tr (s : S) (op : Op) :
    ((TrN (view s) (view (s.step op)) ∨ TrQ (view s) (view (s.step op))) ∧ (op = .disconnect → s.sock = none)) ∨
    (op = .disconnect ∧ ∃ v1, Act .disc (view s) v1 ∧ TrN v1 (view (s.step op))) := by
  cases op with
  | connect ok =>
    left; refine ⟨Or.inr ?_, fun h => by cases h⟩
    exact (connect_tr s ok).1.trans (emit_tr rfl _ _ (neutral_hresEv _))
  | reconnect ok =>
    left; refine ⟨Or.inr ?_, fun h => by cases h⟩
    exact (reconnect_tr s ok).1.trans (emit_tr rfl _ _ (neutral_hresEv _))
  | connectAsync => left; exact ⟨Or.inr (connectAsync_tr s), fun h => by cases h⟩
  | rx item ok =>
    left
    refine ⟨?_, fun h => by cases h⟩
    rcases loopRead_tr s item ok with h | h
    · left; exact h.trans (emit_tr rfl _ _ (neutral_hresEv _))
    · right; exact h.trans (emit_tr rfl _ _ (neutral_hresEv _))
  | publish q t p r => left; refine ⟨Or.inl ?_, fun h => by cases h⟩; exact publish_tr s q t p r
  | subscribe t q => left; refine ⟨Or.inl ?_, fun h => by cases h⟩; exact subscribe_tr s t q
  | unsubscribe t => left; refine ⟨Or.inl ?_, fun h => by cases h⟩; exact unsubscribe_tr s t
  | disconnect =>
    rcases disconnect_tr s with h | h
    · left; exact ⟨Or.inl h.2, fun _ => h.1⟩
    · right; exact ⟨rfl, h⟩
  | loopWrite => left; refine ⟨Or.inl ?_, fun h => by cases h⟩; exact (loopWrite_tr s).trans (emit_tr rfl _ _ rfl)
  | loopMisc => left; refine ⟨Or.inl ?_, fun h => by cases h⟩; exact (loopMisc_tr s).trans (emit_tr rfl _ _ rfl)
  | tick ms => left; refine ⟨Or.inl ?_, fun h => by cases h⟩; exact Path.refl _
  | send sc => left; refine ⟨Or.inl ?_, fun h => by cases h⟩; exact Path.refl _
  | ack m q => left; refine ⟨Or.inl ?_, fun h => by cases h⟩; exact ack_tr s m q
  | raiseOnMessage n => left; refine ⟨Or.inl ?_, fun h => by cases h⟩; exact Path.refl _

end SessAct
end Paho
