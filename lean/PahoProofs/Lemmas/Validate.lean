/-
Helper lemmas for C19: `splitOn`, `hasSub [35,47]` in terms of levels, and the
per-level comparison of the code's test with the grammar.
-/
import Paho.Model.Validate
import Paho.Spec.Topic

namespace Paho

theorem splitOn_ne_nil (sep : UInt8) (bs : List UInt8) : splitOn sep bs ≠ [] := by
  induction bs with
  | nil => simp [splitOn]
  | cons c cs ih =>
    unfold splitOn
    split
    · simp
    · split <;> simp

theorem splitOn_cons_sep (sep : UInt8) (cs : List UInt8) :
    splitOn sep (sep :: cs) = [] :: splitOn sep cs := by
  simp [splitOn]

theorem splitOn_cons_ne (sep c : UInt8) (cs : List UInt8) (l : Level) (ls : List Level)
    (hc : c ≠ sep) (h : splitOn sep cs = l :: ls) :
    splitOn sep (c :: cs) = (c :: l) :: ls := by
  simp [splitOn, hc, h]

/-- levels produced by `splitOn sep` never contain `sep` -/
theorem splitOn_no_sep (sep : UInt8) (bs : List UInt8) :
    ∀ l ∈ splitOn sep bs, sep ∉ l := by
  induction bs with
  | nil => simp [splitOn]
  | cons c cs ih =>
    by_cases hc : c = sep
    · subst hc
      rw [splitOn_cons_sep]
      intro l hl
      rcases List.mem_cons.1 hl with rfl | hl
      · simp
      · exact ih l hl
    · obtain ⟨l, ls, h⟩ := List.exists_cons_of_ne_nil (splitOn_ne_nil sep cs)
      rw [splitOn_cons_ne sep c cs l ls hc h]
      rw [h] at ih
      intro l' hl'
      rcases List.mem_cons.1 hl' with rfl | hl'
      · intro hm
        rcases List.mem_cons.1 hm with e | hm
        · exact hc e.symm
        · exact ih l (by simp) hm
      · exact ih l' (by simp [hl'])

/-- "some non-last level ends with `#`" -/
def hashSlash : List Level → Bool
  | [] => false
  | [_] => false
  | l :: l' :: ls => l.getLast? = some 35 || hashSlash (l' :: ls)

theorem hashSlash_cons (l : Level) (ls : List Level) :
    hashSlash (l :: ls) = (!ls.isEmpty && (l.getLast? = some 35 || hashSlash ls)) := by
  cases ls <;> simp [hashSlash]

/-- the first byte is the separator iff the first level is empty and not the only one -/
theorem head_sep_iff (sep : UInt8) (cs : List UInt8) (l : Level) (ls : List Level)
    (h : splitOn sep cs = l :: ls) : cs.head? = some sep ↔ (l = [] ∧ ls ≠ []) := by
  cases cs with
  | nil => simp [splitOn] at h; simp [h]
  | cons d cs' =>
    by_cases hd : d = sep
    · subst hd
      rw [splitOn_cons_sep] at h
      simp only [List.cons.injEq] at h
      have := splitOn_ne_nil d cs'
      simp [← h.1, ← h.2, this]
    · obtain ⟨l', ls', h'⟩ := List.exists_cons_of_ne_nil (splitOn_ne_nil sep cs')
      rw [splitOn_cons_ne sep d cs' l' ls' hd h'] at h
      simp only [List.cons.injEq] at h
      simp [← h.1, hd]

theorem hasSub_hashSlash_cons (c : UInt8) (cs : List UInt8) :
    hasSub [35, 47] (c :: cs) = ((c = 35 && cs.head? = some 47) || hasSub [35, 47] cs) := by
  cases cs with
  | nil => simp [hasSub, isPrefix]
  | cons d cs' =>
    simp only [hasSub, isPrefix, List.head?_cons, Bool.and_true]
    congr 1
    simp [eq_comm]

/-- `b'#/' in sub` iff some non-last level of `sub.split(b'/')` ends with `#` -/
theorem hasSub_eq_hashSlash (bs : List UInt8) :
    hasSub [35, 47] bs = hashSlash (splitOn 47 bs) := by
  induction bs with
  | nil => simp [hasSub, splitOn, hashSlash]
  | cons c cs ih =>
    obtain ⟨l, ls, h⟩ := List.exists_cons_of_ne_nil (splitOn_ne_nil 47 cs)
    rw [hasSub_hashSlash_cons, ih]
    by_cases hc : c = 47
    · subst hc
      rw [splitOn_cons_sep, h]
      simp [hashSlash]
    · rw [splitOn_cons_ne 47 c cs l ls hc h, h, hashSlash_cons, hashSlash_cons]
      have hh := head_sep_iff 47 cs l ls h
      cases l with
      | nil =>
        cases ls with
        | nil => simp at hh; simp [hh]
        | cons l' ls' =>
          simp at hh
          simp [hh]
      | cons d l' =>
        have : cs.head? ≠ some 47 := by
          intro e; have := hh.1 e; simp at this
        simp [this, List.getLast?_cons_cons]

/-- the code's per-level test -/
def lvlBad (p : Level) : Bool :=
  decide (p.length > 1) && (p.contains 43 || p.contains 35)

theorem getLast?_contains (l : Level) (c : UInt8) (h : l.getLast? = some c) : l.contains c = true := by
  have := List.mem_of_getLast? h
  simpa using this

/-- non-last level: bad, or ends with `#`  ⇔  not a legal non-final level -/
theorem lvlBad_nonlast (l : Level) :
    (lvlBad l || decide (l.getLast? = some 35)) = !Spec.levelOk l := by
  match l with
  | [] => simp [lvlBad, Spec.levelOk]
  | [c] =>
    simp only [lvlBad, Spec.levelOk, Spec.plus, Spec.hash]
    by_cases h1 : c = 35
    · subst h1; decide
    · by_cases h2 : c = 43
      · subst h2; decide
      · have h1' : ¬ 35 = c := fun e => h1 e.symm
        have h2' : ¬ 43 = c := fun e => h2 e.symm
        simp [h1, h2, h1', h2']
  | c :: d :: l' =>
    by_cases h : (c :: d :: l').getLast? = some 35
    · have := getLast?_contains _ _ h
      simp only [lvlBad, Spec.levelOk, Spec.plus, Spec.hash, h, this]
      simp
    · simp only [lvlBad, Spec.levelOk, Spec.plus, Spec.hash, h]
      simp

/-- last level -/
theorem lvlBad_last (l : Level) :
    lvlBad l = !(decide (l = [Spec.hash]) || Spec.levelOk l) := by
  match l with
  | [] => simp [lvlBad, Spec.levelOk]
  | [c] =>
    simp only [lvlBad, Spec.levelOk, Spec.plus, Spec.hash]
    by_cases h1 : c = 35
    · subst h1; decide
    · by_cases h2 : c = 43
      · subst h2; decide
      · have h1' : ¬ 35 = c := fun e => h1 e.symm
        have h2' : ¬ 43 = c := fun e => h2 e.symm
        simp [h1, h2, h1', h2']
  | c :: d :: l' =>
    simp only [lvlBad, Spec.levelOk, Spec.plus, Spec.hash]
    simp

theorem validLevels_cons_cons (l l' : Level) (ls : List Level) :
    Spec.validLevels (l :: l' :: ls) = (Spec.levelOk l && Spec.validLevels (l' :: ls)) := by
  simp [Spec.validLevels]

/-- level-list form of the equivalence -/
theorem levels_check (L : List Level) (hL : L ≠ []) :
    (L.any lvlBad || hashSlash L) = !Spec.validLevels L := by
  induction L with
  | nil => exact absurd rfl hL
  | cons l ls ih =>
    cases ls with
    | nil =>
      simp only [List.any_cons, List.any_nil, Bool.or_false, hashSlash, Spec.validLevels]
      exact lvlBad_last l
    | cons l' ls' =>
      have ih := ih (by simp)
      have hl := lvlBad_nonlast l
      rw [List.any_cons, hashSlash, validLevels_cons_cons, Bool.not_and, ← ih, ← hl]
      generalize lvlBad l = a
      generalize (l' :: ls').any lvlBad = b
      generalize hashSlash (l' :: ls') = d
      generalize decide (l.getLast? = some 35) = e
      cases a <;> cases b <;> cases d <;> cases e <;> rfl

end Paho
