/-
Facts about `_recv_impl` needed to put the MQTT packet reader on top of it and not part of `StepRel`:
the terminal event of the raw queue and the absence of empty chunks are preserved by every call; "closed" is
reported only with EOF / error at the head of the raw queue — hence, when the whole frame stream arrives, only after
every frame has been consumed (`recv_closed_nil`); what a call does when no frame is pending (`recv_empty`).
-/
import PahoProofs.Lemmas.WsRecvStep
import PahoProofs.Lemmas.ReaderFeed
namespace Paho.Ws
open Paho Paho.ReaderLemmas

/-- from raw queue `q` to `q'`: same terminal event, still no empty chunks -/
def QAux (q q' : List RecvItem) : Prop := qTerm q' = qTerm q ∧ (qOk q = true → qOk q' = true)

theorem QAux.refl (q : List RecvItem) : QAux q q := ⟨rfl, id⟩

theorem QAux.trans {a b c : List RecvItem} (h1 : QAux a b) (h2 : QAux b c) : QAux a c :=
  ⟨h2.1.trans h1.1, fun h => h2.2 (h1.2 h)⟩

theorem recvN_aux (n : Nat) (hn : 0 < n) (q : List RecvItem) :
    QAux q (recvN n q).2 ∧
    (qOk q = true → ∀ d, (recvN n q).1 = .bytes d → d ≠ []) ∧
    ((recvN n q).1 = .closed ∨ (recvN n q).1 = .error → flat (recvN n q).2 = [] ∧ qTerm (recvN n q).2 = true) := by
  cases q with
  | nil => simp [recvN, QAux]
  | cons it rest =>
    cases it with
    | eagain => simp [recvN, QAux, qTerm, qOk]
    | eof => simp [recvN, QAux, qTerm, flat]
    | err => simp [recvN, QAux, qTerm, flat]
    | data b =>
      by_cases h : b.length ≤ n
      · simp only [recvN, h, if_true]
        refine ⟨⟨by simp [qTerm], fun hq => by simp [qOk] at hq; exact hq.2⟩, ?_, by simp⟩
        intro hq d hd
        simp [qOk] at hq
        cases hd
        exact hq.1
      · simp only [recvN, h, if_false]
        refine ⟨⟨by simp [qTerm], fun hq => ?_⟩, ?_, by simp⟩
        · simp [qOk] at hq ⊢
          exact ⟨by omega, hq.2⟩
        · intro _ d hd
          cases hd
          intro h0
          have := congrArg List.length h0
          simp only [List.length_take, List.length_nil] at this
          omega

/-- what the read chain of one call preserves -/
def AuxSpec {α : Type} (r : Step α) (c : Cur) : Prop :=
  match r with
  | .ok _ c' => QAux c.q c'.q
  | .block c' => QAux c.q c'.q
  | .closed c' => QAux c.q c'.q ∧ (qOk c.q = true → flat c'.q = [] ∧ qTerm c'.q = true)

theorem AuxSpec.bind {α β : Type} {r : Step α} {f : α → Cur → Step β} {c : Cur}
    (h : AuxSpec r c) (hf : ∀ a c', AuxSpec (f a c') c') : AuxSpec (r.bind f) c := by
  cases r with
  | ok a c' =>
    have h2 := hf a c'
    show AuxSpec (f a c') c
    cases hr : f a c' with
    | ok b c2 => rw [hr] at h2; exact QAux.trans h h2
    | block c2 => rw [hr] at h2; exact QAux.trans h h2
    | closed c2 => rw [hr] at h2; exact ⟨QAux.trans h h2.1, fun hq => h2.2 (h.2 hq)⟩
  | block c' => exact h
  | closed c' => exact h

theorem bufferedRead_aux (n : Nat) (c : Cur) : AuxSpec (bufferedRead n c) c := by
  unfold bufferedRead
  by_cases hw : n - (c.buf.length - c.head) > 0
  · simp only [hw, if_true]
    have hs := recvN_aux (n - (c.buf.length - c.head)) hw c.q
    rcases hrec : recvN (n - (c.buf.length - c.head)) c.q with ⟨res, q'⟩
    rw [hrec] at hs
    obtain ⟨h1, h2, h3⟩ := hs
    cases res with
    | block => exact h1
    | closed => exact ⟨h1, fun _ => h3 (Or.inl rfl)⟩
    | error => exact ⟨h1, fun _ => h3 (Or.inr rfl)⟩
    | bytes d =>
      simp only
      by_cases he : d.isEmpty = true
      · rw [if_pos he]
        refine ⟨h1, fun hq => ?_⟩
        have := h2 hq d rfl
        simp at he
        exact absurd he this
      · rw [if_neg he]
        split
        · exact h1
        · exact h1
  · simp only [hw, if_false]
    exact QAux.refl _

theorem readLen_aux (l : Nat) (c : Cur) : AuxSpec (readLen l c) c := by
  unfold readLen
  split
  · exact AuxSpec.bind (bufferedRead_aux 2 c) (fun _ c' => QAux.refl _)
  · split
    · exact AuxSpec.bind (bufferedRead_aux 8 c) (fun _ c' => QAux.refl _)
    · exact QAux.refl _

theorem readKey_aux (m : Bool) (c : Cur) : AuxSpec (readKey m c) c := by
  unfold readKey
  split
  · exact AuxSpec.bind (bufferedRead_aux 4 c) (fun _ c' => QAux.refl _)
  · exact QAux.refl _

theorem readHeader_aux (c : Cur) : AuxSpec (readHeader c) c := by
  unfold readHeader
  refine AuxSpec.bind (bufferedRead_aux 1 c) (fun h1 c1 => ?_)
  refine AuxSpec.bind (bufferedRead_aux 1 c1) (fun h2 c2 => ?_)
  refine AuxSpec.bind (readLen_aux _ c2) (fun pl c3 => ?_)
  exact AuxSpec.bind (readKey_aux _ c3) (fun k c4 => QAux.refl _)

theorem readPayload_aux (h : Hdr) (s r : Nat) (c : Cur) : AuxSpec (readPayload h s r c) c := by
  unfold readPayload
  split
  · exact AuxSpec.bind (bufferedRead_aux r c) (fun _ c' => QAux.refl _)
  · exact QAux.refl _

/-- every `_recv_impl` call: same terminal event afterwards, still no empty chunks; "closed" only with EOF / error at
the head of the raw queue -/
theorem recvImpl_aux (st : RecvSt) (q : List RecvItem) (n : Nat) :
    QAux q (recvImpl st q n).2.1 ∧
    ((recvImpl st q n).2.2.1 = .closed → qOk q = true →
      flat (recvImpl st q n).2.1 = [] ∧ qTerm (recvImpl st q n).2.1 = true) := by
  have hH := readHeader_aux { buf := st.readbuffer, head := 0, q := q }
  cases hr : readHeader { buf := st.readbuffer, head := 0, q := q } with
  | block c => rw [hr] at hH; rw [recvImpl_hdr_block st q n hr]; exact ⟨hH, fun h => by cases h⟩
  | closed c => rw [hr] at hH; rw [recvImpl_hdr_closed st q n hr]; exact ⟨hH.1, fun _ hq => hH.2 hq⟩
  | ok h c =>
    rw [hr] at hH
    have hP := readPayload_aux h st.payloadHead (rIdx st n h.plen) c
    cases hr2 : readPayload h st.payloadHead (rIdx st n h.plen) c with
    | block c2 =>
      rw [hr2] at hP; rw [recvImpl_pl_block st q n hr hr2]
      exact ⟨QAux.trans hH hP, fun h => by cases h⟩
    | closed c2 =>
      rw [hr2] at hP; rw [recvImpl_pl_closed st q n hr hr2]
      exact ⟨QAux.trans hH hP.1, fun _ hq => hP.2 (hH.2 hq)⟩
    | ok x c2 =>
      obtain ⟨p, res, ph⟩ := x
      rw [hr2] at hP; rw [recvImpl_pl_ok st q n hr hr2]
      have hne : ∀ (b : Bytes), (if (h.opcode = 2 ∨ h.opcode = 0) ∧ h.plen > 0 then RecvRes.data b else RecvRes.wouldBlock) ≠ .closed := by
        intro b; split <;> intro hh <;> cases hh
      split
      · exact ⟨QAux.trans hH hP, fun hh => absurd hh (hne _)⟩
      · exact ⟨QAux.trans hH hP, fun hh => absurd hh (hne _)⟩

/-- when the whole frame stream arrives and the raw queue has no empty chunks, `_recv_impl` reports "closed" only
after every frame has been consumed -/
theorem recv_closed_nil (fs : List Frame) (st : RecvSt) (q : List RecvItem) (n : Nat) (hI : Inv fs st q)
    (hc : st.readbuffer ++ flat q = encs fs) (hq : qOk q = true)
    (hres : (recvImpl st q n).2.2.1 = .closed) : fs = [] := by
  cases fs with
  | nil => rfl
  | cons f rest =>
    exfalso
    have hwf_f : f.wf := hI.1 f (by simp)
    have hencl := f.enc_length
    have hS : ({ buf := st.readbuffer, head := 0, q := q } : Cur).stream = f.enc ++ encs rest := hc
    have hp0 : ({ buf := st.readbuffer, head := 0, q := q } : Cur).stream <+: f.enc ++ encs rest := by
      rw [hS]; exact List.prefix_refl _
    have hs := readHeader_spec (encs rest) hwf_f { buf := st.readbuffer, head := 0, q := q } rfl hp0
    have hA := readHeader_aux { buf := st.readbuffer, head := 0, q := q }
    -- a failed read with nothing more to come contradicts the presence of the whole frame
    have key : ∀ (c' : Cur) (T : Nat), Fail { buf := st.readbuffer, head := 0, q := q } c' T → T ≤ f.enc.length →
        flat c'.q = [] → False := by
      intro c' T hF hT hfl
      have h1 : c'.buf ++ flat c'.q = f.enc ++ encs rest := hF.stream.trans hS
      rw [hfl, List.append_nil] at h1
      have h2 := hF.short
      have h3 : c'.buf.length = f.enc.length + (encs rest).length := by rw [h1]; simp
      omega
    cases hr : readHeader { buf := st.readbuffer, head := 0, q := q } with
    | block c' => rw [recvImpl_hdr_block st q n hr] at hres; cases hres
    | closed c' =>
      rw [hr] at hs hA
      exact key c' f.hdrLen hs (by omega) (hA.2 hq).1
    | ok hd c1 =>
      rw [hr] at hs hA
      obtain ⟨ok1, hhd, hc1⟩ := hs
      subst hhd
      have hrle : rIdx st n f.payload.length ≤ f.payload.length := by unfold rIdx; split <;> omega
      have hp1 : c1.stream <+: f.enc ++ encs rest := by rw [ok1.stream]; exact hp0
      have hs2 := Spec.rebase ok1
        (readPayload_spec (encs rest) c1 ok1.headLe hc1 hp1 st.payloadHead (rIdx st n f.payload.length) hrle)
      have hP := readPayload_aux { opcode := f.opcode, plen := f.payload.length, key := f.mask } st.payloadHead
        (rIdx st n f.payload.length) c1
      cases hr2 : readPayload { opcode := f.opcode, plen := f.payload.length, key := f.mask } st.payloadHead
          (rIdx st n f.payload.length) c1 with
      | block c' => rw [recvImpl_pl_block st q n hr hr2] at hres; cases hres
      | closed c' =>
        rw [hr2] at hs2 hP
        exact key c' (f.hdrLen + rIdx st n f.payload.length) hs2 (by omega) (hP.2 (hA.2 hq)).1
      | ok x c2 =>
        obtain ⟨p, res, ph⟩ := x
        rw [recvImpl_pl_ok st q n hr hr2] at hres
        simp only at hres
        split at hres <;> (simp only at hres; split at hres <;> cases hres)

/-- no frame pending and nothing buffered: a call that blocks either finds the raw queue empty (and leaves it so) or
takes a would-block marker off it -/
theorem recv_empty (st : RecvSt) (q : List RecvItem) (n : Nat) (hb : st.readbuffer = []) (hf : flat q = [])
    (hq : qOk q = true) (hres : (recvImpl st q n).2.2.1 = .wouldBlock) :
    ((recvImpl st q n).2.1 = [] ∧ (recvImpl st q n).1.readbuffer = []) ∨
    ((recvImpl st q n).1.readbuffer = [] ∧ qMeasure (recvImpl st q n).2.1 < qMeasure q) := by
  cases q with
  | nil =>
    left
    simp [recvImpl, readHeader, bufferedRead, Step.bind, recvN, hb]
  | cons it rest =>
    cases it with
    | eagain =>
      right
      simp [recvImpl, readHeader, bufferedRead, Step.bind, recvN, hb, qMeasure, flat]
    | eof => simp [recvImpl, readHeader, bufferedRead, Step.bind, recvN, hb] at hres
    | err => simp [recvImpl, readHeader, bufferedRead, Step.bind, recvN, hb] at hres
    | data b =>
      exfalso
      simp [qOk] at hq
      simp [flat] at hf
      exact hq.1 hf.1

end Paho.Ws
