/-
Helper lemmas for C05 part 1: the byte-at-a-time automaton `feed` of ReaderFeed.lean computes the
packet-at-a-time reference split of the byte stream (`frames`, the same function as `splitStream` of C05).
-/
import PahoProofs.Lemmas.ReaderFeed

namespace Paho.ReaderLemmas
open Paho

/-- remaining-length decoder of the reference split (same as `splitStream.rl`) -/
def lenDec : Nat → Bytes → Nat → Nat → Option (Option (Nat × Bytes))
  | 0, _, _, _ => none
  | _, [], _, _ => some none
  | k + 1, b :: bs, mult, acc =>
    let acc := acc + (b.toNat &&& 127) * mult
    if b.toNat &&& 128 = 0 then some (some (acc, bs)) else lenDec k bs (mult * 128) acc

/-- same as `splitStream` -/
def frames : (fuel : Nat) → Bytes → List (Nat × Bytes) × Bool
  | 0, _ => ([], false)
  | _, [] => ([], false)
  | fuel + 1, cmd :: rest =>
    match lenDec 4 rest 1 0 with
    | none => ([], true)
    | some none => ([], false)
    | some (some (n, bs)) =>
      if n ≤ bs.length then
        let (ps, e) := frames fuel (bs.drop n)
        ((cmd.toNat, bs.take n) :: ps, e)
      else ([], false)

/-- same as `cmdsNonzero` -/
def cmdsOk : (fuel : Nat) → Bytes → Bool
  | 0, _ => true
  | _, [] => true
  | fuel + 1, cmd :: rest =>
    cmd != 0 &&
    match lenDec 4 rest 1 0 with
    | some (some (n, bs)) => if n ≤ bs.length then cmdsOk fuel (bs.drop n) else true
    | _ => true

theorem lenDec_suffix : ∀ (k : Nat) (bs : Bytes) (m a n : Nat) (bs' : Bytes),
    lenDec k bs m a = some (some (n, bs')) → bs' <:+ bs ∧ bs'.length < bs.length := by
  intro k
  induction k with
  | zero => intro bs m a n bs' h; simp [lenDec] at h
  | succ k ih =>
    intro bs m a n bs' h
    cases bs with
    | nil => simp [lenDec] at h
    | cons b bs =>
      simp only [lenDec] at h
      split at h
      · simp only [Option.some.injEq, Prod.mk.injEq] at h
        obtain ⟨_, rfl⟩ := h
        exact ⟨List.suffix_cons b _, by simp⟩
      · obtain ⟨h1, h2⟩ := ih bs _ _ n bs' h
        exact ⟨h1.trans (List.suffix_cons b bs), by simp; omega⟩

/-- the remaining-length phase of the automaton -/
theorem feed_len (acc : List (Nat × Bytes)) : ∀ (k : Nat) (r : RState) (bs : Bytes),
    r.command ≠ 0 → r.haveRemaining = false → r.remCount + k = 4 →
    match lenDec k bs r.remMult r.remLen with
    | none => (feed r bs acc).1 = acc
    | some none => feed r bs acc = (acc, .ok)
    | some (some (n, bs')) => ∃ r' : RState, r'.command = r.command ∧ r'.packet = r.packet ∧
        r'.haveRemaining = true ∧ r'.toProcess = n ∧ feed r bs acc = Ref r' bs' acc := by
  intro k
  induction k with
  | zero =>
    intro r bs hc hh hk
    simp only [lenDec]
    cases bs with
    | nil => simp [feed]
    | cons b bs =>
      have h4 : r.remCount + 1 > 4 := by omega
      rw [feed_cons, feedByte_len r b hc hh, if_pos h4]
  | succ k ih =>
    intro r bs hc hh hk
    cases bs with
    | nil => simp [lenDec, feed]
    | cons b bs =>
      simp only [lenDec]
      have h4 : ¬ (r.remCount + 1 > 4) := by omega
      rw [feed_cons, feedByte_len r b hc hh, if_neg h4]
      by_cases hb : b.toNat &&& 128 = 0
      · simp only [hb, if_true]
        refine ⟨{ lenStep r b with haveRemaining := true, toProcess := (lenStep r b).remLen }, rfl, rfl, rfl, rfl, ?_⟩
        by_cases hz : r.remLen + (b.toNat &&& 127) * r.remMult = 0
        · rw [if_pos hz, Ref_full ⟨rfl, hz⟩]
          rfl
        · rw [if_neg hz, Ref_not_full (fun h => hz h.2)]
      · simp only [hb, if_false]
        exact ih (lenStep r b) bs hc hh (by simp only [lenStep]; omega)

/-- the body phase of the automaton, all at once -/
theorem feed_body_all (r : RState) (bs : Bytes) (acc : List (Nat × Bytes))
    (hc : r.command ≠ 0) (hh : r.haveRemaining = true) :
    Ref r bs acc =
      if r.toProcess ≤ bs.length then
        feed {} (bs.drop r.toProcess) (acc ++ [(r.command, r.packet ++ bs.take r.toProcess)])
      else (acc, .ok) := by
  by_cases h0 : r.toProcess = 0
  · rw [Ref_full ⟨hh, h0⟩, h0]; simp
  · have hnf : ¬ full r := fun h => h0 h.2
    rw [Ref_not_full hnf]
    by_cases hl : r.toProcess ≤ bs.length
    · rw [if_pos hl]
      conv => lhs; rw [← List.take_append_drop r.toProcess bs]
      rw [feed_body_chunk _ r _ acc hc hh (by omega) (by rw [List.length_take]; omega)]
      have hf : full { r with toProcess := r.toProcess - (bs.take r.toProcess).length,
                              packet := r.packet ++ bs.take r.toProcess } :=
        ⟨hh, by simp only [List.length_take]; omega⟩
      rw [Ref_full hf]
    · rw [if_neg hl]
      conv => lhs; rw [← List.append_nil bs]
      rw [feed_body_chunk _ r _ acc hc hh (by omega) (by omega)]
      have hnf' : ¬ full { r with toProcess := r.toProcess - bs.length, packet := r.packet ++ bs } :=
        fun h => by have := h.2; simp only at this; omega
      rw [Ref_not_full hnf']
      rfl

theorem toNat_ne_zero {b : UInt8} (h : (b != 0) = true) : b.toNat ≠ 0 := by
  intro h0
  have : b = 0 := UInt8.toNat_inj.mp (by simpa using h0)
  simp [this] at h

/-- the automaton computes the reference split (as long as no packet starts with a zero byte: the reference
split carries on past such a packet, the reader stops with a protocol error, see `feed_zero`) -/
theorem feed_frames : ∀ (fuel : Nat) (bs : Bytes) (acc : List (Nat × Bytes)),
    bs.length < fuel → cmdsOk fuel bs = true →
    (feed {} bs acc).1 = acc ++ (frames fuel bs).1 := by
  intro fuel
  induction fuel with
  | zero => intro bs acc h; omega
  | succ fuel ih =>
    intro bs acc hl hok
    cases bs with
    | nil => simp [feed, frames]
    | cons cmd rest =>
      simp only [cmdsOk, Bool.and_eq_true] at hok
      obtain ⟨hcmd, hok⟩ := hok
      have hc : cmd.toNat ≠ 0 := toNat_ne_zero hcmd
      rw [feed_cons, feedByte_cmd {} cmd rfl, if_neg hc]
      simp only [frames]
      have hlen := feed_len acc 4 { command := cmd.toNat } rest hc rfl rfl
      have hsuf := lenDec_suffix 4 rest 1 0
      simp only at hlen
      rcases hd : lenDec 4 rest 1 0 with _ | _ | ⟨n, bs'⟩
      · rw [hd] at hlen
        simp [hlen]
      · rw [hd] at hlen
        simp [hlen]
      · rw [hd] at hlen hok
        obtain ⟨r', h1, h2, h3, h4, h5⟩ := hlen
        obtain ⟨_, hlt⟩ := hsuf n bs' hd
        simp only at hok ⊢
        rw [h5, feed_body_all r' bs' acc (by rw [h1]; exact hc) h3, h4, h1, h2]
        by_cases hn : n ≤ bs'.length
        · rw [if_pos hn] at hok ⊢
          rw [if_pos hn]
          have := ih (bs'.drop n) (acc ++ [(cmd.toNat, [] ++ bs'.take n)])
            (by simp only [List.length_drop, List.length_cons] at *; omega) hok
          rw [this]
          simp
        · rw [if_neg hn, if_neg hn]
          simp

/-- a zero command byte stops the automaton with a protocol error, whatever follows -/
theorem feed_zero (b : UInt8) (hb : b.toNat = 0) (bs : Bytes) (acc : List (Nat × Bytes)) :
    feed {} (b :: bs) acc = (acc, .protocol) := by
  rw [feed_cons, feedByte_cmd {} b rfl, if_pos hb]

theorem cmdsOk_of_no_zero : ∀ (fuel : Nat) (bs : Bytes), (∀ b ∈ bs, b ≠ 0) → cmdsOk fuel bs = true := by
  intro fuel
  induction fuel with
  | zero => intro bs _; rfl
  | succ fuel ih =>
    intro bs h
    cases bs with
    | nil => rfl
    | cons cmd rest =>
      simp only [cmdsOk, Bool.and_eq_true]
      refine ⟨by simpa using h cmd (by simp), ?_⟩
      rcases hd : lenDec 4 rest 1 0 with _ | _ | ⟨n, bs'⟩
      · rfl
      · rfl
      · simp only
        split
        · apply ih
          intro b hb
          have h1 : b ∈ bs' := List.mem_of_mem_drop hb
          have h2 : b ∈ rest := (lenDec_suffix 4 rest 1 0 n bs' hd).1.subset h1
          exact h b (by simp [h2])
        · rfl

end Paho.ReaderLemmas
