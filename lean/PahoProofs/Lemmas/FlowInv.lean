/-
Invariants of the abstract step relations: counting, queue discipline, identity of stored messages.
-/
import PahoProofs.Lemmas.FlowRel

namespace Paho.FlowLemmas
open Paho Paho.S

/-! ### list facts -/

theorem split_at {α} (l : List α) (idx : Nat) (m : α) (h : l[idx]? = some m) :
    ∃ a b, l = a ++ m :: b ∧ ∀ m', l.set idx m' = a ++ m' :: b := by
  induction l generalizing idx with
  | nil => simp at h
  | cons x xs ih =>
    cases idx with
    | zero => simp at h; subst h; exact ⟨[], xs, rfl, fun _ => rfl⟩
    | succ n =>
      simp at h
      obtain ⟨a, b, h1, h2⟩ := ih n h
      exact ⟨x :: a, b, by simp [h1], fun m' => by simp [h2 m']⟩

/-- identity skeleton of a stored message: what no handler ever changes -/
def skel (m : OutMsg) : Nat × Nat × Nat := (m.mid, m.qos, m.info)

def cnt (l : List OutMsg) : Nat := l.countP (fun m => m.state.counted)

theorem find_split (l : List OutMsg) (mid : Nat) (m : OutMsg)
    (h : l.find? (fun x => decide (x.mid = mid)) = some m) (hn : (l.map (·.mid)).Nodup) :
    m.mid = mid ∧ ∃ a b, l = a ++ m :: b ∧ l.filter (fun x => decide (x.mid ≠ mid)) = a ++ b := by
  rw [List.find?_eq_some_iff_append] at h
  obtain ⟨hm, a, b, hl, ha⟩ := h
  simp only [decide_eq_true_eq] at hm
  refine ⟨hm, a, b, hl, ?_⟩
  subst hl
  simp only [List.map_append, List.map_cons, List.nodup_append, List.nodup_cons, List.mem_map, not_exists, not_and] at hn
  have hb : ∀ x ∈ b, x.mid ≠ mid := by
    intro x hx hxm
    exact hn.2.1.1 x hx (by rw [hxm, hm])
  have ha' : ∀ x ∈ a, x.mid ≠ mid := by
    intro x hx
    simpa using ha x hx
  simp only [List.filter_append, List.filter_cons, hm, ne_eq, not_true_eq_false, decide_false, Bool.false_eq_true, if_false]
  congr 1
  · exact List.filter_eq_self.2 (fun x hx => by simp [ha' x hx])
  · exact List.filter_eq_self.2 (fun x hx => by simp [hb x hx])

structure Core (v : V) : Prop where
  qos : ∀ m ∈ v.out, m.qos = 1 ∨ m.qos = 2
  mids : (v.out.map (·.mid)).Nodup
  count : v.inflight = (cnt v.out : Int)

theorem Star.lift {R : V → V → List Ev → Prop} (I : V → Prop)
    (h : ∀ v v' L, I v → R v v' L → I v') {v v' : V} {L : List Ev} (hs : Star R v v' L) (h0 : I v) : I v' := by
  induction hs with
  | refl => exact h0
  | step hr _ ih => exact ih (h _ _ _ h0 hr)

theorem cnt_nil : cnt [] = 0 := rfl
theorem cnt_append (a b : List OutMsg) : cnt (a ++ b) = cnt a + cnt b := by simp [cnt]
theorem cnt_cons (m : OutMsg) (b : List OutMsg) : cnt (m :: b) = cnt b + (if m.state.counted then 1 else 0) := by
  simp [cnt, List.countP_cons]

theorem relState_counted (m : OutMsg) (h : m.qos = 1 ∨ m.qos = 2) : (relState m).counted = true := by
  rcases h with h | h <;> simp [relState, h, MS.counted]

theorem Core.release {v v' : V} {L : List Ev} (c : Core v) (h : Release v v' L) : Core v' := by
  obtain ⟨idx, m, hm, hst, hq, hlt, hL, rfl⟩ := h
  obtain ⟨a, b, hl, hset⟩ := split_at v.out idx m hm
  have hmq := c.qos m (List.mem_of_getElem? hm)
  refine ⟨?_, ?_, ?_⟩
  · intro x hx
    simp only [hset, List.mem_append, List.mem_cons] at hx
    rcases hx with hx | rfl | hx
    · exact c.qos x (by rw [hl]; simp [hx])
    · exact hmq
    · exact c.qos x (by rw [hl]; simp [hx])
  · have := c.mids
    simp only [hset]
    rw [hl] at this
    simpa using this
  · have := c.count
    simp only [hset]
    rw [hl] at this
    have h1 : m.state.counted = false := by simp [hst, MS.counted]
    have h2 := relState_counted m hmq
    simp only [cnt_append, cnt_cons, h1, h2, if_true, Bool.false_eq_true, if_false] at this ⊢
    omega

theorem Core.release_star {v v' : V} {L : List Ev} (c : Core v) (h : Star Release v v' L) : Core v' :=
  Star.lift Core (fun _ _ _ c h => c.release h) h c

theorem Core.resend {v v' : V} {L : List Ev} (c : Core v) (h : Resend v v' L) : Core v' := by
  obtain ⟨idx, m, st, hm, hcase, rfl⟩ := h
  obtain ⟨a, b, hl, hset⟩ := split_at v.out idx m hm
  have hmq := c.qos m (List.mem_of_getElem? hm)
  have hcnt : m.state.counted = false ∧ st.counted = true := by
    rcases hcase with ⟨h1, h2, _⟩ | ⟨_, h2, h3, _⟩
    · rcases h2 with ⟨_, rfl⟩ | ⟨_, rfl⟩ <;> simp [h1, MS.counted]
    · simp [h2, h3, MS.counted]
  refine ⟨?_, ?_, ?_⟩
  · intro x hx
    simp only [hset, List.mem_append, List.mem_cons] at hx
    rcases hx with hx | rfl | hx
    · exact c.qos x (by rw [hl]; simp [hx])
    · exact hmq
    · exact c.qos x (by rw [hl]; simp [hx])
  · have := c.mids
    simp only [hset]
    rw [hl] at this
    simpa using this
  · have := c.count
    simp only [hset]
    rw [hl] at this
    simp only [cnt_append, cnt_cons, hcnt.1, hcnt.2, if_true, Bool.false_eq_true, if_false] at this ⊢
    omega

theorem Core.resend_star {v v' : V} {L : List Ev} (c : Core v) (h : Star Resend v v' L) : Core v' :=
  Star.lift Core (fun _ _ _ c h => c.resend h) h c

theorem Core.ack_mid {v : V} {mid : Nat} {m : OutMsg} (c : Core v)
    (hfind : v.out.find? (fun x => decide (x.mid = mid)) = some m)
    (hconf : ∀ x ∈ v.out, x.mid = mid → x.state.counted = true) :
    Core { v with out := v.out.filter (fun x => decide (x.mid ≠ mid)),
                  inflight := if m.qos > 0 then v.inflight - 1 else v.inflight } := by
  obtain ⟨hmid, a, b, hl, hfil⟩ := find_split v.out mid m hfind c.mids
  have hmem : m ∈ v.out := by rw [hl]; simp
  have hmq := c.qos m hmem
  have hcm : m.state.counted = true := hconf m hmem hmid
  refine ⟨?_, ?_, ?_⟩
  · intro x hx
    exact c.qos x (List.mem_filter.1 hx).1
  · exact (c.mids).sublist ((List.filter_sublist).map _)
  · have := c.count
    have hq : m.qos > 0 := by omega
    simp only [hfil, if_pos hq]
    rw [hl] at this
    simp only [cnt_append, cnt_cons, hcm, if_true] at this ⊢
    omega

theorem Core.ack {v v' : V} {L : List Ev} {mid : Nat} (c : Core v) (h : RAck true mid v v' L) : Core v' := by
  obtain ⟨m, v1, hfind, rfl, hconf, hstar, _⟩ := h
  exact Core.release_star (c.ack_mid hfind (hconf rfl)) hstar

theorem cnt_map (f : OutMsg → OutMsg) (l : List OutMsg) (h : ∀ x ∈ l, (f x).state.counted = x.state.counted) :
    cnt (l.map f) = cnt l := by
  induction l with
  | nil => rfl
  | cons x xs ih =>
    simp only [List.map_cons, cnt_cons]
    rw [ih (fun y hy => h y (List.mem_cons_of_mem _ hy)), h x (List.mem_cons_self ..)]

theorem Core.pubrec {v v' : V} {L : List Ev} {mid : Nat} (c : Core v) (h : RPubrec true mid v v' L) : Core v' := by
  obtain ⟨rfl, _, hconf⟩ := h
  refine ⟨?_, ?_, ?_⟩
  · intro x hx
    simp only [List.mem_map] at hx
    obtain ⟨y, hy, rfl⟩ := hx
    split
    · exact c.qos y hy
    · exact c.qos y hy
  · have := c.mids
    simp only [List.map_map]
    have e : ((fun (x : OutMsg) => x.mid) ∘ fun (m : OutMsg) => if m.mid = mid then { m with state := MS.waitPubcomp } else m) =
        (fun x => x.mid) := by
      funext x; simp only [Function.comp]; split <;> rfl
    rw [e]; exact this
  · show v.inflight = _
    dsimp only
    rw [cnt_map _ _ ?_]
    · exact c.count
    · intro x hx
      split
      · rename_i hm
        rcases (hconf rfl x hx hm).2 with h | h <;> simp [h, MS.counted]
      · rfl

theorem reset_state (cl : Bool) (m : OutMsg) (h : m.qos = 1 ∨ m.qos = 2) :
    (resetOutMsg cl m).state = .publish ∨ (resetOutMsg cl m).state = .resendPubrel := by
  unfold resetOutMsg
  rcases h with h | h
  · simp [h]
  · simp only [h]
    cases cl
    · by_cases hs : m.state = .waitPubcomp ∨ m.state = .resendPubrel <;> simp [hs]
    · simp

theorem reset_skel (cl : Bool) (m : OutMsg) : skel (resetOutMsg cl m) = skel m := by
  unfold resetOutMsg skel
  repeat' split
  all_goals rfl

theorem cnt_zero (l : List OutMsg) (h : ∀ x ∈ l, x.state.counted = false) : cnt l = 0 := by
  simp only [cnt, List.countP_eq_zero]
  intro x hx; simp [h x hx]

theorem Core.reset {v v' : V} {L : List Ev} {cl : Bool} (c : Core v) (h : RReset cl v v' L) : Core v' := by
  obtain ⟨rfl, _⟩ := h
  have hsk : ∀ x : OutMsg, (resetOutMsg cl x).mid = x.mid ∧ (resetOutMsg cl x).qos = x.qos := by
    intro x
    have := reset_skel cl x
    simp only [skel, Prod.mk.injEq] at this
    exact ⟨this.1, this.2.1⟩
  refine ⟨?_, ?_, ?_⟩
  · intro x hx
    simp only [List.mem_map] at hx
    obtain ⟨y, hy, rfl⟩ := hx
    rw [(hsk y).2]; exact c.qos y hy
  · have := c.mids
    simp only [List.map_map]
    have e : ((fun (x : OutMsg) => x.mid) ∘ resetOutMsg cl) = (fun x => x.mid) := by
      funext x; simp only [Function.comp]; exact (hsk x).1
    rw [e]; exact this
  · show (0 : Int) = _
    dsimp only
    rw [cnt_zero]
    · rfl
    · intro x hx
      simp only [List.mem_map] at hx
      obtain ⟨y, hy, rfl⟩ := hx
      rcases reset_state cl y (c.qos y hy) with h | h <;> simp [h, MS.counted]

theorem Core.add {v v' : V} {L : List Ev} (c : Core v) (h : RAdd v v' L) : Core v' := by
  obtain ⟨hcfg, hn, h⟩ := h
  rcases h with ⟨ho, hi, _⟩ | ⟨m, hinfo, hdup, hq, hfresh, ho, hL, hcase⟩
  · exact ⟨by rw [ho]; exact c.qos, by rw [ho]; exact c.mids, by rw [ho, hi]; exact c.count⟩
  · refine ⟨?_, ?_, ?_⟩
    · intro x hx
      rw [ho] at hx
      simp only [List.mem_append, List.mem_singleton] at hx
      rcases hx with hx | rfl
      · exact c.qos x hx
      · exact hq
    · rw [ho]
      simp only [List.map_append, List.map_cons, List.map_nil]
      rw [List.nodup_append]
      refine ⟨c.mids, by simp, ?_⟩
      intro a ha b hb
      simp only [List.mem_map] at ha
      obtain ⟨x, hx, rfl⟩ := ha
      simp only [List.mem_singleton] at hb
      subst hb
      exact hfresh x hx
    · rw [ho, cnt_append, cnt_cons]
      have := c.count
      rcases hcase with ⟨hs, _, hi⟩ | ⟨hs, hi⟩ | ⟨hs, _, _, hi, _⟩
      · have : m.state.counted = true := by
          rw [hs]; rcases hq with h | h <;> simp [h, MS.counted]
        simp only [this, hi, if_true, cnt_nil]; omega
      · have : m.state.counted = false := by simp [hs, MS.counted]
        simp only [this, hi, Bool.false_eq_true, if_false, cnt_nil]; omega
      · have : m.state.counted = false := by simp [hs, MS.counted]
        simp only [this, hi, Bool.false_eq_true, if_false, cnt_nil]; omega

theorem Core.step {conf cl rs : Bool} {v v' : V} {L : List Ev} (c : Core v) (hconf : conf = true)
    (h : StepR conf cl rs v v' L) : Core v' := by
  subst hconf
  cases h with
  | frame h => rw [h.1]; exact c
  | ack mid h => exact c.ack h
  | pubrec mid h => exact c.pubrec h
  | reset h => exact c.reset h
  | resend _ h => exact c.resend_star h
  | add h => exact c.add h

/-! ### queued only behind a full window -/

def HasQueued (l : List OutMsg) : Prop := ∃ m ∈ l, m.state = .queued

def Qbf (v : V) : Prop := HasQueued v.out → v.cfg.maxInflight > 0 ∧ v.inflight ≥ v.cfg.maxInflight

/-- monotone facts shared by the two loops -/
def Mono (v v' : V) : Prop :=
  v'.cfg = v.cfg ∧ v'.inflight ≥ v.inflight ∧ (HasQueued v'.out → HasQueued v.out) ∧ v'.out.length = v.out.length ∧
  v'.ninfos = v.ninfos

theorem Mono.refl (v : V) : Mono v v := ⟨rfl, Int.le_refl _, id, rfl, rfl⟩

theorem Mono.trans {v v1 v2 : V} (h1 : Mono v v1) (h2 : Mono v1 v2) : Mono v v2 :=
  ⟨h2.1.trans h1.1, Int.le_trans h1.2.1 h2.2.1, fun h => h1.2.2.1 (h2.2.2.1 h), h2.2.2.2.1.trans h1.2.2.2.1,
    h2.2.2.2.2.trans h1.2.2.2.2⟩

theorem hasQueued_set {l : List OutMsg} {idx : Nat} {m m' : OutMsg} (hm : l[idx]? = some m)
    (hne : m'.state ≠ .queued) (h : HasQueued (l.set idx m')) : HasQueued l := by
  obtain ⟨a, b, hl, hset⟩ := split_at l idx m hm
  obtain ⟨x, hx, hxq⟩ := h
  rw [hset] at hx
  simp only [List.mem_append, List.mem_cons] at hx
  rcases hx with hx | rfl | hx
  · exact ⟨x, by rw [hl]; simp [hx], hxq⟩
  · exact absurd hxq hne
  · exact ⟨x, by rw [hl]; simp [hx], hxq⟩

theorem Release.mono {v v' : V} {L : List Ev} (hq : ∀ m ∈ v.out, m.qos = 1 ∨ m.qos = 2) (h : Release v v' L) : Mono v v' := by
  obtain ⟨idx, m, hm, hst, _, hlt, hL, rfl⟩ := h
  refine ⟨rfl, by show v.inflight ≤ v.inflight + 1; omega, ?_, by simp, rfl⟩
  intro hq'
  refine hasQueued_set hm ?_ hq'
  have := relState_counted m (hq m (List.mem_of_getElem? hm))
  intro h; simp only at h; rw [h] at this; simp [MS.counted] at this

theorem Resend.mono {v v' : V} {L : List Ev} (h : Resend v v' L) : Mono v v' := by
  obtain ⟨idx, m, st, hm, hcase, rfl⟩ := h
  refine ⟨rfl, by show v.inflight ≤ v.inflight + 1; omega, ?_, by simp, rfl⟩
  intro hq'
  refine hasQueued_set hm ?_ hq'
  rcases hcase with ⟨_, h2, _⟩ | ⟨_, _, h3, _⟩
  · rcases h2 with ⟨_, rfl⟩ | ⟨_, rfl⟩ <;> simp
  · simp [h3]

theorem Release.star_mono {v v' : V} {L : List Ev} (c : Core v) (h : Star Release v v' L) : Mono v v' := by
  have : Core v' ∧ Mono v v' :=
    Star.lift (fun w => Core w ∧ Mono v w) (fun _ _ _ hw hr => ⟨hw.1.release hr, hw.2.trans (Release.mono hw.1.qos hr)⟩) h
      ⟨c, Mono.refl v⟩
  exact this.2

theorem Resend.star_mono {v v' : V} {L : List Ev} (h : Star Resend v v' L) : Mono v v' :=
  Star.lift (fun w => Mono v w) (fun _ _ _ hw hr => hw.trans (Resend.mono hr)) h (Mono.refl v)

theorem StepR.cfg {conf cl rs : Bool} {v v' : V} {L : List Ev} (c : Core v) (hconf : conf = true)
    (h : StepR conf cl rs v v' L) : v'.cfg = v.cfg := by
  subst hconf
  cases h with
  | frame h => rw [h.1]
  | ack mid h =>
    obtain ⟨m, v1, hfind, rfl, hconf, hstar, _⟩ := h
    exact (Release.star_mono (c.ack_mid hfind (hconf rfl)) hstar).1
  | pubrec mid h => rw [h.1]
  | reset h => rw [h.1]
  | resend _ h => exact (Resend.star_mono h).1
  | add h => exact h.1

theorem Qbf.step {conf cl rs : Bool} {v v' : V} {L : List Ev} (c : Core v) (q : Qbf v) (hconf : conf = true)
    (h : StepR conf cl rs v v' L) : Qbf v' := by
  subst hconf
  cases h with
  | frame h => rw [h.1]; exact q
  | ack mid h =>
    obtain ⟨m, v1, hfind, rfl, hconf, hstar, hcomp⟩ := h
    have c1 := c.ack_mid hfind (hconf rfl)
    have mono := Release.star_mono c1 hstar
    intro hq'
    have hq1 := mono.2.2.1 hq'
    have hq0 : HasQueued v.out := by
      obtain ⟨x, hx, hxq⟩ := hq1
      exact ⟨x, (List.mem_filter.1 hx).1, hxq⟩
    obtain ⟨hN, hinf⟩ := q hq0
    have hmem : m ∈ v.out := List.mem_of_find?_eq_some hfind
    have hmq : m.qos > 0 := by have := c.qos m hmem; omega
    rw [mono.1]
    refine ⟨hN, ?_⟩
    rcases hcomp hN hmq c.qos with h | h | h
    · obtain ⟨x, hx, hxq⟩ := hq'
      exact absurd hxq (h x hx)
    · exact h
    · simp only [if_pos hmq] at h
      show v'.inflight ≥ (v.cfg.maxInflight : Int)
      omega
  | pubrec mid h =>
    obtain ⟨rfl, _, _⟩ := h
    intro hq'
    refine q ?_
    obtain ⟨x, hx, hxq⟩ := hq'
    simp only [List.mem_map] at hx
    obtain ⟨y, hy, rfl⟩ := hx
    split at hxq
    · cases hxq
    · exact ⟨y, hy, hxq⟩
  | reset h =>
    obtain ⟨rfl, _⟩ := h
    intro hq'
    obtain ⟨x, hx, hxq⟩ := hq'
    simp only [List.mem_map] at hx
    obtain ⟨y, hy, rfl⟩ := hx
    rcases reset_state cl y (c.qos y hy) with h | h <;> rw [h] at hxq <;> cases hxq
  | resend _ h =>
    have mono := Resend.star_mono h
    intro hq'
    obtain ⟨hN, hinf⟩ := q (mono.2.2.1 hq')
    rw [mono.1]
    exact ⟨hN, Int.le_trans hinf mono.2.1⟩
  | add h =>
    obtain ⟨hcfg, hn, h⟩ := h
    rcases h with ⟨ho, hi, _⟩ | ⟨m, hinfo, hdup, hq12, hfresh, ho, hL, hcase⟩
    · intro hq'; rw [ho] at hq'; rw [hcfg, hi]; exact q hq'
    · intro hq'
      rw [hcfg]
      rcases hcase with ⟨hs, _, hi⟩ | ⟨hs, hi⟩ | ⟨hs, hN, hge, hi, _⟩
      · have : HasQueued v.out := by
          obtain ⟨x, hx, hxq⟩ := hq'
          rw [ho] at hx
          simp only [List.mem_append, List.mem_singleton] at hx
          rcases hx with hx | rfl
          · exact ⟨x, hx, hxq⟩
          · rw [hs] at hxq; rcases hq12 with h | h <;> simp [h] at hxq
        obtain ⟨hN, hinf⟩ := q this
        exact ⟨hN, by rw [hi]; omega⟩
      · have : HasQueued v.out := by
          obtain ⟨x, hx, hxq⟩ := hq'
          rw [ho] at hx
          simp only [List.mem_append, List.mem_singleton] at hx
          rcases hx with hx | rfl
          · exact ⟨x, hx, hxq⟩
          · rw [hs] at hxq; cases hxq
        obtain ⟨hN, hinf⟩ := q this
        exact ⟨hN, by rw [hi]; exact hinf⟩
      · exact ⟨hN, by rw [hi]; exact hge⟩


/-! ### runs -/

theorem run_cons (s : S) (op : Op) (ops : List Op) : s.run (op :: ops) = (s.step op).run ops := rfl

theorem conf_run_inv (I : S → Prop) (hstep : ∀ s op, I s → opConforming s op = true → I (s.step op)) :
    ∀ (ops : List Op) (s : S), I s → confRun s ops = true → I (s.run ops) := by
  intro ops
  induction ops with
  | nil => intro s h _; exact h
  | cons op ops ih =>
    intro s h hc
    simp only [confRun, Bool.and_eq_true] at hc
    rw [run_cons]
    exact ih _ (hstep s op h hc.1) hc.2

theorem run_inv (I : S → Prop) (hstep : ∀ s op, I s → I (s.step op)) :
    ∀ (ops : List Op) (s : S), I s → I (s.run ops) := by
  intro ops
  induction ops with
  | nil => intro s h; exact h
  | cons op ops ih => intro s h; rw [run_cons]; exact ih _ (hstep s op h)

def InvA (s : S) : Prop := Core (view s) ∧ Qbf (view s)

theorem InvA.init (cfg : Cfg) (proto t : Nat) : InvA (S.init cfg proto t) := by
  refine ⟨⟨?_, ?_, ?_⟩, ?_⟩
  · intro m hm; simp [view, S.init] at hm
  · simp [view, S.init]
  · simp [view, S.init, cnt]
  · intro ⟨m, hm, _⟩; simp [view, S.init] at hm

theorem InvA.step (s : S) (op : Op) (h : InvA s) (hc : opConforming s op = true) : InvA (s.step op) := by
  have := (step_tr s op).2
  exact ⟨h.1.step hc this, Qbf.step h.1 h.2 hc this⟩

theorem InvA.run (cfg : Cfg) (proto : Nat) (ops : List Op) (hconf : confRun (S.init cfg proto t0) ops = true) :
    InvA (runFrom cfg proto ops) :=
  conf_run_inv InvA InvA.step ops _ (InvA.init cfg proto t0) hconf

theorem counted_eq : (fun (m : OutMsg) => m.state.counted) =
    (fun m => m.state == .waitPuback || m.state == .waitPubrec || m.state == .waitPubcomp) := by
  funext m; cases m.state <;> rfl

theorem invInflightCount_of (s : S) (h : InvA s) : s.invInflightCount = true := by
  have := h.1.count
  simp only [view, cnt, counted_eq, List.countP_eq_length_filter] at this
  simp only [invInflightCount, beq_iff_eq]
  exact this

theorem invQueuedBehindFull_of (s : S) (h : InvA s) : s.invQueuedBehindFull = true := by
  have q := h.2
  simp only [invQueuedBehindFull, Bool.or_eq_true, Bool.not_eq_true', Bool.and_eq_true, decide_eq_true_eq]
  by_cases hq : HasQueued s.out
  · right; exact q hq
  · left
    simp only [List.any_eq_false, beq_iff_eq]
    intro x hx hxq
    exact hq ⟨x, hx, hxq⟩

theorem invNoIdleSlot_of (s : S) (h : InvA s) : s.invNoIdleSlot = true := by
  have q := h.2
  simp only [invNoIdleSlot, Bool.or_eq_true, Bool.not_eq_true', decide_eq_true_eq]
  by_cases hq : HasQueued s.out
  · right; exact (q hq).2
  · left; right
    simp only [List.any_eq_false, beq_iff_eq]
    intro x hx hxq
    exact hq ⟨x, hx, hxq⟩

/-! ### the window -/

def Win (v : V) : Prop := v.inflight ≤ v.cfg.maxInflight

theorem cnt_le_length (l : List OutMsg) : cnt l ≤ l.length := List.countP_le_length

theorem Win.release_star {v v' : V} {L : List Ev} (w : Win v) (h : Star Release v v' L) : Win v' ∧ v'.cfg = v.cfg := by
  refine Star.lift (fun x => Win x ∧ x.cfg = v.cfg) ?_ h ⟨w, rfl⟩
  intro x x' _ hx hr
  obtain ⟨idx, m, hm, hst, _, hlt, hL, rfl⟩ := hr
  refine ⟨?_, hx.2⟩
  show x.inflight + 1 ≤ (x.cfg.maxInflight : Int)
  omega

theorem Win.step {conf cl rs : Bool} {v v' : V} {L : List Ev} (c : Core v) (w : Win v) (hconf : conf = true)
    (hN : v.cfg.maxInflight > 0) (hsmall : rs = true → v.out.length ≤ v.cfg.maxInflight)
    (h : StepR conf cl rs v v' L) : Win v' := by
  have c' : Core v' := c.step hconf h
  subst hconf
  cases h with
  | frame h => rw [h.1]; exact w
  | ack mid h =>
    obtain ⟨m, v1, hfind, rfl, hconf, hstar, hcomp⟩ := h
    refine (Win.release_star ?_ hstar).1
    show (if m.qos > 0 then v.inflight - 1 else v.inflight) ≤ (v.cfg.maxInflight : Int)
    have : v.inflight ≤ (v.cfg.maxInflight : Int) := w
    split <;> omega
  | pubrec mid h => obtain ⟨rfl, _, _⟩ := h; exact w
  | reset h =>
    obtain ⟨rfl, _⟩ := h
    show (0 : Int) ≤ (v.cfg.maxInflight : Int)
    omega
  | resend hrs h =>
    have mono := Resend.star_mono h
    have h1 := c'.count
    have h2 := cnt_le_length v'.out
    have h3 := hsmall hrs
    show v'.inflight ≤ (v'.cfg.maxInflight : Int)
    rw [mono.1, h1]
    have : v'.out.length = v.out.length := mono.2.2.2.1
    omega
  | add h =>
    obtain ⟨hcfg, hn, h⟩ := h
    have w' : v.inflight ≤ (v.cfg.maxInflight : Int) := w
    show v'.inflight ≤ (v'.cfg.maxInflight : Int)
    rw [hcfg]
    rcases h with ⟨ho, hi, _⟩ | ⟨m, hinfo, hdup, hq12, hfresh, ho, hL, hcase⟩
    · rw [hi]; exact w'
    · rcases hcase with ⟨hs, hwin, hi⟩ | ⟨hs, hi⟩ | ⟨hs, _, _, hi, _⟩
      · rw [hi]; rcases hwin with h | h <;> omega
      · rw [hi]; exact w'
      · rw [hi]; exact w'

theorem step_cfg (s : S) (op : Op) : (s.step op).cfg = s.cfg := by
  have h := (step_tr s op).2
  generalize hv : view s = v at h
  generalize hv' : view (s.step op) = v' at h
  have : v'.cfg = v.cfg := by
    cases h with
    | frame h => rw [h.1]
    | ack mid h =>
      obtain ⟨m, v1, hfind, rfl, hconf, hstar, _⟩ := h
      exact Star.lift (fun x => x.cfg = v.cfg) (fun x x' _ hx hr => by
        obtain ⟨idx, m, hm, hst, _, hlt, hL, rfl⟩ := hr; exact hx) hstar rfl
    | pubrec mid h => rw [h.1]
    | reset h => rw [h.1]
    | resend _ h => exact (Resend.star_mono h).1
    | add h => exact h.1
  rw [← hv, ← hv'] at this
  exact this

theorem run_cfg (ops : List Op) (s : S) : (s.run ops).cfg = s.cfg :=
  run_inv (fun x => x.cfg = s.cfg) (fun x op h => (step_cfg x op).trans h) ops s rfl

theorem runFrom_cfg (cfg : Cfg) (proto : Nat) (ops : List Op) : (runFrom cfg proto ops).cfg = cfg :=
  run_cfg ops _

theorem runFrom_append (cfg : Cfg) (proto : Nat) (pre post : List Op) :
    runFrom cfg proto (pre ++ post) = (runFrom cfg proto pre).run post := by
  simp [runFrom, S.run, List.foldl_append]

theorem opRs_iff (op : Op) (h : opRs op = true) : ∃ sp ok, op = .rx (.pkt (.connack sp 0)) ok := by
  cases op with
  | rx item ok =>
    cases item with
    | pkt p =>
      cases p with
      | connack sp rc =>
        cases rc with
        | zero => exact ⟨sp, ok, rfl⟩
        | succ n => simp [opRs, itemRs, isConnack0] at h
      | _ => simp [opRs, itemRs, isConnack0] at h
    | _ => simp [opRs, itemRs] at h
  | _ => simp [opRs] at h

theorem window_run (cfg : Cfg) (proto : Nat) (hN : cfg.maxInflight > 0) :
    ∀ (post pre : List Op), confRun (runFrom cfg proto pre) post = true →
      (∀ (p : List Op) (sp ok : Bool) (q : List Op), pre ++ post = p ++ [.rx (.pkt (.connack sp 0)) ok] ++ q →
        (runFrom cfg proto p).out.length ≤ cfg.maxInflight) →
      InvA (runFrom cfg proto pre) → Win (view (runFrom cfg proto pre)) →
      Win (view (runFrom cfg proto (pre ++ post))) := by
  intro post
  induction post with
  | nil => intro pre _ _ _ w; simpa using w
  | cons op post ih =>
    intro pre hc hs ha w
    simp only [confRun, Bool.and_eq_true] at hc
    have e : pre ++ op :: post = (pre ++ [op]) ++ post := by simp
    have e2 : runFrom cfg proto (pre ++ [op]) = (runFrom cfg proto pre).step op := by
      rw [runFrom_append]; rfl
    rw [e]
    refine ih (pre ++ [op]) (by rw [e2]; exact hc.2) (by rw [← e]; exact hs) (by rw [e2]; exact ha.step _ _ hc.1) ?_
    rw [e2]
    have hcfg := runFrom_cfg cfg proto pre
    refine Win.step ha.1 w hc.1 (by simp only [view, hcfg]; exact hN) ?_ (step_tr _ op).2
    intro hrs
    obtain ⟨sp, ok, rfl⟩ := opRs_iff op hrs
    have := hs pre sp ok post (by simp)
    simpa [view, hcfg] using this


/-! ### identity of stored messages -/

def Shrink (v v' : V) : Prop :=
  (v'.out.map (·.info)).Sublist (v.out.map (·.info)) ∧ v'.ninfos = v.ninfos

theorem Shrink.refl (v : V) : Shrink v v := ⟨List.Sublist.refl _, rfl⟩
theorem Shrink.trans {v v1 v2 : V} (h1 : Shrink v v1) (h2 : Shrink v1 v2) : Shrink v v2 :=
  ⟨h2.1.trans h1.1, h2.2.trans h1.2⟩

theorem map_info_set {l : List OutMsg} {idx : Nat} {m : OutMsg} (hm : l[idx]? = some m) (st : MS) :
    (l.set idx { m with state := st }).map (·.info) = l.map (·.info) := by
  obtain ⟨a, b, hl, hset⟩ := split_at l idx m hm
  rw [hset, hl]; simp

theorem Release.shrink {v v' : V} {L : List Ev} (h : Release v v' L) : Shrink v v' := by
  obtain ⟨idx, m, hm, _, _, _, _, rfl⟩ := h
  exact ⟨by simp only; rw [map_info_set hm]; exact List.Sublist.refl _, rfl⟩

theorem Resend.shrink {v v' : V} {L : List Ev} (h : Resend v v' L) : Shrink v v' := by
  obtain ⟨idx, m, st, hm, _, rfl⟩ := h
  exact ⟨by simp only; rw [map_info_set hm]; exact List.Sublist.refl _, rfl⟩

theorem reset_info (cl : Bool) (m : OutMsg) : (resetOutMsg cl m).info = m.info := by
  have := reset_skel cl m
  simp only [skel, Prod.mk.injEq] at this
  exact this.2.2

theorem reset_qos (cl : Bool) (m : OutMsg) : (resetOutMsg cl m).qos = m.qos := by
  have := reset_skel cl m
  simp only [skel, Prod.mk.injEq] at this
  exact this.2.1

theorem StepR.shrink_or_add {conf cl rs : Bool} {v v' : V} {L : List Ev} (h : StepR conf cl rs v v' L) :
    Shrink v v' ∨ RAdd v v' L := by
  cases h with
  | frame h => rw [h.1]; exact Or.inl (Shrink.refl v)
  | ack mid h =>
    obtain ⟨m, v1, hfind, hv1, hconf, hstar, _⟩ := h
    left
    have h1 : Shrink v v1 := by
      rw [hv1]; exact ⟨(List.filter_sublist).map _, rfl⟩
    exact h1.trans (Star.lift (fun w => Shrink _ w) (fun _ _ _ hw hr => hw.trans hr.shrink) hstar (Shrink.refl _))
  | pubrec mid h =>
    obtain ⟨rfl, _, _⟩ := h
    left
    refine ⟨?_, rfl⟩
    simp only [List.map_map]
    have e : ((fun (x : OutMsg) => x.info) ∘ fun (m : OutMsg) => if m.mid = mid then { m with state := MS.waitPubcomp } else m) =
        (fun x => x.info) := by
      funext x; simp only [Function.comp]; split <;> rfl
    rw [e]; exact List.Sublist.refl _
  | reset h =>
    obtain ⟨rfl, _⟩ := h
    left
    refine ⟨?_, rfl⟩
    simp only [List.map_map]
    have e : ((fun (x : OutMsg) => x.info) ∘ resetOutMsg cl) = (fun x => x.info) := by
      funext x; exact reset_info cl x
    rw [e]; exact List.Sublist.refl _
  | resend _ h =>
    exact Or.inl (Star.lift (fun w => Shrink v w) (fun _ _ _ hw hr => hw.trans hr.shrink) h (Shrink.refl _))
  | add h => exact Or.inr h

def InfoInv (v : V) : Prop := (v.out.map (·.info)).Nodup ∧ ∀ m ∈ v.out, m.info < v.ninfos

theorem InfoInv.step {conf cl rs : Bool} {v v' : V} {L : List Ev} (i : InfoInv v) (h : StepR conf cl rs v v' L) :
    InfoInv v' := by
  rcases h.shrink_or_add with ⟨hs, hn⟩ | ⟨hcfg, hn, h⟩
  · refine ⟨i.1.sublist hs, ?_⟩
    intro m hm
    have : m.info ∈ v.out.map (·.info) := hs.subset (List.mem_map_of_mem hm)
    obtain ⟨y, hy, hyi⟩ := List.mem_map.1 this
    rw [hn, ← hyi]; exact i.2 y hy
  · rcases h with ⟨ho, _, _⟩ | ⟨m, hinfo, _, _, _, ho, _, _⟩
    · unfold InfoInv; rw [ho, hn]; exact ⟨i.1, fun m hm => Nat.lt_succ_of_lt (i.2 m hm)⟩
    · unfold InfoInv; rw [ho, hn]
      refine ⟨?_, ?_⟩
      · simp only [List.map_append, List.map_cons, List.map_nil]
        rw [List.nodup_append]
        refine ⟨i.1, by simp, ?_⟩
        intro a ha b hb
        simp only [List.mem_map] at ha
        obtain ⟨x, hx, rfl⟩ := ha
        simp only [List.mem_singleton] at hb
        subst hb
        have := i.2 x hx
        omega
      · intro x hx
        simp only [List.mem_append, List.mem_singleton] at hx
        rcases hx with hx | rfl
        · exact Nat.lt_succ_of_lt (i.2 x hx)
        · omega

theorem InfoInv.run (cfg : Cfg) (proto : Nat) (ops : List Op) : InfoInv (view (runFrom cfg proto ops)) :=
  run_inv (fun s => InfoInv (view s)) (fun s op h => h.step (step_tr s op).2) ops _
    ⟨by simp [view, S.init], by intro m hm; simp [view, S.init] at hm⟩

theorem eq_of_nodup_map {α β} (f : α → β) (l : List α) (h : (l.map f).Nodup) {x y : α}
    (hx : x ∈ l) (hy : y ∈ l) (hf : f x = f y) : x = y := by
  induction l with
  | nil => cases hx
  | cons a as ih =>
    simp only [List.map_cons, List.nodup_cons, List.mem_map, not_exists, not_and] at h
    simp only [List.mem_cons] at hx hy
    rcases hx with rfl | hx <;> rcases hy with rfl | hy
    · rfl
    · exact absurd hf.symm (h.1 y hy)
    · exact absurd hf (h.1 x hx)
    · exact ih h.2 hx hy

/-! ### the QoS 2 phase after PUBREC -/

def InPhase (st : MS) : Prop := st = .waitPubcomp ∨ st = .resendPubrel

def Phase (u : Nat) (l : List OutMsg) : Prop := ∀ x ∈ l, x.info = u → InPhase x.state
def Q2 (u : Nat) (l : List OutMsg) : Prop := ∀ x ∈ l, x.info = u → x.qos = 2
def NoQ (u : Nat) (L : List Ev) : Prop := ∀ c mid q d, Ev.qPublish c u mid q d ∉ L

theorem NoQ.nil (u : Nat) : NoQ u [] := by intro c mid q d h; cases h
theorem NoQ.append {u : Nat} {a b : List Ev} (ha : NoQ u a) (hb : NoQ u b) : NoQ u (a ++ b) := by
  intro c mid q d h
  rcases List.mem_append.1 h with h | h
  · exact ha c mid q d h
  · exact hb c mid q d h

theorem Star.lift2 {R : V → V → List Ev → Prop} (I : V → Prop) (P : List Ev → Prop) (hnil : P [])
    (happ : ∀ a b, P a → P b → P (a ++ b))
    (h : ∀ v v' L, I v → R v v' L → I v' ∧ P L) {v v' : V} {L : List Ev} (hs : Star R v v' L) (h0 : I v) :
    I v' ∧ P L := by
  induction hs with
  | refl => exact ⟨h0, hnil⟩
  | step hr _ ih =>
    obtain ⟨h1, p1⟩ := h _ _ _ h0 hr
    obtain ⟨h2, p2⟩ := ih h1
    exact ⟨h2, happ _ _ p1 p2⟩

theorem phase_set {u : Nat} {l : List OutMsg} {idx : Nat} {m m' : OutMsg} (hm : l[idx]? = some m)
    (hp : Phase u l) (hm' : m'.info = u → InPhase m'.state) : Phase u (l.set idx m') := by
  obtain ⟨a, b, hl, hset⟩ := split_at l idx m hm
  intro x hx hxu
  rw [hset] at hx
  simp only [List.mem_append, List.mem_cons] at hx
  rcases hx with hx | rfl | hx
  · exact hp x (by rw [hl]; simp [hx]) hxu
  · exact hm' hxu
  · exact hp x (by rw [hl]; simp [hx]) hxu

theorem Release.phase {u : Nat} {v v' : V} {L : List Ev} (hp : Phase u v.out) (h : Release v v' L) :
    Phase u v'.out ∧ NoQ u L := by
  obtain ⟨idx, m, hm, hst, _, _, hL, rfl⟩ := h
  have hne : m.info ≠ u := by
    intro hu
    rcases hp m (List.mem_of_getElem? hm) hu with h | h <;> rw [hst] at h <;> cases h
  refine ⟨phase_set hm hp (fun h => absurd h hne), ?_⟩
  rcases hL with ⟨rfl, _⟩ | ⟨c, rfl⟩
  · exact NoQ.nil u
  · intro c' mid q d h
    simp only [List.mem_singleton, Ev.qPublish.injEq] at h
    exact hne h.2.1.symm

theorem Resend.phase {u : Nat} {v v' : V} {L : List Ev} (hp : Phase u v.out) (h : Resend v v' L) :
    Phase u v'.out ∧ NoQ u L := by
  obtain ⟨idx, m, st, hm, hcase, rfl⟩ := h
  rcases hcase with ⟨hst, _, hL⟩ | ⟨_, _, h3, rfl⟩
  · have hne : m.info ≠ u := by
      intro hu
      rcases hp m (List.mem_of_getElem? hm) hu with h | h <;> rw [hst] at h <;> cases h
    refine ⟨phase_set hm hp (fun h => absurd h hne), ?_⟩
    rcases hL with ⟨rfl, _⟩ | ⟨c, rfl⟩
    · exact NoQ.nil u
    · intro c' mid q d h
      simp only [List.mem_singleton, Ev.qPublish.injEq] at h
      exact hne h.2.1.symm
  · exact ⟨phase_set hm hp (fun _ => Or.inl h3), NoQ.nil u⟩

theorem reset_phase (m : OutMsg) (hq : m.qos = 2) (hp : InPhase m.state) :
    InPhase (resetOutMsg false m).state := by
  unfold resetOutMsg
  have : m.state = .waitPubcomp ∨ m.state = .resendPubrel := hp
  simp [hq, this, InPhase]

theorem StepR.phase {conf cl rs : Bool} {u : Nat} {v v' : V} {L : List Ev} (hp : Phase u v.out) (hu : u < v.ninfos)
    (h : StepR conf cl rs v v' L) : NoQ u L ∧ (Q2 u v.out → cl = false → Phase u v'.out) := by
  cases h with
  | frame h => rw [h.1, h.2]; exact ⟨NoQ.nil u, fun _ _ => hp⟩
  | ack mid h =>
    obtain ⟨m, v1, hfind, rfl, hconf, hstar, _⟩ := h
    have hp1 : Phase u (v.out.filter (fun x => decide (x.mid ≠ mid))) := fun x hx => hp x (List.mem_filter.1 hx).1
    have := Star.lift2 (fun w => Phase u w.out) (NoQ u) (NoQ.nil u) (fun _ _ => NoQ.append)
      (fun _ _ _ hw hr => Release.phase hw hr) hstar hp1
    exact ⟨this.2, fun _ _ => this.1⟩
  | pubrec mid h =>
    obtain ⟨rfl, rfl, _⟩ := h
    refine ⟨NoQ.nil u, fun _ _ => ?_⟩
    intro x hx hxu
    simp only [List.mem_map] at hx
    obtain ⟨y, hy, rfl⟩ := hx
    split
    · exact Or.inl rfl
    · rename_i hne; rw [if_neg hne] at hxu; exact hp y hy hxu
  | reset h =>
    obtain ⟨rfl, rfl⟩ := h
    refine ⟨NoQ.nil u, fun hq hcl => ?_⟩
    subst hcl
    intro x hx hxu
    simp only [List.mem_map] at hx
    obtain ⟨y, hy, rfl⟩ := hx
    rw [reset_info] at hxu
    exact reset_phase y (hq y hy hxu) (hp y hy hxu)
  | resend _ h =>
    have := Star.lift2 (fun w => Phase u w.out) (NoQ u) (NoQ.nil u) (fun _ _ => NoQ.append)
      (fun _ _ _ hw hr => Resend.phase hw hr) h hp
    exact ⟨this.2, fun _ _ => this.1⟩
  | add h =>
    obtain ⟨hcfg, hn, h⟩ := h
    rcases h with ⟨ho, _, hL⟩ | ⟨m, hinfo, _, _, _, ho, hL, _⟩
    · refine ⟨?_, fun _ _ => by rw [ho]; exact hp⟩
      rcases hL with rfl | ⟨c, mid, rfl⟩
      · exact NoQ.nil u
      · intro c' mid' q d h
        simp only [List.mem_singleton, Ev.qPublish.injEq] at h
        omega
    · refine ⟨?_, fun _ _ => ?_⟩
      · rcases hL with rfl | ⟨c, rfl⟩
        · exact NoQ.nil u
        · intro c' mid' q d h
          simp only [List.mem_singleton, Ev.qPublish.injEq] at h
          omega
      · rw [ho]
        intro x hx hxu
        simp only [List.mem_append, List.mem_singleton] at hx
        rcases hx with hx | rfl
        · exact hp x hx hxu
        · omega

/-! ### DUP on QoS 0 -/

def GoodL (L : List Ev) : Prop := ∀ c u mid d, Ev.qPublish c u mid 0 d ∈ L → d = false

theorem GoodL.nil : GoodL [] := by intro c u mid d h; cases h
theorem GoodL.append {a b : List Ev} (ha : GoodL a) (hb : GoodL b) : GoodL (a ++ b) := by
  intro c u mid d h
  rcases List.mem_append.1 h with h | h
  · exact ha c u mid d h
  · exact hb c u mid d h

theorem StepR.goodL {conf cl rs : Bool} {v v' : V} {L : List Ev} (h : StepR conf cl rs v v' L) : GoodL L := by
  have hrel : ∀ v v' L, Release v v' L → GoodL L := by
    intro v v' L h
    obtain ⟨idx, m, hm, hst, hq, _, hL, rfl⟩ := h
    rcases hL with ⟨rfl, _⟩ | ⟨c, rfl⟩
    · exact GoodL.nil
    · intro c' u mid d h
      simp only [List.mem_singleton, Ev.qPublish.injEq] at h
      omega
  have hres : ∀ v v' L, Resend v v' L → GoodL L := by
    intro v v' L h
    obtain ⟨idx, m, st, hm, hcase, rfl⟩ := h
    rcases hcase with ⟨_, hq, hL⟩ | ⟨_, _, _, rfl⟩
    · rcases hL with ⟨rfl, _⟩ | ⟨c, rfl⟩
      · exact GoodL.nil
      · intro c' u mid d h
        simp only [List.mem_singleton, Ev.qPublish.injEq] at h
        omega
    · exact GoodL.nil
  cases h with
  | frame h => rw [h.2]; exact GoodL.nil
  | ack mid h =>
    obtain ⟨m, v1, _, _, _, hstar, _⟩ := h
    exact (Star.lift2 (fun _ => True) GoodL GoodL.nil (fun _ _ => GoodL.append)
      (fun _ _ _ _ hr => ⟨trivial, hrel _ _ _ hr⟩) hstar trivial).2
  | pubrec mid h => rw [h.2.1]; exact GoodL.nil
  | reset h => rw [h.2]; exact GoodL.nil
  | resend _ h =>
    exact (Star.lift2 (fun _ => True) GoodL GoodL.nil (fun _ _ => GoodL.append)
      (fun _ _ _ _ hr => ⟨trivial, hres _ _ _ hr⟩) h trivial).2
  | add h =>
    obtain ⟨_, _, h⟩ := h
    rcases h with ⟨_, _, hL⟩ | ⟨m, _, _, _, _, _, hL, _⟩
    · rcases hL with rfl | ⟨c, mid, rfl⟩
      · exact GoodL.nil
      · intro c' u mid' d h
        simp only [List.mem_singleton, Ev.qPublish.injEq] at h
        exact h.2.2.2.2
    · rcases hL with rfl | ⟨c, rfl⟩
      · exact GoodL.nil
      · intro c' u mid' d h
        simp only [List.mem_singleton, Ev.qPublish.injEq] at h
        exact h.2.2.2.2

theorem mem_qpubs {s s' : S} {e : Ev} (h : e ∈ evsOf s s') (hq : isQPublish e = true) : e ∈ qpubs s s' :=
  List.mem_filter.2 ⟨h, hq⟩


/-! ### DUP only after the instance was handed to a connection -/

def StateOK (l : List OutMsg) : Prop :=
  ∀ m ∈ l, m.state = .publish ∨ m.state = .waitPuback ∨ m.state = .waitPubrec ∨ m.state = .waitPubcomp ∨
    m.state = .resendPubrel ∨ m.state = .queued

/-- knowledge at the start of a step -/
def JH (H : Nat → Prop) (l : List OutMsg) : Prop :=
  ∀ m ∈ l, (m.dup = true ∨ (m.state ≠ .publish ∧ m.state ≠ .queued)) → H m.info

/-- what every step re-establishes -/
def HI (H : Nat → Prop) (l : List OutMsg) : Prop :=
  ∀ m ∈ l, (m.dup = true ∨ InPhase m.state) → H m.info

def GoodD (H : Nat → Prop) (L : List Ev) : Prop := ∀ c u mid q, Ev.qPublish c u mid q true ∈ L → H u

theorem GoodD.nil (H : Nat → Prop) : GoodD H [] := by intro c u mid q h; cases h
theorem GoodD.append {H : Nat → Prop} {a b : List Ev} (ha : GoodD H a) (hb : GoodD H b) : GoodD H (a ++ b) := by
  intro c u mid q h
  rcases List.mem_append.1 h with h | h
  · exact ha c u mid q h
  · exact hb c u mid q h

theorem JH.hi {H : Nat → Prop} {l : List OutMsg} (h : JH H l) : HI H l := by
  intro m hm hc
  refine h m hm ?_
  rcases hc with hc | hc
  · exact Or.inl hc
  · right; rcases hc with hc | hc <;> rw [hc] <;> exact ⟨by simp, by simp⟩

theorem hi_set {H : Nat → Prop} {l : List OutMsg} {idx : Nat} {m m' : OutMsg} (hm : l[idx]? = some m)
    (hp : HI H l) (hm' : (m'.dup = true ∨ InPhase m'.state) → H m'.info) : HI H (l.set idx m') := by
  obtain ⟨a, b, hl, hset⟩ := split_at l idx m hm
  intro x hx hxu
  rw [hset] at hx
  simp only [List.mem_append, List.mem_cons] at hx
  rcases hx with hx | rfl | hx
  · exact hp x (by rw [hl]; simp [hx]) hxu
  · exact hm' hxu
  · exact hp x (by rw [hl]; simp [hx]) hxu

theorem relState_cases (m : OutMsg) : relState m = .waitPuback ∨ relState m = .waitPubrec ∨ relState m = m.state := by
  unfold relState; split
  · exact Or.inl rfl
  · split
    · exact Or.inr (Or.inl rfl)
    · exact Or.inr (Or.inr rfl)

theorem Release.handed {H : Nat → Prop} {v v' : V} {L : List Ev} (hp : HI H v.out) (h : Release v v' L) :
    HI H v'.out ∧ GoodD H L := by
  obtain ⟨idx, m, hm, hst, _, _, hL, rfl⟩ := h
  have hmem := List.mem_of_getElem? hm
  refine ⟨hi_set hm hp ?_, ?_⟩
  · intro hc
    rcases hc with hc | hc
    · exact hp m hmem (Or.inl hc)
    · exfalso
      simp only [InPhase] at hc
      rcases relState_cases m with h | h | h <;> rw [h] at hc
      · rcases hc with hc | hc <;> cases hc
      · rcases hc with hc | hc <;> cases hc
      · rw [hst] at hc; rcases hc with hc | hc <;> cases hc
  · rcases hL with ⟨rfl, _⟩ | ⟨c, rfl⟩
    · exact GoodD.nil H
    · intro c' u mid q h
      simp only [List.mem_singleton, Ev.qPublish.injEq] at h
      rw [h.2.1]; exact hp m hmem (Or.inl h.2.2.2.2.symm)

theorem Resend.handed {H : Nat → Prop} {v v' : V} {L : List Ev} (hp : HI H v.out) (h : Resend v v' L) :
    HI H v'.out ∧ GoodD H L := by
  obtain ⟨idx, m, st, hm, hcase, rfl⟩ := h
  have hmem := List.mem_of_getElem? hm
  rcases hcase with ⟨hst, hq, hL⟩ | ⟨_, h2, h3, rfl⟩
  · refine ⟨hi_set hm hp ?_, ?_⟩
    · intro hc
      rcases hc with hc | hc
      · exact hp m hmem (Or.inl hc)
      · exfalso
        simp only [InPhase] at hc
        rcases hq with ⟨_, rfl⟩ | ⟨_, rfl⟩ <;> rcases hc with hc | hc <;> cases hc
    · rcases hL with ⟨rfl, _⟩ | ⟨c, rfl⟩
      · exact GoodD.nil H
      · intro c' u mid q h
        simp only [List.mem_singleton, Ev.qPublish.injEq] at h
        rw [h.2.1]; exact hp m hmem (Or.inl h.2.2.2.2.symm)
  · refine ⟨hi_set hm hp ?_, GoodD.nil H⟩
    intro hc
    rcases hc with hc | hc
    · exact hp m hmem (Or.inl hc)
    · exact hp m hmem (Or.inr (Or.inr h2))

theorem reset_dup (cl : Bool) (m : OutMsg) (h : (resetOutMsg cl m).dup = true) :
    m.dup = true ∨ (m.state ≠ .publish ∧ m.state ≠ .queued) := by
  unfold resetOutMsg at h
  by_cases hd : m.dup = true
  · exact Or.inl hd
  · right
    split at h
    · exact absurd h hd
    · split at h
      · simp only at h
        split at h
        · rename_i hs; rw [hs]; exact ⟨by simp, by simp⟩
        · exact absurd h hd
      · split at h
        · split at h
          · simp only at h
            split at h
            · rename_i hs; exact hs
            · exact absurd h hd
          · split at h
            · exact absurd h hd
            · simp only at h
              split at h
              · rename_i hs; rw [hs]; exact ⟨by simp, by simp⟩
              · exact absurd h hd
        · exact absurd h hd

theorem reset_inphase (cl : Bool) (m : OutMsg) (h : InPhase (resetOutMsg cl m).state) : InPhase m.state := by
  unfold resetOutMsg at h
  simp only [InPhase] at *
  repeat' split at h
  all_goals first | (rcases h with h | h <;> cases h) | assumption | skip
  all_goals simp_all

theorem StepR.handed {conf cl rs : Bool} {H : Nat → Prop} {v v' : V} {L : List Ev} (hconf : conf = true)
    (hj : JH H v.out) (h : StepR conf cl rs v v' L) : HI H v'.out ∧ GoodD H L := by
  subst hconf
  have hp := hj.hi
  cases h with
  | frame h => rw [h.1, h.2]; exact ⟨hp, GoodD.nil H⟩
  | ack mid h =>
    obtain ⟨m, v1, hfind, rfl, hconf, hstar, _⟩ := h
    have hp1 : HI H (v.out.filter (fun x => decide (x.mid ≠ mid))) := fun x hx => hp x (List.mem_filter.1 hx).1
    exact Star.lift2 (fun w => HI H w.out) (GoodD H) (GoodD.nil H) (fun _ _ => GoodD.append)
      (fun _ _ _ hw hr => Release.handed hw hr) hstar hp1
  | pubrec mid h =>
    obtain ⟨rfl, rfl, hconf⟩ := h
    refine ⟨?_, GoodD.nil H⟩
    intro x hx hc
    simp only [List.mem_map] at hx
    obtain ⟨y, hy, rfl⟩ := hx
    by_cases hm : y.mid = mid
    · simp only [if_pos hm] at hc ⊢
      refine hj y hy (Or.inr ?_)
      rcases (hconf rfl y hy hm).2 with h | h <;> rw [h] <;> exact ⟨by simp, by simp⟩
    · simp only [if_neg hm] at hc ⊢
      exact hp y hy hc
  | reset h =>
    obtain ⟨rfl, rfl⟩ := h
    refine ⟨?_, GoodD.nil H⟩
    intro x hx hc
    simp only [List.mem_map] at hx
    obtain ⟨y, hy, rfl⟩ := hx
    rw [reset_info]
    rcases hc with hc | hc
    · exact hj y hy (reset_dup cl y hc)
    · exact hp y hy (Or.inr (reset_inphase cl y hc))
  | resend _ h =>
    exact Star.lift2 (fun w => HI H w.out) (GoodD H) (GoodD.nil H) (fun _ _ => GoodD.append)
      (fun _ _ _ hw hr => Resend.handed hw hr) h hp
  | add h =>
    obtain ⟨_, _, h⟩ := h
    rcases h with ⟨ho, _, hL⟩ | ⟨m, _, hdup, hq12, _, ho, hL, hcase⟩
    · refine ⟨by rw [ho]; exact hp, ?_⟩
      rcases hL with rfl | ⟨c, mid, rfl⟩
      · exact GoodD.nil H
      · intro c' u mid' q h
        simp only [List.mem_singleton, Ev.qPublish.injEq] at h
        exact absurd h.2.2.2.2 (by simp)
    · refine ⟨?_, ?_⟩
      · rw [ho]
        intro x hx hc
        simp only [List.mem_append, List.mem_singleton] at hx
        rcases hx with hx | rfl
        · exact hp x hx hc
        · exfalso
          rcases hc with hc | hc
          · rw [hdup] at hc; cases hc
          · simp only [InPhase] at hc
            rcases hcase with ⟨hs, _, _⟩ | ⟨hs, _⟩ | ⟨hs, _⟩ <;> rw [hs] at hc
            · rcases hq12 with h | h <;> simp [h] at hc
            · rcases hc with hc | hc <;> cases hc
            · rcases hc with hc | hc <;> cases hc
      · rcases hL with rfl | ⟨c, rfl⟩
        · exact GoodD.nil H
        · intro c' u mid' q h
          simp only [List.mem_singleton, Ev.qPublish.injEq] at h
          exact absurd h.2.2.2.2 (by simp)

theorem stateOK_set {l : List OutMsg} {idx : Nat} {m m' : OutMsg} (hm : l[idx]? = some m)
    (hp : StateOK l) (hm' : m'.state = .publish ∨ m'.state = .waitPuback ∨ m'.state = .waitPubrec ∨
      m'.state = .waitPubcomp ∨ m'.state = .resendPubrel ∨ m'.state = .queued) : StateOK (l.set idx m') := by
  obtain ⟨a, b, hl, hset⟩ := split_at l idx m hm
  intro x hx
  rw [hset] at hx
  simp only [List.mem_append, List.mem_cons] at hx
  rcases hx with hx | rfl | hx
  · exact hp x (by rw [hl]; simp [hx])
  · exact hm'
  · exact hp x (by rw [hl]; simp [hx])

theorem reset_stateOK (cl : Bool) (m : OutMsg)
    (h : m.state = .publish ∨ m.state = .waitPuback ∨ m.state = .waitPubrec ∨ m.state = .waitPubcomp ∨
      m.state = .resendPubrel ∨ m.state = .queued) :
    (resetOutMsg cl m).state = .publish ∨ (resetOutMsg cl m).state = .waitPuback ∨ (resetOutMsg cl m).state = .waitPubrec ∨
      (resetOutMsg cl m).state = .waitPubcomp ∨ (resetOutMsg cl m).state = .resendPubrel ∨ (resetOutMsg cl m).state = .queued := by
  unfold resetOutMsg
  repeat' split
  all_goals first | exact Or.inl rfl | exact Or.inr (Or.inr (Or.inr (Or.inr (Or.inl rfl)))) | exact h

theorem StateOK.step {conf cl rs : Bool} {v v' : V} {L : List Ev} (hs : StateOK v.out)
    (h : StepR conf cl rs v v' L) : StateOK v'.out := by
  have hrel : ∀ v v' L, StateOK v.out → Release v v' L → StateOK v'.out := by
    intro v v' L hs h
    obtain ⟨idx, m, hm, hst, _, _, _, rfl⟩ := h
    refine stateOK_set hm hs ?_
    show relState m = .publish ∨ relState m = .waitPuback ∨ relState m = .waitPubrec ∨ relState m = .waitPubcomp ∨
      relState m = .resendPubrel ∨ relState m = .queued
    rcases relState_cases m with h | h | h <;> rw [h]
    · exact Or.inr (Or.inl rfl)
    · exact Or.inr (Or.inr (Or.inl rfl))
    · exact hs m (List.mem_of_getElem? hm)
  have hres : ∀ v v' L, StateOK v.out → Resend v v' L → StateOK v'.out := by
    intro v v' L hs h
    obtain ⟨idx, m, st, hm, hcase, rfl⟩ := h
    refine stateOK_set hm hs ?_
    rcases hcase with ⟨_, hq, _⟩ | ⟨_, _, h3, _⟩
    · rcases hq with ⟨_, rfl⟩ | ⟨_, rfl⟩
      · exact Or.inr (Or.inl rfl)
      · exact Or.inr (Or.inr (Or.inl rfl))
    · subst h3; exact Or.inr (Or.inr (Or.inr (Or.inl rfl)))
  cases h with
  | frame h => rw [h.1]; exact hs
  | ack mid h =>
    obtain ⟨m, v1, hfind, rfl, hconf, hstar, _⟩ := h
    exact Star.lift (fun w => StateOK w.out) (fun _ _ _ hw hr => hrel _ _ _ hw hr) hstar
      (fun x hx => hs x (List.mem_filter.1 hx).1)
  | pubrec mid h =>
    obtain ⟨rfl, _, _⟩ := h
    intro x hx
    simp only [List.mem_map] at hx
    obtain ⟨y, hy, rfl⟩ := hx
    split
    · exact Or.inr (Or.inr (Or.inr (Or.inl rfl)))
    · exact hs y hy
  | reset h =>
    obtain ⟨rfl, _⟩ := h
    intro x hx
    simp only [List.mem_map] at hx
    obtain ⟨y, hy, rfl⟩ := hx
    exact reset_stateOK cl y (hs y hy)
  | resend _ h => exact Star.lift (fun w => StateOK w.out) (fun _ _ _ hw hr => hres _ _ _ hw hr) h hs
  | add h =>
    obtain ⟨_, _, h⟩ := h
    rcases h with ⟨ho, _, _⟩ | ⟨m, _, _, hq12, _, ho, _, hcase⟩
    · rw [ho]; exact hs
    · rw [ho]
      intro x hx
      simp only [List.mem_append, List.mem_singleton] at hx
      rcases hx with hx | rfl
      · exact hs x hx
      · rcases hcase with ⟨hs', _, _⟩ | ⟨hs', _⟩ | ⟨hs', _⟩ <;> rw [hs']
        · rcases hq12 with h | h <;> simp [h]
        · exact Or.inl rfl
        · exact Or.inr (Or.inr (Or.inr (Or.inr (Or.inr rfl))))

/-! ### waiting states have been handed

Since `_update_inflight` and the retransmission loop of `_handle_connack` stop as soon as the socket is gone,
a message is put in `wait_for_puback` / `wait_for_pubrec` only together with handing its PUBLISH to a connection
(provided the packet can be encoded, which `publish()` has checked). -/

/-- handed before the step (`H`), or by one of the events `L` of the step -/
def HL (H : Nat → Prop) (L : List Ev) (u : Nat) : Prop := H u ∨ ∃ c mid q d, Ev.qPublish c u mid q d ∈ L

theorem HL.append {H : Nat → Prop} {A : List Ev} {u : Nat} (h : HL H A u) (L : List Ev) : HL H (A ++ L) u := by
  rcases h with h | ⟨c, mid, q, d, h⟩
  · exact Or.inl h
  · exact Or.inr ⟨c, mid, q, d, List.mem_append_left _ h⟩

def Wt (H : Nat → Prop) (l : List OutMsg) : Prop :=
  ∀ m ∈ l, (m.state = .waitPuback ∨ m.state = .waitPubrec) → H m.info

theorem Wt.mono {H H' : Nat → Prop} {l : List OutMsg} (h : Wt H l) (hm : ∀ u, H u → H' u) : Wt H' l :=
  fun m hmem hs => hm _ (h m hmem hs)

def WJ (H : Nat → Prop) (p5 : Prop) (l : List OutMsg) (A : List Ev) : Prop :=
  (∀ m ∈ l, Enc p5 m) ∧ Wt (HL H A) l

theorem Star.liftAcc {R : V → V → List Ev → Prop} (J : V → List Ev → Prop)
    (h : ∀ v v' A L, J v A → R v v' L → J v' (A ++ L)) {v v' : V} {L : List Ev} (hs : Star R v v' L) :
    ∀ A, J v A → J v' (A ++ L) := by
  induction hs with
  | refl => intro A h0; simpa using h0
  | step hr _ ih => intro A h0; rw [← List.append_assoc]; exact ih _ (h _ _ _ _ h0 hr)

theorem wj_set {H : Nat → Prop} {p5 : Prop} {A : List Ev} {l : List OutMsg} {idx : Nat} {m m' : OutMsg}
    (L : List Ev) (hm : l[idx]? = some m) (hj : WJ H p5 l A) (henc : Enc p5 m → Enc p5 m')
    (hw : (m'.state = .waitPuback ∨ m'.state = .waitPubrec) → HL H (A ++ L) m'.info) :
    WJ H p5 (l.set idx m') (A ++ L) := by
  obtain ⟨a, b, hl, hset⟩ := split_at l idx m hm
  have hmem : m ∈ l := List.mem_of_getElem? hm
  refine ⟨?_, ?_⟩
  · intro x hx
    rw [hset] at hx
    simp only [List.mem_append, List.mem_cons] at hx
    rcases hx with hx | rfl | hx
    · exact hj.1 x (by rw [hl]; simp [hx])
    · exact henc (hj.1 m hmem)
    · exact hj.1 x (by rw [hl]; simp [hx])
  · intro x hx hs
    rw [hset] at hx
    simp only [List.mem_append, List.mem_cons] at hx
    rcases hx with hx | rfl | hx
    · exact (hj.2 x (by rw [hl]; simp [hx]) hs).append L
    · exact hw hs
    · exact (hj.2 x (by rw [hl]; simp [hx]) hs).append L

theorem Release.wj {H : Nat → Prop} {v v' : V} {A L : List Ev} (hj : v.mok ∧ WJ H v.p5 v.out A) (h : Release v v' L) :
    v'.mok ∧ WJ H v'.p5 v'.out (A ++ L) := by
  obtain ⟨idx, m, hm, hst, _, _, hL, rfl⟩ := h
  refine ⟨hj.1, wj_set L hm hj.2 (fun h => h) (fun _ => ?_)⟩
  rcases hL with ⟨_, hne⟩ | ⟨c, rfl⟩
  · exact absurd (hj.2.1 m (List.mem_of_getElem? hm)) hne
  · exact Or.inr ⟨c, m.mid, m.qos, m.dup, by simp⟩

theorem Resend.wj {H : Nat → Prop} {v v' : V} {A L : List Ev} (hj : v.mok ∧ WJ H v.p5 v.out A) (h : Resend v v' L) :
    v'.mok ∧ WJ H v'.p5 v'.out (A ++ L) := by
  obtain ⟨idx, m, st, hm, hcase, rfl⟩ := h
  refine ⟨hj.1, wj_set L hm hj.2 (fun h => h) (fun hs => ?_)⟩
  rcases hcase with ⟨_, _, hL⟩ | ⟨_, _, h3, _⟩
  · rcases hL with ⟨_, hne⟩ | ⟨c, rfl⟩
    · exact absurd (hj.2.1 m (List.mem_of_getElem? hm)) hne
    · exact Or.inr ⟨c, m.mid, m.qos, m.dup, by simp⟩
  · exfalso; simp only [h3] at hs; rcases hs with hs | hs <;> cases hs

theorem reset_enc (cl : Bool) (p5 : Prop) (m : OutMsg) (h : Enc p5 m) : Enc p5 (resetOutMsg cl m) := by
  have e : (resetOutMsg cl m).mid = m.mid ∧ (resetOutMsg cl m).topic = m.topic ∧ (resetOutMsg cl m).payload = m.payload ∧
      (resetOutMsg cl m).qos = m.qos ∧ (resetOutMsg cl m).retain = m.retain := by
    unfold resetOutMsg
    repeat' split
    all_goals exact ⟨rfl, rfl, rfl, rfl, rfl⟩
  intro proto dup hp
  rw [e.1, e.2.1, e.2.2.1, e.2.2.2.1, e.2.2.2.2]
  exact h proto dup hp

theorem reset_wait (cl : Bool) (m : OutMsg)
    (h : (resetOutMsg cl m).state = .waitPuback ∨ (resetOutMsg cl m).state = .waitPubrec) :
    m.state = .waitPuback ∨ m.state = .waitPubrec := by
  unfold resetOutMsg at h
  repeat' split at h
  all_goals first | (rcases h with h | h <;> cases h) | exact h

theorem StepR.wj {conf cl rs : Bool} {H : Nat → Prop} {v v' : V} {L : List Ev} (hconf : conf = true)
    (hmok : v.mok) (hj : WJ H v.p5 v.out []) (h : StepR conf cl rs v v' L) :
    v'.mok ∧ WJ H v'.p5 v'.out L := by
  subst hconf
  cases h with
  | frame h => rw [h.1, h.2]; exact ⟨hmok, hj⟩
  | ack mid h =>
    obtain ⟨m, v1, hfind, rfl, hconf, hstar, _⟩ := h
    have hj1 : WJ H v.p5 (v.out.filter (fun x => decide (x.mid ≠ mid))) [] :=
      ⟨fun x hx => hj.1 x (List.mem_filter.1 hx).1, fun x hx => hj.2 x (List.mem_filter.1 hx).1⟩
    have := Star.liftAcc (fun w A => w.mok ∧ WJ H w.p5 w.out A) (fun _ _ _ _ hw hr => Release.wj hw hr) hstar []
      ⟨hmok, hj1⟩
    simpa using this
  | pubrec mid h =>
    obtain ⟨rfl, rfl, hconf⟩ := h
    refine ⟨hmok, ?_, ?_⟩
    · intro x hx
      simp only [List.mem_map] at hx
      obtain ⟨y, hy, rfl⟩ := hx
      split
      · exact hj.1 y hy
      · exact hj.1 y hy
    · intro x hx hs
      simp only [List.mem_map] at hx
      obtain ⟨y, hy, rfl⟩ := hx
      by_cases hm : y.mid = mid
      · simp only [if_pos hm] at hs
        rcases hs with hs | hs <;> cases hs
      · simp only [if_neg hm] at hs ⊢
        exact hj.2 y hy hs
  | reset h =>
    obtain ⟨rfl, rfl⟩ := h
    refine ⟨hmok, ?_, ?_⟩
    · intro x hx
      simp only [List.mem_map] at hx
      obtain ⟨y, hy, rfl⟩ := hx
      exact reset_enc cl _ y (hj.1 y hy)
    · intro x hx hs
      simp only [List.mem_map] at hx
      obtain ⟨y, hy, rfl⟩ := hx
      rw [reset_info]
      exact hj.2 y hy (reset_wait cl y hs)
  | resend _ h =>
    have := Star.liftAcc (fun w A => w.mok ∧ WJ H w.p5 w.out A) (fun _ _ _ _ hw hr => Resend.wj hw hr) h []
      ⟨hmok, hj⟩
    simpa using this
  | add h hx =>
    obtain ⟨hp5, hmk, hx⟩ := hx
    obtain ⟨_, _, h⟩ := h
    rw [hp5, hmk]
    refine ⟨hmok, ?_⟩
    rcases h with ⟨ho, _, _⟩ | ⟨m, _, _, _, _, ho, _, _⟩
    · rw [ho]
      exact ⟨hj.1, fun x hx hs => (hj.2 x hx hs).append L⟩
    · obtain ⟨henc, hl⟩ := hx hmok m ho
      rw [ho]
      refine ⟨?_, ?_⟩
      · intro x hx
        simp only [List.mem_append, List.mem_singleton] at hx
        rcases hx with hx | rfl
        · exact hj.1 x hx
        · exact henc
      · intro x hx hs
        simp only [List.mem_append, List.mem_singleton] at hx
        rcases hx with hx | rfl
        · exact (hj.2 x hx hs).append L
        · obtain ⟨c, rfl⟩ := hl hs
          exact Or.inr ⟨c, x.mid, x.qos, false, by simp⟩

def handedIn (log : List Ev) (u : Nat) : Prop := ∃ c mid q d, Ev.qPublish c u mid q d ∈ log

def LogOrd (log : List Ev) : Prop :=
  ∀ (i c u mid q : Nat), log[i]? = some (Ev.qPublish c u mid q true) →
    ∃ j, j < i ∧ ∃ c' mid' q' d', log[j]? = some (Ev.qPublish c' u mid' q' d')

/-- wait states have been handed -/
def WaitHanded (s : S) : Prop :=
  ∀ m ∈ s.out, (m.state = .waitPuback ∨ m.state = .waitPubrec) → handedIn s.log m.info

def DupK (s : S) : Prop := StateOK s.out ∧ HI (handedIn s.log) s.out ∧ LogOrd s.log

/-- every stored message can be encoded, `_last_mid` is in range, wait states have been handed -/
def WaitK (s : S) : Prop := (view s).mok ∧ (∀ m ∈ s.out, Enc (view s).p5 m) ∧ WaitHanded s

theorem DupK.init (cfg : Cfg) (proto t : Nat) : DupK (S.init cfg proto t) := by
  refine ⟨?_, ?_, ?_⟩
  · intro m hm; simp [S.init] at hm
  · intro m hm; simp [S.init] at hm
  · intro i c u mid q h; simp [S.init] at h

theorem WaitK.init (cfg : Cfg) (proto t : Nat) : WaitK (S.init cfg proto t) := by
  refine ⟨?_, ?_, ?_⟩
  · simp [view, S.init, Gen.midInit]
  · intro m hm; simp [S.init] at hm
  · intro m hm; simp [S.init] at hm

theorem WaitK.step (s : S) (op : Op) (k : WaitK s) (hc : opConforming s op = true) : WaitK (s.step op) := by
  obtain ⟨k1, k2, k3⟩ := k
  have tr := step_tr s op
  have hj : WJ (handedIn s.log) (view s).p5 (view s).out [] :=
    ⟨k2, fun m hm hs => Or.inl (k3 m hm hs)⟩
  obtain ⟨h1, h2, h3⟩ := StepR.wj hc k1 hj tr.2
  refine ⟨h1, h2, ?_⟩
  intro m hm hs
  rcases h3 m hm hs with ⟨c, mid, q, d, h⟩ | ⟨c, mid, q, d, h⟩
  · exact ⟨c, mid, q, d, by rw [tr.1]; exact List.mem_append_left _ h⟩
  · exact ⟨c, mid, q, d, by rw [tr.1]; exact List.mem_append_right _ (List.mem_filter.1 h).1⟩

theorem DupK.step (s : S) (op : Op) (k : DupK s) (hc : opConforming s op = true) (hw : WaitHanded s) :
    DupK (s.step op) := by
  obtain ⟨k1, k2, k3⟩ := k
  have tr := step_tr s op
  have hj : JH (handedIn s.log) (view s).out := by
    intro m hm hcnd
    rcases hcnd with hd | ⟨h1, h2⟩
    · exact k2 m hm (Or.inl hd)
    · rcases k1 m hm with h | h | h | h | h | h
      · exact absurd h h1
      · exact hw m hm (Or.inl h)
      · exact hw m hm (Or.inr h)
      · exact k2 m hm (Or.inr (Or.inl h))
      · exact k2 m hm (Or.inr (Or.inr h))
      · exact absurd h h2
  obtain ⟨h1, h2⟩ := StepR.handed hc hj tr.2
  have hmono : ∀ u, handedIn s.log u → handedIn (s.step op).log u := by
    intro u ⟨c, mid, q, d, h⟩
    exact ⟨c, mid, q, d, by rw [tr.1]; exact List.mem_append_left _ h⟩
  refine ⟨k1.step tr.2, fun m hm hcnd => hmono _ (h1 m hm hcnd), ?_⟩
  intro i c u mid q hi
  rw [tr.1] at hi ⊢
  by_cases hlt : i < s.log.length
  · rw [List.getElem?_append_left hlt] at hi
    obtain ⟨j, hj, c', mid', q', d', hj'⟩ := k3 i c u mid q hi
    exact ⟨j, hj, c', mid', q', d', by rw [List.getElem?_append_left (by omega)]; exact hj'⟩
  · rw [List.getElem?_append_right (by omega)] at hi
    have hmem : Ev.qPublish c u mid q true ∈ evsOf s (s.step op) := List.mem_of_getElem? hi
    obtain ⟨c', mid', q', d', hh⟩ := h2 c u mid q (mem_qpubs hmem rfl)
    obtain ⟨j, hjlt, hj⟩ := List.mem_iff_getElem.1 hh
    refine ⟨j, by omega, c', mid', q', d', ?_⟩
    rw [List.getElem?_append_left hjlt, List.getElem?_eq_getElem hjlt, hj]

/-- with a conforming broker: a stored message in a waiting state has been handed to a connection, DUP is set
only on handed messages, and a PUBLISH with DUP=1 is preceded in the log by a PUBLISH of the same instance -/
theorem dupK_run (cfg : Cfg) (proto : Nat) (ops : List Op) (hconf : confRun (S.init cfg proto t0) ops = true) :
    DupK (runFrom cfg proto ops) ∧ WaitK (runFrom cfg proto ops) :=
  conf_run_inv (fun s => DupK s ∧ WaitK s)
    (fun s op h hc => ⟨h.1.step s op hc h.2.2.2, h.2.step s op hc⟩) ops _
    ⟨DupK.init cfg proto t0, WaitK.init cfg proto t0⟩ hconf

end Paho.FlowLemmas
