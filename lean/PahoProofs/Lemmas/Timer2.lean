/-
Frame lemmas for the timer fields (continued): packet handlers, the connect()/reconnect() family, loop_read and
the application calls.
-/
import PahoProofs.Lemmas.Timer
set_option linter.unusedSimpArgs false
set_option linter.unusedVariables false
namespace Paho
namespace TimerLemmas
open S SessAct

theorem sendPublish_fr' {g : Bool} {t : S} {mid : Nat} {topic payload : Bytes} {qos : Nat} {retain dup : Bool}
    {info : Option Nat} {direct : Bool} {uid : Option Nat} {p : S × RC}
    (hu : t.sendPublish mid topic payload qos retain dup info direct uid = p) : FrRc g t p :=
  hu ▸ sendPublish_fr t mid topic payload qos retain dup info direct uid

theorem sendPubrel_fr' {g : Bool} {t : S} {mid : Nat} {direct : Bool} {p : S × RC}
    (hu : t.sendPubrel mid direct = p) : FrRc g t p := hu ▸ sendPubrel_fr t mid direct

theorem sendPuback_fr' {g : Bool} {t : S} {m : Nat} {p : S × RC} (hu : t.sendPuback m = p) : FrRc g t p :=
  hu ▸ sendPuback_fr t m
theorem sendPubrec_fr' {g : Bool} {t : S} {m : Nat} {p : S × RC} (hu : t.sendPubrec m = p) : FrRc g t p :=
  hu ▸ sendPubrec_fr t m
theorem sendPubcomp_fr' {g : Bool} {t : S} {m : Nat} {p : S × RC} (hu : t.sendPubcomp m = p) : FrRc g t p :=
  hu ▸ sendPubcomp_fr t m

theorem loopWrite_fr' {g : Bool} {t : S} {p : S × RC} (hu : t.loopWrite = p) : FrRc g t p :=
  hu ▸ loopWrite_fr t

theorem packetQueue_fr' {g : Bool} {t : S} {pkt : OutPkt} {direct : Bool} {p : S × RC}
    (hu : t.packetQueue pkt direct = p) (hb : g = true → pkt.bytes ≠ [0xC0, 0]) : FrRc g t p :=
  hu ▸ packetQueue_frc t pkt direct hb

theorem updateInflight_fr {g : Bool} (t : S) (fuel idx : Nat) : FrRc g t (t.updateInflight fuel idx) := by
  induction fuel generalizing t idx with
  | zero => unfold updateInflight; exact ⟨Fr.refl _ _, by rc_ne⟩
  | succ fuel ih =>
    unfold updateInflight
    split
    · exact ⟨Fr.refl _ _, by rc_ne⟩
    · rename_i m hm
      split
      · exact ⟨Fr.refl _ _, by rc_ne⟩
      split
      · split
        · simp only
          generalize hu : sendPublish _ _ _ _ _ _ _ _ _ _ = p
          have h1 := sendPublish_fr' (g := g) hu
          rcases p with ⟨s1, rc⟩
          obtain ⟨h1, hrc⟩ := h1
          simp only at h1 hrc ⊢
          have h2 : Fr g t s1 := Fr.trans (by fr_chain) h1
          split
          · exact ⟨h2, hrc⟩
          · exact ⟨h2.trans (ih _ _).1, (ih _ _).2⟩
        · exact ih _ _
      · exact ⟨Fr.refl _ _, by rc_ne⟩

theorem updateInflight_fr' {g : Bool} {t : S} {f i : Nat} {p : S × RC} (hu : t.updateInflight f i = p) :
    FrRc g t p := hu ▸ updateInflight_fr t f i

def dopA (t : S) (mid : Nat) (m : OutMsg) : S :=
  let s := (t.emit (.onPublish mid)).emit (.completed m.info mid)
  let s : S := { s with out := s.out.filter (·.mid ≠ mid) }
  (s.setInfo m.info (fun _ => { rc := rcSuccess, published := true })).emit (.infoDone m.info rcSuccess)

def dopB (t : S) : S := { t with inflight := t.inflight - 1 }

theorem doOnPublish_eq (t : S) (mid : Nat) : t.doOnPublish mid =
    match (t.emit (.onPublish mid)).out.find? (·.mid = mid) with
    | none => ((t.emit (.onPublish mid)).emit (.exc "KeyError"), rcSuccess)
    | some m =>
      if m.qos > 0 then
        if (dopB (dopA t mid m)).cfg.maxInflight > 0 then
          match (dopB (dopA t mid m)).updateInflight ((dopB (dopA t mid m)).out.length + 1) 0 with
          | (s, rc) => if rc ≠ rcSuccess then (s, rc) else (s, rcSuccess)
        else (dopB (dopA t mid m), rcSuccess)
      else (dopA t mid m, rcSuccess) := rfl

theorem dopA_fr {g : Bool} (t : S) (mid : Nat) (m : OutMsg) : Fr g t (dopA t mid m) := by
  unfold dopA; fr_chain

theorem dopB_fr {g : Bool} (t : S) : Fr g t (dopB t) := by
  unfold dopB; fr_chain

theorem doOnPublish_fr {g : Bool} (t : S) (mid : Nat) : FrRc g t (t.doOnPublish mid) := by
  rw [doOnPublish_eq]
  split
  · exact ⟨by fr_chain, by rc_ne⟩
  · rename_i m hm
    have hAB : Fr g t (dopB (dopA t mid m)) := (dopA_fr t mid m).trans (dopB_fr _)
    split
    · split
      · generalize hu : updateInflight _ _ _ = p
        have h1 := updateInflight_fr' (g := g) hu
        rcases p with ⟨s1, rc⟩
        obtain ⟨h1, hrc⟩ := h1
        simp only at h1 hrc ⊢
        have h2 : Fr g t s1 := hAB.trans h1
        split
        · exact ⟨h2, hrc⟩
        · exact ⟨h2, by rc_ne⟩
      · exact ⟨hAB, by rc_ne⟩
    · exact ⟨dopA_fr t mid m, by rc_ne⟩

theorem handlePubackcomp_fr {g : Bool} (t : S) (mid : Nat) : FrRc g t (t.handlePubackcomp mid) := by
  unfold handlePubackcomp
  split
  · exact doOnPublish_fr t mid
  · exact ⟨Fr.refl _ _, by rc_ne⟩

theorem handlePubrec_fr {g : Bool} (t : S) (mid : Nat) : FrRc g t (t.handlePubrec mid) := by
  unfold handlePubrec
  split
  · simp only
    generalize hu : sendPubrel _ _ _ = p
    have h1 := sendPubrel_fr' (g := g) hu
    exact ⟨Fr.trans (by fr_chain) h1.1, h1.2⟩
  · exact ⟨Fr.refl _ _, by rc_ne⟩

theorem handleOnMessage_fr {g : Bool} (t : S) (m : InMsg) : Fr g t (t.handleOnMessage m).1 := by
  unfold handleOnMessage
  simp only
  split <;> fr_chain

theorem handleOnMessage_fr' {g : Bool} {t : S} {m : InMsg} {p : S × Bool} (hu : t.handleOnMessage m = p) :
    Fr g t p.1 := hu ▸ handleOnMessage_fr t m

theorem handlePublish_fr {g : Bool} (t : S) (m : InMsg) : FrH g t (t.handlePublish m) := by
  unfold handlePublish
  extract_lets m'
  split
  · exact ⟨Fr.refl _ _, by intro r h; injection h with h; subst h; rc_ne⟩
  · split
    · generalize hu : handleOnMessage _ _ = p
      have h1 := handleOnMessage_fr' (g := g) hu
      rcases p with ⟨s1, r⟩
      simp only at h1 ⊢
      split
      · exact ⟨h1, by intro r h; cases h⟩
      · exact ⟨h1, by intro r h; injection h with h; subst h; rc_ne⟩
    · split
      · generalize hu : handleOnMessage _ _ = p
        have h1 := handleOnMessage_fr' (g := g) hu
        rcases p with ⟨s1, r⟩
        simp only at h1 ⊢
        split
        · exact ⟨h1, by intro r h; cases h⟩
        · split
          · exact ⟨h1, by intro r h; injection h with h; subst h; rc_ne⟩
          · generalize hu2 : sendPuback _ _ = p2
            have h2 := sendPuback_fr' (g := g) hu2
            rcases p2 with ⟨s2, r2⟩
            exact ⟨h1.trans h2.1, by intro r h; injection h with h; subst h; exact h2.2⟩
      · split
        · generalize hu : sendPubrec _ _ = p
          have h1 := sendPubrec_fr' (g := g) hu
          rcases p with ⟨s1, r⟩
          refine ⟨?_, by intro r h; injection h with h; subst h; exact h1.2⟩
          simp only
          fr_upd; exact h1.1
        · exact ⟨Fr.refl _ _, by intro r h; injection h with h; subst h; rc_ne⟩

theorem handlePubrel_fr {g : Bool} (t : S) (mid : Nat) : FrH g t (t.handlePubrel mid) := by
  unfold handlePubrel
  have h3 : ∀ (s1 : S) (r : Bool), Fr g t s1 → FrH g t (
      if r = true then (s1, HRes.raised "RuntimeError")
      else if s1.cfg.manualAck = true then (s1, HRes.rc rcSuccess)
      else match s1.sendPubcomp mid with | (s, rc) => (s, HRes.rc rc)) := by
    intro s1 r h0
    split
    · exact ⟨h0, by intro r h; cases h⟩
    · split
      · exact ⟨h0, by intro r h; injection h with h; subst h; rc_ne⟩
      · generalize hu2 : sendPubcomp _ _ = p2
        have h2 := sendPubcomp_fr' (g := g) hu2
        rcases p2 with ⟨s2, r2⟩
        exact ⟨h0.trans h2.1, by intro r h; injection h with h; subst h; exact h2.2⟩
  cases hf : List.find? (fun x => decide (x.mid = mid)) t.inm with
  | none => exact h3 t false (Fr.refl _ _)
  | some m =>
    simp only
    generalize hu : handleOnMessage _ _ = p
    have h1 := handleOnMessage_fr' (g := g) hu
    rcases p with ⟨s1, r⟩
    exact h3 s1 r (Fr.trans (by fr_chain) h1)

theorem connackResend_fr {g : Bool} (t : S) (fuel idx : Nat) (rc : RC) (hrc : rc ≠ 16) :
    FrRc g t (t.connackResend fuel idx rc) := by
  induction fuel generalizing t idx rc with
  | zero => unfold connackResend; exact ⟨Fr.refl _ _, hrc⟩
  | succ fuel ih =>
    unfold connackResend
    split
    · exact ⟨Fr.refl _ _, hrc⟩
    · rename_i m hm
      split
      · exact ⟨Fr.refl _ _, by rc_ne⟩
      split
      · generalize hu : loopWrite _ = p
        have h1 := loopWrite_fr' (g := g) hu
        rcases p with ⟨s1, r⟩
        exact ⟨h1.1, by rc_ne⟩
      · have h3 : ∀ (s1 : S) (rc1 : RC) (stop : Bool), Fr g t s1 → rc1 ≠ 16 → FrRc g t (
            if stop = true then (s1, rc1)
            else match s1.loopWrite with | (s, _) => connackResend s fuel (idx + 1) rc1) := by
          intro s1 rc1 stop h0 hr1
          split
          · exact ⟨h0, hr1⟩
          · generalize hu : loopWrite _ = p
            have h1 := loopWrite_fr' (g := g) hu
            rcases p with ⟨s2, r⟩
            exact ⟨(h0.trans h1.1).trans (ih _ _ _ hr1).1, (ih _ _ _ hr1).2⟩
        by_cases c1 : m.qos = 1 ∧ m.state = MS.publish
        · rw [if_pos c1]; simp only []
          generalize hu : sendPublish _ _ _ _ _ _ _ _ _ _ = p
          have h1 := sendPublish_fr' (g := g) hu
          rcases p with ⟨s1, r⟩
          exact h3 _ _ _ (Fr.trans (by fr_chain) h1.1) h1.2
        · rw [if_neg c1]
          by_cases c2 : m.qos = 2 ∧ m.state = MS.publish
          · rw [if_pos c2]; simp only []
            generalize hu : sendPublish _ _ _ _ _ _ _ _ _ _ = p
            have h1 := sendPublish_fr' (g := g) hu
            rcases p with ⟨s1, r⟩
            exact h3 _ _ _ (Fr.trans (by fr_chain) h1.1) h1.2
          · rw [if_neg c2]
            by_cases c3 : m.qos = 2 ∧ m.state = MS.resendPubrel
            · rw [if_pos c3]; simp only []
              generalize hu : sendPubrel _ _ _ = p
              have h1 := sendPubrel_fr' (g := g) hu
              rcases p with ⟨s1, r⟩
              exact h3 _ _ _ (Fr.trans (by fr_chain) h1.1) h1.2
            · rw [if_neg c3]
              exact h3 _ _ _ (Fr.refl _ _) hrc

/-! ### reconnect -/

theorem failQueuedQos0_fr {g : Bool} (l : List OutPkt) : ∀ (t : S), Fr g t (t.failQueuedQos0 l) := by
  induction l with
  | nil => intro t; exact Fr.refl _ _
  | cons p rest ih =>
    intro t
    unfold failQueuedQos0
    simp only
    split
    · split
      · exact Fr.trans (by fr_chain) (ih _)
      · exact ih t
    · exact ih t

theorem failQueuedQos0_sock (l : List OutPkt) : ∀ (t : S), (t.failQueuedQos0 l).sock = t.sock := by
  induction l with
  | nil => intro t; rfl
  | cons p rest ih =>
    intro t
    unfold failQueuedQos0
    simp only
    split
    · split
      · rw [ih]; rfl
      · exact ih t
    · exact ih t

theorem resetIn_proj (t : S) : t.messagesReconnectResetIn.now = t.now ∧ t.messagesReconnectResetIn.cfg = t.cfg ∧
    t.messagesReconnectResetIn.lastIn = t.lastIn ∧ t.messagesReconnectResetIn.lastOut = t.lastOut ∧
    t.messagesReconnectResetIn.pingT = t.pingT ∧ t.messagesReconnectResetIn.sock = t.sock ∧
    t.messagesReconnectResetIn.log = t.log := by
  unfold messagesReconnectResetIn; split <;> simp

/-- the state before the new socket is created: everything reset -/
theorem rcB_fr {g : Bool} (s : S) : Fr g s (rcB s) ∧ (rcB s).lastIn = s.now ∧ (rcB s).lastOut = s.now ∧
    (rcB s).pingT = 0 ∧ (rcB s).sock = none := by
  have hA : Fr g ({ s with pingT := 0, cstate := .connecting } : S) (rcA s) := by unfold rcA; fr_chain
  have h2 : Fr g ({ s with pingT := 0, cstate := .connecting } : S) ((rcA s).failQueuedQos0 (rcA s).outq) :=
    hA.trans (failQueuedQos0_fr _ _)
  have h0 : Fr g s ({ s with pingT := 0, cstate := .connecting } : S) := by fr_chain
  have hs2 : ((rcA s).failQueuedQos0 (rcA s).outq).sock = none := by
    rw [failQueuedQos0_sock]; unfold rcA; exact sockClose_sock _ _
  have hnow := h2.now
  have hp := h2.pingT
  simp only at hnow hp
  generalize hX : (rcA s).failQueuedQos0 (rcA s).outq = X at h2 hs2 hnow hp
  have hB : rcB s = (({ X with outq := [], lastIn := X.now, lastOut := X.now } : S).messagesReconnectResetOut.messagesReconnectResetIn).emit .onPreConnect := by
    unfold rcB; simp only [hX]
  obtain ⟨r1, r2, r3, r4, r5, r6, r7⟩ := resetIn_proj ({ X with outq := [], lastIn := X.now, lastOut := X.now } : S).messagesReconnectResetOut
  refine ⟨?_, ?_, ?_, ?_, ?_⟩
  · rw [hB]
    refine Fr.emit_r ?_ (fun _ => rfl)
    have hX' : Fr g s X := h0.trans h2
    refine hX'.trans ⟨by rw [r1]; rfl, by rw [r2]; rfl, Or.inr (by rw [r3]; rfl), Or.inr (by rw [r4]; rfl),
      Or.inl (by rw [r5]; rfl), ?_, ⟨[], by rw [r7]; simp [messagesReconnectResetOut], by simp⟩⟩
    intro _ h; rw [r6] at h; simp [messagesReconnectResetOut, hs2] at h
  · rw [hB]; simp only [emit]; rw [r3]; simp [messagesReconnectResetOut, hnow]
  · rw [hB]; simp only [emit]; rw [r4]; simp [messagesReconnectResetOut, hnow]
  · rw [hB]; simp only [emit]; rw [r5]; simp only [messagesReconnectResetOut]; omega
  · rw [hB]; simp only [emit]; rw [r6]; simp [messagesReconnectResetOut, hs2]

theorem rcC_proj (t : S) : (rcC t).now = t.now ∧ (rcC t).cfg = t.cfg ∧ (rcC t).lastIn = t.lastIn ∧
    (rcC t).lastOut = t.lastOut ∧ (rcC t).pingT = t.pingT ∧
    ∃ evs, (rcC t).log = t.log ++ evs ∧ ∀ e ∈ evs, goodEv e = true := by
  cases hext : t.cfg.ext <;> cases hcb : t.inCb <;> simp [rcC, emit, hext, hcb, goodEv]

theorem rcC_fr {g : Bool} (s t : S) (h : Fr g s t) (h1 : t.lastIn = s.now) (h2 : t.lastOut = s.now) (h3 : t.pingT = 0) :
    Fr g s (rcC t) := by
  obtain ⟨p1, p2, p3, p4, p5, evs, p6, p7⟩ := rcC_proj t
  have hn := h.now
  obtain ⟨e0, hl0, hg0⟩ := h.log
  refine ⟨by omega, p2.trans h.cfg, Or.inr (by omega), Or.inr (by omega), Or.inr (by omega), ?_, ?_⟩
  · intro _ _; omega
  · refine ⟨e0 ++ evs, by rw [p6, hl0, List.append_assoc], ?_⟩
    intro hg e he
    rcases List.mem_append.mp he with h | h
    · exact hg0 hg e h
    · exact p7 e h

theorem sendConnect_fr {g : Bool} (t : S) : FrRc g t t.sendConnect := by
  unfold sendConnect
  simp only
  split
  · exact ⟨by fr_chain, by rc_ne⟩
  · rename_i bytes henc
    exact packetQueue_frc _ _ _ (fun _ => encConnect_np (s := t) henc)

theorem reconnect_fr {g : Bool} (s : S) (ok : Bool) : FrH g s (s.reconnect ok) := by
  rw [reconnect_eq]
  obtain ⟨hB, b1, b2, b3, b4⟩ := rcB_fr (g := g) s
  split
  · exact ⟨Fr.refl _ _, by intro r h; cases h⟩
  · split
    · exact ⟨hB, by intro r h; cases h⟩
    · have hC := rcC_fr s (rcB s) hB b1 b2 b3
      have h2 := sendConnect_fr (g := g) (rcC (rcB s))
      exact ⟨hC.trans h2.1, by intro r h; injection h with h; subst h; exact h2.2⟩

theorem connectAsync_fr {g : Bool} (s : S) : Fr g s s.connectAsync := by
  unfold connectAsync; fr_chain

theorem connect_fr {g : Bool} (s : S) (ok : Bool) : FrH g s (s.connect ok) := by
  unfold connect
  have h1 : Fr g s (if s.proto = 5 then { s with firstConnect := true } else s).connectAsync := by
    split
    · exact Fr.trans (by fr_chain) (connectAsync_fr _)
    · exact connectAsync_fr s
  have h2 := reconnect_fr (g := g) (if s.proto = 5 then { s with firstConnect := true } else s).connectAsync ok
  exact ⟨h1.trans h2.1, h2.2⟩

/-! ### CONNACK, DISCONNECT, loop_read -/

theorem handleDisconnect_fr {g : Bool} (t : S) (reason : Option Nat) : FrH g t (t.handleDisconnect reason) := by
  unfold handleDisconnect
  simp only
  split
  · rename_i r' heq
    refine ⟨Fr.refl _ _, ?_⟩
    intro r h
    simp only at h
    subst h
    revert heq
    split
    · split <;> simp
    · simp
  · rename_i hbad
    refine ⟨?_, by intro r h; injection h with h; subst h; rc_ne⟩
    have hg : goodEv (.onDisconnect (reason.getD 0) true) = true := by
      cases reason with
      | none => rfl
      | some r =>
        by_cases h16 : r = 16
        · subst h16
          have : Reason.unpack 14 16 = .error .valueError := rfl
          simp [this] at hbad
        · simp [goodEv, h16]
    refine Fr.emit_r ?_ (fun _ => hg)
    split <;> fr_chain

theorem handleConnack_fr {g : Bool} (t : S) (sp : Bool) (result : Nat) (ok : Bool) :
    FrH g t (t.handleConnack sp result ok) := by
  unfold handleConnack
  simp only
  split
  · rename_i r heq
    refine ⟨Fr.refl _ _, ?_⟩
    intro rc h
    simp only at h
    subst h
    revert heq
    split
    · split <;> simp
    · simp
  · split
    · split
      · exact ⟨Fr.refl _ _, by intro r h; injection h with h; subst h; rc_ne⟩
      · have h := reconnect_fr (g := g) { t with proto := 3 } ok
        split
        · rename_i s' heq
          rw [heq] at h
          exact ⟨Fr.emit_r (Fr.trans (by fr_chain) h.1) (fun _ => rfl),
            by intro r h; injection h with h; subst h; rc_ne⟩
        · exact ⟨Fr.trans (by fr_chain) h.1, h.2⟩
    · by_cases h0 : result = 0
      · subst h0
        simp only [if_true]
        generalize hu : connackResend _ _ _ _ = p
        have h1 : FrRc g _ p := hu ▸ connackResend_fr _ _ _ _ (by rc_ne)
        rcases p with ⟨s1, r⟩
        refine ⟨Fr.trans ?_ h1.1, by intro r h; injection h with h; subst h; exact h1.2⟩
        fr_chain
      · simp only [h0, if_false]
        split
        · exact ⟨by fr_chain, by intro r h; injection h with h; subst h; rc_ne⟩
        · exact ⟨by fr_chain, by intro r h; injection h with h; subst h; rc_ne⟩

theorem packetHandle_fr {g : Bool} (t : S) (p : RxPkt) (ok : Bool) : FrH g t (t.packetHandle p ok) := by
  have lift : ∀ {q : S × RC}, FrRc g t q → FrH g t (q.1, HRes.rc q.2) := by
    intro q h; exact ⟨h.1, by intro r hr; injection hr with hr; subst hr; exact h.2⟩
  cases p with
  | connack sp rc => exact handleConnack_fr t sp rc ok
  | publish m => exact handlePublish_fr t m
  | puback mid => exact lift (handlePubackcomp_fr t mid)
  | pubcomp mid => exact lift (handlePubackcomp_fr t mid)
  | pubrec mid => exact lift (handlePubrec_fr t mid)
  | pubrel mid => exact handlePubrel_fr t mid
  | suback mid code => exact ⟨by unfold packetHandle; fr_chain, by intro r h; injection h with h; subst h; rc_ne⟩
  | unsuback mid => exact ⟨by unfold packetHandle; fr_chain, by intro r h; injection h with h; subst h; rc_ne⟩
  | pingreq => exact lift (sendSimple_fr t 0xD0 (fun _ => by decide))
  | pingresp => exact ⟨by unfold packetHandle; fr_chain, by intro r h; injection h with h; subst h; rc_ne⟩
  | disconnect r =>
    unfold packetHandle
    simp only
    split
    · exact handleDisconnect_fr t r
    · exact ⟨Fr.refl _ _, by intro r h; injection h with h; subst h; rc_ne⟩
  | badcmd => exact ⟨Fr.refl _ _, by intro r h; injection h with h; subst h; rc_ne⟩
  | malformed => exact ⟨Fr.refl _ _, by intro r h; injection h with h; subst h; rc_ne⟩

theorem loopRead_fr {g : Bool} (t : S) (item : RxItem) (ok : Bool) : FrH g t (t.loopRead item ok) := by
  unfold loopRead
  cases hc : t.sock with
  | none => exact ⟨Fr.refl _ _, by intro r h; injection h with h; subst h; rc_ne⟩
  | some c =>
    simp only
    have hL : ∀ (u : S) (rc : RC), Fr g t u → rc ≠ 16 →
        FrH g t (match u.loopRcHandle rc with | (s, rc) => (s, HRes.rc rc)) := by
      intro u rc hu hrc
      have h1 := loopRcHandle_fr (g := g) u rc (fun _ => hrc)
      have h2 := loopRcHandle_ne16 (g := g) u rc hrc
      rcases hl : u.loopRcHandle rc with ⟨s3, rc3⟩
      rw [hl] at h1 h2
      exact ⟨hu.trans h1.1, by intro r h; injection h with h; subst h; exact h2⟩
    cases item with
    | none => exact ⟨Fr.refl _ _, by intro r h; injection h with h; subst h; rc_ne⟩
    | eof => exact hL t rcConnLost (Fr.refl _ _) (by rc_ne)
    | err => exact hL t rcConnLost (Fr.refl _ _) (by rc_ne)
    | pkt p =>
      simp only
      have h := packetHandle_fr (g := g) t p ok
      rcases hph : t.packetHandle p ok with ⟨s1, r⟩
      rw [hph] at h
      cases r with
      | raised n => exact ⟨h.1, by intro r h; cases h⟩
      | rc rc =>
        simp only
        have hrc : rc ≠ 16 := h.2 rc rfl
        have h' : Fr g t ({ s1 with lastIn := s1.now } : S) := by fr_upd; exact h.1
        split
        · exact hL _ rc h' hrc
        · split
          · exact ⟨h', by intro r h; injection h with h; subst h; rc_ne⟩
          · split
            · exact ⟨h', by intro r h; injection h with h; subst h; rc_ne⟩
            · exact ⟨h', by intro r h; injection h with h; subst h; rc_ne⟩

end TimerLemmas
end Paho
