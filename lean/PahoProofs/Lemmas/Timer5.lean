/-
Inductive invariants over `S.step` for the keep-alive properties (C08).
-/
import PahoProofs.Lemmas.Timer4
set_option linter.unusedSimpArgs false
set_option linter.unusedVariables false
namespace Paho
namespace TimerLemmas
open S SessAct

/-- what `_check_keepalive` / `loop_misc()` may do to the timers -/
def CkFrame (s t : S) : Prop :=
  t.now = s.now ∧ t.cfg = s.cfg ∧
  ((t.lastOut = s.lastOut ∧ t.lastIn = s.lastIn ∧ t.pingT = s.pingT) ∨
   (s.cfg.keepalive ≠ 0 ∧ s.pingT = 0 ∧ t.lastOut = s.now ∧ t.lastIn = s.now ∧ (t.pingT = s.now ∨ t.pingT = 0)))

theorem CkFrame.kaClose {s t : S} (h : CkFrame s t) : CkFrame s (kaClose t) := by
  obtain ⟨p1, p2, p3, p4, p5, _⟩ := kaClose_proj t
  unfold CkFrame at *
  rw [p1, p2, p3, p4, p5]; exact h

theorem checkKeepalive_frame (s : S) : CkFrame s s.checkKeepalive := by
  have h0 : CkFrame s s := ⟨rfl, rfl, Or.inl ⟨rfl, rfl, rfl⟩⟩
  rcases checkKeepalive_cases s with ⟨a, _⟩ | ⟨a1, _, _, _, a5, a6⟩ | ⟨_, _, _, _, a5⟩
  · rw [a]; exact h0
  · rw [a6]
    obtain ⟨p1, p2, p3, p4, p5, _⟩ := kaPing_proj s
    refine ⟨p1, p2, Or.inr ⟨a1, a5, p3, p4, ?_⟩⟩
    omega
  · rw [a5]; exact h0.kaClose

theorem loopMisc_frame (s : S) : CkFrame s s.loopMisc.1 := by
  rcases loopMisc_cases s with ⟨_, h⟩ | ⟨_, _, h⟩ | ⟨_, _, _, h⟩ | ⟨_, _, _, h⟩ <;> rw [h]
  · exact ⟨rfl, rfl, Or.inl ⟨rfl, rfl, rfl⟩⟩
  · exact checkKeepalive_frame s
  · exact (checkKeepalive_frame s).kaClose
  · exact checkKeepalive_frame s

/-! ### the configuration is constant -/

theorem step_cfg (s : S) (op : Op) : (s.step op).cfg = s.cfg := by
  by_cases h1 : op = .loopMisc
  · subst h1; exact (loopMisc_frame s).2.1
  · by_cases h2 : ∃ ms, op = .tick ms
    · obtain ⟨ms, h2⟩ := h2; subst h2; rfl
    · exact (step_fr (g := false) s op h1 (fun ms h => h2 ⟨ms, h⟩)).cfg

theorem run_cons (s : S) (op : Op) (ops : List Op) : s.run (op :: ops) = (s.step op).run ops := rfl

theorem run_cfg (ops : List Op) : ∀ (s : S), (s.run ops).cfg = s.cfg := by
  induction ops with
  | nil => intro s; rfl
  | cons op rest ih => intro s; rw [run_cons, ih, step_cfg]

/-! ### clock sanity -/

def TInv (s : S) : Prop :=
  s.lastOut ≤ s.now ∧ s.lastIn ≤ s.now ∧ s.pingT ≤ s.now ∧ (s.pingT > 0 → s.pingT ≤ s.lastOut ∧ s.pingT ≤ s.lastIn)

theorem TInv.fr {g : Bool} {s t : S} (h : TInv s) (hf : Fr g s t) : TInv t := by
  have a := hf.now; have b := hf.lastIn; have c := hf.lastOut; have d := hf.pingT
  unfold TInv at *
  omega

theorem TInv.ck {s t : S} (h : TInv s) (hf : CkFrame s t) : TInv t := by
  unfold TInv CkFrame at *
  omega

theorem TInv.step {s : S} (h : TInv s) (op : Op) : TInv (s.step op) := by
  by_cases h1 : op = .loopMisc
  · subst h1; exact h.ck (loopMisc_frame s)
  · by_cases h2 : ∃ ms, op = .tick ms
    · obtain ⟨ms, h2⟩ := h2; subst h2
      unfold TInv at *
      simp only [S.step]
      omega
    · exact h.fr (step_fr (g := false) s op h1 (fun ms h => h2 ⟨ms, h⟩))

theorem TInv.run (ops : List Op) : ∀ {s : S}, TInv s → TInv (s.run ops) := by
  induction ops with
  | nil => intro s h; exact h
  | cons op rest ih => intro s h; rw [run_cons]; exact ih (h.step op)

/-! ### K = 0 -/

def K0Inv (s : S) : Prop := s.cfg.keepalive = 0 ∧ s.pingT = 0 ∧ ∀ e ∈ s.log, goodEv e = true

theorem loopMisc_k0 (s : S) (hk : s.cfg.keepalive = 0) (hp : s.pingT = 0) : s.loopMisc.1 = s := by
  have hck : s.checkKeepalive = s := by rw [checkKeepalive_eq]; simp [hk]
  rcases loopMisc_cases s with ⟨_, h⟩ | ⟨_, _, h⟩ | ⟨_, _, h3, h⟩ | ⟨_, _, _, h⟩
  · rw [h]
  · rw [h, hck]
  · rw [hck] at h3; unfold pingExpired at h3; omega
  · rw [h, hck]

theorem K0Inv.step {s : S} (h : K0Inv s) (op : Op) : K0Inv (s.step op) := by
  obtain ⟨hk, hp, hl⟩ := h
  by_cases h1 : op = .loopMisc
  · subst h1
    have := loopMisc_k0 s hk hp
    rcases hm : s.loopMisc with ⟨s1, rc⟩
    rw [hm] at this
    simp only at this
    subst this
    simp only [S.step, hm, emit]
    refine ⟨hk, hp, ?_⟩
    intro e he
    rcases List.mem_append.mp he with he | he
    · exact hl e he
    · simp at he; subst he; rfl
  · by_cases h2 : ∃ ms, op = .tick ms
    · obtain ⟨ms, h2⟩ := h2; subst h2
      exact ⟨hk, hp, hl⟩
    · have hf := step_fr (g := true) s op h1 (fun ms h => h2 ⟨ms, h⟩)
      obtain ⟨evs, he, hg⟩ := hf.log
      refine ⟨by rw [hf.cfg]; exact hk, by have := hf.pingT; omega, ?_⟩
      rw [he]
      intro e hm
      rcases List.mem_append.mp hm with hm | hm
      · exact hl e hm
      · exact hg rfl e hm

theorem K0Inv.run (ops : List Op) : ∀ {s : S}, K0Inv s → K0Inv (s.run ops) := by
  induction ops with
  | nil => intro s h; exact h
  | cons op rest ih => intro s h; rw [run_cons]; exact ih (h.step op)

/-! ### bounded silence -/

/-- while a socket is held: the activity timers and an outstanding PINGREQ are younger than `K + acc` -/
def GInv (K acc : Nat) (s : S) : Prop :=
  s.sock.isSome = true →
    s.now - s.lastOut < K * 1000 + acc ∧ s.now - s.lastIn < K * 1000 + acc ∧
    (s.pingT > 0 → s.now - s.pingT < K * 1000 + acc)

theorem GInv.mono {K a b : Nat} {s : S} (h : GInv K a s) (hab : a ≤ b) : GInv K b s := by
  intro hs; have := h hs; omega

theorem GInv.fr {g : Bool} {K acc : Nat} {s t : S} (hK : K > 0) (h : GInv K acc s) (hf : Fr g s t) : GInv K acc t := by
  intro ht
  have a := hf.now; have b := hf.lastIn; have c := hf.lastOut; have d := hf.pingT
  cases hs : s.sock with
  | none =>
    have := hf.newSock hs ht
    omega
  | some c =>
    have := h (by simp [hs])
    omega

theorem GInv.tick {K acc : Nat} {s : S} (h : GInv K acc s) (ms : Nat) : GInv K (acc + ms) (s.step (.tick ms)) := by
  intro ht
  have := h ht
  simp only [S.step] at *
  omega

theorem GInv.misc {K : Nat} (s : S) (hK : K > 0) (hc : s.cfg.keepalive = K) : GInv K 0 (s.step .loopMisc) := by
  intro ht
  have ht' : s.loopMisc.1.sock.isSome = true := by
    simp only [S.step] at ht
    rcases hm : s.loopMisc with ⟨s1, rc⟩
    rw [hm] at ht
    exact ht
  obtain ⟨h1, h2, h3, h4⟩ := loopMisc_survive s ht'
  have hst : (s.step .loopMisc).now = s.checkKeepalive.now ∧ (s.step .loopMisc).lastOut = s.checkKeepalive.lastOut ∧
      (s.step .loopMisc).lastIn = s.checkKeepalive.lastIn ∧ (s.step .loopMisc).pingT = s.checkKeepalive.pingT := by
    simp [S.step, h2, emit]
  obtain ⟨e1, e2, e3, e4⟩ := hst
  rw [e1, e2, e3, e4]
  unfold pingExpired at h3
  rcases h4 with ⟨a, b⟩ | ⟨a1, a2, a3, a4, a5⟩
  · rw [a] at h3 ⊢
    rcases b with b | b
    · omega
    · simp [idleB] at b
      subst hc
      refine ⟨by omega, by omega, fun hp => by omega⟩
  · obtain ⟨p1, p2, p3, p4, p5, _⟩ := kaPing_proj s
    rw [a5] at h3 ⊢
    rw [p1, p2] at h3
    rw [p1, p3, p4]
    omega

theorem init_sock (cfg : Cfg) (proto t : Nat) : (S.init cfg proto t).sock = none := rfl

end TimerLemmas
end Paho
