/-
Lemmas for the composition packet queue / `_packet_write` ∘ `_WebsocketWrapper._send_impl` (Paho.Model.WsWriter).
-/
import Paho.Model.WsWriter
import PahoProofs.Lemmas.WsSend

namespace Paho.WsW
open Paho Paho.Ws

/-- the frames of a list of packets, the i-th one masked with the i-th key drawn -/
def framesOf : Nat → List Bytes → List Bytes
  | _, [] => []
  | i, p :: ps => createFrame 2 p (keyOf i) 1 :: framesOf (i + 1) ps

theorem framesOf_append (i : Nat) (l : List Bytes) (p : Bytes) :
    framesOf i (l ++ [p]) = framesOf i l ++ [createFrame 2 p (keyOf (i + l.length)) 1] := by
  induction l generalizing i with
  | nil => simp [framesOf]
  | cons a l ih =>
    simp only [List.cons_append, framesOf, ih, List.length_cons, List.cons_append]
    have e : i + 1 + l.length = i + (l.length + 1) := by omega
    rw [e]

theorem framesOf_length (i : Nat) (l : List Bytes) : (framesOf i l).length = l.length := by
  induction l generalizing i with
  | nil => rfl
  | cons a l ih => simp [framesOf, ih]

theorem framesOf_append_list (i : Nat) (l m : List Bytes) :
    framesOf i (l ++ m) = framesOf i l ++ framesOf (i + l.length) m := by
  induction l generalizing i with
  | nil => simp [framesOf]
  | cons a l ih =>
    simp only [List.cons_append, framesOf, ih, List.length_cons]
    have e : i + 1 + l.length = i + (l.length + 1) := by omega
    rw [e]

theorem createFrame_ne_nil (op : Nat) (d k : Bytes) : createFrame op d k 1 ≠ [] := by
  intro h
  have := createFrame_masked_length_ge op d k
  rw [h] at this
  simp at this

/-- the frame creation at the start of `_send_impl` when nothing is pending -/
def prep (s : St) (data : Bytes) : St :=
  if s.ws.sendbuffer.length = 0 then
    { s with ws := { sendbuffer := createFrame 2 data (keyOf s.nkeys) 1, requestedSize := data.length },
             nkeys := s.nkeys + 1, frames := s.frames ++ [createFrame 2 data (keyOf s.nkeys) 1] }
  else s

theorem prep_busy (s : St) (data : Bytes) : (prep s data).ws.sendbuffer ≠ [] := by
  unfold prep
  split
  · exact createFrame_ne_nil _ _ _
  · rename_i h
    intro h0; apply h; rw [h0]; rfl

/-- `iter` in two phases: frame creation, then the raw send on a non-empty buffer -/
theorem iter_cons (s : St) (p : Pkt) (rest : List Pkt) (out : SockSend) (hq : s.queue = p :: rest) :
    iter s out =
      (let s0 := prep s (p.bytes.drop p.pos)
       match out with
       | .wouldBlock => (s0, some .again)
       | .error => (s0, some .connLost)
       | .accept k =>
         let n := min k s0.ws.sendbuffer.length
         let s1 : St := { s0 with ws := { s0.ws with sendbuffer := s0.ws.sendbuffer.drop n },
                                  wire := s0.wire ++ s0.ws.sendbuffer.take n }
         if (s0.ws.sendbuffer.drop n).length = 0 then
           if s0.ws.requestedSize > 0 then
             if p.toProcess - (s0.ws.requestedSize : Int) = 0 then
               ({ s1 with queue := rest, done := s1.done ++ [p.bytes] }, none)
             else ({ s1 with queue := { p with toProcess := p.toProcess - s0.ws.requestedSize,
                                               pos := p.pos + s0.ws.requestedSize } :: rest }, none)
           else (s1, some .success)
         else (s1, some .success)) := by
  unfold iter prep sendImpl
  rw [hq]
  obtain ⟨queue, ws, wire, nkeys, enq, done, frames⟩ := s
  simp only at hq
  subst hq
  by_cases hb : ws.sendbuffer.length = 0
  · have hb' : ws.sendbuffer = [] := List.length_eq_zero_iff.1 hb
    cases out with
    | wouldBlock => simp [hb, hb']
    | error => simp [hb, hb']
    | accept k =>
      simp only [hb, hb', if_true, List.nil_append, List.length_nil]
      split <;> split <;> simp_all
  · cases out with
    | wouldBlock => simp [hb]
    | error => simp [hb]
    | accept k =>
      simp only [hb, if_false]
      split <;> split <;> simp_all

/-! ### the cross-layer invariant -/

structure Inv (s : St) : Prop where
  fifo : s.done ++ s.queue.map (·.bytes) = s.enq
  fresh : ∀ p ∈ s.queue, p.pos = 0 ∧ p.toProcess = (p.bytes.length : Int) ∧ p.bytes ≠ []
  wire : s.wire ++ s.ws.sendbuffer = s.frames.flatten
  frames : s.frames = framesOf 0 (s.enq.take s.nkeys)
  idle : s.ws.sendbuffer = [] → s.nkeys = s.done.length
  busy : s.ws.sendbuffer ≠ [] → s.nkeys = s.done.length + 1 ∧
          (∃ p rest, s.queue = p :: rest ∧ s.ws.requestedSize = p.bytes.length) ∧
          (∃ fs pre, s.frames = fs ++ [pre ++ s.ws.sendbuffer])

theorem inv_init : Inv {} := by
  refine ⟨rfl, ?_, rfl, rfl, fun _ => rfl, fun h => absurd rfl h⟩
  intro p hp; cases hp

theorem inv_enqueue {s : St} (h : Inv s) (p : Bytes) (hp : p ≠ []) : Inv (enqueue s p) := by
  obtain ⟨fifo, fresh, wire, frames, idle, busy⟩ := h
  have hk : s.nkeys ≤ s.enq.length := by
    by_cases hb : s.ws.sendbuffer = []
    · rw [idle hb, ← fifo]; simp
    · obtain ⟨hn, ⟨q, rest, hq, _⟩, _⟩ := busy hb
      rw [hn, ← fifo, hq]; simp
  refine ⟨?_, ?_, wire, ?_, idle, ?_⟩
  · simp only [WsW.enqueue, List.map_append, List.map_cons, List.map_nil, ← List.append_assoc, fifo]
  · intro q hq
    simp only [WsW.enqueue, List.mem_append, List.mem_singleton] at hq
    rcases hq with hq | rfl
    · exact fresh q hq
    · exact ⟨rfl, rfl, hp⟩
  · simp only [WsW.enqueue]
    rw [frames, List.take_append_of_le_length hk]
  · intro hb
    obtain ⟨hn, ⟨q, rest, hq, hr⟩, hf⟩ := busy hb
    refine ⟨hn, ⟨q, rest ++ [{ bytes := p, pos := 0, toProcess := p.length }], ?_, hr⟩, hf⟩
    simp only [WsW.enqueue, hq, List.cons_append]

/-- after the frame creation the wrapper is busy with the frame of the head packet -/
structure BusyInv (s : St) (p : Pkt) (rest : List Pkt) : Prop where
  q : s.queue = p :: rest
  fifo : s.done ++ s.queue.map (·.bytes) = s.enq
  fresh : ∀ p ∈ s.queue, p.pos = 0 ∧ p.toProcess = (p.bytes.length : Int) ∧ p.bytes ≠ []
  wire : s.wire ++ s.ws.sendbuffer = s.frames.flatten
  frames : s.frames = framesOf 0 (s.enq.take s.nkeys)
  nk : s.nkeys = s.done.length + 1
  rs : s.ws.requestedSize = p.bytes.length
  last : ∃ fs pre, s.frames = fs ++ [pre ++ s.ws.sendbuffer]
  ne : s.ws.sendbuffer ≠ []

theorem inv_prep {s : St} (h : Inv s) (p : Pkt) (rest : List Pkt) (hq : s.queue = p :: rest) :
    BusyInv (prep s (p.bytes.drop p.pos)) p rest := by
  obtain ⟨fifo, fresh, wire, frames, idle, busy⟩ := h
  have hp := fresh p (by rw [hq]; exact List.mem_cons_self)
  have hd : p.bytes.drop p.pos = p.bytes := by rw [hp.1]; rfl
  rw [hd]
  unfold WsW.prep
  by_cases hb : s.ws.sendbuffer.length = 0
  · have hb' : s.ws.sendbuffer = [] := List.length_eq_zero_iff.1 hb
    have hn := idle hb'
    simp only [hb, if_true]
    have htake : s.enq.take (s.nkeys + 1) = s.enq.take s.nkeys ++ [p.bytes] := by
      rw [hn, ← fifo, hq]
      simp [List.take_append, List.take_succ]
    refine ⟨hq, fifo, fresh, ?_, ?_, by simp [hn], rfl, ⟨s.frames, [], by simp⟩, createFrame_ne_nil _ _ _⟩
    · simp only [List.flatten_append, List.flatten_cons, List.flatten_nil, List.append_nil]
      rw [← wire, hb']; simp
    · simp only
      rw [htake, framesOf_append, ← frames]
      congr 3
      rw [hn, ← fifo]
      simp [List.length_take]
  · have hb' : s.ws.sendbuffer ≠ [] := fun h0 => hb (by rw [h0]; rfl)
    obtain ⟨hn, ⟨q, r, hq', hr⟩, hf⟩ := busy hb'
    simp only [hb, if_false]
    rw [hq] at hq'
    cases hq'
    exact ⟨hq, fifo, fresh, wire, frames, hn, hr, hf, hb'⟩

theorem inv_iter {s : St} (h : Inv s) (out : SockSend) :
    Inv (iter s out).1 ∧ ((iter s out).2 = none → (iter s out).1.queue.length + 1 = s.queue.length) := by
  cases hq : s.queue with
  | nil =>
    have : iter s out = (s, some .success) := by unfold iter; rw [hq]
    rw [this]; exact ⟨h, by simp⟩
  | cons p rest =>
    rw [iter_cons s p rest out hq]
    have hb := inv_prep h p rest hq
    generalize WsW.prep s (p.bytes.drop p.pos) = s0 at hb
    obtain ⟨q, fifo, fresh, wire, frames, nk, rs, ⟨fs, pre, hlast⟩, ne⟩ := hb
    have hp := fresh p (by rw [q]; exact List.mem_cons_self)
    have hinv0 : Inv s0 :=
      ⟨fifo, fresh, wire, frames, fun h0 => absurd h0 ne, fun _ => ⟨nk, ⟨p, rest, q, rs⟩, fs, pre, hlast⟩⟩
    cases out with
    | wouldBlock => exact ⟨hinv0, by simp⟩
    | error => exact ⟨hinv0, by simp⟩
    | accept k =>
      simp only
      by_cases hd : (s0.ws.sendbuffer.drop (min k s0.ws.sendbuffer.length)).length = 0
      · -- the frame in flight is now completely accepted: `_send_impl` returns the remembered size, the packet is done
        have hd' : s0.ws.sendbuffer.drop (min k s0.ws.sendbuffer.length) = [] := List.length_eq_zero_iff.1 hd
        have hge : s0.ws.sendbuffer.length ≤ min k s0.ws.sendbuffer.length := List.drop_eq_nil_iff.1 hd'
        have htake : s0.ws.sendbuffer.take (min k s0.ws.sendbuffer.length) = s0.ws.sendbuffer :=
          List.take_of_length_le hge
        have hpos : s0.ws.requestedSize > 0 := by rw [rs]; exact List.length_pos_iff.2 hp.2.2
        have hz : p.toProcess - (s0.ws.requestedSize : Int) = 0 := by rw [hp.2.1, rs]; omega
        rw [if_pos hd, if_pos hpos, if_pos hz]
        refine ⟨⟨?_, ?_, ?_, ?_, ?_, ?_⟩, ?_⟩
        · simp only
          rw [← fifo, q]; simp
        · intro x hx
          exact fresh x (by rw [q]; exact List.mem_cons_of_mem _ hx)
        · simp only
          rw [hd', htake, List.append_nil, wire]
        · exact frames
        · intro _
          simp only [List.length_append, List.length_singleton]
          exact nk
        · intro hne
          exact absurd hd' hne
        · intro _; simp [hq]
      · -- part of the frame is still pending: `_send_impl` returns 0, `_packet_write` keeps the packet and stops
        rw [if_neg hd]
        have hne' : s0.ws.sendbuffer.drop (min k s0.ws.sendbuffer.length) ≠ [] := fun h0 => hd (by rw [h0]; rfl)
        refine ⟨⟨fifo, fresh, ?_, frames, fun h0 => absurd h0 hne', fun _ => ⟨nk, ⟨p, rest, q, rs⟩, fs,
          pre ++ s0.ws.sendbuffer.take (min k s0.ws.sendbuffer.length), ?_⟩⟩, by simp⟩
        · simp only
          rw [List.append_assoc, List.take_append_drop, wire]
        · simp only
          rw [List.append_assoc, List.take_append_drop, hlast]

theorem inv_packetWrite (fuel : Nat) (s : St) (outs : List SockSend) (h : Inv s) :
    Inv (packetWrite fuel s outs).1 ∧ (s.queue.length + 1 ≤ fuel → (packetWrite fuel s outs).2 ≠ .stuck) := by
  induction fuel generalizing s outs with
  | zero => exact ⟨h, fun hf => by omega⟩
  | succ fuel ih =>
    have hi := inv_iter h (outs.headD acceptAll)
    unfold packetWrite
    cases hr : iter s (outs.headD acceptAll) with
    | mk s' r =>
      rw [hr] at hi
      cases r with
      | some r =>
        simp only
        refine ⟨hi.1, fun _ => ?_⟩
        -- `iter` never returns `stuck`
        intro hst
        subst hst
        unfold iter at hr
        split at hr
        · cases hr
        · simp only at hr
          split at hr
          · cases hr
          · cases hr
          · split at hr
            · split at hr <;> cases hr
            · cases hr
      | none =>
        simp only
        have hl := hi.2 rfl
        have := ih s' outs.tail hi.1
        exact ⟨this.1, fun hf => this.2 (by simp only at hl; omega)⟩

/-- every packet handed to `_packet_queue` is non-empty (an MQTT packet has at least two bytes) -/
def OpsOk (ops : List Op) : Prop := ∀ op ∈ ops, ∀ p, op = Op.enq p → p ≠ []

theorem inv_step {s : St} (h : Inv s) (op : Op) (hop : ∀ p, op = Op.enq p → p ≠ []) : Inv (step s op).1 := by
  cases op with
  | enq p => exact inv_enqueue h p (hop p rfl)
  | write outs => exact (inv_packetWrite _ s outs h).1

theorem inv_run (s : St) (ops : List Op) (h : Inv s) (hops : OpsOk ops) : Inv (run s ops) := by
  induction ops generalizing s with
  | nil => exact h
  | cons op ops ih =>
    simp only [run, List.foldl_cons]
    exact ih _ (inv_step h op (hops op List.mem_cons_self)) (fun o ho => hops o (List.mem_cons_of_mem _ ho))

end Paho.WsW
