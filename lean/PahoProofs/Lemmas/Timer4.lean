/-
`_check_keepalive` / `loop_misc()` decomposed into the two actions "send PINGREQ" and "close with the keep-alive
error", with their effect on the timers, the socket and the log.
-/
import PahoProofs.Lemmas.Timer3
import PahoProofs.Lemmas.SessionDisc
set_option linter.unusedSimpArgs false
set_option linter.unusedVariables false
namespace Paho
namespace TimerLemmas
open S SessAct

/-- the PINGREQ branch of `_check_keepalive` -/
def kaPing (s : S) : S :=
  match s.sendSimple 0xC0 with
  | (s1, rc) =>
    let s2 : S := if rc = rcSuccess then { s1 with pingT := s1.now } else s1
    { s2 with lastOut := s2.now, lastIn := s2.now }

/-- the closing branch of `_check_keepalive` and of `loop_misc()` -/
def kaClose (s : S) : S :=
  let s1 := s.sockClose
  if s1.disconnectingOrDone then ({ s1 with cstate := .disconnected } : S).doOnDisconnect rcSuccess false
  else ({ s1 with cstate := .connectionLost } : S).doOnDisconnect rcKeepalive false

def idleB (s : S) : Bool :=
  decide (s.now - s.lastOut ≥ s.cfg.keepalive * 1000) || decide (s.now - s.lastIn ≥ s.cfg.keepalive * 1000)

theorem checkKeepalive_eq (s : S) : s.checkKeepalive =
    if s.cfg.keepalive = 0 then s
    else match s.sock with
      | none => s
      | some _ =>
        if idleB s then
          if s.cstate = .connected ∧ s.pingT = 0 then kaPing s else kaClose s
        else s := by
  unfold checkKeepalive
  simp only []
  split
  · rfl
  · cases hc : s.sock with
    | none => rfl
    | some c => rfl

theorem loopMisc_eq (s : S) : s.loopMisc =
    match s.sock with
    | none => (s, rcNoConn)
    | some _ =>
      match s.checkKeepalive.sock with
      | none => (s.checkKeepalive, rcConnLost)
      | some _ =>
        if s.checkKeepalive.pingT > 0 ∧
            decide (s.checkKeepalive.now - s.checkKeepalive.pingT ≥ s.checkKeepalive.cfg.keepalive * 1000) = true then
          (kaClose s.checkKeepalive, rcConnLost)
        else (s.checkKeepalive, rcSuccess) := by
  unfold loopMisc
  cases hc : s.sock with
  | none => rfl
  | some c =>
    simp only
    cases hc2 : s.checkKeepalive.sock with
    | none => rfl
    | some c2 =>
      generalize s.checkKeepalive = ck
      simp only [kaClose, Gen.kaPingCmp, Cmp.evalNat]
      by_cases h1 : ck.pingT > 0 ∧ decide (ck.now - ck.pingT ≥ ck.cfg.keepalive * 1000) = true <;>
        by_cases h2 : ck.sockClose.disconnectingOrDone = true <;> simp only [h1, h2, if_true, if_false] <;> rfl

/-! ### closing -/

theorem sockClose_proj (s : S) (r : Bool) : (s.sockClose r).now = s.now ∧ (s.sockClose r).cfg = s.cfg ∧
    (s.sockClose r).lastIn = s.lastIn ∧ (s.sockClose r).lastOut = s.lastOut ∧ (s.sockClose r).pingT = s.pingT ∧
    (s.sockClose r).cstate = s.cstate := by
  cases hc : s.sock <;> cases h1 : s.regWrite <;> cases h2 : s.cfg.ext <;> cases h3 : s.inCb <;>
    simp [sockClose, callSocketUnregisterWrite, emit, hc, h1, h2, h3]

theorem kaClose_proj (s : S) : (kaClose s).now = s.now ∧ (kaClose s).cfg = s.cfg ∧
    (kaClose s).lastIn = s.lastIn ∧ (kaClose s).lastOut = s.lastOut ∧ (kaClose s).pingT = s.pingT ∧
    (kaClose s).sock = none := by
  obtain ⟨h1, h2, h3, h4, h5, h6⟩ := sockClose_proj s false
  have h7 := sockClose_sock s false
  unfold kaClose
  simp only
  split <;> simp [doOnDisconnect, emit, *]

theorem kaClose_log (s : S) (c : Nat) (hs : s.sock = some c) (hext : s.cfg.ext = false) (hst : s.cstate = .connected) :
    (kaClose s).log = s.log ++ [.sclose c false, .onDisconnect 16 false] ∧ (kaClose s).cstate = .connectionLost := by
  cases h1 : s.regWrite <;>
    simp [kaClose, sockClose, callSocketUnregisterWrite, doOnDisconnect, disconnectingOrDone, emit, hs, hext, hst, h1,
      rcKeepalive]

theorem kaClose_fr (s : S) : Fr false s (kaClose s) := by
  unfold kaClose
  simp only
  split
  · exact Fr.dod_r (by fr_chain) (by simp)
  · exact Fr.dod_r (by fr_chain) (by simp)

/-! ### sending the PINGREQ -/

theorem encPing : encSimple 0xC0 = [0xC0, 0] := by decide

theorem enqS_proj (s : S) (pkt : OutPkt) : (enqS s pkt).sock = s.sock ∧ (enqS s pkt).sendScript = s.sendScript ∧
    (enqS s pkt).outq = s.outq ++ [pkt] ∧
    (enqS s pkt).log = s.log ++ (match s.sock with | some c => [Ev.queued c pkt.bytes] | none => []) := by
  unfold enqS
  cases hc : s.sock <;> simp [emit, hc]

theorem sendPing_queued (s : S) (c : Nat) (hs : s.sock = some c) :
    ∃ evs, (s.sendSimple 0xC0).1.log = s.log ++ Ev.queued c [0xC0, 0] :: evs := by
  unfold sendSimple
  rw [packetQueue_eq]
  obtain ⟨-, -, -, hl⟩ := enqS_proj s (mkPkt 0xC0 0 0 (encSimple 0xC0))
  rw [hs] at hl
  have hF : Fr false (enqS s (mkPkt 0xC0 0 0 (encSimple 0xC0)))
      (if (!(enqS s (mkPkt 0xC0 0 0 (encSimple 0xC0))).cfg.ext) = true ∧ true = true ∧ (!(enqS s (mkPkt 0xC0 0 0 (encSimple 0xC0))).inCb) = true
        then (enqS s (mkPkt 0xC0 0 0 (encSimple 0xC0))).loopWrite
        else ((enqS s (mkPkt 0xC0 0 0 (encSimple 0xC0))).callSocketRegisterWrite, rcSuccess)).1 := by
    split
    · exact (loopWrite_fr _).1
    · exact Fr.regW_r (Fr.refl _ _)
  obtain ⟨evs, he, -⟩ := hF.log
  refine ⟨evs, ?_⟩
  rw [he, hl]; simp [mkPkt, encPing]

theorem tr0_facts {v v' : View} (h : Tr0 v v') :
    v'.sock = v.sock ∧ ∃ evs, v'.log = v.log ++ evs ∧ Disc.Silent evs := by
  induction h with
  | refl v => exact ⟨rfl, [], by simp, Disc.Silent.nil⟩
  | @cons k a b c ha hk _ ih =>
    cases k <;> simp [Kind.isQuiet] at hk
    obtain ⟨h1, -, e1, hl1, hs1⟩ := Disc.quiet_facts ha
    obtain ⟨h2, e2, hl2, hs2⟩ := ih
    exact ⟨h2.trans h1, e1 ++ e2, by rw [hl2, hl1, List.append_assoc], hs1.append hs2⟩

/-- with an accepting transport and an empty queue the PINGREQ neither closes the socket nor reports anything -/
theorem sendPing_live (s : S) (c : Nat) (hs : s.sock = some c) (hsend : s.sendScript = []) (hq : s.outq = []) :
    (s.sendSimple 0xC0).1.sock = some c ∧
    ∃ evs, (s.sendSimple 0xC0).1.log = s.log ++ evs ∧ Disc.Silent evs := by
  unfold sendSimple
  rw [packetQueue_eq]
  obtain ⟨e1, e2, e3, e4⟩ := enqS_proj s (mkPkt 0xC0 0 0 (encSimple 0xC0))
  rw [hs] at e1 e4
  rw [hsend] at e2
  rw [hq] at e3
  have hsil : Disc.Silent [Ev.queued c (mkPkt 0xC0 0 0 (encSimple 0xC0)).bytes] := by
    intro e he; simp at he; subst he; simp [Disc.isD, Disc.isC]
  split
  · have h := loopWrite_quiet (enqS s (mkPkt 0xC0 0 0 (encSimple 0xC0))) (by simp [e1]) e2
      (by rw [e3]; intro p hp; simp at hp; subst hp; exact (by decide : ¬ isDiscCmd 0xC0))
    obtain ⟨h1, evs, h2, h3⟩ := tr0_facts h.1
    simp only [view] at h1 h2
    refine ⟨by rw [h1, e1], _ ++ evs, ?_, hsil.append h3⟩
    rw [h2, e4, List.append_assoc]
  · simp only
    have h := Disc.quiet_facts (Act.regW (view (enqS s (mkPkt 0xC0 0 0 (encSimple 0xC0)))))
    rw [← view_regW] at h
    obtain ⟨h1, -, evs, h2, h3⟩ := h
    simp only [view] at h1 h2
    refine ⟨by rw [h1, e1], _ ++ evs, ?_, hsil.append h3⟩
    rw [h2, e4, List.append_assoc]

theorem kaPing_proj (s : S) : (kaPing s).now = s.now ∧ (kaPing s).cfg = s.cfg ∧
    (kaPing s).lastOut = s.now ∧ (kaPing s).lastIn = s.now ∧
    ((kaPing s).pingT = s.now ∨ (kaPing s).pingT = s.pingT ∨ (kaPing s).pingT = 0) ∧
    (kaPing s).sock = (s.sendSimple 0xC0).1.sock ∧ (kaPing s).log = (s.sendSimple 0xC0).1.log := by
  have hF := (sendSimple_fr (g := false) s 0xC0 (by simp)).1
  unfold kaPing
  rcases h : s.sendSimple 0xC0 with ⟨s1, rc⟩
  rw [h] at hF
  have a := hF.now; have b := hF.cfg; have d := hF.pingT
  simp only at a b d ⊢
  split <;> simp [a, b] <;> omega

/-! ### case analysis of `_check_keepalive` and `loop_misc()` -/

theorem checkKeepalive_cases (s : S) :
    (s.checkKeepalive = s ∧ (s.cfg.keepalive = 0 ∨ s.sock = none ∨ idleB s = false)) ∨
    (s.cfg.keepalive ≠ 0 ∧ s.sock.isSome = true ∧ idleB s = true ∧ s.cstate = .connected ∧ s.pingT = 0 ∧
      s.checkKeepalive = kaPing s) ∨
    (s.cfg.keepalive ≠ 0 ∧ s.sock.isSome = true ∧ idleB s = true ∧ ¬ (s.cstate = .connected ∧ s.pingT = 0) ∧
      s.checkKeepalive = kaClose s) := by
  rw [checkKeepalive_eq]
  by_cases hk : s.cfg.keepalive = 0
  · simp [hk]
  · cases hc : s.sock with
    | none => simp [hk]
    | some c =>
      cases hi : idleB s with
      | false => simp [hk]
      | true =>
        by_cases hp : s.cstate = .connected ∧ s.pingT = 0
        · right; left; simp [hk, hp]
        · right; right; simp [hk, hp]

/-- the PINGREQ outstanding in `t` has timed out -/
def pingExpired (t : S) : Prop := t.pingT > 0 ∧ t.now - t.pingT ≥ t.cfg.keepalive * 1000

theorem loopMisc_cases (s : S) :
    (s.sock = none ∧ s.loopMisc = (s, rcNoConn)) ∨
    (s.sock.isSome = true ∧ s.checkKeepalive.sock = none ∧ s.loopMisc = (s.checkKeepalive, rcConnLost)) ∨
    (s.sock.isSome = true ∧ s.checkKeepalive.sock.isSome = true ∧ pingExpired s.checkKeepalive ∧
      s.loopMisc = (kaClose s.checkKeepalive, rcConnLost)) ∨
    (s.sock.isSome = true ∧ s.checkKeepalive.sock.isSome = true ∧ ¬ pingExpired s.checkKeepalive ∧
      s.loopMisc = (s.checkKeepalive, rcSuccess)) := by
  rw [loopMisc_eq]
  cases hc : s.sock with
  | none => simp
  | some c =>
    cases hc2 : s.checkKeepalive.sock with
    | none => simp
    | some c2 =>
      by_cases he : pingExpired s.checkKeepalive
      · right; right; left
        refine ⟨rfl, rfl, he, ?_⟩
        simp only
        rw [if_pos]
        simpa [pingExpired] using he
      · right; right; right
        refine ⟨rfl, rfl, he, ?_⟩
        simp only
        rw [if_neg]
        simpa [pingExpired] using he

/-- `loop_misc()` returned with the socket still open -/
theorem loopMisc_survive (s : S) (h : s.loopMisc.1.sock.isSome = true) :
    s.sock.isSome = true ∧ s.loopMisc = (s.checkKeepalive, rcSuccess) ∧ ¬ pingExpired s.checkKeepalive ∧
    ((s.checkKeepalive = s ∧ (s.cfg.keepalive = 0 ∨ idleB s = false)) ∨
     (s.cfg.keepalive ≠ 0 ∧ idleB s = true ∧ s.cstate = .connected ∧ s.pingT = 0 ∧ s.checkKeepalive = kaPing s)) := by
  rcases loopMisc_cases s with ⟨h1, h2⟩ | ⟨h1, h2, h3⟩ | ⟨h1, h2, h3, h4⟩ | ⟨h1, h2, h3, h4⟩
  · rw [h2] at h; simp [h1] at h
  · rw [h3] at h; simp [h2] at h
  · rw [h4] at h; simp [(kaClose_proj _).2.2.2.2.2] at h
  · refine ⟨h1, h4, h3, ?_⟩
    rcases checkKeepalive_cases s with ⟨a, b⟩ | ⟨a1, a2, a3, a4, a5, a6⟩ | ⟨a1, a2, a3, a4, a5⟩
    · left; refine ⟨a, ?_⟩
      rcases b with b | b | b
      · exact Or.inl b
      · rw [b] at h1; simp at h1
      · exact Or.inr b
    · right; exact ⟨a1, a3, a4, a5, a6⟩
    · rw [a5, (kaClose_proj _).2.2.2.2.2] at h2; simp at h2

/-- when `_check_keepalive` sends the PINGREQ, `loop_misc()` does nothing else -/
theorem loopMisc_ping (s : S) (hk : s.cfg.keepalive ≠ 0) (hp : s.pingT = 0) (hck : s.checkKeepalive = kaPing s) :
    s.loopMisc.1 = kaPing s := by
  have hne : ¬ pingExpired (kaPing s) := by
    obtain ⟨p1, p2, p3, p4, p5, _⟩ := kaPing_proj s
    unfold pingExpired; rw [p1, p2]
    intro ⟨h1, h2⟩
    omega
  rcases loopMisc_cases s with ⟨h1, h2⟩ | ⟨h1, h2, h3⟩ | ⟨h1, h2, h3, h4⟩ | ⟨h1, h2, h3, h4⟩
  · have := checkKeepalive_eq s
    rw [h1] at this
    simp only [hk, if_false] at this
    rw [h2, ← hck, this]
  · rw [h3, hck]
  · rw [hck] at h3; exact absurd h3 hne
  · rw [h4, hck]

end TimerLemmas
end Paho
