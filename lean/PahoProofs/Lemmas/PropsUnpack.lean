/-
Helper lemmas for C17: `readProperty` inverts `writeProperty`; the `unpack` loop inverts `pack`.
-/
import PahoProofs.Lemmas.PropsPack

namespace Paho.PropsLemmas
open Paho Paho.Spec

/-- what `readUTF` demands of a string: strict UTF-8 without the code points MQTT forbids -/
def strOk (b : Bytes) : Prop := ∃ cps, utf8Decode b.length b = some cps ∧ mqttCharsOk cps = true

/-- values that `readProperty` reads back -/
def readable (ty : PType) (v : PVal) : Prop :=
  match ty, v with
  | .str, .bin b => strOk b
  | .pair, .pair k w => strOk k ∧ strOk w
  | _, _ => True

theorem rdU16_u16be (n : Nat) (h : n ≤ 65535) (tl : Bytes) : rdU16 (u16be n ++ tl) = some n := by
  simp only [u16be, List.cons_append, List.nil_append, rdU16]
  rw [ofNat_toNat _ (by omega), ofNat_toNat _ (by omega)]
  congr 1; omega

theorem rdU32_u32be (n : Nat) (h : n ≤ 4294967295) (tl : Bytes) : rdU32 (u32be n ++ tl) = some n := by
  simp only [u32be, List.cons_append, List.nil_append, rdU32]
  rw [ofNat_toNat _ (by omega), ofNat_toNat _ (by omega), ofNat_toNat _ (by omega), ofNat_toNat _ (by omega)]
  congr 1; omega

theorem u16be_length (n : Nat) : (u16be n).length = 2 := rfl
theorem u32be_length (n : Nat) : (u32be n).length = 4 := rfl

theorem drop2_u16 (n : Nat) (b R : Bytes) : (u16be n ++ b ++ R).drop 2 = b ++ R := by
  simp [u16be]

theorem take_app (b R : Bytes) : (b ++ R).take b.length = b := by simp

theorem readUTF_str (b : Bytes) (hl : b.length ≤ 65535) (hs : strOk b) (R : Bytes) (maxlen : Int)
    (hm : (b.length : Int) + 2 ≤ maxlen) :
    Props.readUTF (u16be b.length ++ b ++ R) maxlen = .ok (b, b.length + 2) := by
  obtain ⟨cps, hd, hc⟩ := hs
  unfold Props.readUTF
  have h2 : maxlen ≥ 2 := by omega
  rw [if_pos h2, List.append_assoc, rdU16_u16be _ hl]
  simp only
  have h3 : ¬ ((b.length : Int) > maxlen - 2) := by omega
  rw [if_neg h3, ← List.append_assoc, drop2_u16, take_app, hd]
  simp only [hc, if_true]

theorem readProperty_write (i t : Nat) (ty : PType) (v : PVal) (w : Bytes) (hi : i ≤ 268435455)
    (ht : Gen.propTypes[t]? = some ty.codeName) (hw : Props.writeProperty i t v = .ok w)
    (hr : readable ty v) :
    ∃ val, w = Spec.vbi i ++ val ∧ ∀ (R : Bytes) (L : Nat),
      Props.readProperty (val ++ R) t ((val.length + L : Nat) : Int) = .ok (v, val.length) := by
  have hs := writeProperty_spec i t ty v hi ht
  rw [hw] at hs
  simp only [Except.toOption] at hs
  cases ty <;> cases v <;> simp only [Spec.encodeProp] at hs
  case byte.int n =>
    split at hs
    · rename_i hc; cases hs
      refine ⟨_, rfl, fun R L => ?_⟩
      simp only [Props.readProperty, Props.typeName, ht, PType.codeName, List.cons_append, List.nil_append]
      rw [ofNat_toNat _ (by omega), Int.toNat_of_nonneg hc.1]; rfl
    · cases hs
  case two.int n =>
    split at hs
    · rename_i hc; cases hs
      refine ⟨_, rfl, fun R L => ?_⟩
      simp only [Props.readProperty, Props.typeName, ht, PType.codeName]
      rw [rdU16_u16be _ (by omega)]
      simp only [Int.toNat_of_nonneg hc.1, u16be_length]
    · cases hs
  case four.int n =>
    split at hs
    · rename_i hc; cases hs
      refine ⟨_, rfl, fun R L => ?_⟩
      simp only [Props.readProperty, Props.typeName, ht, PType.codeName]
      rw [rdU32_u32be _ (by omega)]
      simp only [Int.toNat_of_nonneg hc.1, u32be_length]
    · cases hs
  case varint.int n =>
    split at hs
    · rename_i hc; cases hs
      refine ⟨_, rfl, fun R L => ?_⟩
      simp only [Props.readProperty, Props.typeName, ht, PType.codeName]
      rw [vbiDec_vbi _ (by omega)]
      simp only [Int.toNat_of_nonneg hc.1]
    · cases hs
  case bin.bin b =>
    split at hs
    · rename_i hc; cases hs
      refine ⟨u16be b.length ++ b, by simp, fun R L => ?_⟩
      simp only [Props.readProperty, Props.typeName, ht, PType.codeName]
      rw [List.append_assoc, rdU16_u16be _ hc, ← List.append_assoc, drop2_u16]
      simp only [take_app, List.length_append, u16be_length]
      rw [Nat.add_comm]
    · cases hs
  case str.bin b =>
    split at hs
    · rename_i hc; cases hs
      refine ⟨u16be b.length ++ b, by simp, fun R L => ?_⟩
      simp only [Props.readProperty, Props.typeName, ht, PType.codeName]
      rw [readUTF_str b hc hr R _ (by simp [u16be_length]; omega)]
      simp [u16be_length, bind, Except.bind, pure, Except.pure]; omega
    · cases hs
  case pair.pair k x =>
    split at hs
    · rename_i hc; cases hs
      refine ⟨u16be k.length ++ k ++ (u16be x.length ++ x), by simp, fun R L => ?_⟩
      simp only [Props.readProperty, Props.typeName, ht, PType.codeName]
      rw [List.append_assoc, readUTF_str k hc.1 hr.1 _ _ (by simp [u16be_length]; omega)]
      simp only [bind, Except.bind]
      have hd : (u16be k.length ++ k ++ (u16be x.length ++ x ++ R)).drop (k.length + 2) =
          u16be x.length ++ x ++ R := by
        have : (u16be k.length ++ k).length = k.length + 2 := by simp [u16be_length]; omega
        rw [← this, List.drop_left]
      rw [hd, readUTF_str x hc.2 hr.2 R _ (by simp [u16be_length]; omega)]
      simp [u16be_length, pure, Except.pure]; omega
    · cases hs
  all_goals (cases hs)
theorem vbi_length_pos (n : Nat) : 0 < (Spec.vbi n).length := by
  rw [vbi_length]; split <;> (try split) <;> (try split) <;> omega

/-- one iteration of the `unpack` loop reads back one written property -/
theorem unpackLoop_step (q : Props) (name : String) (i t : Nat) (pk : List Nat) (ty : PType) (v : PVal)
    (w : Bytes)
    (hn : Gen.propNames.lookup name = some i) (hid : Props.nameOfId i = some name)
    (hrow : Props.row i = some (t, pk)) (ht : Gen.propTypes[t]? = some ty.codeName) (hi : i ≤ 268435455)
    (hc : pk.contains q.ptype = true) (hf : Props.valueForbidden name v = false)
    (hw : Props.writeProperty i t v = .ok w) (hr : readable ty v)
    (hdup : Props.allowsMultiple i = true ∨ q.getAttr i = none)
    (R : Bytes) (L fuel : Nat) :
    Props.unpackLoop (fuel + 1) q (w ++ R) ((w.length + L : Nat) : Int) =
      Props.unpackLoop fuel (q.putAttr i (newVals q i v)) R (L : Int) := by
  obtain ⟨val, rfl, hread⟩ := readProperty_write i t ty v w hi ht hw hr
  have hpos := vbi_length_pos i
  rw [Props.unpackLoop]
  have h0 : (((Spec.vbi i ++ val).length + L : Nat) : Int) > 0 := by
    simp only [List.length_append]; omega
  rw [if_pos h0, List.append_assoc, vbiDec_vbi i hi]
  simp only [List.drop_left, hrow]
  have e1 : (((Spec.vbi i ++ val).length + L : Nat) : Int) - ((Spec.vbi i).length : Nat) =
      ((val.length + L : Nat) : Int) := by
    simp only [List.length_append]; omega
  rw [e1, hread R L]
  simp only [List.drop_left, hid]
  have e2 : ((val.length + L : Nat) : Int) - (val.length : Nat) = (L : Int) := by omega
  rw [e2, setAttr_eq hn hrow hc hf]
  have hd : (!Props.allowsMultiple i && (q.getAttr i).isSome) = false := by
    rcases hdup with h | h <;> simp [h]
  simp only [hd]
  simp

/-- the effect of one loop iteration on the object -/
def stepv (i : Nat) (q : Props) (v : PVal) : Props := q.putAttr i (newVals q i v)

@[simp] theorem ptype_stepv (i : Nat) (q : Props) (v : PVal) : (stepv i q v).ptype = q.ptype := rfl

theorem ptype_foldl_stepv (i : Nat) (vs : List PVal) (q : Props) : (vs.foldl (stepv i) q).ptype = q.ptype := by
  induction vs generalizing q with
  | nil => rfl
  | cons v vs ih => simp only [List.foldl_cons, ih, ptype_stepv]

/-- the loop reads back all values written for one property -/
theorem unpackLoop_vals (name : String) (i t : Nat) (pk : List Nat) (ty : PType)
    (hn : Gen.propNames.lookup name = some i) (hid : Props.nameOfId i = some name)
    (hrow : Props.row i = some (t, pk)) (ht : Gen.propTypes[t]? = some ty.codeName) (hi : i ≤ 268435455)
    (vs : List PVal) :
    ∀ (q : Props) (w : Bytes), Props.writeAll i t vs = .ok w →
      (∀ v ∈ vs, Props.valueForbidden name v = false ∧ readable ty v) →
      pk.contains q.ptype = true →
      (Props.allowsMultiple i = true ∨ vs = [] ∨ (q.getAttr i = none ∧ vs.length ≤ 1)) →
      ∀ (R : Bytes) (L fuel : Nat), w.length + L ≤ fuel →
        ∃ fuel', L ≤ fuel' ∧
          Props.unpackLoop fuel q (w ++ R) ((w.length + L : Nat) : Int) =
            Props.unpackLoop fuel' (vs.foldl (stepv i) q) R (L : Int) := by
  induction vs with
  | nil =>
    intro q w hw _ _ _ R L fuel hfuel
    simp only [Props.writeAll, pure, Except.pure] at hw
    cases hw
    exact ⟨fuel, by simpa using hfuel, by simp⟩
  | cons v vs ih =>
    intro q w hw hvals hc hdup R L fuel hfuel
    simp only [Props.writeAll, bind, Except.bind, pure, Except.pure] at hw
    cases ha : Props.writeProperty i t v with
    | error e => rw [ha] at hw; cases hw
    | ok a =>
      rw [ha] at hw
      cases hb : Props.writeAll i t vs with
      | error e => rw [hb] at hw; cases hw
      | ok b =>
        rw [hb] at hw
        cases hw
        obtain ⟨hfv, hrv⟩ := hvals v List.mem_cons_self
        have hapos : 0 < a.length := by
          obtain ⟨val, rfl, _⟩ := readProperty_write i t ty v a hi ht ha hrv
          have := vbi_length_pos i
          simp only [List.length_append]; omega
        obtain ⟨f, rfl⟩ : ∃ f, fuel = f + 1 := ⟨fuel - 1, by simp only [List.length_append] at hfuel; omega⟩
        have hd1 : Props.allowsMultiple i = true ∨ q.getAttr i = none := by
          rcases hdup with h | h | h
          · exact Or.inl h
          · cases h
          · exact Or.inr h.1
        have e : (((a ++ b).length + L : Nat) : Int) = ((a.length + (b.length + L) : Nat) : Int) := by
          simp only [List.length_append]; omega
        rw [List.append_assoc, e,
          unpackLoop_step q name i t pk ty v a hn hid hrow ht hi hc hfv ha hrv hd1 (b ++ R) (b.length + L) f]
        have hd2 : Props.allowsMultiple i = true ∨ vs = [] ∨
            ((stepv i q v).getAttr i = none ∧ vs.length ≤ 1) := by
          rcases hdup with h | h | h
          · exact Or.inl h
          · cases h
          · right; left
            have := h.2
            simp only [List.length_cons] at this
            exact List.eq_nil_of_length_eq_zero (by omega)
        obtain ⟨fuel', hf', heq⟩ := ih (stepv i q v) b hb
          (fun x hx => hvals x (List.mem_cons_of_mem _ hx)) (by simpa using hc) hd2 R L f
          (by simp only [List.length_append] at hfuel; omega)
        exact ⟨fuel', hf', by simpa [stepv] using heq⟩

theorem getAttr_stepv (i j : Nat) (q : Props) (v : PVal) :
    (stepv i q v).getAttr j = if j = i then some (newVals q i v) else q.getAttr j :=
  getAttr_putAttr q i j _

theorem getAttr_foldl_stepv_ne (i j : Nat) (hne : j ≠ i) (vs : List PVal) (q : Props) :
    (vs.foldl (stepv i) q).getAttr j = q.getAttr j := by
  induction vs generalizing q with
  | nil => rfl
  | cons v vs ih => rw [List.foldl_cons, ih, getAttr_stepv, if_neg hne]

theorem getAttr_foldl_stepv_multi (i : Nat) (hm : Props.allowsMultiple i = true) (vs : List PVal) (q : Props) :
    (vs.foldl (stepv i) q).getAttr i =
      if vs = [] then q.getAttr i else some ((q.getAttr i).getD [] ++ vs) := by
  induction vs generalizing q with
  | nil => rfl
  | cons v vs ih =>
    rw [List.foldl_cons, ih, getAttr_stepv]
    simp only [if_true, newVals, hm, Option.getD_some, List.append_assoc, List.cons_append, List.nil_append]
    split
    · rename_i h; subst h; simp
    · simp

theorem getAttr_foldl_stepv_self (i : Nat) (vs : List PVal) (q : Props) (hq : q.getAttr i = none)
    (hne : vs ≠ []) (hm : Props.allowsMultiple i = true ∨ vs.length ≤ 1) :
    (vs.foldl (stepv i) q).getAttr i = some vs := by
  by_cases h : Props.allowsMultiple i = true
  · rw [getAttr_foldl_stepv_multi i h, if_neg hne, hq]; simp
  · rcases hm with hm | hm
    · exact absurd hm h
    · match vs, hne, hm with
      | [v], _, _ =>
        simp only [List.foldl_cons, List.foldl_nil, getAttr_stepv, if_true, newVals, h]
        simp

/-- the object the loop builds from the bytes of `packBody p names` -/
def absorb (p : Props) (q : Props) (names : List (String × Nat)) : Props :=
  names.foldl (fun q nm => match p.getAttr nm.2 with
    | some vs => vs.foldl (stepv nm.2) q
    | none => q) q

/-- everything the loop needs to know about the attributes of `p` (follows from `RoundTrippable`) -/
def PropOK (p : Props) : Prop :=
  ∀ name i vs, (name, i) ∈ Gen.propNames → p.getAttr i = some vs →
    vs ≠ [] ∧ ∃ t pk ty, Props.row i = some (t, pk) ∧ Gen.propTypes[t]? = some ty.codeName ∧
      i ≤ 268435455 ∧ pk.contains p.ptype = true ∧
      (∀ v ∈ vs, Props.valueForbidden name v = false ∧ readable ty v) ∧
      (Props.allowsMultiple i = true ∨ vs.length ≤ 1)

theorem unpackLoop_names (p : Props) (hp : PropOK p) (names : List (String × Nat)) :
    ∀ (q : Props) (w : Bytes), (∀ nm ∈ names, nm ∈ Gen.propNames) → (names.map (·.2)).Nodup →
      Props.packBody p names = .ok w → q.ptype = p.ptype → (∀ nm ∈ names, q.getAttr nm.2 = none) →
      ∀ (R : Bytes) (L fuel : Nat), w.length + L ≤ fuel →
        ∃ fuel', L ≤ fuel' ∧
          Props.unpackLoop fuel q (w ++ R) ((w.length + L : Nat) : Int) =
            Props.unpackLoop fuel' (absorb p q names) R (L : Int) := by
  induction names with
  | nil =>
    intro q w _ _ hw _ _ R L fuel hfuel
    simp only [Props.packBody, pure, Except.pure] at hw
    cases hw
    exact ⟨fuel, by simpa using hfuel, by simp [absorb]⟩
  | cons nm names ih =>
    intro q w hsub hnd hw hpt hnone R L fuel hfuel
    obtain ⟨name, i⟩ := nm
    have hmem : (name, i) ∈ Gen.propNames := hsub _ List.mem_cons_self
    have hsub' : ∀ nm ∈ names, nm ∈ Gen.propNames := fun nm h => hsub nm (List.mem_cons_of_mem _ h)
    simp only [List.map_cons, List.nodup_cons] at hnd
    obtain ⟨hnotin, hnd'⟩ := hnd
    cases hg : p.getAttr i with
    | none =>
      simp only [Props.packBody, hg] at hw
      have hnone' : ∀ nm ∈ names, q.getAttr nm.2 = none := fun nm h => hnone nm (List.mem_cons_of_mem _ h)
      obtain ⟨fuel', hf', heq⟩ := ih q w hsub' hnd' hw hpt hnone' R L fuel hfuel
      refine ⟨fuel', hf', ?_⟩
      rw [heq]
      simp only [absorb, List.foldl_cons, hg]
    | some vs =>
      obtain ⟨hvne, t, pk, ty, hrow, hty, hi, hc, hvals, hmul⟩ := hp name i vs hmem hg
      obtain ⟨hn, hid⟩ := names_lookup name i hmem
      simp only [Props.packBody, hg, hrow, bind, Except.bind, pure, Except.pure] at hw
      cases ha : Props.writeAll i t vs with
      | error e => rw [ha] at hw; cases hw
      | ok a =>
        rw [ha] at hw
        cases hb : Props.packBody p names with
        | error e => rw [hb] at hw; cases hw
        | ok b =>
          rw [hb] at hw
          cases hw
          have hqi : q.getAttr i = none := hnone (name, i) List.mem_cons_self
          have hdup : Props.allowsMultiple i = true ∨ vs = [] ∨ (q.getAttr i = none ∧ vs.length ≤ 1) := by
            rcases hmul with h | h
            · exact Or.inl h
            · exact Or.inr (Or.inr ⟨hqi, h⟩)
          have e : (((a ++ b).length + L : Nat) : Int) = ((a.length + (b.length + L) : Nat) : Int) := by
            simp only [List.length_append]; omega
          obtain ⟨f1, hf1, heq1⟩ := unpackLoop_vals name i t pk ty hn hid hrow hty hi vs q a ha hvals
            (by rw [hpt]; exact hc) hdup (b ++ R) (b.length + L) fuel
            (by simp only [List.length_append] at hfuel; omega)
          have hnone' : ∀ nm ∈ names, (vs.foldl (stepv i) q).getAttr nm.2 = none := by
            intro nm h
            have hne : nm.2 ≠ i := by
              intro heq; apply hnotin; rw [← heq]; exact List.mem_map_of_mem h
            rw [getAttr_foldl_stepv_ne i nm.2 hne]
            exact hnone nm (List.mem_cons_of_mem _ h)
          obtain ⟨fuel', hf', heq2⟩ := ih (vs.foldl (stepv i) q) b hsub' hnd' hb
            (by rw [ptype_foldl_stepv, hpt]) hnone' R L f1 hf1
          refine ⟨fuel', hf', ?_⟩
          rw [List.append_assoc, e, heq1, heq2]
          simp only [absorb, List.foldl_cons, hg]

theorem absorb_getAttr (p : Props) (hp : PropOK p) (names : List (String × Nat)) :
    ∀ (q : Props), (∀ nm ∈ names, nm ∈ Gen.propNames) → (names.map (·.2)).Nodup →
      (∀ nm ∈ names, q.getAttr nm.2 = none) →
      ∀ j, (absorb p q names).getAttr j = if j ∈ names.map (·.2) then p.getAttr j else q.getAttr j := by
  induction names with
  | nil => intro q _ _ _ j; simp [absorb]
  | cons nm names ih =>
    intro q hsub hnd hnone j
    obtain ⟨name, i⟩ := nm
    have hmem : (name, i) ∈ Gen.propNames := hsub _ List.mem_cons_self
    have hsub' : ∀ nm ∈ names, nm ∈ Gen.propNames := fun nm h => hsub nm (List.mem_cons_of_mem _ h)
    simp only [List.map_cons, List.nodup_cons] at hnd
    obtain ⟨hnotin, hnd'⟩ := hnd
    have hqi : q.getAttr i = none := hnone (name, i) List.mem_cons_self
    have hne : ∀ nm ∈ names, nm.2 ≠ i := by
      intro nm h heq; apply hnotin; rw [← heq]; exact List.mem_map_of_mem h
    simp only [absorb, List.foldl_cons]
    cases hg : p.getAttr i with
    | none =>
      simp only
      have := ih q hsub' hnd' (fun nm h => hnone nm (List.mem_cons_of_mem _ h)) j
      simp only [absorb] at this
      rw [this]
      simp only [List.map_cons, List.mem_cons]
      by_cases hj : j ∈ names.map (·.2)
      · simp [hj]
      · by_cases hji : j = i
        · subst hji; simp [hj, hg, hqi]
        · simp [hj, hji]
    | some vs =>
      simp only
      obtain ⟨hvne, t, pk, ty, _, _, _, _, _, hmul⟩ := hp name i vs hmem hg
      have hnone' : ∀ nm ∈ names, (vs.foldl (stepv i) q).getAttr nm.2 = none := by
        intro nm h
        rw [getAttr_foldl_stepv_ne i nm.2 (hne nm h)]
        exact hnone nm (List.mem_cons_of_mem _ h)
      have := ih (vs.foldl (stepv i) q) hsub' hnd' hnone' j
      simp only [absorb] at this
      rw [this]
      simp only [List.map_cons, List.mem_cons]
      by_cases hj : j ∈ names.map (·.2)
      · simp [hj]
      · by_cases hji : j = i
        · subst hji
          simp only [hj, if_false, true_or, if_true, hg]
          exact getAttr_foldl_stepv_self j vs q hqi hvne hmul
        · simp only [hj, hji, or_self, if_false]
          exact getAttr_foldl_stepv_ne i j hji vs q

theorem filterMap_congr' {α β : Type} (f g : α → Option β) (l : List α) (h : ∀ a ∈ l, f a = g a) :
    l.filterMap f = l.filterMap g := by
  induction l with
  | nil => rfl
  | cons a l ih =>
    simp only [List.filterMap_cons, h a List.mem_cons_self]
    rw [ih (fun a ha => h a (List.mem_cons_of_mem _ ha))]

theorem unpackLoop_zero (fuel : Nat) (q : Props) (buf : Bytes) :
    Props.unpackLoop fuel q buf ((0 : Nat) : Int) = .ok q := by
  cases fuel <;> simp [Props.unpackLoop]

/-- unpacking a packed object reproduces its view and consumes exactly the packed bytes -/
theorem unpack_pack (p : Props) (hp : PropOK p) (b tl : Bytes) (hpk : p.pack = .ok b) :
    ∃ q, Props.unpack p.ptype (b ++ tl) = .ok (q, b.length) ∧ q.view = p.view := by
  unfold Props.pack at hpk
  cases hB : p.packBody Gen.propNames with
  | error e => rw [hB] at hpk; cases hpk
  | ok body =>
    rw [hB] at hpk
    by_cases hl : body.length ≤ 268435455
    · simp only [bind, Except.bind, vbiEnc_nat body.length hl, pure, Except.pure] at hpk
      cases hpk
      have hsub : ∀ nm ∈ Gen.propNames, nm ∈ Gen.propNames := fun _ h => h
      have hnone : ∀ nm ∈ Gen.propNames, (Props.empty p.ptype).getAttr nm.2 = none := fun _ _ => rfl
      obtain ⟨fuel', _, heq⟩ := unpackLoop_names p hp Gen.propNames (Props.empty p.ptype) body hsub
        names_ids_nodup hB rfl hnone tl 0 ((Spec.vbi body.length ++ body ++ tl).length + 1)
        (by simp only [List.length_append]; omega)
      refine ⟨absorb p (Props.empty p.ptype) Gen.propNames, ?_, ?_⟩
      · unfold Props.unpack
        rw [List.append_assoc, vbiDec_vbi _ hl]
        simp only [List.drop_left]
        rw [← List.append_assoc]
        simp only [Nat.add_zero] at heq
        rw [heq, unpackLoop_zero]
        simp only [List.length_append]
        rw [Nat.add_comm]
      · unfold Props.view
        apply filterMap_congr'
        intro nm hnm
        obtain ⟨name, i⟩ := nm
        have := absorb_getAttr p hp Gen.propNames (Props.empty p.ptype) hsub names_ids_nodup hnone i
        have hmem : i ∈ Gen.propNames.map (·.2) := List.mem_map_of_mem (f := (·.2)) hnm
        rw [if_pos hmem] at this
        simp only [this]
    · have : ¬ ((0 : Int) ≤ ↑body.length ∧ (↑body.length : Int) ≤ 268435455) := by omega
      simp only [bind, Except.bind, vbiEnc_err _ this] at hpk
      cases hpk

end Paho.PropsLemmas
