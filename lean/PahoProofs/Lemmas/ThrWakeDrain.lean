/-
C07, section B: progress of the network thread (`c07_drains`). From every live state the writer thread alone, with the
socket writable (`select false true`), can bring every queued byte onto the wire.
-/
import PahoProofs.Lemmas.ThrWake
namespace Paho.Thr
open Paho

/-! ### packets in the queue / in hand are incomplete (no empty packet is ever appended) -/
def PosLt (s : WakeSys) : Prop := (∀ p ∈ s.queue, p.pos < p.len) ∧ (∀ p, s.lpc = .inhand p → p.pos < p.len)

theorem poslt_step (s : WakeSys) (t : Tid) (a : WAct) (s' : WakeSys) (ha : ∀ id, a ≠ .append id 0) (hi : PosLt s)
    (h : s.step t a = some s') : PosLt s' := by
  unfold PosLt at *
  obtain ⟨hq, hh⟩ := hi
  cases a <;> simp only [WakeSys.step] at h
  case append id len =>
    have hl : 0 < len := by
      rcases Nat.eq_zero_or_pos len with h0 | h0
      · exact absurd (by rw [h0]) (ha id)
      · exact h0
    split at h <;> simp [Gen.wakeAfterAppend] at h
    subst h
    refine ⟨?_, hh⟩
    intro p hp
    simp at hp
    rcases hp with hp | hp
    · exact hq p hp
    · subst hp; exact hl
  case send n =>
    split at h
    · simp at h
    split at h
    · rename_i p hp
      split at h
      · split at h <;> simp at h <;> subst h
        · exact ⟨hq, by simp⟩
        · refine ⟨hq, ?_⟩
          intro p' hp'
          simp at hp'
          subst hp'
          simp; omega
      · simp at h
    · simp at h
  case pop =>
    split at h
    · simp at h
    split at h
    · rename_i p rest hl hqq
      simp at h; subst h
      refine ⟨fun x hx => hq x (by simp [hqq, hx]), ?_⟩
      intro p' hp'
      simp at hp'; subst hp'
      exact hq p (by simp [hqq])
    · simp at h; subst h
      exact ⟨hq, by simp⟩
    · simp at h
  case pushback =>
    split at h
    · simp at h
    split at h
    · rename_i p hp
      simp [Gen.pushbackFront] at h; subst h
      refine ⟨?_, by simp⟩
      intro x hx
      simp at hx
      rcases hx with hx | hx
      · subst hx; exact hh _ hp
      · exact hq x hx
    · simp at h
  all_goals
    repeat' split at h
    all_goals first
      | (simp at h; done)
      | (simp at h
         subst h
         simp_all
         done)

theorem poslt_run (s : WakeSys) (sched : List (Tid × WAct)) (hlen : ∀ x ∈ sched, ∀ id, x.2 ≠ .append id 0)
    (h : PosLt s) : PosLt (s.run sched) := by
  induction sched generalizing s with
  | nil => exact h
  | cons x rest ih =>
    obtain ⟨t, a⟩ := x
    simp only [WakeSys.run]
    apply ih _ (fun x hx => hlen x (by simp [hx]))
    cases hs : s.step t a with
    | none => simpa using h
    | some s' => simpa using poslt_step s t a s' (hlen (t, a) (by simp)) h hs

/-! ### the writer's own schedule -/
def Drained (s : WakeSys) : Prop :=
  ∃ acts : List WAct, let s' := s.run (acts.map fun a => (s.loopTid, a))
    s'.queue = [] ∧ s'.handBytes = [] ∧ s'.all = s.all

theorem Drained.done {s : WakeSys} (hq : s.queue = []) (hh : s.handBytes = []) : Drained s :=
  ⟨[], by simp [WakeSys.run, hq, hh]⟩

theorem Drained.step {s s1 : WakeSys} (a : WAct) (h : s.step s.loopTid a = some s1) (ht : s1.loopTid = s.loopTid)
    (hall : s1.all = s.all) (hd : Drained s1) : Drained s := by
  obtain ⟨acts, hacts⟩ := hd
  refine ⟨a :: acts, ?_⟩
  simp only [List.map_cons, WakeSys.run, h, Option.getD_some]
  rw [ht, hall] at hacts
  exact hacts

/-- `_packet_write` with nothing in hand: pop and send every packet, then popleft() raises IndexError -/
theorem drained_writing (q : List Pkt) : ∀ s : WakeSys, s.lpc = .writing → s.queue = q → (∀ p ∈ q, p.pos < p.len) → Drained s := by
  induction q with
  | nil =>
    intro s hl hq _
    refine Drained.step (s1 := { s with lpc := .misc }) .pop (by simp [WakeSys.step, hl, hq]) rfl rfl ?_
    exact Drained.done hq (by simp [WakeSys.handBytes])
  | cons p rest ih =>
    intro s hl hq hpos
    have hp : p.pos < p.len := hpos p (by simp)
    refine Drained.step (s1 := { s with queue := rest, lpc := .inhand p }) .pop (by simp [WakeSys.step, hl, hq]) rfl rfl ?_
    refine Drained.step (s1 := { s with queue := rest, lpc := .writing, wire := s.wire ++ p.rest.take (p.len - p.pos) })
      (.send (p.len - p.pos)) ?_ rfl rfl ?_
    · have h1 : 0 < p.len - p.pos := by omega
      have h2 : p.pos + (p.len - p.pos) = p.len := by omega
      simp [WakeSys.step, h1, h2]
    · exact ih _ rfl rfl (fun x hx => hpos x (by simp [hx]))

theorem drained_inhand (s : WakeSys) (p : Pkt) (hl : s.lpc = .inhand p) (hpos : PosLt s) : Drained s := by
  have hp : p.pos < p.len := hpos.2 p hl
  refine Drained.step (s1 := { s with lpc := .writing, wire := s.wire ++ p.rest.take (p.len - p.pos) })
    (.send (p.len - p.pos)) ?_ rfl rfl ?_
  · have h1 : 0 < p.len - p.pos := by omega
    have h2 : p.pos + (p.len - p.pos) = p.len := by omega
    simp [WakeSys.step, hl, h1, h2]
  · exact drained_writing _ _ rfl rfl hpos.1

/-- select() returned with the socket in the write set (possibly only after the wake-up pipe was read: this is where
the statement order of `_loop`, `Gen.loopOrderOk`, is needed) -/
theorem drained_woke_w (s : WakeSys) (pr : Bool) (hl : s.lpc = .woke pr true) (hpos : PosLt s) : Drained s := by
  have hstart : ∀ s : WakeSys, s.lpc = .woke false true → (∀ p ∈ s.queue, p.pos < p.len) → Drained s := by
    intro s hl hq
    refine Drained.step (s1 := { s with lpc := .writing }) .startw (by simp [WakeSys.step, hl]) rfl rfl ?_
    exact drained_writing _ _ rfl rfl hq
  cases pr with
  | false => exact hstart s hl hpos.1
  | true =>
    refine Drained.step (s1 := { s with pipe := s.pipe - min s.pipe 10000, lpc := .woke false true }) .drain
      (by simp [WakeSys.step, hl, Gen.loopOrderOk]) rfl rfl ?_
    exact hstart _ rfl hpos.1

theorem drained_woke_pipe (s : WakeSys) (sw : Bool) (hl : s.lpc = .woke true sw) (hpos : PosLt s) : Drained s := by
  refine Drained.step (s1 := { s with pipe := s.pipe - min s.pipe 10000, lpc := .woke false true }) .drain
    (by simp [WakeSys.step, hl, Gen.loopOrderOk]) rfl rfl ?_
  exact drained_woke_w _ false rfl ⟨hpos.1, by simp⟩

theorem drained_woke_idle (s : WakeSys) (hl : s.lpc = .woke false false) (hq : s.queue = []) : Drained s := by
  refine Drained.step (s1 := { s with lpc := .misc }) .skipw (by simp [WakeSys.step, hl]) rfl rfl ?_
  exact Drained.done hq (by simp [WakeSys.handBytes])

/-- before `want_write()` -/
theorem drained_top (s : WakeSys) (hl : s.lpc = .top) (hpos : PosLt s) : Drained s := by
  refine Drained.step (s1 := { s with lpc := .armed (!s.queue.isEmpty) }) .wantw (by simp [WakeSys.step, hl]) rfl rfl ?_
  refine Drained.step (s1 := { s with lpc := .woke (decide (s.pipe > 0)) (!s.queue.isEmpty), stalls := _ }) (.select false true)
    (by simp [WakeSys.step]; rfl) rfl rfl ?_
  cases hq : s.queue with
  | cons p rest => exact drained_woke_w _ (decide (s.pipe > 0)) (by simp) ⟨by simpa [hq] using hpos.1, by simp⟩
  | nil =>
    by_cases hp : s.pipe > 0
    · exact drained_woke_pipe _ _ (by simp [hp]; rfl) ⟨by simp, by simp⟩
    · exact drained_woke_idle _ (by simp [hp]) rfl

theorem drained_misc (s : WakeSys) (hl : s.lpc = .misc) (hpos : PosLt s) : Drained s := by
  refine Drained.step (s1 := { s with lpc := .top }) .next (by simp [WakeSys.step, hl]) rfl rfl ?_
  exact drained_top _ rfl ⟨hpos.1, by simp⟩

theorem drained_woke (s : WakeSys) (pr sw : Bool) (hl : s.lpc = .woke pr sw) (hpos : PosLt s) : Drained s := by
  cases pr with
  | true => exact drained_woke_pipe s sw hl hpos
  | false =>
    cases sw with
    | true => exact drained_woke_w s false hl hpos
    | false =>
      refine Drained.step (s1 := { s with lpc := .misc }) .skipw (by simp [WakeSys.step, hl]) rfl rfl ?_
      exact drained_misc _ rfl ⟨hpos.1, by simp⟩

theorem drained_armed (s : WakeSys) (w : Bool) (hl : s.lpc = .armed w) (hpos : PosLt s) : Drained s := by
  refine Drained.step (s1 := { s with lpc := .woke (decide (s.pipe > 0)) w, stalls := _ }) (.select false true)
    (by simp [WakeSys.step, hl]; rfl) rfl rfl ?_
  exact drained_woke _ _ _ rfl ⟨hpos.1, by simp⟩

theorem drained_live (s : WakeSys) (hl : s.lpc ≠ .dead) (hpos : PosLt s) : Drained s := by
  cases h : s.lpc with
  | top => exact drained_top s h hpos
  | armed w => exact drained_armed s w h hpos
  | woke pr sw => exact drained_woke s pr sw h hpos
  | writing => exact drained_writing _ s h rfl hpos.1
  | inhand p => exact drained_inhand s p h hpos
  | misc => exact drained_misc s h hpos
  | dead => exact absurd h hl

end Paho.Thr
