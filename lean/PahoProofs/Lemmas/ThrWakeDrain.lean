/-
C07, section B: progress of the writer (`c07_drains`). From every live state the writer thread alone can bring every
queued byte onto the wire: finish the packet in hand, get to a place where `_packet_write` may run (`select false true`
from `armed`, `next` from `misc`; `top`, `woke`, `writing` already are), then pop/send until the queue is empty. This
also covers the states without a wake-up pipe (no loop_start() yet), where `_loop` itself cannot run.
-/
import PahoProofs.Lemmas.ThrWake
namespace Paho.Thr
open Paho

/-! ### packets in the queue / in hand are incomplete (no empty packet is ever appended) -/
def PosLt (s : WakeSys) : Prop := (∀ p ∈ s.queue, p.pos < p.len) ∧ (∀ p, s.hand = some p → p.pos < p.len)

theorem poslt_step (s : WakeSys) (t : Tid) (a : WAct) (s' : WakeSys) (ha : ∀ id, a ≠ .append id 0) (hi : PosLt s)
    (h : s.step t a = some s') : PosLt s' := by
  unfold PosLt at *
  obtain ⟨hq, hh⟩ := hi
  cases a <;> simp only [WakeSys.step] at h
  case append id len =>
    have hl : 0 < len := by
      rcases Nat.eq_zero_or_pos len with h0 | h0
      · exact absurd (by rw [h0]) (ha id)
      · exact h0
    have key : ∀ s1 : WakeSys, s1.queue = s.queue ++ [{ id := id, len := len }] → s1.hand = s.hand →
        (∀ p ∈ s1.queue, p.pos < p.len) ∧ (∀ p, s1.hand = some p → p.pos < p.len) := by
      intro s1 e1 e2
      rw [e1, e2]
      refine ⟨?_, hh⟩
      intro p hp
      simp at hp
      rcases hp with hp | hp
      · exact hq p hp
      · subst hp; exact hl
    split at h
    · split at h <;> simp at h
      subst h
      exact key _ rfl rfl
    · split at h <;> simp [Gen.wakeAfterAppend] at h
      subst h
      exact key _ rfl rfl
  case wake =>
    split at h
    · simp at h
    split at h <;> simp [Gen.wakeAfterAppend] at h
    subst h
    exact ⟨hq, hh⟩
  case send n =>
    split at h
    · simp at h
    split at h
    · rename_i p hp
      split at h
      · simp at h; subst h
        refine ⟨hq, ?_⟩
        intro p' hp'
        simp at hp'
        obtain ⟨_, hp'⟩ := hp'
        subst hp'
        simp; omega
      · simp at h
    · simp at h
  case pop =>
    split at h
    · simp at h
    split at h
    · rename_i p rest hqq
      simp at h; subst h
      refine ⟨fun x hx => hq x (by simp [hqq, hx]), ?_⟩
      intro p' hp'
      simp at hp'; subst hp'
      exact hq p (by simp [hqq])
    · simp at h; subst h
      exact ⟨hq, hh⟩
  case pushback =>
    split at h
    · simp at h
    split at h
    · rename_i p hp
      simp [Gen.pushbackFront] at h; subst h
      refine ⟨?_, by simp⟩
      intro x hx
      simp at hx
      rcases hx with hx | hx
      · subst hx; exact hh _ hp
      · exact hq x hx
    · simp at h
  all_goals
    repeat' split at h
    all_goals first
      | (simp at h; done)
      | (simp at h
         subst h
         first | exact ⟨hq, hh⟩ | (simp_all; done))

theorem poslt_run (s : WakeSys) (sched : List (Tid × WAct)) (hlen : ∀ x ∈ sched, ∀ id, x.2 ≠ .append id 0)
    (h : PosLt s) : PosLt (s.run sched) := by
  induction sched generalizing s with
  | nil => exact h
  | cons x rest ih =>
    obtain ⟨t, a⟩ := x
    simp only [WakeSys.run]
    apply ih _ (fun x hx => hlen x (by simp [hx]))
    cases hs : s.step t a with
    | none => simpa using h
    | some s' => simpa using poslt_step s t a s' (hlen (t, a) (by simp)) h hs

/-! ### the writer's own schedule -/
def Drained (s : WakeSys) : Prop :=
  ∃ acts : List WAct, let s' := s.run (acts.map fun a => (s.loopTid, a))
    s'.queue = [] ∧ s'.handBytes = [] ∧ s'.all = s.all

theorem Drained.done {s : WakeSys} (hq : s.queue = []) (hh : s.handBytes = []) : Drained s :=
  ⟨[], by simp [WakeSys.run, hq, hh]⟩

theorem Drained.step {s s1 : WakeSys} (a : WAct) (h : s.step s.loopTid a = some s1) (ht : s1.loopTid = s.loopTid)
    (hall : s1.all = s.all) (hd : Drained s1) : Drained s := by
  obtain ⟨acts, hacts⟩ := hd
  refine ⟨a :: acts, ?_⟩
  simp only [List.map_cons, WakeSys.run, h, Option.getD_some]
  rw [ht, hall] at hacts
  exact hacts

/-- `_packet_write` with nothing in hand, wherever the writer may run it: pop and send every packet -/
theorem drained_may (q : List Pkt) : ∀ s : WakeSys, s.lpc.mayWrite = true → s.hand = none → s.queue = q →
    (∀ p ∈ q, p.pos < p.len) → Drained s := by
  induction q with
  | nil =>
    intro s _ hh hq _
    exact Drained.done hq (by simp [WakeSys.handBytes, hh])
  | cons p rest ih =>
    intro s hl hh hq hpos
    have hp : p.pos < p.len := hpos p (by simp)
    refine Drained.step (s1 := { s with queue := rest, hand := some p }) .pop (by simp [WakeSys.step, hl, hh, hq]) rfl rfl ?_
    refine Drained.step (s1 := { s with queue := rest, hand := none, wire := s.wire ++ p.rest.take (p.len - p.pos) })
      (.send (p.len - p.pos)) ?_ rfl rfl ?_
    · have h1 : 0 < p.len - p.pos := by omega
      have h2 : p.pos + (p.len - p.pos) = p.len := by omega
      simp [WakeSys.step, h1, h2]
    · exact ih _ hl rfl rfl (fun x hx => hpos x (by simp [hx]))

/-- nothing in hand: bring the writer to a place where it may write (`select false true` from `armed`, `next` from
`misc`), then drain -/
theorem drained_nohand (s : WakeSys) (hl : s.lpc ≠ .dead) (hh : s.hand = none) (hq : ∀ p ∈ s.queue, p.pos < p.len) : Drained s := by
  cases h : s.lpc with
  | top => exact drained_may _ s (by simp [h, LPc.mayWrite]) hh rfl hq
  | woke pr sw => exact drained_may _ s (by simp [h, LPc.mayWrite]) hh rfl hq
  | writing => exact drained_may _ s (by simp [h, LPc.mayWrite]) hh rfl hq
  | armed w =>
    refine Drained.step (s1 := { s with lpc := .woke (decide (s.pipe > 0)) w, stalls := _ }) (.select false true)
      (by simp [WakeSys.step, h]; rfl) rfl rfl ?_
    exact drained_may _ _ (by simp [LPc.mayWrite]) hh rfl hq
  | misc =>
    refine Drained.step (s1 := { s with lpc := .top }) .next (by simp [WakeSys.step, h]) rfl rfl ?_
    exact drained_may _ _ (by simp [LPc.mayWrite]) hh rfl hq
  | dead => exact absurd h hl

theorem drained_live (s : WakeSys) (hl : s.lpc ≠ .dead) (hpos : PosLt s) : Drained s := by
  cases hh : s.hand with
  | none => exact drained_nohand s hl hh hpos.1
  | some p =>
    have hp : p.pos < p.len := hpos.2 p hh
    refine Drained.step (s1 := { s with hand := none, wire := s.wire ++ p.rest.take (p.len - p.pos) })
      (.send (p.len - p.pos)) ?_ rfl rfl ?_
    · have h1 : 0 < p.len - p.pos := by omega
      have h2 : p.pos + (p.len - p.pos) = p.len := by omega
      simp [WakeSys.step, hh, h1, h2]
    · exact drained_nohand _ hl rfl hpos.1

end Paho.Thr
