/-
Log-extension / `inm`-frame lemmas for the packet handlers and the API calls of the session
model (used by the C03 proofs).
-/
import PahoProofs.Lemmas.InBasic
import PahoProofs.Lemmas.InBytes
namespace Paho.InLemmas
open Paho Paho.S

/-- what the byte predicate `B` has to satisfy for the packets the client queues on its own
(everything except PUBACK / PUBCOMP); `Q` restricts the QoS values of outgoing PUBLISH packets -/
structure Good (B : Bytes → Prop) (Q : Nat → Prop) : Prop where
  pub : ∀ proto mid topic payload qos retain dup bytes, Q qos →
    encPublish proto mid topic payload qos retain dup none = .ok bytes → B bytes
  prec : ∀ (mid : Int) bytes, encCmdMid 0x50 mid false = .ok bytes → B bytes
  prel : ∀ (mid : Int) bytes, encCmdMid 0x62 mid false = .ok bytes → B bytes
  pingreq : B (encSimple 0xC0)
  pingresp : B (encSimple 0xD0)
  conn : ∀ a bytes, a.will = none → a.username = none → encConnect a = .ok bytes → B bytes
  sub : ∀ proto mid ts bytes, encSubscribe proto mid ts none = .ok bytes → B bytes
  unsub : ∀ proto mid ts bytes, encUnsubscribe proto mid ts none = .ok bytes → B bytes
  disc : ∀ proto bytes, encDisconnect proto none none = .ok bytes → B bytes
  q : ∀ n, n ≤ 2 → Q n

theorem good_true : Good (fun _ => True) (fun _ => True) := by
  constructor <;> intros <;> trivial

theorem notAck_of_head {b : Bytes} {x : UInt8} (h : b.head? = some x) (h1 : x ≠ 0x40) (h2 : x ≠ 0x70) : NotAck b := by
  unfold NotAck
  rw [h]
  exact ⟨fun e => h1 (Option.some.inj e), fun e => h2 (Option.some.inj e)⟩

theorem good_notAck : Good NotAck (fun q => q ≤ 2) := by
  constructor
  · intro proto mid topic payload qos retain dup bytes hq h
    have hq' : qos = 0 ∨ qos = 1 ∨ qos = 2 := by omega
    refine notAck_of_head (encPublish_head h) ?_ ?_ <;>
      rcases hq' with rfl | rfl | rfl <;> cases dup <;> cases retain <;> decide
  · intro mid bytes h; exact notAck_of_head (encCmdMid_head h) (by decide) (by decide)
  · intro mid bytes h; exact notAck_of_head (encCmdMid_head h) (by decide) (by decide)
  · exact notAck_of_head (x := b8 0xC0) rfl (by decide) (by decide)
  · exact notAck_of_head (x := b8 0xD0) rfl (by decide) (by decide)
  · intro a bytes hw hu h; exact notAck_of_head (encConnect_head hw hu h) (by decide) (by decide)
  · intro proto mid ts bytes h; exact notAck_of_head (encSubscribe_head h) (by decide) (by decide)
  · intro proto mid ts bytes h; exact notAck_of_head (encUnsubscribe_head h) (by decide) (by decide)
  · intro proto bytes h; exact notAck_of_head (encDisconnect_head h) (by decide) (by decide)
  · intro n h; exact h

variable {P : Ev → Prop} {a b c : S} {e : Ev} {B : Bytes → Prop} {Q : Nat → Prop} {k : Prop} {s0 s : S}

/-! ### more exact-frame lemmas -/

theorem failQueuedQos0_fr (q : List OutPkt) : ∀ {s : S}, Fr (PB B k) s0 s → Fr (PB B k) s0 (s.failQueuedQos0 q) := by
  induction q with
  | nil => intro s h; exact h
  | cons p rest ih =>
    intro s h
    unfold failQueuedQos0
    refine ih ?_
    fr_auto

macro_rules | `(tactic| fr_step) => `(tactic| (goal_head S.failQueuedQos0; refine failQueuedQos0_fr _ ?_))

theorem connectAsync_fr (h : Fr (PB B k) s0 s) : Fr (PB B k) s0 s.connectAsync := by
  unfold connectAsync
  fr_auto

theorem handleDisconnect_fr (r : Option Nat) (h : Fr (PB B k) s0 s) : Fr (PB B k) s0 (s.handleDisconnect r).1 := by
  unfold handleDisconnect
  extract_lets bad
  clear_value bad
  fr_auto

theorem checkKeepalive_fr (g : Good B Q) (h : Fr (PB B k) s0 s) : Fr (PB B k) s0 s.checkKeepalive := by
  unfold checkKeepalive
  have h1 := sendSimple_fr 0xC0 g.pingreq h
  fr_auto

theorem loopMisc_fr (g : Good B Q) (h : Fr (PB B k) s0 s) : Fr (PB B k) s0 s.loopMisc.1 := by
  unfold loopMisc
  have := @checkKeepalive_fr B Q k s0 s g h
  fr_auto

theorem subscribe_fr (g : Good B Q) (t : Bytes) (q : Nat) (h : Fr (PB B k) s0 s) : Fr (PB B k) s0 (s.subscribe t q) := by
  unfold subscribe
  fr_auto
  refine packetQueue_fr _ _ (g.sub _ _ _ _ (by assumption)) ?_
  fr_auto

theorem unsubscribe_fr (g : Good B Q) (t : Bytes) (h : Fr (PB B k) s0 s) : Fr (PB B k) s0 (s.unsubscribe t) := by
  unfold unsubscribe
  fr_auto
  refine packetQueue_fr _ _ (g.unsub _ _ _ _ (by assumption)) ?_
  fr_auto

theorem disconnect_fr (g : Good B Q) (h : Fr (PB B k) s0 s) : Fr (PB B k) s0 s.disconnect := by
  unfold disconnect
  fr_auto
  refine packetQueue_fr _ _ (g.disc _ _ (by assumption)) ?_
  fr_auto

theorem ack_fr (mid qos : Nat)
    (hb : s.cfg.manualAck = true → ∀ (cmd : Nat) bytes, cmd = 0x40 ∨ cmd = 0x70 → encCmdMid cmd mid false = .ok bytes → B bytes)
    (h : Fr (PB B k) s0 s) : Fr (PB B k) s0 (s.ack mid qos) := by
  unfold ack
  split
  · rename_i hm
    unfold sendPuback sendPubcomp
    have h1 := sendCmdMid_fr 0x40 mid true (fun b hb' => hb hm _ b (Or.inl rfl) hb') h
    have h2 := sendCmdMid_fr 0x70 mid true (fun b hb' => hb hm _ b (Or.inr rfl) hb') h
    fr_auto
  · fr_auto

/-! ### weak frame: `inm` only filtered, log extended, QoS range of stored outgoing messages kept -/

/-- all messages of the list have a QoS in range -/
def QosOk (l : List OutMsg) : Prop := ∀ m ∈ l, m.qos ≤ 2

theorem QosOk.filter {l : List OutMsg} (h : QosOk l) (p : OutMsg → Bool) : QosOk (l.filter p) :=
  fun m hm => h m (List.mem_filter.mp hm).1

theorem QosOk.map {l : List OutMsg} (h : QosOk l) (f : OutMsg → OutMsg) (hf : ∀ x, (f x).qos = x.qos) :
    QosOk (l.map f) := by
  intro m hm
  obtain ⟨x, hx, rfl⟩ := List.mem_map.mp hm
  rw [hf]; exact h x hx

theorem QosOk.set {l : List OutMsg} (h : QosOk l) (i : Nat) (m : OutMsg) (hm : m.qos ≤ 2) : QosOk (l.set i m) := by
  intro x hx
  rcases List.mem_or_eq_of_mem_set hx with hx | hx
  · exact h x hx
  · subst hx; exact hm

theorem QosOk.append {l : List OutMsg} (h : QosOk l) (m : OutMsg) (hm : m.qos ≤ 2) : QosOk (l ++ [m]) := by
  intro x hx
  rcases List.mem_append.mp hx with hx | hx
  · exact h x hx
  · simp only [List.mem_singleton] at hx; subst hx; exact hm

structure Fw (P : Ev → Prop) (s s' : S) : Prop where
  inm : ∃ p : InMsg → Bool, s'.inm = s.inm.filter p
  lg : Lg P s s'
  oq : QosOk s.out → QosOk s'.out

theorem Fw.refl : Fw P a a := ⟨⟨fun _ => true, (List.filter_eq_self.mpr (by simp)).symm⟩, Lg.refl, id⟩

theorem Fw.trans (h1 : Fw P a b) (h2 : Fw P b c) : Fw P a c := by
  obtain ⟨p1, e1⟩ := h1.inm
  obtain ⟨p2, e2⟩ := h2.inm
  exact ⟨⟨fun x => p1 x && p2 x, by rw [e2, e1, List.filter_filter]; congr 1; funext x; exact Bool.and_comm _ _⟩,
    h1.lg.trans h2.lg, fun h => h2.oq (h1.oq h)⟩

theorem Fr.fw (h : Fr P a b) : Fw P a b :=
  ⟨⟨fun _ => true, h.inm.trans (List.filter_eq_self.mpr (by simp)).symm⟩, h.lg, fun hq => by rw [h.out]; exact hq⟩

theorem Fw.fr (h1 : Fw P a b) (h2 : Fr P b c) : Fw P a c := h1.trans h2.fw

theorem Fw.emit (h : Fw P a b) (he : P e) : Fw P a (b.emit e) := h.fr (Fr.emit Fr.refl he)

theorem Fw.upd_mk (h : Fw P a b) {cfg proto hostSet cstate sock nconn lastMid inflight outq regWrite firstConnect
    inCb pingT lastIn lastOut now reconnectDelay sendScript infos raiseOnMessage ackd discCalled} :
    Fw P a { cfg := cfg, proto := proto, hostSet := hostSet, cstate := cstate, sock := sock, nconn := nconn,
             lastMid := lastMid, out := b.out, inm := b.inm, inflight := inflight, outq := outq,
             regWrite := regWrite, firstConnect := firstConnect, inCb := inCb, pingT := pingT,
             lastIn := lastIn, lastOut := lastOut, now := now, reconnectDelay := reconnectDelay,
             sendScript := sendScript, infos := infos, raiseOnMessage := raiseOnMessage, ackd := ackd,
             discCalled := discCalled, log := b.log } :=
  ⟨h.inm, h.lg.upd rfl, h.oq⟩

/-- record update that changes `out` (but neither `inm` nor the log) -/
theorem Fw.upd_out {b' : S} (h : Fw P a b) (hi : b'.inm = b.inm) (hl : b'.log = b.log)
    (ho : QosOk b.out → QosOk b'.out) : Fw P a b' := by
  obtain ⟨p, hp⟩ := h.inm
  exact ⟨⟨p, hi.trans hp⟩, h.lg.upd hl, fun hq => ho (h.oq hq)⟩

theorem Fw.of_eq {α : Type} {f : S × α} {s1 : S} {r : α} (heq : f = (s1, r)) (h : Fw P a f.1) : Fw P a s1 := by
  subst heq; exact h

/-- one goal-directed peeling step for `Fw` goals (extensible) -/
syntax "fw_step" : tactic
macro_rules | `(tactic| fw_step) => `(tactic| (goal_is_var; refine Fw.of_eq (by assumption) ?_))
macro_rules | `(tactic| fw_step) => `(tactic| (goal_head S.emit; refine Fw.emit ?_ (by trivial)))
macro_rules | `(tactic| fw_step) => `(tactic| (goal_is_mk; refine Fw.upd_mk ?_))
macro_rules | `(tactic| fw_step) => `(tactic| (goal_head S.setInfo; refine Fw.fr ?_ (setInfo_fr _ _ Fr.refl)))
macro_rules | `(tactic| fw_step) => `(tactic| (goal_head S.sockClose; refine Fw.fr ?_ (sockClose_fr _ Fr.refl)))
macro_rules | `(tactic| fw_step) => `(tactic| (goal_head S.doOnDisconnect; refine Fw.fr ?_ (doOnDisconnect_fr _ _ Fr.refl)))
macro_rules | `(tactic| fw_step) => `(tactic| (goal_head S.loopRcHandle; refine Fw.fr ?_ (loopRcHandle_fr _ Fr.refl)))
macro_rules | `(tactic| fw_step) => `(tactic| (goal_head S.loopWrite; refine Fw.fr ?_ (loopWrite_fr Fr.refl)))
macro_rules | `(tactic| fw_step) => `(tactic| (goal_head S.failQueuedQos0; refine Fw.fr ?_ (failQueuedQos0_fr _ Fr.refl)))
macro_rules | `(tactic| fw_step) => `(tactic| (goal_head S.connectAsync; refine Fw.fr ?_ (connectAsync_fr Fr.refl)))
macro_rules | `(tactic| fw_step) => `(tactic| (goal_head S.handleDisconnect; refine Fw.fr ?_ (handleDisconnect_fr _ Fr.refl)))

syntax "fw_auto" : tactic
macro_rules | `(tactic| fw_auto) => `(tactic|
  first
  | assumption
  | (fw_step; fw_auto)
  | (goal_unfold_let; fw_auto)
  | (extract_lets; fw_auto)
  | (split <;> fw_auto)
  | skip)

theorem updateInflight_fw (g : Good B Q) (fuel : Nat) : ∀ {s : S} (idx : Nat), (∀ m ∈ s.out, Q m.qos) →
    Fw (PB B k) s0 s → Fw (PB B k) s0 (s.updateInflight fuel idx).1 := by
  induction fuel with
  | zero => intro s idx _ h; exact h
  | succ n ih =>
    intro s idx hq h
    unfold updateInflight
    split
    · exact h
    · rename_i m hm
      have hmem : m ∈ s.out := List.mem_of_getElem? hm
      split
      · exact h
      split
      · split
        · extract_lets m' s1
          have hq1 : ∀ x ∈ s1.out, Q x.qos := by
            intro x hx
            rcases List.mem_or_eq_of_mem_set hx with hx | hx
            · exact hq x hx
            · subst hx; exact hq m hmem
          have h1 : Fw (PB B k) s0 s1 := h.upd_out rfl rfl (fun hq' => by
            have hm2 := hq' m hmem
            exact QosOk.set hq' idx m' hm2)
          have h2 := sendPublish_fr (B := B) (k := k) m.mid m.topic m.payload m.qos m.retain m.dup none true (some m.info)
            (fun bytes hb => g.pub _ _ _ _ _ _ _ _ (hq m hmem) hb) (Fr.refl (a := s1))
          clear_value s1
          generalize S.sendPublish _ _ _ _ _ _ _ _ _ _ = p at h2 ⊢
          obtain ⟨s2, rc⟩ := p
          have h3 : Fw (PB B k) s0 s2 := h1.fr h2
          show Fw _ _ (if rc ≠ rcSuccess then (s2, rc) else s2.updateInflight n (idx + 1)).1
          split
          · exact h3
          · refine ih _ ?_ h3
            intro x hx
            have : s2.out = s1.out := h2.out
            exact hq1 x (this ▸ hx)
        · exact ih _ hq h
      · exact h

theorem doOnPublish_fw (g : Good B Q) (mid : Nat) (hq : ∀ m ∈ s.out, Q m.qos) (h : Fw (PB B k) s0 s) :
    Fw (PB B k) s0 (s.doOnPublish mid).1 := by
  unfold doOnPublish
  extract_lets s1
  split
  · fw_auto
  · extract_lets s2 s3 s4 s5
    have h3 : Fw (PB B k) s0 s3 :=
      Fw.upd_out (b := s2) (by fw_auto) rfl rfl (fun hq' => QosOk.filter hq' _)
    have h4 : Fw (PB B k) s0 s4 := by fw_auto
    have hq4 : ∀ m ∈ s4.out, Q m.qos := by
      intro x hx
      have hx' : x ∈ s.out.filter (fun x => decide (x.mid ≠ mid)) := hx
      exact hq x (List.mem_filter.mp hx').1
    clear_value s4
    split
    · have h5 : Fw (PB B k) s0 s5 := h4.upd_mk
      have hq5 : ∀ m ∈ s5.out, Q m.qos := hq4
      clear_value s5
      split
      · have := updateInflight_fw (k := k) (s0 := s0) g (s5.out.length + 1) 0 hq5 h5
        fw_auto
      · exact h5
    · exact h4

theorem handlePubackcomp_fw (g : Good B Q) (mid : Nat) (hq : ∀ m ∈ s.out, Q m.qos) (h : Fw (PB B k) s0 s) :
    Fw (PB B k) s0 (s.handlePubackcomp mid).1 := by
  unfold handlePubackcomp
  split
  · exact doOnPublish_fw g mid hq h
  · exact h

theorem handlePubrec_fw (g : Good B Q) (mid : Nat) (h : Fw (PB B k) s0 s) :
    Fw (PB B k) s0 (s.handlePubrec mid).1 := by
  unfold handlePubrec
  split
  · extract_lets s1
    refine Fw.fr (b := s1) (h.upd_out rfl rfl fun hq' => QosOk.map hq' _ ?_) (sendPubrel_fr _ _ (g.prel _) Fr.refl)
    intro x
    split <;> rfl
  · exact h

theorem connackResend_fw (g : Good B Q) (fuel : Nat) : ∀ {s : S} (idx : Nat) (rc : RC),
    Fw (PB B k) s0 s → Fw (PB B k) s0 (s.connackResend fuel idx rc).1 := by
  induction fuel with
  | zero => intro s idx rc h; exact h
  | succ n ih =>
    intro s idx rc h
    unfold connackResend
    split
    · exact h
    · rename_i m hm
      have hmem : m ∈ s.out := List.mem_of_getElem? hm
      have hset : ∀ st : MS, QosOk s.out → QosOk (s.out.set idx { m with state := st }) :=
        fun st hq' => QosOk.set hq' idx _ (hq' m hmem)
      split
      · exact h
      split
      · fw_auto
      · -- the three retransmission cases
        have hpub : ∀ (s1 : S) (st : MS), (m.qos = 1 ∨ m.qos = 2) →
            Fr (PB B k) s1 (s1.sendPublish m.mid m.topic m.payload m.qos m.retain m.dup none false (some m.info)).1 := by
          intro s1 st hq
          refine sendPublish_fr _ _ _ _ _ _ _ _ _ (fun bytes hb => g.pub _ _ _ _ _ _ _ _ (g.q _ ?_) hb) Fr.refl
          omega
        split
        rename_i s2 rc2 stop heq
        have h2 : Fw (PB B k) s0 s2 := by
          split at heq
          · rename_i hc
            have := hpub { s with inflight := s.inflight + 1, out := s.out.set idx { m with state := .waitPuback } }
              .waitPuback (Or.inl hc.1)
            simp only [Prod.mk.injEq] at heq
            rw [← heq.1]
            exact Fw.fr (h.upd_out (b' := { s with inflight := s.inflight + 1, out := s.out.set idx { m with state := .waitPuback } })
              rfl rfl (hset _)) this
          · split at heq
            · rename_i hc
              have := hpub { s with inflight := s.inflight + 1, out := s.out.set idx { m with state := .waitPubrec } }
                .waitPubrec (Or.inr hc.1)
              simp only [Prod.mk.injEq] at heq
              rw [← heq.1]
              exact Fw.fr (h.upd_out (b' := { s with inflight := s.inflight + 1, out := s.out.set idx { m with state := .waitPubrec } })
                rfl rfl (hset _)) this
            · split at heq
              · simp only [Prod.mk.injEq] at heq
                rw [← heq.1]
                exact Fw.fr (b := { s with inflight := s.inflight + 1, out := s.out.set idx { m with state := .waitPubcomp } })
                  (h.upd_out rfl rfl (hset _)) (sendPubrel_fr _ _ (g.prel _) Fr.refl)
              · simp only [Prod.mk.injEq] at heq
                rw [← heq.1]
                exact h
        clear heq
        split
        · exact h2
        · split
          rename_i s3 r3 heq3
          refine ih _ _ ?_
          fw_auto

theorem resetOutMsg_qos (clean : Bool) (m : OutMsg) : (resetOutMsg clean m).qos = m.qos := by
  unfold resetOutMsg
  repeat' split
  all_goals rfl

theorem messagesReconnectResetOut_fw (h : Fw P a s) : Fw P a s.messagesReconnectResetOut :=
  h.upd_out rfl rfl fun hq' => QosOk.map hq' _ (resetOutMsg_qos _)

theorem messagesReconnectResetIn_fw (h : Fw P a s) : Fw P a s.messagesReconnectResetIn := by
  unfold messagesReconnectResetIn
  split
  · refine Fw.trans h ⟨⟨fun _ => false, ?_⟩, Lg.refl, id⟩
    simp
  · exact Fw.trans h ⟨⟨fun x => decide (x.qos = 2), rfl⟩, Lg.refl, id⟩

macro_rules | `(tactic| fw_step) => `(tactic| (goal_head S.messagesReconnectResetOut; refine messagesReconnectResetOut_fw ?_))
macro_rules | `(tactic| fw_step) => `(tactic| (goal_head S.messagesReconnectResetIn; refine messagesReconnectResetIn_fw ?_))

theorem reconnect_fw (g : Good B Q) (ok : Bool) (h : Fw (PB B k) s0 s) : Fw (PB B k) s0 (s.reconnect ok).1 := by
  unfold reconnect
  fw_auto
  exact Fw.fr (by fw_auto) (sendConnect_fr g.conn Fr.refl)

theorem connect_fw (g : Good B Q) (ok : Bool) (h : Fw (PB B k) s0 s) : Fw (PB B k) s0 (s.connect ok).1 := by
  unfold connect
  refine reconnect_fw g ok ?_
  fw_auto

theorem handleConnack_fw (g : Good B Q) (sp : Bool) (result : Nat) (ok : Bool) (h : Fw (PB B k) s0 s) :
    Fw (PB B k) s0 (s.handleConnack sp result ok).1 := by
  unfold handleConnack
  extract_lets pre sr s1 shown s3
  clear_value pre
  split
  · exact h
  · split
    · split
      · exact h
      · have hr := reconnect_fw (k := k) g ok (h.upd_mk (b := s) (proto := 3) (cfg := s.cfg) (hostSet := s.hostSet)
          (cstate := s.cstate) (sock := s.sock) (nconn := s.nconn) (lastMid := s.lastMid) (inflight := s.inflight)
          (outq := s.outq) (regWrite := s.regWrite) (firstConnect := s.firstConnect) (inCb := s.inCb) (pingT := s.pingT)
          (lastIn := s.lastIn) (lastOut := s.lastOut) (now := s.now) (reconnectDelay := s.reconnectDelay)
          (sendScript := s.sendScript) (infos := s.infos) (raiseOnMessage := s.raiseOnMessage) (ackd := s.ackd)
          (discCalled := s.discCalled))
        split
        · rename_i heq
          rw [heq] at hr
          exact Fw.emit hr (by trivial)
        · exact hr
    · have h3 : Fw (PB B k) s0 s3 := by fw_auto
      clear_value s3
      have := connackResend_fw (k := k) (s0 := s0) g (s3.out.length + 1) 0 rcSuccess h3
      fw_auto

theorem handleOnMessage_cfg (m : InMsg) : (s.handleOnMessage m).1.cfg = s.cfg := by
  unfold handleOnMessage
  extract_lets s1 s2
  split <;> rfl

theorem handlePubrel_fw (mid : Nat) (hk : k)
    (hb : s.cfg.manualAck = false → ∀ bytes, encCmdMid 0x70 mid false = .ok bytes → B bytes)
    (h : Fw (PB B k) s0 s) : Fw (PB B k) s0 (s.handlePubrel mid).1 := by
  unfold handlePubrel
  split
  rename_i s1 raised hp
  have h1 : Fw (PB B k) s0 s1 ∧ s1.cfg = s.cfg := by
    split at hp
    · rename_i m hm
      extract_lets sf at hp
      have hf : Fw (PB B k) s0 sf := Fw.trans h ⟨⟨_, rfl⟩, Lg.refl, id⟩
      have hcf : sf.cfg = s.cfg := rfl
      clear_value sf
      have := handleOnMessage_fr (B := B) (k := k) m hk (Fr.refl (a := sf))
      have hc := handleOnMessage_cfg (s := sf) m
      rw [hp] at this hc
      exact ⟨Fw.fr hf this, hc.trans hcf⟩
    · cases hp; exact ⟨h, rfl⟩
  clear hp
  split
  · exact h1.1
  · split
    · exact h1.1
    · rename_i hm
      have := sendCmdMid_fr (B := B) (k := k) 0x70 mid true (hb (by rw [← h1.2]; simpa using hm)) (Fr.refl (a := s1))
      exact Fw.fr h1.1 this

theorem publishCheckFull_qos {proto : Nat} {topic : List UInt8} {qos : Nat} {tag : PayloadTag} {plen pl : Nat}
    (h : publishCheckFull proto topic (qos : Int) tag plen pl = none) : qos ≤ 2 := by
  unfold publishCheckFull at h
  split at h
  · cases h
  · rename_i hc
    unfold publishCheck at hc
    simp only [Gen.pubQosLoCmp, Gen.pubQosLo, Gen.pubQosHiCmp, Gen.pubQosHi, Cmp.evalInt] at hc
    split at hc
    · cases hc
    · split at hc
      · cases hc
      · by_cases hq : (qos : Int) > 2
        · simp [hq] at hc
        · omega

theorem packetHandle_fw (g : Good B Q) (hq : ∀ m ∈ s.out, Q m.qos) (p : RxPkt) (ok : Bool)
    (hpub : ∀ m, p ≠ .publish m)
    (hrel : ∀ mid, p = .pubrel mid →
      k ∧ (s.cfg.manualAck = false → ∀ bytes, encCmdMid 0x70 mid false = .ok bytes → B bytes))
    (h : Fw (PB B k) s0 s) : Fw (PB B k) s0 (s.packetHandle p ok).1 := by
  unfold packetHandle
  split
  · have := Fw.fr h (sendSimple_fr (B := B) (k := k) 0xD0 g.pingresp Fr.refl)
    fw_auto
  · fw_auto
  · have := handlePubackcomp_fw (k := k) g ‹Nat› hq h
    fw_auto
  · have := handlePubackcomp_fw (k := k) g ‹Nat› hq h
    fw_auto
  · exact absurd rfl (hpub _)
  · have := handlePubrec_fw (Q := Q) (k := k) g ‹Nat› h
    fw_auto
  · exact handlePubrel_fw _ (hrel _ rfl).1 (hrel _ rfl).2 h
  · exact handleConnack_fw g _ _ _ h
  · fw_auto
  · fw_auto
  · fw_auto
  · exact h
  · exact h

/-- the part of `loop_read` after the packet handler only closes the socket at most -/
theorem loopRead_tail (p : RxPkt) (ok : Bool) {c : Nat} (hs : s.sock = some c) :
    Fr (PB B k) (s.packetHandle p ok).1 (s.loopRead (.pkt p) ok).1 := by
  unfold loopRead
  rw [hs]
  simp only
  generalize s.packetHandle p ok = r
  obtain ⟨s1, hr⟩ := r
  have h0 : Fr (PB B k) s1 s1 := Fr.refl
  cases hr <;> fr_auto

theorem loopRead_none (item : RxItem) (ok : Bool) (hs : s.sock = none) : (s.loopRead item ok).1 = s := by
  unfold loopRead
  rw [hs]

theorem loopRead_fw (g : Good B Q) (hq : ∀ m ∈ s.out, Q m.qos) (item : RxItem) (ok : Bool)
    (hpub : ∀ m, item ≠ .pkt (.publish m))
    (hrel : ∀ mid, item = .pkt (.pubrel mid) →
      k ∧ (s.cfg.manualAck = false → ∀ bytes, encCmdMid 0x70 mid false = .ok bytes → B bytes)) :
    Fw (PB B k) s (s.loopRead item ok).1 := by
  rcases hs : s.sock with _ | c
  · rw [loopRead_none item ok hs]; exact Fw.refl
  · cases item with
    | pkt p =>
      refine Fw.fr (packetHandle_fw g hq p ok ?_ ?_ Fw.refl) (loopRead_tail p ok hs)
      · intro m hm; exact hpub m (by rw [hm])
      · intro mid hm; exact hrel mid (by rw [hm])
    | eof =>
      have h0 : Fw (PB B k) s s := Fw.refl
      simp only [loopRead, hs]
      fw_auto
    | err =>
      have h0 : Fw (PB B k) s s := Fw.refl
      simp only [loopRead, hs]
      fw_auto
    | none => unfold loopRead; rw [hs]; exact Fw.refl

theorem publish_fw (g : Good B Q) (qos : Nat) (topic payload : Bytes) (retain : Bool) :
    Fw (PB B k) s (s.publish qos topic payload retain) := by
  have h0 : Fw (PB B k) s s := Fw.refl
  unfold publish
  split
  · fw_auto
  · fw_auto
  · rename_i hchk
    have hq2 : qos ≤ 2 := publishCheckFull_qos hchk
    have hsp : ∀ (s1 : S) (mid : Nat) (info uid : Option Nat) (q : Nat), q ≤ 2 →
        Fr (PB B k) s1 (s1.sendPublish mid topic payload q retain false info true uid).1 := by
      intro s1 mid info uid q hq
      exact sendPublish_fr _ _ _ _ _ _ _ _ _ (fun bytes hb => g.pub _ _ _ _ _ _ _ _ (g.q _ hq) hb) Fr.refl
    extract_lets mid s1 infoIdx s2 m m' s3 s4
    have h2 : Fw (PB B k) s s2 := by fw_auto
    have h3 := Fw.fr (b := s3) (h2.upd_out rfl rfl (fun hq' => QosOk.append hq' m' hq2))
      (hsp s3 mid (some infoIdx) (some infoIdx) qos hq2)
    have h4 := Fw.fr h2 (hsp s2 mid (some infoIdx) (some infoIdx) 0 (by omega))
    have h5 : Fw (PB B k) s s4 := h2.upd_out rfl rfl (fun hq' => QosOk.append hq' _ hq2)
    clear_value s4 s3
    split
    · fw_auto
    · split
      · fw_auto
      · split
        · fw_auto
        · split
          · generalize S.sendPublish s3 _ _ _ _ _ _ _ _ _ = r at h3 ⊢
            obtain ⟨s5, rc⟩ := r
            simp only at h3 ⊢
            refine Fw.emit (Fw.fr ?_ (setInfo_fr _ _ Fr.refl)) (by trivial)
            split
            · refine h3.upd_out rfl rfl (fun hq' => QosOk.map hq' _ ?_)
              intro x
              split <;> rfl
            · exact h3
          · fw_auto

theorem PB_hresEv (r : HRes) : PB B k (hresEv r) := by cases r <;> trivial

macro_rules | `(tactic| fw_step) => `(tactic| (goal_head S.emit; refine Fw.emit ?_ (PB_hresEv _)))

/-- every step except the delivery of an inbound PUBLISH only filters `inm` and appends `P`-events -/
theorem step_fw (g : Good B Q) (hq : ∀ m ∈ s.out, Q m.qos) (op : Op)
    (hpub : ∀ m ok, op ≠ .rx (.pkt (.publish m)) ok)
    (hrel : ∀ mid ok, op = .rx (.pkt (.pubrel mid)) ok →
      k ∧ (s.cfg.manualAck = false → ∀ bytes, encCmdMid 0x70 mid false = .ok bytes → B bytes))
    (hack : ∀ mid q, op = .ack mid q → s.cfg.manualAck = true →
      ∀ (cmd : Nat) bytes, cmd = 0x40 ∨ cmd = 0x70 → encCmdMid cmd mid false = .ok bytes → B bytes) :
    Fw (PB B k) s (s.step op) := by
  have h0 : Fw (PB B k) s s := Fw.refl
  cases op with
  | connect ok =>
    have := connect_fw (k := k) g ok h0
    simp only [S.step]
    fw_auto
  | reconnect ok =>
    have := reconnect_fw (k := k) g ok h0
    simp only [S.step]
    fw_auto
  | connectAsync => exact (connectAsync_fr Fr.refl).fw
  | rx item ok =>
    have := loopRead_fw (s := s) (k := k) g hq item ok
      (fun m hm => hpub m ok (by rw [hm])) (fun mid hm => hrel mid ok (by rw [hm]))
    simp only [S.step]
    fw_auto
  | publish q t p r => exact publish_fw g q t p r
  | subscribe t q => exact (subscribe_fr g t q Fr.refl).fw
  | unsubscribe t => exact (unsubscribe_fr g t Fr.refl).fw
  | disconnect => exact (disconnect_fr g Fr.refl).fw
  | loopWrite =>
    simp only [S.step]
    fw_auto
  | loopMisc =>
    have := (loopMisc_fr (s := s) (k := k) g Fr.refl).fw
    simp only [S.step]
    fw_auto
  | tick ms => exact h0.upd_mk
  | send sc => exact h0.upd_mk
  | ack m q => exact (ack_fr m q (hack m q rfl) Fr.refl).fw
  | raiseOnMessage n => exact h0.upd_mk

end Paho.InLemmas
