/-
Helper lemmas for C17: `pack` produces the specification's encoding.
-/
import PahoProofs.Lemmas.PropsTable
namespace Paho.PropsLemmas
open Paho Paho.Spec

theorem packU16_eq (n : Int) :
    packU16 n = if 0 ≤ n ∧ n ≤ 65535 then .ok (u16be n.toNat) else .error .structError := rfl
theorem packU32_eq (n : Int) :
    packU32 n = if 0 ≤ n ∧ n ≤ 4294967295 then .ok (u32be n.toNat) else .error .structError := rfl
theorem str16_eq (b : Bytes) :
    str16 b = if b.length ≤ 65535 then .ok (u16be b.length ++ b) else .error .structError := by
  unfold str16
  rw [packU16_eq]
  by_cases h : b.length ≤ 65535
  · have : (0:Int) ≤ ↑b.length ∧ (↑b.length : Int) ≤ 65535 := by omega
    rw [if_pos this, if_pos h]; simp [bind, Except.bind, pure, Except.pure]
  · have : ¬ ((0:Int) ≤ ↑b.length ∧ (↑b.length : Int) ≤ 65535) := by omega
    rw [if_neg this, if_neg h]; rfl
theorem vbiEnc_eq (n : Int) :
    vbiEnc n = if 0 ≤ n ∧ n ≤ 268435455 then .ok (Spec.vbi n.toNat) else .error .valueError := by
  split
  · rename_i h; exact vbiEnc_int n h
  · rename_i h; exact vbiEnc_err n h

theorem writeProperty_spec (i t : Nat) (ty : PType) (v : PVal) (hi : i ≤ 268435455)
    (ht : Gen.propTypes[t]? = some ty.codeName) :
    (Props.writeProperty i t v).toOption = Spec.encodeProp i ty v := by
  unfold Props.writeProperty
  rw [vbiEnc_nat i hi]
  simp only [Props.typeName, ht]
  cases ty <;> cases v <;>
    simp [PType.codeName, Spec.encodeProp, Except.toOption, bind, Except.bind, pure, Except.pure,
      packU16_eq, packU32_eq, str16_eq, vbiEnc_eq]
  case pair.pair k w =>
    by_cases hk : k.length ≤ 65535 <;> by_cases hw : w.length ≤ 65535 <;> simp [hk, hw]
  all_goals grind [b8]

/-- the specification's encoding of the values of one property (as in `specBody` of C17.lean) -/
def encFold (i : Nat) (ty : PType) (vs : List PVal) : Option Bytes :=
  vs.foldr (fun v (a : Option Bytes) => match a, Spec.encodeProp i ty v with
        | some r, some b => some (b ++ r)
        | _, _ => none) (some [])

/-- `specBody` of C17.lean over an arbitrary table suffix -/
def specFold (p : Props) (tbl : List (Nat × PType × List Nat)) : Option Bytes :=
  tbl.foldr (fun (row : Nat × PType × List Nat) (acc : Option Bytes) =>
    match acc, p.attrs.lookup row.1 with
    | none, _ => none
    | some rest, none => some rest
    | some rest, some vs => (encFold row.1 row.2.1 vs).map (· ++ rest)) (some [])

theorem writeAll_spec (i t : Nat) (ty : PType) (hi : i ≤ 268435455)
    (ht : Gen.propTypes[t]? = some ty.codeName) (vs : List PVal) :
    (Props.writeAll i t vs).toOption = encFold i ty vs := by
  induction vs with
  | nil => rfl
  | cons v vs ih =>
    have hw := writeProperty_spec i t ty v hi ht
    simp only [Props.writeAll, encFold, List.foldr_cons]
    simp only [encFold] at ih
    rw [← ih, ← hw]
    cases Props.writeProperty i t v <;> cases Props.writeAll i t vs <;>
      simp [Except.toOption, bind, Except.bind, pure, Except.pure]

theorem packBody_spec (p : Props) (names : List (String × Nat)) (tbl : List (Nat × PType × List Nat))
    (hids : names.map (·.2) = tbl.map (·.1))
    (hrows : ∀ row ∈ tbl, ∃ t pk, Props.row row.1 = some (t, pk) ∧
      Gen.propTypes[t]? = some row.2.1.codeName ∧ row.1 < 128) :
    (Props.packBody p names).toOption = specFold p tbl := by
  induction names generalizing tbl with
  | nil =>
    cases tbl with
    | nil => rfl
    | cons r tbl => simp at hids
  | cons nm names ih =>
    cases tbl with
    | nil => simp at hids
    | cons r tbl =>
      obtain ⟨name, i⟩ := nm
      obtain ⟨ri, ty, rpk⟩ := r
      simp only [List.map_cons, List.cons.injEq] at hids
      obtain ⟨rfl, hids⟩ := hids
      obtain ⟨t, pk, hrow, hty, hlt⟩ := hrows _ List.mem_cons_self
      have ih' := ih tbl hids (fun row hr => hrows row (List.mem_cons_of_mem _ hr))
      simp only [Props.packBody, specFold, List.foldr_cons, Props.getAttr, hrow]
      simp only [specFold] at ih'
      rw [← ih']
      cases hl : List.lookup i p.attrs with
      | none =>
        simp only
        cases Props.packBody p names <;> simp [Except.toOption]
      | some vs =>
        simp only
        have hwa := writeAll_spec i t ty (by simp only at hlt; omega) hty vs
        cases hA : Props.writeAll i t vs <;> cases Props.packBody p names <;>
          simp [hA, Except.toOption, bind, Except.bind, pure, Except.pure] at hwa ⊢ <;>
          simp [← hwa]

end Paho.PropsLemmas
