/-
T1, translated functions: each function of `Paho.Gen.Fn` (generated on every run from the AST of the current source by
py/py2lean.py, one generated file per consumer) equals, for ALL arguments, the hand-written model function the property
theorems are stated about. A change to the body of one of these Python functions changes the generated definition; then
either the property still holds and these proofs have to be redone, or it does not and the failing-input search exhibits
the input.
-/
import Paho.Model.Py
import Paho.Model.Bytes

namespace Paho.FnEq
open Paho

/-! ### the Python helper operations on the values that occur -/

theorem bor_nat (a b : Nat) : Py.bor (a : Int) (b : Int) = .ok ((a ||| b : Nat) : Int) := by
  simp [Py.bor]

theorem band_nat (a b : Nat) : Py.band (a : Int) (b : Int) = .ok ((a &&& b : Nat) : Int) := by
  simp [Py.band]

theorem byteOf_nat (k : Nat) (h : k < 256) : Py.byteOf (k : Int) = .ok (b8 k) := by
  have : (k : Int) < 256 := by omega
  simp [Py.byteOf, this, b8]

theorem or128_lt (a : Nat) (h : a < 128) : a ||| 128 < 256 := by
  have h1 : a < 2 ^ 8 := by omega
  have h2 : (128 : Nat) < 2 ^ 8 := by decide
  exact Nat.or_lt_two_pow h1 h2


theorem remLenEnc_lt (n : Nat) (h : n < 128) : remLenEnc n = [b8 n] := by
  rw [remLenEnc]
  have h1 : n / 128 = 0 := by omega
  have h2 : n % 128 = n := by omega
  simp [Gen.rlBase, h1, h2]

theorem remLenEnc_ge (n : Nat) (h : 128 ≤ n) :
    remLenEnc n = b8 (n % 128 ||| 128) :: remLenEnc (n / 128) := by
  rw [remLenEnc]
  have h1 : 0 < n / 128 := by omega
  simp [Gen.rlBase, Gen.rlFlag, h1]


theorem shl_nat (a k : Nat) : Py.shl (a : Int) k = .ok ((a <<< k : Nat) : Int) := by
  simp [Py.shl, Nat.shiftLeft_eq]

theorem shr_nat (a k : Nat) : Py.shr (a : Int) k = .ok ((a >>> k : Nat) : Int) := by
  unfold Py.shr
  rw [if_pos (Int.natCast_nonneg a), Nat.shiftRight_eq_div_pow]
  congr 1

end Paho.FnEq
