/-
Frame / log-extension lemmas for the low-level functions of the session model
(used by the C03 proofs).
-/
import Paho.Model.Session
import Lean.Elab.Tactic
namespace Paho.InLemmas
open Paho Paho.S

/-- shape of the event predicates used: a condition on queued bytes, a flag for `on_message`,
every other event allowed -/
def PB (B : Bytes → Prop) (k : Prop) : Ev → Prop
  | .queued _ b => B b
  | .onMessage _ => k
  | _ => True

/-- `s'` extends the log of `s` by events all satisfying `P` -/
def Lg (P : Ev → Prop) (s s' : S) : Prop := ∃ evs, s'.log = s.log ++ evs ∧ ∀ e ∈ evs, P e

variable {P : Ev → Prop} {a b c b' : S} {e : Ev}

theorem Lg.refl : Lg P a a := ⟨[], by simp, by simp⟩

theorem Lg.trans (h1 : Lg P a b) (h2 : Lg P b c) : Lg P a c := by
  obtain ⟨e1, h1, p1⟩ := h1
  obtain ⟨e2, h2, p2⟩ := h2
  refine ⟨e1 ++ e2, by rw [h2, h1, List.append_assoc], ?_⟩
  intro e he
  rcases List.mem_append.mp he with h | h
  · exact p1 e h
  · exact p2 e h

theorem Lg.emit (h : Lg P a b) (he : P e) : Lg P a (b.emit e) :=
  Lg.trans h ⟨[e], rfl, by simpa using he⟩

theorem Lg.upd (h : Lg P a b) (hl : b'.log = b.log) : Lg P a b' :=
  Lg.trans h ⟨[], by simp [hl], by simp⟩

theorem Lg.mono {P' : Ev → Prop} (hPP : ∀ e, P e → P' e) (h : Lg P a b) : Lg P' a b := by
  obtain ⟨e1, h1, p1⟩ := h
  exact ⟨e1, h1, fun e he => hPP e (p1 e he)⟩

/-- exact frame: `inm`, `out` untouched, log extended by `P`-events -/
structure Fr (P : Ev → Prop) (s s' : S) : Prop where
  inm : s'.inm = s.inm
  out : s'.out = s.out
  lg : Lg P s s'

theorem Fr.refl : Fr P a a := ⟨rfl, rfl, Lg.refl⟩

theorem Fr.trans (h1 : Fr P a b) (h2 : Fr P b c) : Fr P a c :=
  ⟨h2.inm.trans h1.inm, h2.out.trans h1.out, h1.lg.trans h2.lg⟩

theorem Fr.emit (h : Fr P a b) (he : P e) : Fr P a (b.emit e) :=
  ⟨h.inm, h.out, h.lg.emit he⟩

theorem Fr.upd (h : Fr P a b) (h1 : b'.inm = b.inm) (h2 : b'.out = b.out) (h3 : b'.log = b.log) :
    Fr P a b' :=
  ⟨h1.trans h.inm, h2.trans h.out, h.lg.upd h3⟩

variable {B : Bytes → Prop} {k : Prop} {s0 s : S}

macro "fr_emit" : tactic => `(tactic| (refine Fr.emit ?_ (by trivial)))

theorem callSocketRegisterWrite_fr (h : Fr (PB B k) s0 s) : Fr (PB B k) s0 s.callSocketRegisterWrite := by
  unfold callSocketRegisterWrite
  split
  · exact h
  · split
    · exact h
    · simp only
      split
      · fr_emit; exact h.upd rfl rfl rfl
      · exact h.upd rfl rfl rfl

theorem callSocketUnregisterWrite_fr (o : Option Nat) (h : Fr (PB B k) s0 s) :
    Fr (PB B k) s0 (s.callSocketUnregisterWrite o) := by
  unfold callSocketUnregisterWrite
  split
  · exact h
  · split
    · exact h
    · simp only
      split
      · fr_emit; exact h.upd rfl rfl rfl
      · exact h.upd rfl rfl rfl

theorem sockClose_fr (r : Bool) (h : Fr (PB B k) s0 s) : Fr (PB B k) s0 (s.sockClose r) := by
  unfold sockClose
  split
  · exact h
  · simp only
    refine Fr.emit ?_ trivial
    have h1 := callSocketUnregisterWrite_fr (B := B) (k := k) (some ‹Nat›)
      (h.upd (b' := { s with sock := none, ackd := false, discCalled := false }) rfl rfl rfl)
    split
    · split
      · exact h1.emit (by trivial)
      · exact h1.emit (by trivial)
    · exact h1

theorem doOnDisconnect_fr (rc : RC) (fb : Bool) (h : Fr (PB B k) s0 s) :
    Fr (PB B k) s0 (s.doOnDisconnect rc fb) := h.emit (by trivial)

theorem loopRcHandle_fr (rc : RC) (h : Fr (PB B k) s0 s) : Fr (PB B k) s0 (s.loopRcHandle rc).1 := by
  unfold loopRcHandle
  split
  · split
    · exact h
    · have h1 := sockClose_fr (B := B) (k := k) false h
      simp only
      split
      · exact doOnDisconnect_fr _ _ (h1.upd rfl rfl rfl)
      · exact doOnDisconnect_fr _ _ (h1.upd rfl rfl rfl)
  · exact h

theorem Fr.upd_mk (h : Fr P a b) {cfg proto hostSet cstate sock nconn lastMid inflight outq regWrite firstConnect
    inCb pingT lastIn lastOut now reconnectDelay sendScript infos raiseOnMessage ackd discCalled} :
    Fr P a { cfg := cfg, proto := proto, hostSet := hostSet, cstate := cstate, sock := sock, nconn := nconn,
             lastMid := lastMid, out := b.out, inm := b.inm, inflight := inflight, outq := outq,
             regWrite := regWrite, firstConnect := firstConnect, inCb := inCb, pingT := pingT,
             lastIn := lastIn, lastOut := lastOut, now := now, reconnectDelay := reconnectDelay,
             sendScript := sendScript, infos := infos, raiseOnMessage := raiseOnMessage, ackd := ackd,
             discCalled := discCalled, log := b.log } :=
  h.upd rfl rfl rfl

theorem Fr.of_eq {α : Type} {f : S × α} {s1 : S} {r : α} (heq : f = (s1, r)) (h : Fr P a f.1) : Fr P a s1 := by
  subst heq; exact h

theorem setInfo_fr (i : Nat) (f : Info → Info) (h : Fr P a s) : Fr P a (s.setInfo i f) := h.upd rfl rfl rfl

theorem nextSend_fr (n : Nat) (h : Fr P a s) : Fr P a (s.nextSend n).1 := by
  unfold nextSend
  split
  · exact h
  · exact h.upd rfl rfl rfl

/-- syntactically strip `(a, b).1` -/
partial def peelFst (e : Lean.Expr) : Lean.Expr :=
  let e := e.cleanupAnnotations
  if e.isAppOfArity ``Prod.fst 3 then
    let p := e.appArg!.cleanupAnnotations
    if p.isAppOfArity ``Prod.mk 4 then peelFst (p.getArg! 2) else e
  else match e with
    | .proj ``Prod 0 p =>
      let p := p.cleanupAnnotations
      if p.isAppOfArity ``Prod.mk 4 then peelFst (p.getArg! 2) else e
    | _ => e

open Lean Elab Tactic Meta in
/-- succeeds iff the last argument of the goal is syntactically (a first projection of a pair literal
of) an application of `S.mk` -/
elab "goal_is_mk" : tactic => do
  let g ← getMainGoal
  g.withContext do
    let t := (← instantiateMVars (← g.getType)).cleanupAnnotations
    unless t.isApp do throwError "not an application"
    let x := peelFst t.appArg!
    unless x.isAppOf ``Paho.S.mk do throwError "not a structure literal"

open Lean Elab Tactic Meta in
/-- if the last argument of the goal is (up to projections of literal pairs) a local definition, unfold it -/
elab "goal_unfold_let" : tactic => do
  let g ← getMainGoal
  g.withContext do
    let t := (← instantiateMVars (← g.getType)).cleanupAnnotations
    unless t.isApp do throwError "not an application"
    let x := peelFst t.appArg!
    match x with
    | .fvar id =>
      match (← id.getDecl).value? with
      | some v =>
        let g' ← g.replaceTargetDefEq (mkApp t.appFn! v)
        replaceMainGoal [g']
      | none => throwError "not a local definition"
    | _ => throwError "not a local definition"

/-- head symbol of the state expression, looking through a first projection -/
def headOf (e : Lean.Expr) : Lean.Expr :=
  let e := peelFst e
  let e := if e.isAppOfArity ``Prod.fst 3 then e.appArg!.cleanupAnnotations
    else match e with
      | .proj ``Prod 0 p => p.cleanupAnnotations
      | _ => e
  e.getAppFn

open Lean Elab Tactic Meta in
/-- succeeds iff the state expression of the goal is syntactically an application of the given constant -/
elab "goal_head " id:ident : tactic => do
  let n ← realizeGlobalConstNoOverloadWithInfo id
  let g ← getMainGoal
  g.withContext do
    let t := (← instantiateMVars (← g.getType)).cleanupAnnotations
    unless t.isApp do throwError "not an application"
    unless (headOf t.appArg!).isConstOf n do throwError "different head symbol"

open Lean Elab Tactic Meta in
/-- succeeds iff the state expression of the goal is a local hypothesis-free variable (not a local definition) -/
elab "goal_is_var" : tactic => do
  let g ← getMainGoal
  g.withContext do
    let t := (← instantiateMVars (← g.getType)).cleanupAnnotations
    unless t.isApp do throwError "not an application"
    match peelFst t.appArg! with
    | .fvar id =>
      if (← id.getDecl).value?.isSome then throwError "local definition"
    | _ => throwError "not a variable"

/-- one goal-directed peeling step (extensible) -/
syntax "fr_step" : tactic
macro_rules | `(tactic| fr_step) => `(tactic| (goal_is_var; refine Fr.of_eq (by assumption) ?_))
macro_rules | `(tactic| fr_step) => `(tactic| (goal_head S.emit; refine Fr.emit ?_ (by trivial)))
macro_rules | `(tactic| fr_step) => `(tactic| (goal_is_mk; refine Fr.upd_mk ?_))
macro_rules | `(tactic| fr_step) => `(tactic| (goal_head S.setInfo; refine setInfo_fr _ _ ?_))
macro_rules | `(tactic| fr_step) => `(tactic| (goal_head S.sockClose; refine sockClose_fr _ ?_))
macro_rules | `(tactic| fr_step) => `(tactic| (goal_head S.doOnDisconnect; refine doOnDisconnect_fr _ _ ?_))
macro_rules | `(tactic| fr_step) => `(tactic| (goal_head S.callSocketRegisterWrite; refine callSocketRegisterWrite_fr ?_))
macro_rules | `(tactic| fr_step) => `(tactic| (goal_head S.callSocketUnregisterWrite; refine callSocketUnregisterWrite_fr _ ?_))
macro_rules | `(tactic| fr_step) => `(tactic| (goal_head S.loopRcHandle; refine loopRcHandle_fr _ ?_))
macro_rules | `(tactic| fr_step) => `(tactic| (goal_head S.nextSend; refine nextSend_fr _ ?_))

syntax "fr_auto" : tactic
macro_rules | `(tactic| fr_auto) => `(tactic|
  first
  | assumption
  | (fr_step; fr_auto)
  | (goal_unfold_let; fr_auto)
  | (extract_lets; fr_auto)
  | (split <;> fr_auto)
  | skip)

theorem packetWrite_fr (fuel : Nat) : ∀ {s : S}, Fr (PB B k) s0 s → Fr (PB B k) s0 (packetWrite fuel s).1 := by
  induction fuel with
  | zero => intro s h; unfold packetWrite; fr_emit; exact h
  | succ n ih =>
    intro s h
    unfold packetWrite
    fr_auto
    all_goals (refine ih ?_; fr_auto)

macro_rules | `(tactic| fr_step) => `(tactic| (goal_head S.packetWrite; refine packetWrite_fr _ ?_))

theorem loopWrite_fr (h : Fr (PB B k) s0 s) : Fr (PB B k) s0 s.loopWrite.1 := by
  unfold loopWrite
  fr_auto

macro_rules | `(tactic| fr_step) => `(tactic| (goal_head S.loopWrite; refine loopWrite_fr ?_))

theorem packetQueue_fr (pkt : OutPkt) (direct : Bool) (hb : B pkt.bytes) (h : Fr (PB B k) s0 s) :
    Fr (PB B k) s0 (s.packetQueue pkt direct).1 := by
  unfold packetQueue
  extract_lets s1 s2
  have h2 : Fr (PB B k) s0 s2 := by
    show Fr (PB B k) s0 (match s1.sock with | some c => s1.emit (.queued c pkt.bytes) | none => s1)
    split
    · exact Fr.emit (h.upd rfl rfl rfl) hb
    · exact h.upd rfl rfl rfl
  clear_value s2
  fr_auto

theorem sendPublish_fr (mid : Nat) (topic payload : Bytes) (qos : Nat) (retain dup : Bool)
    (info : Option Nat) (direct : Bool) (uid : Option Nat)
    (hb : ∀ bytes, encPublish s.proto mid topic payload qos retain dup none = .ok bytes → B bytes)
    (h : Fr (PB B k) s0 s) :
    Fr (PB B k) s0 (s.sendPublish mid topic payload qos retain dup info direct uid).1 := by
  unfold sendPublish
  split
  · exact h
  · split
    · fr_auto
    · rename_i bytes hbytes
      refine packetQueue_fr _ _ (hb _ hbytes) ?_
      fr_auto

theorem sendCmdMid_fr (command mid : Nat) (direct : Bool)
    (hb : ∀ bytes, encCmdMid command mid false = .ok bytes → B bytes)
    (h : Fr (PB B k) s0 s) :
    Fr (PB B k) s0 (s.sendCmdMid command mid direct).1 := by
  unfold sendCmdMid
  split
  · fr_auto
  · rename_i bytes hbytes
    exact packetQueue_fr _ _ (hb _ hbytes) h

theorem sendPubrel_fr (mid : Nat) (direct : Bool)
    (hb : ∀ bytes, encCmdMid 0x62 mid false = .ok bytes → B bytes)
    (h : Fr (PB B k) s0 s) :
    Fr (PB B k) s0 (s.sendPubrel mid direct).1 := by
  unfold sendPubrel
  refine sendCmdMid_fr _ _ _ hb ?_
  fr_auto

theorem sendSimple_fr (command : Nat) (hb : B (encSimple command)) (h : Fr (PB B k) s0 s) :
    Fr (PB B k) s0 (s.sendSimple command).1 := by
  unfold sendSimple
  exact packetQueue_fr _ _ hb h

theorem sendConnect_fr (hb : ∀ a bytes, a.will = none → a.username = none → encConnect a = .ok bytes → B bytes)
    (h : Fr (PB B k) s0 s) :
    Fr (PB B k) s0 s.sendConnect.1 := by
  unfold sendConnect
  extract_lets a
  split
  · fr_auto
  · rename_i bytes hbytes
    exact packetQueue_fr _ _ (hb _ _ rfl rfl hbytes) h

theorem handleOnMessage_fr (m : InMsg) (hk : k) (h : Fr (PB B k) s0 s) :
    Fr (PB B k) s0 (s.handleOnMessage m).1 := by
  unfold handleOnMessage
  have h1 : Fr (PB B k) s0 (s.emit (.onMessage m)) := h.emit hk
  fr_auto

/-- with an open socket the `queued` ghost event is the first new event of `_packet_queue` -/
theorem packetQueue_first (pkt : OutPkt) (direct : Bool) {c : Nat} (hs : s.sock = some c) :
    ∃ evs, (s.packetQueue pkt direct).1.log = s.log ++ Ev.queued c pkt.bytes :: evs ∧ ∀ e ∈ evs, PB B k e := by
  unfold packetQueue
  extract_lets s1 s2
  have hs1 : s1.sock = some c := hs
  have h2 : s2 = s1.emit (.queued c pkt.bytes) := by
    show (match s1.sock with | some c => s1.emit (.queued c pkt.bytes) | none => s1) = _
    rw [hs1]
  have key : ∀ s2 : S, Fr (PB B k) s2 (if (!s2.cfg.ext) = true ∧ direct = true ∧ (!s2.inCb) = true then s2.loopWrite
      else (s2.callSocketRegisterWrite, rcSuccess)).1 := by
    intro s2
    have h0 : Fr (PB B k) s2 s2 := Fr.refl
    fr_auto
  obtain ⟨evs, he, hp⟩ := (key s2).lg
  refine ⟨evs, ?_, hp⟩
  rw [he, h2]
  show (s.log ++ [Ev.queued c pkt.bytes]) ++ evs = _
  simp

theorem packetQueue_inm (pkt : OutPkt) (direct : Bool) : (s.packetQueue pkt direct).1.inm = s.inm :=
  (packetQueue_fr (B := fun _ => True) (k := True) pkt direct trivial Fr.refl).inm

end Paho.InLemmas
