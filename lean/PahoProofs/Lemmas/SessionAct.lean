/-
Abstract "action" machine for the session model.

`View` keeps the fields of `Paho.S` the C10/C16/C06 properties speak about. Every handler of
the model is shown (in `SessionRefine.lean`) to be a finite path of the atomic actions `Act`
below; the invariants are then proved once per atomic action (`SessionInv*.lean`).
-/
import Paho.Model.Session
import Paho.Model.SessionInv
import PahoProofs.Lemmas.SessionDefs

namespace Paho
namespace SessAct

/-- the CONNECT packet of this configuration can be encoded -/
def cfgOk (c : Cfg) : Bool := decide (c.keepalive ≤ 65535) && decide (c.clientId.length ≤ 65535)

structure View where
  sock : Option Nat
  cstate : ConnState
  ackd : Bool
  discCalled : Bool
  regWrite : Bool
  outq : List OutPkt
  nconn : Nat
  ext : Bool
  inCb : Bool
  cfgOk : Bool
  log : List Ev

@[reducible] def view (s : S) : View :=
  { sock := s.sock, cstate := s.cstate, ackd := s.ackd, discCalled := s.discCalled,
    regWrite := s.regWrite, outq := s.outq, nconn := s.nconn, ext := s.cfg.ext, inCb := s.inCb,
    cfgOk := cfgOk s.cfg, log := s.log }

/-- events that none of the properties looks at -/
def neutral : Ev → Bool
  | .tx _ _ | .sopen _ | .sclose _ _ | .queued _ _ | .skOpen _ | .skClose _ | .skRegW _ | .skUnregW _
  | .onDisconnect _ _ => false
  | _ => true

def vEmit (v : View) (evs : List Ev) : View := { v with log := v.log ++ evs }

def vRegW (v : View) : View :=
  match v.sock with
  | none => v
  | some c =>
    if v.regWrite then v
    else { v with regWrite := true, log := v.log ++ (if v.ext then [Ev.skRegW c] else []) }

def vUnregW (v : View) : View :=
  match v.sock with
  | none => v
  | some c =>
    if v.regWrite then { v with regWrite := false, log := v.log ++ (if v.ext then [Ev.skUnregW c] else []) }
    else v

/-- events of `_sock_close` on the open socket `c` -/
def closeEvs (v : View) (c : Nat) (replaced : Bool) : List Ev :=
  (if v.regWrite && v.ext then [Ev.skUnregW c] else [])
  ++ (if v.ext then [if v.inCb then Ev.deadlock "_in_callback_mutex" else Ev.skClose c] else [])
  ++ [Ev.sclose c replaced]

def vSockClose (v : View) (replaced : Bool) : View :=
  match v.sock with
  | none => v
  | some c =>
    { v with sock := none, ackd := false, discCalled := false, regWrite := false,
             log := v.log ++ closeEvs v c replaced }

def vEnq (v : View) (pkt : OutPkt) : View :=
  { v with outq := v.outq ++ [pkt],
           log := v.log ++ (match v.sock with | some c => [Ev.queued c pkt.bytes] | none => []) }

/-- `k` more bytes of the head packet `pkt` (followed by `rest`) are accepted by the transport -/
def vWrite (v : View) (pkt : OutPkt) (rest : List OutPkt) (k : Nat) : View :=
  { v with outq := (if pkt.pos + k = pkt.bytes.length then rest else { pkt with pos := pkt.pos + k } :: rest),
           log := v.log ++ (match v.sock with
                            | some c => [Ev.tx c ((pkt.bytes.drop pkt.pos).take k)]
                            | none => []) }

def dOD (v : View) : Bool := v.cstate = .disconnecting || v.cstate = .disconnected

/-- the connection is closed by the client for a reason other than replacement: `_sock_close`, state
update and `on_disconnect` (client-generated); `n` is the (non-zero) error shown when disconnect() was not called -/
def vCloseLost (v : View) (n : Nat) : View :=
  let v1 := vSockClose v false
  { v1 with cstate := (if dOD v then .disconnected else .connectionLost),
            log := v1.log ++ [Ev.onDisconnect (if dOD v then 0 else n) false] }

/-- MQTT 5 DISCONNECT received from the broker -/
def vCloseBroker (v : View) (n : Nat) : View :=
  let v1 := vSockClose v false
  { v1 with cstate := (if dOD v then .disconnected else .connectionLost),
            log := v1.log ++ [Ev.onDisconnect n true] }

/-- the last `k` bytes of the DISCONNECT packet at the head of the queue are written: close -/
def vWriteDisc (v : View) (pkt : OutPkt) (rest : List OutPkt) (k : Nat) : View :=
  let v1 := vWrite v pkt rest k
  let v2 := vSockClose v1 false
  { v2 with cstate := (if v.cstate = .disconnecting then .disconnected else v.cstate),
            log := v2.log ++ [Ev.onDisconnect 0 false] }

def vCloseReplace (v : View) (x : ConnState) : View := vSockClose { v with cstate := x } true

/-- a new socket is created and (if it can be encoded) the CONNECT packet is appended to the empty queue -/
def vOpen (v : View) (pkt : Option OutPkt) : View :=
  let c := v.nconn + 1
  { v with sock := some c, nconn := c, regWrite := false, outq := pkt.toList,
           log := v.log ++ [Ev.sopen c]
             ++ (if v.ext then [if v.inCb then Ev.deadlock "_in_callback_mutex" else Ev.skOpen c] else [])
             ++ (match pkt with | some p => [Ev.queued c p.bytes] | none => [Ev.exc "encode"]) }

/-- a packet other than CONNECT as handed to `_packet_queue` -/
def Fresh (p : OutPkt) : Prop := p.pos = 0 ∧ p.bytes ≠ [] ∧ p.bytes.head? ≠ some 0x10

def IsConnectPkt (p : OutPkt) : Prop := p.pos = 0 ∧ p.command = 0x10 ∧ p.bytes.head? = some 0x10

def isDiscCmd (command : Nat) : Prop := command &&& 0xF0 = 0xE0

instance (c : Nat) : Decidable (isDiscCmd c) := by unfold isDiscCmd; infer_instance

inductive Kind where
  | quiet | loud | reconn | disc
  deriving DecidableEq, Repr

/-- atomic actions -/
inductive Act : Kind → View → View → Prop
  | emit (v : View) (evs : List Ev) : (∀ e ∈ evs, neutral e = true) → Act .quiet v (vEmit v evs)
  | regW (v : View) : Act .quiet v (vRegW v)
  | unregW (v : View) : Act .quiet v (vUnregW v)
  | enq (v : View) (pkt : OutPkt) : Fresh pkt → (isDiscCmd pkt.command → v.discCalled = true) →
      Act .quiet v (vEnq v pkt)
  | write (v : View) (pkt : OutPkt) (rest : List OutPkt) (k : Nat) :
      v.outq = pkt :: rest → 0 < k → pkt.pos + k ≤ pkt.bytes.length → Act .quiet v (vWrite v pkt rest k)
  | setNoSock (v : View) (x : ConnState) : v.sock = none → x ≠ .connected → Act .quiet v { v with cstate := x }
  | connack (v : View) : v.sock.isSome = true →
      Act .quiet v { v with cstate := (if v.cstate = .disconnecting then .disconnecting else .connected), ackd := true }
  | writeDisc (v : View) (pkt : OutPkt) (rest : List OutPkt) (k : Nat) :
      v.sock.isSome = true → v.outq = pkt :: rest → 0 < k → pkt.pos + k = pkt.bytes.length → isDiscCmd pkt.command →
      Act .loud v (vWriteDisc v pkt rest k)
  | closeLost (v : View) (n : Nat) : v.sock.isSome = true → n ≠ 0 → Act .loud v (vCloseLost v n)
  | closeBroker (v : View) (n : Nat) : v.sock.isSome = true → Act .loud v (vCloseBroker v n)
  | closeReplace (v : View) (x : ConnState) : (x = .connecting ∨ x = .connectAsync) → Act .reconn v (vCloseReplace v x)
  | clearQ (v : View) : v.sock = none → Act .reconn v { v with outq := [] }
  | openConnect (v : View) (pkt : OutPkt) : v.sock = none → v.outq = [] → v.cstate = .connecting → IsConnectPkt pkt →
      Act .reconn v (vOpen v (some pkt))
  | openNoConnect (v : View) : v.sock = none → v.outq = [] → v.cstate = .connecting → v.cfgOk = false →
      Act .reconn v (vOpen v none)
  | setDisc (v : View) : v.sock.isSome = true → Act .disc v { v with cstate := .disconnecting, discCalled := true }

/-- connection number mentioned by a transport-level event (0 for the others) -/
def evConn : Ev → Nat
  | .tx c _ | .sopen c | .sclose c _ | .queued c _ | .skOpen c | .skClose c | .skRegW c | .skUnregW c => c
  | _ => 0

/-- the state invariants (no reference to the log); preserved by every action (`SessionInvState.lean`) -/
structure InvS (v : View) : Prop where
  conn : v.cstate = .connected → v.sock.isSome = true ∧ v.ackd = true
  disc : v.sock.isSome = true → ((v.cstate = .disconnecting ↔ v.discCalled = true) ∧ v.cstate ≠ .disconnected)
  noSock : v.sock = none → v.discCalled = false
  reg : v.regWrite = true → v.sock.isSome = true
  qpos : ∀ p ∈ v.outq, p.pos < p.bytes.length
  qtail : ∀ p ∈ v.outq.drop 1, p.pos = 0
  nconn : ∀ c, v.sock = some c → c ≤ v.nconn
  discq : v.sock.isSome = true → ∀ p ∈ v.outq, isDiscCmd p.command → v.discCalled = true
  inCb : v.inCb = false

/-- finite paths of actions whose kinds satisfy `P` -/
inductive Path (P : Kind → Bool) : View → View → Prop
  | refl (v : View) : Path P v v
  | cons {k : Kind} {v v1 v2 : View} : Act k v v1 → P k = true → Path P v1 v2 → Path P v v2

theorem Path.trans {P : Kind → Bool} {a b c : View} (h1 : Path P a b) (h2 : Path P b c) : Path P a c := by
  induction h1 with
  | refl _ => exact h2
  | cons ha hk _ ih => exact Path.cons ha hk (ih h2)

theorem Path.single {P : Kind → Bool} {k : Kind} {a b : View} (h : Act k a b) (hk : P k = true) : Path P a b :=
  Path.cons h hk (Path.refl _)

theorem Path.mono {P Q : Kind → Bool} (hPQ : ∀ k, P k = true → Q k = true) {a b : View}
    (h : Path P a b) : Path Q a b := by
  induction h with
  | refl _ => exact Path.refl _
  | cons ha hk _ ih => exact Path.cons ha (hPQ _ hk) ih

theorem Path.of_eq {P : Kind → Bool} {a b : View} (h : a = b) : Path P a b := h ▸ Path.refl _

theorem Path.of_eq_act {P : Kind → Bool} {k : Kind} {a b b' : View} (h : Act k a b') (hk : P k = true)
    (e : b = b') : Path P a b := e ▸ Path.single h hk

theorem Path.neutral {P : Kind → Bool} (hP : P .quiet = true) {v v' : View} (evs : List Ev)
    (hv : v' = vEmit v evs) (hn : ∀ e ∈ evs, neutral e = true) : Path P v v' :=
  hv ▸ Path.single (Act.emit v evs hn) hP

def Kind.isQuiet : Kind → Bool
  | .quiet => true
  | _ => false

/-- kinds occurring in every handler but the connect()/reconnect() family -/
def Kind.isNormal : Kind → Bool
  | .quiet | .loud => true
  | _ => false

/-- kinds occurring in the connect()/reconnect() family -/
def Kind.isReconn : Kind → Bool
  | .quiet | .reconn => true
  | _ => false

def Kind.any : Kind → Bool := fun _ => true

/-- quiet paths -/
abbrev Tr0 := Path Kind.isQuiet
/-- normal paths -/
abbrev TrN := Path Kind.isNormal
/-- reconnect paths -/
abbrev TrQ := Path Kind.isReconn
/-- arbitrary paths -/
abbrev TrA := Path Kind.any

theorem Tr0.toN {a b : View} (h : Tr0 a b) : TrN a b :=
  Path.mono (fun k hk => by cases k <;> simp_all [Kind.isQuiet, Kind.isNormal]) h

theorem Tr0.toQ {a b : View} (h : Tr0 a b) : TrQ a b :=
  Path.mono (fun k hk => by cases k <;> simp_all [Kind.isQuiet, Kind.isReconn]) h

theorem Path.toA {P : Kind → Bool} {a b : View} (h : Path P a b) : TrA a b :=
  Path.mono (fun _ _ => rfl) h

/-- what one application-level step does, as a path -/
inductive StepPath (v v' : View) : Prop
  | normal : TrN v v' → StepPath v v'
  | reconn : TrQ v v' → StepPath v v'
  | disc (v1 : View) : Act .disc v v1 → TrN v1 v' → StepPath v v'

theorem StepPath.toA {v v' : View} (h : StepPath v v') : TrA v v' := by
  cases h with
  | normal h => exact h.toA
  | reconn h => exact h.toA
  | disc v1 ha h => exact Path.cons ha rfl h.toA

end SessAct
end Paho
