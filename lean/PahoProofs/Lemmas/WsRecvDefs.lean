/-
Receive side of the WebSocket framing layer: the reference meaning of a byte stream of server frames
(`Frame`, `encs`, `dataOf`, `owed`), the transport abstraction (`flat`, `qMeasure`) and the relations
(`Ok`, `Fail`, `Spec`) in which the `_buffered_read` chain of one `_recv_impl` call is specified.
-/
import Paho.Model.Ws
import PahoProofs.Lemmas.WsBytes
namespace Paho.Ws
open Paho

/-! ### frames on the wire (RFC 6455 section 5.2) -/

/-- a frame as a server can put it on the wire. Every first byte is allowed (FIN, RSV1-3, any opcode), the frame may
be masked or not, and the payload length may use any of the three encodings that can hold it (`lenForm` 0: 7 bits,
1: 16 bits, 2: 64 bits), minimal or not. -/
structure Frame where
  b0 : UInt8
  lenForm : Nat
  mask : Option Bytes
  payload : Bytes
  deriving DecidableEq, Repr

namespace Frame

def opcode (f : Frame) : Nat := f.b0.toNat % 16

def len7 (f : Frame) : Nat :=
  if f.lenForm = 0 then f.payload.length else if f.lenForm = 1 then 126 else 127

def b1 (f : Frame) : UInt8 := b8 ((if f.mask.isSome then 128 else 0) + f.len7)

def ext (f : Frame) : Bytes :=
  if f.lenForm = 0 then [] else if f.lenForm = 1 then beBytes 2 f.payload.length else beBytes 8 f.payload.length

def keyBytes (f : Frame) : Bytes := match f.mask with | some k => k | none => []

/-- payload as transmitted -/
def body (f : Frame) : Bytes :=
  match f.mask with
  | some k => xorRange k 0 f.payload.length f.payload
  | none => f.payload

def hdrLen (f : Frame) : Nat := 2 + f.ext.length + f.keyBytes.length

def enc (f : Frame) : Bytes := f.b0 :: f.b1 :: (f.ext ++ (f.keyBytes ++ f.body))

/-- well-formed: a 4-byte masking key, and a length form that can hold the payload length -/
def wf (f : Frame) : Prop :=
  (∀ k, f.mask = some k → k.length = 4) ∧
  ((f.lenForm = 0 ∧ f.payload.length < 126) ∨ (f.lenForm = 1 ∧ f.payload.length < 65536) ∨
   (f.lenForm = 2 ∧ f.payload.length < 2 ^ 64))

/-- BINARY or CONTINUATION -/
def isData (f : Frame) : Prop := f.opcode = 2 ∨ f.opcode = 0

instance (f : Frame) : Decidable f.isData := by unfold isData; exact inferInstance

/-- the reply a complete frame is owed: PONG with the same payload for a PING, CLOSE for a CLOSE -/
def owed (f : Frame) : List Bytes :=
  if f.opcode = 9 then [createFrame 10 f.payload [] 0]
  else if f.opcode = 8 then [createFrame 8 f.payload [] 0]
  else []

/-- PING / CLOSE frames are not masked (RFC 6455 section 5.1: a server MUST NOT mask) -/
def ctlUnmasked (f : Frame) : Prop := (f.opcode = 9 ∨ f.opcode = 8) → f.mask = none

instance (f : Frame) : Decidable f.ctlUnmasked := by unfold ctlUnmasked; exact inferInstance

end Frame

/-- the bytes of a sequence of frames -/
def encs : List Frame → Bytes
  | [] => []
  | f :: fs => f.enc ++ encs fs

/-- what the application is to receive: the payloads of the data frames, in order -/
def dataOf : List Frame → Bytes
  | [] => []
  | f :: fs => (if f.isData then f.payload else []) ++ dataOf fs

def owedAll : List Frame → List Bytes
  | [] => []
  | f :: fs => f.owed ++ owedAll fs

theorem encs_append (a b : List Frame) : encs (a ++ b) = encs a ++ encs b := by
  induction a with
  | nil => rfl
  | cons f a ih => simp [encs, ih]

theorem dataOf_append (a b : List Frame) : dataOf (a ++ b) = dataOf a ++ dataOf b := by
  induction a with
  | nil => rfl
  | cons f a ih => simp [dataOf, ih]

theorem owedAll_append (a b : List Frame) : owedAll (a ++ b) = owedAll a ++ owedAll b := by
  induction a with
  | nil => rfl
  | cons f a ih => simp [owedAll, ih]

theorem Frame.body_length (f : Frame) : f.body.length = f.payload.length := by
  unfold Frame.body; split <;> simp

theorem Frame.enc_length (f : Frame) : f.enc.length = f.hdrLen + f.payload.length := by
  simp [Frame.enc, Frame.hdrLen, Frame.body_length]; omega

/-! ### the transport -/

/-- the bytes a queue will deliver before its first terminal event -/
def flat : List RecvItem → Bytes
  | [] => []
  | .data b :: rest => b ++ flat rest
  | .eagain :: rest => flat rest
  | .eof :: _ => []
  | .err :: _ => []

/-- decreases with every `recv` that takes an item or a byte off the queue -/
def qMeasure (q : List RecvItem) : Nat := q.length + (flat q).length

theorem recvN_spec (n : Nat) (hn : 0 < n) (q : List RecvItem) :
    match recvN n q with
    | (.block, q') => flat q' = flat q ∧ qMeasure q' ≤ qMeasure q ∧ (flat q ≠ [] → qMeasure q' < qMeasure q)
    | (.closed, q') => flat q' = flat q ∧ flat q = [] ∧ qMeasure q' ≤ qMeasure q
    | (.error, q') => flat q' = flat q ∧ flat q = [] ∧ qMeasure q' ≤ qMeasure q
    | (.bytes d, q') => d ++ flat q' = flat q ∧ d.length ≤ n ∧ qMeasure q' < qMeasure q := by
  cases q with
  | nil => simp [recvN, flat]
  | cons it rest =>
    cases it with
    | eagain => simp [recvN, flat, qMeasure]
    | eof => simp [recvN, flat]
    | err => simp [recvN, flat]
    | data b =>
      simp only [recvN]
      by_cases h : b.length ≤ n
      · simp [h, flat, qMeasure]; omega
      · simp only [h, if_false]
        refine ⟨by simp only [flat]; rw [← List.append_assoc, List.take_append_drop], by simp; omega, ?_⟩
        simp [qMeasure, flat]; omega

/-! ### relations between the cursors of one `_recv_impl` call -/

/-- total bytes the call can see: buffered ones and those the socket will still deliver -/
def Cur.stream (c : Cur) : Bytes := c.buf ++ flat c.q

/-- `c'` is reached from `c` by successful `_buffered_read`s -/
structure Ok (c c' : Cur) : Prop where
  stream : c'.stream = c.stream
  bufLe : c.buf.length ≤ c'.buf.length
  meas : qMeasure c'.q ≤ qMeasure c.q
  headLe : c'.head ≤ c'.buf.length
  bufMax : c'.buf.length ≤ max c.buf.length c'.head
  headMono : c.head ≤ c'.head

/-- `c'` is where a `_buffered_read` that needed the buffer to reach `T` bytes gave up (BlockingIOError or
ConnectionError): nothing is lost, the buffer is still short of `T`, and if `T` bytes exist at all then the failed
`recv` took something off the queue -/
structure Fail (c c' : Cur) (T : Nat) : Prop where
  stream : c'.stream = c.stream
  bufLe : c.buf.length ≤ c'.buf.length
  short : c'.buf.length < T
  meas : qMeasure c'.q ≤ qMeasure c.q
  progress : T ≤ c.stream.length → qMeasure c'.q < qMeasure c.q

theorem Ok.refl (c : Cur) (h : c.head ≤ c.buf.length) : Ok c c :=
  ⟨rfl, Nat.le_refl _, Nat.le_refl _, h, Nat.le_max_left _ _, Nat.le_refl _⟩

theorem Ok.trans {a b c : Cur} (h1 : Ok a b) (h2 : Ok b c) : Ok a c := by
  refine ⟨h2.stream.trans h1.stream, Nat.le_trans h1.bufLe h2.bufLe, Nat.le_trans h2.meas h1.meas, h2.headLe, ?_,
    Nat.le_trans h1.headMono h2.headMono⟩
  have := h1.bufMax; have := h2.bufMax; have := h1.headMono; have := h2.headMono
  omega

theorem Fail.rebase {a b c : Cur} {T : Nat} (h1 : Ok a b) (h2 : Fail b c T) : Fail a c T := by
  refine ⟨h2.stream.trans h1.stream, Nat.le_trans h1.bufLe h2.bufLe, h2.short, Nat.le_trans h2.meas h1.meas, ?_⟩
  intro hT
  have := h2.progress (by rw [h1.stream]; exact hT)
  have := h1.meas
  omega

theorem Fail.mono {a c : Cur} {T T' : Nat} (h : Fail a c T) (hT : T ≤ T') : Fail a c T' :=
  ⟨h.stream, h.bufLe, Nat.lt_of_lt_of_le h.short hT, h.meas, fun h' => h.progress (Nat.le_trans hT h')⟩

/-- specification of a step of the read chain started at `c`: success satisfies `post`, failure is a `Fail` below `T` -/
def Spec {α : Type} (r : Step α) (c : Cur) (T : Nat) (post : α → Cur → Prop) : Prop :=
  match r with
  | .ok a c' => Ok c c' ∧ post a c'
  | .block c' => Fail c c' T
  | .closed c' => Fail c c' T

theorem Spec.rebase {α : Type} {r : Step α} {a b : Cur} {T : Nat} {post : α → Cur → Prop}
    (h1 : Ok a b) (h2 : Spec r b T post) : Spec r a T post := by
  cases r with
  | ok x c' => exact ⟨h1.trans h2.1, h2.2⟩
  | block c' => exact Fail.rebase h1 h2
  | closed c' => exact Fail.rebase h1 h2

theorem Spec.mono {α : Type} {r : Step α} {c : Cur} {T T' : Nat} {post post' : α → Cur → Prop}
    (h : Spec r c T post) (hT : T ≤ T') (hp : ∀ a c', Ok c c' → post a c' → post' a c') : Spec r c T' post' := by
  cases r with
  | ok x c' => exact ⟨h.1, hp _ _ h.1 h.2⟩
  | block c' => exact Fail.mono h hT
  | closed c' => exact Fail.mono h hT

theorem Spec.bind {α β : Type} {r : Step α} {f : α → Cur → Step β} {c : Cur} {T : Nat}
    {post : α → Cur → Prop} {post' : β → Cur → Prop}
    (h : Spec r c T post) (hf : ∀ a c', Ok c c' → post a c' → Spec (f a c') c' T post') :
    Spec (r.bind f) c T post' := by
  cases r with
  | ok x c' => exact Spec.rebase h.1 (hf x c' h.1 h.2)
  | block c' => exact h
  | closed c' => exact h

/-! ### `_buffered_read` -/

theorem slice_append {A B : Bytes} {h n : Nat} (hle : h + n ≤ A.length) :
    ((A ++ B).drop h).take n = (A.drop h).take n := by
  rw [List.drop_append_of_le_length (by omega), List.take_append_of_le_length (by simp; omega)]

theorem bufferedRead_spec (n : Nat) (c : Cur) (hh : c.head ≤ c.buf.length) :
    Spec (bufferedRead n c) c (c.head + n)
      (fun out c' => c'.head = c.head + n ∧ out = (c.stream.drop c.head).take n) := by
  unfold bufferedRead
  by_cases hw : n - (c.buf.length - c.head) > 0
  · simp only [hw, if_true]
    have hs := recvN_spec (n - (c.buf.length - c.head)) hw c.q
    generalize recvN (n - (c.buf.length - c.head)) c.q = rr at hs
    obtain ⟨res, q'⟩ := rr
    cases res with
    | block =>
      simp only at hs ⊢
      refine ⟨by simp [Cur.stream, hs.1], Nat.le_refl _, by simp; omega, hs.2.1, ?_⟩
      intro hT
      apply hs.2.2
      intro hnil
      simp [Cur.stream, hnil] at hT
      omega
    | closed =>
      simp only at hs ⊢
      refine ⟨by simp [Cur.stream, hs.1], Nat.le_refl _, by simp; omega, hs.2.2, ?_⟩
      intro hT
      simp [Cur.stream, hs.2.1] at hT
      omega
    | error =>
      simp only at hs ⊢
      refine ⟨by simp [Cur.stream, hs.1], Nat.le_refl _, by simp; omega, hs.2.2, ?_⟩
      intro hT
      simp [Cur.stream, hs.2.1] at hT
      omega
    | bytes d =>
      simp only at hs ⊢
      obtain ⟨h1, h2, h3⟩ := hs
      have hst : (c.buf ++ d) ++ flat q' = c.buf ++ flat c.q := by rw [List.append_assoc, h1]
      by_cases he : d.isEmpty
      · simp only [he, if_true]
        have hd : d = [] := by simpa using he
        subst hd
        refine ⟨by simpa [Cur.stream] using hst, Nat.le_refl _, by simp; omega, Nat.le_of_lt h3, fun _ => h3⟩
      · simp only [he]
        by_cases hl : d.length < n - (c.buf.length - c.head)
        · simp only [hl, if_true]
          refine ⟨by simpa [Cur.stream] using hst, by simp, by simp; omega, Nat.le_of_lt h3, fun _ => h3⟩
        · simp only [hl, if_false]
          refine ⟨⟨by simpa [Cur.stream] using hst, by simp, Nat.le_of_lt h3, by simp; omega, by simp; omega, by simp⟩, rfl, ?_⟩
          simp only [Cur.stream]
          rw [← hst, slice_append (A := c.buf ++ d) (B := flat q') (by simp; omega)]
  · simp only [hw, if_false]
    refine ⟨⟨rfl, Nat.le_refl _, Nat.le_refl _, by simp; omega, by simp; omega, by simp⟩, rfl, ?_⟩
    simp only [Cur.stream]
    rw [slice_append (by omega)]

end Paho.Ws
