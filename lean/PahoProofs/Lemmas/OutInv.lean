/-
Inductive invariant of the session model about the message store, the infos and the
ghost part of the log; preserved by every step.
-/
import PahoProofs.Lemmas.OutFrame
import PahoProofs.Properties.C14

namespace Paho.OutLemmas
open Paho Paho.S

/-- is this event the completion of instance `u`? -/
def isComplOf (u : Nat) : Ev → Bool
  | .completed u' _ => u' = u
  | _ => false

/-- every completion is immediately preceded by the on_publish callback of its packet id -/
def CB (log : List Ev) : Prop :=
  ∀ i u mid, log[i + 1]? = some (.completed u mid) → log[i]? = some (.onPublish mid)

structure Inv (s : S) : Prop where
  nodup : (s.out.map (·.mid)).Nodup
  sorted : (s.out.map (·.info)).Pairwise (· < ·)
  range : ∀ m ∈ s.out, 1 ≤ m.mid ∧ m.mid ≤ 65535 ∧ m.info < s.infos.length ∧ (m.qos = 1 ∨ m.qos = 2)
  lastMid : s.lastMid ≤ 65535
  pinv : PInv (fun i => s.infos.length ≤ i ∨ i ∈ s.out.map (·.info)) s
  once : ∀ u, (s.log.filter (isComplOf u)).length ≤ 1 ∧
      ((s.log.filter (isComplOf u)) ≠ [] → u < s.infos.length ∧ u ∉ s.out.map (·.info))
  cb : CB s.log

theorem Inv.init (cfg : Cfg) (proto t : Nat) : Inv (S.init cfg proto t) := by
  refine ⟨by simp [S.init], by simp [S.init], by simp [S.init], c14_inv_init, ⟨?_, ?_⟩, ?_, ?_⟩
  · intro i _; simp [pubAt, S.init]
  · intro p hp; simp [S.init] at hp
  · intro u; simp [S.init]
  · intro i u mid h; simp [S.init] at h

/-! ### list helpers -/

theorem mem_of_keys_eq {l l' : List OutMsg} (h : l'.map key = l.map key) {m' : OutMsg} (hm : m' ∈ l') :
    ∃ m ∈ l, key m = key m' := by
  have : key m' ∈ l.map key := h ▸ List.mem_map_of_mem hm
  obtain ⟨m, hm, e⟩ := List.mem_map.mp this
  exact ⟨m, hm, e⟩

theorem evs_noCompl {evs g : List Ev} (hg : evs.filter isGhost = g) (hc : NoCompl g) :
    ∀ e ∈ evs, isCompleted e = false := by
  intro e he
  cases hh : isCompleted e with
  | false => rfl
  | true =>
    have hgh : isGhost e = true := by cases e <;> simp_all [isCompleted, isGhost]
    have : e ∈ g := hg ▸ List.mem_filter.mpr ⟨he, hgh⟩
    rw [hc e this] at hh; cases hh

theorem filter_isComplOf_nil {evs : List Ev} (h : ∀ e ∈ evs, isCompleted e = false) (u : Nat) :
    evs.filter (isComplOf u) = [] := by
  rw [List.filter_eq_nil_iff]
  intro e he
  have := h e he
  cases e <;> simp_all [isCompleted, isComplOf]

theorem CB.append {log evs : List Ev} (h : CB log) (hne : ∀ e ∈ evs, isCompleted e = false) :
    CB (log ++ evs) := by
  intro i u mid hi
  by_cases hlt : i + 1 < log.length
  · rw [List.getElem?_append_left hlt] at hi
    rw [List.getElem?_append_left (by omega)]
    exact h i u mid hi
  · rw [List.getElem?_append_right (by omega)] at hi
    have hmem : Ev.completed u mid ∈ evs := List.mem_of_getElem? hi
    have := hne _ hmem
    simp [isCompleted] at this

theorem CB.snoc_compl {log : List Ev} (h : CB log) (u mid : Nat) :
    CB (log ++ [.onPublish mid, .completed u mid]) := by
  intro i u' mid' hi
  by_cases hlt : i + 1 < log.length
  · rw [List.getElem?_append_left hlt] at hi
    rw [List.getElem?_append_left (by omega)]
    exact h i u' mid' hi
  · rw [List.getElem?_append_right (by omega)] at hi
    have h2 : i + 1 - log.length = 0 ∨ i + 1 - log.length = 1 ∨ 2 ≤ i + 1 - log.length := by omega
    rcases h2 with h2 | h2 | h2
    · rw [h2] at hi; simp at hi
    · rw [h2] at hi
      simp only [List.getElem?_cons_succ, List.getElem?_cons_zero, Option.some.injEq, Ev.completed.injEq] at hi
      obtain ⟨-, rfl⟩ := hi
      rw [List.getElem?_append_right (by omega)]
      have : i - log.length = 0 := by omega
      rw [this]; rfl
    · have : ([Ev.onPublish mid, Ev.completed u mid] : List Ev)[i + 1 - log.length]? = none :=
        List.getElem?_eq_none (by simp; omega)
      rw [this] at hi; cases hi

theorem pairwise_lt_inj {l : List OutMsg} (h : (l.map (·.info)).Pairwise (· < ·)) {a b : OutMsg}
    (ha : a ∈ l) (hb : b ∈ l) (hab : a.info = b.info) : a = b := by
  have hn : (l.map (·.info)).Nodup := by
    unfold List.Nodup
    exact h.imp (fun h => Nat.ne_of_lt h)
  exact nodup_map_inj _ l hn a b ha hb hab

/-! ### preservation -/

theorem Inv.same {g : List Ev} {s s' : S} (hi : Inv s) (h : Same g s s') (hc : NoCompl g) : Inv s' := by
  obtain ⟨evs, hlog, hg⟩ := h.log
  have hne := evs_noCompl hg hc
  refine ⟨by rw [h.mids_eq]; exact hi.nodup, by rw [h.infos_eq]; exact hi.sorted, ?_,
    by rw [h.lastMid]; exact hi.lastMid, ?_, ?_, ?_⟩
  · intro m' hm'
    obtain ⟨m, hm, e⟩ := mem_of_keys_eq h.keys hm'
    simp only [key, Prod.mk.injEq] at e
    obtain ⟨e1, e2, e3⟩ := e
    have := hi.range m hm
    rw [h.infosLen, ← e1, ← e2, ← e3]; exact this
  · have := h.pinv _ hi.pinv
    rw [h.infosLen, h.infos_eq]; exact this
  · intro u
    rw [hlog, List.filter_append, filter_isComplOf_nil hne u, List.append_nil, h.infosLen, h.infos_eq]
    exact hi.once u
  · rw [hlog]; exact hi.cb.append hne

theorem Inv.mid_step {s s0 : S} (hi : Inv s) (h : midStep s s0) : Inv s0 := by
  rcases h with rfl | rfl
  · exact hi
  · exact ⟨hi.nodup, hi.sorted, hi.range, (c14_range _ hi.lastMid).2, hi.pinv, hi.once, hi.cb⟩

theorem find_facts {s : S} {mid : Nat} {m : OutMsg} (hf : s.out.find? (·.mid = mid) = some m) :
    m ∈ s.out ∧ m.mid = mid :=
  ⟨List.mem_of_find?_eq_some hf, by simpa using List.find?_some hf⟩

theorem pubAt_ackState (s : S) (mid : Nat) (m : OutMsg) (i : Nat) :
    pubAt (ackState s mid m) i =
      if i = m.info ∧ i < s.infos.length then some true else pubAt s i := by
  simp only [pubAt, ackState, List.getElem?_modify]
  by_cases h1 : i = m.info
  · rw [h1]
    by_cases h2 : m.info < s.infos.length
    · simp [h2]
    · simp [h2]
  · have : ¬ m.info = i := fun h => h1 h.symm
    simp only [h1, false_and, if_false, this]
    cases s.infos[i]? <;> rfl

theorem Inv.ack_state {s : S} {mid : Nat} {m : OutMsg} (hi : Inv s)
    (hf : s.out.find? (·.mid = mid) = some m) : Inv (ackState s mid m) := by
  obtain ⟨hm, hmid⟩ := find_facts hf
  have hsub : (s.out.filter (·.mid ≠ mid)).Sublist s.out := List.filter_sublist
  have hnotin : m.info ∉ (s.out.filter (·.mid ≠ mid)).map (·.info) := by
    intro hin
    obtain ⟨m', hm', e⟩ := List.mem_map.mp hin
    have hm'' := List.mem_filter.mp hm'
    have := pairwise_lt_inj hi.sorted hm''.1 hm e
    subst this
    simp [hmid] at hm''
  have hlen : (ackState s mid m).infos.length = s.infos.length := by simp [ackState]
  have hrange := hi.range m hm
  refine ⟨hi.nodup.sublist (hsub.map _), hi.sorted.sublist (hsub.map _), ?_, hi.lastMid, ⟨?_, ?_⟩, ?_, ?_⟩
  · intro m' hm'
    rw [hlen]; exact hi.range m' (List.mem_filter.mp hm').1
  · intro i hP
    rw [hlen] at hP
    rw [pubAt_ackState]
    have hne : i ≠ m.info := by
      rintro rfl
      rcases hP with hP | hP
      · omega
      · exact hnotin hP
    simp only [hne, false_and, if_false]
    apply hi.pinv.1
    rcases hP with hP | hP
    · exact Or.inl hP
    · exact Or.inr ((hsub.map _).subset hP)
  · intro p hp hq i hpi hP
    rw [hlen] at hP
    refine hi.pinv.2 p hp hq i hpi ?_
    rcases hP with hP | hP
    · exact Or.inl hP
    · exact Or.inr ((hsub.map _).subset hP)
  · intro u
    rw [hlen]
    have hlogeq : (ackState s mid m).log = s.log ++ [Ev.onPublish mid, Ev.completed m.info mid,
      Ev.infoDone m.info rcSuccess] := rfl
    rw [hlogeq, List.filter_append]
    by_cases hu : m.info = u
    · subst hu
      have hold : s.log.filter (isComplOf m.info) = [] := by
        cases hl : s.log.filter (isComplOf m.info) with
        | nil => rfl
        | cons a b =>
          have := ((hi.once m.info).2 (by rw [hl]; simp)).2
          exact absurd (List.mem_map_of_mem hm) this
      rw [hold]
      simp only [List.filter_cons, isComplOf, decide_true, List.filter_nil]
      refine ⟨by simp, fun _ => ⟨hrange.2.2.1, hnotin⟩⟩
    · have : List.filter (isComplOf u) [Ev.onPublish mid, Ev.completed m.info mid,
          Ev.infoDone m.info rcSuccess] = [] := by
        simp [isComplOf, hu]
      rw [this, List.append_nil]
      refine ⟨(hi.once u).1, fun h => ?_⟩
      obtain ⟨h1, h2⟩ := (hi.once u).2 h
      exact ⟨h1, fun hin => h2 ((hsub.map _).subset hin)⟩
  · show CB (s.log ++ [Ev.onPublish mid, Ev.completed m.info mid,
      Ev.infoDone m.info rcSuccess])
    have : s.log ++ [Ev.onPublish mid, Ev.completed m.info mid,
        Ev.infoDone m.info rcSuccess] =
        (s.log ++ [Ev.onPublish mid, Ev.completed m.info mid]) ++
          [Ev.infoDone m.info rcSuccess] := by simp
    rw [this]
    exact (hi.cb.snoc_compl m.info mid).append (by intro e he; simp at he; subst he; rfl)

theorem Inv.ackStep {s s' : S} {mid : Nat} {m : OutMsg} (hi : Inv s)
    (hf : s.out.find? (·.mid = mid) = some m) (h : AckStep s mid m s') : Inv s' := by
  obtain ⟨g, hs, hc, -⟩ := h
  exact (hi.ack_state hf).same hs hc

theorem any_false_not_mem {l : List OutMsg} {mid : Nat} (h : l.any (·.mid = mid) = false) :
    mid ∉ l.map (·.mid) := by
  intro hin
  obtain ⟨m, hm, e⟩ := List.mem_map.mp hin
  have : l.any (·.mid = mid) = true := List.any_eq_true.mpr ⟨m, hm, by simp [e]⟩
  rw [h] at this; cases this

theorem Inv.pub {s s' : S} {qos : Nat} (hi : Inv s) (h : PubSpec s s' qos) : Inv s' := by
  obtain ⟨evs, hlog, hc⟩ := h.log
  have hne := evs_noCompl rfl hc
  have hmidr := c14_range _ hi.lastMid
  -- description of the new key list
  have hkeys : (s'.out.map (·.mid) = s.out.map (·.mid) ∧ s'.out.map (·.info) = s.out.map (·.info) ∧
        (∀ m' ∈ s'.out, ∃ m ∈ s.out, key m = key m')) ∨
      (qos ≠ 0 ∧ qos ≤ 2 ∧ midNext s.lastMid ∉ s.out.map (·.mid) ∧
        s'.out.map (·.mid) = s.out.map (·.mid) ++ [midNext s.lastMid] ∧
        s'.out.map (·.info) = s.out.map (·.info) ++ [s.infos.length] ∧
        (∀ m' ∈ s'.out, (∃ m ∈ s.out, key m = key m') ∨ key m' = (midNext s.lastMid, qos, s.infos.length))) := by
    rcases h.keys with hk | ⟨hq, hq2, hcol, hk⟩
    · left
      have h1 := congrArg (List.map (fun k : Nat × Nat × Nat => k.1)) hk
      have h2 := congrArg (List.map (fun k : Nat × Nat × Nat => k.2.2)) hk
      simp only [List.map_map, key, Function.comp_def] at h1 h2
      exact ⟨h1, h2, fun m' hm' => mem_of_keys_eq hk hm'⟩
    · right
      have h1 := congrArg (List.map (fun k : Nat × Nat × Nat => k.1)) hk
      have h2 := congrArg (List.map (fun k : Nat × Nat × Nat => k.2.2)) hk
      simp only [List.map_map, key, Function.comp_def, List.map_append, List.map_cons, List.map_nil] at h1 h2
      refine ⟨hq, hq2, any_false_not_mem hcol, h1, h2, ?_⟩
      intro m' hm'
      have : key m' ∈ s.out.map key ++ [(midNext s.lastMid, qos, s.infos.length)] :=
        hk ▸ List.mem_map_of_mem hm'
      rcases List.mem_append.mp this with h' | h'
      · obtain ⟨m, hm, e⟩ := List.mem_map.mp h'
        exact Or.inl ⟨m, hm, e⟩
      · exact Or.inr (List.mem_singleton.mp h')
  have hinfo_lt : ∀ i ∈ s.out.map (·.info), i < s.infos.length := by
    intro i hi'
    obtain ⟨m, hm, rfl⟩ := List.mem_map.mp hi'
    exact (hi.range m hm).2.2.1
  have hrange_old : ∀ m' : OutMsg, (∃ m ∈ s.out, key m = key m') →
      1 ≤ m'.mid ∧ m'.mid ≤ 65535 ∧ m'.info < s'.infos.length ∧ (m'.qos = 1 ∨ m'.qos = 2) := by
    rintro m' ⟨m, hm, e⟩
    simp only [key, Prod.mk.injEq] at e
    obtain ⟨e1, e2, e3⟩ := e
    have := hi.range m hm
    rw [h.infosLen, ← e1, ← e2, ← e3]
    exact ⟨this.1, this.2.1, by omega, this.2.2.2⟩
  have hinfos_sub : ∀ i, i ∈ s'.out.map (·.info) → i ∈ s.out.map (·.info) ∨ (qos ≠ 0 ∧ i = s.infos.length) := by
    intro i hi'
    rcases hkeys with ⟨-, h2, -⟩ | ⟨hq, -, -, -, h2, -⟩
    · rw [h2] at hi'; exact Or.inl hi'
    · rw [h2] at hi'
      rcases List.mem_append.mp hi' with h' | h'
      · exact Or.inl h'
      · exact Or.inr ⟨hq, List.mem_singleton.mp h'⟩
  refine ⟨?_, ?_, ?_, by rw [h.lastMid]; exact hmidr.2, ?_, ?_, by rw [hlog]; exact hi.cb.append hne⟩
  · rcases hkeys with ⟨h1, -, -⟩ | ⟨-, -, hcol, h1, -, -⟩
    · rw [h1]; exact hi.nodup
    · rw [h1, List.nodup_append]
      refine ⟨hi.nodup, by simp, ?_⟩
      intro a ha b hb
      simp only [List.mem_singleton] at hb
      subst hb
      rintro rfl
      exact hcol ha
  · rcases hkeys with ⟨-, h2, -⟩ | ⟨-, -, -, -, h2, -⟩
    · rw [h2]; exact hi.sorted
    · rw [h2, List.pairwise_append]
      refine ⟨hi.sorted, by simp, ?_⟩
      intro a ha b hb
      simp only [List.mem_singleton] at hb
      subst hb
      exact hinfo_lt a ha
  · intro m' hm'
    rcases hkeys with ⟨-, -, h3⟩ | ⟨hq, hq2, -, -, -, h3⟩
    · exact hrange_old m' (h3 m' hm')
    · rcases h3 m' hm' with h' | h'
      · exact hrange_old m' h'
      · simp only [key, Prod.mk.injEq] at h'
        obtain ⟨e1, e2, e3⟩ := h'
        rw [e1, e2, e3, h.infosLen]
        refine ⟨hmidr.1, hmidr.2, by omega, by omega⟩
  · apply h.pinv
    · refine ⟨?_, ?_⟩
      · intro i hP
        apply hi.pinv.1
        rw [h.infosLen] at hP
        rcases hP with hP | hP
        · exact Or.inl (by omega)
        · rcases hinfos_sub i hP with h' | ⟨-, h'⟩
          · exact Or.inr h'
          · exact Or.inl (by omega)
      · intro p hp hq i hpi hP
        refine hi.pinv.2 p hp hq i hpi ?_
        rw [h.infosLen] at hP
        rcases hP with hP | hP
        · exact Or.inl (by omega)
        · rcases hinfos_sub i hP with h' | ⟨-, h'⟩
          · exact Or.inr h'
          · exact Or.inl (by omega)
    · intro hq0 hP
      rw [h.infosLen] at hP
      rcases hP with hP | hP
      · omega
      · rcases hinfos_sub _ hP with h' | ⟨h', -⟩
        · exact absurd (hinfo_lt _ h') (by omega)
        · exact h' hq0
  · intro u
    rw [hlog, List.filter_append, filter_isComplOf_nil hne u, List.append_nil]
    refine ⟨(hi.once u).1, fun hh => ?_⟩
    obtain ⟨h1, h2⟩ := (hi.once u).2 hh
    rw [h.infosLen]
    refine ⟨by omega, fun hin => ?_⟩
    rcases hinfos_sub u hin with h' | ⟨-, h'⟩
    · exact h2 h'
    · omega

/-- case analysis of a step: publish / final acknowledgement of a stored message on an open socket / other -/
inductive StepCase (s : S) (op : Op) : Prop where
  | pubLow (q : Nat) (t p : Bytes) (r : Bool) (h : op = .publish q t p r) (hl : Low [] s (s.step op))
  | pub (q : Nat) (t p : Bytes) (r : Bool) (h : op = .publish q t p r) (hs : PubSpec s (s.step op) q)
  | ack (mid : Nat) (m : OutMsg) (c : Nat) (h : ackOp op = some mid) (hs : s.sock = some c)
      (hf : s.out.find? (·.mid = mid) = some m) (ha : AckStep s mid m (s.step op))
  | other (hnp : ∀ q t p r, op ≠ .publish q t p r)
      (hna : ∀ mid, ackOp op = some mid → s.sock = none ∨ s.out.find? (·.mid = mid) = none)
      (s0 : S) (hm : midStep s s0) (hq : SameQ s0 (s.step op))

theorem stepCase (s : S) (op : Op) : StepCase s op := by
  by_cases hp : ∃ q t p r, op = .publish q t p r
  · obtain ⟨q, t, p, r, rfl⟩ := hp
    rcases step_publish s q t p r with h | h
    · exact .pubLow q t p r rfl h
    · exact .pub q t p r rfl h
  · have hnp : ∀ q t p r, op ≠ .publish q t p r := fun q t p r h => hp ⟨q, t, p, r, h⟩
    have other : (∀ mid, ackOp op = some mid → s.sock = none ∨ s.out.find? (·.mid = mid) = none) →
        StepCase s op := by
      intro hna
      obtain ⟨s0, hm, hq⟩ := step_other s op hnp hna
      exact .other hnp hna s0 hm hq
    cases hack : ackOp op with
    | none => exact other (by intro mid h; rw [hack] at h; cases h)
    | some mid =>
      cases hs : s.sock with
      | none => exact other (fun _ _ => Or.inl hs)
      | some c =>
        cases hf : s.out.find? (·.mid = mid) with
        | none =>
          exact other (by intro mid' h; rw [hack] at h; cases h; exact Or.inr hf)
        | some m => exact .ack mid m c hack hs hf (step_ack s op mid m c hack hs hf)

theorem Inv.step {s : S} (hi : Inv s) (op : Op) : Inv (s.step op) := by
  cases stepCase s op with
  | pubLow q t p r h hl => exact hi.same hl.same NoCompl.nil
  | pub q t p r h hs => exact hi.pub hs
  | ack mid m c h hs hf ha => exact hi.ackStep hf ha
  | other hnp hna s0 hm hq =>
    obtain ⟨g, hsame, hc, -⟩ := hq
    exact (hi.mid_step hm).same hsame hc

theorem Inv.run {s : S} (hi : Inv s) (ops : List Op) : Inv (s.run ops) := by
  induction ops generalizing s with
  | nil => exact hi
  | cons op ops ih => exact ih (hi.step op)

theorem Inv.reach (cfg : Cfg) (proto : Nat) (ops : List Op) : Inv (runFrom cfg proto ops) :=
  (Inv.init cfg proto t0).run ops


theorem eraseDups_of_nodup : ∀ (l : List Nat), l.Nodup → l.eraseDups = l := by
  intro l
  induction l with
  | nil => intro _; simp
  | cons a as ih =>
    intro hn
    rw [List.nodup_cons] at hn
    rw [List.eraseDups_cons]
    have : as.filter (fun b => !b == a) = as := by
      rw [List.filter_eq_self]
      intro b hb
      have : b ≠ a := fun h => hn.1 (h ▸ hb)
      simp [this]
    rw [this, ih hn.2]

theorem sortedLt_of_pairwise : ∀ (l : List Nat), l.Pairwise (· < ·) → S.sortedLt l = true := by
  intro l
  induction l with
  | nil => intro _; rfl
  | cons a as ih =>
    intro h
    cases as with
    | nil => rfl
    | cons b rest =>
      rw [List.pairwise_cons] at h
      simp only [S.sortedLt, Bool.and_eq_true, decide_eq_true_eq]
      exact ⟨h.1 b (by simp), ih h.2⟩

theorem Inv.invMidNodup {s : S} (hi : Inv s) : s.invMidNodup = true := by
  simp only [S.invMidNodup]
  rw [eraseDups_of_nodup _ hi.nodup]
  simp

theorem Inv.invOutSorted {s : S} (hi : Inv s) : s.invOutSorted = true :=
  sortedLt_of_pairwise _ hi.sorted

theorem Inv.invMidRange {s : S} (hi : Inv s) : s.invMidRange = true := by
  simp only [S.invMidRange, Bool.and_eq_true, decide_eq_true_eq, List.all_eq_true, Bool.or_eq_true, beq_iff_eq]
  refine ⟨hi.lastMid, ?_⟩
  intro m hm
  have := hi.range m hm
  exact ⟨⟨⟨this.1, this.2.1⟩, this.2.2.1⟩, this.2.2.2⟩

theorem newEvents_of_log {s : S} {op : Op} {evs : List Ev} (h : (s.step op).log = s.log ++ evs) :
    newEvents s op = evs := by
  simp [newEvents, h]

theorem uidsOf_filter_ghost (evs : List Ev) : uidsOf (evs.filter isGhost) = uidsOf evs := by
  induction evs with
  | nil => rfl
  | cons e es ih =>
    have hcons : ∀ (e : Ev) (es : List Ev), uidsOf (e :: es) = uidsOf [e] ++ uidsOf es :=
      fun e es => uidsOf_append [e] es
    by_cases hg : isGhost e = true
    · rw [List.filter_cons_of_pos hg, hcons, ih, ← hcons]
    · rw [List.filter_cons_of_neg hg, ih, hcons e es]
      have : uidsOf [e] = [] := by cases e <;> first | rfl | exact absurd rfl hg
      rw [this]; rfl

theorem key_mem_transfer {l l' : List OutMsg} (h : l'.map key = l.map key) {m : OutMsg} (hm : m ∈ l) :
    ∃ m' ∈ l', m'.info = m.info ∧ m'.mid = m.mid ∧ m'.qos = m.qos := by
  obtain ⟨m', hm', e⟩ := mem_of_keys_eq h.symm hm
  simp only [key, Prod.mk.injEq] at e
  exact ⟨m', hm', e.2.2, e.1, e.2.1⟩

theorem midStep_out {s s0 : S} (h : midStep s s0) : s0.out = s.out := by
  rcases h with rfl | rfl <;> rfl

theorem midStep_log {s s0 : S} (h : midStep s s0) : s0.log = s.log := by
  rcases h with rfl | rfl <;> rfl

theorem midStep_infos {s s0 : S} (h : midStep s s0) : s0.infos = s.infos := by
  rcases h with rfl | rfl <;> rfl

theorem find_none_of_mem {l : List OutMsg} {m : OutMsg} (hm : m ∈ l) :
    l.find? (·.mid = m.mid) ≠ none := by
  intro h
  rw [List.find?_eq_none] at h
  exact h m hm (by simp)

end Paho.OutLemmas
