/-
Byte-level lemmas for the WebSocket framing proofs (C05Ws / C06Ws): big-endian packing, the masking
involution, the bit tests of the header bytes. Core Lean only.
-/
import Paho.Model.Ws
namespace Paho.Ws
open Paho

theorem b8_toNat {n : Nat} (h : n < 256) : (b8 n).toNat = n := by
  simp [b8]; omega

/-! ### header bit tests -/

set_option maxRecDepth 100000 in
theorem and128_fin : ∀ b : Fin 256, ((b.val &&& 0x80) == 0x80) = decide (b.val ≥ 128) := by decide

theorem maskbit_eq (b : UInt8) : ((b.toNat &&& 0x80) == 0x80) = decide (b.toNat ≥ 128) := by
  have := and128_fin ⟨b.toNat, by have := b.toNat_lt; omega⟩
  simpa using this

theorem and15_eq (x : Nat) : x &&& 0x0f = x % 16 := Nat.and_two_pow_sub_one_eq_mod x 4

theorem and127_eq (x : Nat) : x &&& 0x7f = x % 128 := Nat.and_two_pow_sub_one_eq_mod x 7

theorem or128_fin : ∀ l : Fin 128, 128 ||| l.val = 128 + l.val := by decide

theorem or128_eq {l : Nat} (h : l < 128) : 128 ||| l = 128 + l := or128_fin ⟨l, h⟩

/-! ### big-endian -/

theorem beBytes_length (k n : Nat) : (beBytes k n).length = k := by
  induction k generalizing n with
  | zero => rfl
  | succ k ih => simp [beBytes, ih]

theorem beNat_append_single (l : Bytes) (x : UInt8) : beNat (l ++ [x]) = beNat l * 256 + x.toNat := by
  simp [beNat, List.foldl_append]

theorem beNat_beBytes (k n : Nat) : beNat (beBytes k n) = n % 256 ^ k := by
  induction k generalizing n with
  | zero => simp [beBytes, beNat, Nat.mod_one]
  | succ k ih =>
    rw [beBytes, beNat_append_single, ih, b8_toNat (Nat.mod_lt _ (by decide))]
    rw [Nat.pow_succ, Nat.mul_comm (256 ^ k) 256, Nat.mod_mul, Nat.mul_comm, Nat.add_comm]

theorem beNat_beBytes_of_lt {k n : Nat} (h : n < 256 ^ k) : beNat (beBytes k n) = n := by
  rw [beNat_beBytes, Nat.mod_eq_of_lt h]

/-! ### masking -/

@[simp] theorem xorRange_length (key : Bytes) (lo hi : Nat) (p : Bytes) : (xorRange key lo hi p).length = p.length := by
  simp [xorRange]

theorem xorRange_getElem (key : Bytes) (lo hi : Nat) (p : Bytes) (i : Nat) (h : i < (xorRange key lo hi p).length) :
    (xorRange key lo hi p)[i] =
      if lo ≤ i ∧ i < hi then p[i]'(by simpa using h) ^^^ key.getD (i % 4) 0 else p[i]'(by simpa using h) := by
  simp [xorRange]

theorem xor_cancel (a b : UInt8) : (a ^^^ b) ^^^ b = a := by
  rw [UInt8.xor_assoc, UInt8.xor_self, UInt8.xor_zero]

/-- masking is an involution -/
theorem xorRange_xorRange (key : Bytes) (lo hi : Nat) (p : Bytes) :
    xorRange key lo hi (xorRange key lo hi p) = p := by
  apply List.ext_getElem (by simp)
  intro i h1 h2
  rw [xorRange_getElem]
  by_cases hc : lo ≤ i ∧ i < hi
  · rw [if_pos hc, xorRange_getElem, if_pos hc, xor_cancel]
  · rw [if_neg hc, xorRange_getElem, if_neg hc]

theorem xorRange_nil (key : Bytes) (lo hi : Nat) : xorRange key lo hi [] = [] := rfl

end Paho.Ws
