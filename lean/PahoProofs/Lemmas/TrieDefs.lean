/-
Proof-side vocabulary for the trie: the association list a trie denotes, and its
well-formedness invariants. (Mutual structural recursion over the nested inductive.)
-/
import Paho.Model.Trie
import Paho.Spec.Topic
namespace Paho
namespace Node
variable {V : Type}

mutual
/-- stored (filter levels, value) pairs, pre-order, each path prefixed with `pfx` -/
def toListN (pfx : List Level) : Node V → List (List Level × V)
  | mk c ch => (match c with | some v => [(pfx, v)] | none => []) ++ toListL pfx ch
def toListL (pfx : List Level) : List (Level × Node V) → List (List Level × V)
  | [] => []
  | (k, n) :: rest => toListN (pfx ++ [k]) n ++ toListL pfx rest
end

/-- the dictionary denoted by the trie -/
def toList (t : Node V) : List (List Level × V) := toListN [] t

mutual
/-- child keys are pairwise distinct at every node (Python dict keys) -/
def WFN : Node V → Prop
  | mk _ ch => (ch.map (·.1)).Nodup ∧ WFL ch
def WFL : List (Level × Node V) → Prop
  | [] => True
  | (_, n) :: rest => WFN n ∧ WFL rest
end

mutual
/-- no content-free leaf below the root: what `__delitem__`'s clean-up maintains -/
def PrunedN : Node V → Prop
  | mk _ ch => PrunedL ch
def PrunedL : List (Level × Node V) → Prop
  | [] => True
  | (_, n) :: rest => isDead n = false ∧ PrunedN n ∧ PrunedL rest
end

end Node
end Paho
