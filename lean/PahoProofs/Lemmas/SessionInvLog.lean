/-
Log invariants of the session model (`InvL`), preserved by every atomic action of `SessionAct.lean`
(given the state invariants `InvS`): C06 stream equation, tx-prefix-of-queued for closed connections,
no tx after close, allocated connection numbers.
-/
import PahoProofs.Lemmas.SessionAct

namespace Paho
namespace SessAct

theorem txOf_cons (c : Nat) (e : Ev) (l : List Ev) : txOf c (e :: l) = txOf c [e] ++ txOf c l := by
  cases e <;> simp [txOf]
  split <;> simp

theorem queuedOf_cons (c : Nat) (e : Ev) (l : List Ev) :
    queuedOf c (e :: l) = queuedOf c [e] ++ queuedOf c l := by
  cases e <;> simp [queuedOf]
  split <;> simp

theorem txOf_append (c : Nat) (l1 l2 : List Ev) : txOf c (l1 ++ l2) = txOf c l1 ++ txOf c l2 := by
  induction l1 with
  | nil => simp [txOf]
  | cons e l ih => rw [List.cons_append, txOf_cons, ih, txOf_cons c e l, List.append_assoc]

theorem queuedOf_append (c : Nat) (l1 l2 : List Ev) :
    queuedOf c (l1 ++ l2) = queuedOf c l1 ++ queuedOf c l2 := by
  induction l1 with
  | nil => simp [queuedOf]
  | cons e l ih => rw [List.cons_append, queuedOf_cons, ih, queuedOf_cons c e l, List.append_assoc]

/-- not a `tx` event -/
def noTx : Ev → Bool
  | .tx _ _ => false
  | _ => true

def noQ : Ev → Bool
  | .queued _ _ => false
  | _ => true

def noClose : Ev → Bool
  | .sclose _ _ => false
  | _ => true

theorem txOf_eq_nil (c : Nat) (l : List Ev) (h : ∀ e ∈ l, noTx e = true ∨ evConn e ≠ c) : txOf c l = [] := by
  induction l with
  | nil => rfl
  | cons e l ih =>
    rw [txOf_cons, ih (fun e he => h e (List.mem_cons_of_mem _ he))]
    have := h e (List.mem_cons_self)
    cases e <;> simp_all [txOf, noTx, evConn]

theorem queuedOf_eq_nil (c : Nat) (l : List Ev) (h : ∀ e ∈ l, noQ e = true ∨ evConn e ≠ c) :
    queuedOf c l = [] := by
  induction l with
  | nil => rfl
  | cons e l ih =>
    rw [queuedOf_cons, ih (fun e he => h e (List.mem_cons_of_mem _ he))]
    have := h e (List.mem_cons_self)
    cases e <;> simp_all [queuedOf, noQ, evConn]

theorem pendingBytes_append (q1 q2 : List OutPkt) :
    pendingBytes (q1 ++ q2) = pendingBytes q1 ++ pendingBytes q2 := by
  simp [pendingBytes]

theorem pendingBytes_cons (p : OutPkt) (q : List OutPkt) :
    pendingBytes (p :: q) = p.bytes.drop p.pos ++ pendingBytes q := by
  simp [pendingBytes]


structure InvL (v : View) : Prop where
  /-- every connection number in the log has been allocated -/
  evle : ∀ e ∈ v.log, evConn e ≤ v.nconn
  /-- C06: accepted bytes ++ pending bytes = queued bytes, for the open connection -/
  stream : ∀ c, v.sock = some c → txOf c v.log ++ pendingBytes v.outq = queuedOf c v.log
  /-- a closed connection is never the current one again -/
  closed : ∀ c r, Ev.sclose c r ∈ v.log → v.sock ≠ some c
  /-- no tx on c after a close of c -/
  pair : v.log.Pairwise (fun e1 e2 => ∀ c r b, e1 = Ev.sclose c r → e2 ≠ Ev.tx c b)
  /-- for connections other than the open one, tx is a prefix of queued -/
  pref : ∀ c, v.sock ≠ some c → txOf c v.log <+: queuedOf c v.log

/-- pairwise relation of `InvL.pair` survives appending events that are not `tx` -/
theorem pair_append_noTx {l evs : List Ev}
    (h : l.Pairwise (fun e1 e2 => ∀ c r b, e1 = Ev.sclose c r → e2 ≠ Ev.tx c b))
    (he : ∀ e ∈ evs, noTx e = true) :
    (l ++ evs).Pairwise (fun e1 e2 => ∀ c r b, e1 = Ev.sclose c r → e2 ≠ Ev.tx c b) := by
  rw [List.pairwise_append]
  refine ⟨h, ?_, ?_⟩
  · rw [List.pairwise_iff_forall_sublist]
    intro a b hab c r b' _ hb
    have : b ∈ evs := by
      have := hab.subset; simp at this; exact this.2
    have := he b this
    subst hb; simp [noTx] at this
  · intro a _ b hb c r b' _ hb'
    have := he b hb
    subst hb'; simp [noTx] at this

/-- events that are neither tx, queued nor sclose are appended; socket and queue unchanged -/
theorem InvL.quiet {v v' : View} (hi : InvL v) (evs : List Ev)
    (hs : v'.sock = v.sock) (hq : v'.outq = v.outq) (hn : v'.nconn = v.nconn)
    (hl : v'.log = v.log ++ evs)
    (he : ∀ e ∈ evs, noTx e = true ∧ noQ e = true ∧ noClose e = true ∧ evConn e ≤ v.nconn) : InvL v' := by
  have htx : ∀ c, txOf c v'.log = txOf c v.log := by
    intro c; rw [hl, txOf_append, txOf_eq_nil c evs (fun e h => Or.inl (he e h).1), List.append_nil]
  have hqu : ∀ c, queuedOf c v'.log = queuedOf c v.log := by
    intro c; rw [hl, queuedOf_append, queuedOf_eq_nil c evs (fun e h => Or.inl (he e h).2.1), List.append_nil]
  constructor
  · intro e h
    rw [hl, List.mem_append] at h
    rw [hn]
    rcases h with h | h
    · exact hi.evle e h
    · exact (he e h).2.2.2
  · intro c h
    rw [htx, hqu, hq]; exact hi.stream c (hs ▸ h)
  · intro c r h
    rw [hl, List.mem_append] at h
    rw [hs]
    rcases h with h | h
    · exact hi.closed c r h
    · have := (he _ h).2.2.1; simp [noClose] at this
  · rw [hl]; exact pair_append_noTx hi.pair (fun e h => (he e h).1)
  · intro c h
    rw [htx, hqu]; exact hi.pref c (hs ▸ h)

/-- the open connection `c` is closed: appended events are neither tx nor queued -/
theorem InvL.close {v v' : View} (hi : InvL v) (c : Nat) (evs : List Ev)
    (hc : v.sock = some c) (hs : v'.sock = none) (hn : v'.nconn = v.nconn)
    (hl : v'.log = v.log ++ evs)
    (he : ∀ e ∈ evs, noTx e = true ∧ noQ e = true ∧ evConn e ≤ v.nconn) : InvL v' := by
  have htx : ∀ c, txOf c v'.log = txOf c v.log := by
    intro c; rw [hl, txOf_append, txOf_eq_nil c evs (fun e h => Or.inl (he e h).1), List.append_nil]
  have hqu : ∀ c, queuedOf c v'.log = queuedOf c v.log := by
    intro c; rw [hl, queuedOf_append, queuedOf_eq_nil c evs (fun e h => Or.inl (he e h).2.1), List.append_nil]
  constructor
  · intro e h
    rw [hl, List.mem_append] at h
    rw [hn]
    rcases h with h | h
    · exact hi.evle e h
    · exact (he e h).2.2
  · intro c h; rw [hs] at h; cases h
  · intro c r _; rw [hs]; simp
  · rw [hl]; exact pair_append_noTx hi.pair (fun e h => (he e h).1)
  · intro c' _
    rw [htx, hqu]
    by_cases h : c' = c
    · subst h; rw [← hi.stream c' hc]; exact List.prefix_append _ _
    · exact hi.pref c' (by rw [hc]; simpa using fun h' => h h'.symm)


theorem neutral_inert {e : Ev} (h : neutral e = true) :
    noTx e = true ∧ noQ e = true ∧ noClose e = true ∧ evConn e = 0 := by
  cases e <;> simp_all [neutral, noTx, noQ, noClose, evConn]

theorem invL_vEmit {v : View} (hi : InvL v) (evs : List Ev) (h : ∀ e ∈ evs, neutral e = true) :
    InvL (vEmit v evs) :=
  hi.quiet evs rfl rfl rfl rfl (fun e he => by
    have := neutral_inert (h e he)
    exact ⟨this.1, this.2.1, this.2.2.1, by omega⟩)

theorem invL_vRegW {v : View} (hs : InvS v) (hi : InvL v) : InvL (vRegW v) := by
  unfold vRegW
  split
  · exact hi
  · rename_i c hc
    split
    · exact hi
    · refine hi.quiet (if v.ext then [Ev.skRegW c] else []) rfl rfl rfl rfl ?_
      intro e he
      have := hs.nconn c hc
      split at he <;> simp at he
      subst he; simp [noTx, noQ, noClose, evConn, this]

theorem invL_vUnregW {v : View} (hs : InvS v) (hi : InvL v) : InvL (vUnregW v) := by
  unfold vUnregW
  split
  · exact hi
  · rename_i c hc
    split
    · refine hi.quiet (if v.ext then [Ev.skUnregW c] else []) rfl rfl rfl rfl ?_
      intro e he
      have := hs.nconn c hc
      split at he <;> simp at he
      subst he; simp [noTx, noQ, noClose, evConn, this]
    · exact hi

theorem invL_vSockClose {v : View} (hn : ∀ c, v.sock = some c → c ≤ v.nconn) (hi : InvL v) (r : Bool) :
    InvL (vSockClose v r) := by
  unfold vSockClose
  split
  · exact hi
  · rename_i c hc
    refine hi.close c (closeEvs v c r) hc rfl rfl rfl ?_
    intro e he
    have := hn c hc
    simp only [closeEvs, List.mem_append] at he
    rcases he with (he | he) | he
    · split at he <;> simp at he
      subst he; simp [noTx, noQ, evConn, this]
    · split at he <;> simp at he
      subst he; split <;> simp [noTx, noQ, evConn, this]
    · simp at he; subst he; simp [noTx, noQ, evConn, this]


/-- only the queue changes while no socket is open -/
theorem InvL.noSock {v v' : View} (hi : InvL v) (hs : v.sock = none) (hs' : v'.sock = none)
    (hn : v'.nconn = v.nconn) (hl : v'.log = v.log) : InvL v' := by
  constructor
  · rw [hl, hn]; exact hi.evle
  · intro c h; rw [hs'] at h; cases h
  · intro c r _; rw [hs']; simp
  · rw [hl]; exact hi.pair
  · intro c _; rw [hl]; exact hi.pref c (by rw [hs]; simp)

theorem invL_vEnq {v : View} (hs : InvS v) (hi : InvL v) (pkt : OutPkt) (hp : pkt.pos = 0) :
    InvL (vEnq v pkt) := by
  cases hc : v.sock with
  | none => exact hi.noSock hc hc rfl (by simp [vEnq, hc])
  | some c =>
    have hle := hs.nconn c hc
    have hl : (vEnq v pkt).log = v.log ++ [Ev.queued c pkt.bytes] := by simp [vEnq, hc]
    have htx : ∀ c', txOf c' (vEnq v pkt).log = txOf c' v.log := by
      intro c'; rw [hl, txOf_append]; simp [txOf]
    constructor
    · intro e h
      rw [hl, List.mem_append] at h
      rcases h with h | h
      · exact hi.evle e h
      · simp at h; subst h; simpa [evConn, vEnq] using hle
    · intro c' h
      have h' : v.sock = some c' := h
      have : c' = c := by rw [hc] at h'; cases h'; rfl
      subst this
      rw [htx, hl, queuedOf_append, ← hi.stream c' hc]
      simp [vEnq, pendingBytes, queuedOf, hp]
    · intro c' r h
      rw [hl, List.mem_append] at h
      rcases h with h | h
      · exact hi.closed c' r h
      · simp at h
    · rw [hl]; exact pair_append_noTx hi.pair (by simp [noTx])
    · intro c' h
      have h' : v.sock ≠ some c' := h
      have hne : c ≠ c' := by rw [hc] at h'; simpa using h'
      rw [htx, hl, queuedOf_append]
      simpa [queuedOf, hne] using hi.pref c' h'

theorem invL_vWrite {v : View} (hs : InvS v) (hi : InvL v) (pkt : OutPkt) (rest : List OutPkt) (k : Nat)
    (hq : v.outq = pkt :: rest) (hk : pkt.pos + k ≤ pkt.bytes.length) :
    InvL (vWrite v pkt rest k) := by
  cases hc : v.sock with
  | none => exact hi.noSock hc hc rfl (by simp [vWrite, hc])
  | some c =>
    have hle := hs.nconn c hc
    have hl : (vWrite v pkt rest k).log = v.log ++ [Ev.tx c ((pkt.bytes.drop pkt.pos).take k)] := by
      simp [vWrite, hc]
    have hqu : ∀ c', queuedOf c' (vWrite v pkt rest k).log = queuedOf c' v.log := by
      intro c'; rw [hl, queuedOf_append]; simp [queuedOf]
    constructor
    · intro e h
      rw [hl, List.mem_append] at h
      rcases h with h | h
      · exact hi.evle e h
      · simp at h; subst h; simpa [evConn, vWrite] using hle
    · intro c' h
      have h' : v.sock = some c' := h
      have : c' = c := by rw [hc] at h'; cases h'; rfl
      subst this
      rw [hqu, hl, txOf_append, ← hi.stream c' hc, hq, pendingBytes_cons]
      simp only [vWrite, txOf, if_true, List.append_nil, List.append_assoc, List.append_cancel_left_eq]
      split
      · rename_i heq
        rw [List.take_of_length_le (by have := hk; simp; omega)]
      · have hd : List.drop (pkt.pos + k) pkt.bytes = List.drop k (List.drop pkt.pos pkt.bytes) := by
          rw [List.drop_drop]
        rw [pendingBytes_cons]
        simp only []
        rw [hd, ← List.append_assoc, List.take_append_drop]
    · intro c' r h
      rw [hl, List.mem_append] at h
      rcases h with h | h
      · exact hi.closed c' r h
      · simp at h
    · rw [hl, List.pairwise_append]
      refine ⟨hi.pair, by simp, ?_⟩
      intro a ha b hb c' r b' hsc htx
      simp at hb; subst hb; subst hsc
      cases htx
      exact hi.closed c r ha hc
    · intro c' h
      have h' : v.sock ≠ some c' := h
      have hne : c ≠ c' := by rw [hc] at h'; simpa using h'
      rw [hqu, hl, txOf_append]
      simpa [txOf, hne] using hi.pref c' h'


/-- a new connection `v.nconn + 1` is opened -/
theorem InvL.open {v v' : View} (hi : InvL v) (evs : List Ev) (hs : v.sock = none)
    (hs' : v'.sock = some (v.nconn + 1)) (hn : v'.nconn = v.nconn + 1) (hl : v'.log = v.log ++ evs)
    (hev : ∀ e ∈ evs, noTx e = true ∧ noClose e = true ∧ evConn e ≤ v.nconn + 1 ∧
      (noQ e = true ∨ evConn e = v.nconn + 1))
    (hpend : pendingBytes v'.outq = queuedOf (v.nconn + 1) evs) : InvL v' := by
  have htx : ∀ c, txOf c v'.log = txOf c v.log := by
    intro c; rw [hl, txOf_append, txOf_eq_nil c evs (fun e h => Or.inl (hev e h).1), List.append_nil]
  have hold : ∀ e ∈ v.log, evConn e ≠ v.nconn + 1 := fun e he => by have := hi.evle e he; omega
  constructor
  · intro e h
    rw [hl, List.mem_append] at h
    rw [hn]
    rcases h with h | h
    · have := hi.evle e h; omega
    · exact (hev e h).2.2.1
  · intro c h
    have : c = v.nconn + 1 := by rw [hs'] at h; cases h; rfl
    subst this
    rw [htx, txOf_eq_nil _ v.log (fun e he => Or.inr (hold e he)), hl, queuedOf_append,
      queuedOf_eq_nil _ v.log (fun e he => Or.inr (hold e he)), hpend]
  · intro c r h
    rw [hl, List.mem_append] at h
    rw [hs']
    rcases h with h | h
    · have := hi.evle _ h
      simp [evConn] at this
      simp; omega
    · have := (hev _ h).2.1; simp [noClose] at this
  · rw [hl]; exact pair_append_noTx hi.pair (fun e h => (hev e h).1)
  · intro c h
    have hne : c ≠ v.nconn + 1 := by rw [hs'] at h; simpa [eq_comm] using h
    rw [htx, hl, queuedOf_append, queuedOf_eq_nil c evs (fun e he => by
      rcases (hev e he).2.2.2 with h | h
      · exact Or.inl h
      · exact Or.inr (by omega)), List.append_nil]
    exact hi.pref c (by rw [hs]; simp)

theorem queuedOf_open_prefix (c : Nat) (ext inCb : Bool) (l : List Ev) :
    queuedOf c ([Ev.sopen c] ++ (if ext then [if inCb then Ev.deadlock "_in_callback_mutex" else Ev.skOpen c] else [])
      ++ l) = queuedOf c l := by
  cases ext <;> cases inCb <;> simp [queuedOf]

theorem invL_vOpen_aux {v : View} (hi : InvL v) (pkt : Option OutPkt) (last : Ev) (hs : v.sock = none)
    (hlog : (vOpen v pkt).log = v.log ++ ([Ev.sopen (v.nconn + 1)]
      ++ (if v.ext then [if v.inCb then Ev.deadlock "_in_callback_mutex" else Ev.skOpen (v.nconn + 1)] else [])
      ++ [last]))
    (hlast : noTx last = true ∧ noClose last = true ∧ evConn last ≤ v.nconn + 1 ∧
      (noQ last = true ∨ evConn last = v.nconn + 1))
    (hpend : pendingBytes pkt.toList = queuedOf (v.nconn + 1) [last]) : InvL (vOpen v pkt) := by
  refine hi.open _ hs rfl rfl hlog ?_ ?_
  · intro e he
    simp only [List.mem_append] at he
    rcases he with (he | he) | he
    · simp at he; subst he; simp [noTx, noQ, noClose, evConn]
    · split at he <;> simp at he
      subst he; split <;> simp [noTx, noQ, noClose, evConn]
    · simp at he; subst he; exact hlast
  · rw [queuedOf_open_prefix]; exact hpend

theorem invL_vOpen {v : View} (hi : InvL v) (pkt : Option OutPkt) (hs : v.sock = none)
    (hp : ∀ p, pkt = some p → p.pos = 0) : InvL (vOpen v pkt) := by
  cases pkt with
  | none =>
    exact invL_vOpen_aux hi none (Ev.exc "encode") hs (by simp [vOpen])
      (by simp [noTx, noQ, noClose, evConn]) (by simp [pendingBytes, queuedOf])
  | some p =>
    exact invL_vOpen_aux hi (some p) (Ev.queued (v.nconn + 1) p.bytes) hs (by simp [vOpen])
      (by simp [noTx, noQ, noClose, evConn]) (by simp [pendingBytes, queuedOf, hp p rfl])


theorem onDisconnect_inert (n : Nat) (b : Bool) (m : Nat) :
    ∀ e ∈ [Ev.onDisconnect n b], noTx e = true ∧ noQ e = true ∧ noClose e = true ∧ evConn e ≤ m := by
  intro e he; simp at he; subst he; simp [noTx, noQ, noClose, evConn]

theorem invL_vCloseLost {v : View} (hs : InvS v) (hi : InvL v) (n : Nat) : InvL (vCloseLost v n) :=
  (invL_vSockClose hs.nconn hi false).quiet [Ev.onDisconnect (if dOD v then 0 else n) false] rfl rfl rfl rfl
    (onDisconnect_inert _ _ _)

theorem invL_vCloseBroker {v : View} (hs : InvS v) (hi : InvL v) (n : Nat) : InvL (vCloseBroker v n) :=
  (invL_vSockClose hs.nconn hi false).quiet [Ev.onDisconnect n true] rfl rfl rfl rfl
    (onDisconnect_inert _ _ _)

theorem invL_vWriteDisc {v : View} (hs : InvS v) (hi : InvL v) (pkt : OutPkt) (rest : List OutPkt) (k : Nat)
    (hq : v.outq = pkt :: rest) (hk : pkt.pos + k ≤ pkt.bytes.length) : InvL (vWriteDisc v pkt rest k) :=
  (invL_vSockClose (v := vWrite v pkt rest k) (fun c h => hs.nconn c h) (invL_vWrite hs hi pkt rest k hq hk)
    false).quiet [Ev.onDisconnect 0 false] rfl rfl rfl rfl (onDisconnect_inert _ _ _)

theorem invL_vCloseReplace {v : View} (hs : InvS v) (hi : InvL v) (x : ConnState) :
    InvL (vCloseReplace v x) :=
  invL_vSockClose (v := { v with cstate := x }) (fun c h => hs.nconn c h)
    (hi.quiet [] rfl rfl rfl (by simp) (by simp)) true

/-- the log invariants are preserved by every atomic action -/
theorem Act.invL {k : Kind} {v v' : View} (h : Act k v v') (hs : InvS v) (hi : InvL v) : InvL v' := by
  cases h with
  | emit _ evs hn => exact invL_vEmit hi evs hn
  | regW _ => exact invL_vRegW hs hi
  | unregW _ => exact invL_vUnregW hs hi
  | enq _ pkt hf _ => exact invL_vEnq hs hi pkt hf.1
  | write _ pkt rest k hq _ hk => exact invL_vWrite hs hi pkt rest k hq hk
  | setNoSock _ x _ _ => exact hi.quiet [] rfl rfl rfl (by simp) (by simp)
  | connack _ _ => exact hi.quiet [] rfl rfl rfl (by simp) (by simp)
  | writeDisc _ pkt rest k _ hq _ hk _ => exact invL_vWriteDisc hs hi pkt rest k hq (Nat.le_of_eq hk)
  | closeLost _ n _ _ => exact invL_vCloseLost hs hi n
  | closeBroker _ n _ => exact invL_vCloseBroker hs hi n
  | closeReplace _ x _ => exact invL_vCloseReplace hs hi x
  | clearQ _ hn => exact hi.noSock hn hn rfl rfl
  | openConnect _ pkt hn _ _ hp => exact invL_vOpen hi (some pkt) hn (fun p h => by cases h; exact hp.1)
  | openNoConnect _ hn _ _ _ => exact invL_vOpen hi none hn (fun p h => by cases h)
  | setDisc _ _ => exact hi.quiet [] rfl rfl rfl (by simp) (by simp)

theorem invL_init (cfg : Cfg) (proto : Nat) (t : Nat) : InvL (view (S.init cfg proto t)) := by
  constructor <;> simp [S.init, txOf, queuedOf]

/-- `InvL` along a path of actions (given the state invariants along it) -/
theorem Path.invL {P : Kind → Bool} {v v' : View} (h : Path P v v')
    (hS : ∀ {k a b}, Act k a b → InvS a → InvS b) (hs : InvS v) (hi : InvL v) : InvL v' := by
  induction h with
  | refl _ => exact hi
  | cons ha _ _ ih => exact ih (hS ha hs) (ha.invL hs hi)

/-! ### consequences -/

theorem invL_stream {s : S} (h : InvL (view s)) : invStream s = true := by
  unfold invStream
  split
  · rfl
  · rename_i c hc
    have := h.stream c hc
    simpa [pendingBytes] using this

theorem invL_prefix {v : View} (h : InvL v) (c : Nat) : txOf c v.log <+: queuedOf c v.log := by
  by_cases hc : v.sock = some c
  · rw [← h.stream c hc]; exact List.prefix_append _ _
  · exact h.pref c hc

theorem invL_no_tx_after_close {v : View} (h : InvL v) (c i j : Nat) (b : Bytes) (r : Bool) :
    v.log[i]? = some (Ev.sclose c r) → v.log[j]? = some (Ev.tx c b) → j < i := by
  intro h1 h2
  rcases List.getElem?_eq_some_iff.mp h1 with ⟨hi', e1⟩
  rcases List.getElem?_eq_some_iff.mp h2 with ⟨hj', e2⟩
  rcases Nat.lt_trichotomy j i with hlt | heq | hgt
  · exact hlt
  · subst heq; rw [e1] at e2; cases e2
  · exact absurd e2 ((List.pairwise_iff_getElem.mp h.pair) i j hi' hj' hgt c r b e1)

end SessAct
end Paho
