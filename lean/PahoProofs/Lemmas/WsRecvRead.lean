/-
The read chain of one `_recv_impl` call against a known frame: `readHeader` recovers the header fields of the frame
at the front of the byte stream (or stops short of the header), `readPayload` delivers the right payload slice.
-/
import PahoProofs.Lemmas.WsRecvDefs
namespace Paho.Ws
open Paho

theorem slice_of_prefix {S E : Bytes} {h n : Nat} (hp : S <+: E) (hle : h + n ≤ S.length) :
    (S.drop h).take n = (E.drop h).take n := by
  obtain ⟨t, rfl⟩ := hp
  exact (slice_append hle).symm

theorem Ok.stream_len {c c' : Cur} (h : Ok c c') : c'.head ≤ c.stream.length := by
  have h1 := h.headLe
  have h2 : c'.buf.length ≤ c'.stream.length := by simp [Cur.stream]
  rw [h.stream] at h2
  omega

/-! ### slices of an encoded frame -/

theorem drop_two_add {α : Type} (a b : α) (l : List α) (n : Nat) : (a :: b :: l).drop (2 + n) = l.drop n := by
  rw [Nat.add_comm]; rfl

variable (f : Frame) (R : Bytes)

theorem enc_slice0 : ((f.enc ++ R).drop 0).take 1 = [f.b0] := by simp [Frame.enc]

theorem enc_slice1 : ((f.enc ++ R).drop 1).take 1 = [f.b1] := by simp [Frame.enc]

theorem enc_slice_ext : ((f.enc ++ R).drop 2).take f.ext.length = f.ext := by
  simp [Frame.enc]

theorem enc_slice_key : ((f.enc ++ R).drop (2 + f.ext.length)).take f.keyBytes.length = f.keyBytes := by
  have : (f.enc ++ R).drop (2 + f.ext.length) = f.keyBytes ++ (f.body ++ R) := by
    simp only [Frame.enc, List.cons_append, List.append_assoc]
    rw [drop_two_add, List.drop_left' rfl]
  rw [this]; simp

theorem enc_drop_hdr : (f.enc ++ R).drop f.hdrLen = f.body ++ R := by
  simp only [Frame.enc, Frame.hdrLen, List.cons_append, List.append_assoc]
  rw [Nat.add_assoc, drop_two_add, ← List.append_assoc, List.drop_left' (by simp)]

theorem enc_slice_body {r : Nat} (hr : r ≤ f.payload.length) :
    ((f.enc ++ R).drop f.hdrLen).take r = f.body.take r := by
  rw [enc_drop_hdr, List.take_append_of_le_length (by rw [Frame.body_length]; exact hr)]

/-! ### the header bytes -/

theorem Frame.len7_lt {f : Frame} (hwf : f.wf) : f.len7 < 128 := by
  unfold Frame.len7
  rcases hwf.2 with h | h | h <;> simp [h.1] <;> omega

theorem Frame.b1_toNat {f : Frame} (hwf : f.wf) : f.b1.toNat = (if f.mask.isSome then 128 else 0) + f.len7 := by
  have := Frame.len7_lt hwf
  unfold Frame.b1
  rw [b8_toNat]
  split <;> omega

theorem Frame.b1_lengthbits {f : Frame} (hwf : f.wf) : f.b1.toNat &&& 0x7f = f.len7 := by
  have := Frame.len7_lt hwf
  rw [and127_eq, Frame.b1_toNat hwf]
  split <;> omega

theorem Frame.b1_maskbit {f : Frame} (hwf : f.wf) : ((f.b1.toNat &&& 0x80) == 0x80) = f.mask.isSome := by
  have := Frame.len7_lt hwf
  rw [maskbit_eq, Frame.b1_toNat hwf]
  cases f.mask <;> simp <;> omega

theorem Frame.ext_length (f : Frame) : f.ext.length = if f.lenForm = 0 then 0 else if f.lenForm = 1 then 2 else 8 := by
  unfold Frame.ext
  by_cases h0 : f.lenForm = 0
  · simp [h0]
  · by_cases h1 : f.lenForm = 1 <;> simp [h0, h1, beBytes_length]

/-! ### `readLen`, `readKey`, `readHeader` -/

theorem Spec.ok_intro {α : Type} {a : α} {c : Cur} {T : Nat} {post : α → Cur → Prop}
    (hh : c.head ≤ c.buf.length) (hp : post a c) : Spec (Step.ok a c) c T post :=
  ⟨Ok.refl c hh, hp⟩

theorem readLen_spec {f : Frame} (hwf : f.wf) (c : Cur) (hh : c.head ≤ c.buf.length) (h2 : c.head = 2)
    (hp : c.stream <+: f.enc ++ R) :
    Spec (readLen f.len7 c) c (2 + f.ext.length)
      (fun plen c' => plen = f.payload.length ∧ c'.head = 2 + f.ext.length) := by
  unfold readLen
  rcases hwf.2 with h | h | h
  · -- 7-bit form
    have hl : f.len7 = f.payload.length := by simp [Frame.len7, h.1]
    have he : f.ext.length = 0 := by simp [Frame.ext_length, h.1]
    rw [hl, if_neg (by omega), if_neg (by omega)]
    exact Spec.ok_intro hh ⟨rfl, by omega⟩
  · have hl : f.len7 = 126 := by simp [Frame.len7, h.1]
    have he : f.ext.length = 2 := by simp [Frame.ext_length, h.1]
    rw [hl, if_pos rfl]
    refine Spec.bind ((bufferedRead_spec 2 c hh).mono (by omega) (fun _ _ _ h => h)) ?_
    intro v c' hok hv
    refine Spec.ok_intro hok.headLe ⟨?_, by omega⟩
    have hlen : c.head + 2 ≤ c.stream.length := by have := hok.stream_len; omega
    rw [hv.2, slice_of_prefix hp hlen, h2]
    have := enc_slice_ext f R
    rw [he] at this
    rw [this]
    simp only [Frame.ext, h.1]
    exact beNat_beBytes_of_lt (by omega)
  · have hl : f.len7 = 127 := by simp [Frame.len7, h.1]
    have he : f.ext.length = 8 := by simp [Frame.ext_length, h.1]
    rw [hl, if_neg (by decide), if_pos rfl]
    refine Spec.bind ((bufferedRead_spec 8 c hh).mono (by omega) (fun _ _ _ h => h)) ?_
    intro v c' hok hv
    refine Spec.ok_intro hok.headLe ⟨?_, by omega⟩
    have hlen : c.head + 8 ≤ c.stream.length := by have := hok.stream_len; omega
    rw [hv.2, slice_of_prefix hp hlen, h2]
    have := enc_slice_ext f R
    rw [he] at this
    rw [this]
    simp only [Frame.ext, h.1]
    exact beNat_beBytes_of_lt (by omega)

theorem readKey_spec {f : Frame} (hwf : f.wf) (c : Cur) (hh : c.head ≤ c.buf.length) (h2 : c.head = 2 + f.ext.length)
    (hp : c.stream <+: f.enc ++ R) :
    Spec (readKey f.mask.isSome c) c f.hdrLen (fun key c' => key = f.mask ∧ c'.head = f.hdrLen) := by
  unfold readKey
  cases hm : f.mask with
  | none =>
    simp only [Option.isSome_none]
    exact Spec.ok_intro hh ⟨rfl, by simp [Frame.hdrLen, Frame.keyBytes, hm, h2]⟩
  | some k =>
    have hk : k.length = 4 := hwf.1 k hm
    have hkb : f.keyBytes = k := by simp [Frame.keyBytes, hm]
    have hH : f.hdrLen = 2 + f.ext.length + 4 := by simp [Frame.hdrLen, hkb, hk]
    simp only [Option.isSome_some, if_true]
    refine Spec.bind ((bufferedRead_spec 4 c hh).mono (by omega) (fun _ _ _ h => h)) ?_
    intro v c' hok hv
    refine Spec.ok_intro hok.headLe ⟨?_, by omega⟩
    have hlen : c.head + 4 ≤ c.stream.length := by have := hok.stream_len; omega
    rw [hv.2, slice_of_prefix hp hlen, h2]
    have := enc_slice_key f R
    rw [hkb, hk] at this
    rw [this]

/-- the header of the frame at the front of the stream is recovered exactly, or the call stops with the buffer still
short of the header -/
theorem readHeader_spec {f : Frame} (hwf : f.wf) (c : Cur) (h0 : c.head = 0) (hp : c.stream <+: f.enc ++ R) :
    Spec (readHeader c) c f.hdrLen
      (fun h c' => h = { opcode := f.opcode, plen := f.payload.length, key := f.mask } ∧ c'.head = f.hdrLen) := by
  have hH : 2 ≤ f.hdrLen := by simp [Frame.hdrLen]; omega
  unfold readHeader
  refine Spec.bind ((bufferedRead_spec 1 c (by omega)).mono (by omega) (fun _ _ _ h => h)) ?_
  intro h1 c1 ok1 hv1
  have hlen1 : c.head + 1 ≤ c.stream.length := by have := ok1.stream_len; omega
  have e1 : h1 = [f.b0] := by rw [hv1.2, slice_of_prefix hp hlen1, h0, enc_slice0]
  have hp1 : c1.stream <+: f.enc ++ R := by rw [ok1.stream]; exact hp
  refine Spec.bind ((bufferedRead_spec 1 c1 ok1.headLe).mono (by omega) (fun _ _ _ h => h)) ?_
  intro h2 c2 ok2 hv2
  have hc1 : c1.head = 1 := by omega
  have hlen2 : c1.head + 1 ≤ c1.stream.length := by have := ok2.stream_len; omega
  have e2 : h2 = [f.b1] := by rw [hv2.2, slice_of_prefix hp1 hlen2, hc1, enc_slice1]
  have hp2 : c2.stream <+: f.enc ++ R := by rw [ok2.stream]; exact hp1
  subst e1 e2
  simp only [List.headD_cons, Frame.b1_lengthbits hwf, Frame.b1_maskbit hwf, and15_eq]
  refine Spec.bind ((readLen_spec R hwf c2 ok2.headLe (by omega) hp2).mono (by simp [Frame.hdrLen]) (fun _ _ _ h => h)) ?_
  intro plen c3 ok3 hv3
  have hp3 : c3.stream <+: f.enc ++ R := by rw [ok3.stream]; exact hp2
  refine Spec.bind (readKey_spec R hwf c3 ok3.headLe hv3.2 hp3) ?_
  intro key c4 ok4 hv4
  refine Spec.ok_intro ok4.headLe ⟨?_, hv4.2⟩
  rw [hv3.1, hv4.1]; rfl

/-! ### `readPayload` -/

/-- unmasking only `[start, r)` of the first `r` transmitted bytes gives the right bytes there -/
theorem unmask_drop (k payload : Bytes) (start r : Nat) (hr : r ≤ payload.length) :
    (xorRange k start r ((xorRange k 0 payload.length payload).take r)).drop start = (payload.take r).drop start := by
  apply List.ext_getElem
  · simp
  · intro i h1 h2
    have hi : start + i < r := by simp at h2; omega
    rw [List.getElem_drop, List.getElem_drop, xorRange_getElem, if_pos ⟨by omega, hi⟩]
    rw [List.getElem_take, List.getElem_take, xorRange_getElem, if_pos ⟨by omega, by omega⟩, xor_cancel]

theorem take_drop_slice (l : Bytes) (s r : Nat) : ((l.take r).drop s).take (r - s) = (l.drop s).take (r - s) := by
  rw [List.drop_take, List.take_take, Nat.min_self]

theorem readPayload_spec {f : Frame} (c : Cur) (hh : c.head ≤ c.buf.length) (hH : c.head = f.hdrLen)
    (hp : c.stream <+: f.enc ++ R) (start r : Nat) (hr : r ≤ f.payload.length) :
    Spec (readPayload { opcode := f.opcode, plen := f.payload.length, key := f.mask } start r c) c (f.hdrLen + r)
      (fun x c' => x.2.1 = (f.payload.drop start).take (r - start) ∧ x.2.2 = (if r > 0 then r else start) ∧
        (f.mask = none → x.1 = f.payload.take r) ∧ c'.head = f.hdrLen + r) := by
  unfold readPayload
  by_cases h0 : r > 0
  · simp only [h0, if_true]
    refine Spec.bind ((bufferedRead_spec r c hh).mono (by omega) (fun _ _ _ h => h)) ?_
    intro p c' hok hv
    have hlen : c.head + r ≤ c.stream.length := by have := hok.stream_len; omega
    have hpv : p = f.body.take r := by rw [hv.2, slice_of_prefix hp hlen, hH, enc_slice_body f R hr]
    refine Spec.ok_intro hok.headLe ?_
    cases hm : f.mask with
    | none =>
      have hb : f.body = f.payload := by simp [Frame.body, hm]
      simp only [hpv, hb]
      exact ⟨take_drop_slice _ _ _, trivial, fun _ => trivial, by omega⟩
    | some k =>
      have hb : f.body = xorRange k 0 f.payload.length f.payload := by simp [Frame.body, hm]
      simp only [hpv, hb]
      refine ⟨?_, trivial, (fun h => by cases h), by omega⟩
      rw [unmask_drop k f.payload start r hr, take_drop_slice]
  · have hr0 : r = 0 := by omega
    subst hr0
    simp only [if_neg h0]
    exact Spec.ok_intro hh ⟨by simp, rfl, fun _ => by simp, by omega⟩

end Paho.Ws
