/-
`InvS` (the state invariants of the abstract action machine of `SessionAct.lean`) is preserved by
every atomic action, hence by every path; it holds initially; and it implies the Bool predicates of
`Paho/Model/SessionInv.lean` that do not mention the log.
-/
import PahoProofs.Lemmas.SessionAct

namespace Paho
namespace SessAct

theorem invS_emit {v : View} (evs : List Ev) (hi : InvS v) : InvS (vEmit v evs) := by
  obtain ⟨h1, h2, h3, h4, h5, h6, h7, h8, h9⟩ := hi
  exact ⟨h1, h2, h3, h4, h5, h6, h7, h8, h9⟩

theorem invS_regW {v : View} (hi : InvS v) : InvS (vRegW v) := by
  obtain ⟨h1, h2, h3, h4, h5, h6, h7, h8, h9⟩ := hi
  unfold vRegW
  split
  · exact ⟨h1, h2, h3, h4, h5, h6, h7, h8, h9⟩
  · rename_i c hc
    split
    · exact ⟨h1, h2, h3, h4, h5, h6, h7, h8, h9⟩
    · exact ⟨h1, h2, h3, fun _ => by simp [hc], h5, h6, h7, h8, h9⟩

theorem invS_unregW {v : View} (hi : InvS v) : InvS (vUnregW v) := by
  obtain ⟨h1, h2, h3, h4, h5, h6, h7, h8, h9⟩ := hi
  unfold vUnregW
  split
  · exact ⟨h1, h2, h3, h4, h5, h6, h7, h8, h9⟩
  · rename_i c hc
    split
    · exact ⟨h1, h2, h3, fun h => by simp at h, h5, h6, h7, h8, h9⟩
    · exact ⟨h1, h2, h3, h4, h5, h6, h7, h8, h9⟩

theorem invS_enq {v : View} {pkt : OutPkt} (hf : Fresh pkt)
    (hd : isDiscCmd pkt.command → v.discCalled = true) (hi : InvS v) : InvS (vEnq v pkt) := by
  obtain ⟨h1, h2, h3, h4, h5, h6, h7, h8, h9⟩ := hi
  obtain ⟨f1, f2, _⟩ := hf
  refine ⟨h1, h2, h3, h4, ?_, ?_, h7, ?_, h9⟩
  · intro p hp
    simp only [vEnq, List.mem_append, List.mem_singleton] at hp
    rcases hp with hp | rfl
    · exact h5 p hp
    · rw [f1]; exact List.length_pos_iff.mpr f2
  · intro p hp
    simp only [vEnq] at hp
    cases hq : v.outq with
    | nil => 
      rw [hq] at hp
      simp at hp
    | cons a l =>
      rw [hq] at hp h6
      simp only [List.cons_append, List.drop_succ_cons, List.drop_zero, List.mem_append, List.mem_singleton] at hp h6
      rcases hp with hp | rfl
      · exact h6 p hp
      · exact f1
  · intro hs p hp
    simp only [vEnq, List.mem_append, List.mem_singleton] at hp
    rcases hp with hp | rfl
    · exact h8 hs p hp
    · exact hd

theorem invS_write {v : View} {pkt : OutPkt} {rest : List OutPkt} {k : Nat}
    (hq : v.outq = pkt :: rest) (_hk : 0 < k) (hle : pkt.pos + k ≤ pkt.bytes.length)
    (hi : InvS v) : InvS (vWrite v pkt rest k) := by
  obtain ⟨h1, h2, h3, h4, h5, h6, h7, h8, h9⟩ := hi
  rw [hq] at h5 h6 h8
  simp only [List.drop_succ_cons, List.drop_zero, List.mem_cons, forall_eq_or_imp] at h5 h6 h8
  refine ⟨h1, h2, h3, h4, ?_, ?_, h7, ?_, h9⟩
  · intro p hp
    simp only [vWrite] at hp
    split at hp
    · exact h5.2 p hp
    · simp only [List.mem_cons] at hp
      rcases hp with rfl | hp
      · simp only; omega
      · exact h5.2 p hp
  · intro p hp
    simp only [vWrite] at hp
    split at hp
    · exact h6 p (List.mem_of_mem_drop hp)
    · simp only [List.drop_succ_cons, List.drop_zero] at hp
      exact h6 p hp
  · intro hs p hp
    simp only [vWrite] at hp
    split at hp
    · exact (h8 hs).2 p hp
    · simp only [List.mem_cons] at hp
      rcases hp with rfl | hp
      · exact (h8 hs).1
      · exact (h8 hs).2 p hp

/-- with no socket, no pending disconnect() and no write registration the invariant is about the queue only -/
theorem invS_of_noSock {v : View} (hs : v.sock = none) (hc : v.cstate ≠ .connected)
    (hd : v.discCalled = false) (hr : v.regWrite = false)
    (h5 : ∀ p ∈ v.outq, p.pos < p.bytes.length) (h6 : ∀ p ∈ v.outq.drop 1, p.pos = 0)
    (h9 : v.inCb = false) : InvS v :=
  ⟨fun h => absurd h hc, fun h => by simp [hs] at h, fun _ => hd, fun h => by simp [hr] at h,
   h5, h6, fun c h => by simp [hs] at h, fun h => by simp [hs] at h, h9⟩

theorem invS_setNoSock {v : View} {x : ConnState} (hs : v.sock = none) (hx : x ≠ .connected)
    (hi : InvS v) : InvS { v with cstate := x } := by
  obtain ⟨h1, h2, h3, h4, h5, h6, h7, h8, h9⟩ := hi
  refine invS_of_noSock hs hx (h3 hs) ?_ h5 h6 h9
  cases hr : v.regWrite with
  | false => rfl
  | true => have := h4 hr; simp [hs] at this

theorem invS_connack {v : View} (hs : v.sock.isSome = true) (hi : InvS v) :
    InvS { v with cstate := (if v.cstate = .disconnecting then .disconnecting else .connected), ackd := true } := by
  obtain ⟨h1, h2, h3, h4, h5, h6, h7, h8, h9⟩ := hi
  refine ⟨fun _ => ⟨hs, rfl⟩, ?_, h3, h4, h5, h6, h7, h8, h9⟩
  intro _
  have := (h2 hs).1
  simp only
  split
  · rename_i hc
    exact ⟨by simpa [hc] using this, by simp⟩
  · rename_i hc
    refine ⟨?_, by simp⟩
    simp only [reduceCtorEq, false_iff]
    intro hd
    exact hc (this.mpr hd)

theorem vSockClose_some {v : View} {c : Nat} (hc : v.sock = some c) (r : Bool) :
    vSockClose v r = { v with sock := none, ackd := false, discCalled := false, regWrite := false,
                              log := v.log ++ closeEvs v c r } := by
  simp [vSockClose, hc]

theorem invS_writeDisc {v : View} {pkt : OutPkt} {rest : List OutPkt} {k : Nat}
    (hs : v.sock.isSome = true) (hq : v.outq = pkt :: rest) (hk : pkt.pos + k = pkt.bytes.length)
    (hd : isDiscCmd pkt.command) (hi : InvS v) : InvS (vWriteDisc v pkt rest k) := by
  obtain ⟨h1, h2, h3, h4, h5, h6, h7, h8, h9⟩ := hi
  obtain ⟨c, hc⟩ := Option.isSome_iff_exists.mp hs
  have hdc : v.discCalled = true := h8 hs pkt (by simp [hq]) hd
  have hcs : v.cstate = .disconnecting := (h2 hs).1.mpr hdc
  rw [hq] at h5 h6
  simp only [List.drop_succ_cons, List.drop_zero, List.mem_cons, forall_eq_or_imp] at h5 h6
  have hc' : (vWrite v pkt rest k).sock = some c := hc
  have ho : (vWriteDisc v pkt rest k).outq = rest := by
    simp only [vWriteDisc, vSockClose_some hc']
    simp [vWrite, hk]
  apply invS_of_noSock
  · simp [vWriteDisc, vSockClose_some hc']
  · simp [vWriteDisc, hcs]
  · simp [vWriteDisc, vSockClose_some hc']
  · simp [vWriteDisc, vSockClose_some hc']
  · rw [ho]; exact h5.2
  · rw [ho]; exact fun p hp => h6 p (List.mem_of_mem_drop hp)
  · simp only [vWriteDisc, vSockClose_some hc']
    exact h9

theorem invS_closeLost {v : View} {n : Nat} (hs : v.sock.isSome = true) (hi : InvS v) :
    InvS (vCloseLost v n) := by
  obtain ⟨h1, h2, h3, h4, h5, h6, h7, h8, h9⟩ := hi
  obtain ⟨c, hc⟩ := Option.isSome_iff_exists.mp hs
  apply invS_of_noSock
  · simp [vCloseLost, vSockClose_some hc]
  · simp only [vCloseLost]; split <;> simp
  · simp [vCloseLost, vSockClose_some hc]
  · simp [vCloseLost, vSockClose_some hc]
  · simpa [vCloseLost, vSockClose_some hc] using h5
  · simpa [vCloseLost, vSockClose_some hc] using h6
  · simpa [vCloseLost, vSockClose_some hc] using h9

theorem invS_closeBroker {v : View} {n : Nat} (hs : v.sock.isSome = true) (hi : InvS v) :
    InvS (vCloseBroker v n) := by
  obtain ⟨h1, h2, h3, h4, h5, h6, h7, h8, h9⟩ := hi
  obtain ⟨c, hc⟩ := Option.isSome_iff_exists.mp hs
  apply invS_of_noSock
  · simp [vCloseBroker, vSockClose_some hc]
  · simp only [vCloseBroker]; split <;> simp
  · simp [vCloseBroker, vSockClose_some hc]
  · simp [vCloseBroker, vSockClose_some hc]
  · simpa [vCloseBroker, vSockClose_some hc] using h5
  · simpa [vCloseBroker, vSockClose_some hc] using h6
  · simpa [vCloseBroker, vSockClose_some hc] using h9

theorem invS_closeReplace {v : View} {x : ConnState} (hx : x = .connecting ∨ x = .connectAsync)
    (hi : InvS v) : InvS (vCloseReplace v x) := by
  have hxc : x ≠ .connected := by rcases hx with rfl | rfl <;> simp
  cases hc : v.sock with
  | none =>
    have : vCloseReplace v x = { v with cstate := x } := by simp [vCloseReplace, vSockClose, hc]
    rw [this]
    exact invS_setNoSock hc hxc hi
  | some c =>
    obtain ⟨h1, h2, h3, h4, h5, h6, h7, h8, h9⟩ := hi
    have hc' : ({ v with cstate := x } : View).sock = some c := hc
    apply invS_of_noSock
    · simp [vCloseReplace, vSockClose_some hc']
    · simpa [vCloseReplace, vSockClose_some hc'] using hxc
    · simp [vCloseReplace, vSockClose_some hc']
    · simp [vCloseReplace, vSockClose_some hc']
    · simpa [vCloseReplace, vSockClose_some hc'] using h5
    · simpa [vCloseReplace, vSockClose_some hc'] using h6
    · simpa [vCloseReplace, vSockClose_some hc'] using h9

theorem invS_clearQ {v : View} (hi : InvS v) : InvS { v with outq := [] } := by
  obtain ⟨h1, h2, h3, h4, h5, h6, h7, h8, h9⟩ := hi
  exact ⟨h1, h2, h3, h4, by simp, by simp, h7, by simp, h9⟩

theorem not_isDiscCmd_connect : ¬ isDiscCmd 0x10 := by decide

theorem invS_open {v : View} {pkt : Option OutPkt} (hs : v.sock = none) (hcs : v.cstate = .connecting)
    (hp : ∀ p, pkt = some p → IsConnectPkt p) (hi : InvS v) : InvS (vOpen v pkt) := by
  obtain ⟨h1, h2, h3, h4, h5, h6, h7, h8, h9⟩ := hi
  have hd := h3 hs
  refine ⟨?_, ?_, ?_, ?_, ?_, ?_, ?_, ?_, h9⟩
  · simp [vOpen, hcs]
  · simp [vOpen, hcs, hd]
  · simp [vOpen]
  · simp [vOpen]
  · intro p hp'
    simp only [vOpen, Option.mem_toList] at hp'
    obtain ⟨q1, _, q3⟩ := hp p hp'
    rw [q1]
    cases hb : p.bytes with
    | nil => simp [hb] at q3
    | cons a l => simp
  · cases pkt <;> simp [vOpen]
  · simp [vOpen]
  · intro _ p hp'
    simp only [vOpen, Option.mem_toList] at hp'
    obtain ⟨_, q2, _⟩ := hp p hp'
    intro h
    rw [q2] at h
    exact absurd h not_isDiscCmd_connect

theorem invS_setDisc {v : View} (hs : v.sock.isSome = true) (hi : InvS v) :
    InvS { v with cstate := .disconnecting, discCalled := true } := by
  obtain ⟨h1, h2, h3, h4, h5, h6, h7, h8, h9⟩ := hi
  refine ⟨by simp, by simp, ?_, h4, h5, h6, h7, by simp, h9⟩
  intro h
  simp only at h
  simp [h] at hs

theorem Act.invS {k : Kind} {v v' : View} (h : Act k v v') (hi : InvS v) : InvS v' := by
  cases h with
  | emit _ evs _ => exact invS_emit evs hi
  | regW _ => exact invS_regW hi
  | unregW _ => exact invS_unregW hi
  | enq _ pkt hf hd => exact invS_enq hf hd hi
  | write _ pkt rest k hq hk hle => exact invS_write hq hk hle hi
  | setNoSock _ x hs hx => exact invS_setNoSock hs hx hi
  | connack _ hs => exact invS_connack hs hi
  | writeDisc _ pkt rest k hs hq _ hk hd => exact invS_writeDisc hs hq hk hd hi
  | closeLost _ n hs _ => exact invS_closeLost hs hi
  | closeBroker _ n hs => exact invS_closeBroker hs hi
  | closeReplace _ x hx => exact invS_closeReplace hx hi
  | clearQ _ _ => exact invS_clearQ hi
  | openConnect _ pkt hs _ hcs hp => exact invS_open hs hcs (fun p e => by cases e; exact hp) hi
  | openNoConnect _ hs _ hcs _ => exact invS_open hs hcs (fun p e => by cases e) hi
  | setDisc _ hs => exact invS_setDisc hs hi

theorem Path.invS {P : Kind → Bool} {v v' : View} (h : Path P v v') (hi : InvS v) : InvS v' := by
  induction h with
  | refl _ => exact hi
  | cons ha _ _ ih => exact ih (ha.invS hi)

theorem invS_init (cfg : Cfg) (proto : Nat) (t : Nat) : InvS (view (S.init cfg proto t)) := by
  apply invS_of_noSock <;> simp [S.init]

theorem invS_connected {s : S} (h : InvS (view s)) : s.invConnected = true := by
  have := h.conn
  simp only at this
  unfold S.invConnected
  by_cases hc : s.cstate = .connected
  · simp [this hc]
  · simp [hc]

theorem invS_disconnecting {s : S} (h : InvS (view s)) : s.invDisconnecting = true := by
  have := h.disc
  simp only at this
  unfold S.invDisconnecting
  cases hs : s.sock with
  | none => simp
  | some c =>
    obtain ⟨a, b⟩ := this (by simp [hs])
    cases hd : s.discCalled <;> simp_all

theorem invS_regSock {s : S} (h : InvS (view s)) : s.invRegSock = true := by
  have := h.reg
  simp only at this
  unfold S.invRegSock
  cases hr : s.regWrite with
  | false => simp
  | true => simp [this hr]

theorem invS_queueShape {s : S} (h : InvS (view s)) : s.invQueueShape = true := by
  have h5 := h.qpos
  have h6 := h.qtail
  simp only at h5 h6
  unfold S.invQueueShape
  simp only [Bool.and_eq_true, List.all_eq_true, decide_eq_true_eq, beq_iff_eq]
  exact ⟨h5, h6⟩

theorem pendingBytes_ne_nil {q : List OutPkt} (h : ∀ p ∈ q, p.pos < p.bytes.length) :
    pendingBytes q ≠ [] ↔ q ≠ [] := by
  cases q with
  | nil => simp [pendingBytes]
  | cons a l =>
    have := h a (by simp)
    simp only [pendingBytes, List.map_cons, List.flatten_cons, ne_eq, List.append_eq_nil_iff,
      List.drop_eq_nil_iff, reduceCtorEq, not_false_eq_true, iff_true, not_and]
    omega

theorem invS_wantWrite {s : S} (h : InvS (view s)) : s.wantWrite = true ↔ pendingBytes s.outq ≠ [] := by
  have h5 := h.qpos
  simp only at h5
  rw [pendingBytes_ne_nil h5]
  simp [S.wantWrite]

end SessAct
end Paho
