/-
Helper lemmas for C05 part 2: `parseBody` / `parseAck` on well-formed broker packets.
-/
import Paho.Model.Reader
import Paho.Spec.Props
import PahoProofs.Properties.C17

namespace Paho.ReaderLemmas
open Paho Paho.PropsLemmas

/-! ### bit facts -/

theorem and_f0 : ∀ c < 256, c &&& 0xF0 = c / 16 * 16 := by decide +kernel

theorem type_bits (T f : Nat) (hT : T < 16) (hf : f < 16) : (T * 16 + f) &&& 0xF0 = T * 16 := by
  rw [and_f0 _ (by omega)]; omega

theorem type_bits' (T f : Nat) (hT : T < 16) (hf : f < 16) : (T * 16 + f) &&& 240 = T * 16 :=
  type_bits T f hT hf

/-! ### big-endian 16-bit -/

theorem rdU16_be (n : Nat) (h : n ≤ 65535) (rest : Bytes) :
    rdU16 (UInt8.ofNat (n / 256) :: UInt8.ofNat (n % 256) :: rest) = some n := by
  simp only [rdU16, ofNat_toNat (n / 256) (by omega), ofNat_toNat (n % 256) (by omega)]
  congr 1; omega

/-! ### reason codes -/

theorem mkById_ok (pt v : Nat) (hpt : 1 ≤ pt ∧ pt ≤ 15) (hv : v < 256) (hd : Spec.reasonDefined pt v = true) :
    Reason.mkById pt v = .ok v := by
  have h := c17_reason_table pt v hpt hv
  rw [hd] at h
  unfold Reason.mkById at h ⊢
  cases hg : Reason.getName pt v with
  | error e => rw [hg] at h; simp [bind, Except.bind, Except.isOk, Except.toBool] at h
  | ok n => rfl

theorem reasonUnpack_ok (pt rc : Nat) (rest : Bytes) (hpt : 1 ≤ pt ∧ pt ≤ 15) (hv : rc < 256)
    (hd : Spec.reasonDefined pt rc = true) : reasonUnpack pt (UInt8.ofNat rc :: rest) = .ok rc := by
  simp only [reasonUnpack, ofNat_toNat rc hv]
  exact c17_reason_unpack_value pt rc hpt hv hd

theorem reasonList_ok (pt : Nat) (hpt : 1 ≤ pt ∧ pt ≤ 15) (codes : List Nat)
    (hc : ∀ c ∈ codes, c < 256 ∧ Spec.reasonDefined pt c = true) :
    reasonList pt (codes.map UInt8.ofNat) = .ok codes := by
  induction codes with
  | nil => rfl
  | cons c cs ih =>
    have h1 := hc c (by simp)
    have ih' := ih (fun c hc' => hc c (by simp [hc']))
    simp only [List.map_cons, reasonList, ofNat_toNat c h1.1, mkById_ok pt c hpt h1.1 h1.2, ih']
    rfl

end Paho.ReaderLemmas
