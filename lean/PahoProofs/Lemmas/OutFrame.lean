/-
Frame lemmas for the session model: what every handler does to `out`, `infos`,
`lastMid`, `outq` and the ghost part of the log.
-/
import Paho.Model.Session
import Paho.Model.SessionInv
import PahoProofs.Lemmas.SessionDefs

namespace Paho.OutLemmas
open Paho Paho.S

/-- ghost events about message instances -/
def isGhost : Ev → Bool
  | .qPublish .. => true
  | .qPubrel .. => true
  | .completed .. => true
  | _ => false

/-- `published` flag of info `i` -/
def pubAt (s : S) (i : Nat) : Option Bool := (s.infos[i]?).map (·.published)

/-- protected info indices `P` are not published, and no queued QoS 0 packet points at them -/
def PInv (P : Nat → Prop) (s : S) : Prop :=
  (∀ i, P i → pubAt s i ≠ some true) ∧
  (∀ p ∈ s.outq, p.qos = 0 → ∀ i, p.info = some i → ¬ P i)

/-- low-level effect of a handler: the message store is untouched; `g` is the ghost trace emitted;
`q` is the packet queue the effect is relative to (normally `s.outq`) -/
structure LowQ (g : List Ev) (q : List OutPkt) (s s' : S) : Prop where
  out : s'.out = s.out
  lastMid : s'.lastMid = s.lastMid
  infosLen : s'.infos.length = s.infos.length
  inflight : s'.inflight = s.inflight
  cfg : s'.cfg = s.cfg
  proto : s'.proto = s.proto
  sock : s'.sock = s.sock ∨ s'.sock = none
  outq : ∀ p' ∈ s'.outq, ∀ i, p'.qos = 0 → p'.info = some i → ∃ p ∈ q, p.qos = 0 ∧ p.info = some i
  pub : ∀ j, pubAt s' j = pubAt s j ∨
        (pubAt s' j = some true ∧ ∃ p ∈ q, p.qos = 0 ∧ p.info = some j)
  log : ∃ evs, s'.log = s.log ++ evs ∧ evs.filter isGhost = g

abbrev Low (g : List Ev) (s s' : S) : Prop := LowQ g s.outq s s'

theorem Low.refl (s : S) : Low [] s s :=
  ⟨rfl, rfl, rfl, rfl, rfl, rfl, Or.inl rfl, fun p h _ h1 h2 => ⟨p, h, h1, h2⟩, fun _ => Or.inl rfl, [], by simp, rfl⟩

theorem LowQ.trans {g1 g2 : List Ev} {q : List OutPkt} {a b c : S} (h1 : LowQ g1 q a b) (h2 : Low g2 b c) :
    LowQ (g1 ++ g2) q a c := by
  refine ⟨h2.out.trans h1.out, h2.lastMid.trans h1.lastMid, h2.infosLen.trans h1.infosLen,
    h2.inflight.trans h1.inflight, h2.cfg.trans h1.cfg, h2.proto.trans h1.proto, ?_, ?_, ?_, ?_⟩
  · rcases h2.sock with h | h
    · rcases h1.sock with h' | h'
      · exact Or.inl (h.trans h')
      · exact Or.inr (h.trans h')
    · exact Or.inr h
  · intro p'' hp'' i hq hi
    obtain ⟨p', hp', e1, e2⟩ := h2.outq p'' hp'' i hq hi
    exact h1.outq p' hp' i e1 e2
  · intro j
    rcases h2.pub j with h | ⟨h, p', hp', hq, hi⟩
    · rcases h1.pub j with h' | ⟨h', hw⟩
      · exact Or.inl (h.trans h')
      · exact Or.inr ⟨h.trans h', hw⟩
    · exact Or.inr ⟨h, h1.outq p' hp' j hq hi⟩
  · obtain ⟨e1, he1, hg1⟩ := h1.log
    obtain ⟨e2, he2, hg2⟩ := h2.log
    exact ⟨e1 ++ e2, by rw [he2, he1, List.append_assoc], by rw [List.filter_append, hg1, hg2]⟩

theorem Low.trans {g1 g2 : List Ev} {a b c : S} (h1 : Low g1 a b) (h2 : Low g2 b c) :
    Low (g1 ++ g2) a c := LowQ.trans h1 h2

theorem LowQ.trans0' {g : List Ev} {q : List OutPkt} {a b c : S} (h1 : LowQ g q a b) (h2 : Low [] b c) :
    LowQ g q a c := by
  simpa using h1.trans h2

theorem Low.trans0 {g : List Ev} {a b c : S} (h1 : Low [] a b) (h2 : Low g b c) : Low g a c := by
  simpa using h1.trans h2

theorem Low.trans0' {g : List Ev} {a b c : S} (h1 : Low g a b) (h2 : Low [] b c) : Low g a c := by
  simpa using h1.trans h2

theorem LowQ.pubMono {g : List Ev} {q : List OutPkt} {s s' : S} (h : LowQ g q s s') (i : Nat) (hp : pubAt s i = some true) :
    pubAt s' i = some true := by
  rcases h.pub i with h' | h'
  · rw [h', hp]
  · exact h'.1

theorem LowQ.pinv {g : List Ev} {q : List OutPkt} {s s' : S} (h : LowQ g q s s') (P : Nat → Prop)
    (hp1 : ∀ i, P i → pubAt s i ≠ some true)
    (hp2 : ∀ p ∈ q, p.qos = 0 → ∀ i, p.info = some i → ¬ P i) : PInv P s' := by
  refine ⟨?_, ?_⟩
  · intro i hPi
    rcases h.pub i with h' | ⟨_, p, hp, hq0, hpi⟩
    · rw [h']; exact hp1 i hPi
    · exact absurd hPi (hp2 p hp hq0 i hpi)
  · intro p' hp' hq0 i hpi
    obtain ⟨p, hp, e1, e2⟩ := h.outq p' hp' i hq0 hpi
    exact hp2 p hp e1 i e2

/-- update of fields the frame does not look at -/
theorem Low.upd {s s' : S}
    (hout : s'.out = s.out) (hmid : s'.lastMid = s.lastMid) (hinfos : s'.infos = s.infos)
    (hinf : s'.inflight = s.inflight) (hcfg : s'.cfg = s.cfg) (hproto : s'.proto = s.proto)
    (hsock : s'.sock = s.sock ∨ s'.sock = none)
    (hq : s'.outq = s.outq) (hlog : s'.log = s.log) : Low [] s s' := by
  refine ⟨hout, hmid, by rw [hinfos], hinf, hcfg, hproto, hsock, ?_, ?_, ⟨[], by simp [hlog], rfl⟩⟩
  · intro p' hp' i h1 h2; exact ⟨p', hq ▸ hp', h1, h2⟩
  · intro j; left; simp [pubAt, hinfos]

/-- a packet (a copy, up to `pos`, of one that was queued) is put back at the head of the queue -/
theorem Low.cons_outq {g : List Ev} {s t : S} (pkt : OutPkt) (h : Low g s t)
    (hp : ∃ p ∈ s.outq, pkt.qos = p.qos ∧ pkt.info = p.info) :
    Low g s { t with outq := pkt :: t.outq } := by
  refine ⟨h.out, h.lastMid, h.infosLen, h.inflight, h.cfg, h.proto, h.sock, ?_, h.pub, h.log⟩
  intro p' hp' i hq hi
  simp only [List.mem_cons] at hp'
  rcases hp' with rfl | hp'
  · obtain ⟨p, hp, e1, e2⟩ := hp
    exact ⟨p, hp, e1 ▸ hq, e2 ▸ hi⟩
  · exact h.outq p' hp' i hq hi

/-- the queue shrinks -/
theorem Low.sub_outq {s : S} (q : List OutPkt) (hq : ∀ p ∈ q, p ∈ s.outq) :
    Low [] s { s with outq := q } :=
  ⟨rfl, rfl, rfl, rfl, rfl, rfl, Or.inl rfl, fun p h _ h1 h2 => ⟨p, hq p h, h1, h2⟩, fun _ => Or.inl rfl, [], by simp, rfl⟩

/-- the info of a queued QoS 0 packet is marked published -/
theorem Low.setInfo_pub {g : List Ev} {s t : S} (i : Nat) (f : Info → Info) (hf : ∀ x, (f x).published = true)
    (h : Low g s t) (hp : ∃ p ∈ s.outq, p.qos = 0 ∧ p.info = some i) : Low g s (t.setInfo i f) := by
  refine ⟨h.out, h.lastMid, ?_, h.inflight, h.cfg, h.proto, h.sock, h.outq, ?_, h.log⟩
  · simp [setInfo, h.infosLen]
  · intro j
    by_cases hij : i = j
    · subst hij
      by_cases hlt : i < t.infos.length
      · right
        refine ⟨?_, hp⟩
        simp [pubAt, setInfo, hlt, hf]
      · have hn : t.infos[i]? = none := List.getElem?_eq_none (by omega)
        have : pubAt (t.setInfo i f) i = pubAt t i := by simp [pubAt, setInfo, hn]
        rw [this]; exact h.pub i
    · have : pubAt (t.setInfo i f) j = pubAt t j := by
        simp [pubAt, setInfo, hij]
      rw [this]; exact h.pub j

theorem Low.emit (s : S) (e : Ev) : Low (if isGhost e then [e] else []) s (s.emit e) := by
  refine ⟨rfl, rfl, rfl, rfl, rfl, rfl, Or.inl rfl, ?_, ?_, ⟨[e], rfl, ?_⟩⟩
  · intro p' hp' i h1 h2; exact ⟨p', hp', h1, h2⟩
  · intro j; left; rfl
  · cases h : isGhost e <;> simp [h]

theorem Low.emit_ng (s : S) (e : Ev) (h : isGhost e = false) : Low [] s (s.emit e) := by
  simpa [h] using Low.emit s e

/-- tactic: discharge `Low [] s {s with …}` for irrelevant field updates -/
macro "low_upd" : tactic =>
  `(tactic| (apply Low.upd <;> first | rfl | (simp; done) | (left; rfl) | (right; rfl)))

theorem callSocketRegisterWrite_low (s : S) : Low [] s s.callSocketRegisterWrite := by
  unfold callSocketRegisterWrite
  split
  · exact Low.refl s
  · split
    · exact Low.refl s
    · dsimp only
      split
      · refine Low.trans0 (b := { s with regWrite := true }) (by low_upd) (Low.emit_ng _ _ rfl)
      · low_upd

theorem callSocketUnregisterWrite_low (s : S) (o : Option Nat) : Low [] s (s.callSocketUnregisterWrite o) := by
  unfold callSocketUnregisterWrite
  split
  · exact Low.refl s
  · split
    · exact Low.refl s
    · dsimp only
      split
      · refine Low.trans0 (b := { s with regWrite := false }) (by low_upd) (Low.emit_ng _ _ rfl)
      · low_upd

theorem sockClose_low (s : S) (r : Bool) : Low [] s (s.sockClose r) := by
  unfold sockClose
  split
  · exact Low.refl s
  · rename_i c _
    dsimp only
    refine Low.trans0 ?_ (Low.emit_ng _ _ rfl)
    refine Low.trans0 (b := ({ s with sock := none, ackd := false, discCalled := false } : S).callSocketUnregisterWrite (some c)) ?_ ?_
    · exact Low.trans0 (by low_upd) (callSocketUnregisterWrite_low _ _)
    · split
      · split
        · exact Low.emit_ng _ _ rfl
        · exact Low.emit_ng _ _ rfl
      · exact Low.refl _

theorem doOnDisconnect_low (s : S) (rc : RC) (b : Bool) : Low [] s (s.doOnDisconnect rc b) :=
  Low.emit_ng _ _ rfl

theorem sockClose_sock (s : S) (r : Bool) : (s.sockClose r).sock = none := by
  unfold sockClose
  split
  · assumption
  · simp only [emit, callSocketUnregisterWrite]
    repeat' split
    all_goals rfl

theorem loopRcHandle_low (s : S) (rc : RC) : Low [] s (s.loopRcHandle rc).1 := by
  unfold loopRcHandle
  split
  · split
    · exact Low.refl s
    · dsimp only
      split
      · exact Low.trans0 (sockClose_low _ _) (Low.trans0 (by low_upd) (doOnDisconnect_low _ _ _))
      · exact Low.trans0 (sockClose_low _ _) (Low.trans0 (by low_upd) (doOnDisconnect_low _ _ _))
  · exact Low.refl s

theorem nextSend_low (s : S) (n : Nat) : Low [] s (s.nextSend n).1 := by
  unfold nextSend
  split
  · exact Low.refl s
  · low_upd

theorem packetWrite_low (fuel : Nat) (s : S) : Low [] s (s.packetWrite fuel).1 := by
  induction fuel generalizing s with
  | zero => exact Low.emit_ng _ _ rfl
  | succ n ih =>
    unfold packetWrite
    split
    · exact Low.refl s
    · rename_i pkt rest hq
      have hmem : pkt ∈ s.outq := by rw [hq]; simp
      have h0 : Low [] s { s with outq := rest } := Low.sub_outq rest (by intro p hp; rw [hq]; simp [hp])
      extract_lets s0 data
      have h1 := Low.trans0 h0 (nextSend_low s0 data.length)
      split
      rename_i s1 d hns
      rw [hns] at h1
      dsimp only at h1
      split
      · exact Low.cons_outq pkt (Low.trans0 h1 (callSocketRegisterWrite_low _)) ⟨pkt, hmem, rfl, rfl⟩
      · exact Low.cons_outq pkt h1 ⟨pkt, hmem, rfl, rfl⟩
      · rename_i k
        extract_lets k1 s2 pkt1 s4 s3 s5 s6 s7 s8
        have h2 : Low [] s s2 := by
          unfold s2
          split
          · exact Low.trans0 h1 (Low.emit_ng _ _ rfl)
          · exact h1
        have h4 : Low [] s s4 := Low.trans0 h2 (Low.emit_ng _ _ rfl)
        have h3 : Low [] s s3 := by
          unfold s3
          split
          · rename_i hc
            split
            · rename_i i hi
              exact Low.trans0' (Low.setInfo_pub i _ (fun _ => rfl) h4 ⟨pkt, hmem, hc.2, hi⟩) (Low.emit_ng _ _ rfl)
            · exact Low.trans0 h4 (Low.emit_ng _ _ rfl)
          · exact h2
        have h5 : Low [] s s5 := Low.trans0 h3 (by low_upd)
        have h6 : Low [] s s6 := Low.trans0 h5 (sockClose_low _ _)
        have h7 : Low [] s s7 := by
          unfold s7; split
          · exact Low.trans0 h6 (by low_upd)
          · exact h6
        have h8 : Low [] s s8 := Low.trans0 h7 (doOnDisconnect_low _ _ _)
        split
        · split
          · split
            · exact h8
            · exact Low.trans0 h3 (ih _)
          · exact Low.trans0 (Low.cons_outq pkt1 h2 ⟨pkt, hmem, rfl, rfl⟩) (ih _)
        · exact Low.trans0 (Low.cons_outq pkt h1 ⟨pkt, hmem, rfl, rfl⟩) (by low_upd)

theorem loopWrite_low (s : S) : Low [] s s.loopWrite.1 := by
  unfold loopWrite
  split
  · exact Low.refl s
  · have h1 := packetWrite_low s.writeFuel s
    split
    rename_i s1 rc hpw
    rw [hpw] at h1; dsimp only at h1
    split
    rename_i s2 rc2 h2eq
    have h2 : Low [] s s2 := by
      have : Low [] s (if rc = rcAgain then (s1, rcSuccess) else if rc > 0 then s1.loopRcHandle rc else (s1, rcSuccess)).1 := by
        split
        · exact h1
        · split
          · exact Low.trans0 h1 (loopRcHandle_low _ _)
          · exact h1
      rw [h2eq] at this; exact this
    dsimp only
    split
    · exact Low.trans0 h2 (callSocketRegisterWrite_low _)
    · exact Low.trans0 h2 (callSocketUnregisterWrite_low _ _)

/-- `_packet_queue` seen from the state in which the packet has just been appended -/
theorem packetQueue_low1 (s : S) (pkt : OutPkt) (d : Bool) :
    Low [] { s with outq := s.outq ++ [pkt] } (s.packetQueue pkt d).1 := by
  unfold packetQueue
  extract_lets s0 s1
  have h1 : Low [] s0 s1 := by
    unfold s1; split
    · exact Low.emit_ng _ _ rfl
    · exact Low.refl _
  split
  · exact Low.trans0 h1 (loopWrite_low _)
  · exact Low.trans0 h1 (callSocketRegisterWrite_low _)

/-- appending a packet that carries no info, or is not QoS 0 -/
theorem Low.append_outq (s : S) (pkt : OutPkt) (h : pkt.info = none ∨ pkt.qos ≠ 0) :
    Low [] s { s with outq := s.outq ++ [pkt] } := by
  refine ⟨rfl, rfl, rfl, rfl, rfl, rfl, Or.inl rfl, ?_, fun _ => Or.inl rfl, [], by simp, rfl⟩
  intro p' hp' i hq hi
  simp only [List.mem_append, List.mem_singleton] at hp'
  rcases hp' with hp' | rfl
  · exact ⟨p', hp', hq, hi⟩
  · rcases h with h | h
    · rw [h] at hi; cases hi
    · exact absurd hq h

/-- `_packet_queue`, relative to the queue with the new packet appended -/
theorem packetQueue_low0 (s : S) (pkt : OutPkt) (d : Bool) :
    LowQ [] (s.outq ++ [pkt]) s (s.packetQueue pkt d).1 := by
  have h := packetQueue_low1 s pkt d
  exact ⟨h.out, h.lastMid, h.infosLen, h.inflight, h.cfg, h.proto, h.sock, h.outq, h.pub, h.log⟩

theorem packetQueue_low (s : S) (pkt : OutPkt) (d : Bool) (h : pkt.info = none ∨ pkt.qos ≠ 0) :
    Low [] s (s.packetQueue pkt d).1 :=
  Low.trans0 (Low.append_outq s pkt h) (packetQueue_low1 s pkt d)

theorem Low.pinv {g : List Ev} {s s' : S} (h : Low g s s') (P : Nat → Prop) (hp : PInv P s) : PInv P s' :=
  LowQ.pinv h P hp.1 hp.2

theorem Low.emit_g (s : S) (e : Ev) (h : isGhost e = true) : Low [e] s (s.emit e) := by
  simpa [h] using Low.emit s e

theorem sendCmdMid_low (s : S) (cmd mid : Nat) (d : Bool) : Low [] s (s.sendCmdMid cmd mid d).1 := by
  unfold sendCmdMid
  split
  · exact Low.emit_ng _ _ rfl
  · exact packetQueue_low _ _ _ (Or.inl rfl)

theorem sendSimple_low (s : S) (cmd : Nat) : Low [] s (s.sendSimple cmd).1 :=
  packetQueue_low _ _ _ (Or.inl rfl)

theorem sendConnect_low (s : S) : Low [] s s.sendConnect.1 := by
  unfold sendConnect
  extract_lets a
  split
  · exact Low.emit_ng _ _ rfl
  · exact packetQueue_low _ _ _ (Or.inl rfl)

/-- ghost trace of `_send_pubrel` -/
def pubrelGhost (s : S) (mid : Nat) : List Ev :=
  match s.sock, s.out.find? (·.mid = mid) with
  | some c, some m => [.qPubrel c m.info mid]
  | _, _ => []

theorem sendPubrel_low (s : S) (mid : Nat) (d : Bool) :
    Low (pubrelGhost s mid) s (s.sendPubrel mid d).1 := by
  rcases hs : s.sock with _ | c <;> rcases hf : s.out.find? (·.mid = mid) with _ | m <;>
    simp only [sendPubrel, pubrelGhost, hs, hf]
  · exact sendCmdMid_low _ _ _ _
  · exact sendCmdMid_low _ _ _ _
  · exact sendCmdMid_low _ _ _ _
  · exact Low.trans0' (Low.emit_g _ _ rfl) (sendCmdMid_low _ _ _ _)

/-- ghost trace of `_send_publish` -/
def publishGhost (s : S) (mid : Nat) (topic payload : Bytes) (qos : Nat) (retain dup : Bool)
    (uid : Option Nat) : List Ev :=
  match s.sock, uid, encPublish s.proto mid topic payload qos retain dup none with
  | some c, some u, .ok _ => [.qPublish c u mid qos dup]
  | _, _, _ => []

theorem LowQ.mono {g : List Ev} {q q' : List OutPkt} {s s' : S} (h : LowQ g q s s')
    (hq : ∀ p ∈ q, ∀ i, p.qos = 0 → p.info = some i → ∃ p' ∈ q', p'.qos = 0 ∧ p'.info = some i) :
    LowQ g q' s s' := by
  refine ⟨h.out, h.lastMid, h.infosLen, h.inflight, h.cfg, h.proto, h.sock, ?_, ?_, h.log⟩
  · intro p' hp' i h1 h2
    obtain ⟨p, hp, e1, e2⟩ := h.outq p' hp' i h1 h2
    exact hq p hp i e1 e2
  · intro j
    rcases h.pub j with h' | ⟨h', p, hp, e1, e2⟩
    · exact Or.inl h'
    · exact Or.inr ⟨h', hq p hp j e1 e2⟩

theorem Low.toQ {g : List Ev} {s s' : S} (h : Low g s s') (l : List OutPkt) : LowQ g (s.outq ++ l) s s' :=
  LowQ.mono h (fun p hp _ h1 h2 => ⟨p, List.mem_append_left _ hp, h1, h2⟩)

theorem LowQ.emit_pre {g : List Ev} {q : List OutPkt} {s t : S} (e : Ev) (h : LowQ g q (s.emit e) t) :
    LowQ ((if isGhost e then [e] else []) ++ g) q s t := by
  refine ⟨h.out, h.lastMid, h.infosLen, h.inflight, h.cfg, h.proto, h.sock, h.outq, h.pub, ?_⟩
  obtain ⟨evs, he, hg⟩ := h.log
  refine ⟨e :: evs, by rw [he]; simp [emit], ?_⟩
  cases hh : isGhost e <;> simp [hh, hg]

/-- the bytes of a queued packet are irrelevant to the frame -/
theorem pkt_mem_irrel (q : List OutPkt) (mid qos : Nat) (b b' : Bytes) (info : Option Nat) :
    ∀ p ∈ q ++ [mkPkt 0x30 mid qos b info], ∀ i, p.qos = 0 → p.info = some i →
      ∃ p' ∈ q ++ [mkPkt 0x30 mid qos b' info], p'.qos = 0 ∧ p'.info = some i := by
  intro p hp i h1 h2
  simp only [List.mem_append, List.mem_singleton] at hp
  rcases hp with hp | rfl
  · exact ⟨p, List.mem_append_left _ hp, h1, h2⟩
  · exact ⟨_, List.mem_append_right _ (List.mem_singleton.mpr rfl), h1, h2⟩

/-- `_send_publish`: the queue is the old one plus possibly one packet with the given `qos` and `info` -/
theorem sendPublish_low0 (s : S) (mid : Nat) (topic payload : Bytes) (qos : Nat) (retain dup : Bool)
    (info : Option Nat) (d : Bool) (uid : Option Nat) :
    LowQ (publishGhost s mid topic payload qos retain dup uid)
      (s.outq ++ [mkPkt 0x30 mid qos [] info]) s
      (s.sendPublish mid topic payload qos retain dup info d uid).1 := by
  rcases hs : s.sock with _ | c
  · simp only [sendPublish, publishGhost, hs]
    exact (Low.refl s).toQ _
  · rcases he : encPublish s.proto mid topic payload qos retain dup none with e | bytes
    · simp only [sendPublish, publishGhost, hs, he]
      exact (Low.emit_ng _ _ rfl).toQ _
    · rcases uid with _ | u
      · simp only [sendPublish, publishGhost, hs, he]
        exact (packetQueue_low0 _ _ _).mono (pkt_mem_irrel _ _ _ _ _ _)
      · simp only [sendPublish, publishGhost, hs, he]
        exact LowQ.emit_pre (.qPublish c u mid qos dup) ((packetQueue_low0 _ _ _).mono (pkt_mem_irrel _ _ _ _ _ _))

theorem sendPublish_low (s : S) (mid : Nat) (topic payload : Bytes) (qos : Nat) (retain dup : Bool)
    (info : Option Nat) (d : Bool) (uid : Option Nat) (h : info = none ∨ qos ≠ 0) :
    Low (publishGhost s mid topic payload qos retain dup uid) s
      (s.sendPublish mid topic payload qos retain dup info d uid).1 := by
  refine (sendPublish_low0 s mid topic payload qos retain dup info d uid).mono ?_
  intro p hp i h1 h2
  simp only [List.mem_append, List.mem_singleton] at hp
  rcases hp with hp | rfl
  · exact ⟨p, hp, h1, h2⟩
  · rcases h with h | h
    · rw [h] at h2; cases h2
    · exact absurd h1 h

theorem failQueuedQos0_low (s : S) (q : List OutPkt) (hq : ∀ p ∈ q, p ∈ s.outq) :
    Low [] s (s.failQueuedQos0 q) := by
  suffices h : ∀ t, Low [] s t → Low [] s (t.failQueuedQos0 q) from h s (Low.refl s)
  induction q with
  | nil => intro t ht; exact ht
  | cons p rest ih =>
    intro t ht
    unfold failQueuedQos0
    extract_lets t1
    apply ih (fun p' hp' => hq p' (List.mem_cons_of_mem _ hp'))
    unfold t1
    split
    · rename_i hc
      split
      · rename_i i hi
        exact Low.trans0' (Low.setInfo_pub i _ (fun _ => rfl) ht ⟨p, hq p (by simp), hc.2, hi⟩) (Low.emit_ng _ _ rfl)
      · exact ht
    · exact ht

theorem handleOnMessage_low (s : S) (m : InMsg) : Low [] s (s.handleOnMessage m).1 := by
  unfold handleOnMessage
  extract_lets s1
  have h1 : Low [] s s1 := Low.emit_ng _ _ rfl
  split
  · exact Low.trans0 h1 (by low_upd)
  · exact h1

theorem messagesReconnectResetIn_low (s : S) : Low [] s s.messagesReconnectResetIn := by
  unfold messagesReconnectResetIn
  split <;> low_upd

theorem connectAsync_low (s : S) : Low [] s s.connectAsync := by
  unfold connectAsync
  exact Low.trans0 (sockClose_low _ _) (by low_upd)

/-- what identifies a stored message: packet id, QoS, instance id -/
def key (m : OutMsg) : Nat × Nat × Nat := (m.mid, m.qos, m.info)

/-- effect of a handler that only rewrites `state`/`dup` of stored messages -/
structure Same (g : List Ev) (s s' : S) : Prop where
  keys : s'.out.map key = s.out.map key
  lastMid : s'.lastMid = s.lastMid
  infosLen : s'.infos.length = s.infos.length
  cfg : s'.cfg = s.cfg
  outq : ∀ p' ∈ s'.outq, ∀ i, p'.qos = 0 → p'.info = some i → ∃ p ∈ s.outq, p.qos = 0 ∧ p.info = some i
  pub : ∀ j, pubAt s' j = pubAt s j ∨
        (pubAt s' j = some true ∧ ∃ p ∈ s.outq, p.qos = 0 ∧ p.info = some j)
  log : ∃ evs, s'.log = s.log ++ evs ∧ evs.filter isGhost = g

theorem Low.same {g : List Ev} {s s' : S} (h : Low g s s') : Same g s s' :=
  ⟨by rw [h.out], h.lastMid, h.infosLen, h.cfg, h.outq, h.pub, h.log⟩

theorem Same.refl (s : S) : Same [] s s := (Low.refl s).same

theorem Same.trans {g1 g2 : List Ev} {a b c : S} (h1 : Same g1 a b) (h2 : Same g2 b c) :
    Same (g1 ++ g2) a c := by
  refine ⟨h2.keys.trans h1.keys, h2.lastMid.trans h1.lastMid, h2.infosLen.trans h1.infosLen,
    h2.cfg.trans h1.cfg, ?_, ?_, ?_⟩
  · intro p'' hp'' i hq hi
    obtain ⟨p', hp', e1, e2⟩ := h2.outq p'' hp'' i hq hi
    exact h1.outq p' hp' i e1 e2
  · intro j
    rcases h2.pub j with h | ⟨h, p', hp', hq, hi⟩
    · rcases h1.pub j with h' | ⟨h', hw⟩
      · exact Or.inl (h.trans h')
      · exact Or.inr ⟨h.trans h', hw⟩
    · exact Or.inr ⟨h, h1.outq p' hp' j hq hi⟩
  · obtain ⟨e1, he1, hg1⟩ := h1.log
    obtain ⟨e2, he2, hg2⟩ := h2.log
    exact ⟨e1 ++ e2, by rw [he2, he1, List.append_assoc], by rw [List.filter_append, hg1, hg2]⟩

theorem Same.trans0 {g : List Ev} {a b c : S} (h1 : Same [] a b) (h2 : Same g b c) : Same g a c := by
  simpa using h1.trans h2

theorem Same.trans0' {g : List Ev} {a b c : S} (h1 : Same g a b) (h2 : Same [] b c) : Same g a c := by
  simpa using h1.trans h2

theorem Same.pubMono {g : List Ev} {s s' : S} (h : Same g s s') (i : Nat) (hp : pubAt s i = some true) :
    pubAt s' i = some true := by
  rcases h.pub i with h' | h'
  · rw [h', hp]
  · exact h'.1

theorem Same.pinv {g : List Ev} {s s' : S} (h : Same g s s') (P : Nat → Prop) (hp : PInv P s) : PInv P s' := by
  obtain ⟨hp1, hp2⟩ := hp
  refine ⟨?_, ?_⟩
  · intro i hPi
    rcases h.pub i with h' | ⟨_, p, hp, hq0, hpi⟩
    · rw [h']; exact hp1 i hPi
    · exact absurd hPi (hp2 p hp hq0 i hpi)
  · intro p' hp' hq0 i hpi
    obtain ⟨p, hp, e1, e2⟩ := h.outq p' hp' i hq0 hpi
    exact hp2 p hp e1 i e2

/-- update of `out` (keys kept), `inflight` and fields the frame does not look at -/
theorem Same.upd {s s' : S}
    (hkeys : s'.out.map key = s.out.map key) (hmid : s'.lastMid = s.lastMid) (hinfos : s'.infos = s.infos)
    (hcfg : s'.cfg = s.cfg) (hq : s'.outq = s.outq) (hlog : s'.log = s.log) : Same [] s s' := by
  refine ⟨hkeys, hmid, by rw [hinfos], hcfg, ?_, ?_, ⟨[], by simp [hlog], rfl⟩⟩
  · intro p' hp' i h1 h2; exact ⟨p', hq ▸ hp', h1, h2⟩
  · intro j; left; simp [pubAt, hinfos]

theorem key_resetOutMsg (c : Bool) (m : OutMsg) : key (resetOutMsg c m) = key m := by
  unfold resetOutMsg
  repeat' split
  all_goals rfl

theorem map_key_map {f : OutMsg → OutMsg} (hf : ∀ m, key (f m) = key m) (l : List OutMsg) :
    (l.map f).map key = l.map key := by
  rw [List.map_map]; congr 1; funext m; exact hf m

theorem map_key_set (l : List OutMsg) (idx : Nat) (m m' : OutMsg) (h : l[idx]? = some m) (hk : key m' = key m) :
    (l.set idx m').map key = l.map key := by
  rw [List.map_set, hk]
  apply List.ext_getElem? 
  intro j
  rw [List.getElem?_set]
  split
  · subst_vars
    simp only [List.length_map, List.getElem?_map, h, Option.map_some]
    have := (List.getElem?_eq_some_iff.mp h).1
    simp [this]
  · rfl

theorem messagesReconnectResetOut_same (s : S) : Same [] s s.messagesReconnectResetOut := by
  unfold messagesReconnectResetOut
  apply Same.upd <;> try rfl
  exact map_key_map (key_resetOutMsg _) _

theorem Same.sub_outq {s : S} (q : List OutPkt) (hq : ∀ p ∈ q, p ∈ s.outq) :
    Same [] s { s with outq := q } := (Low.sub_outq q hq).same

theorem reconnect_same (s : S) (ok : Bool) : Same [] s (s.reconnect ok).1 := by
  unfold reconnect
  split
  · exact Same.refl s
  · extract_lets s1 s2 s3 s4 s5 s6 c s7 s8 s9
    have h1 : Same [] s s1 := (by low_upd : Low [] s s1).same
    have h2 : Same [] s s2 := h1.trans0 (sockClose_low _ _).same
    have h3 : Same [] s s3 := h2.trans0 (failQueuedQos0_low _ _ (fun _ h => h)).same
    have h4 : Same [] s s4 := h3.trans0 ((Same.sub_outq [] (by simp)).trans0 (by low_upd : Low [] _ _).same)
    have h5 : Same [] s s5 := h4.trans0 ((messagesReconnectResetOut_same _).trans0 (messagesReconnectResetIn_low _).same)
    have h6 : Same [] s s6 := h5.trans0 (Low.emit_ng _ _ rfl).same
    split
    · exact h6
    · have h7 : Same [] s s7 := h6.trans0 (by apply Same.upd <;> rfl)
      have h8 : Same [] s s8 := h7.trans0 (Low.emit_ng _ _ rfl).same
      have h9 : Same [] s s9 := by
        unfold s9
        split
        · split
          · exact h8.trans0 (Low.emit_ng _ _ rfl).same
          · exact h8.trans0 (Low.emit_ng _ _ rfl).same
        · exact h8
      exact h9.trans0 (sendConnect_low _).same

theorem connect_same (s : S) (ok : Bool) : Same [] s (s.connect ok).1 := by
  unfold connect
  extract_lets s1
  have h1 : Same [] s s1 := by
    unfold s1; split
    · exact (by low_upd : Low [] _ _).same
    · exact Same.refl s
  exact h1.trans0 ((connectAsync_low _).same.trans0 (reconnect_same _ _))

/-- instance ids of the QoS>0 PUBLISH / PUBREL packets handed to a connection, in order -/
def uidsOf (evs : List Ev) : List Nat := evs.filterMap (fun e => match e with
      | .qPublish _ u _ q _ => if q > 0 then some u else none
      | .qPubrel _ u _ => some u
      | _ => none)

def isCompleted : Ev → Bool
  | .completed .. => true
  | _ => false

/-- no `completed` event -/
def NoCompl (g : List Ev) : Prop := ∀ e ∈ g, isCompleted e = false

theorem NoCompl.nil : NoCompl [] := by intro e he; cases he

theorem NoCompl.append {a b : List Ev} (ha : NoCompl a) (hb : NoCompl b) : NoCompl (a ++ b) := by
  intro e he
  rcases List.mem_append.mp he with h | h
  · exact ha e h
  · exact hb e h

theorem uidsOf_append (a b : List Ev) : uidsOf (a ++ b) = uidsOf a ++ uidsOf b := by
  simp [uidsOf, List.filterMap_append]

theorem Same.infos_eq {g : List Ev} {s s' : S} (h : Same g s s') :
    s'.out.map (·.info) = s.out.map (·.info) := by
  have := congrArg (List.map (fun k : Nat × Nat × Nat => k.2.2)) h.keys
  simpa [List.map_map, key, Function.comp_def] using this

theorem Same.mids_eq {g : List Ev} {s s' : S} (h : Same g s s') :
    s'.out.map (·.mid) = s.out.map (·.mid) := by
  have := congrArg (List.map (fun k : Nat × Nat × Nat => k.1)) h.keys
  simpa [List.map_map, key, Function.comp_def] using this

theorem publishGhost_cases (s : S) (mid : Nat) (topic payload : Bytes) (qos : Nat) (retain dup : Bool) (u : Nat) :
    publishGhost s mid topic payload qos retain dup (some u) = [] ∨
    ∃ c, s.sock = some c ∧ publishGhost s mid topic payload qos retain dup (some u) = [.qPublish c u mid qos dup] := by
  rcases hs : s.sock with _ | c
  · left; simp [publishGhost, hs]
  · rcases he : encPublish s.proto mid topic payload qos retain dup none with e | b
    · left; simp [publishGhost, hs, he]
    · right; exact ⟨c, rfl, by simp [publishGhost, hs, he]⟩

theorem publishGhost_props (s : S) (mid : Nat) (topic payload : Bytes) (qos : Nat) (retain dup : Bool) (u : Nat) :
    NoCompl (publishGhost s mid topic payload qos retain dup (some u)) ∧
    (uidsOf (publishGhost s mid topic payload qos retain dup (some u))).Sublist [u] := by
  rcases publishGhost_cases s mid topic payload qos retain dup u with h | ⟨c, _, h⟩ <;> rw [h]
  · exact ⟨NoCompl.nil, by simp [uidsOf]⟩
  · refine ⟨by intro e he; simp at he; subst he; rfl, ?_⟩
    simp only [uidsOf, List.filterMap_cons, List.filterMap_nil]
    split <;> simp_all

theorem drop_map_info_cons (l : List OutMsg) (idx : Nat) (m : OutMsg) (h : l[idx]? = some m) :
    (l.drop idx).map (·.info) = m.info :: (l.drop (idx + 1)).map (·.info) := by
  have hlt := (List.getElem?_eq_some_iff.mp h).1
  have hm := (List.getElem?_eq_some_iff.mp h).2
  rw [List.drop_eq_getElem_cons hlt]
  simp [hm]

theorem updateInflight_same (fuel : Nat) : ∀ (s : S) (idx : Nat),
    ∃ g, Same g s (s.updateInflight fuel idx).1 ∧ NoCompl g ∧
      (uidsOf g).Sublist ((s.out.drop idx).map (·.info)) := by
  induction fuel with
  | zero => intro s idx; exact ⟨[], Same.refl s, NoCompl.nil, by simp [uidsOf]⟩
  | succ n ih =>
    intro s idx
    unfold updateInflight
    split
    · exact ⟨[], Same.refl s, NoCompl.nil, by simp [uidsOf]⟩
    · rename_i m hm
      split
      · exact ⟨[], Same.refl s, NoCompl.nil, by simp [uidsOf]⟩
      split
      · split
        · extract_lets m' s1
          have h1 : Same [] s s1 := by
            apply Same.upd <;> try rfl
            exact map_key_set _ _ _ _ hm rfl
          have h2 := (sendPublish_low s1 m.mid m.topic m.payload m.qos m.retain m.dup none true (some m.info) (Or.inl rfl)).same
          obtain ⟨hc2, hu2⟩ := publishGhost_props s1 m.mid m.topic m.payload m.qos m.retain m.dup m.info
          generalize publishGhost s1 m.mid m.topic m.payload m.qos m.retain m.dup (some m.info) = g2 at h2 hc2 hu2
          split
          rename_i s2 rc hsp
          rw [hsp] at h2
          dsimp only at h2 ⊢
          have h12 := h1.trans0 h2
          rw [drop_map_info_cons _ _ _ hm]
          split
          · exact ⟨g2, h12, hc2, hu2.trans (by simp)⟩
          · obtain ⟨g3, h3, hc3, hu3⟩ := ih s2 (idx + 1)
            refine ⟨g2 ++ g3, h12.trans h3, hc2.append hc3, ?_⟩
            rw [uidsOf_append]
            have : (s2.out.drop (idx + 1)).map (·.info) = (s.out.drop (idx + 1)).map (·.info) := by
              rw [List.map_drop, List.map_drop, h12.infos_eq]
            rw [this] at hu3
            exact (hu2.append hu3)
        · obtain ⟨g3, h3, hc3, hu3⟩ := ih s (idx + 1)
          refine ⟨g3, h3, hc3, ?_⟩
          rw [drop_map_info_cons _ _ _ hm]
          exact hu3.trans (List.sublist_cons_self _ _)
      · exact ⟨[], Same.refl s, NoCompl.nil, by simp [uidsOf]⟩

/-- the state right after `_do_on_publish` popped the message and marked its info, before the window is refilled -/
def ackState (s : S) (mid : Nat) (m : OutMsg) : S :=
  { s with
    out := s.out.filter (·.mid ≠ mid)
    infos := s.infos.modify m.info (fun _ => { rc := rcSuccess, published := true })
    inflight := if m.qos > 0 then s.inflight - 1 else s.inflight
    log := s.log ++ [.onPublish mid, .completed m.info mid, .infoDone m.info rcSuccess] }

theorem doOnPublish_spec (s : S) (mid : Nat) (m : OutMsg) (hf : s.out.find? (·.mid = mid) = some m) :
    ∃ g, Same g (ackState s mid m) (s.doOnPublish mid).1 ∧ NoCompl g ∧
      (uidsOf g).Sublist ((ackState s mid m).out.map (·.info)) := by
  unfold doOnPublish
  extract_lets s1
  have hf1 : s1.out.find? (·.mid = mid) = some m := hf
  split
  · rename_i h; rw [hf1] at h; cases h
  · rename_i m' hm'
    rw [hf1] at hm'; cases hm'
    extract_lets s2 s3 s4 s5
    split
    · rename_i hq
      have e5 : s5 = ackState s mid m := by
        simp [s5, s4, s3, s2, s1, ackState, emit, setInfo, hq]
      split
      · split
        rename_i s6 rc hu
        obtain ⟨g, h, hc, hs⟩ := updateInflight_same (s5.out.length + 1) s5 0
        rw [hu] at h
        rw [e5] at h hs
        refine ⟨g, ?_, hc, by simpa using hs⟩
        split <;> exact h
      · rw [e5]; exact ⟨[], Same.refl _, NoCompl.nil, by simp [uidsOf]⟩
    · rename_i hq
      have e4 : s4 = ackState s mid m := by
        simp [s4, s3, s2, s1, ackState, emit, setInfo, hq]
      rw [e4]; exact ⟨[], Same.refl _, NoCompl.nil, by simp [uidsOf]⟩

theorem doOnPublish_none (s : S) (mid : Nat) (hf : s.out.find? (·.mid = mid) = none) :
    Low [] s (s.doOnPublish mid).1 := by
  unfold doOnPublish
  extract_lets s1
  have hf1 : s1.out.find? (·.mid = mid) = none := hf
  split
  · exact Low.trans0 (Low.emit_ng _ _ rfl) (Low.emit_ng _ _ rfl)
  · rename_i m' hm'; rw [hf1] at hm'; cases hm'

theorem any_mid_find (l : List OutMsg) (mid : Nat) (h : l.any (·.mid = mid) = true) :
    ∃ m, l.find? (·.mid = mid) = some m ∧ m ∈ l ∧ m.mid = mid := by
  cases hf : l.find? (·.mid = mid) with
  | none =>
    rw [List.find?_eq_none] at hf
    rw [List.any_eq_true] at h
    obtain ⟨x, hx, hp⟩ := h
    exact absurd hp (hf x hx)
  | some m =>
    exact ⟨m, rfl, List.mem_of_find?_eq_some hf, by simpa using List.find?_some hf⟩

theorem handlePubrec_same (s : S) (mid : Nat) :
    ∃ g, Same g s (s.handlePubrec mid).1 ∧ NoCompl g ∧ (uidsOf g).length ≤ 1 := by
  unfold handlePubrec
  split
  · extract_lets s1
    have h1 : Same [] s s1 := by
      apply Same.upd <;> try rfl
      apply map_key_map
      intro m; split <;> rfl
    refine ⟨_, h1.trans0 (sendPubrel_low s1 mid true).same, ?_, ?_⟩
    · unfold pubrelGhost; split
      · intro e he; simp at he; subst he; rfl
      · exact NoCompl.nil
    · unfold pubrelGhost; split <;> simp [uidsOf]
  · exact ⟨[], Same.refl s, NoCompl.nil, by simp [uidsOf]⟩

theorem sendPuback_low (s : S) (mid : Nat) : Low [] s (s.sendPuback mid).1 := sendCmdMid_low _ _ _ _
theorem sendPubrec_low (s : S) (mid : Nat) : Low [] s (s.sendPubrec mid).1 := sendCmdMid_low _ _ _ _
theorem sendPubcomp_low (s : S) (mid : Nat) : Low [] s (s.sendPubcomp mid).1 := sendCmdMid_low _ _ _ _

theorem handlePublish_low (s : S) (m : InMsg) : Low [] s (s.handlePublish m).1 := by
  unfold handlePublish
  extract_lets m1
  split
  · exact Low.refl s
  · split
    · have h := handleOnMessage_low s m1
      split
      rename_i s1 r he
      rw [he] at h
      split <;> exact h
    · split
      · have h := handleOnMessage_low s m1
        split
        rename_i s1 r he
        rw [he] at h
        dsimp only at h
        split
        · exact h
        · split
          · exact h
          · have h2 := sendPuback_low s1 m1.mid
            split
            rename_i s2 rc he2
            rw [he2] at h2
            exact Low.trans0 h h2
      · split
        · have h := sendPubrec_low s m1.mid
          split
          rename_i s1 rc he
          rw [he] at h
          extract_lets inm
          exact Low.trans0 h (by low_upd)
        · exact Low.refl s

theorem handlePubrel_low (s : S) (mid : Nat) : Low [] s (s.handlePubrel mid).1 := by
  have key : ∀ (p : S × Bool), Low [] s p.1 →
      Low [] s (if p.2 = true then (p.1, HRes.raised "RuntimeError")
        else if p.1.cfg.manualAck = true then (p.1, HRes.rc rcSuccess)
        else ((p.1.sendPubcomp mid).1, HRes.rc (p.1.sendPubcomp mid).2)).1 := by
    intro p hp
    split
    · exact hp
    · split
      · exact hp
      · exact Low.trans0 hp (sendPubcomp_low _ _)
  rcases hfind : s.inm.find? (fun (x : InMsg) => x.mid = mid) with _ | m
  · simp only [handlePubrel, hfind]
    exact key (s, false) (Low.refl s)
  · simp only [handlePubrel, hfind]
    exact key _ (Low.trans0 (by low_upd) (handleOnMessage_low _ _))

theorem handleDisconnect_low (s : S) (r : Option Nat) : Low [] s (s.handleDisconnect r).1 := by
  unfold handleDisconnect
  extract_lets bad s1 s2 s3
  clear_value bad
  cases bad
  · dsimp only
    have h1 : Low [] s s1 := sockClose_low _ _
    have h2 : Low [] s s2 := by
      unfold s2; split <;> exact Low.trans0 h1 (by low_upd)
    exact Low.trans0 h2 (Low.emit_ng _ _ rfl)
  · exact Low.refl s

theorem nodup_map_inj {α β : Type} (f : α → β) : ∀ (l : List α), (l.map f).Nodup →
    ∀ a b, a ∈ l → b ∈ l → f a = f b → a = b := by
  intro l
  induction l with
  | nil => intro _ a b ha; cases ha
  | cons x xs ih =>
    intro hn a b ha hb hab
    simp only [List.map_cons, List.nodup_cons, List.mem_map, not_exists, not_and] at hn
    obtain ⟨hx, hn'⟩ := hn
    simp only [List.mem_cons] at ha hb
    rcases ha with rfl | ha <;> rcases hb with rfl | hb
    · rfl
    · exact absurd hab.symm (hx b hb)
    · exact absurd hab (hx a ha)
    · exact ih hn' a b ha hb hab

theorem find_mid_unique (l : List OutMsg) (hn : (l.map (·.mid)).Nodup) (idx : Nat) (m m' : OutMsg)
    (h : l[idx]? = some m) (hf : l.find? (·.mid = m.mid) = some m') : m' = m := by
  have hmem' : m' ∈ l := List.mem_of_find?_eq_some hf
  have hmid : m'.mid = m.mid := by simpa using List.find?_some hf
  have hmem : m ∈ l := List.mem_of_getElem? h
  exact nodup_map_inj _ l hn m' m hmem' hmem hmid

theorem pubrelGhost_props (s : S) (idx : Nat) (m : OutMsg) (h : s.out[idx]? = some m) :
    NoCompl (pubrelGhost s m.mid) ∧
    ((s.out.map (·.mid)).Nodup → (uidsOf (pubrelGhost s m.mid)).Sublist [m.info]) := by
  unfold pubrelGhost
  split
  · rename_i c m' hs hf
    refine ⟨by intro e he; simp at he; subst he; rfl, ?_⟩
    intro hn
    have := find_mid_unique _ hn idx m m' h hf
    subst this
    simp [uidsOf]
  · exact ⟨NoCompl.nil, fun _ => by simp [uidsOf]⟩

theorem connackResend_same (fuel : Nat) : ∀ (s : S) (idx : Nat) (rc : RC),
    ∃ g, Same g s (s.connackResend fuel idx rc).1 ∧ NoCompl g ∧
      ((s.out.map (·.mid)).Nodup → (uidsOf g).Sublist ((s.out.drop idx).map (·.info))) := by
  induction fuel with
  | zero => intro s idx rc; exact ⟨[], Same.refl s, NoCompl.nil, fun _ => by simp [uidsOf]⟩
  | succ n ih =>
    intro s idx rc
    unfold connackResend
    split
    · exact ⟨[], Same.refl s, NoCompl.nil, fun _ => by simp [uidsOf]⟩
    · rename_i m hm
      split
      · exact ⟨[], Same.refl s, NoCompl.nil, fun _ => by simp [uidsOf]⟩
      split
      · refine ⟨[], ?_, NoCompl.nil, fun _ => by simp [uidsOf]⟩
        exact (loopWrite_low s).same
      · split
        rename_i s2 rc2 stop heq
        have hbody : ∃ g, Same g s s2 ∧ NoCompl g ∧
            ((s.out.map (·.mid)).Nodup → (uidsOf g).Sublist [m.info]) := by
          split at heq
          · dsimp only at heq
            simp only [Prod.mk.injEq] at heq
            obtain ⟨h1, -, -⟩ := heq
            subst h1
            obtain ⟨hc, hu⟩ := publishGhost_props { s with inflight := s.inflight + 1, out := s.out.set idx { m with state := .waitPuback } } m.mid m.topic m.payload m.qos m.retain m.dup m.info
            refine ⟨_, Same.trans0 ?_ (sendPublish_low _ _ _ _ _ _ _ none false (some m.info) (Or.inl rfl)).same, hc, fun _ => hu⟩
            apply Same.upd <;> try rfl
            exact map_key_set _ _ _ _ hm rfl
          · split at heq
            · dsimp only at heq
              simp only [Prod.mk.injEq] at heq
              obtain ⟨h1, -, -⟩ := heq
              subst h1
              obtain ⟨hc, hu⟩ := publishGhost_props { s with inflight := s.inflight + 1, out := s.out.set idx { m with state := .waitPubrec } } m.mid m.topic m.payload m.qos m.retain m.dup m.info
              refine ⟨_, Same.trans0 ?_ (sendPublish_low _ _ _ _ _ _ _ none false (some m.info) (Or.inl rfl)).same, hc, fun _ => hu⟩
              apply Same.upd <;> try rfl
              exact map_key_set _ _ _ _ hm rfl
            · split at heq
              · dsimp only at heq
                simp only [Prod.mk.injEq] at heq
                obtain ⟨h1, -, -⟩ := heq
                subst h1
                have hk : (s.out.set idx { m with state := .waitPubcomp }).map key = s.out.map key :=
                  map_key_set _ _ _ _ hm rfl
                have hidx : ({ s with inflight := s.inflight + 1, out := s.out.set idx { m with state := .waitPubcomp } } : S).out[idx]? = some { m with state := .waitPubcomp } := by
                  simp [(List.getElem?_eq_some_iff.mp hm).1]
                obtain ⟨hc, hu⟩ := pubrelGhost_props _ idx _ hidx
                refine ⟨_, Same.trans0 ?_ (sendPubrel_low _ _ _).same, hc, ?_⟩
                · apply Same.upd <;> try rfl
                  exact hk
                · intro hn
                  apply hu
                  have := congrArg (List.map (fun k : Nat × Nat × Nat => k.1)) hk
                  simp only [List.map_map, key, Function.comp_def] at this
                  show ((s.out.set idx { m with state := .waitPubcomp }).map (·.mid)).Nodup
                  rw [this]; exact hn
              · simp only [Prod.mk.injEq] at heq
                obtain ⟨h1, -, -⟩ := heq
                subst h1
                exact ⟨[], Same.refl _, NoCompl.nil, fun _ => by simp [uidsOf]⟩
        obtain ⟨g2, h2, hc2, hu2⟩ := hbody
        rw [drop_map_info_cons _ _ _ hm]
        split
        · exact ⟨g2, h2, hc2, fun hn => (hu2 hn).trans (by simp)⟩
        · have h3 := (loopWrite_low s2).same
          split
          rename_i s3 _ hlw
          rw [hlw] at h3
          dsimp only at h3
          have h23 := h2.trans0' h3
          obtain ⟨g4, h4, hc4, hu4⟩ := ih s3 (idx + 1) rc2
          refine ⟨g2 ++ g4, h23.trans h4, hc2.append hc4, ?_⟩
          intro hn
          rw [uidsOf_append]
          have e1 : (s3.out.drop (idx + 1)).map (·.info) = (s.out.drop (idx + 1)).map (·.info) := by
            rw [List.map_drop, List.map_drop, h23.infos_eq]
          have hn3 : (s3.out.map (·.mid)).Nodup := by rw [h23.mids_eq]; exact hn
          have := hu4 hn3
          rw [e1] at this
          exact (hu2 hn).append this

/-- the ghost trace of a state-rewriting handler: nothing completes, and the packets handed to the
connection are for stored messages, in store order -/
def Quiet (s : S) (g : List Ev) : Prop :=
  NoCompl g ∧ ((s.out.map (·.mid)).Nodup → (uidsOf g).Sublist (s.out.map (·.info)))

theorem Quiet.nil (s : S) : Quiet s [] := ⟨NoCompl.nil, fun _ => by simp [uidsOf]⟩

/-- state-rewriting handler with a quiet trace -/
def SameQ (s s' : S) : Prop := ∃ g, Same g s s' ∧ Quiet s g

theorem Same.toQ {s s' : S} (h : Same [] s s') : SameQ s s' := ⟨[], h, Quiet.nil s⟩
theorem Low.toSQ {s s' : S} (h : Low [] s s') : SameQ s s' := h.same.toQ

theorem SameQ.trans0 {a b c : S} (h1 : Same [] a b) (h2 : SameQ b c) : SameQ a c := by
  obtain ⟨g, h, hc, hu⟩ := h2
  refine ⟨g, h1.trans0 h, hc, ?_⟩
  intro hn
  rw [← h1.infos_eq]; apply hu; rw [h1.mids_eq]; exact hn

theorem SameQ.trans0' {a b c : S} (h1 : SameQ a b) (h2 : Same [] b c) : SameQ a c := by
  obtain ⟨g, h, hq⟩ := h1
  exact ⟨g, h.trans0' h2, hq⟩

theorem handlePubrec_sameQ (s : S) (mid : Nat) : SameQ s (s.handlePubrec mid).1 := by
  unfold handlePubrec
  split
  · extract_lets s1
    have h1 : Same [] s s1 := by
      apply Same.upd <;> try rfl
      apply map_key_map
      intro m; split <;> rfl
    refine SameQ.trans0 h1 ⟨_, (sendPubrel_low s1 mid true).same, ?_, ?_⟩
    · unfold pubrelGhost; split
      · intro e he; simp at he; subst he; rfl
      · exact NoCompl.nil
    · intro _
      unfold pubrelGhost; split
      · rename_i c m hs hf
        have hmem : m ∈ s1.out := List.mem_of_find?_eq_some hf
        simp only [uidsOf, List.filterMap_cons, List.filterMap_nil, List.singleton_sublist]
        exact List.mem_map_of_mem hmem
      · simp [uidsOf]
  · exact (Same.refl s).toQ

theorem handleConnack_sameQ (s : S) (sp : Bool) (result : Nat) (ok : Bool) :
    SameQ s (s.handleConnack sp result ok).1 := by
  unfold handleConnack
  extract_lets pre s0 s1 shown s3
  clear_value pre
  cases pre
  · dsimp only
    split
    · split
      · exact (Same.refl s).toQ
      · have h1 : Same [] s s0 := by apply Same.upd <;> rfl
        have h2 := h1.trans0 (reconnect_same s0 ok)
        split
        · rename_i s' hr
          rw [hr] at h2
          exact (h2.trans0' (Low.emit_ng _ _ rfl).same).toQ
        · exact h2.toQ
    · have h1 : Low [] s s1 := by
        unfold s1; split
        · low_upd
        · exact Low.refl s
      have h3 : Low [] s s3 := Low.trans0 h1 (Low.emit_ng _ _ rfl)
      split
      · obtain ⟨g, h, hc, hu⟩ := connackResend_same (s3.out.length + 1) s3 0 rcSuccess
        refine SameQ.trans0 h3.same ⟨g, h, hc, ?_⟩
        simpa using hu
      · split <;> exact h3.toSQ
  · exact (Same.refl s).toQ

/-- the packet id acknowledged by a PUBACK / PUBCOMP -/
def ackMid : RxPkt → Option Nat
  | .puback mid => some mid
  | .pubcomp mid => some mid
  | _ => none

def ackItem : RxItem → Option Nat
  | .pkt p => ackMid p
  | _ => none

/-- the result of `_do_on_publish` for a stored message: pop + mark, then a quiet rewriting -/
def AckStep (s : S) (mid : Nat) (m : OutMsg) (s' : S) : Prop :=
  ∃ g, Same g (ackState s mid m) s' ∧ NoCompl g ∧
      (uidsOf g).Sublist ((ackState s mid m).out.map (·.info))

theorem AckStep.trans0' {s : S} {mid : Nat} {m : OutMsg} {a b : S} (h1 : AckStep s mid m a) (h2 : Same [] a b) :
    AckStep s mid m b := by
  obtain ⟨g, h, hq⟩ := h1
  exact ⟨g, h.trans0' h2, hq⟩

theorem find_none_any (l : List OutMsg) (mid : Nat) (h : l.find? (·.mid = mid) = none) :
    l.any (·.mid = mid) = false := by
  rw [List.find?_eq_none] at h
  rw [Bool.eq_false_iff]
  intro ha
  rw [List.any_eq_true] at ha
  obtain ⟨x, hx, hp⟩ := ha
  exact h x hx hp

theorem find_some_any (l : List OutMsg) (mid : Nat) (m : OutMsg) (h : l.find? (·.mid = mid) = some m) :
    l.any (·.mid = mid) = true := by
  rw [List.any_eq_true]
  exact ⟨m, List.mem_of_find?_eq_some h, by simpa using List.find?_some h⟩

theorem handlePubackcomp_none (s : S) (mid : Nat) (h : s.out.find? (·.mid = mid) = none) :
    (s.handlePubackcomp mid).1 = s := by
  simp [handlePubackcomp, find_none_any _ _ h]

theorem handlePubackcomp_some (s : S) (mid : Nat) (m : OutMsg) (h : s.out.find? (·.mid = mid) = some m) :
    AckStep s mid m (s.handlePubackcomp mid).1 := by
  simp only [handlePubackcomp, find_some_any _ _ _ h, if_true]
  exact doOnPublish_spec s mid m h

theorem packetHandle_other (s : S) (p : RxPkt) (ok : Bool)
    (h : ∀ mid, ackMid p = some mid → s.out.find? (·.mid = mid) = none) :
    SameQ s (s.packetHandle p ok).1 := by
  cases p with
  | connack sp rc => exact handleConnack_sameQ _ _ _ _
  | publish m => exact (handlePublish_low _ _).toSQ
  | puback mid =>
    simp only [packetHandle]
    rw [handlePubackcomp_none s mid (h mid rfl)]; exact (Same.refl s).toQ
  | pubcomp mid =>
    simp only [packetHandle]
    rw [handlePubackcomp_none s mid (h mid rfl)]; exact (Same.refl s).toQ
  | pubrec mid => exact handlePubrec_sameQ _ _
  | pubrel mid => exact (handlePubrel_low _ _).toSQ
  | suback mid code => exact (Low.emit_ng _ _ rfl).toSQ
  | unsuback mid => exact (Low.emit_ng _ _ rfl).toSQ
  | pingreq => exact (sendSimple_low _ _).toSQ
  | pingresp => exact (by low_upd : Low [] s _).toSQ
  | disconnect r =>
    simp only [packetHandle]
    split
    · exact (handleDisconnect_low _ _).toSQ
    · exact (Same.refl s).toQ
  | badcmd => exact (Same.refl s).toQ
  | malformed => exact (Same.refl s).toQ

theorem packetHandle_ack (s : S) (p : RxPkt) (ok : Bool) (mid : Nat) (m : OutMsg)
    (hp : ackMid p = some mid) (hf : s.out.find? (·.mid = mid) = some m) :
    AckStep s mid m (s.packetHandle p ok).1 := by
  cases p <;> simp only [ackMid, Option.some.injEq] at hp <;> first | cases hp | skip
  all_goals
    simp only [packetHandle]
    exact handlePubackcomp_some s _ m hf

theorem loopRead_pkt (s : S) (p : RxPkt) (ok : Bool) (c : Nat) (hs : s.sock = some c) :
    Low [] (s.packetHandle p ok).1 (s.loopRead (.pkt p) ok).1 := by
  simp only [loopRead, hs]
  generalize s.packetHandle p ok = r
  obtain ⟨s1, res⟩ := r
  cases res with
  | raised n => exact Low.refl _
  | rc rc =>
    dsimp only
    split
    · exact Low.trans0 (by low_upd) (loopRcHandle_low _ _)
    · split
      · low_upd
      · split <;> low_upd

theorem loopRead_nopkt (s : S) (item : RxItem) (ok : Bool) (h : s.sock = none ∨ ∀ p, item ≠ .pkt p) :
    Low [] s (s.loopRead item ok).1 := by
  unfold loopRead
  split
  · exact Low.refl s
  · rename_i c hs
    rcases h with h | h
    · rw [hs] at h; cases h
    · cases item with
      | pkt p => exact absurd rfl (h p)
      | none => exact Low.refl s
      | eof => exact loopRcHandle_low _ _
      | err => exact loopRcHandle_low _ _

theorem loopRead_other (s : S) (item : RxItem) (ok : Bool)
    (h : ∀ mid, ackItem item = some mid → s.sock = none ∨ s.out.find? (·.mid = mid) = none) :
    SameQ s (s.loopRead item ok).1 := by
  by_cases hp : s.sock = none ∨ ∀ p, item ≠ .pkt p
  · exact (loopRead_nopkt s item ok hp).toSQ
  · rw [not_or] at hp
    obtain ⟨hs, hi⟩ := hp
    cases hsock : s.sock with
    | none => exact absurd hsock hs
    | some c =>
      cases item with
      | pkt p =>
        refine (packetHandle_other s p ok ?_).trans0' (loopRead_pkt s p ok c hsock).same
        intro mid hm
        rcases h mid hm with h | h
        · exact absurd h hs
        · exact h
      | none => exact absurd (fun p => by simp) hi
      | eof => exact absurd (fun p => by simp) hi
      | err => exact absurd (fun p => by simp) hi

theorem loopRead_ack (s : S) (item : RxItem) (ok : Bool) (mid : Nat) (m : OutMsg) (c : Nat)
    (hi : ackItem item = some mid) (hs : s.sock = some c) (hf : s.out.find? (·.mid = mid) = some m) :
    AckStep s mid m (s.loopRead item ok).1 := by
  cases item with
  | pkt p => exact (packetHandle_ack s p ok mid m hi hf).trans0' (loopRead_pkt s p ok c hs).same
  | none => cases hi
  | eof => cases hi
  | err => cases hi

theorem checkKeepalive_low (s : S) : Low [] s s.checkKeepalive := by
  unfold checkKeepalive
  extract_lets k s1
  split
  · exact Low.refl s
  · split
    · exact Low.refl s
    · split
      · split
        · have h := sendSimple_low s 0xC0
          split
          rename_i s1 rc he
          rw [he] at h
          extract_lets s2
          have h2 : Low [] s s2 := by
            unfold s2; split
            · exact Low.trans0 h (by low_upd)
            · exact h
          exact Low.trans0 h2 (by low_upd)
        · have h1 : Low [] s s1 := sockClose_low _ _
          split
          · exact Low.trans0 h1 (Low.trans0 (by low_upd) (doOnDisconnect_low _ _ _))
          · exact Low.trans0 h1 (Low.trans0 (by low_upd) (doOnDisconnect_low _ _ _))
      · exact Low.refl s

theorem loopMisc_low (s : S) : Low [] s s.loopMisc.1 := by
  unfold loopMisc
  split
  · exact Low.refl s
  · extract_lets s1 s2
    have h1 : Low [] s s1 := checkKeepalive_low s
    split
    · exact h1
    · split
      · have h2 : Low [] s s2 := Low.trans0 h1 (sockClose_low _ _)
        split
        rename_i s3 rc he
        have h3 : Low [] s s3 := by
          split at he
          · simp only [Prod.mk.injEq] at he
            obtain ⟨e, -⟩ := he; subst e
            exact Low.trans0 h2 (by low_upd)
          · simp only [Prod.mk.injEq] at he
            obtain ⟨e, -⟩ := he; subst e
            exact Low.trans0 h2 (by low_upd)
        exact Low.trans0 h3 (doOnDisconnect_low _ _ _)
      · exact h1

/-- `subscribe` / `unsubscribe` may advance `_last_mid` -/
def midStep (s : S) (s0 : S) : Prop := s0 = s ∨ s0 = { s with lastMid := midNext s.lastMid }

theorem subscribe_low (s : S) (t : Bytes) (q : Nat) : ∃ s0, midStep s s0 ∧ Low [] s0 (s.subscribe t q) := by
  unfold subscribe
  split
  · exact ⟨s, Or.inl rfl, Low.emit_ng _ _ rfl⟩
  · split
    · exact ⟨s, Or.inl rfl, Low.emit_ng _ _ rfl⟩
    · split
      · exact ⟨s, Or.inl rfl, Low.emit_ng _ _ rfl⟩
      · split
        · exact ⟨s, Or.inl rfl, Low.emit_ng _ _ rfl⟩
        · extract_lets mid s1
          refine ⟨s1, Or.inr rfl, ?_⟩
          split
          · exact Low.emit_ng _ _ rfl
          · have h := packetQueue_low s1 (mkPkt 0x82 mid 1 ‹_›) true (Or.inl rfl)
            split
            rename_i s2 rc he
            rw [he] at h
            exact Low.trans0 h (Low.emit_ng _ _ rfl)

theorem unsubscribe_low (s : S) (t : Bytes) : ∃ s0, midStep s s0 ∧ Low [] s0 (s.unsubscribe t) := by
  unfold unsubscribe
  split
  · exact ⟨s, Or.inl rfl, Low.emit_ng _ _ rfl⟩
  · split
    · exact ⟨s, Or.inl rfl, Low.emit_ng _ _ rfl⟩
    · extract_lets mid s1
      refine ⟨s1, Or.inr rfl, ?_⟩
      split
      · exact Low.emit_ng _ _ rfl
      · have h := packetQueue_low s1 (mkPkt 0xA2 mid 1 ‹_›) true (Or.inl rfl)
        split
        rename_i s2 rc he
        rw [he] at h
        exact Low.trans0 h (Low.emit_ng _ _ rfl)

theorem disconnect_low (s : S) : Low [] s s.disconnect := by
  unfold disconnect
  split
  · exact Low.trans0 (by low_upd) (Low.emit_ng _ _ rfl)
  · extract_lets s1
    have h1 : Low [] s s1 := by low_upd
    split
    · exact Low.trans0 h1 (Low.emit_ng _ _ rfl)
    · have h := packetQueue_low s1 (mkPkt 0xE0 0 0 ‹_›) true (Or.inl rfl)
      split
      rename_i s2 rc he
      rw [he] at h
      exact Low.trans0 h1 (Low.trans0 h (Low.emit_ng _ _ rfl))

theorem ack_low (s : S) (mid qos : Nat) : Low [] s (s.ack mid qos) := by
  unfold ack
  split
  · split
    · exact Low.trans0 (sendPuback_low _ _) (Low.emit_ng _ _ rfl)
    · split
      · exact Low.trans0 (sendPubcomp_low _ _) (Low.emit_ng _ _ rfl)
      · exact Low.emit_ng _ _ rfl
  · exact Low.emit_ng _ _ rfl

/-- `setInfo` with a function that keeps `published` -/
theorem Low.setInfo_keep (s : S) (i : Nat) (f : Info → Info) (hf : ∀ x, (f x).published = x.published) :
    Low [] s (s.setInfo i f) := by
  refine ⟨rfl, rfl, by simp [setInfo], rfl, rfl, rfl, Or.inl rfl, fun p h _ h1 h2 => ⟨p, h, h1, h2⟩, ?_, [], by simp [setInfo], rfl⟩
  intro j
  left
  simp only [pubAt, setInfo, List.getElem?_modify]
  cases s.infos[j]? with
  | none => rfl
  | some x => by_cases h : i = j <;> simp [h, hf]

theorem publishCheckFull_qos (proto : Nat) (topic : List UInt8) (qos : Nat) (ptag : PayloadTag) (plen propsLen : Nat)
    (h : publishCheckFull proto topic (qos : Int) ptag plen propsLen = none) : qos ≤ 2 := by
  unfold publishCheckFull at h
  split at h
  · cases h
  · rename_i hc
    unfold publishCheck at hc
    split at hc
    · cases hc
    · split at hc
      · cases hc
      · split at hc
        · cases hc
        · rename_i hq
          simp [Gen.pubQosLoCmp, Gen.pubQosHiCmp, Gen.pubQosLo, Gen.pubQosHi, Cmp.evalInt] at hq
          omega

/-- what `publish()` does -/
structure PubSpec (s s' : S) (qos : Nat) : Prop where
  keys : s'.out.map key = s.out.map key ∨
    (qos ≠ 0 ∧ qos ≤ 2 ∧ (s.out.any (·.mid = midNext s.lastMid) = false) ∧
      s'.out.map key = s.out.map key ++ [(midNext s.lastMid, qos, s.infos.length)])
  lastMid : s'.lastMid = midNext s.lastMid
  infosLen : s'.infos.length = s.infos.length + 1
  cfg : s'.cfg = s.cfg
  pinv : ∀ P, PInv P s → (qos = 0 → ¬ P s.infos.length) → PInv P s'
  pubMono : ∀ i, pubAt s i = some true → pubAt s' i = some true
  log : ∃ evs, s'.log = s.log ++ evs ∧ NoCompl (evs.filter isGhost)

/-- the state of `publish()` after the packet id and the info were allocated -/
def pubState (s : S) : S :=
  { s with lastMid := midNext s.lastMid,
           infos := s.infos ++ [({ rc := rcSuccess, published := false } : Info)] }

theorem pubAt_pubState (s : S) (i : Nat) :
    pubAt (pubState s) i = if i = s.infos.length then some false else pubAt s i := by
  simp only [pubAt, pubState]
  rw [List.getElem?_append]
  split
  · rename_i h; have : i ≠ s.infos.length := by omega
    simp [this]
  · rename_i h
    by_cases h2 : i = s.infos.length
    · simp [h2]
    · have : s.infos[i]? = none := List.getElem?_eq_none (by omega)
      have h3 : i - s.infos.length ≠ 0 := by omega
      simp [h2, this, h3]

theorem pinv_pubState (s : S) (P : Nat → Prop) (h : PInv P s) : PInv P (pubState s) := by
  refine ⟨?_, h.2⟩
  intro i hP
  rw [pubAt_pubState]
  split
  · simp
  · exact h.1 i hP

theorem pubMono_pubState (s : S) (i : Nat) (h : pubAt s i = some true) : pubAt (pubState s) i = some true := by
  rw [pubAt_pubState]
  split
  · rename_i hi
    subst hi
    simp [pubAt] at h
  · exact h

theorem PubSpec.of_lowQ {s s' : S} {qos : Nat} {g : List Ev} {q : List OutPkt}
    (h : LowQ g q (pubState s) s') (hc : NoCompl g)
    (hq : ∀ p ∈ q, ∀ i, p.qos = 0 → p.info = some i →
      (∃ p' ∈ s.outq, p'.qos = 0 ∧ p'.info = some i) ∨ (qos = 0 ∧ i = s.infos.length)) :
    PubSpec s s' qos := by
  refine ⟨Or.inl (by rw [h.out]; rfl), h.lastMid, by rw [h.infosLen]; simp [pubState], h.cfg, ?_, ?_, ?_⟩
  · intro P hP hN
    have hP' := pinv_pubState s P hP
    refine h.pinv P hP'.1 ?_
    intro p hp hq0 i hi
    rcases hq p hp i hq0 hi with ⟨p', hp', e1, e2⟩ | ⟨e1, e2⟩
    · exact hP.2 p' hp' e1 i e2
    · subst e2; exact hN e1
  · intro i hi
    exact h.pubMono i (pubMono_pubState s i hi)
  · obtain ⟨evs, he, hg⟩ := h.log
    exact ⟨evs, he, hg ▸ hc⟩

theorem PubSpec.of_same {s sB s' : S} {qos : Nat} {g : List Ev}
    (h : Same g sB s') (hc : NoCompl g)
    (hq : qos ≠ 0) (hq2 : qos ≤ 2) (hcol : s.out.any (·.mid = midNext s.lastMid) = false)
    (hB1 : sB.out.map key = s.out.map key ++ [(midNext s.lastMid, qos, s.infos.length)])
    (hB2 : sB.lastMid = midNext s.lastMid) (hB3 : sB.infos = (pubState s).infos) (hB4 : sB.cfg = s.cfg)
    (hB5 : sB.outq = s.outq) (hB6 : sB.log = s.log) :
    PubSpec s s' qos := by
  refine ⟨Or.inr ⟨hq, hq2, hcol, by rw [h.keys, hB1]⟩, h.lastMid.trans hB2, ?_, h.cfg.trans hB4, ?_, ?_, ?_⟩
  · rw [h.infosLen, hB3]; simp [pubState]
  · intro P hP _
    apply h.pinv P
    have hP' := pinv_pubState s P hP
    refine ⟨?_, ?_⟩
    · intro i hi
      have : pubAt sB i = pubAt (pubState s) i := by simp [pubAt, hB3]
      rw [this]; exact hP'.1 i hi
    · rw [hB5]; exact hP.2
  · intro i hi
    apply h.pubMono
    have : pubAt sB i = pubAt (pubState s) i := by simp [pubAt, hB3]
    rw [this]; exact pubMono_pubState s i hi
  · obtain ⟨evs, he, hg⟩ := h.log
    exact ⟨evs, by rw [he, hB6], hg ▸ hc⟩

theorem publishGhost_noCompl (s : S) (mid : Nat) (topic payload : Bytes) (qos : Nat) (retain dup : Bool) (u : Option Nat) :
    NoCompl (publishGhost s mid topic payload qos retain dup u) := by
  cases u with
  | none =>
    rcases hs : s.sock with _ | c
    · simp only [publishGhost, hs]; exact NoCompl.nil
    · rcases he : encPublish s.proto mid topic payload qos retain dup none with e | b <;>
        simp only [publishGhost, hs, he] <;> exact NoCompl.nil
  | some u => exact (publishGhost_props s mid topic payload qos retain dup u).1

theorem publish_spec (s : S) (qos : Nat) (topic payload : Bytes) (retain : Bool) :
    Low [] s (s.publish qos topic payload retain) ∨ PubSpec s (s.publish qos topic payload retain) qos := by
  unfold publish
  split
  · exact Or.inl (Low.emit_ng _ _ rfl)
  · exact Or.inl (Low.emit_ng _ _ rfl)
  · right
    rename_i hvalid
    have hq2 : qos ≤ 2 := publishCheckFull_qos _ _ _ _ _ _ hvalid
    extract_lets mid s1 N s2 m m' sB sB'
    have e2 : s2 = pubState s := rfl
    split
    · rename_i hq0
      have h := sendPublish_low0 s2 mid topic payload 0 retain false (some N) true (some N)
      have hc := publishGhost_noCompl s2 mid topic payload 0 retain false (some N)
      generalize publishGhost s2 mid topic payload 0 retain false (some N) = g at h hc
      split
      rename_i s3 rc he
      rw [he] at h
      dsimp only at h ⊢
      have h' := (h.trans0' (Low.setInfo_keep s3 N (fun x => { x with rc := rc }) (fun _ => rfl))).trans0' (Low.emit_ng _ (.ret rc (some mid)) rfl)
      rw [e2] at h'
      refine PubSpec.of_lowQ h' hc ?_
      intro p hp i h1 h2
      simp only [List.mem_append, List.mem_singleton] at hp
      rcases hp with hp | rfl
      · exact Or.inl ⟨p, hp, h1, h2⟩
      · right
        simp only [mkPkt, Option.some.injEq] at h2
        exact ⟨hq0, h2.symm⟩
    · rename_i hq0
      have hrefuse : ∀ rc : RC, PubSpec s ((s2.setInfo N (fun x => { x with rc := rc })).emit (.ret rc (some mid))) qos := by
        intro rc
        have h' : Low [] s2 ((s2.setInfo N (fun x => { x with rc := rc })).emit (.ret rc (some mid))) :=
          Low.trans0 (Low.setInfo_keep s2 N (fun x => { x with rc := rc }) (fun _ => rfl)) (Low.emit_ng _ _ rfl)
        rw [e2] at h'
        refine PubSpec.of_lowQ h' NoCompl.nil ?_
        intro p hp i h1 h2
        exact Or.inl ⟨p, hp, h1, h2⟩
      split
      · exact hrefuse _
      · split
        · exact hrefuse _
        · rename_i hcol
          have hcol' : s.out.any (·.mid = midNext s.lastMid) = false := by
            simpa using hcol
          split
          · have h := sendPublish_low sB mid topic payload qos retain false (some N) true (some N) (Or.inr hq0)
            have hc := publishGhost_noCompl sB mid topic payload qos retain false (some N)
            generalize publishGhost sB mid topic payload qos retain false (some N) = g at h hc
            split
            rename_i s3 rc he
            rw [he] at h
            dsimp only at h
            extract_lets s4
            have h4 : Same g sB s4 := by
              unfold s4
              split
              · refine h.same.trans0' ?_
                apply Same.upd <;> try rfl
                apply map_key_map
                intro x; split <;> rfl
              · exact h.same
            have h' := (h4.trans0' (Low.setInfo_keep s4 N (fun x => { x with rc := rc }) (fun _ => rfl)).same).trans0' (Low.emit_ng _ (.ret rc (some mid)) rfl).same
            refine PubSpec.of_same h' hc hq0 hq2 hcol' ?_ rfl rfl rfl rfl rfl
            simp [sB, s2, s1, m', m, key, mid, N]
          · have h' : Same [] sB' ((sB'.setInfo N (fun x => { x with rc := rcSuccess })).emit (.ret rcSuccess (some mid))) :=
              (Low.trans0 (Low.setInfo_keep sB' N (fun x => { x with rc := rcSuccess }) (fun _ => rfl)) (Low.emit_ng _ _ rfl)).same
            refine PubSpec.of_same h' NoCompl.nil hq0 hq2 hcol' ?_ rfl rfl rfl rfl rfl
            simp [sB', s2, s1, m, key, mid, N]

/-- the packet id finally acknowledged by an op -/
def ackOp : Op → Option Nat
  | .rx item _ => ackItem item
  | _ => none

theorem step_ack (s : S) (op : Op) (mid : Nat) (m : OutMsg) (c : Nat)
    (h : ackOp op = some mid) (hs : s.sock = some c) (hf : s.out.find? (·.mid = mid) = some m) :
    AckStep s mid m (s.step op) := by
  cases op <;> simp only [ackOp] at h <;> first | cases h | skip
  rename_i item ok
  simp only [S.step]
  exact (loopRead_ack s item ok mid m c h hs hf).trans0' (Low.emit_ng _ _ (by cases (s.loopRead item ok).2 <;> rfl)).same

theorem step_publish (s : S) (q : Nat) (t p : Bytes) (r : Bool) :
    Low [] s (s.step (.publish q t p r)) ∨ PubSpec s (s.step (.publish q t p r)) q :=
  publish_spec s q t p r

theorem hresEv_ng (r : HRes) : isGhost (hresEv r) = false := by cases r <;> rfl

theorem SameQ.of_midStep_low {s s' : S} (h : ∃ s0, midStep s s0 ∧ Low [] s0 s') :
    ∃ s0, midStep s s0 ∧ SameQ s0 s' := by
  obtain ⟨s0, h1, h2⟩ := h
  exact ⟨s0, h1, h2.toSQ⟩

theorem step_other (s : S) (op : Op) (hnp : ∀ q t p r, op ≠ .publish q t p r)
    (h : ∀ mid, ackOp op = some mid → s.sock = none ∨ s.out.find? (·.mid = mid) = none) :
    ∃ s0, midStep s s0 ∧ SameQ s0 (s.step op) := by
  cases op with
  | connect ok =>
    exact ⟨s, Or.inl rfl, ((connect_same s ok).trans0' (Low.emit_ng _ _ (hresEv_ng _)).same).toQ⟩
  | reconnect ok =>
    exact ⟨s, Or.inl rfl, ((reconnect_same s ok).trans0' (Low.emit_ng _ _ (hresEv_ng _)).same).toQ⟩
  | connectAsync => exact ⟨s, Or.inl rfl, (connectAsync_low s).toSQ⟩
  | rx item ok =>
    exact ⟨s, Or.inl rfl, (loopRead_other s item ok h).trans0' (Low.emit_ng _ _ (hresEv_ng _)).same⟩
  | publish q t p r => exact absurd rfl (hnp q t p r)
  | subscribe t q => exact SameQ.of_midStep_low (subscribe_low s t q)
  | unsubscribe t => exact SameQ.of_midStep_low (unsubscribe_low s t)
  | disconnect => exact ⟨s, Or.inl rfl, (disconnect_low s).toSQ⟩
  | loopWrite => exact ⟨s, Or.inl rfl, (Low.trans0 (loopWrite_low s) (Low.emit_ng _ _ rfl)).toSQ⟩
  | loopMisc => exact ⟨s, Or.inl rfl, (Low.trans0 (loopMisc_low s) (Low.emit_ng _ _ rfl)).toSQ⟩
  | tick ms => exact ⟨s, Or.inl rfl, (by low_upd : Low [] s _).toSQ⟩
  | send sc => exact ⟨s, Or.inl rfl, (by low_upd : Low [] s _).toSQ⟩
  | ack m q => exact ⟨s, Or.inl rfl, (ack_low s m q).toSQ⟩
  | raiseOnMessage n => exact ⟨s, Or.inl rfl, (by low_upd : Low [] s _).toSQ⟩

end Paho.OutLemmas
