/-
First bytes of the packets produced by the encoders (used by C03: manual acknowledgement).
-/
import Paho.Model.Codec
namespace Paho.InLemmas
open Paho

/-- bytes that are neither a PUBACK nor a PUBCOMP packet -/
def NotAck (b : Bytes) : Prop := b.head? ≠ some 0x40 ∧ b.head? ≠ some 0x70

theorem encCmdMid_ok (cmd mid : Nat) (h : mid ≤ 65535) :
    encCmdMid cmd (mid : Int) false = .ok [b8 cmd, 2, b8 (mid / 256), b8 (mid % 256)] := by
  have h1 : (0 : Int) ≤ (mid : Int) ∧ (mid : Int) ≤ 65535 := by omega
  simp [encCmdMid, packU16, h1, bind, Except.bind, pure, Except.pure]

theorem encCmdMid_head {cmd : Nat} {mid : Int} {bytes : Bytes} (h : encCmdMid cmd mid false = .ok bytes) :
    bytes.head? = some (b8 cmd) := by
  unfold encCmdMid packU16 at h
  simp only [bind, Except.bind, pure, Except.pure] at h
  split at h
  · cases h
  · cases h; rfl

macro "enc_head" h:ident : tactic => `(tactic|
  (simp only [bind, Except.bind, pure, Except.pure] at $h:ident
   repeat' (split at $h:ident)
   all_goals first
     | (cases $h:ident; done)
     | (cases $h:ident; simp; done)
     | skip))

theorem encPublish_head {proto mid : Nat} {topic payload : Bytes} {qos : Nat} {retain dup : Bool} {bytes : Bytes}
    (h : encPublish proto mid topic payload qos retain dup none = .ok bytes) :
    bytes.head? = some (b8 (0x30 ||| ((boolBit dup &&& 0x1) <<< 3) ||| (qos <<< 1) ||| boolBit retain)) := by
  unfold encPublish at h
  enc_head h

theorem bind_ok {ε α β : Type} {x : Except ε α} {f : α → Except ε β} {b : β} (h : x >>= f = .ok b) :
    ∃ a, x = .ok a ∧ f a = .ok b := by
  cases x with
  | error e => cases h
  | ok a => exact ⟨a, rfl, h⟩

theorem encConnect_head {a : ConnectArgs} {bytes : Bytes} (hw : a.will = none) (hu : a.username = none)
    (h : encConnect a = .ok bytes) : bytes.head? = some (b8 0x10) := by
  unfold encConnect at h
  simp only [hw, hu] at h
  obtain ⟨cprops, _, h⟩ := bind_ok h
  obtain ⟨wprops, _, h⟩ := bind_ok h
  obtain ⟨rlb, _, h⟩ := bind_ok h
  obtain ⟨ka, _, h⟩ := bind_ok h
  obtain ⟨cid, _, h⟩ := bind_ok h
  obtain ⟨willPart, _, h⟩ := bind_ok h
  obtain ⟨userPart, _, h⟩ := bind_ok h
  cases h
  simp

theorem encSubscribe_head {proto mid : Nat} {ts : List (Bytes × Nat)} {bytes : Bytes}
    (h : encSubscribe proto mid ts none = .ok bytes) : bytes.head? = some (b8 0x82) := by
  unfold encSubscribe at h
  enc_head h

theorem encUnsubscribe_head {proto mid : Nat} {ts : List Bytes} {bytes : Bytes}
    (h : encUnsubscribe proto mid ts none = .ok bytes) : bytes.head? = some (b8 0xA2) := by
  unfold encUnsubscribe at h
  enc_head h

theorem encDisconnect_head {proto : Nat} {bytes : Bytes}
    (h : encDisconnect proto none none = .ok bytes) : bytes.head? = some (b8 0xE0) := by
  unfold encDisconnect at h
  enc_head h

end Paho.InLemmas
