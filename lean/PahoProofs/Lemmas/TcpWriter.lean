/-
Lemmas for the packet-level model of `_packet_queue` / `_packet_write` over a raw socket (Paho.Model.TcpWriter).
-/
import Paho.Model.TcpWriter

namespace Paho.TcpW
open Paho Paho.Ws

/-- accepted bytes of the packet in flight -/
def headSent : List Pkt → Bytes
  | [] => []
  | p :: _ => p.bytes.take p.pos

structure Inv (s : St) : Prop where
  fifo : s.done ++ s.queue.map (·.bytes) = s.enq
  tail : ∀ p ∈ s.queue.tail, p.pos = 0 ∧ p.toProcess = (p.bytes.length : Int) ∧ p.bytes ≠ []
  head : ∀ p rest, s.queue = p :: rest → p.pos < p.bytes.length ∧ p.toProcess = (p.bytes.length : Int) - (p.pos : Int)
  wire : s.wire = s.done.flatten ++ headSent s.queue

theorem inv_init : Inv {} := by
  refine ⟨rfl, ?_, ?_, rfl⟩
  · intro p hp; cases hp
  · intro p rest h; cases h

theorem inv_enqueue {s : St} (h : Inv s) (p : Bytes) (hp : p ≠ []) : Inv (enqueue s p) := by
  obtain ⟨fifo, tail, head, wire⟩ := h
  have hpos : 0 < p.length := List.length_pos_iff.2 hp
  refine ⟨?_, ?_, ?_, ?_⟩
  · simp only [enqueue, List.map_append, List.map_cons, List.map_nil, ← List.append_assoc, fifo]
  · intro q hq
    simp only [enqueue] at hq
    cases hs : s.queue with
    | nil =>
      rw [hs] at hq; simp at hq
    | cons a rest =>
      rw [hs] at hq
      simp only [List.cons_append, List.tail_cons, List.mem_append, List.mem_singleton] at hq
      rcases hq with hq | rfl
      · exact tail q (by rw [hs]; exact hq)
      · exact ⟨rfl, rfl, hp⟩
  · intro q rest hq
    simp only [enqueue] at hq
    cases hs : s.queue with
    | nil =>
      rw [hs] at hq
      simp only [List.nil_append, List.cons.injEq] at hq
      obtain ⟨rfl, _⟩ := hq
      exact ⟨hpos, by simp⟩
    | cons a rest' =>
      rw [hs] at hq
      simp only [List.cons_append, List.cons.injEq] at hq
      obtain ⟨rfl, _⟩ := hq
      exact head a rest' hs
  · simp only [enqueue]
    rw [wire]
    cases hs : s.queue <;> simp [headSent]

@[simp] theorem headSent_cons (p : Pkt) (rest : List Pkt) : headSent (p :: rest) = p.bytes.take p.pos := rfl

theorem iter_cons (s : St) (p : Pkt) (rest : List Pkt) (out : SockSend) (hq : s.queue = p :: rest) :
    iter s out =
      (match out with
       | .wouldBlock => (s, some .again)
       | .error => (s, some .connLost)
       | .accept k =>
         let n := min k (p.bytes.drop p.pos).length
         let s1 : St := { s with wire := s.wire ++ (p.bytes.drop p.pos).take n }
         if n > 0 then
           if p.toProcess - (n : Int) = 0 then ({ s1 with queue := rest, done := s1.done ++ [p.bytes] }, none)
           else ({ s1 with queue := { p with toProcess := p.toProcess - n, pos := p.pos + n } :: rest }, none)
         else (s1, some .success)) := by
  obtain ⟨queue, wire, enq, done⟩ := s
  simp only at hq
  subst hq
  cases out <;> rfl

theorem iter_nil (s : St) (out : SockSend) (hq : s.queue = []) : iter s out = (s, some .success) := by
  unfold iter; rw [hq]

theorem inv_iter {s : St} (h : Inv s) (out : SockSend) :
    Inv (iter s out).1 ∧
      ((iter s out).2 = none →
        ((iter s out).1.queue.length + 1 = s.queue.length ∨ (iter s out).1.queue.length = s.queue.length) ∧
        (∀ k, out = .accept k → headRemaining s ≤ k → (iter s out).1.queue.length + 1 = s.queue.length)) := by
  cases hq : s.queue with
  | nil => rw [iter_nil s out hq]; exact ⟨h, by simp⟩
  | cons p rest =>
    obtain ⟨fifo, tail, head, wire⟩ := h
    obtain ⟨hpos, htp⟩ := head p rest hq
    have hdl : (p.bytes.drop p.pos).length = p.bytes.length - p.pos := by simp
    have hinv : Inv s := ⟨fifo, tail, head, wire⟩
    rw [iter_cons s p rest out hq]
    cases out with
    | wouldBlock => exact ⟨hinv, by simp⟩
    | error => exact ⟨hinv, by simp⟩
    | accept k =>
      simp only
      by_cases hn : min k (p.bytes.drop p.pos).length > 0
      · rw [if_pos hn]
        by_cases hz : p.toProcess - ((min k (p.bytes.drop p.pos).length : Nat) : Int) = 0
        · -- the packet is complete: popped for good
          rw [if_pos hz]
          have hfull : min k (p.bytes.drop p.pos).length = p.bytes.length - p.pos := by
            rw [htp, hdl] at hz; rw [hdl]; omega
          have hrest : headSent rest = [] := by
            cases hr : rest with
            | nil => rfl
            | cons x r =>
              have hx' : x ∈ s.queue.tail := by rw [hq, List.tail_cons, hr]; exact List.mem_cons_self
              rw [headSent_cons, (tail x hx').1]; rfl
          refine ⟨⟨?_, ?_, ?_, ?_⟩, ?_⟩
          · show (s.done ++ [p.bytes]) ++ rest.map (·.bytes) = s.enq
            rw [← fifo, hq]; simp
          · intro x hx
            exact tail x (by rw [hq]; exact List.mem_of_mem_tail hx)
          · intro x r hx
            have hx' : x ∈ s.queue.tail := by
              rw [hq, List.tail_cons]
              have : rest = x :: r := hx
              rw [this]; exact List.mem_cons_self
            obtain ⟨h0, ht, hne⟩ := tail x hx'
            exact ⟨by rw [h0]; exact List.length_pos_iff.2 hne, by rw [ht, h0]; simp⟩
          · show s.wire ++ (p.bytes.drop p.pos).take (min k (p.bytes.drop p.pos).length) =
              (s.done ++ [p.bytes]).flatten ++ headSent rest
            rw [wire, hq, headSent_cons, hrest, hfull, ← hdl, List.take_length]
            simp only [List.flatten_append, List.flatten_cons, List.flatten_nil, List.append_nil, List.append_assoc]
            rw [List.take_append_drop]
          · intro _
            exact ⟨Or.inl rfl, fun _ _ _ => rfl⟩
        · -- part of the packet accepted: go round again with the position advanced
          rw [if_neg hz]
          have hle : min k (p.bytes.drop p.pos).length ≤ p.bytes.length - p.pos := by
            rw [← hdl]; exact Nat.min_le_right _ _
          have hlt : min k (p.bytes.drop p.pos).length < p.bytes.length - p.pos := by
            rw [htp] at hz
            omega
          refine ⟨⟨?_, ?_, ?_, ?_⟩, ?_⟩
          · show s.done ++ (p.bytes :: rest.map (·.bytes)) = s.enq
            rw [← fifo, hq]; simp
          · intro x hx
            exact tail x (by rw [hq]; exact hx)
          · intro x r hx
            have hx1 : ({ p with toProcess := p.toProcess - ((min k (p.bytes.drop p.pos).length : Nat) : Int),
                                 pos := p.pos + min k (p.bytes.drop p.pos).length } : Pkt) = x := (List.cons.inj hx).1
            subst hx1
            refine ⟨by show p.pos + _ < p.bytes.length; omega, ?_⟩
            show p.toProcess - _ = (p.bytes.length : Int) - ((p.pos + _ : Nat) : Int)
            rw [htp]; push_cast; omega
          · show s.wire ++ (p.bytes.drop p.pos).take (min k (p.bytes.drop p.pos).length) =
              s.done.flatten ++ p.bytes.take (p.pos + min k (p.bytes.drop p.pos).length)
            rw [wire, hq, headSent_cons, List.append_assoc, List.take_add]
          · intro _
            refine ⟨Or.inr rfl, ?_⟩
            intro k' hk hrem
            cases hk
            exfalso
            have hr : headRemaining s = p.bytes.length - p.pos := by simp [headRemaining, hq]
            rw [hr] at hrem
            rw [hdl] at hlt
            have := Nat.min_eq_right hrem
            omega
      · rw [if_neg hn]
        have h0 : min k (p.bytes.drop p.pos).length = 0 := by omega
        refine ⟨⟨fifo, tail, head, ?_⟩, by simp⟩
        show s.wire ++ (p.bytes.drop p.pos).take (min k (p.bytes.drop p.pos).length) = s.done.flatten ++ headSent s.queue
        rw [h0, List.take_zero, List.append_nil, wire]

theorem inv_packetWrite (fuel : Nat) : ∀ (s : St) (outs : List SockSend), Inv s →
    Inv (packetWrite fuel s outs).1 ∧ (outs.length + s.queue.length < fuel → (packetWrite fuel s outs).2 ≠ .stuck) := by
  induction fuel with
  | zero => intro s outs h; exact ⟨h, fun hf => by omega⟩
  | succ fuel ih =>
    intro s outs h
    have hi := inv_iter h (outs.headD (.accept (headRemaining s)))
    unfold packetWrite
    cases hr : iter s (outs.headD (.accept (headRemaining s))) with
    | mk s' r =>
      rw [hr] at hi
      cases r with
      | some r =>
        simp only
        refine ⟨hi.1, fun _ hst => ?_⟩
        subst hst
        unfold iter at hr
        split at hr
        · cases hr
        · split at hr
          · cases hr
          · cases hr
          · simp only at hr
            split at hr
            · split at hr <;> cases hr
            · cases hr
      | none =>
        simp only
        obtain ⟨hlen, hfull⟩ := hi.2 rfl
        have := ih s' outs.tail hi.1
        refine ⟨this.1, fun hf => this.2 ?_⟩
        cases outs with
        | nil =>
          have := hfull (headRemaining s) rfl (Nat.le_refl _)
          simp only [List.length_nil, List.tail_nil] at *
          omega
        | cons o os =>
          simp only [List.length_cons, List.tail_cons] at *
          rcases hlen with h1 | h1 <;> omega

def OpsOk (ops : List Op) : Prop := ∀ op ∈ ops, ∀ p, op = Op.enq p → p ≠ []

theorem inv_step {s : St} (h : Inv s) (op : Op) (hop : ∀ p, op = Op.enq p → p ≠ []) : Inv (step s op).1 := by
  cases op with
  | enq p => exact inv_enqueue h p (hop p rfl)
  | write outs => exact (inv_packetWrite _ s outs h).1

theorem inv_run (s : St) (ops : List Op) (h : Inv s) (hops : OpsOk ops) : Inv (run s ops) := by
  induction ops generalizing s with
  | nil => exact h
  | cons op ops ih =>
    simp only [run, List.foldl_cons]
    exact ih _ (inv_step h op (hops op List.mem_cons_self)) (fun o ho => hops o (List.mem_cons_of_mem _ ho))

end Paho.TcpW
