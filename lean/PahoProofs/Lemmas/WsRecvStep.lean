/-
One `_recv_impl` call against the frames still to come: the invariant `Inv`, the ghost bookkeeping
(`partialData`, `mu`) and the step relation `StepRel` every call satisfies (`recv_step`).
-/
import PahoProofs.Lemmas.WsRecvRead
namespace Paho.Ws
open Paho

/-! ### invariant and ghost state -/

/-- `fs`: the frames not yet consumed completely (the first one may be partly buffered / partly delivered) -/
def Inv (fs : List Frame) (st : RecvSt) (q : List RecvItem) : Prop :=
  (∀ f ∈ fs, f.wf) ∧ (st.readbuffer ++ flat q <+: encs fs) ∧
  match fs with
  | [] => st.payloadHead = 0
  | f :: _ => st.readbuffer.length ≤ f.enc.length ∧ (st.payloadHead < f.payload.length ∨ st.payloadHead = 0)

/-- the part of the current frame's payload that has been handed to the application -/
def partialData : List Frame → Nat → Bytes
  | [], _ => []
  | f :: _, ph => if f.isData then f.payload.take ph else []

def weight : List Frame → Nat
  | [] => 0
  | f :: fs => 1 + f.payload.length + weight fs

/-- termination measure of the receive loop -/
def mu (fs : List Frame) (st : RecvSt) (q : List RecvItem) : Nat := qMeasure q + (weight fs - st.payloadHead)

def bytesOf : RecvRes → Bytes
  | .data b => b
  | _ => []

theorem partialData_zero (fs : List Frame) : partialData fs 0 = [] := by
  cases fs with
  | nil => rfl
  | cons f fs => simp [partialData]

/-- what one call does, relative to the frames `fs` still to come: it consumes `cons` (nothing or the first frame) -/
structure StepRel (fs : List Frame) (st : RecvSt) (q : List RecvItem) (n : Nat)
    (o : RecvSt × List RecvItem × RecvRes × List Bytes) (cons fs' : List Frame) : Prop where
  split : fs = cons ++ fs'
  inv : Inv fs' o.1 o.2.1
  data : partialData fs st.payloadHead ++ bytesOf o.2.2.1 = dataOf cons ++ partialData fs' o.1.payloadHead
  sent : (∀ f ∈ cons, f.ctlUnmasked) → o.2.2.2 = owedAll cons
  bound : (bytesOf o.2.2.1).length ≤ n
  nonempty : ∀ b, o.2.2.1 = .data b → 1 ≤ n → b ≠ []
  mu_le : mu fs' o.1 o.2.1 ≤ mu fs st q
  complete : st.readbuffer ++ flat q = encs fs →
    o.1.readbuffer ++ flat o.2.1 = encs fs' ∧ (1 ≤ n → fs ≠ [] → mu fs' o.1 o.2.1 < mu fs st q)
  conn : (o.2.2.1 = .closed → o.1.connected = false) ∧ (o.2.2.1 ≠ .closed → o.1.connected = st.connected)

/-! ### list helpers -/

theorem prefix_split {A B C D : Bytes} (h : A ++ B <+: C ++ D) (hl : A.length = C.length) : A = C ∧ B <+: D := by
  obtain ⟨t, ht⟩ := h
  rw [List.append_assoc] at ht
  have := List.append_inj ht hl
  exact ⟨this.1, ⟨t, this.2⟩⟩

theorem take_append_slice (l : Bytes) {a b : Nat} (h : a ≤ b) : l.take a ++ (l.drop a).take (b - a) = l.take b := by
  have : b = a + (b - a) := by omega
  rw [this, List.take_add]
  simp

theorem enc_le_encs (f : Frame) (fs : List Frame) : f.enc.length ≤ (encs (f :: fs)).length := by
  simp [encs]

theorem replies_eq_owed (f : Frame) (p : Bytes) (h : f.ctlUnmasked) (hp : f.mask = none → p = f.payload) :
    replies f.opcode p = f.owed := by
  unfold replies Frame.owed
  by_cases h9 : f.opcode = 9
  · have := hp (h (Or.inl h9))
    simp [h9, this]
  · by_cases h8 : f.opcode = 8
    · have := hp (h (Or.inr h8))
      simp [h8, this]
    · simp [h8, h9]

/-! ### the call gives up (BlockingIOError / ConnectionError before the payload step is done) -/

theorem fail_case {fs : List Frame} {st : RecvSt} {q : List RecvItem} (n : Nat) (hI : Inv fs st q)
    {c' : Cur} {T : Nat} (hF : Fail { buf := st.readbuffer, head := 0, q := q } c' T)
    (hT : ∀ f rest, fs = f :: rest → T ≤ f.enc.length)
    (res : RecvRes) (conn : Bool) (hres : bytesOf res = [] ∧ (∀ b, res ≠ .data b))
    (hconn : (res = .closed → conn = false) ∧ (res ≠ .closed → conn = st.connected)) :
    StepRel fs st q n ({ st with readbuffer := c'.buf, connected := conn }, c'.q, res, []) [] fs := by
  obtain ⟨hwf, hpre, hm⟩ := hI
  have hst : c'.buf ++ flat c'.q = st.readbuffer ++ flat q := hF.stream
  refine ⟨rfl, ⟨hwf, by simpa [hst] using hpre, ?_⟩, by simp [hres.1, dataOf], fun _ => rfl, by simp [hres.1],
    fun b hb => absurd hb (hres.2 b), ?_, ?_, hconn⟩
  · cases fs with
    | nil => exact hm
    | cons f rest =>
      have := hT f rest rfl
      have := hF.short
      exact ⟨by simp only; omega, hm.2⟩
  · have : qMeasure c'.q ≤ qMeasure q := hF.meas
    simp only [mu]; omega
  · intro hc
    refine ⟨by simpa [hst] using hc, ?_⟩
    intro _ hne
    cases fs with
    | nil => exact absurd rfl hne
    | cons f rest =>
      have h1 := hT f rest rfl
      have h2 := enc_le_encs f rest
      have h3 : ({ buf := st.readbuffer, head := 0, q := q } : Cur).stream.length = (encs (f :: rest)).length := by
        simp only [Cur.stream]; rw [hc]
      have : qMeasure c'.q < qMeasure q := hF.progress (by omega)
      simp only [mu]; omega

/-! ### unfolding `recvImpl` along the outcome of its two stages -/

section unfold
variable (st : RecvSt) (q : List RecvItem) (n : Nat)

theorem recvImpl_hdr_block {c : Cur} (h : readHeader { buf := st.readbuffer, head := 0, q := q } = .block c) :
    recvImpl st q n = ({ st with readbuffer := c.buf }, c.q, .wouldBlock, []) := by
  simp [recvImpl, h]

theorem recvImpl_hdr_closed {c : Cur} (h : readHeader { buf := st.readbuffer, head := 0, q := q } = .closed c) :
    recvImpl st q n = ({ st with readbuffer := c.buf, connected := false }, c.q, .closed, []) := by
  simp [recvImpl, h]

/-- `readindex` -/
def rIdx (st : RecvSt) (n plen : Nat) : Nat := if plen < st.payloadHead + n then plen else st.payloadHead + n

theorem recvImpl_pl_block {hd : Hdr} {c1 c : Cur}
    (h : readHeader { buf := st.readbuffer, head := 0, q := q } = .ok hd c1)
    (h2 : readPayload hd st.payloadHead (rIdx st n hd.plen) c1 = .block c) :
    recvImpl st q n = ({ st with readbuffer := c.buf }, c.q, .wouldBlock, []) := by
  simp only [rIdx] at h2
  simp [recvImpl, h, h2]

theorem recvImpl_pl_closed {hd : Hdr} {c1 c : Cur}
    (h : readHeader { buf := st.readbuffer, head := 0, q := q } = .ok hd c1)
    (h2 : readPayload hd st.payloadHead (rIdx st n hd.plen) c1 = .closed c) :
    recvImpl st q n = ({ st with readbuffer := c.buf, connected := false }, c.q, .closed, []) := by
  simp only [rIdx] at h2
  simp [recvImpl, h, h2]

theorem recvImpl_pl_ok {hd : Hdr} {c1 c : Cur} {payload result : Bytes} {ph : Nat}
    (h : readHeader { buf := st.readbuffer, head := 0, q := q } = .ok hd c1)
    (h2 : readPayload hd st.payloadHead (rIdx st n hd.plen) c1 = .ok (payload, result, ph) c) :
    recvImpl st q n =
      (if rIdx st n hd.plen = hd.plen then
        ({ st with readbuffer := [], payloadHead := 0 }, c.q,
          (if (hd.opcode = 2 ∨ hd.opcode = 0) ∧ hd.plen > 0 then RecvRes.data result else RecvRes.wouldBlock),
          replies hd.opcode payload)
      else
        ({ st with readbuffer := c.buf, payloadHead := ph }, c.q,
          (if (hd.opcode = 2 ∨ hd.opcode = 0) ∧ hd.plen > 0 then RecvRes.data result else RecvRes.wouldBlock), [])) := by
  simp only [rIdx] at h2 ⊢
  simp only [recvImpl, h, h2]
  split <;> rfl

end unfold

/-- no frame is expected and nothing will arrive: the first `_buffered_read(1)` gives up -/
theorem readHeader_nil (c : Cur) (h0 : c.head = 0) (hs : c.stream = []) :
    (∃ c', readHeader c = .block c' ∧ Fail c c' 1) ∨ (∃ c', readHeader c = .closed c' ∧ Fail c c' 1) := by
  have hb : c.buf = [] := by
    have : c.buf ++ flat c.q = [] := hs
    exact (List.append_eq_nil_iff.mp this).1
  have hsp := bufferedRead_spec 1 c (by omega)
  unfold readHeader
  cases hr : bufferedRead 1 c with
  | ok a c' =>
    rw [hr] at hsp
    have h1 := hsp.1.stream_len
    have h2 := hsp.2.1
    rw [hs] at h1
    simp at h1
    omega
  | block c' =>
    rw [hr] at hsp
    rw [h0] at hsp
    exact Or.inl ⟨c', rfl, hsp⟩
  | closed c' =>
    rw [hr] at hsp
    rw [h0] at hsp
    exact Or.inr ⟨c', rfl, hsp⟩

theorem recv_step_nil (st : RecvSt) (q : List RecvItem) (n : Nat) (hI : Inv [] st q) :
    StepRel [] st q n (recvImpl st q n) [] [] := by
  have hs : ({ buf := st.readbuffer, head := 0, q := q } : Cur).stream = [] := by
    have := hI.2.1
    simpa [encs, Cur.stream] using this
  rcases readHeader_nil { buf := st.readbuffer, head := 0, q := q } rfl hs with ⟨c', hr, hF⟩ | ⟨c', hr, hF⟩
  · rw [recvImpl_hdr_block st q n hr]
    exact fail_case n hI hF (fun f rest h => by cases h) .wouldBlock st.connected ⟨rfl, fun b h => by cases h⟩
      ⟨(fun h => by cases h), fun _ => rfl⟩
  · rw [recvImpl_hdr_closed st q n hr]
    exact fail_case n hI hF (fun f rest h => by cases h) .closed false ⟨rfl, fun b h => by cases h⟩
      ⟨fun _ => rfl, fun h => absurd rfl h⟩

/-! ### a frame is at the front -/

/-- the result handed to the caller -/
def resOf (f : Frame) (result : Bytes) : RecvRes :=
  if (f.opcode = 2 ∨ f.opcode = 0) ∧ f.payload.length > 0 then RecvRes.data result else RecvRes.wouldBlock

theorem bytesOf_resOf (f : Frame) (result : Bytes) :
    bytesOf (resOf f result) = if f.isData ∧ f.payload.length > 0 then result else [] := by
  unfold resOf Frame.isData
  split <;> rfl

theorem resOf_ne_closed (f : Frame) (result : Bytes) : resOf f result ≠ .closed := by
  unfold resOf; split <;> intro h <;> cases h

theorem resOf_data {f : Frame} {result b : Bytes} (h : resOf f result = .data b) :
    b = result ∧ f.isData ∧ f.payload.length > 0 := by
  unfold resOf at h
  split at h
  · rename_i hc; cases h; exact ⟨rfl, hc.1, hc.2⟩
  · cases h

/-- the payload step reached the end of the frame -/
theorem step_complete {f : Frame} {rest : List Frame} {st : RecvSt} {q : List RecvItem} (n : Nat)
    (hI : Inv (f :: rest) st q) {c2 : Cur} (ok2 : Ok { buf := st.readbuffer, head := 0, q := q } c2)
    (hc2 : c2.head = f.hdrLen + f.payload.length) (hn : f.payload.length ≤ st.payloadHead + n)
    {result pl : Bytes} (hres : result = (f.payload.drop st.payloadHead).take (f.payload.length - st.payloadHead))
    (hpl : f.mask = none → pl = f.payload.take f.payload.length) :
    StepRel (f :: rest) st q n
      ({ st with readbuffer := [], payloadHead := 0 }, c2.q, resOf f result, replies f.opcode pl) [f] rest := by
  obtain ⟨hwf, hpre, hbuf, hph⟩ := hI
  have hencl := f.enc_length
  have hphle : st.payloadHead ≤ f.payload.length := by omega
  -- the buffer holds exactly the frame
  have hlen : c2.buf.length = f.enc.length := by
    have h1 := ok2.headLe
    have h2 : c2.buf.length ≤ max st.readbuffer.length c2.head := ok2.bufMax
    omega
  have hst : c2.buf ++ flat c2.q = st.readbuffer ++ flat q := ok2.stream
  have hsplit := prefix_split (A := c2.buf) (B := flat c2.q) (C := f.enc) (D := encs rest)
    (by rw [hst]; simpa [encs] using hpre) hlen
  have hresult : result = f.payload.drop st.payloadHead := by
    rw [hres, List.take_of_length_le (by simp)]
  refine ⟨rfl, ⟨fun g hg => hwf g (by simp [hg]), by simpa using hsplit.2, ?_⟩, ?_, ?_, ?_, ?_, ?_, ?_,
    ⟨fun h => absurd h (resOf_ne_closed _ _), fun _ => rfl⟩⟩
  · cases rest with
    | nil => rfl
    | cons g gs => exact ⟨by simp, Or.inr rfl⟩
  · -- data
    show partialData (f :: rest) st.payloadHead ++ bytesOf (resOf f result) = dataOf [f] ++ partialData rest 0
    rw [partialData_zero rest]
    simp only [partialData, bytesOf_resOf, dataOf, List.append_nil]
    by_cases hd : f.isData
    · simp only [hd, if_true, true_and]
      by_cases h0 : f.payload.length > 0
      · rw [if_pos h0, hresult, List.take_append_drop]
      · have : f.payload = [] := List.eq_nil_of_length_eq_zero (by omega)
        simp [this]
    · simp [hd]
  · -- replies
    intro hc
    have := replies_eq_owed f pl (hc f (by simp)) (fun h => by rw [hpl h, List.take_length])
    simp [this, owedAll]
  · -- bound
    rw [bytesOf_resOf]
    split
    · rw [hresult]; simp; omega
    · simp
  · -- non-empty
    intro b hb h1
    obtain ⟨rfl, _, hpos⟩ := resOf_data hb
    have hlt : st.payloadHead < f.payload.length := by omega
    intro hnil
    have : (f.payload.drop st.payloadHead).length = 0 := by rw [← hresult, hnil]; rfl
    simp at this; omega
  · -- measure
    have : qMeasure c2.q ≤ qMeasure q := ok2.meas
    simp only [mu, weight]; omega
  · intro hc
    have hfull : c2.buf ++ flat c2.q = f.enc ++ encs rest := by rw [hst, hc]; rfl
    have hb : c2.buf = f.enc := hsplit.1
    rw [hb] at hfull
    refine ⟨by simpa using List.append_cancel_left hfull, ?_⟩
    intro _ _
    have : qMeasure c2.q ≤ qMeasure q := ok2.meas
    simp only [mu, weight]; omega

/-- the payload step stopped inside the frame (`readindex = _payload_head + length < payload_length`) -/
theorem step_partial {f : Frame} {rest : List Frame} {st : RecvSt} {q : List RecvItem} (n : Nat)
    (hI : Inv (f :: rest) st q) {c2 : Cur} (ok2 : Ok { buf := st.readbuffer, head := 0, q := q } c2)
    (hc2 : c2.head = f.hdrLen + (st.payloadHead + n)) (hn : st.payloadHead + n < f.payload.length)
    {result : Bytes} {ph' : Nat} (hres : result = (f.payload.drop st.payloadHead).take (st.payloadHead + n - st.payloadHead))
    (hph' : ph' = if st.payloadHead + n > 0 then st.payloadHead + n else st.payloadHead) :
    StepRel (f :: rest) st q n
      ({ st with readbuffer := c2.buf, payloadHead := ph' }, c2.q, resOf f result, []) [] (f :: rest) := by
  obtain ⟨hwf, hpre, hbuf, hph⟩ := hI
  have hencl := f.enc_length
  have hp : ph' = st.payloadHead + n := by rw [hph']; split <;> omega
  subst hp
  have hst : c2.buf ++ flat c2.q = st.readbuffer ++ flat q := ok2.stream
  have hresult : result = (f.payload.drop st.payloadHead).take n := by rw [hres]; congr 1; omega
  have hrlen : result.length = n := by rw [hresult]; simp; omega
  refine ⟨rfl, ⟨hwf, by simpa [hst] using hpre, ?_⟩, ?_, fun _ => rfl, ?_, ?_, ?_, ?_,
    ⟨fun h => absurd h (resOf_ne_closed _ _), fun _ => rfl⟩⟩
  · have h2 : c2.buf.length ≤ max st.readbuffer.length c2.head := ok2.bufMax
    exact ⟨by simp only; omega, Or.inl hn⟩
  · simp only [partialData, bytesOf_resOf, dataOf, List.nil_append]
    by_cases hd : f.isData
    · have h0 : f.payload.length > 0 := by omega
      simp only [hd, h0, if_true, and_self]
      rw [hres, take_append_slice f.payload (by omega)]
    · simp [hd]
  · rw [bytesOf_resOf]; split
    · omega
    · simp
  · intro b hb h1
    obtain ⟨rfl, _, _⟩ := resOf_data hb
    intro hnil
    rw [hnil] at hrlen
    simp at hrlen; omega
  · have : qMeasure c2.q ≤ qMeasure q := ok2.meas
    simp only [mu]; omega
  · intro hc
    refine ⟨by simpa [hst] using hc, ?_⟩
    intro h1 _
    have : qMeasure c2.q ≤ qMeasure q := ok2.meas
    simp only [mu, weight]; omega

theorem recv_step_cons (f : Frame) (rest : List Frame) (st : RecvSt) (q : List RecvItem) (n : Nat)
    (hI : Inv (f :: rest) st q) :
    ∃ cons fs', StepRel (f :: rest) st q n (recvImpl st q n) cons fs' := by
  have hwf_f : f.wf := hI.1 f (by simp)
  have hencl := f.enc_length
  have hp0 : ({ buf := st.readbuffer, head := 0, q := q } : Cur).stream <+: f.enc ++ encs rest := hI.2.1
  have hs := readHeader_spec (encs rest) hwf_f { buf := st.readbuffer, head := 0, q := q } rfl hp0
  cases hr : readHeader { buf := st.readbuffer, head := 0, q := q } with
  | block c' =>
    rw [hr] at hs
    rw [recvImpl_hdr_block st q n hr]
    exact ⟨[], _, fail_case n hI hs (fun g r h => by cases h; omega) .wouldBlock st.connected
      ⟨rfl, fun b h => by cases h⟩ ⟨(fun h => by cases h), fun _ => rfl⟩⟩
  | closed c' =>
    rw [hr] at hs
    rw [recvImpl_hdr_closed st q n hr]
    exact ⟨[], _, fail_case n hI hs (fun g r h => by cases h; omega) .closed false
      ⟨rfl, fun b h => by cases h⟩ ⟨fun _ => rfl, fun h => absurd rfl h⟩⟩
  | ok hd c1 =>
    rw [hr] at hs
    obtain ⟨ok1, hhd, hc1⟩ := hs
    subst hhd
    have hrle : rIdx st n f.payload.length ≤ f.payload.length := by unfold rIdx; split <;> omega
    have hp1 : c1.stream <+: f.enc ++ encs rest := by rw [ok1.stream]; exact hp0
    have hs2 := Spec.rebase ok1
      (readPayload_spec (encs rest) c1 ok1.headLe hc1 hp1 st.payloadHead (rIdx st n f.payload.length) hrle)
    cases hr2 : readPayload { opcode := f.opcode, plen := f.payload.length, key := f.mask } st.payloadHead
        (rIdx st n f.payload.length) c1 with
    | block c' =>
      rw [hr2] at hs2
      rw [recvImpl_pl_block st q n hr hr2]
      exact ⟨[], _, fail_case n hI hs2 (fun g r h => by cases h; omega) .wouldBlock st.connected
        ⟨rfl, fun b h => by cases h⟩ ⟨(fun h => by cases h), fun _ => rfl⟩⟩
    | closed c' =>
      rw [hr2] at hs2
      rw [recvImpl_pl_closed st q n hr hr2]
      exact ⟨[], _, fail_case n hI hs2 (fun g r h => by cases h; omega) .closed false
        ⟨rfl, fun b h => by cases h⟩ ⟨fun _ => rfl, fun h => absurd rfl h⟩⟩
    | ok x c2 =>
      obtain ⟨pl, result, ph'⟩ := x
      rw [hr2] at hs2
      obtain ⟨ok2, hres, hph', hpl, hc2⟩ := hs2
      simp only at hres hph' hpl
      rw [recvImpl_pl_ok st q n hr hr2]
      simp only
      by_cases hcomp : rIdx st n f.payload.length = f.payload.length
      · rw [if_pos hcomp]
        rw [hcomp] at hres hpl hc2
        have hn : f.payload.length ≤ st.payloadHead + n := by
          unfold rIdx at hcomp; split at hcomp <;> omega
        exact ⟨[f], rest, step_complete n hI ok2 hc2 hn hres hpl⟩
      · rw [if_neg hcomp]
        have hri : rIdx st n f.payload.length = st.payloadHead + n := by
          unfold rIdx at hcomp ⊢; split <;> simp_all
        have hn : st.payloadHead + n < f.payload.length := by omega
        rw [hri] at hres hph' hc2
        exact ⟨[], f :: rest, step_partial n hI ok2 hc2 hn hres hph'⟩

/-- **every `_recv_impl` call** keeps the invariant and accounts for what it delivers and sends -/
theorem recv_step (fs : List Frame) (st : RecvSt) (q : List RecvItem) (n : Nat) (hI : Inv fs st q) :
    ∃ cons fs', StepRel fs st q n (recvImpl st q n) cons fs' := by
  cases fs with
  | nil => exact ⟨[], [], recv_step_nil st q n hI⟩
  | cons f rest => exact recv_step_cons f rest st q n hI

end Paho.Ws
