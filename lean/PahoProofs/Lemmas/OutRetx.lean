/-
State-dependent invariant of the message store (queued messages form a tail behind a full
window, stored messages can be encoded) and the retransmission lemma for `_handle_connack`.
-/
import PahoProofs.Lemmas.OutInv
import Paho.Model.Validate
namespace Paho.OutLemmas
open Paho Paho.S

/-- the PUBLISH of these message fields can be encoded under protocol `proto` -/
def EncOk (proto : Nat) (mid : Nat) (topic payload : Bytes) (qos : Nat) : Prop :=
  ∀ r d, ∃ b, encPublish proto mid topic payload qos r d none = .ok b

theorem encPublish_proto (p p' : Nat) (h : p ≠ 5) (h' : p' ≠ 5) (mid : Nat) (topic payload : Bytes) (qos : Nat)
    (r d : Bool) : encPublish p mid topic payload qos r d none = encPublish p' mid topic payload qos r d none := by
  simp [encPublish, packProps, h, h']

theorem EncOk.proto {p p' : Nat} (h : p ≠ 5) (h' : p' ≠ 5) {mid : Nat} {topic payload : Bytes} {qos : Nat}
    (he : EncOk p mid topic payload qos) : EncOk p' mid topic payload qos := by
  intro r d
  rw [← encPublish_proto p p' h h']
  exact he r d

theorem check_facts (proto : Nat) (topic : Bytes) (qos : Nat) (plen propsLen : Nat)
    (h : publishCheckFull proto topic (qos : Int) .bytes plen propsLen = none) :
    topic.length ≤ 65535 ∧ 2 + topic.length + plen + (if qos > 0 then 2 else 0) + propsLen ≤ 268435455 := by
  cases hpc : publishCheck proto topic (qos : Int) .bytes plen with
  | some e => simp [publishCheckFull, hpc] at h
  | none =>
    simp [publishCheckFull, hpc, Gen.pubRemLenCmp, Gen.pubRemLenMax, Cmp.evalNat, publishRemLen] at h
    have h2 : (2 + topic.length + plen + if 0 < qos then 2 else 0) + propsLen ≤ 268435455 := h
    refine ⟨?_, by omega⟩
    unfold publishCheck at hpc
    split at hpc
    · cases hpc
    · split at hpc
      · cases hpc
      · rename_i htop
        simp only [topicInvalid, Gen.topicLenCmp, Gen.topicLenMax, Cmp.evalNat, Bool.or_eq_true, decide_eq_true_eq, not_or] at htop
        omega

theorem encOk_of_check (proto : Nat) (mid : Nat) (topic payload : Bytes) (qos : Nat) (hmid : mid ≤ 65535)
    (h : publishCheckFull proto topic (qos : Int) .bytes payload.length (if proto = 5 then 1 else 0) = none) :
    EncOk proto mid topic payload qos := by
  intro r d
  obtain ⟨htl, hrl⟩ := check_facts _ _ _ _ _ h
  have hpp : ∃ pp, packProps proto none = .ok pp ∧ pp.length = (if proto = 5 then 1 else 0) := by
    by_cases hp : proto = 5
    · exact ⟨[0], by simp [packProps, hp], by simp [hp]⟩
    · exact ⟨[], by simp [packProps, hp], by simp [hp]⟩
  obtain ⟨pp, hpp, hppl⟩ := hpp
  have hstr : ∃ t, str16 topic = .ok t := by
    simp only [str16, packU16, bind, Except.bind]
    have : (0 : Int) ≤ (topic.length : Int) ∧ (topic.length : Int) ≤ 65535 := by omega
    simp [this, pure, Except.pure]
  obtain ⟨t, ht⟩ := hstr
  have hrlb : remLenEncChecked (2 + topic.length + payload.length + (if qos > 0 then 2 else 0) + pp.length) =
      .ok (remLenEnc (2 + topic.length + payload.length + (if qos > 0 then 2 else 0) + pp.length)) := by
    simp only [remLenEncChecked, Gen.rlGuardCmp, Gen.rlGuardMax, Cmp.evalNat]
    rw [hppl]
    have : ¬ (2 + topic.length + payload.length + (if qos > 0 then 2 else 0) + (if proto = 5 then 1 else 0) > 268435455) := by omega
    simp [this]
  simp only [encPublish, hpp, bind, Except.bind, hrlb, ht]
  split
  · have : (0 : Int) ≤ (mid : Int) ∧ (mid : Int) ≤ 65535 := by omega
    simp [packU16, this, pure, Except.pure]
  · simp [pure, Except.pure]

/-- no message in state `publish` / `resendPubrel` is stored behind a queued one -/
def QRel (a b : OutMsg) : Prop := a.state = .queued → b.state ≠ .publish ∧ b.state ≠ .resendPubrel

/-- state-dependent invariant; `k` is the slack of the window test (0 at op boundaries) -/
structure SInvP (k : Int) (s : S) : Prop where
  qos : ∀ m ∈ s.out, m.qos = 1 ∨ m.qos = 2
  q1 : s.out.Pairwise QRel
  q2 : (∃ m ∈ s.out, m.state = .queued) → s.cfg.maxInflight > 0 ∧ s.inflight + k ≥ s.cfg.maxInflight
  rel : ∀ m ∈ s.out, m.state = .resendPubrel → m.qos = 2
  enc : ∀ m ∈ s.out, m.mid ≤ 65535 ∧ EncOk s.proto m.mid m.topic m.payload m.qos

abbrev SInv (s : S) : Prop := SInvP 0 s

theorem SInv.init (cfg : Cfg) (proto t : Nat) : SInv (S.init cfg proto t) := by
  refine ⟨?_, ?_, ?_, ?_, ?_⟩ <;> simp [S.init]

theorem SInvP.of_eq {k : Int} {s s' : S} (hout : s'.out = s.out) (hinf : s'.inflight = s.inflight)
    (hcfg : s'.cfg = s.cfg) (hproto : s'.proto = s.proto) (h : SInvP k s) : SInvP k s' := by
  refine ⟨?_, ?_, ?_, ?_, ?_⟩
  · rw [hout]; exact h.qos
  · rw [hout]; exact h.q1
  · rw [hout, hcfg, hinf]; exact h.q2
  · rw [hout]; exact h.rel
  · rw [hout, hproto]; exact h.enc

theorem LowQ.sinv {g : List Ev} {q : List OutPkt} {k : Int} {s s' : S} (h : LowQ g q s s') (hs : SInvP k s) :
    SInvP k s' :=
  SInvP.of_eq h.out h.inflight h.cfg h.proto hs

theorem pairwise_set {α : Type} {R : α → α → Prop} (a : α) (h1 : ∀ x, R x a) (h2 : ∀ x, R a x) :
    ∀ (l : List α) (i : Nat), l.Pairwise R → (l.set i a).Pairwise R := by
  intro l
  induction l with
  | nil => intro i h; simp
  | cons x xs ih =>
    intro i h
    rw [List.pairwise_cons] at h
    cases i with
    | zero =>
      simp only [List.set_cons_zero, List.pairwise_cons]
      exact ⟨fun b _ => h2 b, h.2⟩
    | succ i =>
      simp only [List.set_cons_succ, List.pairwise_cons]
      refine ⟨?_, ih i h.2⟩
      intro b hb
      rcases List.mem_or_eq_of_mem_set hb with hb | rfl
      · exact h.1 b hb
      · exact h1 x

/-- a stored message leaves `publish`/`resendPubrel`/`queued` for a waiting state and takes a window slot -/
theorem SInvP.set_wait {k : Int} {s : S} (h : SInvP k s) (idx : Nat) (m m' : OutMsg) (hm : s.out[idx]? = some m)
    (hmid : m'.mid = m.mid) (hqos : m'.qos = m.qos) (htop : m'.topic = m.topic) (hpay : m'.payload = m.payload)
    (hst : m'.state ≠ .queued ∧ m'.state ≠ .publish ∧ m'.state ≠ .resendPubrel) (d : Int) (hd : 0 ≤ d) :
    SInvP k { s with inflight := s.inflight + d, out := s.out.set idx m' } := by
  have hmem : m ∈ s.out := List.mem_of_getElem? hm
  have hsub : ∀ x ∈ s.out.set idx m', x ∈ s.out ∨ x = m' := fun x hx => List.mem_or_eq_of_mem_set hx
  refine ⟨?_, ?_, ?_, ?_, ?_⟩
  · intro x hx
    rcases hsub x hx with hx | rfl
    · exact h.qos x hx
    · rw [hqos]; exact h.qos m hmem
  · exact pairwise_set m' (fun x _ => ⟨hst.2.1, hst.2.2⟩) (fun x hq => absurd hq hst.1) _ _ h.q1
  · rintro ⟨x, hx, hxq⟩
    rcases hsub x hx with hx | rfl
    · have := h.q2 ⟨x, hx, hxq⟩
      exact ⟨this.1, by have h2 := this.2; show s.inflight + d + k ≥ (s.cfg.maxInflight : Int); omega⟩
    · exact absurd hxq hst.1
  · intro x hx hr
    rcases hsub x hx with hx | rfl
    · exact h.rel x hx hr
    · exact absurd hr hst.2.2
  · intro x hx
    rcases hsub x hx with hx | rfl
    · exact h.enc x hx
    · rw [hmid, hqos, htop, hpay]; exact h.enc m hmem

theorem resetOutMsg_state (c : Bool) (m : OutMsg) (hq : m.qos = 1 ∨ m.qos = 2) :
    (resetOutMsg c m).state ≠ .queued ∧ ((resetOutMsg c m).state = .resendPubrel → m.qos = 2) := by
  unfold resetOutMsg
  rcases hq with hq | hq
  · simp [hq]
  · rw [if_neg (by omega), if_neg (by omega), if_pos hq]
    split
    · simp [hq]
    · split <;> simp [hq]

theorem resetOutMsg_fields (c : Bool) (m : OutMsg) :
    (resetOutMsg c m).mid = m.mid ∧ (resetOutMsg c m).qos = m.qos ∧
    (resetOutMsg c m).topic = m.topic ∧ (resetOutMsg c m).payload = m.payload := by
  unfold resetOutMsg
  repeat' split
  all_goals exact ⟨rfl, rfl, rfl, rfl⟩

theorem messagesReconnectResetOut_sinv {k : Int} (s : S) (h : SInvP k s) : SInv s.messagesReconnectResetOut := by
  unfold messagesReconnectResetOut
  have hnq : ∀ x ∈ s.out.map (resetOutMsg s.checkCleanSession), x.state ≠ .queued := by
    intro x hx
    obtain ⟨m, hm, rfl⟩ := List.mem_map.mp hx
    exact (resetOutMsg_state _ m (h.qos m hm)).1
  refine ⟨?_, ?_, ?_, ?_, ?_⟩
  · intro x hx
    obtain ⟨m, hm, rfl⟩ := List.mem_map.mp hx
    rw [(resetOutMsg_fields _ m).2.1]; exact h.qos m hm
  · show (s.out.map (resetOutMsg s.checkCleanSession)).Pairwise QRel
    rw [List.pairwise_iff_forall_sublist]
    intro a b hab hq
    exact absurd hq (hnq a (hab.subset (by simp)))
  · rintro ⟨x, hx, hq⟩
    exact absurd hq (hnq x hx)
  · intro x hx hr
    obtain ⟨m, hm, rfl⟩ := List.mem_map.mp hx
    rw [(resetOutMsg_fields _ m).2.1]
    exact (resetOutMsg_state _ m (h.qos m hm)).2 hr
  · intro x hx
    obtain ⟨m, hm, rfl⟩ := List.mem_map.mp hx
    obtain ⟨e1, e2, e3, e4⟩ := resetOutMsg_fields s.checkCleanSession m
    rw [e1, e2, e3, e4]; exact h.enc m hm

theorem reconnect_sinv (s : S) (ok : Bool) (h : SInv s) : SInv (s.reconnect ok).1 := by
  unfold reconnect
  split
  · exact h
  · extract_lets s1 s2 s3 s4 s5 s6 c s7 s8 s9
    have h1 : SInv s1 := (by low_upd : Low [] s s1).sinv h
    have h2 : SInv s2 := (sockClose_low _ _).sinv h1
    have h3 : SInv s3 := (failQueuedQos0_low _ _ (fun _ h => h)).sinv h2
    have h4 : SInv s4 := SInvP.of_eq (s := s3) rfl rfl rfl rfl h3
    have h5 : SInv s5 := (messagesReconnectResetIn_low _).sinv (messagesReconnectResetOut_sinv _ h4)
    have h6 : SInv s6 := (Low.emit_ng _ _ rfl).sinv h5
    split
    · exact h6
    · have h7 : SInv s7 := SInvP.of_eq (s := s6) rfl rfl rfl rfl h6
      have h8 : SInv s8 := (Low.emit_ng _ _ rfl).sinv h7
      have h9 : SInv s9 := by
        unfold s9
        split
        · split
          · exact (Low.emit_ng _ _ rfl).sinv h8
          · exact (Low.emit_ng _ _ rfl).sinv h8
        · exact h8
      exact (sendConnect_low _).sinv h9

theorem connect_sinv (s : S) (ok : Bool) (h : SInv s) : SInv (s.connect ok).1 := by
  unfold connect
  extract_lets s1
  have h1 : SInv s1 := by
    unfold s1; split
    · exact SInvP.of_eq (s := s) rfl rfl rfl rfl h
    · exact h
  exact reconnect_sinv _ _ ((connectAsync_low _).sinv h1)

theorem wait_state (q : Nat) (st : MS) (hq : q = 1 ∨ q = 2) :
    (if q = 1 then MS.waitPuback else if q = 2 then MS.waitPubrec else st) ≠ .queued ∧
    (if q = 1 then MS.waitPuback else if q = 2 then MS.waitPubrec else st) ≠ .publish ∧
    (if q = 1 then MS.waitPuback else if q = 2 then MS.waitPubrec else st) ≠ .resendPubrel := by
  rcases hq with e | e <;> simp [e]

theorem updateInflight_sinv (fuel : Nat) : ∀ (s : S) (idx : Nat), SInv s → SInv (s.updateInflight fuel idx).1 := by
  induction fuel with
  | zero => intro s idx h; exact h
  | succ n ih =>
    intro s idx h
    unfold updateInflight
    split
    · exact h
    · rename_i m hm
      split
      · exact h
      split
      · split
        · rename_i hq
          extract_lets m' s1
          have h1 : SInv s1 := by
            exact h.set_wait idx m m' hm rfl rfl rfl rfl
              (wait_state m.qos m.state (h.qos m (List.mem_of_getElem? hm))) 1 (by omega)
          have h2 := (sendPublish_low s1 m.mid m.topic m.payload m.qos m.retain m.dup none true (some m.info) (Or.inl rfl)).sinv h1
          split
          rename_i s2 rc hsp
          rw [hsp] at h2
          dsimp only at h2 ⊢
          split
          · exact h2
          · exact ih s2 (idx + 1) h2
        · exact ih s (idx + 1) h
      · exact h

/-- after a slot was freed, one pass of `_update_inflight` restores the full-window property -/
theorem updateInflight_refill (fuel : Nat) : ∀ (s : S) (idx : Nat), SInvP 1 s → s.sock.isNone = false →
    (∀ j, j < idx → ∀ m, s.out[j]? = some m → m.state ≠ .queued) → s.out.length < fuel + idx →
    SInv (s.updateInflight fuel idx).1 := by
  have noq : ∀ (s : S) (idx : Nat), SInvP 1 s → (∀ j, j < idx → ∀ m, s.out[j]? = some m → m.state ≠ .queued) →
      s.out.length ≤ idx → SInv s := by
    intro s idx h hpre hlen
    refine ⟨h.qos, h.q1, ?_, h.rel, h.enc⟩
    rintro ⟨x, hx, hq⟩
    obtain ⟨j, hj, e⟩ := List.getElem_of_mem hx
    exact absurd hq (hpre j (by omega) x (by rw [List.getElem?_eq_getElem hj, e]))
  induction fuel with
  | zero => intro s idx h _ hpre hf; exact noq s idx h hpre (by omega)
  | succ n ih =>
    intro s idx h hsk hpre hf
    unfold updateInflight
    split
    · rename_i hnone
      exact noq s idx h hpre (by rw [List.getElem?_eq_none_iff] at hnone; exact hnone)
    · rename_i m hm
      have hmq := h.qos m (List.mem_of_getElem? hm)
      rw [if_neg (by rw [hsk]; simp)]
      split
      · rename_i hlt
        split
        · rename_i hq
          extract_lets m' s1
          have h1 : SInv s1 := by
            have h' : SInvP 1 s1 := by
              exact h.set_wait idx m m' hm rfl rfl rfl rfl (wait_state m.qos m.state hmq) 1 (by omega)
            refine ⟨h'.qos, h'.q1, ?_, h'.rel, h'.enc⟩
            intro hex
            have := h.q2 ⟨m, List.mem_of_getElem? hm, hq.2⟩
            refine ⟨this.1, ?_⟩
            show s.inflight + 1 + 0 ≥ (s.cfg.maxInflight : Int)
            omega
          have h2 := (sendPublish_low s1 m.mid m.topic m.payload m.qos m.retain m.dup none true (some m.info) (Or.inl rfl)).sinv h1
          split
          rename_i s2 rc hsp
          rw [hsp] at h2
          dsimp only at h2 ⊢
          split
          · exact h2
          · exact updateInflight_sinv n s2 (idx + 1) h2
        · rename_i hq
          apply ih s (idx + 1) h hsk ?_ (by omega)
          intro j hj x hx
          by_cases hji : j = idx
          · subst hji
            rw [hm] at hx; cases hx
            intro hst
            exact hq ⟨by omega, hst⟩
          · exact hpre j (by omega) x hx
      · rename_i hge
        refine ⟨h.qos, h.q1, ?_, h.rel, h.enc⟩
        intro hex
        exact ⟨(h.q2 hex).1, by show s.inflight + 0 ≥ (s.cfg.maxInflight : Int); omega⟩

theorem ackState_sinv (s : S) (mid : Nat) (m : OutMsg) (h : SInv s) : SInvP 1 (ackState s mid m) := by
  have hsub : (s.out.filter (·.mid ≠ mid)).Sublist s.out := List.filter_sublist
  refine ⟨?_, h.q1.sublist hsub, ?_, ?_, ?_⟩
  · intro x hx; exact h.qos x (hsub.subset hx)
  · rintro ⟨x, hx, hq⟩
    have := h.q2 ⟨x, hsub.subset hx, hq⟩
    refine ⟨this.1, ?_⟩
    show (if m.qos > 0 then s.inflight - 1 else s.inflight) + 1 ≥ (s.cfg.maxInflight : Int)
    split <;> omega
  · intro x hx; exact h.rel x (hsub.subset hx)
  · intro x hx; exact h.enc x (hsub.subset hx)

theorem doOnPublish_sinv (s : S) (mid : Nat) (h : SInv s) (hsk : s.sock.isNone = false) :
    SInv (s.doOnPublish mid).1 := by
  cases hf : s.out.find? (·.mid = mid) with
  | none => exact (doOnPublish_none s mid hf).sinv h
  | some m =>
    have hA := ackState_sinv s mid m h
    unfold doOnPublish
    extract_lets s1
    have hf1 : s1.out.find? (·.mid = mid) = some m := hf
    split
    · rename_i h'; rw [hf1] at h'; cases h'
    · rename_i m' hm'
      rw [hf1] at hm'; cases hm'
      extract_lets s2 s3 s4 s5
      have hqos : m.qos > 0 := by
        have := h.qos m (find_facts hf).1; omega
      rw [if_pos hqos]
      have e5 : s5 = ackState s mid m := by
        simp [s5, s4, s3, s2, s1, ackState, emit, setInfo, hqos]
      split
      · have := updateInflight_refill (s5.out.length + 1) s5 0 (e5 ▸ hA) hsk (by intro j hj; omega) (by omega)
        split
        rename_i s6 rc hu
        rw [hu] at this
        split <;> exact this
      · rename_i hmax
        rw [e5]
        refine ⟨hA.qos, hA.q1, ?_, hA.rel, hA.enc⟩
        intro hex
        have := (hA.q2 hex).1
        rw [e5] at hmax
        exact absurd this hmax

theorem handlePubackcomp_sinv (s : S) (mid : Nat) (h : SInv s) (hsk : s.sock.isNone = false) :
    SInv (s.handlePubackcomp mid).1 := by
  unfold handlePubackcomp
  split
  · exact doOnPublish_sinv s mid h hsk
  · exact h

theorem handlePubrec_sinv (s : S) (mid : Nat) (h : SInv s) : SInv (s.handlePubrec mid).1 := by
  unfold handlePubrec
  split
  · extract_lets s1
    refine (sendPubrel_low s1 mid true).sinv ?_
    let f : OutMsg → OutMsg := fun m => if m.mid = mid then { m with state := .waitPubcomp } else m
    have hf : ∀ m, (f m).mid = m.mid ∧ (f m).qos = m.qos ∧ (f m).topic = m.topic ∧ (f m).payload = m.payload ∧
        ((f m).state = .queued → m.state = .queued) ∧
        ((f m).state = .publish → m.state = .publish) ∧ ((f m).state = .resendPubrel → m.state = .resendPubrel) := by
      intro m
      simp only [f]
      split <;> simp
    show SInvP 0 { s with out := s.out.map f }
    refine ⟨?_, ?_, ?_, ?_, ?_⟩
    · intro x hx
      obtain ⟨m, hm, rfl⟩ := List.mem_map.mp hx
      rw [(hf m).2.1]; exact h.qos m hm
    · show (s.out.map f).Pairwise QRel
      rw [List.pairwise_map]
      refine h.q1.imp ?_
      intro a b hab hq
      have := hab ((hf a).2.2.2.2.1 hq)
      exact ⟨fun hp => this.1 ((hf b).2.2.2.2.2.1 hp), fun hp => this.2 ((hf b).2.2.2.2.2.2 hp)⟩
    · rintro ⟨x, hx, hq⟩
      obtain ⟨m, hm, rfl⟩ := List.mem_map.mp hx
      exact h.q2 ⟨m, hm, (hf m).2.2.2.2.1 hq⟩
    · intro x hx hr
      obtain ⟨m, hm, rfl⟩ := List.mem_map.mp hx
      rw [(hf m).2.1]; exact h.rel m hm ((hf m).2.2.2.2.2.2 hr)
    · intro x hx
      obtain ⟨m, hm, rfl⟩ := List.mem_map.mp hx
      obtain ⟨e1, e2, e3, e4, -⟩ := hf m
      rw [e1, e2, e3, e4]; exact h.enc m hm
  · exact h

theorem connackResend_sinv (fuel : Nat) : ∀ (s : S) (idx : Nat) (rc : RC), SInv s →
    SInv (s.connackResend fuel idx rc).1 := by
  induction fuel with
  | zero => intro s idx rc h; exact h
  | succ n ih =>
    intro s idx rc h
    unfold connackResend
    split
    · exact h
    · rename_i m hm
      split
      · exact h
      split
      · exact (loopWrite_low s).sinv h
      · split
        rename_i s2 rc2 stop heq
        have hbody : SInv s2 := by
          split at heq
          · dsimp only at heq
            simp only [Prod.mk.injEq] at heq
            obtain ⟨h1, -, -⟩ := heq
            subst h1
            refine (sendPublish_low _ _ _ _ _ _ _ none false (some m.info) (Or.inl rfl)).sinv ?_
            exact h.set_wait idx m { m with state := .waitPuback } hm rfl rfl rfl rfl (by simp) 1 (by omega)
          · split at heq
            · dsimp only at heq
              simp only [Prod.mk.injEq] at heq
              obtain ⟨h1, -, -⟩ := heq
              subst h1
              refine (sendPublish_low _ _ _ _ _ _ _ none false (some m.info) (Or.inl rfl)).sinv ?_
              exact h.set_wait idx m { m with state := .waitPubrec } hm rfl rfl rfl rfl (by simp) 1 (by omega)
            · split at heq
              · dsimp only at heq
                simp only [Prod.mk.injEq] at heq
                obtain ⟨h1, -, -⟩ := heq
                subst h1
                refine (sendPubrel_low _ _ _).sinv ?_
                exact h.set_wait idx m { m with state := .waitPubcomp } hm rfl rfl rfl rfl (by simp) 1 (by omega)
              · simp only [Prod.mk.injEq] at heq
                obtain ⟨h1, -, -⟩ := heq
                subst h1
                exact h
        split
        · exact hbody
        · have h3 := (loopWrite_low s2).sinv hbody
          split
          rename_i s3 _ hlw
          rw [hlw] at h3
          exact ih s3 (idx + 1) rc2 h3

theorem handleConnack_sinv (s : S) (sp : Bool) (result : Nat) (ok : Bool) (h : SInv s) :
    SInv (s.handleConnack sp result ok).1 := by
  unfold handleConnack
  extract_lets pre s0 s1 shown s3
  clear_value pre
  cases pre
  · dsimp only
    split
    · rename_i hp
      split
      · exact h
      · have h1 : SInv s0 := by
          refine ⟨h.qos, h.q1, h.q2, h.rel, ?_⟩
          intro m hm
          have := h.enc m hm
          exact ⟨this.1, this.2.proto (p' := 3) (by rw [hp.1]; decide) (by decide)⟩
        have h2 := reconnect_sinv s0 ok h1
        split
        · rename_i s' hr
          rw [hr] at h2
          exact (Low.emit_ng _ _ rfl).sinv h2
        · exact h2
    · have h1 : SInv s1 := by
        unfold s1; split
        · exact SInvP.of_eq (s := s) rfl rfl rfl rfl h
        · exact h
      have h3 : SInv s3 := (Low.emit_ng _ _ rfl).sinv h1
      split
      · exact connackResend_sinv _ s3 0 rcSuccess h3
      · split <;> exact h3
  · exact h

theorem packetHandle_sinv (s : S) (p : RxPkt) (ok : Bool) (h : SInv s) (hsk : s.sock.isNone = false) :
    SInv (s.packetHandle p ok).1 := by
  cases p with
  | connack sp rc => exact handleConnack_sinv _ _ _ _ h
  | publish m => exact (handlePublish_low _ _).sinv h
  | puback mid => exact handlePubackcomp_sinv s mid h hsk
  | pubcomp mid => exact handlePubackcomp_sinv s mid h hsk
  | pubrec mid => exact handlePubrec_sinv _ _ h
  | pubrel mid => exact (handlePubrel_low _ _).sinv h
  | suback mid code => exact (Low.emit_ng _ _ rfl).sinv h
  | unsuback mid => exact (Low.emit_ng _ _ rfl).sinv h
  | pingreq => exact (sendSimple_low _ _).sinv h
  | pingresp => exact (by low_upd : Low [] s _).sinv h
  | disconnect r =>
    simp only [packetHandle]
    split
    · exact (handleDisconnect_low _ _).sinv h
    · exact h
  | badcmd => exact h
  | malformed => exact h

theorem loopRead_sinv (s : S) (item : RxItem) (ok : Bool) (h : SInv s) : SInv (s.loopRead item ok).1 := by
  by_cases hp : s.sock = none ∨ ∀ p, item ≠ .pkt p
  · exact (loopRead_nopkt s item ok hp).sinv h
  · rw [not_or] at hp
    obtain ⟨hs, hi⟩ := hp
    cases hsock : s.sock with
    | none => exact absurd hsock hs
    | some c =>
      cases item with
      | pkt p => exact (loopRead_pkt s p ok c hsock).sinv (packetHandle_sinv s p ok h (by rw [hsock]; rfl))
      | none => exact absurd (fun p => by simp) hi
      | eof => exact absurd (fun p => by simp) hi
      | err => exact absurd (fun p => by simp) hi

theorem publish_sinv (s : S) (qos : Nat) (topic payload : Bytes) (retain : Bool) (h : SInv s)
    (hlast : s.lastMid ≤ 65535) : SInv (s.publish qos topic payload retain) := by
  unfold publish
  split
  · exact (Low.emit_ng _ _ rfl).sinv h
  · exact (Low.emit_ng _ _ rfl).sinv h
  · rename_i hvalid
    have hq2 : qos ≤ 2 := publishCheckFull_qos _ _ _ _ _ _ hvalid
    extract_lets mid s1 N s2 m m' sB sB'
    have hmid : mid ≤ 65535 := (c14_range _ hlast).2
    have henc : EncOk s.proto mid topic payload qos := encOk_of_check _ _ _ _ _ hmid hvalid
    have h2 : SInv s2 := SInvP.of_eq (s := s) rfl rfl rfl rfl h
    split
    · have hl := sendPublish_low0 s2 mid topic payload 0 retain false (some N) true (some N)
      split
      rename_i s3 rc he
      rw [he] at hl
      exact (Low.emit_ng _ (.ret rc (some mid)) rfl).sinv
        ((Low.setInfo_keep s3 N (fun x => { x with rc := rc }) (fun _ => rfl)).sinv (hl.sinv h2))
    · rename_i hq0
      have hqq : qos = 1 ∨ qos = 2 := by omega
      have hrefuse : ∀ rc : RC, SInv ((s2.setInfo N (fun x => { x with rc := rc })).emit (.ret rc (some mid))) := by
        intro rc
        exact (Low.emit_ng _ _ rfl).sinv ((Low.setInfo_keep s2 N (fun x => { x with rc := rc }) (fun _ => rfl)).sinv h2)
      split
      · exact hrefuse _
      · split
        · exact hrefuse _
        · split
          · rename_i hwin
            have hnoq : ∀ x ∈ s.out, x.state ≠ .queued := by
              intro x hx hq
              have := h.q2 ⟨x, hx, hq⟩
              rcases hwin with hw | hw
              · have : s.cfg.maxInflight = 0 := hw
                omega
              · have hw' : s.inflight < (s.cfg.maxInflight : Int) := hw
                have := this.2
                omega
            have hm'st : m'.state ≠ .queued ∧ m'.state ≠ .publish ∧ m'.state ≠ .resendPubrel := by
              show (if qos = 1 then MS.waitPuback else MS.waitPubrec) ≠ MS.queued ∧
                (if qos = 1 then MS.waitPuback else MS.waitPubrec) ≠ MS.publish ∧
                (if qos = 1 then MS.waitPuback else MS.waitPubrec) ≠ MS.resendPubrel
              split <;> simp
            have hB : SInv sB := by
              refine ⟨?_, ?_, ?_, ?_, ?_⟩
              · intro x hx
                rcases List.mem_append.mp hx with hx | hx
                · exact h.qos x hx
                · rw [List.mem_singleton.mp hx]; exact hqq
              · show (s.out ++ [m']).Pairwise QRel
                rw [List.pairwise_append]
                refine ⟨h.q1, by simp, ?_⟩
                intro a ha b hb hq
                exact absurd hq (hnoq a ha)
              · rintro ⟨x, hx, hq⟩
                rcases List.mem_append.mp hx with hx | hx
                · exact absurd hq (hnoq x hx)
                · rw [List.mem_singleton.mp hx] at hq; exact absurd hq hm'st.1
              · intro x hx hr
                rcases List.mem_append.mp hx with hx | hx
                · exact h.rel x hx hr
                · rw [List.mem_singleton.mp hx] at hr; exact absurd hr hm'st.2.2
              · intro x hx
                rcases List.mem_append.mp hx with hx | hx
                · exact h.enc x hx
                · rw [List.mem_singleton.mp hx]; exact ⟨hmid, henc⟩
            have hl := sendPublish_low sB mid topic payload qos retain false (some N) true (some N) (Or.inr hq0)
            split
            rename_i s3 rc he
            rw [he] at hl
            dsimp only at hl
            have h3 : SInv s3 := hl.sinv hB
            extract_lets s4
            have h4 : SInv s4 := by
              unfold s4
              split
              · let f : OutMsg → OutMsg := fun x => if x.mid = mid then { x with state := .publish } else x
                have hf : ∀ x, (f x).mid = x.mid ∧ (f x).qos = x.qos ∧ (f x).topic = x.topic ∧ (f x).payload = x.payload ∧
                    ((f x).state = .queued → x.state = .queued) ∧ ((f x).state = .resendPubrel → x.state = .resendPubrel) := by
                  intro x
                  simp only [f]
                  split <;> simp
                have hout3 : s3.out = s.out ++ [m'] := hl.out
                have hnoq3 : ∀ x ∈ s3.out.map f, x.state ≠ .queued := by
                  intro x hx hq
                  obtain ⟨y, hy, rfl⟩ := List.mem_map.mp hx
                  have hyq := (hf y).2.2.2.2.1 hq
                  rw [hout3] at hy
                  rcases List.mem_append.mp hy with hy | hy
                  · exact hnoq y hy hyq
                  · rw [List.mem_singleton.mp hy] at hyq; exact hm'st.1 hyq
                show SInvP 0 { s3 with inflight := s3.inflight - 1, out := s3.out.map f }
                refine ⟨?_, ?_, ?_, ?_, ?_⟩
                · intro x hx
                  obtain ⟨y, hy, rfl⟩ := List.mem_map.mp hx
                  rw [(hf y).2.1]; exact h3.qos y hy
                · show (s3.out.map f).Pairwise QRel
                  rw [List.pairwise_iff_forall_sublist]
                  intro a b hab hq
                  exact absurd hq (hnoq3 a (hab.subset (by simp)))
                · rintro ⟨x, hx, hq⟩
                  exact absurd hq (hnoq3 x hx)
                · intro x hx hr
                  obtain ⟨y, hy, rfl⟩ := List.mem_map.mp hx
                  rw [(hf y).2.1]; exact h3.rel y hy ((hf y).2.2.2.2.2 hr)
                · intro x hx
                  obtain ⟨y, hy, rfl⟩ := List.mem_map.mp hx
                  obtain ⟨e1, e2, e3, e4, -⟩ := hf y
                  rw [e1, e2, e3, e4]; exact h3.enc y hy
              · exact h3
            exact (Low.emit_ng _ (.ret rc (some mid)) rfl).sinv
              ((Low.setInfo_keep s4 N (fun x => { x with rc := rc }) (fun _ => rfl)).sinv h4)
          · rename_i hwin
            have hB : SInv sB' := by
              refine ⟨?_, ?_, ?_, ?_, ?_⟩
              · intro x hx
                rcases List.mem_append.mp hx with hx | hx
                · exact h.qos x hx
                · rw [List.mem_singleton.mp hx]; exact hqq
              · show (s.out ++ [{ m with state := .queued }]).Pairwise QRel
                rw [List.pairwise_append]
                refine ⟨h.q1, by simp, ?_⟩
                intro a ha b hb hq
                rw [List.mem_singleton.mp hb]
                simp
              · intro _
                have hw : ¬ (s.cfg.maxInflight = 0 ∨ s.inflight < (s.cfg.maxInflight : Int)) := hwin
                rw [not_or] at hw
                refine ⟨by have := hw.1; show s.cfg.maxInflight > 0; omega, ?_⟩
                show s.inflight + 0 ≥ (s.cfg.maxInflight : Int)
                have := hw.2
                omega
              · intro x hx hr
                rcases List.mem_append.mp hx with hx | hx
                · exact h.rel x hx hr
                · rw [List.mem_singleton.mp hx] at hr; cases hr
              · intro x hx
                rcases List.mem_append.mp hx with hx | hx
                · exact h.enc x hx
                · rw [List.mem_singleton.mp hx]; exact ⟨hmid, henc⟩
            exact (Low.emit_ng _ (.ret rcSuccess (some mid)) rfl).sinv
              ((Low.setInfo_keep sB' N (fun x => { x with rc := rcSuccess }) (fun _ => rfl)).sinv hB)

theorem step_sinv (s : S) (op : Op) (h : SInv s) (hlast : s.lastMid ≤ 65535) : SInv (s.step op) := by
  cases op with
  | connect ok => exact (Low.emit_ng _ _ (hresEv_ng _)).sinv (connect_sinv s ok h)
  | reconnect ok => exact (Low.emit_ng _ _ (hresEv_ng _)).sinv (reconnect_sinv s ok h)
  | connectAsync => exact (connectAsync_low s).sinv h
  | rx item ok => exact (Low.emit_ng _ _ (hresEv_ng _)).sinv (loopRead_sinv s item ok h)
  | publish q t p r => exact publish_sinv s q t p r h hlast
  | subscribe t q =>
    obtain ⟨s0, hm, hl⟩ := subscribe_low s t q
    refine hl.sinv ?_
    rcases hm with rfl | rfl
    · exact h
    · exact SInvP.of_eq (s := s) rfl rfl rfl rfl h
  | unsubscribe t =>
    obtain ⟨s0, hm, hl⟩ := unsubscribe_low s t
    refine hl.sinv ?_
    rcases hm with rfl | rfl
    · exact h
    · exact SInvP.of_eq (s := s) rfl rfl rfl rfl h
  | disconnect => exact (disconnect_low s).sinv h
  | loopWrite => exact (Low.trans0 (loopWrite_low s) (Low.emit_ng _ _ rfl)).sinv h
  | loopMisc => exact (Low.trans0 (loopMisc_low s) (Low.emit_ng _ _ rfl)).sinv h
  | tick ms => exact SInvP.of_eq (s := s) rfl rfl rfl rfl h
  | send sc => exact SInvP.of_eq (s := s) rfl rfl rfl rfl h
  | ack m q => exact (ack_low s m q).sinv h
  | raiseOnMessage n => exact SInvP.of_eq (s := s) rfl rfl rfl rfl h

theorem SInv.reach (cfg : Cfg) (proto : Nat) (ops : List Op) : SInv (runFrom cfg proto ops) := by
  suffices h : ∀ (s : S), Inv s → SInv s → SInv (s.run ops) from
    h _ (Inv.init cfg proto t0) (SInv.init cfg proto t0)
  induction ops with
  | nil => intro s _ h; exact h
  | cons op ops ih =>
    intro s hi h
    exact ih (s.step op) (hi.step op) (step_sinv s op h hi.lastMid)

theorem packetQueue_false_rc (s : S) (pkt : OutPkt) : (s.packetQueue pkt false).2 = rcSuccess := by
  unfold packetQueue
  extract_lets s0 s1
  rw [if_neg (by simp)]

theorem sendPublish_false (s : S) (c : Nat) (mid : Nat) (topic payload : Bytes) (qos : Nat) (retain dup : Bool)
    (u : Nat) (hs : s.sock = some c) (he : EncOk s.proto mid topic payload qos) :
    (s.sendPublish mid topic payload qos retain dup none false (some u)).2 = rcSuccess ∧
    publishGhost s mid topic payload qos retain dup (some u) = [.qPublish c u mid qos dup] := by
  obtain ⟨b, hb⟩ := he retain dup
  simp only [sendPublish, publishGhost, hs, hb]
  exact ⟨packetQueue_false_rc _ _, trivial⟩

theorem sendPubrel_false_rc (s : S) (mid : Nat) : (s.sendPubrel mid false).2 = rcSuccess := by
  unfold sendPubrel
  extract_lets s1
  unfold sendCmdMid
  split
  · rfl
  · exact packetQueue_false_rc _ _

theorem connackResend_sock_none (fuel : Nat) : ∀ (s : S) (idx : Nat) (rc : RC), s.sock = none →
    (s.connackResend fuel idx rc).1.sock = none := by
  have low_none : ∀ {g : List Ev} {a b : S}, Low g a b → a.sock = none → b.sock = none := by
    intro g a b h ha
    rcases h.sock with h' | h'
    · rw [h', ha]
    · exact h'
  induction fuel with
  | zero => intro s idx rc h; exact h
  | succ n ih =>
    intro s idx rc h
    unfold connackResend
    split
    · exact h
    · rename_i m hm
      split
      · exact h
      split
      · exact low_none (loopWrite_low s) h
      · split
        rename_i s2 rc2 stop heq
        have hbody : s2.sock = none := by
          split at heq
          · dsimp only at heq
            simp only [Prod.mk.injEq] at heq
            obtain ⟨h1, -, -⟩ := heq
            subst h1
            exact low_none (sendPublish_low _ _ _ _ _ _ _ none false (some m.info) (Or.inl rfl)) h
          · split at heq
            · dsimp only at heq
              simp only [Prod.mk.injEq] at heq
              obtain ⟨h1, -, -⟩ := heq
              subst h1
              exact low_none (sendPublish_low _ _ _ _ _ _ _ none false (some m.info) (Or.inl rfl)) h
            · split at heq
              · dsimp only at heq
                simp only [Prod.mk.injEq] at heq
                obtain ⟨h1, -, -⟩ := heq
                subst h1
                exact low_none (sendPubrel_low _ _ _) h
              · simp only [Prod.mk.injEq] at heq
                obtain ⟨h1, -, -⟩ := heq
                subst h1
                exact h
        split
        · exact hbody
        · have h3 := low_none (loopWrite_low s2) hbody
          split
          rename_i s3 _ hlw
          rw [hlw] at h3
          exact ih s3 (idx + 1) rc2 h3

/-- message `m` is retransmitted over connection `c` by the events `evs` -/
def Retx (c : Nat) (evs : List Ev) (m : OutMsg) : Prop :=
  (m.state = .publish → ∃ d, Ev.qPublish c m.info m.mid m.qos d ∈ evs) ∧
  (m.state = .resendPubrel → Ev.qPubrel c m.info m.mid ∈ evs)

theorem Retx.mono {c : Nat} {evs evs' : List Ev} {m : OutMsg} (h : Retx c evs m) (hsub : ∀ e ∈ evs, e ∈ evs') :
    Retx c evs' m :=
  ⟨fun hp => let ⟨d, hd⟩ := h.1 hp; ⟨d, hsub _ hd⟩, fun hp => hsub _ (h.2 hp)⟩

theorem ghost_sub {evs g : List Ev} (h : evs.filter isGhost = g) : ∀ e ∈ g, e ∈ evs := by
  intro e he
  rw [← h] at he
  exact (List.mem_filter.mp he).1

theorem set_getElem?_ne (l : List OutMsg) (idx j : Nat) (a : OutMsg) (h : j ≠ idx) :
    (l.set idx a)[j]? = l[j]? := by
  rw [List.getElem?_set]
  simp [Ne.symm h]

theorem set_map_mid (l : List OutMsg) (idx : Nat) (m m' : OutMsg) (h : l[idx]? = some m) (hk : m'.mid = m.mid) :
    (l.set idx m').map (·.mid) = l.map (·.mid) := by
  rw [List.map_set, hk]
  apply List.ext_getElem?
  intro j
  rw [List.getElem?_set]
  split
  · subst_vars
    simp only [List.length_map, List.getElem?_map, h, Option.map_some]
    have := (List.getElem?_eq_some_iff.mp h).1
    simp [this]
  · rfl

/-- one PUBLISH retransmission (direct = false) on an open socket -/
theorem resend_pub (s : S) (idx : Nat) (m : OutMsg) (c : Nat) (st : MS)
    (hs : s.sock = some c) (hi : SInv s) (hm : s.out[idx]? = some m)
    (hst : st ≠ .queued ∧ st ≠ .publish ∧ st ≠ .resendPubrel) :
    ∀ r, r = S.sendPublish { s with inflight := s.inflight + 1, out := s.out.set idx { m with state := st } }
      m.mid m.topic m.payload m.qos m.retain m.dup none false (some m.info) →
    r.2 = rcSuccess ∧ (r.1.sock = some c ∨ r.1.sock = none) ∧ SInv r.1 ∧
      r.1.out = s.out.set idx { m with state := st } ∧
      ∃ evs, r.1.log = s.log ++ evs ∧ Ev.qPublish c m.info m.mid m.qos m.dup ∈ evs := by
  intro r hr
  subst hr
  have h1 : SInv { s with inflight := s.inflight + 1, out := s.out.set idx { m with state := st } } :=
    hi.set_wait idx m { m with state := st } hm rfl rfl rfl rfl hst 1 (by omega)
  have henc := (hi.enc m (List.mem_of_getElem? hm)).2
  have hl := sendPublish_low { s with inflight := s.inflight + 1, out := s.out.set idx { m with state := st } }
    m.mid m.topic m.payload m.qos m.retain m.dup none false (some m.info) (Or.inl rfl)
  obtain ⟨hrc, hg⟩ := sendPublish_false { s with inflight := s.inflight + 1, out := s.out.set idx { m with state := st } }
    c m.mid m.topic m.payload m.qos m.retain m.dup m.info hs henc
  rw [hg] at hl
  obtain ⟨evs, hlog, hf⟩ := hl.log
  refine ⟨hrc, ?_, hl.sinv h1, hl.out, evs, hlog, ghost_sub hf _ (by simp)⟩
  rcases hl.sock with h | h
  · exact Or.inl (h.trans hs)
  · exact Or.inr h

/-- one PUBREL retransmission (direct = false) on an open socket -/
theorem resend_rel (s : S) (idx : Nat) (m : OutMsg) (c : Nat)
    (hs : s.sock = some c) (hi : SInv s) (hn : (s.out.map (·.mid)).Nodup) (hm : s.out[idx]? = some m) :
    ∀ r, r = S.sendPubrel { s with inflight := s.inflight + 1, out := s.out.set idx { m with state := .waitPubcomp } }
      m.mid false →
    r.2 = rcSuccess ∧ (r.1.sock = some c ∨ r.1.sock = none) ∧ SInv r.1 ∧
      r.1.out = s.out.set idx { m with state := .waitPubcomp } ∧
      ∃ evs, r.1.log = s.log ++ evs ∧ Ev.qPubrel c m.info m.mid ∈ evs := by
  intro r hr
  subst hr
  have h1 : SInv { s with inflight := s.inflight + 1, out := s.out.set idx { m with state := .waitPubcomp } } :=
    hi.set_wait idx m { m with state := .waitPubcomp } hm rfl rfl rfl rfl (by simp) 1 (by omega)
  have hl := sendPubrel_low { s with inflight := s.inflight + 1, out := s.out.set idx { m with state := .waitPubcomp } }
    m.mid false
  have hidx : (s.out.set idx { m with state := .waitPubcomp })[idx]? = some { m with state := .waitPubcomp } := by
    simp [(List.getElem?_eq_some_iff.mp hm).1]
  have hn' : ((s.out.set idx { m with state := .waitPubcomp }).map (·.mid)).Nodup := by
    rw [set_map_mid s.out idx m { m with state := .waitPubcomp } hm rfl]; exact hn
  have hg : pubrelGhost { s with inflight := s.inflight + 1, out := s.out.set idx { m with state := .waitPubcomp } } m.mid
      = [.qPubrel c m.info m.mid] := by
    obtain ⟨m'', hf, -, -⟩ := any_mid_find (s.out.set idx { m with state := .waitPubcomp }) m.mid
      (List.any_eq_true.mpr ⟨_, List.mem_of_getElem? hidx, by simp⟩)
    have := find_mid_unique _ hn' idx { m with state := .waitPubcomp } m'' hidx hf
    subst this
    simp only [pubrelGhost, hs, hf]
  rw [hg] at hl
  obtain ⟨evs, hlog, hf⟩ := hl.log
  refine ⟨sendPubrel_false_rc _ _, ?_, hl.sinv h1, hl.out, evs, hlog, ghost_sub hf _ (by simp)⟩
  rcases hl.sock with h | h
  · exact Or.inl (h.trans hs)
  · exact Or.inr h

theorem loopWrite_log_sock (s : S) (c : Nat) (hs : s.sock = some c ∨ s.sock = none) :
    (s.loopWrite.1.sock = some c ∨ s.loopWrite.1.sock = none) ∧ s.loopWrite.1.out = s.out ∧
      ∃ evs, s.loopWrite.1.log = s.log ++ evs := by
  have hl := loopWrite_low s
  obtain ⟨evs, hlog, -⟩ := hl.log
  refine ⟨?_, hl.out, evs, hlog⟩
  rcases hl.sock with h | h
  · rw [h]; exact hs
  · exact Or.inr h

theorem connackResend_retx (fuel : Nat) : ∀ (s : S) (idx : Nat) (rc : RC) (c : Nat),
    s.sock = some c → SInv s → (s.out.map (·.mid)).Nodup → s.out.length < fuel + idx →
    ∃ evs, (s.connackResend fuel idx rc).1.log = s.log ++ evs ∧
      ((s.connackResend fuel idx rc).1.sock ≠ some c ∨
        ∀ j m, idx ≤ j → s.out[j]? = some m → Retx c evs m) := by
  induction fuel with
  | zero =>
    intro s idx rc c hs hi hn hf
    refine ⟨[], by rw [List.append_nil]; rfl, Or.inr ?_⟩
    intro j m hj hm
    have := (List.getElem?_eq_some_iff.mp hm).1
    omega
  | succ n ih =>
    intro s idx rc c hs hi hn hf
    unfold connackResend
    split
    · rename_i hnone
      refine ⟨[], by simp, Or.inr ?_⟩
      intro j m hj hm
      have h1 := (List.getElem?_eq_some_iff.mp hm).1
      rw [List.getElem?_eq_none_iff] at hnone
      omega
    · rename_i m0 hm0
      have hm0mem : m0 ∈ s.out := List.mem_of_getElem? hm0
      have hidxlt : idx < s.out.length := (List.getElem?_eq_some_iff.mp hm0).1
      rw [if_neg (by rw [hs]; simp)]
      split
      · -- queued: the loop stops; nothing behind a queued message needs retransmission
        rename_i hq
        obtain ⟨-, -, evs, hlog⟩ := loopWrite_log_sock s c (Or.inl hs)
        refine ⟨evs, hlog, Or.inr ?_⟩
        intro j m hj hm
        have hjlt := (List.getElem?_eq_some_iff.mp hm).1
        have hmj := (List.getElem?_eq_some_iff.mp hm).2
        by_cases hji : j = idx
        · subst hji
          rw [hm0] at hm; cases hm
          exact ⟨fun hp => (by rw [hq] at hp; cases hp), fun hp => (by rw [hq] at hp; cases hp)⟩
        · have hlt : idx < j := by omega
          have hrel := (List.pairwise_iff_getElem.mp hi.q1) idx j hidxlt hjlt hlt
          have e0 : s.out[idx] = m0 := (List.getElem?_eq_some_iff.mp hm0).2
          rw [e0, hmj] at hrel
          have := hrel hq
          exact ⟨fun hp => absurd hp this.1, fun hp => absurd hp this.2⟩
      · rename_i hnq
        split
        rename_i s2 rc2 stop heq
        have hbody : stop = false ∧ (s2.sock = some c ∨ s2.sock = none) ∧ SInv s2 ∧
            (∀ j, j ≠ idx → s2.out[j]? = s.out[j]?) ∧ s2.out.length = s.out.length ∧
            s2.out.map (·.mid) = s.out.map (·.mid) ∧
            ∃ evs, s2.log = s.log ++ evs ∧ Retx c evs m0 := by
          split at heq
          · rename_i hc
            dsimp only at heq
            generalize hr' : S.sendPublish _ _ _ _ _ _ _ _ _ _ = r at heq
            simp only [Prod.mk.injEq] at heq
            obtain ⟨h1, h2, h3⟩ := heq
            obtain ⟨hr, hsock, hsinv, hout, evs, hlog, hmem⟩ :=
              resend_pub s idx m0 c .waitPuback hs hi hm0 (by simp) r hr'.symm
            rw [h1] at hsock hsinv hout hlog
            refine ⟨by rw [← h3, hr]; simp, hsock, hsinv, ?_, ?_, ?_, evs, hlog, ?_⟩
            · intro j hj; rw [hout]; exact set_getElem?_ne _ _ _ _ hj
            · rw [hout]; simp
            · rw [hout]; exact set_map_mid _ _ m0 _ hm0 rfl
            · exact ⟨fun _ => ⟨_, hmem⟩, fun hp => by rw [hc.2] at hp; cases hp⟩
          · split at heq
            · rename_i hc
              dsimp only at heq
              generalize hr' : S.sendPublish _ _ _ _ _ _ _ _ _ _ = r at heq
              simp only [Prod.mk.injEq] at heq
              obtain ⟨h1, h2, h3⟩ := heq
              obtain ⟨hr, hsock, hsinv, hout, evs, hlog, hmem⟩ :=
                resend_pub s idx m0 c .waitPubrec hs hi hm0 (by simp) r hr'.symm
              rw [h1] at hsock hsinv hout hlog
              refine ⟨by rw [← h3, hr]; simp, hsock, hsinv, ?_, ?_, ?_, evs, hlog, ?_⟩
              · intro j hj; rw [hout]; exact set_getElem?_ne _ _ _ _ hj
              · rw [hout]; simp
              · rw [hout]; exact set_map_mid _ _ m0 _ hm0 rfl
              · exact ⟨fun _ => ⟨_, hmem⟩, fun hp => by rw [hc.2] at hp; cases hp⟩
            · split at heq
              · rename_i hc
                dsimp only at heq
                generalize hr' : S.sendPubrel _ _ _ = r at heq
                simp only [Prod.mk.injEq] at heq
                obtain ⟨h1, h2, h3⟩ := heq
                obtain ⟨hr, hsock, hsinv, hout, evs, hlog, hmem⟩ := resend_rel s idx m0 c hs hi hn hm0 r hr'.symm
                rw [h1] at hsock hsinv hout hlog
                refine ⟨by rw [← h3, hr]; simp, hsock, hsinv, ?_, ?_, ?_, evs, hlog, ?_⟩
                · intro j hj; rw [hout]; exact set_getElem?_ne _ _ _ _ hj
                · rw [hout]; simp
                · rw [hout]; exact set_map_mid _ _ m0 _ hm0 rfl
                · exact ⟨fun hp => (by rw [hc.2] at hp; cases hp), fun _ => hmem⟩
              · rename_i hc1 hc2 hc3
                simp only [Prod.mk.injEq] at heq
                obtain ⟨h1, h2, h3⟩ := heq
                subst h1
                refine ⟨h3.symm, Or.inl hs, hi, fun _ _ => rfl, rfl, rfl, [], by simp, ?_⟩
                have hq := hi.qos m0 hm0mem
                refine ⟨fun hp => ?_, fun hp => ?_⟩
                · rcases hq with hq | hq
                  · exact absurd ⟨hq, hp⟩ hc1
                  · exact absurd ⟨hq, hp⟩ hc2
                · exact absurd ⟨hi.rel m0 hm0mem hp, hp⟩ hc3
        obtain ⟨hstop, hsock2, hsinv2, hout2, hlen2, hmids2, evs2, hlog2, hretx0⟩ := hbody
        subst hstop
        simp only [Bool.false_eq_true, if_false]
        obtain ⟨hsock3, hout3, evs3, hlog3⟩ := loopWrite_log_sock s2 c hsock2
        have hsinv3 := (loopWrite_low s2).sinv hsinv2
        generalize s2.loopWrite.1 = s3 at hsock3 hout3 hlog3 hsinv3 ⊢
        rcases hsock3 with hs3 | hs3
        · -- socket still open: continue
          obtain ⟨evs4, hlog4, hres⟩ := ih s3 (idx + 1) rc2 c hs3 hsinv3
            (by rw [hout3, hmids2]; exact hn) (by rw [hout3, hlen2]; omega)
          refine ⟨evs2 ++ evs3 ++ evs4, by rw [hlog4, hlog3, hlog2]; simp, ?_⟩
          rcases hres with hres | hres
          · exact Or.inl hres
          · right
            intro j m hj hm
            by_cases hji : j = idx
            · subst hji
              rw [hm0] at hm; cases hm
              exact hretx0.mono (by intro e he; simp [he])
            · have hm3 : s3.out[j]? = some m := by rw [hout3, hout2 j hji]; exact hm
              exact (hres j m (by omega) hm3).mono (by intro e he; simp [he])
        · -- socket gone
          have hfinal := connackResend_sock_none n s3 (idx + 1) rc2 hs3
          have hl : ∃ evs4, (s3.connackResend n (idx + 1) rc2).1.log = s3.log ++ evs4 := by
            obtain ⟨g, hsame, -⟩ := connackResend_same n s3 (idx + 1) rc2
            obtain ⟨evs4, h4, -⟩ := hsame.log
            exact ⟨evs4, h4⟩
          obtain ⟨evs4, hlog4⟩ := hl
          refine ⟨evs2 ++ evs3 ++ evs4, by rw [hlog4, hlog3, hlog2]; simp, Or.inl ?_⟩
          rw [hfinal]; simp

theorem mkById_2_0 : ∃ v, Reason.mkById 2 0 = .ok v := ⟨0, by rfl⟩

theorem handleConnack_retx (s : S) (sp ok : Bool) (c : Nat)
    (hs : s.sock = some c) (hi : SInv s) (hn : (s.out.map (·.mid)).Nodup) :
    ∃ evs, (s.handleConnack sp 0 ok).1.log = s.log ++ evs ∧
      ((s.handleConnack sp 0 ok).1.sock ≠ some c ∨ ∀ m ∈ s.out, Retx c evs m) := by
  obtain ⟨v, hv⟩ := mkById_2_0
  unfold handleConnack
  extract_lets pre s0 s1 shown s3
  have hpre : pre = none := by
    unfold pre
    split
    · rw [hv]
    · rfl
  rw [hpre]
  dsimp only
  rw [if_neg (by simp), if_pos rfl]
  have h1 : Low [] s s1 := by
    unfold s1; rw [if_pos rfl]; low_upd
  have h2 : Low [] s s1 := h1
  have hs3 : s3.sock = some c := hs
  have hout3 : s3.out = s.out := rfl
  have hi3 : SInv s3 := (Low.emit_ng _ _ rfl).sinv (h2.sinv hi)
  obtain ⟨evs, hlog, hres⟩ := connackResend_retx (s3.out.length + 1) s3 0 rcSuccess c hs3 hi3
    (by rw [hout3]; exact hn) (by omega)
  refine ⟨Ev.onConnect shown sp :: evs, ?_, ?_⟩
  · rw [hlog]; simp [s3, s1, emit]
  · rcases hres with h | h
    · exact Or.inl h
    · right
      intro m hm
      obtain ⟨j, hj, e⟩ := List.getElem_of_mem hm
      have := h j m (by omega) (by rw [hout3, List.getElem?_eq_getElem hj, e])
      exact this.mono (by intro e he; simp [he])

end Paho.OutLemmas
