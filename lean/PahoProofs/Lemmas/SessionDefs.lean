/-
Proof-side vocabulary for the session model (shared by the property files).
-/
import Paho.Model.Session
namespace Paho

/-- virtual start time used by the driver -/
def t0 : Nat := 1000000

/-- the state reached from the initial state by a history of operations -/
def runFrom (cfg : Cfg) (proto : Nat) (ops : List Op) : S := (S.init cfg proto t0).run ops

/-- reachable states -/
def Reach (cfg : Cfg) (proto : Nat) (s : S) : Prop := ∃ ops, s = runFrom cfg proto ops

/-- events emitted by one step (the log is append-only) -/
def newEvents (s : S) (op : Op) : List Ev := (s.step op).log.drop s.log.length

/-- is this event an `on_disconnect` callback? -/
def Ev.isDisc : Ev → Bool
  | .onDisconnect _ _ => true
  | _ => false

/-- a connection ended for a reason other than the client replacing it -/
def Ev.isEndClose : Ev → Bool
  | .sclose _ false => true
  | _ => false

def Ev.isReplaceClose : Ev → Bool
  | .sclose _ true => true
  | _ => false

/-- bytes accepted by the transport of connection `c`, in order -/
def txBytes (c : Nat) : List Ev → Bytes
  | [] => []
  | .tx c' b :: rest => if c' = c then b ++ txBytes c rest else txBytes c rest
  | _ :: rest => txBytes c rest

/-- bytes of the packets appended to the queue while connection `c` was open, in order -/
def queuedBytes (c : Nat) : List Ev → Bytes
  | [] => []
  | .queued c' b :: rest => if c' = c then b ++ queuedBytes c rest else queuedBytes c rest
  | _ :: rest => queuedBytes c rest

/-- unsent bytes still in `_out_packet` -/
def pendingBytes (q : List OutPkt) : Bytes := (q.map fun p => p.bytes.drop p.pos).flatten

/-- message states that `_inflight_messages` is meant to count -/
def MS.counted : MS → Bool
  | .waitPuback | .waitPubrec | .waitPubcomp => true
  | _ => false

def countedMsgs (s : S) : Nat := (s.out.filter fun m => m.state.counted).length

end Paho
