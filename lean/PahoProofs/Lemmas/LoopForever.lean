/-
Helper lemmas for C09 (loop_forever reconnection automaton, Paho/Model/LoopForever.lean).
-/
import Paho.Model.LoopForever

namespace Paho.LFLemmas
open Paho Paho.LF

/-! ### arithmetic of the back-off register -/

theorem min_step (M a : Nat) : Nat.min (Nat.min a M * 2) M = Nat.min (a * 2) M := by
  simp only [Nat.min_def]
  repeat' split
  all_goals omega

theorem delayNext_none (c : Cfg) : delayNext c none = c.minDelay := rfl

theorem delayNext_some (c : Cfg) (x : Nat) : delayNext c (some x) = Nat.min (x * 2) c.maxDelay := rfl

/-- the register is either unset or within [minDelay, maxDelay] -/
def RegOK (c : Cfg) (d : Option Nat) : Prop :=
  ∀ x, d = some x → c.minDelay ≤ x ∧ x ≤ c.maxDelay

theorem delayNext_bounds (c : Cfg) (h : 1 ≤ c.minDelay ∧ c.minDelay ≤ c.maxDelay) (d : Option Nat)
    (hd : RegOK c d) : c.minDelay ≤ delayNext c d ∧ delayNext c d ≤ c.maxDelay := by
  cases d with
  | none => exact ⟨Nat.le_refl _, h.2⟩
  | some x =>
    have := hd x rfl
    simp only [delayNext_some, Nat.min_def]
    split <;> omega

/-! ### local copies of the observation classifiers (bridged in C09.lean) -/

def isAtt : Obs → Bool
  | .attempt _ _ => true
  | _ => false

def isUD : Obs → Bool
  | .userDisconnect _ => true
  | _ => false

def isEndE : Obs → Bool
  | .ret _ => true
  | .raised => true
  | _ => false

def oTime : Obs → Option Nat
  | .attempt t _ => some t
  | .onConnectFail t => some t
  | .onConnect _ t => some t
  | .onDisconnect _ t => some t
  | .userDisconnect t => some t
  | _ => none

/-! ### connLife -/

theorem connLife_spec (c : Cfg) (s : St) (o : Outcome) :
    ∃ evs, (connLife c s o).1.log = s.log ++ evs ∧ evs.all (fun e => !isAtt e) = true ∧
      ((connLife c s o).1.disconnected = false → s.disconnected = false ∧ evs.all (fun e => !isUD e) = true) ∧
      ((∀ t, o ≠ .downgrade t) → (∀ d, o ≠ .refuse d) → o ≠ .preDisc →
        ∃ e, evs.getLast? = some e ∧ isAtt e = false ∧ oTime e = some (connLife c s o).1.now) := by
  cases o with
  | refuse d => exact ⟨[], by simp [connLife]⟩
  | eof t d =>
    obtain ⟨a, b, e⟩ := d
    cases e <;> simp [connLife, St.emit, isAtt, isUD, oTime]
  | connackRefused rc t d =>
    obtain ⟨a, b, e⟩ := d
    cases hs : s.disconnected <;> cases b <;> cases e <;> simp [connLife, St.emit, isAtt, isUD, oTime, hs]
  | accepted t life d =>
    obtain ⟨a, b, e, w, sd⟩ := d
    by_cases hq : s.proto = 5 ∧ sd.isSome = true ∧ life = 0 <;>
      cases b <;> cases e <;> simp [connLife, St.emit, isAtt, isUD, oTime, hq]
  | downgrade t => exact ⟨[], by simp [connLife]⟩
  | preDisc => exact ⟨[], by simp [connLife]⟩

/-! ### state projections -/

@[simp] theorem emit_log (s : St) (o : Obs) : (s.emit o).log = s.log ++ [o] := rfl
@[simp] theorem emit_disconnected (s : St) (o : Obs) : (s.emit o).disconnected = s.disconnected := rfl
@[simp] theorem emit_now (s : St) (o : Obs) : (s.emit o).now = s.now := rfl
@[simp] theorem emit_delay (s : St) (o : Obs) : (s.emit o).delay = s.delay := rfl
@[simp] theorem emit_proto (s : St) (o : Obs) : (s.emit o).proto = s.proto := rfl

@[simp] theorem rw_log (c : Cfg) (s : St) : (reconnectWait c s).log = s.log := by
  unfold reconnectWait; cases s.disconnected <;> simp
@[simp] theorem rw_disconnected (c : Cfg) (s : St) : (reconnectWait c s).disconnected = s.disconnected := by
  unfold reconnectWait; cases s.disconnected <;> simp
@[simp] theorem rw_delay (c : Cfg) (s : St) (w : Bool) :
    (reconnectWait c s w).delay = some (delayNext c s.delay) := by
  unfold reconnectWait; cases s.disconnected <;> cases w <;> simp [St.emit]
@[simp] theorem rw_proto (c : Cfg) (s : St) (w : Bool) : (reconnectWait c s w).proto = s.proto := by
  unfold reconnectWait; cases s.disconnected <;> cases w <;> simp [St.emit]
theorem rw_now (c : Cfg) (s : St) (h : s.disconnected = false) :
    (reconnectWait c s).now = s.now + delayNext c s.delay * 1000 := by
  unfold reconnectWait; simp [h]
theorem rw_now' (c : Cfg) (s : St) (h : s.disconnected = true) :
    (reconnectWait c s).now = s.now := by
  unfold reconnectWait; simp [h]

/-- already disconnected: the `inWait` flag is irrelevant (only the register is written) -/
theorem rw_of_disconnected (c : Cfg) (s : St) (w : Bool) (h : s.disconnected = true) :
    reconnectWait c s w = { s with delay := some (delayNext c s.delay) } := by
  unfold reconnectWait; simp [h]

/-- disconnect() from another thread during the wait -/
theorem rw_true (c : Cfg) (s : St) (h : s.disconnected = false) :
    reconnectWait c s true =
      ({ s with delay := some (delayNext c s.delay), now := s.now + min (delayNext c s.delay) 1 * 1000,
                disconnected := true } : St).emit (.userDisconnect (s.now + min (delayNext c s.delay) 1 * 1000)) := by
  unfold reconnectWait; simp [h]

theorem rw_log_true (c : Cfg) (s : St) (h : s.disconnected = false) :
    (reconnectWait c s true).log = s.log ++ [.userDisconnect (s.now + min (delayNext c s.delay) 1 * 1000)] := by
  rw [rw_true c s h]; rfl
theorem rw_disconnected_true (c : Cfg) (s : St) : (reconnectWait c s true).disconnected = true := by
  cases h : s.disconnected
  · rw [rw_true c s h]; rfl
  · rw [rw_of_disconnected c s _ h]; exact h
theorem rw_now_true (c : Cfg) (s : St) (h : s.disconnected = false) :
    (reconnectWait c s true).now = s.now + min (delayNext c s.delay) 1 * 1000 := by
  rw [rw_true c s h]; rfl

theorem rw_log_gen (c : Cfg) (s : St) (w : Bool) :
    ∃ evs, (reconnectWait c s w).log = s.log ++ evs ∧ Obs.raised ∉ evs := by
  cases w
  · exact ⟨[], by simp, by simp⟩
  · cases h : s.disconnected
    · exact ⟨_, rw_log_true c s h, by simp⟩
    · exact ⟨[], by rw [rw_of_disconnected c s _ h]; simp, by simp⟩

def IsConn : Outcome → Prop
  | .refuse _ => False
  | .downgrade _ => False
  | .preDisc => False
  | _ => True

theorem run_conn (c : Cfg) (fuel : Nat) (o : Outcome) (rest : List Outcome) (first : Bool) (s : St) (ho : IsConn o) :
    run c (fuel + 1) (o :: rest) first s =
      (let r := connLife c (s.emit (.attempt s.now true)) o
       if r.1.disconnected ∨ !c.rof then r.1.emit (.ret (if r.1.disconnected ∧ r.2.1 = 0 then 7 else r.2.1))
       else if (reconnectWait c r.1 o.disc.inWait).disconnected then (reconnectWait c r.1 o.disc.inWait).emit (.ret r.2.1)
       else run c fuel rest false (reconnectWait c r.1 o.disc.inWait)) := by
  cases o <;> first | exact ho.elim | rfl

theorem run_refuse (c : Cfg) (fuel : Nat) (d : DiscAt) (rest : List Outcome) (first : Bool) (s : St) : 
    run c (fuel + 1) (.refuse d :: rest) first s = 
      (let s1 := (s.emit (.attempt s.now false)).emit (.onConnectFail s.now)
       let s2 := if d.inConnectFail then ({ s1 with disconnected := true }).emit (.userDisconnect s.now) else s1
       if first ∧ !c.retryFirst then s2.emit .raised
       else if s2.disconnected ∨ !c.rof then s2.emit (.ret 7)
       else if (reconnectWait c s2 d.inWait).disconnected then (reconnectWait c s2 d.inWait).emit (.ret 7)
       else run c fuel rest false (reconnectWait c s2 d.inWait)) := rfl


theorem run_downgrade (c : Cfg) (fuel : Nat) (t : Nat) (rest : List Outcome) (first : Bool) (s : St) :
    run c (fuel + 1) (.downgrade t :: rest) first s =
      (if s.proto = 4 ∧ c.rof then
        let s1 : St := { s.emit (.attempt s.now true) with now := s.now + t, proto := 3 }
        match rest with
        | .preDisc :: _ => (({ s1 with disconnected := true } : St).emit (.userDisconnect s1.now)).emit (.ret 4)
        | _ => run c fuel rest false s1
      else if s.proto = 4 then
        (({ s.emit (.attempt s.now true) with now := s.now + t } : St).emit (.onDisconnect 2 (s.now + t))).emit (.ret 2)
      else run c fuel (.connackRefused 1 t {} :: rest) first s) := rfl

theorem run_preDisc (c : Cfg) (fuel : Nat) (rest : List Outcome) (first : Bool) (s : St) :
    run c (fuel + 1) (.preDisc :: rest) first s =
      (({ s with disconnected := true } : St).emit (.userDisconnect s.now)).emit (.ret 7) := by
  simp [run]

theorem run_zero (c : Cfg) (script : List Outcome) (first : Bool) (s : St) :
    run c 0 script first s = s.emit .scriptEnd := by
  cases script <;> rfl

theorem run_nil (c : Cfg) (fuel : Nat) (first : Bool) (s : St) :
    run c fuel [] first s = s.emit .scriptEnd := by
  cases fuel <;> rfl

/-- shape of the log of a run entered with `disconnected = false`: a part without user disconnects, then a part
without attempts which, if non-empty, ends the run (`ret` / `raised`) -/
def Struct (base l : List Obs) : Prop :=
  ∃ pre post, l = base ++ (pre ++ post) ∧ pre.all (fun e => !isUD e) = true ∧ post.all (fun e => !isAtt e) = true ∧
    (post = [] ∨ ∃ e, post.getLast? = some e ∧ isEndE e = true)

theorem Struct.step {base l : List Obs} (m : List Obs) (h : Struct (base ++ m) l)
    (hm : m.all (fun e => !isUD e) = true) : Struct base l := by
  obtain ⟨pre, post, hl, hpre, hpost, hend⟩ := h
  exact ⟨m ++ pre, post, by simp [hl], by simp [List.all_append, hm, hpre], hpost, hend⟩

theorem Struct.open_ (base m : List Obs) (hm : m.all (fun e => !isUD e) = true) : Struct base (base ++ m) :=
  ⟨m, [], by simp, hm, by simp, .inl rfl⟩

theorem Struct.close (base pre post : List Obs) (e : Obs) (hpre : pre.all (fun e => !isUD e) = true)
    (hpost : post.all (fun e => !isAtt e) = true) (he : isEndE e = true) :
    Struct base (base ++ (pre ++ (post ++ [e]))) :=
  ⟨pre, post ++ [e], rfl, hpre, by cases e <;> simp_all [isAtt, isEndE], .inr ⟨e, by simp, he⟩⟩

theorem run_struct (c : Cfg) (fuel : Nat) : ∀ (script : List Outcome) (first : Bool) (s : St),
    s.disconnected = false → Struct s.log (run c fuel script first s).log := by
  induction fuel with
  | zero => 
    intro script first s _
    rw [run_zero]; exact Struct.open_ _ [_] (by simp [isUD])
  | succ fuel ih =>
    intro script first s hs
    cases script with
    | nil => rw [run_nil]; exact Struct.open_ _ [_] (by simp [isUD])
    | cons o rest =>
      by_cases ho : IsConn o
      · rw [run_conn _ _ _ _ _ _ ho]
        obtain ⟨evs, hlog, hatt, hdisc, -⟩ := connLife_spec c (s.emit (.attempt s.now true)) o
        generalize connLife c (s.emit (.attempt s.now true)) o = r at *
        simp only []
        split
        · have := Struct.close s.log [.attempt s.now true] evs (.ret (if r.1.disconnected ∧ r.2.1 = 0 then 7 else r.2.1))
            (by simp [isUD]) hatt rfl
          simpa [hlog] using this
        · rename_i hc
          have hd : r.1.disconnected = false := by
            cases h : r.1.disconnected <;> simp_all
          generalize o.disc.inWait = w
          cases w
          · simp only [rw_disconnected, hd]
            have := ih rest false (reconnectWait c r.1) (by simpa using hd)
            refine Struct.step ([.attempt s.now true] ++ evs) ?_ ?_
            · simpa [hlog] using this
            · rw [List.all_append, (hdisc hd).2]; simp [isUD]
          · simp only [rw_disconnected_true, if_true]
            have := Struct.close s.log ([.attempt s.now true] ++ evs)
              [.userDisconnect (r.1.now + min (delayNext c r.1.delay) 1 * 1000)] (.ret r.2.1)
              (by rw [List.all_append, (hdisc hd).2]; simp [isUD]) (by simp [isAtt]) rfl
            simpa [hlog, rw_log_true _ _ hd] using this
      · cases o with
        | refuse d =>
          rw [run_refuse]
          cases hd : d.inConnectFail
          · simp only [Bool.false_eq_true, if_false]
            split
            · have := Struct.close s.log [.attempt s.now false, .onConnectFail s.now] [] .raised
                (by simp [isUD]) (by simp) rfl
              simpa using this
            · split
              · have := Struct.close s.log [.attempt s.now false, .onConnectFail s.now] [] (.ret 7)
                  (by simp [isUD]) (by simp) rfl
                simpa using this
              · cases d.inWait
                · simp only [rw_disconnected, emit_disconnected, hs, Bool.false_eq_true, if_false]
                  have := ih rest false (reconnectWait c ((s.emit (.attempt s.now false)).emit (.onConnectFail s.now)))
                    (by simpa using hs)
                  refine Struct.step [.attempt s.now false, .onConnectFail s.now] ?_ (by simp [isUD])
                  simpa using this
                · simp only [rw_disconnected_true, if_true]
                  have hs2 : ((s.emit (.attempt s.now false)).emit (.onConnectFail s.now)).disconnected = false := by
                    simpa using hs
                  have := Struct.close s.log [.attempt s.now false, .onConnectFail s.now]
                    [.userDisconnect (s.now + min (delayNext c s.delay) 1 * 1000)] (.ret 7)
                    (by simp [isUD]) (by simp [isAtt]) rfl
                  simpa [rw_log_true _ _ hs2] using this
          · simp only [if_true]
            split
            · have := Struct.close s.log [.attempt s.now false, .onConnectFail s.now] [.userDisconnect s.now] .raised
                (by simp [isUD]) (by simp [isAtt]) rfl
              simpa using this
            · simp only [emit_disconnected, true_or, if_true]
              have := Struct.close s.log [.attempt s.now false, .onConnectFail s.now] [.userDisconnect s.now] (.ret 7)
                (by simp [isUD]) (by simp [isAtt]) rfl
              simpa using this
        | downgrade t =>
          rw [run_downgrade]
          split
          · simp only []
            split
            · have := Struct.close s.log [.attempt s.now true] [.userDisconnect (s.now + t)] (.ret 4)
                (by simp [isUD]) (by simp [isAtt]) rfl
              simpa using this
            · have := ih rest false { s.emit (.attempt s.now true) with now := s.now + t, proto := 3 } (by simpa using hs)
              refine Struct.step [.attempt s.now true] ?_ (by simp [isUD])
              simpa using this
          · split
            · have := Struct.close s.log [.attempt s.now true, .onDisconnect 2 (s.now + t)] [] (.ret 2)
                (by simp [isUD]) (by simp) rfl
              simpa using this
            · exact ih _ first s hs
        | preDisc =>
          rw [run_preDisc]
          have := Struct.close s.log [] [.userDisconnect s.now] (.ret 7) (by simp) (by simp [isAtt]) rfl
          simpa using this
        | _ => exact (ho trivial).elim


theorem Struct.final {l : List Obs} (h : Struct [] l) (i j t t' : Nat) (ok : Bool)
    (hi : l[i]? = some (.userDisconnect t)) (hj : l[j]? = some (.attempt t' ok)) : j < i := by
  obtain ⟨pre, post, rfl, hpre, hpost, -⟩ := h
  rw [List.nil_append] at hi hj
  rw [List.all_eq_true] at hpre hpost
  by_cases hip : i < pre.length
  · rw [List.getElem?_append_left hip] at hi
    have := hpre _ (List.mem_of_getElem? hi)
    simp [isUD] at this
  · by_cases hjp : j < pre.length
    · omega
    · rw [List.getElem?_append_right (by omega)] at hj
      have := hpost _ (List.mem_of_getElem? hj)
      simp [isAtt] at this

theorem Struct.returns {l : List Obs} (h : Struct [] l) (hu : l.any isUD = true) :
    ∃ e, l.getLast? = some e ∧ isEndE e = true := by
  obtain ⟨pre, post, rfl, hpre, hpost, hend⟩ := h
  rcases hend with rfl | ⟨e, he, hee⟩
  · rw [List.any_eq_true] at hu
    rw [List.all_eq_true] at hpre
    obtain ⟨x, hx, hxu⟩ := hu
    have := hpre x (by simpa using hx)
    simp [hxu] at this
  · exact ⟨e, by simp [List.getLast?_append, he], hee⟩

/-! ### minimum / maximum gap before a retry -/

def GapOK (c : Cfg) (l : List Obs) : Prop :=
  ∀ i x t t' ok, l[i]? = some x → isAtt x = false → oTime x = some t → l[i + 1]? = some (.attempt t' ok) →
    t + c.minDelay * 1000 ≤ t' ∧ t' ≤ t + c.maxDelay * 1000

def LastOK (c : Cfg) (l : List Obs) (now : Nat) : Prop :=
  ∀ x t, l.getLast? = some x → isAtt x = false → oTime x = some t →
    t + c.minDelay * 1000 ≤ now ∧ now ≤ t + c.maxDelay * 1000

theorem GapOK.append_noatt {c : Cfg} {l : List Obs} (h : GapOK c l) (m : List Obs)
    (hm : m.all (fun e => !isAtt e) = true) : GapOK c (l ++ m) := by
  intro i x t t' ok hx hxa hxt hy
  by_cases hlt : i + 1 < l.length
  · rw [List.getElem?_append_left hlt] at hy
    rw [List.getElem?_append_left (by omega)] at hx
    exact h i x t t' ok hx hxa hxt hy
  · rw [List.getElem?_append_right (by omega)] at hy
    rw [List.all_eq_true] at hm
    have := hm _ (List.mem_of_getElem? hy)
    simp [isAtt] at this

theorem GapOK.snoc_att {c : Cfg} {l : List Obs} (h : GapOK c l) (now : Nat) (ok : Bool) (hl : LastOK c l now) :
    GapOK c (l ++ [.attempt now ok]) := by
  intro i x t t' ok' hx hxa hxt hy
  by_cases hlt : i + 1 < l.length
  · rw [List.getElem?_append_left hlt] at hy
    rw [List.getElem?_append_left (by omega)] at hx
    exact h i x t t' ok' hx hxa hxt hy
  · have hlen : i + 1 = l.length := by
      have := (List.getElem?_eq_some_iff.mp hy).1
      simp at this; omega
    rw [List.getElem?_append_right (by omega)] at hy
    rw [List.getElem?_append_left (by omega)] at hx
    have hlast : l.getLast? = some x := by
      rw [List.getLast?_eq_getElem?, ← hx]; congr 1; omega
    have ht : t' = now := by
      have : i + 1 - l.length = 0 := by omega
      rw [this] at hy
      simp at hy; exact hy.1.symm
    subst ht
    exact hl x t hlast hxa hxt

theorem LastOK.of_att (c : Cfg) (l : List Obs) (a : Nat) (ok : Bool) (now : Nat) :
    LastOK c (l ++ [.attempt a ok]) now := by
  intro x t hx hxa
  simp at hx; subst hx; simp [isAtt] at hxa

theorem GapOK.nil (c : Cfg) : GapOK c [] := by
  intro i x t t' ok hx; simp at hx

theorem LastOK.nil (c : Cfg) (now : Nat) : LastOK c [] now := by
  intro x t hx; simp at hx


theorem connLife_delay_accepted (c : Cfg) (s : St) (t life : Nat) (d : DiscAt) :
    (connLife c s (.accepted t life d)).1.delay = none := by
  obtain ⟨a, b, e, w, sd⟩ := d
  by_cases hq : s.proto = 5 ∧ sd.isSome = true ∧ life = 0 <;>
    cases b <;> cases e <;> simp [connLife, St.emit, hq]

theorem connLife_delay_other (c : Cfg) (s : St) (o : Outcome) (h : ∀ t l d, o ≠ .accepted t l d) :
    (connLife c s o).1.delay = s.delay := by
  cases o with
  | accepted t l d => exact (h t l d rfl).elim
  | refuse d => rfl
  | downgrade t => rfl
  | preDisc => rfl
  | eof t d =>
    obtain ⟨a, b, e⟩ := d
    cases e <;> simp [connLife, St.emit]
  | connackRefused rc t d =>
    obtain ⟨a, b, e⟩ := d
    cases b <;> cases e <;> simp [connLife, St.emit]

theorem connLife_reg (c : Cfg) (s : St) (o : Outcome) (h : RegOK c s.delay) : RegOK c (connLife c s o).1.delay := by
  by_cases ha : ∃ t l d, o = .accepted t l d
  · obtain ⟨t, l, d, rfl⟩ := ha
    rw [connLife_delay_accepted]; intro x hx; cases hx
  · rw [connLife_delay_other c s o (by intro t l d he; exact ha ⟨t, l, d, he⟩)]; exact h

theorem IsConn.ne (o : Outcome) (h : IsConn o) : (∀ t, o ≠ .downgrade t) ∧ (∀ d, o ≠ .refuse d) ∧ o ≠ .preDisc := by
  cases o <;> simp_all [IsConn]

theorem run_gap (c : Cfg) (hc : 1 ≤ c.minDelay ∧ c.minDelay ≤ c.maxDelay) (fuel : Nat) :
    ∀ (script : List Outcome) (first : Bool) (s : St),
    s.disconnected = false → RegOK c s.delay → GapOK c s.log → LastOK c s.log s.now →
      GapOK c (run c fuel script first s).log := by
  induction fuel with
  | zero =>
    intro script first s _ _ hg _
    rw [run_zero]; exact hg.append_noatt [_] (by simp [isAtt])
  | succ fuel ih =>
    intro script first s hs hreg hg hl
    cases script with
    | nil => rw [run_nil]; exact hg.append_noatt [_] (by simp [isAtt])
    | cons o rest =>
      by_cases ho : IsConn o
      · rw [run_conn _ _ _ _ _ _ ho]
        obtain ⟨evs, hlog, hatt, hdisc, hlast⟩ := connLife_spec c (s.emit (.attempt s.now true)) o
        have hreg' := connLife_reg c (s.emit (.attempt s.now true)) o hreg
        obtain ⟨e, hel, hea, het⟩ := hlast ho.ne.1 ho.ne.2.1 ho.ne.2.2
        generalize connLife c (s.emit (.attempt s.now true)) o = r at *
        have hg1 : GapOK c r.1.log := by
          rw [hlog]; exact (hg.snoc_att _ _ hl).append_noatt _ hatt
        simp only []
        split
        · exact hg1.append_noatt [_] (by simp [isAtt])
        · rename_i hcnd
          have hd : r.1.disconnected = false := by
            cases h : r.1.disconnected <;> simp_all
          generalize o.disc.inWait = w
          cases w
          · simp only [rw_disconnected, hd]
            have hb := delayNext_bounds c hc _ hreg'
            refine ih rest false (reconnectWait c r.1) (by simpa using hd) ?_ (by simpa using hg1) ?_
            · rw [rw_delay]; intro x hx; cases hx; exact hb
            · rw [rw_log, rw_now _ _ hd, hlog]
              intro x t hx hxa hxt
              rw [List.getLast?_append, hel] at hx
              simp at hx; subst hx
              rw [het] at hxt; cases hxt
              constructor
              · exact Nat.add_le_add_left (Nat.mul_le_mul_right _ hb.1) _
              · exact Nat.add_le_add_left (Nat.mul_le_mul_right _ hb.2) _
          · simp only [rw_disconnected_true, if_true, emit_log, rw_log_true _ _ hd]
            exact (hg1.append_noatt [_] (by simp [isAtt])).append_noatt [_] (by simp [isAtt])
      · cases o with
        | refuse d =>
          rw [run_refuse]
          have hg1 : GapOK c (s.log ++ [.attempt s.now false]) := hg.snoc_att _ _ hl
          cases hd : d.inConnectFail
          · simp only [Bool.false_eq_true, if_false]
            have hg2 : GapOK c ((s.emit (.attempt s.now false)).emit (.onConnectFail s.now)).log :=
              hg1.append_noatt [_] (by simp [isAtt])
            split
            · exact hg2.append_noatt [_] (by simp [isAtt])
            · split
              · exact hg2.append_noatt [_] (by simp [isAtt])
              · cases d.inWait
                · simp only [rw_disconnected, emit_disconnected, hs, Bool.false_eq_true, if_false]
                  have hb := delayNext_bounds c hc _ hreg
                  refine ih rest false _ (by simpa using hs) ?_ (by simpa using hg2) ?_
                  · rw [rw_delay]; intro x hx; cases hx; exact hb
                  · rw [rw_log, rw_now _ _ (by simpa using hs)]
                    intro x t hx hxa hxt
                    simp at hx; subst hx
                    simp [oTime] at hxt; subst hxt
                    constructor
                    · exact Nat.add_le_add_left (Nat.mul_le_mul_right _ hb.1) _
                    · exact Nat.add_le_add_left (Nat.mul_le_mul_right _ hb.2) _
                · have hs2 : ((s.emit (.attempt s.now false)).emit (.onConnectFail s.now)).disconnected = false := by
                    simpa using hs
                  simp only [rw_disconnected_true, if_true, emit_log, rw_log_true _ _ hs2]
                  exact (hg2.append_noatt [_] (by simp [isAtt])).append_noatt [_] (by simp [isAtt])
          · simp only [if_true]
            have hg2 : GapOK c (({ (s.emit (.attempt s.now false)).emit (.onConnectFail s.now) with
                disconnected := true } : St).emit (.userDisconnect s.now)).log :=
              (hg1.append_noatt [_] (by simp [isAtt])).append_noatt [_] (by simp [isAtt])
            split
            · exact hg2.append_noatt [_] (by simp [isAtt])
            · simp only [emit_disconnected, true_or, if_true]
              exact hg2.append_noatt [_] (by simp [isAtt])
        | downgrade t =>
          rw [run_downgrade]
          have hg1 : GapOK c (s.log ++ [.attempt s.now true]) := hg.snoc_att _ _ hl
          split
          · simp only []
            split
            · simp only [emit_log]
              exact (hg1.append_noatt [_] (by simp [isAtt])).append_noatt [_] (by simp [isAtt])
            · exact ih rest false { s.emit (.attempt s.now true) with now := s.now + t, proto := 3 } (by simpa using hs)
                hreg hg1 (LastOK.of_att _ _ _ _ _)
          · split
            · exact (hg1.append_noatt [_] (by simp [isAtt])).append_noatt [_] (by simp [isAtt])
            · exact ih _ first s hs hreg hg hl
        | preDisc =>
          rw [run_preDisc]
          simp only [emit_log]
          exact (hg.append_noatt [_] (by simp [isAtt])).append_noatt [_] (by simp [isAtt])
        | _ => exact (ho trivial).elim


theorem run_log_mono (c : Cfg) (fuel : Nat) : ∀ (script : List Outcome) (first : Bool) (s : St),
    ∃ evs, (run c fuel script first s).log = s.log ++ evs := by
  induction fuel with
  | zero => intro script first s; rw [run_zero]; exact ⟨_, rfl⟩
  | succ fuel ih =>
    intro script first s
    cases script with
    | nil => rw [run_nil]; exact ⟨_, rfl⟩
    | cons o rest =>
      by_cases ho : IsConn o
      · rw [run_conn _ _ _ _ _ _ ho]
        obtain ⟨evs, hlog, -⟩ := connLife_spec c (s.emit (.attempt s.now true)) o
        generalize connLife c (s.emit (.attempt s.now true)) o = r at *
        simp only []
        split
        · exact ⟨_, by simp [hlog]; rfl⟩
        · obtain ⟨wevs, hw, -⟩ := rw_log_gen c r.1 o.disc.inWait
          split
          · exact ⟨_, by simp [hw, hlog]; rfl⟩
          · obtain ⟨evs', h⟩ := ih rest false (reconnectWait c r.1 o.disc.inWait)
            exact ⟨_, by rw [h]; simp [hw, hlog]; rfl⟩
      · cases o with
        | refuse d =>
          rw [run_refuse]
          cases hd : d.inConnectFail
          · simp only [Bool.false_eq_true, if_false]
            split
            · exact ⟨_, by simp; rfl⟩
            · split
              · exact ⟨_, by simp; rfl⟩
              · obtain ⟨wevs, hw, -⟩ := rw_log_gen c ((s.emit (.attempt s.now false)).emit (.onConnectFail s.now)) d.inWait
                split
                · exact ⟨_, by simp [hw]; rfl⟩
                · obtain ⟨evs', h⟩ := ih rest false
                    (reconnectWait c ((s.emit (.attempt s.now false)).emit (.onConnectFail s.now)) d.inWait)
                  exact ⟨_, by rw [h]; simp [hw]; rfl⟩
          · simp only [if_true]
            split
            · exact ⟨_, by simp; rfl⟩
            · simp only [emit_disconnected, true_or, if_true]
              exact ⟨_, by simp; rfl⟩
        | downgrade t =>
          rw [run_downgrade]
          split
          · simp only []
            split
            · exact ⟨_, by simp; rfl⟩
            · obtain ⟨evs', h⟩ := ih rest false { s.emit (.attempt s.now true) with now := s.now + t, proto := 3 }
              exact ⟨_, by rw [h]; simp; rfl⟩
          · split
            · exact ⟨_, by simp; rfl⟩
            · exact ih _ first s
        | preDisc =>
          rw [run_preDisc]
          exact ⟨_, by simp; rfl⟩
        | _ => exact (ho trivial).elim


/-- conclusion of the `reconnect_on_failure = False` property, relative to the incoming log -/
def OneShot (base l : List Obs) : Prop :=
  ∃ evs, l = base ++ evs ∧ (evs.filter isAtt).length ≤ 1 ∧ ∃ e, evs.getLast? = some e ∧ isEndE e = true

theorem filter_isAtt_nil {evs : List Obs} (h : evs.all (fun e => !isAtt e) = true) : evs.filter isAtt = [] := by
  rw [List.filter_eq_nil_iff]
  rw [List.all_eq_true] at h
  intro a ha; simpa using h a ha

theorem run_norof_step (c : Cfg) (h : c.rof = false) (fuel : Nat) (o : Outcome) (rest : List Outcome) (first : Bool)
    (s : St) (ho : ∀ t, o = .downgrade t → s.proto = 4) :
    OneShot s.log (run c (fuel + 1) (o :: rest) first s).log := by
  by_cases hc : IsConn o
  · rw [run_conn _ _ _ _ _ _ hc]
    obtain ⟨evs, hlog, hatt, -⟩ := connLife_spec c (s.emit (.attempt s.now true)) o
    generalize connLife c (s.emit (.attempt s.now true)) o = r at *
    simp only [h, Bool.not_false, or_true, if_true]
    refine ⟨[.attempt s.now true] ++ evs ++ [.ret (if r.1.disconnected ∧ r.2.1 = 0 then 7 else r.2.1)],
      by simp [hlog], ?_, ⟨_, by rw [List.getLast?_append]; simp; rfl, rfl⟩⟩
    rw [List.filter_append, List.filter_append, filter_isAtt_nil hatt]; exact Nat.le_refl 1
  · cases o with
    | refuse d =>
      rw [run_refuse]
      cases hd : d.inConnectFail
      · simp only [Bool.false_eq_true, if_false, h, Bool.not_false, or_true, if_true]
        split
        · exact ⟨[.attempt s.now false, .onConnectFail s.now, .raised], by simp, Nat.le_refl 1, ⟨_, rfl, rfl⟩⟩
        · exact ⟨[.attempt s.now false, .onConnectFail s.now, .ret 7], by simp, Nat.le_refl 1, ⟨_, rfl, rfl⟩⟩
      · simp only [if_true, h, Bool.not_false, or_true]
        split
        · exact ⟨[.attempt s.now false, .onConnectFail s.now, .userDisconnect s.now, .raised], by simp,
            Nat.le_refl 1, ⟨_, rfl, rfl⟩⟩
        · exact ⟨[.attempt s.now false, .onConnectFail s.now, .userDisconnect s.now, .ret 7], by simp,
            Nat.le_refl 1, ⟨_, rfl, rfl⟩⟩
    | downgrade t =>
      rw [run_downgrade]
      simp only [h, ho t rfl, Bool.false_eq_true, and_false, if_false, if_true]
      exact ⟨[.attempt s.now true, .onDisconnect 2 (s.now + t), .ret 2], by simp, Nat.le_refl 1, ⟨_, rfl, rfl⟩⟩
    | preDisc =>
      rw [run_preDisc]
      exact ⟨[.userDisconnect s.now, .ret 7], by simp, by simp [isAtt], ⟨_, rfl, rfl⟩⟩
    | _ => exact (hc trivial).elim

theorem run_norof (c : Cfg) (h : c.rof = false) (fuel : Nat) (o : Outcome) (rest : List Outcome) (first : Bool)
    (s : St) : OneShot s.log (run c (fuel + 2) (o :: rest) first s).log := by
  by_cases ho : ∀ t, o = .downgrade t → s.proto = 4
  · exact run_norof_step c h (fuel + 1) o rest first s ho
  · obtain ⟨t, ho⟩ := Classical.not_forall.mp ho
    obtain ⟨rfl, hp⟩ := Classical.not_imp.mp ho
    rw [run_downgrade]
    simp only [hp, false_and, if_false]
    exact run_norof_step c h fuel _ rest first s (by intro t' ht'; cases ht')

/-! ### where `raised` can still come from: only a refused *first* attempt with retry_first_connection off -/

theorem connLife_no_raised (c : Cfg) (s : St) (o : Outcome) (h : Obs.raised ∉ s.log) :
    Obs.raised ∉ (connLife c s o).1.log := by
  cases o with
  | refuse d => exact h
  | downgrade t => exact h
  | preDisc => exact h
  | eof t d =>
    obtain ⟨a, b, e⟩ := d
    cases e <;> simp [connLife, St.emit, h]
  | connackRefused rc t d =>
    obtain ⟨a, b, e⟩ := d
    cases b <;> cases e <;> simp [connLife, St.emit, h]
  | accepted t life d =>
    obtain ⟨a, b, e, w, sd⟩ := d
    by_cases hq : s.proto = 5 ∧ sd.isSome = true ∧ life = 0 <;>
      cases b <;> cases e <;> simp [connLife, St.emit, h, hq]

theorem run_no_raised (c : Cfg) (fuel : Nat) : ∀ (script : List Outcome) (first : Bool) (s : St),
    (first = false ∨ c.retryFirst = true) → Obs.raised ∉ s.log → Obs.raised ∉ (run c fuel script first s).log := by
  induction fuel with
  | zero => intro script first s _ h; rw [run_zero]; simp [h]
  | succ fuel ih =>
    intro script first s hf h
    have hnr : ¬ (first = true ∧ (!c.retryFirst) = true) := by
      rcases hf with hf | hf <;> simp [hf]
    cases script with
    | nil => rw [run_nil]; simp [h]
    | cons o rest =>
      by_cases ho : IsConn o
      · rw [run_conn _ _ _ _ _ _ ho]
        have h1 := connLife_no_raised c (s.emit (.attempt s.now true)) o (by simp [h])
        generalize connLife c (s.emit (.attempt s.now true)) o = r at *
        simp only []
        split
        · simp [h1]
        · obtain ⟨wevs, hw, hwr⟩ := rw_log_gen c r.1 o.disc.inWait
          split
          · simp [hw, h1, hwr]
          · exact ih rest false _ (.inl rfl) (by simp [hw, h1, hwr])
      · cases o with
        | refuse d =>
          rw [run_refuse]
          simp only [hnr, if_false]
          cases hd : d.inConnectFail
          · simp only [Bool.false_eq_true, if_false]
            split
            · simp [h]
            · obtain ⟨wevs, hw, hwr⟩ := rw_log_gen c ((s.emit (.attempt s.now false)).emit (.onConnectFail s.now)) d.inWait
              split
              · simp [hw, h, hwr]
              · exact ih rest false _ (.inl rfl) (by simp [hw, h, hwr])
          · simp [h]
        | downgrade t =>
          rw [run_downgrade]
          split
          · simp only []
            split
            · simp [h]
            · exact ih rest false _ (.inl rfl) (by simp [h])
          · split
            · simp [h]
            · exact ih _ first s hf h
        | preDisc =>
          rw [run_preDisc]
          simp [h]
        | _ => exact (ho trivial).elim

end Paho.LFLemmas
