/-
T1, translated: `Client._call_socket_register_write` / `_call_socket_unregister_write` - the bookkeeping behind C16 ("whenever
control returns with an open socket and unsent data a write registration is outstanding"; register / unregister strictly
alternate). Translated from the AST of the current source by py/py2lean.py (`Paho.Gen.FnSockCb`, regenerated on every run) and
proved equal to the session model's `callSocketRegisterWrite` / `callSocketUnregisterWrite`: in particular the flag
`_registered_write` changes BEFORE the user's callback runs, so that an API call made inside the callback sees the new value.
-/
import Paho.Gen.FnSockCb
import PahoProofs.Properties.FnKeepalive

namespace Paho.FnEq
open Paho Paho.Py

/-- one step of the two helpers, executed on the model: the flag, and the user's callback as the model's socket-callback event -/
def runSk (s : S) : MEff → S
  | .setInt "_registered_write" v => { s with regWrite := (v != 0) }
  | .call "on_socket_register_write" [c] => s.emit (.skRegW (c - 1).toNat)
  | .call "on_socket_unregister_write" [c] => s.emit (.skUnregW (c - 1).toNat)
  | _ => s

/-- **`Client._call_socket_register_write` as the source has it now = the model's `callSocketRegisterWrite`** (callbacks that
do not raise; `on_socket_register_write` installed iff the model's external-loop flag is set): nothing without a socket or when
a registration is already outstanding; otherwise the flag is set first and then the callback is called with the socket -/
theorem fn_callSocketRegisterWrite (s : S) (now : Int) (sup : Bool) :
    ∃ effs, Gen.Fn.SockCb.callSocketRegisterWrite (sockId s.sock) s.regWrite s.cfg.ext sup now false = .ok effs ∧
      effs.foldl runSk s = s.callSocketRegisterWrite := by
  unfold Gen.Fn.SockCb.callSocketRegisterWrite S.callSocketRegisterWrite
  cases hs : s.sock with
  | none => exact ⟨[], by simp [sockId, pure, Except.pure], by simp⟩
  | some c =>
    have e0 : ((c : Int) + 1 != 0) = true := by simp; omega
    by_cases hr : s.regWrite = true
    · exact ⟨[], by simp [sockId, e0, hr, pure, Except.pure], by simp [hr]⟩
    · have hr' : s.regWrite = false := by simpa using hr
      by_cases he : s.cfg.ext = true
      · refine ⟨[.setInt "_registered_write" 1, .call "on_socket_register_write" [(c : Int) + 1]], ?_, ?_⟩
        · simp [sockId, e0, hr', he, pure, Except.pure, bind, Except.bind]
        · simp [runSk, hr', he, hs]
      · have he' : s.cfg.ext = false := by simpa using he
        refine ⟨[.setInt "_registered_write" 1], ?_, ?_⟩
        · simp [sockId, e0, hr', he', pure, Except.pure, bind, Except.bind]
        · simp [runSk, hr', he', hs]

/-- **`Client._call_socket_unregister_write(sock)` = the model's `callSocketUnregisterWrite`**: the socket is the one given or,
failing that, the current one; nothing without a socket or without an outstanding registration; otherwise the flag is cleared
first and then the callback is called with that socket -/
theorem fn_callSocketUnregisterWrite (s : S) (sock : Option Nat) (now : Int) (sup : Bool) :
    ∃ effs, Gen.Fn.SockCb.callSocketUnregisterWrite (sockId s.sock) s.regWrite s.cfg.ext sup now false (sockId sock) = .ok effs ∧
      effs.foldl runSk s = s.callSocketUnregisterWrite sock := by
  unfold Gen.Fn.SockCb.callSocketUnregisterWrite S.callSocketUnregisterWrite
  have hor : (if sockId sock != 0 then sockId sock else sockId s.sock) = sockId (sock.or s.sock) := by
    cases sock with
    | none => simp [sockId]
    | some c => have : ((c : Int) + 1 != 0) = true := by simp; omega
                simp [sockId, this]
  cases hso : (sock.or s.sock) with
  | none =>
    refine ⟨[], ?_, by simp⟩
    simp only [hor]
    simp only [hso, sockId]
    simp [pure, Except.pure, bind, Except.bind]
  | some c =>
    have e0 : ((c : Int) + 1 != 0) = true := by simp; omega
    by_cases hr : s.regWrite = true
    · by_cases he : s.cfg.ext = true
      · refine ⟨[.setInt "_registered_write" 0, .call "on_socket_unregister_write" [(c : Int) + 1]], ?_, ?_⟩
        · simp only [hor]
          simp only [hso, sockId]
          simp [e0, hr, he, pure, Except.pure, bind, Except.bind]
        · simp [runSk, hr, he]
      · have he' : s.cfg.ext = false := by simpa using he
        refine ⟨[.setInt "_registered_write" 0], ?_, ?_⟩
        · simp only [hor]
          simp only [hso, sockId]
          simp [e0, hr, he', pure, Except.pure, bind, Except.bind]
        · simp [runSk, hr, he']
    · have hr' : s.regWrite = false := by simpa using hr
      refine ⟨[], ?_, by simp [hr']⟩
      simp only [hor]
      simp only [hso, sockId]
      simp [e0, hr', pure, Except.pure, bind, Except.bind]

/-! ### `Client._sock_close` -/

/-- the steps of `_sock_close()` executed on the model: dropping the socket attribute (the model's ghost flags about the
connection go with it), the two helper calls, and the real close of the transport socket -/
def runClose (s : S) : MEff → S
  | .setInt "_sock" _ => { s with sock := none, ackd := false, discCalled := false }
  | .call "_call_socket_unregister_write" [c] => s.callSocketUnregisterWrite (some (c - 1).toNat)
  | .call "_call_socket_close" [c] =>
    -- `_call_socket_close`: `with self._in_callback_mutex` (blocking) around the callback
    if s.cfg.ext then (if s.inCb then s.emit (.deadlock "_in_callback_mutex") else s.emit (.skClose (c - 1).toNat)) else s
  | .call "close" [c] => s.emit (.sclose (c - 1).toNat false)
  | _ => s

/-- **`Client._sock_close` as the source has it now = the model's `sockClose`**: nothing without a socket; otherwise the
socket attribute is cleared FIRST (so that nothing reached from the callbacks can write to or close this socket again), then
the write registration is withdrawn, then on_socket_close runs, then the transport socket is really closed - the order C16's
trace theorem (`c16_trace`: no registration outstanding at close; open/close alternate) depends on -/
theorem fn_sockClose (s : S) (now : Int) :
    ∃ effs, Gen.Fn.SockCb.sockClose (sockId s.sock) now = .ok effs ∧ effs.foldl runClose s = s.sockClose := by
  unfold Gen.Fn.SockCb.sockClose S.sockClose
  cases hs : s.sock with
  | none => exact ⟨[], by simp [sockId, pure, Except.pure], by simp⟩
  | some c =>
    have e0 : ((c : Int) + 1 != 0) = true := by simp; omega
    refine ⟨[.setInt "_sock" 0, .call "_call_socket_unregister_write" [(c : Int) + 1], .call "_call_socket_close" [(c : Int) + 1],
      .call "close" [(c : Int) + 1]], ?_, ?_⟩
    · simp [sockId, e0, pure, Except.pure, bind, Except.bind]
    · have hcfg : ∀ t : S, (t.callSocketUnregisterWrite (some c)).cfg = t.cfg ∧ (t.callSocketUnregisterWrite (some c)).inCb = t.inCb := by
        intro t
        unfold S.callSocketUnregisterWrite
        simp only [Option.or_some]
        cases t.regWrite <;> cases t.cfg.ext <;> simp [S.emit]
      simp [runClose]

/-! ### `Client.loop_write` -/

/-- the calls `loop_write()` makes, executed on the model -/
def runLW (s : S) : MEff → S
  | .call "_packet_write" [] => (s.packetWrite s.writeFuel).1
  | .call "_loop_rc_handle" [rc] => (s.loopRcHandle rc).1
  | .call "_call_socket_register_write" [] => s.callSocketRegisterWrite
  | .call "_call_socket_unregister_write" [] => s.callSocketUnregisterWrite none
  | _ => s

/-- **`Client.loop_write` as the source has it now = the model's `loopWrite`** (result code and effect on the client), the results of
the calls it makes being those of the model's functions at that point: MQTT_ERR_NO_CONN without a socket; otherwise
`_packet_write()`, whose MQTT_ERR_AGAIN becomes success and whose error goes through `_loop_rc_handle()`; and FINALLY, whatever
happened, the write registration is settled by what `want_write()` says THEN - register when unsent data remains, unregister
otherwise (C16: `c16_no_lost_wakeup`; seeded C16e and X51 changed this finally block) -/
theorem fn_loopWrite (s : S) (now : Int) :
    let p1 := s.packetWrite s.writeFuel
    let s2 := if p1.2 = rcAgain then p1.1 else if p1.2 > 0 then (p1.1.loopRcHandle p1.2).1 else p1.1
    ∃ rc effs, Gen.Fn.SockCb.loopWrite (sockId s.sock) now p1.2 (p1.1.loopRcHandle p1.2).2 s2.wantWrite = .ok (rc, effs) ∧
      (effs.foldl runLW s, rc) = s.loopWrite := by
  intro p1 s2
  unfold Gen.Fn.SockCb.loopWrite S.loopWrite
  cases hs : s.sock with
  | none => exact ⟨4, [], by simp [sockId, pure, Except.pure], by simp [rcNoConn]⟩
  | some c =>
    have e0 : ((c : Int) + 1 == 0) = false := by rw [beq_eq_false_iff_ne]; omega
    simp only [sockId, e0]
    by_cases ha : p1.2 = rcAgain
    · have ha' : (p1.2 == -1) = true := by simpa [rcAgain] using ha
      have hs2 : s2 = p1.1 := by simp [s2, ha]
      cases hw : p1.1.wantWrite with
      | true =>
        refine ⟨0, [.call "_packet_write" [], .call "_call_socket_register_write" []], ?_, ?_⟩
        · simp [ha', hs2, hw, pure, Except.pure, bind, Except.bind]
        · simp [runLW, p1, ha, hw, rcSuccess] at *
      | false =>
        refine ⟨0, [.call "_packet_write" [], .call "_call_socket_unregister_write" []], ?_, ?_⟩
        · simp [ha', hs2, hw, pure, Except.pure, bind, Except.bind]
        · simp [runLW, p1, ha, hw, rcSuccess] at *
    · have ha' : (p1.2 == -1) = false := by rw [beq_eq_false_iff_ne]; simpa [rcAgain] using ha
      by_cases hp : p1.2 > 0
      · have hs2 : s2 = (p1.1.loopRcHandle p1.2).1 := by simp [s2, ha, hp]
        cases hw : (p1.1.loopRcHandle p1.2).1.wantWrite with
        | true =>
          refine ⟨(p1.1.loopRcHandle p1.2).2, [.call "_packet_write" [], .call "_loop_rc_handle" [p1.2], .call "_call_socket_register_write" []], ?_, ?_⟩
          · simp [ha', hp, hs2, hw, pure, Except.pure, bind, Except.bind]
          · simp [runLW, p1, ha, hp, hw] at *
        | false =>
          refine ⟨(p1.1.loopRcHandle p1.2).2, [.call "_packet_write" [], .call "_loop_rc_handle" [p1.2], .call "_call_socket_unregister_write" []], ?_, ?_⟩
          · simp [ha', hp, hs2, hw, pure, Except.pure, bind, Except.bind]
          · simp [runLW, p1, ha, hp, hw] at *
      · have hs2 : s2 = p1.1 := by simp [s2, ha, hp]
        cases hw : p1.1.wantWrite with
        | true =>
          refine ⟨0, [.call "_packet_write" [], .call "_call_socket_register_write" []], ?_, ?_⟩
          · simp [ha', hp, hs2, hw, pure, Except.pure, bind, Except.bind]
          · simp [runLW, p1, ha, hp, hw, rcSuccess] at *
        | false =>
          refine ⟨0, [.call "_packet_write" [], .call "_call_socket_unregister_write" []], ?_, ?_⟩
          · simp [ha', hp, hs2, hw, pure, Except.pure, bind, Except.bind]
          · simp [runLW, p1, ha, hp, hw, rcSuccess] at *

end Paho.FnEq
