/-
C06 over a raw (TCP/TLS) socket at packet granularity: the client's packet queue and `_packet_write()` with a socket
that accepts any part of what it is given (Paho.Model.TcpWriter).  For EVERY sequence of `_packet_queue` appends and
`_packet_write()` calls and EVERY behaviour of the socket in each send (accept k bytes for any k, BlockingIOError,
another OSError):
-/
import PahoProofs.Lemmas.TcpWriter

namespace Paho.TcpW
open Paho Paho.Ws

/-- nothing is lost, duplicated or reordered in the queue -/
theorem c06tcp_fifo (ops : List Op) (hops : OpsOk ops) :
    let s := run {} ops
    s.done ++ s.queue.map (·.bytes) = s.enq :=
  (inv_run {} ops inv_init hops).fifo

/-- **the wire**: the bytes the socket has accepted are exactly the packets reported as sent, each complete, once, in
queue order, followed by the accepted part of the packet in flight -/
theorem c06tcp_wire (ops : List Op) (hops : OpsOk ops) :
    let s := run {} ops
    s.wire = s.done.flatten ++ headSent s.queue :=
  (inv_run {} ops inv_init hops).wire

/-- ... hence a prefix of the concatenation of everything appended, in append order -/
theorem c06tcp_wire_prefix (ops : List Op) (hops : OpsOk ops) :
    let s := run {} ops
    s.wire <+: s.enq.flatten := by
  intro s
  have h : Inv s := inv_run {} ops inv_init hops
  rw [h.wire, ← h.fifo, List.flatten_append]
  refine (List.prefix_append_right_inj _).2 ?_
  cases hq : s.queue with
  | nil => exact List.nil_prefix
  | cons p rest =>
    simp only [headSent_cons, List.map_cons, List.flatten_cons]
    exact (List.take_prefix _ _).trans (List.prefix_append _ _)

/-- a packet is popped for good - and a QoS 0 publish reported as sent (`on_publish`, `is_published()`) - only when its
last byte has been accepted: the packets reported as sent are wholly on the wire -/
theorem c06tcp_done_on_wire (ops : List Op) (hops : OpsOk ops) :
    let s := run {} ops
    s.done.flatten <+: s.wire := by
  intro s
  have h : Inv s := inv_run {} ops inv_init hops
  rw [h.wire]
  exact List.prefix_append _ _

/-- only the head of the queue can be partly written, and never completely (a complete packet is popped at once);
`to_process` is what is left of it -/
theorem c06tcp_queue_shape (ops : List Op) (hops : OpsOk ops) :
    let s := run {} ops
    (∀ p ∈ s.queue.tail, p.pos = 0) ∧
      (∀ p rest, s.queue = p :: rest → p.pos < p.bytes.length ∧ p.toProcess = (p.bytes.length : Int) - (p.pos : Int)) := by
  intro s
  have h : Inv s := inv_run {} ops inv_init hops
  exact ⟨fun p hp => (h.tail p hp).1, h.head⟩

/-- when the queue is drained the wire is exactly everything appended -/
theorem c06tcp_drained (ops : List Op) (hops : OpsOk ops) :
    let s := run {} ops
    s.queue = [] → s.wire = s.enq.flatten := by
  intro s hq
  have h : Inv s := inv_run {} ops inv_init hops
  have hd : s.done = s.enq := by
    have := h.fifo
    rw [hq] at this
    simpa using this
  rw [h.wire, hq, hd]
  simp [headSent]

/-- `_packet_write()` always returns (SUCCESS, AGAIN or CONN_LOST): every iteration that does not return uses up a
scripted socket outcome or, once the socket takes everything, completes a packet -/
theorem c06tcp_never_stuck (ops : List Op) (hops : OpsOk ops) (outs : List SockSend) :
    (step (run {} ops) (.write outs)).2 ≠ some .stuck := by
  have h := inv_run {} ops inv_init hops
  simp only [step, ne_eq, Option.some.injEq]
  exact (inv_packetWrite _ _ outs h).2 (by unfold fuelFor; omega)

/-! non-vacuity: a packet written in three parts with a would-block in between and a packet appended meanwhile -/
example :
    let s := run {} [.enq [0x30, 2, 65, 66], .write [.accept 1, .accept 2, .wouldBlock], .enq [0xC0, 0], .write [.accept 0],
                     .write []]
    s.queue = [] ∧ s.done = [[0x30, 2, 65, 66], [0xC0, 0]] ∧ s.wire = [0x30, 2, 65, 66, 0xC0, 0] := by
  decide

end Paho.TcpW
