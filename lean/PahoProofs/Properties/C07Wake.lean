/-
C07, section B — queue, wake-up pipe, writer (`WakeSys` of Paho/Model/Threads.lean).
Lemmas: PahoProofs/Lemmas/ThrWake.lean (one-step invariants), PahoProofs/Lemmas/ThrWakeDrain.lean (progress).
-/
import Paho.Model.Threads
import PahoProofs.Lemmas.ThrWake
import PahoProofs.Lemmas.ThrWakeDrain
namespace Paho.Thr
open Paho

def WakeSys.init (writer : Tid) : WakeSys := { loopTid := writer }

/-- FIFO hand-off: what is on the wire, then what the writer has in hand, then what is queued, is exactly what was
appended, byte for byte, in append order -/
theorem c07_fifo (w : Tid) (sched : List (Tid × WAct)) :
    let s := (WakeSys.init w).run sched
    s.wire ++ s.handBytes ++ s.queueBytes = s.allBytes := fifo_run w sched

/-- every packet reaches the wire intact, in order, at most once ... -/
theorem c07_wire_prefix (w : Tid) (sched : List (Tid × WAct)) :
    let s := (WakeSys.init w).run sched
    s.wire <+: s.allBytes := by
  intro s
  have h : Fifo s := fifo_run w sched
  exact ⟨s.handBytes ++ s.queueBytes, by rw [← h, List.append_assoc]⟩

theorem c07_wire_nodup (w : Tid) (sched : List (Tid × WAct)) :
    let s := (WakeSys.init w).run sched
    (s.all.map (·.id)).Nodup → s.wire.Nodup := by
  intro s hnd
  exact (c07_wire_prefix w sched).sublist.nodup (bytes_nodup s.all hnd)

/-- ... and exactly once when the queue has been drained -/
theorem c07_exactly_once (w : Tid) (sched : List (Tid × WAct)) :
    let s := (WakeSys.init w).run sched
    s.queue = [] → s.handBytes = [] → s.wire = s.allBytes := by
  intro s hq hh
  have h : Fifo s := fifo_run w sched
  simpa [Fifo, hh, WakeSys.queueBytes, hq] using h

/-- no lost wake-up: the network thread never enters select() without the socket in its write set while a packet is
queued, unless the wake-up byte is in the pipe or the queuing thread is about to send it -/
theorem c07_no_lost_wakeup (w : Tid) (sched : List (Tid × WAct)) :
    let s := (WakeSys.init w).run sched
    s.queue ≠ [] → s.lpc = .armed false → s.pipe > 0 ∨ ∃ t, s.ppc t = .half := by
  intro s hq hl
  rcases (nolost_run w sched).2 hq hl with h | h
  · exact .inl h
  · exact .inr ((cnt_run w sched).pos h)

/-- the ghost counter of half-way threads is exact enough: it is zero only if no thread is half-way -/
theorem c07_nhalf_sound (w : Tid) (sched : List (Tid × WAct)) :
    let s := (WakeSys.init w).run sched
    s.nhalf = 0 → ∀ t, s.ppc t = .idle := fun h => (cnt_run w sched).zero h

/-- no stall: select() never times out (with the socket writable) with a packet queued and nobody about to send the
wake-up byte -/
theorem c07_no_stall (w : Tid) (sched : List (Tid × WAct)) :
    ((WakeSys.init w).run sched).stalls = 0 := (nostall_run w sched).2

/-- progress: with the publishers quiet and the socket writable, the network thread alone (its own actions only,
no timeout) gets every queued byte onto the wire -/
theorem c07_drains (w : Tid) (sched : List (Tid × WAct)) (hlen : ∀ x ∈ sched, ∀ id, x.2 ≠ .append id 0) :
    let s := (WakeSys.init w).run sched
    s.lpc ≠ .dead → s.nhalf = 0 →
    ∃ acts : List WAct, let s' := s.run (acts.map fun a => (s.loopTid, a))
      s'.queue = [] ∧ s'.handBytes = [] ∧ s'.stalls = 0 ∧ s'.all = s.all ∧ s'.wire = s'.allBytes := by
  intro s hlive _
  have hpos : PosLt s := poslt_run (WakeSys.init w) sched hlen ⟨by simp [WakeSys.init], by simp [WakeSys.init]⟩
  obtain ⟨acts, hq, hh, hall⟩ := drained_live s hlive hpos
  refine ⟨acts, hq, hh, ?_, hall, ?_⟩
  · exact (WakeSys.run_inv NoStall nostall_step s _ (nostall_run w sched)).2
  · have hf : Fifo (s.run (acts.map fun a => (s.loopTid, a))) := WakeSys.run_inv Fifo fifo_step s _ (fifo_run w sched)
    simpa [Fifo, hh, WakeSys.queueBytes, hq] using hf

/-- CONNECT (packet id 0) is the first packet of the connection unless another thread queued a packet between
reconnect()'s `_out_packet.clear()` and its `_send_connect()` (ghost counter `raced`) -/
theorem c07_connect_first_partial (w : Tid) (sched : List (Tid × WAct)) :
    let s := (WakeSys.init w).run sched
    s.raced = 0 → s.all = [] ∨ (s.all.head?.map (·.id)) = some 0 := by
  intro s h0
  have := connfirst_run w sched h0
  split at this
  · exact .inl this
  · exact .inr this

/-- the FULL statement ("the first packet on every connection is CONNECT even if other threads publish while the
connection is being made") is FALSE of the model, as it is of the code (known finding F13): thread 1 reconnects,
thread 2 publishes in between -/
theorem c07_connect_first_false :
    let s := (WakeSys.init 0).run [(1, .clear), (2, .append 7 10), (2, .wake), (1, .append 0 14), (1, .wake)]
    s.all.head?.map (·.id) = some 7 ∧ s.raced = 1 := by decide

-- non-vacuity: one publisher, one network thread, a partial write in between.
-- (Statement file: the same schedule without the leading `handover`. Since `.wantw` now requires the wake-up pipe
-- (`hasPipe`, created by loop_start() = `handover`) — without that guard c07_no_lost_wakeup and c07_no_stall are false:
-- [(0, wantw), (1, append 5 2), (0, select false true)] from `init 0` stalls — the network thread's loop only runs
-- after `handover`.)
example :
    let s := (WakeSys.init 0).run [(0, .handover), (0, .append 0 3), (0, .wake), (0, .wantw), (0, .select false true), (0, .drain), (0, .startw),
      (0, .pop), (1, .append 5 2), (0, .send 2), (0, .pushback), (1, .wake), (0, .pop), (0, .send 1), (0, .pop), (0, .send 2), (0, .pop)]
    s.wire = [(0, 0), (0, 1), (0, 2), (5, 0), (5, 1)] ∧ s.queue = [] ∧ s.stalls = 0 ∧ s.lpc = .misc := by decide
-- the schedule of the statement file as it is (no loop_start(): no pipe, `wake`/`wantw`/`select`/`drain`/`startw` are
-- not enabled and are skipped; the publisher's own direct loop_write() does the writing, the writer stays at `top`)
example :
    let s := (WakeSys.init 0).run [(0, .append 0 3), (0, .wake), (0, .wantw), (0, .select false true), (0, .drain), (0, .startw),
      (0, .pop), (1, .append 5 2), (0, .send 2), (0, .pushback), (1, .wake), (0, .pop), (0, .send 1), (0, .pop), (0, .send 2), (0, .pop)]
    s.wire = [(0, 0), (0, 1), (0, 2), (5, 0), (5, 1)] ∧ s.queue = [] ∧ s.stalls = 0 ∧ s.lpc = .top := by decide

end Paho.Thr
