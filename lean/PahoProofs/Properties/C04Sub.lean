/-
C04 ∘ C19 — the SUBSCRIBE / UNSUBSCRIBE round trips without the side condition `topics ≠ []`: the argument
normalisation of `subscribe()` / `unsubscribe()` (Paho.Model.SubArgs) only hands non-empty lists to the encoders,
so every call the client accepts and can encode is recovered exactly by the strict decoder - there is no accepted call
that puts a SUBSCRIBE / UNSUBSCRIBE without a topic filter on the wire (F36: `unsubscribe([])` did, before its repair).
-/
import PahoProofs.Properties.C04
import PahoProofs.Properties.C19Sub

namespace Paho

/-- UNSUBSCRIBE: any call `unsubscribe()` accepts, once encoded, decodes to exactly its filters, in order -/
theorem c04_roundtrip_unsubscribe_call (proto mid : Nat) (f : UnsubForm) (topics : List Bytes) (props : Option Props)
    (pp body bs tl : Bytes)
    (hproto : proto = 3 ∨ proto = 4 ∨ proto = 5) (hmid : 1 ≤ mid)
    (hacc : unsubNormalize f = .ok topics)
    (hp : packProps proto props = .ok pp) (hb : proto = 5 → IsBlock pp body)
    (h : encUnsubscribe proto mid topics props = .ok bs) :
    Spec.Wire.decode proto (bs ++ tl) = some (.unsubscribe mid (if proto = 5 then some body else none) topics, tl) :=
  c04_roundtrip_unsubscribe proto mid topics props pp body bs tl hproto hmid
    (c19_unsubscribe_nonempty f topics hacc) hp hb h

/-- SUBSCRIBE: any call `subscribe()` accepts, once encoded, decodes to exactly its (filter, options byte) pairs -/
theorem c04_roundtrip_subscribe_call (proto mid : Nat) (topic : TopicForm Nat) (qos : Int) (options : OptArg Nat)
    (l : List (Bytes × Entry Nat)) (props : Option Props) (pp body bs tl : Bytes)
    (hproto : proto = 3 ∨ proto = 4 ∨ proto = 5) (hmid : 1 ≤ mid)
    (hacc : Sub.normalize proto topic qos options = .ok l)
    (hp : packProps proto props = .ok pp) (hb : proto = 5 → IsBlock pp body)
    (h : encSubscribe proto mid (l.map fun e => (e.1, entryByte e.2)) props = .ok bs) :
    Spec.Wire.decode proto (bs ++ tl) =
      some (.subscribe mid (if proto = 5 then some body else none) (l.map fun e => (e.1, entryByte e.2)), tl) := by
  have hne : (l.map fun e => (e.1, entryByte e.2)) ≠ [] := by
    have := (c19_subscribe_nonempty proto topic qos options l hacc).1
    intro h0
    exact this (List.map_eq_nil_iff.1 h0)
  exact c04_roundtrip_subscribe proto mid _ props pp body bs tl hproto hmid hne hp hb h

end Paho
