/-
T1, translated functions (C19): `Client._filter_wildcard_len_check` and `Client._raise_for_invalid_topic`, translated
statement by statement from the AST of the current source (py/py2lean.py → Paho.Gen.FnValidate), equal the model's
`filterCheck` / `topicInvalid` for ALL byte strings - so `c19_filter` (accepted filters = the MQTT grammar) is a theorem
about the test the source contains now, not only about its extracted literals.
-/
import Paho.Gen.FnValidate
import Paho.Model.Validate

namespace Paho.FnEq
open Paho Paho.Gen.Fn

theorem len_eq0 (l : List UInt8) : (((l.length : Int)) == 0) = decide (l.length = 0) := by
  by_cases h : l.length = 0
  · simp [h]
  · have : ¬ ((l.length : Int) = 0) := by omega
    simp [h, this]

theorem len_gt (l : List UInt8) (k : Nat) : decide (((l.length : Int)) > (k : Int)) = decide (l.length > k) := by
  by_cases h : l.length > k
  · have : (l.length : Int) > (k : Int) := by omega
    simp [h, this]
  · have : ¬ ((l.length : Int) > (k : Int)) := by omega
    simp [h, this]

/-- the rejection test with the literals of this run written out -/
def filterBad (sub : Bytes) : Bool :=
  decide (sub.length = 0) || decide (sub.length > 65535) ||
    ((splitOn 47 sub).any fun p => decide (p.length > 1) && (p.contains 43 || p.contains 35)) || hasSub [35, 47] sub

theorem filterCheck_eq (sub : Bytes) : filterCheck sub = !filterBad sub := by
  unfold filterCheck filterBad
  simp only [Gen.filterEmptyCmp, Gen.filterEmptyLen, Gen.filterLenCmp, Gen.filterLenMax, Gen.filterSep,
    Gen.filterLvlCmp, Gen.filterLvlLen, Gen.filterWild1, Gen.filterWild2, Gen.filterBadPat, Cmp.evalNat]

def topicBad (topic : Bytes) : Bool := (topic.contains 43 || topic.contains 35) || decide (topic.length > 65535)

theorem topicInvalid_eq (topic : Bytes) : topicInvalid topic = topicBad topic := by
  unfold topicInvalid topicBad
  simp only [Gen.topicWild1, Gen.topicWild2, Gen.topicLenCmp, Gen.topicLenMax, Cmp.evalNat]

/-- **`_filter_wildcard_len_check` as the source has it now**: MQTT_ERR_SUCCESS (0) exactly when the model's `filterCheck`
accepts, MQTT_ERR_INVAL (3) otherwise - for every byte string -/
theorem fn_filterWildcardLenCheck (sub : Bytes) :
    filterWildcardLenCheck sub = .ok (if filterCheck sub then 0 else 3) := by
  rw [filterCheck_eq]
  unfold filterWildcardLenCheck
  simp only [pure, Except.pure]
  have e65535 : (65535 : Int) = ((65535 : Nat) : Int) := rfl
  have e1 : (1 : Int) = ((1 : Nat) : Int) := rfl
  have hany : ((splitOn 47 sub).any fun p => decide ((p.length : Int) > 1) && (p.contains 43 || p.contains 35)) =
      ((splitOn 47 sub).any fun p => decide (p.length > 1) && (p.contains 43 || p.contains 35)) := by
    congr 1; funext p; rw [e1, len_gt]
  rw [len_eq0, e65535, len_gt, hany]
  show (if filterBad sub = true then Except.ok 3 else Except.ok 0) = Except.ok (if (!filterBad sub) = true then 0 else 3)
  cases filterBad sub <;> rfl

/-- **`_raise_for_invalid_topic` as the source has it now**: raises ValueError exactly when the model's `topicInvalid`
says so - for every byte string -/
theorem fn_raiseForInvalidTopic (topic : Bytes) :
    raiseForInvalidTopic topic = if topicInvalid topic then .error .valueError else .ok () := by
  rw [topicInvalid_eq]
  unfold raiseForInvalidTopic topicBad
  simp only [bind, Except.bind, pure, Except.pure]
  have e65535 : (65535 : Int) = ((65535 : Nat) : Int) := rfl
  rw [e65535, len_gt]
  cases (topic.contains 43 || topic.contains 35) <;> cases decide (topic.length > 65535) <;> rfl

end Paho.FnEq
