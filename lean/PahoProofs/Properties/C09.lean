/-
C09 — automatic reconnection with exponential back-off; a user disconnect is final.
STATEMENTS TO PROVE. Model: Paho/Model/LoopForever.lean (`delayNext`, `reconnectWait`, `connLife`, `run`, `runScript`;
`Gen.backoffFactor = 2`, `Gen.backoffMinMax = Nat.min` are extracted from `_reconnect_wait`).
-/
import Paho.Model.LoopForever
import PahoProofs.Lemmas.LoopForever

namespace Paho.LF

/-- the delay register after k+1 consecutive waits starting from "no delay yet" -/
def delayAfter (c : Cfg) : Nat → Option Nat
  | 0 => none
  | k + 1 => some (delayNext c (delayAfter c k))

/-- the k-th consecutive wait (k = 0, 1, 2, …) since the register was last reset is min(min_delay · 2^k, max_delay) -/
theorem c09_delay_formula (c : Cfg) (h : 1 ≤ c.minDelay ∧ c.minDelay ≤ c.maxDelay) (k : Nat) :
    delayAfter c (k + 1) = some (Nat.min (c.minDelay * 2 ^ k) c.maxDelay) := by
  induction k with
  | zero => simp [delayAfter, delayNext, h.2]
  | succ k ih =>
    rw [delayAfter, ih]
    simp only [delayNext, Gen.backoffFactor, Gen.backoffMinMax]
    rw [LFLemmas.min_step, Nat.pow_succ, Nat.mul_assoc]

/-- never sooner than min_delay, never longer than max_delay -/
theorem c09_delay_bounds (c : Cfg) (h : 1 ≤ c.minDelay ∧ c.minDelay ≤ c.maxDelay) (k : Nat) :
    ∃ d, delayAfter c (k + 1) = some d ∧ c.minDelay ≤ d ∧ d ≤ c.maxDelay := by
  refine ⟨_, c09_delay_formula c h k, ?_, ?_⟩
  · have hp : 0 < 2 ^ k := Nat.two_pow_pos k
    have : c.minDelay ≤ c.minDelay * 2 ^ k := Nat.le_mul_of_pos_right _ hp
    simp only [Nat.min_def]; split <;> omega
  · simp only [Nat.min_def]; split <;> omega

/-- `_reconnect_wait()` advances the clock by exactly the next delay (unless the application has disconnected)
and stores it in the register — the case where nobody calls disconnect() during the wait (`inWait = false`, the
default argument: `reconnectWait c s` is `reconnectWait c s false`) -/
theorem c09_wait (c : Cfg) (s : St) :
    (reconnectWait c s false).delay = some (delayNext c s.delay) ∧
    (s.disconnected = false → (reconnectWait c s false).now = s.now + delayNext c s.delay * 1000) ∧
    (s.disconnected = true → (reconnectWait c s false).now = s.now) ∧
    (reconnectWait c s false).log = s.log ∧ (reconnectWait c s false).disconnected = s.disconnected := by
  refine ⟨LFLemmas.rw_delay c s false, LFLemmas.rw_now c s, LFLemmas.rw_now' c s, LFLemmas.rw_log c s,
    LFLemmas.rw_disconnected c s⟩

/-- disconnect() from another thread during the wait (`inWait = true`): the register is still set to the next delay;
the clock advances by one 1-second slice of it (`min d 1` seconds), hence by at most the delay; afterwards the state
is disconnected, and exactly the user disconnect is logged, stamped with the new clock. If the application had
already disconnected before the wait, the flag changes nothing. -/
theorem c09_wait_inWait (c : Cfg) (s : St) :
    (reconnectWait c s true).delay = some (delayNext c s.delay) ∧
    (reconnectWait c s true).disconnected = true ∧
    (reconnectWait c s true).proto = s.proto ∧
    (s.disconnected = false →
      (reconnectWait c s true).now = s.now + min (delayNext c s.delay) 1 * 1000 ∧
      s.now ≤ (reconnectWait c s true).now ∧
      (reconnectWait c s true).now ≤ s.now + delayNext c s.delay * 1000 ∧
      (reconnectWait c s true).log = s.log ++ [.userDisconnect (reconnectWait c s true).now]) ∧
    (s.disconnected = true → reconnectWait c s true = reconnectWait c s false) := by
  refine ⟨LFLemmas.rw_delay c s true, LFLemmas.rw_disconnected_true c s, LFLemmas.rw_proto c s true, ?_, ?_⟩
  · intro h
    rw [LFLemmas.rw_now_true c s h, LFLemmas.rw_log_true c s h]
    refine ⟨rfl, Nat.le_add_right _ _, ?_, rfl⟩
    exact Nat.add_le_add_left (Nat.mul_le_mul_right _ (Nat.min_le_left _ _)) _
  · intro h
    rw [LFLemmas.rw_of_disconnected c s true h, LFLemmas.rw_of_disconnected c s false h]

/-- with a well-formed configuration and a register within bounds every delay is ≥ 1 s, so a disconnect() during the
wait is noticed exactly one second after the wait began -/
theorem c09_wait_inWait_slice (c : Cfg) (h : 1 ≤ c.minDelay ∧ c.minDelay ≤ c.maxDelay) (s : St)
    (hreg : ∀ x, s.delay = some x → c.minDelay ≤ x ∧ x ≤ c.maxDelay) (hs : s.disconnected = false) :
    (reconnectWait c s true).now = s.now + 1000 := by
  have hb := LFLemmas.delayNext_bounds c h s.delay hreg
  rw [LFLemmas.rw_now_true c s hs, Nat.min_eq_right (by omega)]

/-- an accepted CONNACK resets the register: the next wait is min_delay again -/
theorem c09_reset (c : Cfg) (s : St) (t life : Nat) (d : DiscAt) :
    (connLife c s (.accepted t life d)).1.delay = none := by
  exact LFLemmas.connLife_delay_accepted c s t life d

/-- no other connection outcome touches the register -/
theorem c09_no_reset (c : Cfg) (s : St) (o : Outcome) (h : ∀ t l d, o ≠ .accepted t l d) :
    (connLife c s o).1.delay = s.delay := by
  exact LFLemmas.connLife_delay_other c s o h

def isAttempt : Obs → Bool
  | .attempt _ _ => true
  | _ => false

def isUserDisc : Obs → Bool
  | .userDisconnect _ => true
  | _ => false

def isEnd : Obs → Bool
  | .ret _ => true
  | .raised => true
  | _ => false

theorem isAttempt_eq : isAttempt = LFLemmas.isAtt := by funext o; cases o <;> rfl
theorem isUserDisc_eq : isUserDisc = LFLemmas.isUD := by funext o; cases o <;> rfl
theorem isEnd_eq : isEnd = LFLemmas.isEndE := by funext o; cases o <;> rfl

/-- the log only grows -/
theorem c09_log_mono (c : Cfg) (fuel : Nat) (script : List Outcome) (first : Bool) (s : St) :
    ∃ evs, (run c fuel script first s).log = s.log ++ evs := by
  exact LFLemmas.run_log_mono c fuel script first s

/-- a user disconnect is final: once the application has called disconnect() no further connection attempt is made … -/
theorem c09_final (c : Cfg) (script : List Outcome) (i j : Nat) (t : Nat) (t' : Nat) (ok : Bool) :
    let log := (runScript c script).log
    log[i]? = some (.userDisconnect t) → log[j]? = some (.attempt t' ok) → j < i := by
  intro log hi hj
  have hs : LFLemmas.Struct [] log := LFLemmas.run_struct c _ script true { proto := c.proto } rfl
  exact hs.final i j t t' ok hi hj

/-- … and loop_forever() returns (or, for a failed first attempt without retry_first_connection, raises) -/
theorem c09_returns (c : Cfg) (script : List Outcome) :
    let log := (runScript c script).log
    log.any isUserDisc = true → ∃ e, log.getLast? = some e ∧ isEnd e = true := by
  intro log hu
  have hs : LFLemmas.Struct [] log := LFLemmas.run_struct c _ script true { proto := c.proto } rfl
  rw [isUserDisc_eq] at hu
  rw [isEnd_eq]
  exact hs.returns hu

/-- `raised` has a single source: a refused FIRST attempt with retry_first_connection off. With retry_first_connection
on, loop_forever() never raises (in particular a refused in-handler protocol-downgrade retry does not) … -/
theorem c09_no_raise (c : Cfg) (script : List Outcome) (h : c.retryFirst = true) :
    Obs.raised ∉ (runScript c script).log := by
  exact LFLemmas.run_no_raised c _ script true { proto := c.proto } (.inr h) (by simp)

/-- … so after a user disconnect it returns -/
theorem c09_returns_ret (c : Cfg) (script : List Outcome) (h : c.retryFirst = true) :
    let log := (runScript c script).log
    log.any isUserDisc = true → ∃ rc, log.getLast? = some (.ret rc) := by
  intro log hu
  obtain ⟨e, he, hee⟩ := c09_returns c script hu
  have hmem : e ∈ log := List.mem_of_getLast? he
  cases e with
  | ret rc => exact ⟨rc, he⟩
  | raised => exact (c09_no_raise c script h hmem).elim
  | _ => simp [isEnd] at hee

/-- reconnect_on_failure = False: no further attempt after the first loss / failed attempt, and the loop returns -/
theorem c09_no_rof (c : Cfg) (script : List Outcome) (h : c.rof = false) (hne : script ≠ []) :
    let log := (runScript c script).log
    (log.filter isAttempt).length ≤ 1 ∧ ∃ e, log.getLast? = some e ∧ isEnd e = true := by
  intro log
  cases script with
  | nil => exact (hne rfl).elim
  | cons o rest =>
    have hf : 2 * (o :: rest).length + 1 = (2 * rest.length + 1) + 2 := by simp [List.length_cons]; omega
    have hs : LFLemmas.OneShot [] log := by
      show LFLemmas.OneShot [] (run c (2 * (o :: rest).length + 1) (o :: rest) true { proto := c.proto }).log
      rw [hf]
      exact LFLemmas.run_norof c h _ o rest true { proto := c.proto }
    obtain ⟨evs, hl, hn, he⟩ := hs
    rw [List.nil_append] at hl
    rw [isAttempt_eq, isEnd_eq, hl]
    exact ⟨hn, he⟩

/-- time never runs backwards in the log, and every retry that follows a loss or a failed attempt comes at least
min_delay later: for adjacent entries (x, attempt) where x is not itself an attempt (the in-handler protocol
downgrade retry is the only attempt that directly follows an attempt) -/
def obsTime : Obs → Option Nat
  | .attempt t _ => some t
  | .onConnectFail t => some t
  | .onConnect _ t => some t
  | .onDisconnect _ t => some t
  | .userDisconnect t => some t
  | _ => none

theorem obsTime_eq : obsTime = LFLemmas.oTime := by funext o; cases o <;> rfl

theorem c09_min_gap (c : Cfg) (script : List Outcome) (h : 1 ≤ c.minDelay ∧ c.minDelay ≤ c.maxDelay) (i : Nat) (x : Obs) (t t' : Nat) (ok : Bool) :
    let log := (runScript c script).log
    log[i]? = some x → isAttempt x = false → obsTime x = some t → log[i + 1]? = some (.attempt t' ok) →
      t + c.minDelay * 1000 ≤ t' ∧ t' ≤ t + c.maxDelay * 1000 := by
  intro log hx hxa hxt hy
  have hg : LFLemmas.GapOK c log :=
    LFLemmas.run_gap c h _ script true { proto := c.proto } rfl (by intro x hx; cases hx)
      (LFLemmas.GapOK.nil c) (LFLemmas.LastOK.nil c _)
  rw [isAttempt_eq] at hxa
  rw [obsTime_eq] at hxt
  exact hg i x t t' ok hx hxa hxt hy

/-! ### non-vacuity -/

/-- the concrete script used for the non-vacuity checks: two refused attempts, a silent peer, a connection that
lives 5 s, one more refusal, and a connection whose on_disconnect handler calls disconnect() -/
def demoScript : List Outcome :=
  [.refuse {}, .refuse {}, .eof 1000 {}, .accepted 1000 5000 {}, .refuse {}, .accepted 0 1000 { inOnDisconnect := true }]

def demoCfg : Cfg := { minDelay := 1, maxDelay := 8 }

/-- back-off 1, 2, 4 s (then reset by the accepted CONNACK), 1, 2 s: attempts at 0, 1, 3, 8, 15, 17 s -/
example : ((runScript demoCfg demoScript).log.filterMap
      (fun | .attempt t _ => some t | _ => none)) = [0, 1000, 3000, 8000, 15000, 17000] := by decide

/-- the hypotheses of `c09_final` / `c09_returns` are satisfiable: the run does contain a user disconnect, it is
followed by no attempt, and the run ends with `ret 7` -/
example : (runScript demoCfg demoScript).log[14]? = some (.userDisconnect 18000) ∧
    (runScript demoCfg demoScript).log[11]? = some (.attempt 17000 true) ∧
    (runScript demoCfg demoScript).log.any isUserDisc = true ∧
    (runScript demoCfg demoScript).log.getLast? = some (.ret 7) := by decide

/-- the hypotheses of `c09_min_gap` are satisfiable (entries 5, 6: a loss at 4 s followed by a retry at 8 s = +4 s),
and the cap is reached: `delayAfter` saturates at max_delay -/
example : (runScript demoCfg demoScript).log[5]? = some (.onDisconnect 7 4000) ∧
    (runScript demoCfg demoScript).log[6]? = some (.attempt 8000 true) ∧
    delayAfter demoCfg 3 = some 4 ∧ delayAfter demoCfg 4 = some 8 ∧ delayAfter demoCfg 7 = some 8 := by decide

/-- `c09_no_rof` is not vacuous: with reconnect_on_failure off the same script makes exactly one attempt and returns;
the `raised` ending (failed first attempt, retry_first_connection off) occurs, and a refused in-handler downgrade
retry is reported like any failed attempt (on_connect_fail, then the usual back-off), not raised -/
example : (runScript { demoCfg with rof := false } demoScript).log
      = [.attempt 0 false, .onConnectFail 0, .ret 7] ∧
    (runScript { demoCfg with retryFirst := false } demoScript).log
      = [.attempt 0 false, .onConnectFail 0, .raised] ∧
    (runScript demoCfg [.downgrade 5, .refuse {}]).log
      = [.attempt 0 true, .attempt 5 false, .onConnectFail 5, .scriptEnd] ∧
    (runScript demoCfg [.downgrade 5, .refuse {}, .accepted 0 1000 {}]).log
      = [.attempt 0 true, .attempt 5 false, .onConnectFail 5, .attempt 1005 true, .onConnect 0 1005,
         .onDisconnect 7 2005, .scriptEnd] := by decide

/-- disconnect() from another thread during the back-off wait (`inWait`): the connection lives 1000 ms, the wait
begins, the disconnect is noticed when the first 1-second slice is over (2000 ms), loop_forever() returns 7, and the
second script item is never attempted: the log contains exactly one `.attempt`. The hypotheses of `c09_final` /
`c09_returns` / `c09_returns_ret` are therefore satisfiable through the new branch of `reconnectWait` as well. -/
def waitScript : List Outcome := [.accepted 0 1000 { inWait := true }, .accepted 0 0 {}]

example : (runScript demoCfg waitScript).log
      = [.attempt 0 true, .onConnect 0 0, .onDisconnect 7 1000, .userDisconnect 2000, .ret 7] ∧
    ((runScript demoCfg waitScript).log.filter isAttempt).length = 1 ∧
    (runScript demoCfg waitScript).log.any isUserDisc = true ∧
    (runScript demoCfg waitScript).log.getLast? = some (.ret 7) ∧
    -- without the flag the same script goes on to the second attempt after the full 1 s wait
    ((runScript demoCfg [.accepted 0 1000 {}, .accepted 0 0 {}]).log.filter isAttempt).length = 2 ∧
    -- the same after a refused attempt, and with a longer delay (2 s wait, noticed after 1 s: 1000 + 1000 ms)
    (runScript demoCfg [.refuse {}, .refuse { inWait := true }, .accepted 0 0 {}]).log
      = [.attempt 0 false, .onConnectFail 0, .attempt 1000 false, .onConnectFail 1000, .userDisconnect 2000,
         .ret 7] := by decide

end Paho.LF
