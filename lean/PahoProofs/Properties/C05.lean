/-
C05 — inbound decoding is faithful and independent of transport fragmentation (raw sockets).
ALL PROVED. `c05_frag_independent` holds in full (no side condition on the stream): since the F29 fix the reader
rejects a zero command byte with a protocol error at once (`c05_zero_cmd_protocol`), so the state value
`command = 0` unambiguously means "no command byte read yet". Helper lemmas:
PahoProofs/Lemmas/ReaderParse.lean (part 2), ReaderFeed.lean / ReaderFrames.lean / ReaderWhole.lean (part 1).
Model: Paho/Model/Reader.lean (`recvN`, `readBody`, `readRemLen`, `packetRead`, `parseBody`,
`parseAck`), property codec Paho/Model/Props.lean, reason codes `Reason.*`, spec tables Paho/Spec/Props.lean.
-/
import Paho.Model.Reader
import Paho.Spec.Props
import PahoProofs.Lemmas.ReaderParse
import PahoProofs.Lemmas.ReaderFeed
import PahoProofs.Lemmas.ReaderFrames
import PahoProofs.Lemmas.ReaderWhole

namespace Paho
open ReaderLemmas PropsLemmas

/-! ## Part 1 — fragmentation independence of the reader -/

/-- the bytes a queue will deliver before its first terminal event -/
def dataOf : List RecvItem → Bytes
  | [] => []
  | .data b :: rest => b ++ dataOf rest
  | .eagain :: rest => dataOf rest
  | .eof :: _ => []
  | .err :: _ => []

/-- does the queue end the connection (EOF or error) after `dataOf`? -/
def terminalOf : List RecvItem → Bool
  | [] => false
  | .data _ :: rest => terminalOf rest
  | .eagain :: rest => terminalOf rest
  | .eof :: _ => true
  | .err :: _ => true

/-- harness well-formedness: no empty data chunks -/
def noEmptyChunks : List RecvItem → Bool
  | [] => true
  | .data b :: rest => !b.isEmpty && noEmptyChunks rest
  | _ :: rest => noEmptyChunks rest

/-- how a sequence of `_packet_read()` calls ends -/
inductive DrainEnd where
  | idle          -- everything delivered so far was consumed; the reader waits for more bytes
  | connLost      -- EOF / error met
  | protocol      -- more than four remaining-length bytes, or a zero command byte
  deriving DecidableEq, Repr

/-- call `_packet_read()` again and again (as loop_read / the network loop do) until the transport has nothing
more: collects the completed packets in order. After each completed packet `_in_packet` is reset. -/
def drain : (fuel : Nat) → RState → List RecvItem → List (Nat × Bytes) → List (Nat × Bytes) × RState × DrainEnd
  | 0, r, _, acc => (acc, r, .idle)
  | fuel + 1, r, q, acc =>
    if q.isEmpty ∧ ¬ (r.haveRemaining ∧ r.toProcess = 0) then (acc, r, .idle)
    else
      match packetRead r q with
      | (r, q, .again) => if q.isEmpty then (acc, r, .idle) else drain fuel r q acc
      | (r, q, .againBusy) => drain fuel r q acc
      | (r, _, .connLost) => (acc, r, .connLost)
      | (r, _, .protocol) => (acc, r, .protocol)
      | (_, q, .complete cmd body) => drain fuel {} q (acc ++ [(cmd, body)])

def drainFuel (q : List RecvItem) : Nat := 2 * ((q.map fun i => match i with | .data b => b.length + 1 | _ => 1).sum) + 8

/-- reference semantics on the plain byte stream: split into (command byte, body) packets by the MQTT framing
rule; stops with `protocol` at a fifth length byte; the unfinished tail is dropped (it stays in the reader) -/
def splitStream : (fuel : Nat) → Bytes → List (Nat × Bytes) × Bool
  | 0, _ => ([], false)
  | _, [] => ([], false)
  | fuel + 1, cmd :: rest =>
    -- remaining length: up to 4 bytes
    let rec rl : Nat → Bytes → Nat → Nat → Option (Option (Nat × Bytes))   -- none = protocol error; some none = incomplete
      | 0, _, _, _ => none
      | _, [], _, _ => some none
      | k + 1, b :: bs, mult, acc =>
        let acc := acc + (b.toNat &&& 127) * mult
        if b.toNat &&& 128 = 0 then some (some (acc, bs)) else rl k bs (mult * 128) acc
    match rl 4 rest 1 0 with
    | none => ([], true)
    | some none => ([], false)
    | some (some (n, bs)) =>
      if n ≤ bs.length then
        let (ps, e) := splitStream fuel (bs.drop n)
        ((cmd.toNat, bs.take n) :: ps, e)
      else ([], false)

/-- every packet of the byte stream — complete ones, and an incomplete last one — starts with a non-zero
byte (same traversal as `splitStream`; nothing is required after a fifth length byte, where the reader stops) -/
def cmdsNonzero : (fuel : Nat) → Bytes → Bool
  | 0, _ => true
  | _, [] => true
  | fuel + 1, cmd :: rest =>
    cmd != 0 &&
    match splitStream.rl 4 rest 1 0 with
    | some (some (n, bs)) => if n ≤ bs.length then cmdsNonzero fuel (bs.drop n) else true
    | _ => true

/-! ### bridge to the helper files (PahoProofs/Lemmas/Reader*.lean use their own copies of these definitions) -/

theorem dataOf_eq (q : List RecvItem) : dataOf q = qData q := by
  induction q with
  | nil => rfl
  | cons i rest ih => cases i <;> simp [dataOf, qData, ih]

theorem terminalOf_eq (q : List RecvItem) : terminalOf q = qTerm q := by
  induction q with
  | nil => rfl
  | cons i rest ih => cases i <;> simp [terminalOf, qTerm, ih]

theorem noEmptyChunks_eq (q : List RecvItem) : noEmptyChunks q = qOk q := by
  induction q with
  | nil => rfl
  | cons i rest ih => cases i <;> simp [noEmptyChunks, qOk, ih]

theorem drainFuel_eq (q : List RecvItem) : drainFuel q = 2 * qSize q + 8 := by
  unfold drainFuel
  congr 2
  induction q with
  | nil => rfl
  | cons i rest ih => cases i <;> simp [qSize, ih] <;> omega

theorem rl_eq : ∀ (k : Nat) (bs : Bytes) (m a : Nat), splitStream.rl k bs m a = lenDec k bs m a := by
  intro k
  induction k with
  | zero => intro bs m a; simp [splitStream.rl, lenDec]
  | succ k ih =>
    intro bs m a
    cases bs with
    | nil => simp [splitStream.rl, lenDec]
    | cons b bs => simp only [splitStream.rl, lenDec, ih]

theorem splitStream_eq : ∀ (fuel : Nat) (bs : Bytes), splitStream fuel bs = frames fuel bs := by
  intro fuel
  induction fuel with
  | zero => intro bs; simp [splitStream, frames]
  | succ fuel ih =>
    intro bs
    cases bs with
    | nil => simp [splitStream, frames]
    | cons b bs =>
      simp only [splitStream, frames, rl_eq, ih]
      rcases lenDec 4 bs 1 0 with _ | _ | ⟨n, bs'⟩ <;> rfl

theorem cmdsNonzero_eq : ∀ (fuel : Nat) (bs : Bytes), cmdsNonzero fuel bs = cmdsOk fuel bs := by
  intro fuel
  induction fuel with
  | zero => intro bs; simp [cmdsNonzero, cmdsOk]
  | succ fuel ih =>
    intro bs
    cases bs with
    | nil => simp [cmdsNonzero, cmdsOk]
    | cons b bs =>
      simp only [cmdsNonzero, cmdsOk, rl_eq, ih]
      rcases lenDec 4 bs 1 0 with _ | _ | ⟨n, bs'⟩ <;> rfl

/-- how the stream ends, from the verdict of the reference automaton and the transport's terminal event -/
def endOf (t : Bool) : StreamEnd → DrainEnd
  | .ok => if t then .connLost else .idle
  | .protocol => .protocol

/-- `drain` computes what the byte-at-a-time reference automaton (`ReaderLemmas.feed`) computes from the reader
state and the bytes in the queue — whatever the chunking — provided the fuel suffices -/
theorem drain_ref : ∀ (fuel : Nat) (r : RState) (q : List RecvItem) (acc : List (Nat × Bytes)),
    qOk q = true → Good r →
    2 * qSize q + (if full r then 1 else 0) + 1 ≤ fuel →
    (drain fuel r q acc).1 = (Ref r (qData q) acc).1 ∧
    (drain fuel r q acc).2.2 = endOf (qTerm q) (Ref r (qData q) acc).2 := by
  intro fuel
  induction fuel with
  | zero => intro r q acc _ _ h; omega
  | succ fuel ih =>
    intro r q acc hq hg hfuel
    rw [drain]
    by_cases h : q.isEmpty ∧ ¬ (r.haveRemaining ∧ r.toProcess = 0)
    · rw [if_pos h]
      have hq0 : q = [] := by simpa using h.1
      subst hq0
      have hnf : ¬ full r := h.2
      rw [Ref_not_full hnf]
      exact ⟨rfl, rfl⟩
    · rw [if_neg h]
      have hs := packetRead_sound acc r q hg hq
      rcases hres : packetRead r q with ⟨r', q', out⟩
      rw [hres] at hs
      cases out with
      | again =>
        obtain ⟨a, b, c, d, e, f, g⟩ := hs
        simp only []
        by_cases hq' : q'.isEmpty
        · rw [if_pos hq']
          have hq0 : q' = [] := by simpa using hq'
          subst hq0
          rw [c, d, Ref_not_full e]
          exact ⟨rfl, rfl⟩
        · rw [if_neg hq']
          have hlt : qSize q' < qSize q := by
            rcases f with f | f
            · subst f; simp at hq'
            · exact f
          rw [c, d]
          exact ih r' q' acc a b (by rw [if_neg e]; omega)
      | againBusy =>
        obtain ⟨a, b, c, d, e⟩ := hs
        simp only []
        rw [c, d]
        exact ih r' q' acc a b (by split <;> omega)
      | connLost =>
        simp only []
        rw [hs.1, hs.2]
        exact ⟨rfl, rfl⟩
      | protocol =>
        simp only []
        rw [show Ref r (qData q) acc = (acc, .protocol) from hs]
        exact ⟨rfl, rfl⟩
      | complete c b =>
        obtain ⟨a, b', c', d, e⟩ := hs
        simp only []
        rw [b', c']
        refine ih {} q' _ a good_init ?_
        rw [if_neg not_full_init]
        rcases e with e | e
        · omega
        · rw [if_pos e] at hfuel; omega

/-- `drain` from the initial state computes what the reference automaton computes from the byte stream and the
terminal event alone (no condition on the stream) -/
theorem drain_feed (q : List RecvItem) (h : noEmptyChunks q = true) :
    (drain (drainFuel q) {} q []).1 = (feed {} (dataOf q) []).1 ∧
    (drain (drainFuel q) {} q []).2.2 = endOf (terminalOf q) (feed {} (dataOf q) []).2 := by
  rw [noEmptyChunks_eq] at h
  rw [terminalOf_eq, dataOf_eq]
  have hd := drain_ref (drainFuel q) {} q [] h good_init
    (by rw [drainFuel_eq, if_neg not_full_init]; omega)
  rw [Ref_init] at hd
  exact hd

/-- `drain` from the initial state, in terms of the reference split of the byte stream -/
theorem drain_split (q : List RecvItem) (h : noEmptyChunks q = true)
    (hz : cmdsNonzero ((dataOf q).length + 1) (dataOf q) = true) :
    (drain (drainFuel q) {} q []).1 = (splitStream ((dataOf q).length + 1) (dataOf q)).1 ∧
    (drain (drainFuel q) {} q []).2.2 = endOf (terminalOf q) (feed {} (dataOf q) []).2 := by
  rw [cmdsNonzero_eq] at hz
  have hf := feed_frames ((dataOf q).length + 1) (dataOf q) [] (by omega) hz
  have hd := drain_feed q h
  rw [hd.1, hd.2, hf, splitStream_eq]
  exact ⟨by simp, rfl⟩

-- History: under the model before the F29 fix this statement needed the extra hypothesis
-- `cmdsNonzero ((dataOf q1).length + 1) (dataOf q1) = true`: the code used `_in_packet['command'] == 0` for
-- "no command byte read yet" and stored a zero first byte as the command, so
--   q1 = [.data [0], .eagain, .data [2, 0x10, 0]]     q2 = [.data [0, 2, 0x10, 0]]
-- (same bytes, same terminal event) were read differently. The reader now rejects a zero command byte in
-- phase 1 (MQTT_ERR_PROTOCOL; packet type 0 is reserved), the hypothesis is gone, and both queues above end with
-- `.protocol` and no packet (checked below by `decide`; general statement: `c05_zero_cmd_protocol`).
/-- MAIN THEOREM (fragmentation independence): whatever the chunking and wherever would-block occurs, the
sequence of packets handed to the handlers — and whether/how the stream ends in an error — depends only on
the bytes delivered: two queues with the same data and the same terminal event give the same result. -/
theorem c05_frag_independent (q1 q2 : List RecvItem)
    (h1 : noEmptyChunks q1 = true) (h2 : noEmptyChunks q2 = true)
    (hd : dataOf q1 = dataOf q2) (ht : terminalOf q1 = terminalOf q2) :
    (drain (drainFuel q1) {} q1 []).1 = (drain (drainFuel q2) {} q2 []).1 ∧
    (drain (drainFuel q1) {} q1 []).2.2 = (drain (drainFuel q2) {} q2 []).2.2 := by
  have a := drain_feed q1 h1
  have b := drain_feed q2 h2
  rw [a.1, a.2, b.1, b.2, hd, ht]
  exact ⟨rfl, rfl⟩

/-- a stream that starts with a zero command byte is a protocol error and hands over nothing, under every
fragmentation (whatever follows the zero byte, wherever the chunks are cut and would-block falls, and whether
or not the transport ends with EOF / an error) -/
theorem c05_zero_cmd_protocol (q : List RecvItem) (h : noEmptyChunks q = true) (rest : Bytes)
    (hd : dataOf q = 0 :: rest) :
    (drain (drainFuel q) {} q []).1 = [] ∧ (drain (drainFuel q) {} q []).2.2 = .protocol := by
  have a := drain_feed q h
  rw [hd, feed_zero 0 rfl rest []] at a
  exact a

/-- the two queues that the old model read differently (zero command byte, would-block right after it or not):
both are a protocol error now -/
example :
    let q1 : List RecvItem := [.data [0], .eagain, .data [2, 0x10, 0]]
    let q2 : List RecvItem := [.data [0, 2, 0x10, 0]]
    noEmptyChunks q1 = true ∧ noEmptyChunks q2 = true ∧ dataOf q1 = dataOf q2 ∧ terminalOf q1 = terminalOf q2 ∧
    ((drain (drainFuel q1) {} q1 []).1, (drain (drainFuel q1) {} q1 []).2.2) = ([], .protocol) ∧
    ((drain (drainFuel q2) {} q2 []).1, (drain (drainFuel q2) {} q2 []).2.2) = ([], .protocol) := by
  decide

/-- a zero command byte after a complete packet: the packet is handed over, then the protocol error, wherever
the chunks are cut -/
example :
    let qa : List RecvItem := [.data [0xD0, 0, 0, 0x40, 2, 0, 1]]
    let qb : List RecvItem := [.data [0xD0], .eagain, .data [0, 0], .eagain, .data [0x40, 2, 0, 1], .eof]
    ((drain (drainFuel qa) {} qa []).1, (drain (drainFuel qa) {} qa []).2.2) = ([(0xD0, [])], .protocol) ∧
    ((drain (drainFuel qb) {} qb []).1, (drain (drainFuel qb) {} qb []).2.2) = ([(0xD0, [])], .protocol) := by
  decide

/-- … and that result is the reference split of the byte stream, whenever no packet starts with a zero byte
(stronger form of `c05_drain_spec` below) -/
theorem c05_drain_spec_strong (q : List RecvItem) (h : noEmptyChunks q = true)
    (hz : cmdsNonzero ((dataOf q).length + 1) (dataOf q) = true) :
    (drain (drainFuel q) {} q []).1 = (splitStream ((dataOf q).length + 1) (dataOf q)).1 :=
  (drain_split q h hz).1

/-- … and that result is the reference split of the byte stream (streams with a zero byte excluded: the
reference split `splitStream` carries on past a packet with a zero command byte, the reader stops there with a
protocol error) -/
theorem c05_drain_spec (q : List RecvItem) (h : noEmptyChunks q = true)
    (hz : ∀ p ∈ (splitStream ((dataOf q).length + 1) (dataOf q)).1, p.1 ≠ 0) (hz' : ∀ b ∈ dataOf q, True) :
    (drain (drainFuel q) {} q []).1 = (splitStream ((dataOf q).length + 1) (dataOf q)).1 ∨
    (∃ b ∈ dataOf q, b = 0) := by
  have _ := hz
  have _ := hz'
  by_cases hex : ∃ b ∈ dataOf q, b = 0
  · exact Or.inr hex
  · refine Or.inl (c05_drain_spec_strong q h ?_)
    rw [cmdsNonzero_eq]
    exact cmdsOk_of_no_zero _ _ (fun b hb h0 => hex ⟨b, hb, h0⟩)

/-- one whole packet delivered in one chunk is handed over complete, by the first call -/
theorem c05_whole_packet (cmd : UInt8) (body tl : Bytes) (hc : cmd ≠ 0) (hl : body.length ≤ 268435455) :
    ∃ r q, packetRead {} [.data ([cmd] ++ Spec.vbi body.length ++ body)] = (r, q, .complete cmd.toNat body) := by
  have _ := tl
  obtain ⟨r, hr⟩ := packetRead_whole cmd body [] hc hl
  refine ⟨r, [], ?_⟩
  rw [← hr]
  simp

/-! ### non-vacuity: a concrete stream, fragmented in different ways -/

example :
    drain 100 {} [.data [0x40, 2], .eagain, .data [0, 1]] [] = ([(0x40, [0, 1])], {}, .idle) := by decide

/-- three fragmentations of PUBACK(mid 1) · PINGRESP · PUBACK(mid 2) followed by EOF -/
example :
    let qa : List RecvItem := [.data [0x40, 2, 0, 1, 0xD0, 0, 0x40, 2, 0, 2], .eof]
    let qb : List RecvItem := [.data [0x40], .eagain, .data [2, 0], .data [1, 0xD0], .eagain, .eagain,
                               .data [0, 0x40, 2], .data [0], .eagain, .data [2], .err]
    let qc : List RecvItem := [.eagain, .data [0x40, 2, 0, 1, 0xD0], .data [0, 0x40, 2, 0, 2], .eagain, .eof, .data [7]]
    let res : List (Nat × Bytes) × DrainEnd := ([(0x40, [0, 1]), (0xD0, []), (0x40, [0, 2])], .connLost)
    ((drain (drainFuel qa) {} qa []).1, (drain (drainFuel qa) {} qa []).2.2) = res ∧
    ((drain (drainFuel qb) {} qb []).1, (drain (drainFuel qb) {} qb []).2.2) = res ∧
    ((drain (drainFuel qc) {} qc []).1, (drain (drainFuel qc) {} qc []).2.2) = res ∧
    cmdsNonzero ((dataOf qa).length + 1) (dataOf qa) = true ∧
    splitStream ((dataOf qa).length + 1) (dataOf qa) = (res.1, false) := by
  decide

/-- a fifth remaining-length byte is a protocol error, wherever the chunks are cut -/
example :
    (drain 100 {} [.data [0xC0, 0x80, 0x80], .eagain, .data [0x80, 0x80, 1]] []).2.2 = .protocol ∧
    (drain 100 {} [.data [0xC0, 0x80, 0x80, 0x80, 0x80, 1]] []).2.2 = .protocol := by decide

/-! ## Part 2 — decoding: what `parseBody` extracts equals what the broker encoded -/

def be16 (n : Nat) : Bytes := [UInt8.ofNat (n / 256), UInt8.ofNat (n % 256)]

/-- PUBACK/PUBREC/PUBREL/PUBCOMP, MQTT 3.x and the short MQTT 5 form -/
theorem c05_ack_short (proto pt mid : Nat) (flags : Nat) (hpt : pt = 4 ∨ pt = 5 ∨ pt = 6 ∨ pt = 7)
    (hf : flags < 16) (hmid : mid ≤ 65535) :
    parseBody proto (pt * 16 + flags) (be16 mid) = .ok (.ack pt mid 0 none) := by
  have hb := type_bits pt flags (by omega) hf
  have hr := rdU16_be mid hmid []
  unfold parseBody
  simp only [hb]
  rcases hpt with rfl | rfl | rfl | rfl <;>
    simp [parseAck, be16, hr]

/-- MQTT 5 with a reason code (no properties) -/
theorem c05_ack_rc (pt mid rc flags : Nat) (hpt : pt = 4 ∨ pt = 5 ∨ pt = 6 ∨ pt = 7) (hf : flags < 16)
    (hmid : mid ≤ 65535) (hrc : rc < 256) (hdef : Spec.reasonDefined pt rc = true) :
    parseBody 5 (pt * 16 + flags) (be16 mid ++ [UInt8.ofNat rc]) = .ok (.ack pt mid rc none) := by
  have hb := type_bits pt flags (by omega) hf
  have hr := rdU16_be mid hmid [UInt8.ofNat rc]
  have hu := reasonUnpack_ok pt rc [] (by omega) hrc hdef
  unfold parseBody
  simp only [hb]
  rcases hpt with rfl | rfl | rfl | rfl <;>
    simp [parseAck, be16, hr, hu]

/-- MQTT 5 with reason code and properties -/
theorem c05_ack_props (pt mid rc flags : Nat) (block : Bytes) (p : Props)
    (hpt : pt = 4 ∨ pt = 5 ∨ pt = 6 ∨ pt = 7) (hf : flags < 16) (hmid : mid ≤ 65535) (hrc : rc < 256)
    (hdef : Spec.reasonDefined pt rc = true) (hne : block ≠ [])
    (hp : Props.unpack pt block = .ok (p, block.length)) :
    parseBody 5 (pt * 16 + flags) (be16 mid ++ [UInt8.ofNat rc] ++ block) = .ok (.ack pt mid rc (some p)) := by
  have hb := type_bits pt flags (by omega) hf
  have hr := rdU16_be mid hmid (UInt8.ofNat rc :: block)
  have hu := reasonUnpack_ok pt rc block (by omega) hrc hdef
  have hl : 0 < block.length := List.length_pos_iff.mpr hne
  unfold parseBody
  simp only [hb]
  rcases hpt with rfl | rfl | rfl | rfl <;>
    simp [parseAck, be16, hr, hu, hp, hl]

/-- CONNACK, MQTT 3.x -/
theorem c05_connack_v3 (proto : Nat) (hp : proto ≠ 5) (flags : Nat) (hf : flags < 16) (sp : Bool) (rc : Nat) (hrc : rc < 256) :
    parseBody proto (0x20 + flags) [if sp then 1 else 0, UInt8.ofNat rc] = .ok (.connack sp rc rc none) := by
  have hb := type_bits 2 flags (by omega) hf
  unfold parseBody
  simp only [hb]
  cases sp <;> simp [hp, ofNat_toNat rc hrc]

/-- CONNACK, MQTT 5 (any reason code the specification defines for CONNACK except the legacy value 1) -/
theorem c05_connack_v5 (flags : Nat) (hf : flags < 16) (sp : Bool) (rc : Nat) (block : Bytes) (p : Props)
    (hrc : rc < 256) (h1 : rc ≠ 1) (hdef : Spec.reasonDefined 2 rc = true)
    (hp : Props.unpack 2 block = .ok (p, block.length)) :
    parseBody 5 (0x20 + flags) ([if sp then 1 else 0, UInt8.ofNat rc] ++ block) = .ok (.connack sp rc rc (some p)) := by
  have hb := type_bits 2 flags (by omega) hf
  have hm := mkById_ok 2 rc (by omega) hrc hdef
  unfold parseBody
  simp only [hb]
  cases sp <;> simp [ofNat_toNat rc hrc, h1, hm, hp]

/-- PUBLISH, MQTT 3.x: dup, QoS, retain, topic, packet id and payload -/
theorem c05_publish_v3 (proto : Nat) (hp : proto ≠ 5) (dup retain : Bool) (qos mid : Nat) (topic payload : Bytes)
    (hq : qos ≤ 2) (ht : topic ≠ []) (htl : topic.length ≤ 65535) (hmid : mid ≤ 65535) :
    parseBody proto (0x30 + (if dup then 8 else 0) + qos * 2 + (if retain then 1 else 0))
        (be16 topic.length ++ topic ++ (if qos > 0 then be16 mid else []) ++ payload) =
      .ok (.publish dup qos retain topic (if qos > 0 then mid else 0) none payload) := by
  have hr := rdU16_be topic.length htl
  have hr2 := rdU16_be mid hmid
  have hq' : qos = 0 ∨ qos = 1 ∨ qos = 2 := by omega
  unfold parseBody
  rcases hq' with rfl | rfl | rfl <;> cases dup <;> cases retain <;>
    simp [be16, hr, hr2, hp, ht]

/-- PUBLISH, MQTT 5 (properties between packet id and payload; empty topic allowed) -/
theorem c05_publish_v5 (dup retain : Bool) (qos mid : Nat) (topic payload block : Bytes) (p : Props)
    (hq : qos ≤ 2) (htl : topic.length ≤ 65535) (hmid : mid ≤ 65535)
    (hp : Props.unpack 3 (block ++ payload) = .ok (p, block.length)) :
    parseBody 5 (0x30 + (if dup then 8 else 0) + qos * 2 + (if retain then 1 else 0))
        (be16 topic.length ++ topic ++ (if qos > 0 then be16 mid else []) ++ block ++ payload) =
      .ok (.publish dup qos retain topic (if qos > 0 then mid else 0) (some p) payload) := by
  have hr := rdU16_be topic.length htl
  have hr2 := rdU16_be mid hmid
  have hq' : qos = 0 ∨ qos = 1 ∨ qos = 2 := by omega
  unfold parseBody
  rcases hq' with rfl | rfl | rfl <;> cases dup <;> cases retain <;>
    simp [be16, hr, hr2, hp]

/-- SUBACK (MQTT 3.x): packet id and the granted QoS list, when every code is one the specification defines -/
theorem c05_suback_v3 (proto : Nat) (hp : proto ≠ 5) (flags mid : Nat) (hf : flags < 16) (hmid : mid ≤ 65535) (codes : List Nat)
    (hc : ∀ c ∈ codes, c < 256 ∧ Spec.reasonDefined 9 c = true) :
    parseBody proto (0x90 + flags) (be16 mid ++ codes.map UInt8.ofNat) = .ok (.suback mid codes none) := by
  have hb := type_bits 9 flags (by omega) hf
  have hr := rdU16_be mid hmid
  have hl := reasonList_ok 9 (by omega) codes hc
  unfold parseBody
  simp only [hb]
  simp [be16, hr, hp, hl]

theorem c05_suback_v5 (flags mid : Nat) (hf : flags < 16) (hmid : mid ≤ 65535) (codes : List Nat) (block : Bytes) (p : Props)
    (hc : ∀ c ∈ codes, c < 256 ∧ Spec.reasonDefined 9 c = true)
    (hp : Props.unpack 9 (block ++ codes.map UInt8.ofNat) = .ok (p, block.length)) :
    parseBody 5 (0x90 + flags) (be16 mid ++ block ++ codes.map UInt8.ofNat) = .ok (.suback mid codes (some p)) := by
  have hb := type_bits 9 flags (by omega) hf
  have hr := rdU16_be mid hmid
  have hl := reasonList_ok 9 (by omega) codes hc
  unfold parseBody
  simp only [hb]
  simp [be16, hr, hp, hl]

theorem c05_unsuback_v3 (proto : Nat) (hp : proto ≠ 5) (flags mid : Nat) (hf : flags < 16) (hmid : mid ≤ 65535) :
    parseBody proto (0xB0 + flags) (be16 mid) = .ok (.unsuback mid [] none) := by
  have hb := type_bits 11 flags (by omega) hf
  have hr := rdU16_be mid hmid
  unfold parseBody
  simp only [hb]
  simp [be16, hr, hp]

theorem c05_unsuback_v5 (flags mid : Nat) (hf : flags < 16) (hmid : mid ≤ 65535) (codes : List Nat) (block : Bytes) (p : Props)
    (hc : ∀ c ∈ codes, c < 256 ∧ Spec.reasonDefined 11 c = true) (hlen : block.length + codes.length ≥ 2)
    (hp : Props.unpack 11 (block ++ codes.map UInt8.ofNat) = .ok (p, block.length)) :
    parseBody 5 (0xB0 + flags) (be16 mid ++ block ++ codes.map UInt8.ofNat) = .ok (.unsuback mid codes (some p)) := by
  have hb := type_bits 11 flags (by omega) hf
  have hr := rdU16_be mid hmid
  have hl := reasonList_ok 11 (by omega) codes hc
  have hlen' : ¬ (block.length + codes.length + 2 < 4) := by omega
  unfold parseBody
  simp only [hb]
  simp [be16, hr, hp, hl, hlen']

/-- server DISCONNECT (MQTT 5) in its three encodings -/
theorem c05_disconnect_bare (flags : Nat) (hf : flags < 16) : parseBody 5 (0xE0 + flags) [] = .ok (.disconnect none none) := by
  have hb := type_bits 14 flags (by omega) hf
  unfold parseBody
  simp only [hb]
  simp
theorem c05_disconnect_rc (flags rc : Nat) (hf : flags < 16) (hrc : rc < 256) (hdef : Spec.reasonDefined 14 rc = true) :
    parseBody 5 (0xE0 + flags) [UInt8.ofNat rc] = .ok (.disconnect (some rc) none) := by
  have hb := type_bits 14 flags (by omega) hf
  have hu := reasonUnpack_ok 14 rc [] (by omega) hrc hdef
  unfold parseBody
  simp only [hb]
  simp [hu]
theorem c05_disconnect_props (flags rc : Nat) (block : Bytes) (p : Props) (hf : flags < 16) (hrc : rc < 256)
    (hdef : Spec.reasonDefined 14 rc = true) (hne : block ≠ []) (hp : Props.unpack 14 block = .ok (p, block.length)) :
    parseBody 5 (0xE0 + flags) ([UInt8.ofNat rc] ++ block) = .ok (.disconnect (some rc) (some p)) := by
  have hb := type_bits 14 flags (by omega) hf
  have hu := reasonUnpack_ok 14 rc block (by omega) hrc hdef
  have hl : 0 < block.length := List.length_pos_iff.mpr hne
  unfold parseBody
  simp only [hb]
  simp [hu, hp, hl]

theorem c05_ping (proto flags : Nat) (hf : flags < 16) :
    parseBody proto (0xD0 + flags) [] = .ok .pingresp ∧ parseBody proto (0xC0 + flags) [] = .ok .pingreq := by
  have hb := type_bits 13 flags (by omega) hf
  have hb2 := type_bits 12 flags (by omega) hf
  unfold parseBody
  simp only [hb, hb2]
  simp

/-- anything else is a protocol error, never a callback: unknown packet types, and DISCONNECT on MQTT 3.x -/
theorem c05_unknown_type (proto cmd : Nat) (body : Bytes) (hc : cmd < 256)
    (h : cmd / 16 = 0 ∨ cmd / 16 = 1 ∨ cmd / 16 = 8 ∨ cmd / 16 = 10 ∨ cmd / 16 = 15 ∨ (cmd / 16 = 14 ∧ proto ≠ 5)) :
    parseBody proto cmd body = .rc 2 := by
  have hb := and_f0 cmd hc
  unfold parseBody
  simp only [hb]
  rcases h with h | h | h | h | h | ⟨h, hp⟩
  all_goals simp [*]

/-! ### non-vacuity: concrete packets -/

deriving instance DecidableEq for Parsed, ParseRes

example : parseBody 4 0x40 [0, 1] = .ok (.ack 4 1 0 none) := by decide +kernel
/-- PUBREL, MQTT 5, reason 0x92 (packet identifier not found) and a reason-string property "hi" -/
example : parseBody 5 0x62 [0, 9, 0x92, 5, 0x1F, 0, 2, 0x68, 0x69] =
    .ok (.ack 6 9 146 (some { ptype := 6, attrs := [(31, [.bin [104, 105]])] })) := by decide +kernel
/-- PUBLISH dup, QoS 1, retain, topic "A", packet id 7, no properties, payload [1, 2] -/
example : parseBody 5 0x3b [0, 1, 65, 0, 7, 0, 1, 2] =
    .ok (.publish true 1 true [65] 7 (some { ptype := 3, attrs := [] }) [1, 2]) := by decide +kernel
example : parseBody 4 0x3b [0, 1, 65, 0, 7, 1, 2] = .ok (.publish true 1 true [65] 7 none [1, 2]) := by decide +kernel
example : parseBody 4 0x90 [0, 7, 0, 1, 128] = .ok (.suback 7 [0, 1, 128] none) := by decide +kernel
example : parseBody 5 0x20 [1, 0, 0] = .ok (.connack true 0 0 (some { ptype := 2, attrs := [] })) := by decide +kernel
example : parseBody 5 0xE0 [0x8B] = .ok (.disconnect (some 0x8B) none) := by decide +kernel
example : parseBody 4 0xE0 [] = .rc 2 := by decide +kernel

end Paho
