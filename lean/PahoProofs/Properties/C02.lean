/-
C02 — QoS 2 sender never re-publishes after PUBREC; DUP discipline.
C12 — flow control: in-flight window, FIFO release, queue bound.
STATEMENTS TO PROVE.
-/
import Paho.Model.Session
import Paho.Model.SessionInv
import PahoProofs.Lemmas.SessionDefs
import PahoProofs.Lemmas.FlowBase
import PahoProofs.Lemmas.FlowInv

namespace Paho
open FlowLemmas S

/-- the session is persistent at the moment `op` is executed in `s` (the test `_check_clean_session()`
that reconnect() would make; `connect()` on MQTT 5 first re-arms the "first connect" flag) -/
def persistentAt (s : S) : Op → Bool
  | .connect _ => !(if s.proto = 5 then { s with firstConnect := true } else s).checkCleanSession
  | _ => !s.checkCleanSession

/-! ## C02 -/

theorem persistentAt_clean (s : S) (op : Op) (h : persistentAt s op = true) : cleanAt s op = false := by
  cases op <;> simpa [persistentAt, cleanAt] using h

theorem phase_of_mem (cfg : Cfg) (proto : Nat) (ops : List Op) (m : OutMsg)
    (hm : m ∈ (runFrom cfg proto ops).out) (hp : m.state = .waitPubcomp ∨ m.state = .resendPubrel) :
    Phase m.info (view (runFrom cfg proto ops)).out ∧ m.info < (view (runFrom cfg proto ops)).ninfos ∧
    (m.qos = 2 → Q2 m.info (view (runFrom cfg proto ops)).out) := by
  have i := InfoInv.run cfg proto ops
  have heq : ∀ x ∈ (runFrom cfg proto ops).out, x.info = m.info → x = m :=
    fun x hx hxi => eq_of_nodup_map (·.info) _ i.1 hx hm hxi
  refine ⟨?_, i.2 m hm, ?_⟩
  · intro x hx hxi; rw [heq x hx hxi]; exact hp
  · intro hq x hx hxi; rw [heq x hx hxi]; exact hq

/-- once PUBREC was received (state wait_for_pubcomp / resend_pubrel), a persistent session never leaves
that phase except by completing: after any step the same message instance, if still stored, is still in
that phase — in particular after any number of reconnects without CONNACK in between. -/
-- STATEMENT CHANGED: added the hypothesis `m.qos = 2`. As written (no QoS restriction, no conformance
-- hypothesis) the statement is FALSE: `_handle_pubrec` sets wait_for_pubcomp whatever the QoS of the
-- message, so a (non-conforming) PUBREC naming a QoS 1 message puts it in the phase, and
-- `_messages_reconnect_reset_out` maps every QoS 1 message back to `publish`. Counterexample
-- (cfg := { clean := 0 }, proto 4): ops := [.connect true, .rx (.pkt (.connack false 0)) true,
-- .publish 1 [116] [] false, .rx (.pkt (.pubrec 1)) true] leaves (mid 1, qos 1, waitPubcomp);
-- op := .reconnect true (persistentAt = true) yields (mid 1, qos 1, publish). The claim is about the
-- QoS 2 handshake, so it is restricted to QoS 2 messages; no conformance hypothesis is needed.
theorem c02_rec_phase_closed (cfg : Cfg) (proto : Nat) (ops : List Op) (op : Op) (m : OutMsg) :
    let s := runFrom cfg proto ops
    m ∈ s.out → m.qos = 2 → (m.state = .waitPubcomp ∨ m.state = .resendPubrel) → persistentAt s op = true →
      ∀ m' ∈ (s.step op).out, m'.info = m.info → (m'.state = .waitPubcomp ∨ m'.state = .resendPubrel) := by
  intro s hm hq hp hpers m' hm' hi
  obtain ⟨h1, h2, h3⟩ := phase_of_mem cfg proto ops m hm hp
  have := (StepR.phase h1 h2 (step_tr s op).2).2 (h3 hq) (persistentAt_clean s op hpers)
  exact this m' hm' hi

/-- kernel-checked witness that the original statement (without `m.qos = 2`) is false -/
def pcfg : Cfg := { clean := 0 }
def pops : List Op :=
  [.connect true, .rx (.pkt (.connack false 0)) true, .publish 1 [116] [] false, .rx (.pkt (.pubrec 1)) true]
def pmsg (st : MS) : OutMsg :=
  { mid := 1, qos := 1, state := st, dup := false, retain := false, topic := [116], payload := [], info := 0 }

theorem pops_before : (runFrom pcfg 4 pops).out = [pmsg .waitPubcomp] := by decide +kernel
theorem pops_after : ((runFrom pcfg 4 pops).step (.reconnect true)).out = [pmsg .publish] := by decide +kernel
theorem pops_pers : persistentAt (runFrom pcfg 4 pops) (.reconnect true) = true := by decide +kernel

theorem c02_rec_phase_closed_orig_false :
    ¬ (∀ (cfg : Cfg) (proto : Nat) (ops : List Op) (op : Op) (m : OutMsg),
      let s := runFrom cfg proto ops
      m ∈ s.out → (m.state = .waitPubcomp ∨ m.state = .resendPubrel) → persistentAt s op = true →
        ∀ m' ∈ (s.step op).out, m'.info = m.info → (m'.state = .waitPubcomp ∨ m'.state = .resendPubrel)) := by
  intro h
  have := h pcfg 4 pops (.reconnect true) (pmsg .waitPubcomp) (by rw [pops_before]; simp) (Or.inl rfl) pops_pers
    (pmsg .publish) (by rw [pops_after]; simp) rfl
  simp [pmsg] at this

/-- … and no PUBLISH for that instance is handed to any connection in such a step -/
theorem c02_no_republish (cfg : Cfg) (proto : Nat) (ops : List Op) (op : Op) (m : OutMsg) :
    let s := runFrom cfg proto ops
    m ∈ s.out → (m.state = .waitPubcomp ∨ m.state = .resendPubrel) → persistentAt s op = true →
      ∀ c mid q d, Ev.qPublish c m.info mid q d ∉ newEvents s op := by
  intro s hm hp _ c mid q d hmem
  obtain ⟨h1, h2, _⟩ := phase_of_mem cfg proto ops m hm hp
  have := (StepR.phase h1 h2 (step_tr s op).2).1
  exact this c mid q d (mem_qpubs hmem rfl)


/-- the reset applied by reconnect() is idempotent on the QoS 2 phase -/
theorem c02_reset_idem (clean : Bool) (m : OutMsg) :
    (S.resetOutMsg clean (S.resetOutMsg clean m)).state = (S.resetOutMsg clean m).state := by
  by_cases h0 : m.qos = 0
  · simp [resetOutMsg, h0]
  by_cases h1 : m.qos = 1
  · simp [resetOutMsg, h1]
  by_cases h2 : m.qos = 2
  · cases clean
    · by_cases hs : m.state = .waitPubcomp ∨ m.state = .resendPubrel
      · simp [resetOutMsg, h2, hs]
      · simp [resetOutMsg, h2, hs]
    · simp [resetOutMsg, h2]
  · simp [resetOutMsg, h0, h1, h2]

/-- QoS 0 PUBLISH never has DUP set -/
theorem c02_dup_qos0 (cfg : Cfg) (proto : Nat) (ops : List Op) (c u mid : Nat) (d : Bool) :
    Ev.qPublish c u mid 0 d ∈ (runFrom cfg proto ops).log → d = false := by
  have : ∀ c u mid d, Ev.qPublish c u mid 0 d ∈ (runFrom cfg proto ops).log → d = false := by
    refine run_inv (fun s => ∀ c u mid d, Ev.qPublish c u mid 0 d ∈ s.log → d = false) ?_ ops _ ?_
    · intro s op ih c u mid d h
      have tr := step_tr s op
      rw [tr.1] at h
      rcases List.mem_append.1 h with h | h
      · exact ih c u mid d h
      · exact StepR.goodL tr.2 c u mid d (mem_qpubs h rfl)
    · intro c u mid d h; simp [S.init] at h
  exact this c u mid d

/-! ### DUP discipline

History of these two statements. With the code as first modelled they were FALSE even for a conforming broker
(defect F26): after a failed write had closed the socket inside the retransmission loop of `_handle_connack`
(or inside `_update_inflight`), the loop went on and marked further messages `wait_for_puback` / `wait_for_pubrec`
although `_send_publish` returned NO_CONN and nothing was handed to any connection; `reconnect()` then set DUP on
them and the next CONNACK sent them with DUP=1 as their very FIRST transmission. The witness was
`dcfg := { clean := 0 }`, proto 4,
`dops := [publish q1, publish q1, connect, send [error], rx CONNACK(0), reconnect, rx CONNACK(0)]`
(conforming: `dops_conf`), where log entry 22 was `qPublish 2 1 2 1 true` with no earlier `qPublish _ 1 ..`.
An extra hypothesis ("every stored message in a waiting state has been handed") had to be assumed.

The repaired loops stop with NO_CONN as soon as the socket is gone, so that hypothesis is now a THEOREM
(`c02_wait_handed`) and both statements hold for every conforming history. The run `dops` is kept as a regression
witness (kernel-checked): the first transmission of message 1 (log entry 22) now carries DUP=0. -/

def dcfg : Cfg := { clean := 0 }
def dops : List Op :=
  [.publish 1 [116] [] false, .publish 1 [116] [] false, .connect true, .send [.error],
   .rx (.pkt (.connack false 0)) true, .reconnect true, .rx (.pkt (.connack false 0)) true]

def notUid (u : Nat) : Ev → Bool
  | .qPublish _ u' _ _ _ => u' != u
  | _ => true

theorem dops_conf : confRun (S.init dcfg 4 t0) dops = true := by decide +kernel
/-- regression (F26 repaired): the first PUBLISH of message 1 is sent with DUP=0 … -/
theorem dops_at22 : (runFrom dcfg 4 dops).log[22]? = some (.qPublish 2 1 2 1 false) := by decide +kernel
/-- … and it is indeed its first transmission -/
theorem dops_before22 : ((runFrom dcfg 4 dops).log.take 22).all (notUid 1) = true := by decide +kernel
/-- regression (F26 repaired): after the failed retransmission pass and the reconnect, message 1 (never handed)
is still in state `publish` with DUP=0 -/
theorem dops6_msg : (runFrom dcfg 4 (dops.take 6)).out[1]? =
    some { mid := 2, qos := 1, state := .publish, dup := false, retain := false, topic := [116], payload := [], info := 1 } := by
  decide +kernel
theorem dops6_log : (runFrom dcfg 4 (dops.take 6)).log.all (notUid 1) = true := by decide +kernel

/-! The conformance hypothesis `hconf` cannot be dropped: a PUBREC naming a message still in state `publish`
(never handed) moves it to `wait_for_pubcomp`, and a clean-session reconnect then sets DUP on it.
Witness (kernel-checked): `ncfg := { clean := 1 }`, proto 4,
`nops := [publish q2 (no connection), connect, rx PUBREC(1), reconnect, rx CONNACK(0)]`:
log entry 17 is `qPublish 2 0 1 2 true`, the first PUBLISH of message 0; after the first 4 ops the stored
message has DUP=1 and was never handed. -/

def ncfg : Cfg := { clean := 1 }
def nops : List Op :=
  [.publish 2 [116] [] false, .connect true, .rx (.pkt (.pubrec 1)) true, .reconnect true,
   .rx (.pkt (.connack false 0)) true]

theorem nops_nonconf : confRun (S.init ncfg 4 t0) nops = false := by decide +kernel
theorem nops_at17 : (runFrom ncfg 4 nops).log[17]? = some (.qPublish 2 0 1 2 true) := by decide +kernel
theorem nops_before17 : ((runFrom ncfg 4 nops).log.take 17).all (notUid 0) = true := by decide +kernel
theorem nops4_msg : (runFrom ncfg 4 (nops.take 4)).out[0]? =
    some { mid := 1, qos := 2, state := .publish, dup := true, retain := false, topic := [116], payload := [], info := 0 } := by
  decide +kernel
theorem nops4_log : (runFrom ncfg 4 (nops.take 4)).log.all (notUid 0) = true := by decide +kernel

/-- `c02_dup_only_after_handed` without the conformance hypothesis is false -/
theorem c02_dup_only_after_handed_nonconf_false :
    ¬ (∀ (cfg : Cfg) (proto : Nat) (ops : List Op) (i : Nat) (c u mid q : Nat),
      let log := (runFrom cfg proto ops).log
      log[i]? = some (.qPublish c u mid q true) →
        ∃ j, j < i ∧ ∃ c' mid' q' d', log[j]? = some (.qPublish c' u mid' q' d')) := by
  intro h
  obtain ⟨j, hj, c', mid', q', d', hlog⟩ := h ncfg 4 nops 17 2 0 1 2 nops_at17
  have hmem : Ev.qPublish c' 0 mid' q' d' ∈ (runFrom ncfg 4 nops).log.take 17 := by
    rw [List.mem_iff_getElem?]
    exact ⟨j, by rw [List.getElem?_take, if_pos hj]; exact hlog⟩
  have := List.all_eq_true.1 nops_before17 _ hmem
  simp [notUid] at this

/-- `c02_fresh_no_dup` without the conformance hypothesis is false -/
theorem c02_fresh_no_dup_nonconf_false :
    ¬ (∀ (cfg : Cfg) (proto : Nat) (ops : List Op) (m : OutMsg),
      let s := runFrom cfg proto ops
      m ∈ s.out → (∀ c mid q d, Ev.qPublish c m.info mid q d ∉ s.log) → m.dup = false) := by
  intro h
  have := h ncfg 4 (nops.take 4) _ (List.mem_of_getElem? nops4_msg) (by
    intro c mid q d hmem
    have := List.all_eq_true.1 nops4_log _ hmem
    simp [notUid] at this)
  simp at this

/-- a stored message in a waiting state (wait_for_puback / wait_for_pubrec) has been handed to a connection
(this is what defect F26 violated; it used to be a hypothesis of the two theorems below) -/
theorem c02_wait_handed (cfg : Cfg) (proto : Nat) (ops : List Op) (m : OutMsg)
    (hconf : confRun (S.init cfg proto t0) ops = true) :
    let s := runFrom cfg proto ops
    m ∈ s.out → (m.state = .waitPuback ∨ m.state = .waitPubrec) → ∃ c mid q d, Ev.qPublish c m.info mid q d ∈ s.log := by
  intro s hm hs
  exact (dupK_run cfg proto ops hconf).2.2.2 m hm hs

/-- DUP=1 only on a PUBLISH whose message instance had been handed to a connection before -/
-- STATEMENT CHANGED with respect to the very first version: the hypothesis `hconf` (conforming broker) is added;
-- it is necessary (witness: `c02_dup_only_after_handed_nonconf_false`). The second hypothesis `hwait` that the
-- defective code needed is gone (F26 repaired). The conclusion is unchanged.
theorem c02_dup_only_after_handed (cfg : Cfg) (proto : Nat) (ops : List Op) (i : Nat) (c u mid q : Nat)
    (hconf : confRun (S.init cfg proto t0) ops = true) :
    let log := (runFrom cfg proto ops).log
    log[i]? = some (.qPublish c u mid q true) → ∃ j, j < i ∧ ∃ c' mid' q' d', log[j]? = some (.qPublish c' u mid' q' d') := by
  intro log h
  exact (dupK_run cfg proto ops hconf).1.2.2 i c u mid q h

/-- a stored message never handed to any connection has DUP=0 -/
-- STATEMENT CHANGED with respect to the very first version: hypothesis `hconf` added, necessary
-- (witness: `c02_fresh_no_dup_nonconf_false`); the former hypothesis `hwait` is gone (F26 repaired).
theorem c02_fresh_no_dup (cfg : Cfg) (proto : Nat) (ops : List Op) (m : OutMsg)
    (hconf : confRun (S.init cfg proto t0) ops = true) :
    let s := runFrom cfg proto ops
    m ∈ s.out → (∀ c mid q d, Ev.qPublish c m.info mid q d ∉ s.log) → m.dup = false := by
  intro s hm hno
  have k := (dupK_run cfg proto ops hconf).1
  cases hd : m.dup with
  | false => rfl
  | true =>
    obtain ⟨c, mid, q, d, h⟩ := k.2.1 m hm (Or.inl hd)
    exact absurd h (hno c mid q d)

/-! ## C12 -/

/-- with a conforming broker the in-flight counter equals the number of messages in a waiting state -/
theorem c12_inflight_count (cfg : Cfg) (proto : Nat) (ops : List Op)
    (hconf : confRun (S.init cfg proto t0) ops = true) :
    (runFrom cfg proto ops).invInflightCount = true :=
  invInflightCount_of _ (InvA.run cfg proto ops hconf)

/-- no idle slot: on an established connection no accepted message waits while a window slot is free -/
theorem c12_no_idle_slot (cfg : Cfg) (proto : Nat) (ops : List Op)
    (hconf : confRun (S.init cfg proto t0) ops = true) :
    (runFrom cfg proto ops).invNoIdleSlot = true :=
  invNoIdleSlot_of _ (InvA.run cfg proto ops hconf)

theorem c12_queued_behind_full (cfg : Cfg) (proto : Nat) (ops : List Op)
    (hconf : confRun (S.init cfg proto t0) ops = true) :
    (runFrom cfg proto ops).invQueuedBehindFull = true :=
  invQueuedBehindFull_of _ (InvA.run cfg proto ops hconf)

/-- queue bound: publish() (QoS>0, valid arguments) refuses with QUEUE_SIZE exactly when M messages are
already outstanding (or the fresh id collides), and then stores, queues and writes nothing -/
theorem c12_queue_bound (s : S) (qos : Nat) (topic payload : Bytes) (retain : Bool)
    (hq : qos = 1 ∨ qos = 2)
    (hvalid : publishCheckFull s.proto topic qos .bytes payload.length (if s.proto = 5 then 1 else 0) = none) :
    let s' := s.publish qos topic payload retain
    let refused := (s.cfg.maxQueued > 0 ∧ s.out.length ≥ s.cfg.maxQueued) ∨ s.out.any (·.mid = midNext s.lastMid) = true
    (refused → s'.out = s.out ∧ s'.outq = s.outq ∧ s'.inflight = s.inflight ∧ s'.sock = s.sock ∧
        s'.log = s.log ++ [.ret rcQueueSize (some (midNext s.lastMid))]) ∧
    (¬ refused → ∃ rc, rc ≠ rcQueueSize ∧ s'.log.getLast? = some (.ret rc (some (midNext s.lastMid))) ∧ s'.out.length = s.out.length + 1) := by
  have hq0 : qos ≠ 0 := by omega
  intro s' refused
  have hs' : s' = s.publish qos topic payload retain := rfl
  unfold publish at hs'
  simp only [hvalid, hq0, if_false] at hs'
  by_cases h1 : s.cfg.maxQueued > 0 ∧ s.out.length ≥ s.cfg.maxQueued
  · simp only [h1, and_self, if_true] at hs'
    simp [refused, h1, hs', setInfo, emit]
  · simp only [h1, if_false] at hs'
    by_cases h2 : s.out.any (·.mid = midNext s.lastMid) = true
    · simp only [h2, if_true] at hs'
      simp [refused, h2, hs', setInfo, emit]
    · simp only [h2, Bool.false_eq_true, if_false] at hs'
      have hnr : ¬ refused := by simp [refused, h1, h2]
      refine ⟨fun hr => absurd hr hnr, fun _ => ?_⟩
      by_cases h3 : s.cfg.maxInflight = 0 ∨ s.inflight < s.cfg.maxInflight
      · simp only [h3, if_true] at hs'
        generalize hX : S.sendPublish _ _ _ _ _ _ _ _ _ _ = sp at hs'
        have hrc : sp.2 = rcSuccess ∨ sp.2 = rcNoConn ∨ sp.2 = rcConnLost := by
          rw [← hX]; exact sendPublish_rc ..
        have hout : sp.1.out.length = s.out.length + 1 := by rw [← hX]; simp
        refine ⟨sp.2, ?_, ?_, ?_⟩
        · rcases hrc with h | h | h <;> simp [h, rcSuccess, rcNoConn, rcConnLost, rcQueueSize]
        · rw [hs']; simp
        · rw [hs']; split <;> simp [setInfo, hout]
      · simp only [h3, if_false] at hs'
        refine ⟨rcSuccess, by decide, ?_⟩
        simp [hs', setInfo, emit]

/-- QoS 0 is never refused for queue reasons -/
theorem c12_qos0_not_refused (s : S) (topic payload : Bytes) (retain : Bool) :
    Ev.ret rcQueueSize (some (midNext s.lastMid)) ∉ (s.publish 0 topic payload retain).log.drop s.log.length := by
  unfold publish
  split
  · simp
  · simp
  · simp only [if_true]
    generalize hX : S.sendPublish _ _ _ _ _ _ _ _ _ _ = sp
    obtain ⟨X, hX, hXlog⟩ : ∃ X : S, sp = X.sendPublish (midNext s.lastMid) topic payload 0 retain false
        (some s.infos.length) true (some s.infos.length) ∧ X.log = s.log := ⟨_, hX.symm, rfl⟩
    have hrc : sp.2 = rcSuccess ∨ sp.2 = rcNoConn ∨ sp.2 = rcConnLost := by
      rw [hX]; exact sendPublish_rc ..
    have hlog : sp.1.log = s.log ++ evsOf X sp.1 := by
      rw [hX, ← hXlog]; exact (sendPublish_same _ _ _ _ _ _ _ _ _ _).2.2.2.2.2.2.2
    have hqr := sendPublish_qr X (midNext s.lastMid) topic payload 0 retain false
        (some s.infos.length) true (some s.infos.length)
    rw [← hX] at hqr
    simp only [setInfo, emit_log, hlog, List.append_assoc, List.drop_left, List.mem_append, List.mem_singleton, not_or]
    constructor
    · intro hmem
      have : Ev.ret rcQueueSize (some (midNext s.lastMid)) ∈ (evsOf X sp.1).filter isQR := by
        simp [hmem, isQR]
      rcases hqr with h | ⟨c, u, _, _, h⟩ <;> simp [h] at this
    · rcases hrc with h | h | h <;> simp [h, rcSuccess, rcNoConn, rcConnLost, rcQueueSize]

/-- THE WINDOW, full strength (known to be FALSE on the current code: finding F4) -/
def C12_window_full : Prop :=
  ∀ (cfg : Cfg) (proto : Nat) (ops : List Op), confRun (S.init cfg proto t0) ops = true → cfg.maxInflight > 0 →
    (runFrom cfg proto ops).inflight ≤ cfg.maxInflight

/-- witness: N=1, three QoS 1 publishes, reconnect, CONNACK → 3 in flight -/
def wcfg : Cfg := { maxInflight := 1 }
def wops : List Op :=
  [.connect true, .rx (.pkt (.connack false 0)) true, .publish 1 [116] [] false, .publish 1 [116] [] false,
   .publish 1 [116] [] false, .reconnect true, .rx (.pkt (.connack false 0)) true]

theorem wops_conf : confRun (S.init wcfg 4 t0) wops = true := by decide +kernel
theorem wops_inflight : (runFrom wcfg 4 wops).inflight = 3 := by decide +kernel

theorem c12_window_full_false : ¬ C12_window_full := by
  intro h
  have := h wcfg 4 wops wops_conf (by decide)
  rw [wops_inflight] at this
  exact absurd this (by decide)

/-- THE WINDOW, what holds: the counter exceeds N only by what the retransmission after an accepted CONNACK
adds; precisely, for histories in which every accepted CONNACK finds at most N stored messages, the window
is respected throughout -/
theorem c12_window_partial (cfg : Cfg) (proto : Nat) (ops : List Op)
    (hconf : confRun (S.init cfg proto t0) ops = true) (hN : cfg.maxInflight > 0)
    (hsmall : ∀ (pre : List Op) (sp ok : Bool) (post : List Op), ops = pre ++ [.rx (.pkt (.connack sp 0)) ok] ++ post →
        (runFrom cfg proto pre).out.length ≤ cfg.maxInflight) :
    (runFrom cfg proto ops).inflight ≤ cfg.maxInflight := by
  have h := window_run cfg proto hN ops [] (by simpa [runFrom, S.run] using hconf)
    (fun p sp ok q e => hsmall p sp ok q (by simpa using e))
    (by simpa [runFrom, S.run] using InvA.init cfg proto t0)
    (by simp [Win, view, runFrom, S.run, S.init])
  have hcfg := runFrom_cfg cfg proto ops
  simpa [Win, view, hcfg] using h

end Paho
