/-
T1, translated: the computation of the next back-off delay in `Client._reconnect_wait` (the statements before the loop that
sleeps the delay away in slices), translated from the AST of the current source by py/py2lean.py (`Paho.Gen.FnBackoff`,
regenerated on every run), equals the `delayNext` of the loop_forever automaton that the C09 theorems (delay formula,
bounds, reset) are stated about.
-/
import Paho.Gen.FnBackoff
import Paho.Model.LoopForever

namespace Paho.FnEq
open Paho Paho.Py

/-- **the back-off arithmetic of `Client._reconnect_wait` as the source has it now = the automaton's `delayNext`**: for
every configuration, register value and clock value the translated code stores `delayNext` in `_reconnect_delay` and sets out
to wait exactly that long - `min_delay` when the register is empty, otherwise `min(2 * delay, max_delay)` -/
theorem fn_reconnectWaitDelay (c : LF.Cfg) (d : Option Nat) (now : Int) :
    Gen.Fn.reconnectWaitDelay (d.map (fun x => (x : Int))) (c.minDelay : Int) (c.maxDelay : Int) now
      = .ok ((LF.delayNext c d : Int), some (LF.delayNext c d : Int)) := by
  unfold Gen.Fn.reconnectWaitDelay LF.delayNext
  cases d with
  | none =>
    have : now + (c.minDelay : Int) - now = (c.minDelay : Int) := by omega
    simp [optGet, pure, Except.pure, bind, Except.bind, this]
  | some x =>
    have hm : (min ((x : Int) * 2) (c.maxDelay : Int)) = ((Gen.backoffMinMax (x * Gen.backoffFactor) c.maxDelay : Nat) : Int) := by
      simp only [Gen.backoffMinMax, Gen.backoffFactor]
      show min ((x : Int) * 2) (c.maxDelay : Int) = ((min (x * 2) c.maxDelay : Nat) : Int)
      omega
    have hr : ∀ v : Int, now + v - now = v := by intro v; omega
    simp [optGet, pure, Except.pure, bind, Except.bind, hm, hr]

end Paho.FnEq
