/-
T1, translated: `MQTTMessageInfo.is_published()` - what the application observes of the completion flag and result that the
session theorems (C01: 'its MQTTMessageInfo reports published; neither happens earlier'; C06: 'a QoS 0 publish is reported
as sent only after its last byte was accepted') talk about. Translated from the AST of the current source by py/py2lean.py
(`Paho.Gen.FnInfo`, regenerated on every run).
-/
import Paho.Gen.FnInfo
import PahoProofs.Properties.C01

namespace Paho.FnEq
open Paho Paho.Gen.Fn

/-- `is_published()` on an `MQTTMessageInfo` of the model -/
def infoIsPublished (i : Info) : Except Exc Bool :=
  if i.rc = rcQueueSize then .error .valueError
  else if i.rc = rcAgain then .ok i.published
  else if i.rc > 0 then .error .runtimeError
  else .ok i.published

/-- **`MQTTMessageInfo.is_published` as the source has it now**, for every result code and flag: ValueError for a message
refused with MQTT_ERR_QUEUE_SIZE, RuntimeError for any other positive result code, otherwise the completion flag -/
theorem fn_isPublished (i : Info) : Gen.Fn.isPublished i.rc i.published = infoIsPublished i := by
  unfold Gen.Fn.isPublished infoIsPublished rcQueueSize rcAgain
  by_cases h1 : i.rc = 15
  · simp [h1, throw, throwThe, MonadExceptOf.throw, bind, Except.bind]
  by_cases h2 : i.rc = -1
  · simp [h2, pure, Except.pure, bind, Except.bind]
  have e1 : (i.rc == 15) = false := by rw [beq_eq_false_iff_ne]; exact h1
  have e2 : (i.rc == -1) = false := by rw [beq_eq_false_iff_ne]; exact h2
  by_cases h3 : i.rc > 0
  · simp [h1, h2, h3, e1, e2, throw, throwThe, MonadExceptOf.throw, bind, Except.bind]
  · simp [h1, h2, h3, e1, e2, pure, Except.pure, bind, Except.bind]

/-- what the final acknowledgement stores (rc = MQTT_ERR_SUCCESS, flag set: the `infoDone _ rcSuccess` event of
`c01_final_ack_rc`) makes `is_published()` return True, without raising - whatever `publish()` had stored before (F27) -/
theorem isPublished_after_final_ack :
    Gen.Fn.isPublished (Info.rc { rc := rcSuccess, published := true }) true = .ok true := by
  rw [show (true : Bool) = (Info.published { rc := rcSuccess, published := true }) from rfl, fn_isPublished]; rfl

/-- **not earlier**: in every reachable state, for every message the client still stores, `is_published()` on its
MQTTMessageInfo does not return True (it returns False, or raises for a message accepted without a connection) -/
theorem c01_is_published_not_early (cfg : Cfg) (proto : Nat) (ops : List Op) (m : OutMsg) (i : Info) :
    let s := runFrom cfg proto ops
    m ∈ s.out → s.infos[m.info]? = some i → Gen.Fn.isPublished i.rc i.published ≠ .ok true := by
  intro s hm hi
  have h := c01_not_early cfg proto ops m hm
  rw [hi] at h
  simp only [Option.map_some, Option.some.injEq] at h
  rw [fn_isPublished]
  unfold infoIsPublished
  rw [h]
  split
  · simp
  · split
    · simp
    · split <;> simp

/-- a message refused for queue reasons: `is_published()` raises ValueError -/
theorem isPublished_refused (p : Bool) : infoIsPublished { rc := rcQueueSize, published := p } = .error .valueError := by
  simp [infoIsPublished]

end Paho.FnEq
