/-
C14 — packet identifiers stay in 1..65535 and are never shared by live messages.

Statements are about `Paho.midNext` instantiated with the literals extracted from
`Client._mid_generate` (`Paho.Gen.midWrap` …): editing `65536`, `== `, `= 1` or
`+= 1` in the source regenerates different literals and these proofs stop checking.
-/
import Paho.Model.Mid

namespace Paho

theorem midNext_eq (last : Nat) : midNext last = if last + 1 = 65536 then 1 else last + 1 := by
  simp [midNext, Gen.midIncr, Gen.midWrapCmp, Gen.midWrap, Gen.midReset, Cmp.evalNat]

/-- every id handed out lies in 1..65535 (given the invariant `_last_mid ≤ 65535`, which
holds initially and is preserved: `c14_inv`). -/
theorem c14_range (last : Nat) (h : last ≤ 65535) : 1 ≤ midNext last ∧ midNext last ≤ 65535 := by
  rw [midNext_eq]; split <;> omega

theorem c14_inv_init : Gen.midInit ≤ 65535 := by decide

theorem c14_wrap : midNext 65535 = 1 := by rw [midNext_eq]; rfl

theorem c14_never_zero (last : Nat) : midNext last ≠ 0 := by
  rw [midNext_eq]; split <;> omega

/-- closed form of one step for states inside the range -/
theorem midNext_mod (last : Nat) (h : last ≤ 65535) : midNext last = last % 65535 + 1 := by
  rw [midNext_eq]; split <;> omega

/-- every element of any allocation sequence is in range -/
theorem c14_seq_range (n last : Nat) (h : last ≤ 65535) : ∀ m ∈ midSeq last n, 1 ≤ m ∧ m ≤ 65535 := by
  induction n generalizing last with
  | zero => simp [midSeq]
  | succ n ih =>
    intro m hm
    simp only [midSeq, List.mem_cons] at hm
    rcases hm with rfl | hm
    · exact c14_range last h
    · exact ih (midNext last) (c14_range last h).2 m hm

theorem midSeq_length (n last : Nat) : (midSeq last n).length = n := by
  induction n generalizing last with
  | zero => rfl
  | succ n ih => simp [midSeq, ih]

/-- the k-th allocation (0-based) starting from `_last_mid = last` returns
`(last + k) mod 65535 + 1`: the ids cycle through 1..65535 and wrap from 65535 to 1. -/
theorem c14_cycle (n last k : Nat) (h : last ≤ 65535) (hk : k < n) :
    (midSeq last n)[k]? = some ((last + k) % 65535 + 1) := by
  induction n generalizing last k with
  | zero => omega
  | succ n ih =>
    cases k with
    | zero => simp [midSeq, midNext_mod last h]
    | succ k =>
      have h' := (c14_range last h).2
      simp only [midSeq, List.getElem?_cons_succ]
      rw [ih (midNext last) k h' (by omega), midNext_mod last h]
      congr 2
      omega

/-- two allocations fewer than 65535 apart never return the same id (sequentially;
the concurrent statement is C07/C14-concurrent over the interleaving model). -/
theorem c14_distinct_window (n last i j : Nat) (h : last ≤ 65535) (hij : i < j) (hj : j < n)
    (hw : j - i < 65535) : (midSeq last n)[i]? ≠ (midSeq last n)[j]? := by
  rw [c14_cycle n last i h (by omega), c14_cycle n last j h hj]
  intro heq
  have : (last + i) % 65535 = (last + j) % 65535 := by
    have := Option.some.inj heq; omega
  omega

/-- non-vacuity: a concrete run across the wrap -/
example : midSeq 65533 4 = [65534, 65535, 1, 2] := by decide

end Paho
