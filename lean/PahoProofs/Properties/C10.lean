/-
C10 — connection state and on_connect/on_disconnect contract; C16 — socket lifecycle callbacks;
C06 (TCP part) — outgoing byte stream under partial writes.
All are statements about every history of operations (`ops : List Op`, any length) from the initial state.

Proof architecture (see PahoProofs/Lemmas/Session*.lean): every handler of the model is a finite path of
atomic actions on a `View` of the state (`SessionAct`, `SessionRefine*`); the invariants are proved once per
atomic action (`SessionInvState`, `SessionInvLog`, `SessionInvConn`, `SessionDisc`); the wake-up invariant,
which only holds at operation boundaries, is proved directly on the model (`SessionWakeup`).
-/
import Paho.Model.Session
import Paho.Model.SessionInv
import PahoProofs.Lemmas.SessionDefs
import PahoProofs.Lemmas.SessionRefine3
import PahoProofs.Lemmas.SessionInvState
import PahoProofs.Lemmas.SessionInvLog
import PahoProofs.Lemmas.SessionInvConn
import PahoProofs.Lemmas.SessionDisc
import PahoProofs.Lemmas.SessionWakeup

namespace Paho

namespace SessAct

/-- all the action-level invariants -/
structure InvAll (v : View) : Prop where
  s : InvS v
  l : InvL v
  c : InvC v
  t : v.ext = true → InvT v

theorem Act.invAll {k : Kind} {v v' : View} (h : Act k v v') (hi : InvAll v) : InvAll v' where
  s := h.invS hi.s
  l := h.invL hi.s hi.l
  c := h.invC hi.s hi.c
  t := fun hext => by
    have he : v.ext = true := by rw [← h.ext_eq]; exact hext
    exact h.invT he hi.s (hi.t he)

theorem Path.invAll {P : Kind → Bool} {v v' : View} (h : Path P v v') (hi : InvAll v) : InvAll v' := by
  induction h with
  | refl _ => exact hi
  | cons ha _ _ ih => exact ih (ha.invAll hi)

theorem invAll_init (cfg : Cfg) (proto : Nat) (t : Nat) : InvAll (view (S.init cfg proto t)) where
  s := invS_init cfg proto t
  l := invL_init cfg proto t
  c := invC_init cfg proto t
  t := fun _ => invT_init cfg proto t

/-- one application-level step, as an arbitrary path -/
theorem step_trA (s : S) (op : Op) : TrA (view s) (view (s.step op)) := by
  rcases step_tr s op with ⟨h | h, _⟩ | ⟨_, v1, ha, h⟩
  · exact h.toA
  · exact h.toA
  · exact Path.cons ha rfl h.toA

theorem invAll_run (ops : List Op) : ∀ s : S, InvAll (view s) → InvAll (view (s.run ops)) := by
  induction ops with
  | nil => intro s h; exact h
  | cons op ops ih =>
    intro s h
    exact ih (s.step op) ((step_trA s op).invAll h)

theorem invAll_runFrom (cfg : Cfg) (proto : Nat) (ops : List Op) : InvAll (view (runFrom cfg proto ops)) :=
  invAll_run ops _ (invAll_init cfg proto t0)

theorem run_ext (ops : List Op) : ∀ s : S, (view (s.run ops)).ext = (view s).ext ∧
    (view (s.run ops)).cfgOk = (view s).cfgOk := by
  induction ops with
  | nil => intro s; exact ⟨rfl, rfl⟩
  | cons op ops ih =>
    intro s
    have h := step_trA s op
    have := ih (s.step op)
    exact ⟨this.1.trans h.ext_eq, this.2.trans h.cfgOk_eq⟩

theorem runFrom_ext (cfg : Cfg) (proto : Nat) (ops : List Op) :
    (runFrom cfg proto ops).cfg.ext = cfg.ext := (run_ext ops _).1

theorem runFrom_cfgOk (cfg : Cfg) (proto : Nat) (ops : List Op) :
    cfgOk (runFrom cfg proto ops).cfg = cfgOk cfg := (run_ext ops _).2

theorem newEvents_eq {s : S} {op : Op} {evs : List Ev} (h : (s.step op).log = s.log ++ evs) :
    newEvents s op = evs := by
  unfold newEvents; rw [h]; exact List.drop_left

end SessAct

open SessAct

/-! ## C10 -/

/-- is_connected() ⇒ the client holds an open socket on which a CONNACK accepted the connection -/
theorem c10_connected_sound (cfg : Cfg) (proto : Nat) (ops : List Op) :
    (runFrom cfg proto ops).invConnected = true :=
  invS_connected (invAll_runFrom cfg proto ops).s

/-- with an open socket: state DISCONNECTING ⇔ disconnect() was called on that connection -/
theorem c10_disconnecting_iff (cfg : Cfg) (proto : Nat) (ops : List Op) :
    (runFrom cfg proto ops).invDisconnecting = true :=
  invS_disconnecting (invAll_runFrom cfg proto ops).s

/-- in every step: the number of on_disconnect calls equals the number of connections that ended for a
reason other than connect()/reconnect() replacing them, and at most one connection ends that way -/
theorem c10_disc_once (cfg : Cfg) (proto : Nat) (ops : List Op) (op : Op) :
    stepDiscOk (newEvents (runFrom cfg proto ops) op) = true := by
  have hi := (invAll_runFrom cfg proto ops).s
  have hsp : StepPath (view (runFrom cfg proto ops)) (view ((runFrom cfg proto ops).step op)) := by
    rcases step_tr (runFrom cfg proto ops) op with ⟨h | h, _⟩ | ⟨_, v1, ha, h⟩
    · exact .normal h
    · exact .reconn h
    · exact .disc v1 ha h
  obtain ⟨evs, hlog, hok⟩ := hsp.discOk Act.invS hi
  rw [newEvents_eq hlog]; exact hok

/-- a client-generated on_disconnect reports success iff disconnect() had been called on that connection
(before this step, or this step is the disconnect() call itself) -/
theorem c10_disc_rc (cfg : Cfg) (proto : Nat) (ops : List Op) (op : Op) (rc : Nat) :
    let s := runFrom cfg proto ops
    Ev.onDisconnect rc false ∈ newEvents s op →
      (rc = 0 ↔ (s.discCalled = true ∨ op matches .disconnect)) := by
  intro s hmem
  have hi : InvS (view s) := (invAll_runFrom cfg proto ops).s
  rcases step_tr s op with ⟨h | h, hd⟩ | ⟨hop, v1, ha, h⟩
  · obtain ⟨evs, hlog, _, hrc, hnone⟩ := TrN.disc Act.invS h hi
    rw [newEvents_eq hlog] at hmem
    have h1 := hrc rc hmem
    constructor
    · intro h0; exact Or.inl (h1.mp h0)
    · rintro (hdc | hm)
      · exact h1.mpr hdc
      · have hop : op = .disconnect := by cases op <;> simp_all
        exact absurd hmem (hnone (hd hop) rc false)
  · obtain ⟨evs, hlog, _, hno⟩ := TrQ.disc h
    rw [newEvents_eq hlog] at hmem
    exact absurd hmem (hno rc false)
  · obtain ⟨evs, hlog, hrc⟩ := disc_step_rc Act.invS ha h hi
    rw [newEvents_eq hlog] at hmem
    subst hop
    exact ⟨fun _ => Or.inr rfl, fun _ => hrc rc hmem⟩

/-- nothing is written on a connection after its socket was closed -/
theorem c10_no_tx_after_close (cfg : Cfg) (proto : Nat) (ops : List Op) (c : Nat) (i j : Nat) (b : Bytes) (r : Bool) :
    let log := (runFrom cfg proto ops).log
    log[i]? = some (.sclose c r) → log[j]? = some (.tx c b) → j < i :=
  invL_no_tx_after_close (invAll_runFrom cfg proto ops).l c i j b r

-- STATEMENT CHANGED: hypothesis `hcfg` added. As originally stated (no hypothesis) the theorem is FALSE: when the
-- CONNECT packet cannot be encoded (`struct.pack("!H", keepalive)` fails for keepalive > 65535, or the client id is
-- longer than 65535 bytes) `_send_connect` raises after the socket has been created, nothing is queued, and the next
-- packet handed to the connection is not a CONNECT. Counterexample (checked with `#eval`):
--   `(runFrom {keepalive := 70000} 4 [.connect true, .subscribe [97] 0]).log` contains, for connection 1, the single
--   queued packet `[130, 6, 0, 1, 0, 1, 97, 0]` (SUBSCRIBE, first byte 0x82 ≠ 0x10).
-- The hypothesis is exactly the condition under which `encConnect` succeeds for every protocol version.
/-- the first packet handed to every connection is CONNECT (first byte 0x10), and no second CONNECT follows -/
theorem c10_connect_first (cfg : Cfg) (proto : Nat) (ops : List Op) (c : Nat)
    (hcfg : cfg.keepalive ≤ 65535 ∧ cfg.clientId.length ≤ 65535) :
    let qs := (runFrom cfg proto ops).log.filterMap (fun e => match e with | .queued c' b => if c' = c then some b else none | _ => none)
    (∀ b, qs.head? = some b → b.head? = some 0x10) ∧ (qs.tail.all fun b => b.head? != some 0x10) = true := by
  have hok : (view (runFrom cfg proto ops)).cfgOk = true := by
    show cfgOk (runFrom cfg proto ops).cfg = true
    rw [runFrom_cfgOk]; simp [cfgOk, hcfg.1, hcfg.2]
  exact ConnFirst.c10 ((invAll_runFrom cfg proto ops).c.first hok c)

/-! ## C16 -/

/-- whenever control returns to the application with an open socket and unsent data, a write
registration is outstanding -/
theorem c16_no_lost_wakeup (cfg : Cfg) (proto : Nat) (ops : List Op) :
    (runFrom cfg proto ops).invWakeup = true :=
  SessWake.wakeup_run cfg proto ops

theorem c16_reg_needs_socket (cfg : Cfg) (proto : Nat) (ops : List Op) :
    (runFrom cfg proto ops).invRegSock = true :=
  invS_regSock (invAll_runFrom cfg proto ops).s

/-- the socket callbacks are well nested (see `sockTraceOk`) -/
theorem c16_trace (cfg : Cfg) (proto : Nat) (ops : List Op) (hext : cfg.ext = true) :
    sockTraceOk (runFrom cfg proto ops).log = true :=
  invT_ok ((invAll_runFrom cfg proto ops).t (by
    show (runFrom cfg proto ops).cfg.ext = true
    rw [runFrom_ext]; exact hext))

/-! ## C06 (raw TCP transport) -/

/-- bytes accepted by the transport ++ bytes still pending = bytes of the packets queued on the open connection -/
theorem c06_stream (cfg : Cfg) (proto : Nat) (ops : List Op) :
    invStream (runFrom cfg proto ops) = true :=
  invL_stream (invAll_runFrom cfg proto ops).l

theorem c06_queue_shape (cfg : Cfg) (proto : Nat) (ops : List Op) :
    (runFrom cfg proto ops).invQueueShape = true :=
  invS_queueShape (invAll_runFrom cfg proto ops).s

/-- for every connection, open or closed: what reached the transport is a prefix of what was queued on it -/
theorem c06_prefix (cfg : Cfg) (proto : Nat) (ops : List Op) (c : Nat) :
    let log := (runFrom cfg proto ops).log
    txOf c log <+: queuedOf c log :=
  invL_prefix (invAll_runFrom cfg proto ops).l c

/-- want_write() ⇔ unsent bytes remain -/
theorem c06_want_write (cfg : Cfg) (proto : Nat) (ops : List Op) :
    let s := runFrom cfg proto ops
    s.wantWrite = true ↔ pendingBytes s.outq ≠ [] :=
  invS_wantWrite (invAll_runFrom cfg proto ops).s

/-! ## non-vacuity: concrete histories exercising the properties -/

/-- a history reaching `connected` (with an open, acknowledged socket) -/
example : (runFrom {} 4 [.connect true, .rx (.pkt (.connack false 0)) true]).cstate = .connected := by decide +kernel

/-- a history with an open socket and `disconnect()` called (DISCONNECT blocked in the queue) -/
example : (runFrom {} 4 [.connect true, .send [.block], .disconnect]).cstate = .disconnecting ∧
    (runFrom {} 4 [.connect true, .send [.block], .disconnect]).discCalled = true ∧
    (runFrom {} 4 [.connect true, .send [.block], .disconnect]).wantWrite = true := by decide +kernel

/-- a step in which a connection ends with exactly one on_disconnect (transport EOF) -/
example : Ev.onDisconnect 7 false ∈ newEvents (runFrom {} 4 [.connect true]) (.rx .eof true) := by decide +kernel

end Paho
